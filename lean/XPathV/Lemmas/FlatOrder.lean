import XPathV.Lemmas.AxesLemmas
/-!
# Flat paths yield their nodes in document order (C12); child positions are proximity positions (C03)
-/
namespace XPathV
open XPathV.Model NumAlg

variable {F : Type} [NumAlg F]

/-! ## Item lists and their references -/

theorem numbered_map_r (l : List Ref) : (numbered l).map (·.r) = l := by
  unfold numbered
  rw [List.map_map]
  have : ((fun x : Item => x.r) ∘ fun (x : Ref × Nat) => (⟨x.1, x.2 + 1, 0⟩ : Item)) = Prod.fst := rfl
  rw [this, List.zipIdx_map_fst]

theorem plain_map_r (l : List Ref) : (plain l).map (·.r) = l := by
  unfold plain
  rw [List.map_map]
  exact List.map_id _

theorem flatMap_map_r (ins : List Item) (f : Ref → List Item) (g : Ref → List Ref)
    (h : ∀ r, (f r).map (·.r) = g r) :
    (ins.flatMap (fun it => f it.r)).map (·.r) = (ins.map (·.r)).flatMap g := by
  induction ins with
  | nil => rfl
  | cons x xs ih =>
    simp only [List.flatMap_cons, List.map_append, List.map_cons, ih, h]

/-! ## Attribute walk -/

theorem attrChain_attr (d : Doc) (i : Nat) :
    ∀ f k, (recAt d i).attrs.length - (k+1) < f →
      attrChain d f (.attr i k) =
        (List.range' (k+1) ((recAt d i).attrs.length - (k+1))).map (Ref.attr i) := by
  intro f
  induction f with
  | zero => intro k h; omega
  | succ f ih =>
    intro k h
    simp only [attrChain, Nav.moveNextAttr]
    by_cases hk : k + 1 < (recAt d i).attrs.length
    · simp only [hk, ↓reduceIte]
      rw [ih (k+1) (by omega)]
      have e : (recAt d i).attrs.length - (k+1) = ((recAt d i).attrs.length - (k+1+1)) + 1 := by omega
      rw [e, List.range'_succ, List.map_cons]
    · simp only [hk, ↓reduceIte]
      have e : (recAt d i).attrs.length - (k+1) = 0 := by omega
      rw [e]; rfl

/-- the attribute walk of a node yields its attributes `attr i 0, attr i 1, …` -/
theorem attrsM_node (d : Doc) (i : Nat) : attrsM d (.node i) = attrsOf d i := by
  unfold attrsM attrsOf
  simp only [Ref.isAttr, Bool.false_eq_true, ↓reduceIte, Ref.idx, attrChain, Nav.moveNextAttr]
  by_cases h : (recAt d i).attrs.length > 0
  · simp only [h, ↓reduceIte]
    rw [attrChain_attr d i _ 0 (by omega)]
    have e : (recAt d i).attrs.length = ((recAt d i).attrs.length - (0+1)) + 1 := by omega
    rw [List.range_eq_range']
    conv => rhs; rw [e, List.range'_succ, List.map_cons]
  · simp only [h, ↓reduceIte]
    have e : (recAt d i).attrs.length = 0 := by omega
    rw [e]; rfl

theorem attrsM_attr (d : Doc) (i k : Nat) : attrsM d (.attr i k) = [] := rfl

theorem childrenM_attr (d : Doc) (i k : Nat) : childrenM d (.attr i k) = [] := rfl

/-! ## The separation invariant -/

/-- `a` comes before `b` and nothing below `a` (children, attributes) can reach `b` or anything
below `b`: for non-attribute `a` the subtree of `a` ends before `b`; attributes are ordered by
owner, then index -/
def SepRel (d : Doc) : Ref → Ref → Prop
  | .node i, .node j => endOf d i ≤ j
  | .node i, .attr j _ => endOf d i ≤ j
  | .attr i _, .node j => i < j
  | .attr i k, .attr j k' => i < j ∨ (i = j ∧ k < k')

theorem ref_lt_iff (a b : Ref) : Ref.lt a b = true ↔
    (a.ord.1 < b.ord.1 ∨ (a.ord.1 = b.ord.1 ∧ a.ord.2 < b.ord.2)) := by
  unfold Ref.lt
  simp only [Bool.or_eq_true, Bool.and_eq_true, decide_eq_true_eq, beq_iff_eq]

theorem SepRel.lt {d : Doc} {a b : Ref} (h : SepRel d a b) : Ref.lt a b = true := by
  rw [ref_lt_iff]
  cases a with
  | node i =>
    have := endOf_gt d i
    cases b with
    | node j =>
      simp only [SepRel] at h
      simp only [Ref.ord]
      omega
    | attr j k' =>
      simp only [SepRel] at h
      simp only [Ref.ord]
      omega
  | attr i k =>
    cases b with
    | node j =>
      simp only [SepRel] at h
      simp only [Ref.ord]
      omega
    | attr j k' =>
      simp only [SepRel] at h
      simp only [Ref.ord]
      omega

/-- the induction invariant -/
def Flat (d : Doc) (l : List Ref) : Prop := l.Pairwise (SepRel d)

theorem Flat.sorted {d : Doc} {l : List Ref} (h : Flat d l) :
    l.Pairwise (fun a b => Ref.lt a b = true) :=
  List.Pairwise.imp (fun h => h.lt) h

theorem Flat.filter {d : Doc} {l : List Ref} (p : Ref → Bool) (h : Flat d l) : Flat d (l.filter p) :=
  List.Pairwise.filter p h

theorem flat_single (d : Doc) (c : Ref) : Flat d [c] := List.pairwise_singleton _ _

/-! ## One step keeps the invariant -/

/-- a reference outside the document has no children -/
theorem childrenM_oob (d : Doc) (i : Nat) (hi : d.length ≤ i) : childrenM d (.node i) = [] := by
  unfold childrenM Nav.moveChild
  have : ¬ (i + 1 < d.length ∧ dep d (i+1) = dep d i + 1) := fun h => by omega
  simp only [this, ↓reduceIte]

theorem children_own_sep {d : Doc} (wf : WF d) (r : Ref) :
    (childrenM d r).Pairwise (SepRel d) := by
  cases r with
  | attr i k => rw [childrenM_attr]; exact List.Pairwise.nil
  | node i =>
    rcases Nat.lt_or_ge i d.length with hr | hr
    · obtain ⟨e, _, _, hp⟩ := children_sorted wf i hr
      rw [e, List.pairwise_map]
      exact hp
    · rw [childrenM_oob d i hr]; exact List.Pairwise.nil

theorem children_cross_sep {d : Doc} (wf : WF d) (r₁ r₂ : Ref)
    (h : SepRel d r₁ r₂) : ∀ x ∈ childrenM d r₁, ∀ y ∈ childrenM d r₂, SepRel d x y := by
  intro x hx y hy
  cases r₁ with
  | attr i k => rw [childrenM_attr] at hx; cases hx
  | node i =>
    cases r₂ with
    | attr j k => rw [childrenM_attr] at hy; cases hy
    | node j =>
      rcases Nat.lt_or_ge i d.length with h₁ | h₁
      · rcases Nat.lt_or_ge j d.length with h₂ | h₂
        · obtain ⟨e₁, _, hm₁, _⟩ := children_sorted wf i h₁
          obtain ⟨e₂, _, hm₂, _⟩ := children_sorted wf j h₂
          rw [e₁, List.mem_map] at hx
          rw [e₂, List.mem_map] at hy
          obtain ⟨a, ha, rfl⟩ := hx
          obtain ⟨b, hb, rfl⟩ := hy
          have := hm₁ a ha
          have := hm₂ b hb
          simp only [SepRel] at h ⊢
          omega
        · rw [childrenM_oob d j h₂] at hy; cases hy
      · rw [childrenM_oob d i h₁] at hx; cases hx

theorem flat_children_step {d : Doc} (wf : WF d) (t : Ref → Bool) (l : List Ref) (h : Flat d l) :
    Flat d (l.flatMap (fun r => (childrenM d r).filter t)) := by
  unfold Flat
  rw [List.pairwise_flatMap]
  constructor
  · intro r _
    exact (children_own_sep wf r).filter t
  · exact List.Pairwise.imp (fun {a b} hab x hx y hy =>
      children_cross_sep wf a b hab x (List.mem_filter.1 hx).1 y (List.mem_filter.1 hy).1) h

theorem attrs_own_sep (d : Doc) (r : Ref) : (attrsM d r).Pairwise (SepRel d) := by
  cases r with
  | attr i k => rw [attrsM_attr]; exact List.Pairwise.nil
  | node i =>
    rw [attrsM_node]
    unfold attrsOf
    rw [List.pairwise_map]
    exact List.pairwise_lt_range.imp (fun {a b} h => Or.inr ⟨rfl, h⟩)

theorem attrs_cross_sep (d : Doc) (r₁ r₂ : Ref) (h : SepRel d r₁ r₂) :
    ∀ x ∈ attrsM d r₁, ∀ y ∈ attrsM d r₂, SepRel d x y := by
  intro x hx y hy
  cases r₁ with
  | attr i k => rw [attrsM_attr] at hx; cases hx
  | node i =>
    cases r₂ with
    | attr j k => rw [attrsM_attr] at hy; cases hy
    | node j =>
      rw [attrsM_node] at hx hy
      unfold attrsOf at hx hy
      rw [List.mem_map] at hx hy
      obtain ⟨a, _, rfl⟩ := hx
      obtain ⟨b, _, rfl⟩ := hy
      have := endOf_gt d i
      simp only [SepRel] at h ⊢
      left; omega

theorem flat_attrs_step {d : Doc} (t : Ref → Bool) (l : List Ref) (h : Flat d l) :
    Flat d (l.flatMap (fun r => (attrsM d r).filter t)) := by
  unfold Flat
  rw [List.pairwise_flatMap]
  constructor
  · intro r _
    exact (attrs_own_sep d r).filter t
  · exact List.Pairwise.imp (fun {a b} hab x hx y hy =>
      attrs_cross_sep d a b hab x (List.mem_filter.1 hx).1 y (List.mem_filter.1 hy).1) h

/-! ## Part A: flat plans -/

/-- plans made of `child`, `attribute` and `self` steps from the context node -/
inductive FlatPlan : Plan → Prop
  | context : FlatPlan .context
  | child (a : AxisInfo) {p : Plan} : FlatPlan p → FlatPlan (.child a p)
  | cachedChild (a : AxisInfo) {p : Plan} : FlatPlan p → FlatPlan (.cachedChild a p)
  | attr (a : AxisInfo) {p : Plan} : FlatPlan p → FlatPlan (.attr a p)
  | self (a : AxisInfo) {p : Plan} : FlatPlan p → FlatPlan (.self a p)

theorem sel_child_refs (d : Doc) (cfg : ECfg) (a : AxisInfo) (ins : List Item) :
    (ins.flatMap (fun it => numbered ((childrenM d it.r).filter (test d cfg a)))).map (·.r) =
      (ins.map (·.r)).flatMap (fun r => (childrenM d r).filter (test d cfg a)) :=
  flatMap_map_r ins (fun r => numbered ((childrenM d r).filter (test d cfg a))) _
    (fun _ => numbered_map_r _)

theorem sel_attr_refs (d : Doc) (cfg : ECfg) (a : AxisInfo) (ins : List Item) :
    (ins.flatMap (fun it => plain ((attrsM d it.r).filter (test d cfg a)))).map (·.r) =
      (ins.map (·.r)).flatMap (fun r => (attrsM d r).filter (test d cfg a)) :=
  flatMap_map_r ins (fun r => plain ((attrsM d r).filter (test d cfg a))) _
    (fun _ => plain_map_r _)

/-- the invariant holds for the output of every flat plan -/
theorem flat_inv {d : Doc} (wf : WF d) (cfg : ECfg) (c : Ref) {p : Plan}
    (hp : FlatPlan p) : ∀ l, sel (F := F) d cfg p c = .ok l → Flat d (l.map (·.r)) := by
  induction hp with
  | context =>
    intro l h
    simp only [sel] at h
    cases h
    exact flat_single d c
  | child a _ ih =>
    intro l h
    simp only [sel, bind, Except.bind] at h
    split at h
    · cases h
    · rename_i ins hins
      cases h
      rw [sel_child_refs]
      exact flat_children_step wf _ _ (ih ins hins)
  | cachedChild a _ ih =>
    intro l h
    simp only [sel, bind, Except.bind] at h
    split at h
    · cases h
    · rename_i ins hins
      cases h
      rw [sel_child_refs]
      exact flat_children_step wf _ _ (ih ins hins)
  | attr a _ ih =>
    intro l h
    simp only [sel, bind, Except.bind] at h
    split at h
    · cases h
    · rename_i ins hins
      cases h
      rw [sel_attr_refs]
      exact flat_attrs_step _ _ (ih ins hins)
  | self a _ ih =>
    intro l h
    simp only [sel, bind, Except.bind] at h
    split at h
    · cases h
    · rename_i ins hins
      cases h
      rw [plain_map_r]
      exact (ih ins hins).filter _

/-- **C12**: a flat path yields its nodes strictly increasing in document order (hence ordered and
without repetition), from every context reference (node or attribute) -/
theorem flat_sorted {d : Doc} (wf : WF d) (cfg : ECfg) (c : Ref) {p : Plan}
    (hp : FlatPlan p) (l : List Item) (h : sel (F := F) d cfg p c = .ok l) :
    (l.map (·.r)).Pairwise (fun a b => Ref.lt a b = true) :=
  (flat_inv wf cfg c hp l h).sorted

theorem ref_lt_irrefl (a : Ref) : Ref.lt a a = false := by
  cases h : Ref.lt a a with
  | false => rfl
  | true => rw [ref_lt_iff] at h; omega

/-- **C12**: no node is reported twice by a flat path -/
theorem flat_nodup {d : Doc} (wf : WF d) (cfg : ECfg) (c : Ref) {p : Plan}
    (hp : FlatPlan p) (l : List Item) (h : sel (F := F) d cfg p c = .ok l) :
    (l.map (·.r)).Nodup :=
  List.Pairwise.imp (fun {a b} hab e => by subst e; rw [ref_lt_irrefl] at hab; cases hab)
    (flat_sorted wf cfg c hp l h)

/-! ## A single descendant step -/

theorem descItems_map_r (l : List (Ref × Nat)) :
    (l.zipIdx.map (fun (p, i) => (⟨p.1, i + 1, p.2⟩ : Item))).map (·.r) = l.map (fun p : Ref × Nat => p.1) := by
  rw [List.map_map]
  have : ((fun x : Item => x.r) ∘ fun (x : (Ref × Nat) × Nat) => (⟨x.1.1, x.2 + 1, x.1.2⟩ : Item)) =
      (fun p : Ref × Nat => p.1) ∘ Prod.fst := rfl
  rw [this, ← List.map_map, List.zipIdx_map_fst]

/-- the references a descendant step yields below one node: the node itself when
`descendant-or-self` matches it, then the matching nodes of the open interval `(i, endOf i)` -/
theorem desc_refs {d : Doc} (wf : WF d) (t : Ref → Bool) (self : Bool) (i : Nat) (hi : i < d.length) :
    ((if self && t (.node i) then [(Ref.node i, 0)] else []) ++
        (descM d (.node i)).filter (fun p : Ref × Nat => t p.1)).map (fun p : Ref × Nat => p.1) =
      (if self && t (.node i) then [Ref.node i] else []) ++
        ((List.range' (i+1) (endOf d i - (i+1))).map Ref.node).filter t := by
  rw [List.map_append, ← desc_range wf i hi, List.filter_map]
  congr 1
  split <;> rfl

theorem desc_refs_sorted {d : Doc} (wf : WF d) (t : Ref → Bool) (self : Bool) (i : Nat)
    (hi : i < d.length) :
    (((if self && t (.node i) then [(Ref.node i, 0)] else []) ++
        (descM d (.node i)).filter (fun p : Ref × Nat => t p.1)).map (fun p : Ref × Nat => p.1)).Pairwise
      (fun a b => Ref.lt a b = true) := by
  rw [desc_refs wf t self i hi, List.pairwise_append]
  refine ⟨?_, ?_, ?_⟩
  · split
    · exact List.pairwise_singleton _ _
    · exact List.Pairwise.nil
  · apply List.Pairwise.filter
    rw [List.pairwise_map]
    exact (List.pairwise_lt_range' (s := i+1) (n := endOf d i - (i+1)) 1).imp
      (fun {a b} h => (lt_node a b).2 h)
  · intro a ha b hb
    have ha' : a = .node i := by
      split at ha
      · exact List.mem_singleton.1 ha
      · cases ha
    subst ha'
    obtain ⟨hb, _⟩ := List.mem_filter.1 hb
    rw [List.mem_map] at hb
    obtain ⟨j, hj, rfl⟩ := hb
    rw [List.mem_range'_1] at hj
    exact (lt_node i j).2 (by omega)

/-- **C12**, descendant step from the context node: strictly increasing in document order -/
theorem desc_sorted {d : Doc} (wf : WF d) (cfg : ECfg) (a : AxisInfo) (self : Bool) (i : Nat)
    (hi : i < d.length) (l : List Item)
    (h : sel (F := F) d cfg (.descendant a self .context) (.node i) = .ok l) :
    (l.map (·.r)).Pairwise (fun a b => Ref.lt a b = true) := by
  simp only [sel, bind, Except.bind, List.flatMap_cons, List.flatMap_nil, List.append_nil] at h
  cases h
  rw [descItems_map_r]
  exact desc_refs_sorted wf (test d cfg a) self i hi

/-- **C12**, descendant step from the root (`//x`, `/descendant::x`) -/
theorem desc_abs_sorted {d : Doc} (wf : WF d) (cfg : ECfg) (a : AxisInfo) (self : Bool) (c : Ref)
    (l : List Item)
    (h : sel (F := F) d cfg (.descendant a self .absolute) c = .ok l) :
    (l.map (·.r)).Pairwise (fun a b => Ref.lt a b = true) := by
  simp only [sel, bind, Except.bind, List.flatMap_cons, List.flatMap_nil, List.append_nil,
    Nav.root] at h
  cases h
  rw [descItems_map_r]
  exact desc_refs_sorted wf (test d cfg a) self 0 wf.pos

/-! ## Part B: child positions are proximity positions (C03) -/

/-- the child walk is the specification's child axis from **every** reference of a well-formed
document (attributes and references outside the document have no children on either side) -/
theorem children_spec_all {d : Doc} (wf : WF d) (r : Ref) : childrenM d r = Spec.children d r := by
  cases r with
  | attr i k =>
    rw [childrenM_attr]
    symm
    unfold Spec.children allNodes
    rw [List.filter_eq_nil_iff]
    intro x hx
    rw [List.mem_map] at hx
    obtain ⟨j, _, rfl⟩ := hx
    rw [parent?_node]
    cases parentFrom d (dep d j) j <;> simp
  | node i =>
    rcases Nat.lt_or_ge i d.length with hi | hi
    · exact children_spec wf i hi
    · rw [childrenM_oob d i hi]
      symm
      unfold Spec.children allNodes
      rw [List.filter_eq_nil_iff]
      intro x hx
      rw [List.mem_map] at hx
      obtain ⟨j, hj, rfl⟩ := hx
      rw [List.mem_range] at hj
      intro h
      rw [beq_iff_eq, parent?_node_eq] at h
      have := (parentFrom_some d _ _ _ h).1
      omega

/-- every candidate of a child step has the step's origin as its parent -/
theorem children_parent {d : Doc} (wf : WF d) (r x : Ref) (hx : x ∈ childrenM d r) :
    Spec.parent? d x = some r := by
  rw [children_spec_all wf] at hx
  unfold Spec.children at hx
  exact beq_iff_eq.1 (List.mem_filter.1 hx).2

/-- the candidates of the step `child::a` below `r`, in document order -/
def childCands (d : Doc) (cfg : ECfg) (a : AxisInfo) (r : Ref) : List Ref :=
  (Spec.children d r).filter (nodeTestM d cfg a)

/-- `Theorems/C03.child_positions_restart` against the specification's child axis: a child step
yields, for each input node in turn, the matching children (in document order) numbered 1, 2, 3, … -/
theorem child_step_eq {d : Doc} (wf : WF d) (cfg : ECfg) (a : AxisInfo) (p : Plan) (c : Ref)
    (ins : List Item) (h : sel (F := F) d cfg p c = .ok ins) :
    sel (F := F) d cfg (.child a p) c =
      .ok (ins.flatMap (fun it => numbered (childCands d cfg a it.r))) := by
  simp only [sel, h, bind, Except.bind, test, childCands, children_spec_all wf]

theorem child_step_inv {d : Doc} (wf : WF d) (cfg : ECfg) (a : AxisInfo) (p : Plan) (c : Ref)
    (l : List Item) (h : sel (F := F) d cfg (.child a p) c = .ok l) :
    ∃ ins, sel (F := F) d cfg p c = .ok ins ∧
      l = ins.flatMap (fun it => numbered (childCands d cfg a it.r)) := by
  cases hp : sel (F := F) d cfg p c with
  | error e => simp only [sel, hp, bind, Except.bind] at h; cases h
  | ok ins =>
    rw [child_step_eq wf cfg a p c ins hp] at h
    cases h
    exact ⟨ins, rfl, rfl⟩

/-! ### positions inside `numbered` -/

theorem numbered_getElem? (cs : List Ref) (k : Nat) :
    (numbered cs)[k]? = (cs[k]?).map (fun r => (⟨r, k + 1, 0⟩ : Item)) := by
  unfold numbered
  rw [List.getElem?_map, List.getElem?_zipIdx]
  cases cs[k]? with
  | none => rfl
  | some r => simp only [Option.map_some, Nat.zero_add]

theorem numbered_length (cs : List Ref) : (numbered cs).length = cs.length := by
  unfold numbered
  rw [List.length_map, List.length_zipIdx]

/-- an item of `numbered cs` carries 1 + the number of items before it -/
theorem numbered_split (cs : List Ref) (A B : List Item) (x : Item) (h : numbered cs = A ++ x :: B) :
    x.pos = A.length + 1 ∧ cs[A.length]? = some x.r ∧ x.lvl = 0 := by
  have h1 : (numbered cs)[A.length]? = some x := by
    rw [h, List.getElem?_append_right (Nat.le_refl _), Nat.sub_self]
    rfl
  rw [numbered_getElem?] at h1
  cases hc : cs[A.length]? with
  | none => rw [hc] at h1; cases h1
  | some r =>
    rw [hc] at h1
    simp only [Option.map_some, Option.some.injEq] at h1
    subst h1
    exact ⟨rfl, rfl, rfl⟩

theorem mem_numbered (cs : List Ref) (y : Item) (h : y ∈ numbered cs) : y.r ∈ cs := by
  have : y.r ∈ (numbered cs).map (·.r) := List.mem_map.2 ⟨y, h, rfl⟩
  rwa [numbered_map_r] at this

/-- splitting a concatenation of blocks at an element: the element sits in one block -/
theorem flatMap_split {α β : Type} (f : α → List β) :
    ∀ (ins : List α) (A B : List β) (x : β), ins.flatMap f = A ++ x :: B →
      ∃ pre it post a b, ins = pre ++ it :: post ∧ f it = a ++ x :: b ∧
        A = pre.flatMap f ++ a ∧ B = b ++ post.flatMap f := by
  intro ins
  induction ins with
  | nil => intro A B x h; cases A <;> cases h
  | cons y ys ih =>
    intro A B x h
    rw [List.flatMap_cons, List.append_eq_append_iff] at h
    rcases h with ⟨a', h1, h2⟩ | ⟨c', h1, h2⟩
    · -- A = f y ++ a', the element lies in a later block
      obtain ⟨pre, it, post, a, b, e1, e2, e3, e4⟩ := ih a' B x h2
      refine ⟨y :: pre, it, post, a, b, ?_, e2, ?_, e4⟩
      · rw [e1]; rfl
      · rw [h1, e3, List.flatMap_cons, List.append_assoc]
    · -- f y = A ++ c', x :: B = c' ++ ys.flatMap f
      cases c' with
      | nil =>
        rw [List.nil_append] at h2
        obtain ⟨pre, it, post, a, b, e1, e2, e3, e4⟩ := ih [] B x (by rw [← h2]; rfl)
        refine ⟨y :: pre, it, post, a, b, ?_, e2, ?_, e4⟩
        · rw [e1]; rfl
        · rw [List.flatMap_cons, List.append_assoc, ← e3, h1, List.append_nil, List.append_nil]
      | cons z zs =>
        rw [List.cons_append, List.cons.injEq] at h2
        obtain ⟨rfl, h3⟩ := h2
        exact ⟨[], y, ys, A, zs, rfl, h1, rfl, h3⟩

/-- **C03**, block form (every input plan): an item of a child step's output lies in the block of
one input node `it`; its `pos` is 1 + the number of earlier items *of that block*, and it is the
candidate with that 1-based index among the matching children of `it.r` in document order — the
XPath proximity position for the forward axis `child` -/
theorem child_pos_block {d : Doc} (wf : WF d) (cfg : ECfg) (a : AxisInfo) (p : Plan) (c : Ref)
    (l : List Item) (h : sel (F := F) d cfg (.child a p) c = .ok l)
    (A B : List Item) (x : Item) (hl : l = A ++ x :: B) :
    ∃ ins pre it post blk rest, sel (F := F) d cfg p c = .ok ins ∧ ins = pre ++ it :: post ∧
      A = pre.flatMap (fun it => numbered (childCands d cfg a it.r)) ++ blk ∧
      numbered (childCands d cfg a it.r) = blk ++ x :: rest ∧
      x.pos = blk.length + 1 ∧ (childCands d cfg a it.r)[x.pos - 1]? = some x.r := by
  obtain ⟨ins, hins, e⟩ := child_step_inv wf cfg a p c l h
  rw [e] at hl
  obtain ⟨pre, it, post, blk, rest, e1, e2, e3, _⟩ := flatMap_split _ ins A B x hl
  obtain ⟨hp, hr, _⟩ := numbered_split _ blk rest x e2
  refine ⟨ins, pre, it, post, blk, rest, hins, e1, e3, e2, hp, ?_⟩
  rw [hp, Nat.add_sub_cancel]
  exact hr

/-- **C03**, counting form, for flat input paths: `pos` of an output item equals 1 + the number of
earlier output items that have the same parent -/
theorem child_pos_is_proximity {d : Doc} (wf : WF d) (cfg : ECfg) (a : AxisInfo) {p : Plan}
    (hp : FlatPlan p) (c : Ref) (l : List Item)
    (h : sel (F := F) d cfg (.child a p) c = .ok l)
    (A B : List Item) (x : Item) (hl : l = A ++ x :: B) :
    x.pos = 1 + (A.filter (fun y => Spec.parent? d y.r == Spec.parent? d x.r)).length := by
  obtain ⟨ins, pre, it, post, blk, rest, hins, e1, e3, e2, hpos, _⟩ :=
    child_pos_block wf cfg a p c l h A B x hl
  have cand_parent : ∀ (it' : Item) (y : Item), y ∈ numbered (childCands d cfg a it'.r) →
      Spec.parent? d y.r = some it'.r := by
    intro it' y hy
    have := mem_numbered _ y hy
    unfold childCands at this
    rw [← children_spec_all wf] at this
    exact children_parent wf it'.r y.r (List.mem_filter.1 this).1
  have hx : Spec.parent? d x.r = some it.r :=
    cand_parent it x (by rw [e2]; simp)
  -- inputs are strictly increasing, hence distinct
  have hsorted := flat_sorted (F := F) wf cfg c hp ins hins
  rw [e1, List.map_append, List.map_cons, List.pairwise_append] at hsorted
  have hpre : ∀ it' ∈ pre, it'.r ≠ it.r := by
    intro it' hit' e
    have := hsorted.2.2 it'.r (List.mem_map.2 ⟨it', hit', rfl⟩) it.r (by simp)
    rw [e, ref_lt_irrefl] at this
    cases this
  rw [e3, List.filter_append, List.length_append]
  have h1 : (pre.flatMap (fun it => numbered (childCands d cfg a it.r))).filter
      (fun y => Spec.parent? d y.r == Spec.parent? d x.r) = [] := by
    rw [List.filter_eq_nil_iff]
    intro y hy
    rw [List.mem_flatMap] at hy
    obtain ⟨it', hit', hy⟩ := hy
    rw [cand_parent it' y hy, hx]
    intro e
    rw [beq_iff_eq, Option.some.injEq] at e
    exact hpre it' hit' e
  have h2 : blk.filter (fun y => Spec.parent? d y.r == Spec.parent? d x.r) = blk := by
    rw [List.filter_eq_self]
    intro y hy
    rw [cand_parent it y (by rw [e2]; simp [hy]), hx]
    exact beq_self_eq_true _
  rw [h1, h2, hpos]
  simp only [List.length_nil]
  omega

/-- index form of `child_pos_is_proximity` -/
theorem child_pos_getElem {d : Doc} (wf : WF d) (cfg : ECfg) (a : AxisInfo) {p : Plan}
    (hp : FlatPlan p) (c : Ref) (l : List Item)
    (h : sel (F := F) d cfg (.child a p) c = .ok l) (k : Nat) (hk : k < l.length) :
    l[k].pos = 1 + ((l.take k).filter
      (fun y => Spec.parent? d y.r == Spec.parent? d l[k].r)).length := by
  apply child_pos_is_proximity wf cfg a hp c l h (l.take k) (l.drop (k+1)) l[k]
  rw [← List.drop_eq_getElem_cons hk, List.take_append_drop]

/-! ### numeric literal predicate: the n-th matching child -/

theorem mapM_ok {ε α β : Type} (g : α → β) (l : List α) :
    l.mapM (fun x => (Except.ok (g x) : Except ε β)) = .ok (l.map g) := by
  induction l with
  | nil => rfl
  | cons x xs ih =>
    rw [List.mapM_cons, ih]
    rfl

theorem zip_flags_filterMap {α : Type} (g : α → Bool) (l : List α) :
    (l.zip (l.map g)).filterMap (fun (x, b) => if b then some x else none) = l.filter g := by
  induction l with
  | nil => rfl
  | cons x xs ih =>
    simp only [List.map_cons, List.zip_cons_cons, List.filterMap_cons, List.filter_cons]
    cases g x with
    | true => simp only [↓reduceIte, ih]
    | false => simp only [Bool.false_eq_true, ↓reduceIte, ih]

def mkItem (p : Ref × Nat) : Item := ⟨p.1, p.2 + 1, 0⟩

theorem numbered_eq (cs : List Ref) : numbered cs = (cs.zipIdx 0).map mkItem := rfl

/-- candidates numbered from `k+1` on: nothing has position `n ≤ k` -/
theorem posFilter_none (n : Int) : ∀ (cs : List Ref) (k : Nat), n ≤ k →
    ((cs.zipIdx k).map mkItem).filter (fun it => some n == some (it.pos : Int)) = [] := by
  intro cs
  induction cs with
  | nil => intro k _; rfl
  | cons c cs ih =>
    intro k hk
    rw [List.zipIdx_cons, List.map_cons, List.filter_cons]
    have : (some n == some ((mkItem (c, k)).pos : Int)) = false := by
      rw [beq_eq_false_iff_ne]
      intro e
      rw [Option.some.injEq] at e
      simp only [mkItem] at e
      omega
    rw [this]
    simp only [Bool.false_eq_true, ↓reduceIte]
    exact ih (k+1) (by omega)

theorem posFilter_nth (n : Nat) : ∀ (cs : List Ref) (k : Nat), k + 1 ≤ n →
    ((cs.zipIdx k).map mkItem).filter (fun it => some (n : Int) == some (it.pos : Int)) =
      ((cs[n - 1 - k]?).toList).map (fun r => (⟨r, n, 0⟩ : Item)) := by
  intro cs
  induction cs with
  | nil => intro k _; rfl
  | cons c cs ih =>
    intro k hk
    rw [List.zipIdx_cons, List.map_cons, List.filter_cons]
    by_cases e : k + 1 = n
    · have : (some (n : Int) == some ((mkItem (c, k)).pos : Int)) = true := by
        rw [beq_iff_eq]
        simp only [mkItem]
        rw [e]
      rw [this, posFilter_none n cs (k+1) (by omega)]
      have e0 : n - 1 - k = 0 := by omega
      rw [e0]
      simp only [↓reduceIte, List.getElem?_cons_zero, Option.toList_some, List.map_cons,
        List.map_nil, mkItem]
      rw [e]
    · have : (some (n : Int) == some ((mkItem (c, k)).pos : Int)) = false := by
        rw [beq_eq_false_iff_ne]
        intro h
        rw [Option.some.injEq] at h
        simp only [mkItem] at h
        omega
      rw [this]
      simp only [Bool.false_eq_true, ↓reduceIte]
      rw [ih (k+1) (by omega)]
      have e1 : n - 1 - k = (n - 1 - (k+1)) + 1 := by omega
      rw [e1, List.getElem?_cons_succ]

theorem filterPositions_nil : filterPositions [] = [] := rfl

theorem filterPositions_single (it : Item) : filterPositions [it] = [⟨it.r, 1, 0⟩] := by
  simp [filterPositions, List.lookup]

/-- the `Select` of a filter with a numeric literal predicate, at list level: it keeps exactly the
input items whose `pos` is the integer the literal denotes (and renumbers them) -/
theorem filter_constNum_keeps_pos (d : Doc) (cfg : ECfg) (inp : Plan) (lex : String) (c : Ref)
    (ins : List Item) (n : Int)
    (hins : sel (F := F) d cfg inp c = .ok ins)
    (hn : toInt (Spec.strToNum lex : F) = some n) :
    sel (F := F) d cfg (.filter inp (.constNum lex)) c =
      .ok (filterPositions (ins.filter (fun it => some n == some (it.pos : Int)))) := by
  simp only [sel, hins, evalP, bind, Except.bind, pure, Except.pure, predDecision, hn]
  rw [mapM_ok (ε := EErr) (fun it : Item => some n == some (it.pos : Int)) ins]
  simp only [zip_flags_filterMap]

/-- **C03**: `child::a[n]` from a node yields exactly the n-th matching child in document order
(no node when there are fewer than `n`) -/
theorem nth_child_spec {d : Doc} (wf : WF d) (cfg : ECfg) (a : AxisInfo) (lex : String) (c : Ref)
    (n : Nat) (hn1 : 1 ≤ n) (hn : toInt (Spec.strToNum lex : F) = some (n : Int)) :
    sel (F := F) d cfg (.filter (.child a .context) (.constNum lex)) c =
      .ok ((((childCands d cfg a c)[n - 1]?).toList).map (fun r => (⟨r, 1, 0⟩ : Item))) := by
  have hins : sel (F := F) d cfg (.child a .context) c = .ok (numbered (childCands d cfg a c)) := by
    rw [child_step_eq wf cfg a .context c [⟨c, 1, 0⟩] (by simp only [sel])]
    simp only [List.flatMap_cons, List.flatMap_nil, List.append_nil]
  rw [filter_constNum_keeps_pos d cfg _ lex c _ (n : Int) hins hn, numbered_eq,
    posFilter_nth n _ 0 (by omega), Nat.sub_zero]
  cases (childCands d cfg a c)[n - 1]? with
  | none => rfl
  | some r =>
    simp only [Option.toList_some, List.map_cons, List.map_nil, filterPositions_single]

/-- the references `child::a[n]` yields -/
theorem nth_child_refs {d : Doc} (wf : WF d) (cfg : ECfg) (a : AxisInfo) (lex : String) (c : Ref)
    (n : Nat) (hn1 : 1 ≤ n) (hn : toInt (Spec.strToNum lex : F) = some (n : Int)) :
    (sel (F := F) d cfg (.filter (.child a .context) (.constNum lex)) c).map (fun l => l.map (·.r)) =
      .ok ((childCands d cfg a c)[n - 1]?).toList := by
  rw [nth_child_spec wf cfg a lex c n hn1 hn]
  cases (childCands d cfg a c)[n - 1]? <;> rfl

/-- a literal that denotes an integer below 1 selects nothing -/
theorem nth_child_none {d : Doc} (wf : WF d) (cfg : ECfg) (a : AxisInfo) (lex : String) (c : Ref)
    (n : Int) (hn0 : n ≤ 0) (hn : toInt (Spec.strToNum lex : F) = some n) :
    sel (F := F) d cfg (.filter (.child a .context) (.constNum lex)) c = .ok [] := by
  have hins : sel (F := F) d cfg (.child a .context) c = .ok (numbered (childCands d cfg a c)) := by
    rw [child_step_eq wf cfg a .context c [⟨c, 1, 0⟩] (by simp only [sel])]
    simp only [List.flatMap_cons, List.flatMap_nil, List.append_nil]
  rw [filter_constNum_keeps_pos d cfg _ lex c _ n hins hn, numbered_eq,
    posFilter_none n _ 0 (by omega)]
  rfl

/-! ### the specification side: `Spec.filterPos` with the predicate "position = n" -/

def keepFlag {α : Type} (p : α × Bool) : Option α := if p.2 then some p.1 else none

theorem specKeep_none (E : Nat → Bool) (n : Nat) (hE : ∀ m, 1 ≤ m → (E m = true ↔ m = n)) :
    ∀ (l : List Ref) (k : Nat), n ≤ k →
      (l.zip ((l.zipIdx k).map (fun p => E (p.2 + 1)))).filterMap keepFlag = [] := by
  intro l
  induction l with
  | nil => intro k _; rfl
  | cons c cs ih =>
    intro k hk
    rw [List.zipIdx_cons, List.map_cons, List.zip_cons_cons, List.filterMap_cons]
    have : E (k+1) = false := by
      cases h : E (k+1) with
      | false => rfl
      | true => have := (hE (k+1) (by omega)).1 h; omega
    simp only [keepFlag, this, Bool.false_eq_true, ↓reduceIte]
    exact ih (k+1) (by omega)

theorem specKeep_nth (E : Nat → Bool) (n : Nat) (hE : ∀ m, 1 ≤ m → (E m = true ↔ m = n)) :
    ∀ (l : List Ref) (k : Nat), k + 1 ≤ n →
      (l.zip ((l.zipIdx k).map (fun p => E (p.2 + 1)))).filterMap keepFlag =
        (l[n - 1 - k]?).toList := by
  intro l
  induction l with
  | nil => intro k _; rfl
  | cons c cs ih =>
    intro k hk
    rw [List.zipIdx_cons, List.map_cons, List.zip_cons_cons, List.filterMap_cons]
    by_cases e : k + 1 = n
    · have : E (k+1) = true := (hE (k+1) (by omega)).2 e
      have e0 : n - 1 - k = 0 := by omega
      have ht := specKeep_none E n hE cs (k+1) (by omega)
      simp only [keepFlag, this, ↓reduceIte, ht, e0, List.getElem?_cons_zero, Option.toList_some]
    · have : E (k+1) = false := by
        cases h : E (k+1) with
        | false => rfl
        | true => exact absurd ((hE (k+1) (by omega)).1 h) e
      have e1 : n - 1 - k = (n - 1 - (k+1)) + 1 := by omega
      have ht := ih (k+1) (by omega)
      simp only [keepFlag, this, Bool.false_eq_true, ↓reduceIte, ht]
      rw [e1, List.getElem?_cons_succ]

/-- what the specification keeps of a candidate list (in proximity order) for a numeric literal
predicate that equals exactly the position `n`: the n-th candidate -/
theorem spec_filterPos_nth (d : Doc) (cands : List Ref) (lex : String) (n : Nat) (hn1 : 1 ≤ n)
    (hx : ∀ m, 1 ≤ m → (NumAlg.eq (Spec.strToNum lex : F) (ofNat m) = true ↔ m = n)) :
    Spec.filterPos (F := F) cands (Spec.eval d (.num lex)) = .ok (cands[n - 1]?).toList := by
  simp only [Spec.filterPos, Spec.eval, bind, Except.bind, pure, Except.pure, Spec.Res.value,
    Spec.predTruth]
  rw [mapM_ok (ε := Spec.Err)
    (fun p : Ref × Nat => NumAlg.eq (Spec.strToNum lex : F) (ofNat (p.2 + 1))) cands.zipIdx]
  simp only
  have := specKeep_nth (fun m => NumAlg.eq (Spec.strToNum lex : F) (ofNat m)) n hx cands 0 (by omega)
  rw [Nat.sub_zero] at this
  rw [← this]
  rfl

/-- **C03**: for a numeric literal that denotes the integer `n ≥ 1` (engine side: `int(x) = n`;
specification side: `x = m` exactly for `m = n`), the engine's `child::a[n]` and the specification's
positional filter on the matching children keep the same nodes: the n-th candidate -/
theorem nth_child_agrees {d : Doc} (wf : WF d) (cfg : ECfg) (a : AxisInfo) (lex : String) (c : Ref)
    (n : Nat) (hn1 : 1 ≤ n) (hn : toInt (Spec.strToNum lex : F) = some (n : Int))
    (hx : ∀ m, 1 ≤ m → (NumAlg.eq (Spec.strToNum lex : F) (ofNat m) = true ↔ m = n)) :
    ∃ keep, Spec.filterPos (F := F) (childCands d cfg a c) (Spec.eval d (.num lex)) = .ok keep ∧
      (sel (F := F) d cfg (.filter (.child a .context) (.constNum lex)) c).map
        (fun l => l.map (·.r)) = .ok keep ∧
      keep = ((childCands d cfg a c)[n - 1]?).toList :=
  ⟨_, spec_filterPos_nth d _ lex n hn1 hx, nth_child_refs wf cfg a lex c n hn1 hn, rfl⟩

end XPathV

/-! ## Axiom audit -/
section AxiomAudit
open XPathV
#print axioms flat_inv
#print axioms flat_sorted
#print axioms flat_nodup
#print axioms desc_sorted
#print axioms desc_abs_sorted
#print axioms children_spec_all
#print axioms child_step_eq
#print axioms child_pos_block
#print axioms child_pos_is_proximity
#print axioms child_pos_getElem
#print axioms filter_constNum_keeps_pos
#print axioms nth_child_spec
#print axioms nth_child_refs
#print axioms nth_child_none
#print axioms spec_filterPos_nth
#print axioms nth_child_agrees
end AxiomAudit
