import XPathV.Lemmas.ApiSem2
import XPathV.Lemmas.PosSem2
/-!
# C03 at the public API: positional steps from the expression text

`ApiSem2` restates C02 against `Model.compile` / `Model.selectAll` / `Model.evaluate` for texts that
parse into `PredSem2.Frag2`.  Here the same for the positional steps of C03: a text that parses into
`q/child::a[f][b1]…[bk]` — `stackAst (.filter (.axis a q) f.ast) bs`, `q` in `Frag2 true`, `f` a
`PosForm`, the `bi` (outermost first) boolean predicates of `Frag2 false`; `bs = []` is the plain
positional step `.filter (.axis a q) f.ast`.

* `stackAst_filter_form`, `build_posStack_pathShape` — the plan `build` makes of such a tree is
  path-shaped (a filter or a merge), with no numeric side condition (`PosSem2.build_posStep2` gives
  the shape only under `f.Agree F d.length`, which mentions a number algebra and a document; the
  shape is needed before either is chosen, to know that `compile` does not answer "nil query").
* `compile_of_posStack`, `C03_sel_chain`, `C03_compile_chain_total`, `C03_compile_total`
-/
namespace XPathV.ApiSem
open XPathV XPathV.Model XPathV.PathSem XPathV.PredSem XPathV.PredSem2 XPathV.PosSem

variable {F : Type} [NumAlg F]

/-- a stack of predicates over a filter is a filter -/
theorem stackAst_filter_form (inp cond : Ast) (bs : List Ast) :
    ∃ i b, stackAst (.filter inp cond) bs = .filter i b := by
  cases bs with
  | nil => exact ⟨inp, cond, rfl⟩
  | cons b t => exact ⟨stackAst (.filter inp cond) t, b, rfl⟩

/-- **the plan `build` makes of a filter is path-shaped** (a filter or a merge), whatever the flags,
the state and the two switches -/
theorem build_filter_pathShape (regexOk : RegexOk) (limit : Nat) (snt sdf : Bool) (inp b : Ast)
    (fl : Flags) (st : BState) (o : BOut)
    (h : build regexOk limit snt sdf (.filter inp b) fl st = .ok o) : PathShape o.q := by
  obtain ⟨st1, io, X, _, hor⟩ := FlatFiltered.build_filter_shape regexOk limit snt sdf inp b fl st o h
  rcases hor with hq | ⟨_, parent, _, hq⟩ <;> (rw [hq]; trivial)

/-- **the plan `build` makes of a positional step followed by predicates is path-shaped**; no
numeric side condition, no hypothesis on the parts -/
theorem build_posStack_pathShape (regexOk : RegexOk) (limit : Nat) (snt sdf : Bool) (inp cond : Ast)
    (bs : List Ast) (fl : Flags) (st : BState) (o : BOut)
    (h : build regexOk limit snt sdf (stackAst (.filter inp cond) bs) fl st = .ok o) :
    PathShape o.q := by
  obtain ⟨i, b, e⟩ := stackAst_filter_form inp cond bs
  rw [e] at h
  exact build_filter_pathShape regexOk limit snt sdf i b fl st o h

/-- **`compile` on a text that parses into a positional step followed by predicates**: whenever the
builder succeeds, `compile` returns the builder's plan (it is never the nil query) -/
theorem compile_of_posStack (cc : CompileCfg) (ns : Option (List (String × String)))
    (text : List Char) (inp cond : Ast) (bs : List Ast) (o : BOut)
    (hparse : parse (fuelFor text) (defaultCfg ns) text = .ok (stackAst (.filter inp cond) bs))
    (hb : build cc.regexOk apiLimit cc.shortcutNeedsNodeTest cc.smartDescThroughFilter
      (stackAst (.filter inp cond) bs) {} {} = .ok o) :
    compile cc ns text = .ok o.q :=
  compile_of_build cc ns text (text_ne_nil_of_parse ns text _ hparse) _ o hparse hb
    (pathShape_ne_nil _ (build_posStack_pathShape _ _ _ _ inp cond bs _ _ o hb))

/-- C03 with following boolean predicates against the top-level oracle: `sel` of the built plan
succeeds with exactly the members of the node-set `Spec.evalTop` assigns to the tree -/
theorem C03_sel_chain {d : Doc} (wf : WF d) (cfg : ECfg) (hns : cfg.nsIface = true)
    (hinj : HashInj d cfg) (regexOk : RegexOk) (limit : Nat)
    (a : AxisInfo) (ha : a.axis = "child") (q : Ast) (hq : Frag2 true q)
    (f : PosForm) (hag : f.Agree F d.length) (bs : List Ast) (hbs : ∀ b ∈ bs, Frag2 false b)
    (st : BState) (o : BOut)
    (hb : build regexOk limit true false (stackAst (.filter (.axis a q) f.ast) bs) {} st = .ok o)
    (c : Ref) (hc : validRef d c = true) :
    ∃ out nsl, sel (F := F) d cfg o.q c = .ok out ∧
      Spec.evalTop (F := F) d (stackAst (.filter (.axis a q) f.ast) bs) c = .ok (.nodes nsl) ∧
      ∀ x, x ∈ refs out ↔ x ∈ nsl := by
  obtain ⟨qi, hok⟩ :=
    PosSem2.C03_chain2 (F := F) wf cfg hns hinj regexOk limit a ha q hq f hag bs hbs st o hb
  obtain ⟨ins, origins, g0, out, nsl, g, _, _, _, hout, hev, _, _, hm⟩ := hok c hc
  refine ⟨out, nsl, hout, ?_, hm⟩
  simp [Spec.evalTop, hev, bind, Except.bind, pure, Except.pure, Spec.Res.value]

/-- **the whole pipeline on a text that parses into `q/child::a[f][b1]…[bk]`** (`q` in `Frag2 true`,
`f : PosForm`, the `bi` in `Frag2 false`, listed outermost first): `compile` (source configuration)
either reports a *builder* error (never "empty", a parse error, lack of fuel or the nil query), or
returns a path-shaped plan on which `selectAll` and `evaluate` agree with the oracle at every valid
context node of every well-formed document, for every number algebra in which the positional form
is read as the oracle reads it (`f.Agree F d.length`, the side condition of `C03_main2`) -/
theorem C03_compile_chain_total (regexOk : RegexOk) (ns : Option (List (String × String)))
    (text : List Char) (a : AxisInfo) (ha : a.axis = "child") (q : Ast) (hq : Frag2 true q)
    (f : PosForm) (bs : List Ast) (hbs : ∀ b ∈ bs, Frag2 false b)
    (hparse : parse (fuelFor text) (defaultCfg ns) text =
      .ok (stackAst (.filter (.axis a q) f.ast) bs)) :
    (∃ e, compile { regexOk := regexOk } ns text = .error (.build e)) ∨
    (∃ p, compile { regexOk := regexOk } ns text = .ok p ∧ PathShape p ∧
      ∀ (F : Type) [NumAlg F] (d : Doc), WF d → ∀ cfg : ECfg, cfg.nsIface = true → HashInj d cfg →
        f.Agree F d.length → ∀ c, validRef d c = true →
          ∃ l nsl, selectAll (F := F) d cfg p c = .ok l ∧ evaluate (F := F) d cfg p c = .ok (.nodes l) ∧
            Spec.evalTop (F := F) d (stackAst (.filter (.axis a q) f.ast) bs) c = .ok (.nodes nsl) ∧
            ∀ x, x ∈ l ↔ x ∈ nsl) := by
  let cc : CompileCfg := { regexOk := regexOk }
  cases hb : build cc.regexOk apiLimit cc.shortcutNeedsNodeTest cc.smartDescThroughFilter
      (stackAst (.filter (.axis a q) f.ast) bs) {} {} with
  | error e => exact .inl ⟨e, compile_of_build_error cc ns text _ e hparse hb⟩
  | ok o =>
    have hcomp := compile_of_posStack cc ns text _ _ bs o hparse hb
    have hsh := build_posStack_pathShape _ _ _ _ _ _ bs _ _ o hb
    refine .inr ⟨o.q, hcomp, hsh, ?_⟩
    intro F _ d wf cfg hns hinj hag c hc
    rw [srcCfg_snt regexOk, srcCfg_sdf regexOk] at hb
    obtain ⟨out, nsl, h1, h2, h3⟩ :=
      C03_sel_chain (F := F) wf cfg hns hinj cc.regexOk apiLimit a ha q hq f hag bs hbs {} o hb c hc
    exact ⟨refs out, nsl, selectAll_of_sel d cfg o.q c out h1, evaluate_of_sel d cfg o.q hsh c out h1,
      h2, h3⟩

/-- **the whole pipeline on a text that parses into a positional step `q/child::a[f]`** — the
instance `bs = []` of `C03_compile_chain_total` -/
theorem C03_compile_total (regexOk : RegexOk) (ns : Option (List (String × String)))
    (text : List Char) (a : AxisInfo) (ha : a.axis = "child") (q : Ast) (hq : Frag2 true q)
    (f : PosForm)
    (hparse : parse (fuelFor text) (defaultCfg ns) text = .ok (.filter (.axis a q) f.ast)) :
    (∃ e, compile { regexOk := regexOk } ns text = .error (.build e)) ∨
    (∃ p, compile { regexOk := regexOk } ns text = .ok p ∧ PathShape p ∧
      ∀ (F : Type) [NumAlg F] (d : Doc), WF d → ∀ cfg : ECfg, cfg.nsIface = true → HashInj d cfg →
        f.Agree F d.length → ∀ c, validRef d c = true →
          ∃ l nsl, selectAll (F := F) d cfg p c = .ok l ∧ evaluate (F := F) d cfg p c = .ok (.nodes l) ∧
            Spec.evalTop (F := F) d (.filter (.axis a q) f.ast) c = .ok (.nodes nsl) ∧
            ∀ x, x ∈ l ↔ x ∈ nsl) :=
  C03_compile_chain_total regexOk ns text a ha q hq f [] (fun _ h => nomatch h) hparse

end XPathV.ApiSem

/-! ## Axiom audit -/
section AxiomAudit
open XPathV.ApiSem
end AxiomAudit
