import XPathV.Lemmas.PredSem
import XPathV.Lemmas.ArithSem
/-!
# C11 — union yields the set union, each node exactly once (end to end through `build`)

* `build_union_inv` — inversion of `build` on `.oper "|" l r`: both operands are built with empty
  flags, the plan is `.union`
* `C11_main` — `A | B` for paths `A`, `B` of the fragment `PredSem.Frag true` (the twelve axes,
  boolean-valued predicates on every step, nested): the built plan succeeds, yields a duplicate-free
  sequence whose members are exactly the oracle's nodes of `A` or of `B`; the oracle's value of
  `A | B` has the same members (and is duplicate-free too)
* `UnionF`, `C11_nary` — any nesting of `|` over such paths (so in particular the left-nested
  `A | B | C …`): members = the nodes of some leaf, duplicate-free
* `seqForm`, `C11_sequence` — the sequence form `p/(s₁, s₂, …)`, i.e. the tree `parseSequence` makes
  of it: each step applied to the nodes of `p`, united

Standing assumptions as for C01/C02: `WF d`, `cfg.nsIface = true`, `HashInj d cfg`.
-/
namespace XPathV.UnionSem
open XPathV XPathV.Model XPathV.PathSem XPathV.PredSem

variable {F : Type} [NumAlg F]

/-! ## inversion of `build` on the union operator -/

theorem build_union_inv (regexOk : RegexOk) (limit : Nat) (snt sdf : Bool) (l r : Ast) (fl : Flags)
    (st : BState) (o : BOut) (h : build regexOk limit snt sdf (.oper "|" l r) fl st = .ok o) :
    ∃ st1 lo ro, build regexOk limit snt sdf l {} st1 = .ok lo ∧
      build regexOk limit snt sdf r {} lo.st = .ok ro ∧
      o.q = .union lo.q ro.q ∧ o.props = { lo.props.or ro.props with nonFlat := true } := by
  rw [build] at h
  replace h := enter_ok _ _ _ _ h
  obtain ⟨lo, hlo, h⟩ := except_bind_ok _ _ _ h
  obtain ⟨ro, hro, h⟩ := except_bind_ok _ _ _ h
  refine ⟨_, lo, ro, hlo, hro, ?_⟩
  simp at h
  cases h; exact ⟨rfl, rfl⟩

/-! ## the oracle on `|` -/

theorem ofString_union : Spec.CmpOp.ofString "|" = none := by decide

theorem eval_union (d : Doc) (l r : Ast) (c : Spec.Ctx) (a b : List Ref)
    (ga gb : Option (List (List Ref)))
    (hl : Spec.eval (F := F) d l c = .ok (.val (.nodes a) ga))
    (hr : Spec.eval (F := F) d r c = .ok (.val (.nodes b) gb)) :
    Spec.eval (F := F) d (.oper "|" l r) c = .ok (.val (.nodes (Spec.docOrder d (a ++ b))) none) := by
  rw [Spec.eval]
  simp only [hl, hr, bind, Except.bind]
  split
  · rename_i h; exact absurd h (by decide)
  · rename_i h; exact absurd h (by decide)
  · simp [ofString_union, Spec.Res.value, Spec.asNodes]

theorem mem_union_spec (d : Doc) (a b : List Ref) (hva : ∀ x ∈ a, validRef d x = true)
    (hvb : ∀ x ∈ b, validRef d x = true) (x : Ref) :
    x ∈ Spec.docOrder d (a ++ b) ↔ x ∈ a ∨ x ∈ b := by
  rw [mem_docOrder, List.mem_append]
  constructor
  · exact fun h => h.1
  · rintro (h | h)
    · exact ⟨Or.inl h, hva x h⟩
    · exact ⟨Or.inr h, hvb x h⟩


/-! ## `A | B` -/

/-- the oracle's node list of `e` at context node `c` (position 1 of 1); `[]` when the oracle fails
or the value is not a node-set — on the fragments below neither happens -/
def nodesAt (d : Doc) (F : Type) [NumAlg F] (e : Ast) (c : Ref) : List Ref :=
  match Spec.eval (F := F) d e ⟨c, 1, 1⟩ with
  | .ok (.val (.nodes l) _) => l
  | _ => []

theorem nodesAt_eq (d : Doc) (e : Ast) (c : Ref) (l : List Ref) (g : Option (List (List Ref)))
    (h : Spec.eval (F := F) d e ⟨c, 1, 1⟩ = .ok (.val (.nodes l) g)) : nodesAt d F e c = l := by
  simp only [nodesAt, h]

/-- C02 for one operand, with the validity of the oracle's nodes -/
theorem operand_sem {d : Doc} (wf : WF d) (cfg : ECfg) (hns : cfg.nsIface = true)
    (hinj : HashInj d cfg) (regexOk : RegexOk) (limit : Nat) (p : Ast) (hp : Frag true p)
    (st : BState) (o : BOut) (hb : build regexOk limit true false p {} st = .ok o)
    (c : Ref) (hc : validRef d c = true) :
    ∃ out ns g, sel (F := F) d cfg o.q c = .ok out ∧
      Spec.eval (F := F) d p ⟨c, 1, 1⟩ = .ok (.val (.nodes ns) g) ∧
      (∀ x, x ∈ refs out ↔ x ∈ ns) ∧ (∀ x ∈ ns, validRef d x = true) := by
  obtain ⟨out, ns, g, h1, h2, h3⟩ := C02_main (F := F) wf cfg hns hinj regexOk limit p hp st o hb c hc
  obtain ⟨_, ns', g', _, h2', _, hv⟩ := C02_naive (F := F) wf cfg hns hinj p hp c hc
  rw [h2] at h2'; cases h2'
  exact ⟨out, ns, g, h1, h2, h3, hv⟩

/-- the plan-level union over two operands that agree with the oracle -/
theorem union_combine (d : Doc) (cfg : ECfg) (hinj : HashInj d cfg) (ql qr : Plan) (A B : Ast) (c : Ref)
    (oa ob : List Item) (na nb : List Ref) (ga gb : Option (List (List Ref)))
    (hsa : sel (F := F) d cfg ql c = .ok oa) (hsb : sel (F := F) d cfg qr c = .ok ob)
    (hea : Spec.eval (F := F) d A ⟨c, 1, 1⟩ = .ok (.val (.nodes na) ga))
    (heb : Spec.eval (F := F) d B ⟨c, 1, 1⟩ = .ok (.val (.nodes nb) gb))
    (hma : ∀ x, x ∈ refs oa ↔ x ∈ na) (hmb : ∀ x, x ∈ refs ob ↔ x ∈ nb)
    (hva : ∀ x ∈ na, validRef d x = true) (hvb : ∀ x ∈ nb, validRef d x = true) :
    ∃ out, sel (F := F) d cfg (.union ql qr) c = .ok out ∧ (refs out).Nodup ∧
      (∀ x, x ∈ refs out ↔ x ∈ na ∨ x ∈ nb) ∧
      Spec.eval (F := F) d (.oper "|" A B) ⟨c, 1, 1⟩ =
        .ok (.val (.nodes (Spec.docOrder d (na ++ nb))) none) ∧
      (Spec.docOrder d (na ++ nb)).Nodup ∧
      (∀ x, x ∈ Spec.docOrder d (na ++ nb) ↔ x ∈ na ∨ x ∈ nb) ∧
      (∀ x, x ∈ refs out ↔ x ∈ Spec.docOrder d (na ++ nb)) := by
  have hvalid : ∀ x ∈ (oa ++ ob).map (·.r), validRef d x = true := by
    intro x hx
    rw [List.map_append, List.mem_append] at hx
    rcases hx with hx | hx
    · exact hva x ((hma x).1 hx)
    · exact hvb x ((hmb x).1 hx)
  obtain ⟨out, ho, hm, hnd⟩ := Theorems.C11.C11_union (F := F) d cfg ql qr c oa ob hsa hsb
    (fun x hx y hy => hinj x y (hvalid x hx) (hvalid y hy))
  have hmem : ∀ x, x ∈ refs out ↔ x ∈ na ∨ x ∈ nb := by
    intro x
    rw [show refs out = out.map (·.r) from rfl, hm]
    exact or_congr (hma x) (hmb x)
  refine ⟨out, ho, hnd, hmem, eval_union d A B _ na nb ga gb hea heb, ?_,
    mem_union_spec d na nb hva hvb, fun x => ?_⟩
  · exact ArithSem.docOrder_nodup d _
  · rw [hmem, mem_union_spec d na nb hva hvb]


section Main
variable {d : Doc} (wf : WF d) (cfg : ECfg) (hns : cfg.nsIface = true) (hinj : HashInj d cfg)
  (regexOk : RegexOk) (limit : Nat)
include wf hns hinj

/-- **C11 for `build`**: for paths `A`, `B` of the fragment (twelve axes, boolean-valued predicates on
any step, nested), every well-formed document and every valid context node, the plan the builder
makes of `A | B` succeeds and yields a sequence `out` such that

* no node occurs twice in `out`;
* a node is in `out` iff the oracle returns it for `A` or for `B` (`nsA`, `nsB`: the oracle's
  node-sets of the operands at the same context) — whatever the overlap of `nsA` and `nsB`;
* the oracle's value of `A | B` is a node-set `nsU` with exactly these members, duplicate-free. -/
theorem C11_main (A B : Ast) (hA : Frag true A) (hB : Frag true B) (fl : Flags)
    (st : BState) (o : BOut) (hb : build regexOk limit true false (.oper "|" A B) fl st = .ok o)
    (c : Ref) (hc : validRef d c = true) :
    ∃ out nsA gA nsB gB nsU,
      sel (F := F) d cfg o.q c = .ok out ∧ (refs out).Nodup ∧
      Spec.eval (F := F) d A ⟨c, 1, 1⟩ = .ok (.val (.nodes nsA) gA) ∧
      Spec.eval (F := F) d B ⟨c, 1, 1⟩ = .ok (.val (.nodes nsB) gB) ∧
      (∀ x, x ∈ refs out ↔ x ∈ nsA ∨ x ∈ nsB) ∧
      Spec.eval (F := F) d (.oper "|" A B) ⟨c, 1, 1⟩ = .ok (.val (.nodes nsU) none) ∧
      nsU.Nodup ∧ (∀ x, x ∈ nsU ↔ x ∈ nsA ∨ x ∈ nsB) ∧ (∀ x, x ∈ refs out ↔ x ∈ nsU) := by
  obtain ⟨st1, lo, ro, hlo, hro, hq, _⟩ := build_union_inv regexOk limit true false A B fl st o hb
  obtain ⟨oa, na, ga, hsa, hea, hma, hva⟩ :=
    operand_sem (F := F) wf cfg hns hinj regexOk limit A hA st1 lo hlo c hc
  obtain ⟨ob, nb, gb, hsb, heb, hmb, hvb⟩ :=
    operand_sem (F := F) wf cfg hns hinj regexOk limit B hB lo.st ro hro c hc
  obtain ⟨out, ho, hnd, hmem, heu, hund, hum, hou⟩ :=
    union_combine (F := F) d cfg hinj lo.q ro.q A B c oa ob na nb ga gb hsa hsb hea heb hma hmb hva hvb
  rw [hq]
  exact ⟨out, na, ga, nb, gb, _, ho, hnd, hea, heb, hmem, heu, hund, hum, hou⟩

/-- `C11_main` against the top-level oracle `evalTop` and with the node-sets of the operands written
as `nodesAt` -/
theorem C11_evalTop (A B : Ast) (hA : Frag true A) (hB : Frag true B)
    (st : BState) (o : BOut) (hb : build regexOk limit true false (.oper "|" A B) {} st = .ok o)
    (c : Ref) (hc : validRef d c = true) :
    ∃ out nsU, sel (F := F) d cfg o.q c = .ok out ∧ (refs out).Nodup ∧
      Spec.evalTop (F := F) d (.oper "|" A B) c = .ok (.nodes nsU) ∧ nsU.Nodup ∧
      (∀ x, x ∈ refs out ↔ x ∈ nodesAt d F A c ∨ x ∈ nodesAt d F B c) ∧
      (∀ x, x ∈ nsU ↔ x ∈ nodesAt d F A c ∨ x ∈ nodesAt d F B c) := by
  obtain ⟨out, nsA, gA, nsB, gB, nsU, h1, h2, h3, h4, h5, h6, h7, h8, _⟩ :=
    C11_main (F := F) wf cfg hns hinj regexOk limit A B hA hB {} st o hb c hc
  refine ⟨out, nsU, h1, h2, ?_, h7, ?_, ?_⟩
  · simp [Spec.evalTop, h6, bind, Except.bind, pure, Except.pure, Spec.Res.value]
  · rw [nodesAt_eq d A c nsA gA h3, nodesAt_eq d B c nsB gB h4]; exact h5
  · rw [nodesAt_eq d A c nsA gA h3, nodesAt_eq d B c nsB gB h4]; exact h8

end Main

/-! ## any nesting of `|` (in particular the left-nested `A | B | C | …`) -/

/-- unions of paths of the fragment, nested in any way -/
inductive UnionF : Ast → Prop
  | leaf (p : Ast) : Frag true p → UnionF p
  | union (l r : Ast) : UnionF l → UnionF r → UnionF (.oper "|" l r)

/-- the operand paths of a union tree, left to right -/
def leaves : Ast → List Ast
  | .oper op l r => if op = "|" then leaves l ++ leaves r else [.oper op l r]
  | p => [p]

theorem leaves_frag (p : Ast) (hp : Frag true p) : leaves p = [p] := by
  cases hp <;> rfl

theorem leaves_union (l r : Ast) : leaves (.oper "|" l r) = leaves l ++ leaves r := by
  simp [leaves]

/-- the left-nested union `((p₀ | p₁) | p₂) | …` -/
def unionOf (p : Ast) (ps : List Ast) : Ast := ps.foldl (fun acc q => .oper "|" acc q) p

theorem unionF_foldl (ps : List Ast) (hps : ∀ q ∈ ps, Frag true q) :
    ∀ acc, UnionF acc → UnionF (unionOf acc ps) := by
  induction ps with
  | nil => exact fun acc h => h
  | cons q qs ih =>
    intro acc h
    exact ih (fun x hx => hps x (List.mem_cons_of_mem _ hx)) _
      (.union acc q h (.leaf q (hps q List.mem_cons_self)))

theorem unionOf_unionF (p : Ast) (ps : List Ast) (hp : Frag true p) (hps : ∀ q ∈ ps, Frag true q) :
    UnionF (unionOf p ps) := unionF_foldl ps hps p (.leaf p hp)

theorem leaves_foldl (ps : List Ast) (hps : ∀ q ∈ ps, Frag true q) :
    ∀ acc, leaves (unionOf acc ps) = leaves acc ++ ps := by
  induction ps with
  | nil => intro acc; simp [unionOf]
  | cons q qs ih =>
    intro acc
    have := ih (fun x hx => hps x (List.mem_cons_of_mem _ hx)) (.oper "|" acc q)
    rw [leaves_union, leaves_frag q (hps q List.mem_cons_self)] at this
    simpa [unionOf] using this

theorem leaves_unionOf (p : Ast) (ps : List Ast) (hp : Frag true p) (hps : ∀ q ∈ ps, Frag true q) :
    leaves (unionOf p ps) = p :: ps := by
  rw [leaves_foldl ps hps, leaves_frag p hp]; rfl

theorem unionOf_concat (p : Ast) (ps : List Ast) (q : Ast) :
    unionOf p (ps ++ [q]) = .oper "|" (unionOf p ps) q := by
  simp [unionOf, List.foldl_append]

section Nary
variable {d : Doc} (wf : WF d) (cfg : ECfg) (hns : cfg.nsIface = true) (hinj : HashInj d cfg)
  (regexOk : RegexOk) (limit : Nat)
include wf hns hinj

/-- the induction over a union tree: the built plan and the oracle agree, the members are the nodes
of the leaves, and a proper union yields no node twice -/
theorem unionF_sem (e : Ast) (he : UnionF e) :
    ∀ (st : BState) (o : BOut), build regexOk limit true false e {} st = .ok o →
    ∀ c, validRef d c = true →
    ∃ out ns g, sel (F := F) d cfg o.q c = .ok out ∧
      Spec.eval (F := F) d e ⟨c, 1, 1⟩ = .ok (.val (.nodes ns) g) ∧
      (∀ x, x ∈ refs out ↔ x ∈ ns) ∧ (∀ x ∈ ns, validRef d x = true) ∧
      (∀ x, x ∈ ns ↔ ∃ p ∈ leaves e, x ∈ nodesAt d F p c) ∧
      ((∃ l r, e = .oper "|" l r) → (refs out).Nodup ∧ ns.Nodup) := by
  induction he with
  | leaf p hp =>
    intro st o hb c hc
    obtain ⟨out, ns, g, h1, h2, h3, h4⟩ :=
      operand_sem (F := F) wf cfg hns hinj regexOk limit p hp st o hb c hc
    refine ⟨out, ns, g, h1, h2, h3, h4, fun x => ?_, ?_⟩
    · rw [leaves_frag p hp]
      simp only [List.mem_cons, List.not_mem_nil, or_false, exists_eq_left,
        nodesAt_eq d p c ns g h2]
    · rintro ⟨l, r, rfl⟩; cases hp
  | union l r _ _ ihl ihr =>
    intro st o hb c hc
    obtain ⟨st1, lo, ro, hlo, hro, hq, _⟩ := build_union_inv regexOk limit true false l r {} st o hb
    obtain ⟨oa, na, ga, hsa, hea, hma, hva, hla, _⟩ := ihl st1 lo hlo c hc
    obtain ⟨ob, nb, gb, hsb, heb, hmb, hvb, hlb, _⟩ := ihr lo.st ro hro c hc
    obtain ⟨out, ho, hnd, hmem, heu, hund, hum, hou⟩ :=
      union_combine (F := F) d cfg hinj lo.q ro.q l r c oa ob na nb ga gb hsa hsb hea heb hma hmb hva hvb
    rw [hq]
    refine ⟨out, _, none, ho, heu, hou, fun x hx => ?_, fun x => ?_, fun _ => ⟨hnd, hund⟩⟩
    · rcases (hum x).1 hx with h | h
      · exact hva x h
      · exact hvb x h
    · rw [hum, hla, hlb, leaves_union]
      simp only [List.mem_append]
      constructor
      · rintro (⟨p, hp, hx⟩ | ⟨p, hp, hx⟩)
        · exact ⟨p, Or.inl hp, hx⟩
        · exact ⟨p, Or.inr hp, hx⟩
      · rintro ⟨p, hp | hp, hx⟩
        · exact Or.inl ⟨p, hp, hx⟩
        · exact Or.inr ⟨p, hp, hx⟩

/-- **C11, n-ary**: the plan the builder makes of `p₀ | p₁ | … | pₙ` (left-nested as the parser
produces it, `n ≥ 1`) yields every node that the oracle returns for one of the `pᵢ`, nothing else,
each exactly once; the oracle's value of the whole union has the same members, each once -/
theorem C11_nary (p : Ast) (ps : List Ast) (hp : Frag true p) (hps : ∀ q ∈ ps, Frag true q)
    (hne : ps ≠ []) (st : BState) (o : BOut)
    (hb : build regexOk limit true false (unionOf p ps) {} st = .ok o)
    (c : Ref) (hc : validRef d c = true) :
    ∃ out ns g, sel (F := F) d cfg o.q c = .ok out ∧ (refs out).Nodup ∧
      Spec.eval (F := F) d (unionOf p ps) ⟨c, 1, 1⟩ = .ok (.val (.nodes ns) g) ∧ ns.Nodup ∧
      (∀ x, x ∈ refs out ↔ ∃ q ∈ p :: ps, x ∈ nodesAt d F q c) ∧
      (∀ x, x ∈ ns ↔ ∃ q ∈ p :: ps, x ∈ nodesAt d F q c) := by
  obtain ⟨out, ns, g, h1, h2, h3, _, h5, h6⟩ :=
    unionF_sem (F := F) wf cfg hns hinj regexOk limit _ (unionOf_unionF p ps hp hps) st o hb c hc
  rw [leaves_unionOf p ps hp hps] at h5
  have htop : ∃ l r, unionOf p ps = .oper "|" l r := by
    rcases List.eq_nil_or_concat ps with h | ⟨ps', q, h⟩
    · exact absurd h hne
    · rw [h, List.concat_eq_append, unionOf_concat]; exact ⟨_, _, rfl⟩
  obtain ⟨hnd, hnd'⟩ := h6 htop
  exact ⟨out, ns, g, h1, hnd, h2, hnd', fun x => (h3 x).trans (h5 x), h5⟩

end Nary

/-! ## the sequence form `p/(s₁, s₂, …)`

`parseSequence` (`Model/Parser.lean`) parses every member of the parenthesised list with
`parseStep … inp`, i.e. as one step (axis, node test, stacked predicates) *over the same input* `inp`
— the path before the `/` — and `seqLoop` folds the members into left-nested `.oper "|"` nodes
(`Theorems.C11.sequence_is_union`).  So `p/(a, b, c)` is the tree `((p/a) | (p/b)) | (p/c)`. -/

/-- one member of a sequence: an axis step and its stacked predicates -/
abbrev SeqStep := AxisInfo × List Ast

/-- the step `s` applied over the input `inp`, as `parseStep` builds it -/
def stepOn (inp : Ast) (s : SeqStep) : Ast := s.2.foldl Ast.filter (.axis s.1 inp)

/-- the parse tree of `inp/(s, ss…)` -/
def seqForm (inp : Ast) (s : SeqStep) (ss : List SeqStep) : Ast :=
  unionOf (stepOn inp s) (ss.map (stepOn inp))

/-- a member of the fragment: one of the twelve axes, boolean-valued predicates -/
def StepOK (s : SeqStep) : Prop := s.1.axis ∈ axes12 ∧ ∀ b ∈ s.2, Frag false b

theorem filters_frag (preds : List Ast) (hps : ∀ b ∈ preds, Frag false b) :
    ∀ acc, Frag true acc → Frag true (preds.foldl Ast.filter acc) := by
  induction preds with
  | nil => exact fun acc h => h
  | cons b bs ih =>
    intro acc h
    exact ih (fun x hx => hps x (List.mem_cons_of_mem _ hx)) _
      (.filter acc b h (hps b List.mem_cons_self))

theorem stepOn_frag (inp : Ast) (hinp : Frag true inp) (s : SeqStep) (hs : StepOK s) :
    Frag true (stepOn inp s) :=
  filters_frag s.2 hs.2 _ (.axis s.1 inp hinp hs.1)

/-- what `seqLoop` does with a comma: the operand so far and the next member go under a `|` node
(`Theorems.C11.sequence_is_union`), which is how `seqForm` grows -/
theorem seqForm_snoc (inp : Ast) (s : SeqStep) (ss : List SeqStep) (t : SeqStep) :
    seqForm inp s (ss ++ [t]) = .oper "|" (seqForm inp s ss) (stepOn inp t) := by
  simp [seqForm, unionOf_concat]

theorem nodesAt_none (d : Doc) (c : Ref) : nodesAt d F .none c = [c] := by
  simp [nodesAt, Spec.eval]

section Sequence
variable {d : Doc} (wf : WF d) (cfg : ECfg) (hns : cfg.nsIface = true) (hinj : HashInj d cfg)
include wf hns hinj

/-- stacked predicates keep exactly the nodes on which all of them hold (oracle side) -/
theorem nodes_filters (preds : List Ast) (hps : ∀ b ∈ preds, Frag false b) :
    ∀ (q : Ast), Frag true q → ∀ c, validRef d c = true → ∀ x,
      x ∈ nodesAt d F (preds.foldl Ast.filter q) c ↔
        x ∈ nodesAt d F q c ∧ ∀ b ∈ preds, holds (F := F) d b x = true := by
  induction preds with
  | nil => intro q _ c _ x; simp
  | cons b bs ih =>
    intro q hq c hc x
    have hb := hps b List.mem_cons_self
    rw [List.foldl_cons, ih (fun y hy => hps y (List.mem_cons_of_mem _ hy)) _ (.filter q b hq hb) c hc]
    obtain ⟨_, ns0, g0, _, ns, g, _, he0, _, _, he, _, hchar, _⟩ :=
      C02_filter_keeps_true (F := F) wf cfg hns hinj q b hq hb c hc
    rw [nodesAt_eq d _ c ns g he, nodesAt_eq d _ c ns0 g0 he0, hchar]
    simp only [List.mem_cons, forall_eq_or_imp]
    exact and_assoc

/-- the oracle's nodes of one more step, per origin: the model's walk and node test -/
theorem nodes_axis (a : AxisInfo) (ha : a.axis ∈ axes12) (p : Ast) (hp : Frag true p)
    (c : Ref) (hc : validRef d c = true) (x : Ref) :
    x ∈ nodesAt d F (.axis a p) c ↔
      ∃ n ∈ nodesAt d F p c, x ∈ (axisRefsM d a.axis n).filter (test d cfg a) := by
  obtain ⟨ins, nsp, gp, hsel, _, hev, hm, hv, _⟩ :=
    (frag_sem (F := F) wf cfg hns hinj true p hp ⟨c, 1, 1⟩ hc).1 rfl
  obtain ⟨out, ns, g, hsel', _, hev', hm', _, _⟩ :=
    (frag_sem (F := F) wf cfg hns hinj true (.axis a p) (.axis a p hp ha) ⟨c, 1, 1⟩ hc).1 rfl
  have hinsv : ∀ o ∈ refs ins, validRef d o = true := fun o ho => hv o ((hm o).1 ho)
  obtain ⟨out2, hout2, hom⟩ := stepPlan_sem (F := F) d cfg hinj a ha (predPlan p) c ins hinsv hsel
  have e : predPlan (.axis a p) = stepPlan a (predPlan p) := rfl
  rw [e, hout2] at hsel'
  cases hsel'
  rw [nodesAt_eq d _ c ns g hev', nodesAt_eq d _ c nsp gp hev, ← hm', hom]
  constructor
  · rintro ⟨o, ho, hx⟩; exact ⟨o, (hm o).1 ho, hx⟩
  · rintro ⟨o, ho, hx⟩; exact ⟨o, (hm o).2 ho, hx⟩

/-- **a filtered step composes with its input** (oracle side): the nodes of `p/s` are the nodes of
the step `s` taken from each node of `p` -/
theorem step_compose (p : Ast) (hp : Frag true p) (s : SeqStep) (hs : StepOK s)
    (c : Ref) (hc : validRef d c = true) (x : Ref) :
    x ∈ nodesAt d F (stepOn p s) c ↔
      ∃ n ∈ nodesAt d F p c, x ∈ nodesAt d F (stepOn .none s) n := by
  have hvp : ∀ n ∈ nodesAt d F p c, validRef d n = true := by
    obtain ⟨_, ns, g, _, he, _, hv⟩ := C02_naive (F := F) wf cfg hns hinj p hp c hc
    rw [nodesAt_eq d _ c ns g he]; exact hv
  unfold stepOn
  rw [nodes_filters (F := F) wf cfg hns hinj s.2 hs.2 _ (.axis s.1 p hp hs.1) c hc,
    nodes_axis (F := F) wf cfg hns hinj s.1 hs.1 p hp c hc]
  constructor
  · rintro ⟨⟨n, hn, hx⟩, hall⟩
    refine ⟨n, hn, ?_⟩
    rw [nodes_filters (F := F) wf cfg hns hinj s.2 hs.2 _ (.axis s.1 .none .none hs.1) n (hvp n hn),
      nodes_axis (F := F) wf cfg hns hinj s.1 hs.1 .none .none n (hvp n hn), nodesAt_none]
    exact ⟨⟨n, List.mem_singleton.2 rfl, hx⟩, hall⟩
  · rintro ⟨n, hn, hx⟩
    rw [nodes_filters (F := F) wf cfg hns hinj s.2 hs.2 _ (.axis s.1 .none .none hs.1) n (hvp n hn),
      nodes_axis (F := F) wf cfg hns hinj s.1 hs.1 .none .none n (hvp n hn), nodesAt_none] at hx
    obtain ⟨⟨n', hn', hx⟩, hall⟩ := hx
    rw [List.mem_singleton.1 hn'] at hx
    exact ⟨⟨n, hn, hx⟩, hall⟩

/-- **C11, sequence form**: for a path `p` of the fragment and members `s, ss…` (axis steps with
boolean-valued predicates), the plan the builder makes of the tree the parser produces for
`p/(s, ss…)` yields exactly the nodes reached by *some* member step from *some* node of `p` — each
of them once (when there are at least two members, i.e. the tree is a union); the oracle's value has
the same members -/
theorem C11_sequence (regexOk : RegexOk) (limit : Nat) (p : Ast) (hp : Frag true p) (s : SeqStep)
    (ss : List SeqStep) (hs : StepOK s) (hss : ∀ t ∈ ss, StepOK t) (st : BState) (o : BOut)
    (hb : build regexOk limit true false (seqForm p s ss) {} st = .ok o)
    (c : Ref) (hc : validRef d c = true) :
    ∃ out ns g, sel (F := F) d cfg o.q c = .ok out ∧
      Spec.eval (F := F) d (seqForm p s ss) ⟨c, 1, 1⟩ = .ok (.val (.nodes ns) g) ∧
      (∀ x, x ∈ refs out ↔ x ∈ ns) ∧
      (∀ x, x ∈ ns ↔ ∃ t ∈ s :: ss, ∃ n ∈ nodesAt d F p c, x ∈ nodesAt d F (stepOn .none t) n) ∧
      (ss ≠ [] → (refs out).Nodup ∧ ns.Nodup) := by
  have hf0 : Frag true (stepOn p s) := stepOn_frag p hp s hs
  have hfs : ∀ q ∈ ss.map (stepOn p), Frag true q := by
    intro q hq
    obtain ⟨t, ht, rfl⟩ := List.mem_map.1 hq
    exact stepOn_frag p hp t (hss t ht)
  obtain ⟨out, ns, g, h1, h2, h3, _, h5, h6⟩ :=
    unionF_sem (F := F) wf cfg hns hinj regexOk limit _ (unionOf_unionF _ _ hf0 hfs) st o hb c hc
  rw [leaves_unionOf _ _ hf0 hfs] at h5
  refine ⟨out, ns, g, h1, h2, h3, fun x => ?_, fun hne => ?_⟩
  · rw [h5]
    constructor
    · rintro ⟨q, hq, hx⟩
      rw [← List.map_cons (f := stepOn p)] at hq
      obtain ⟨t, ht, rfl⟩ := List.mem_map.1 hq
      have hst : StepOK t := by
        rcases List.mem_cons.1 ht with rfl | ht
        · exact hs
        · exact hss t ht
      exact ⟨t, ht, (step_compose (F := F) wf cfg hns hinj p hp t hst c hc x).1 hx⟩
    · rintro ⟨t, ht, hx⟩
      have hst : StepOK t := by
        rcases List.mem_cons.1 ht with rfl | ht
        · exact hs
        · exact hss t ht
      refine ⟨stepOn p t, ?_, (step_compose (F := F) wf cfg hns hinj p hp t hst c hc x).2 hx⟩
      rw [← List.map_cons (f := stepOn p)]
      exact List.mem_map.2 ⟨t, ht, rfl⟩
  · apply h6
    rcases List.eq_nil_or_concat ss with h | ⟨ss', t, h⟩
    · exact absurd h hne
    · rw [h, List.concat_eq_append, List.map_append, List.map_singleton, unionOf_concat]
      exact ⟨_, _, rfl⟩

end Sequence

/-! ## `seqForm` is what the parser's sequence loop produces -/

/-- a run of `seqLoop`: each comma is followed by a member that `parseStep` (over the same input
`inp`) turns into `stepOn inp t`; the loop ends at the first token that is not a comma -/
inductive SeqRun (cfg : PCfg) (inp : Ast) : Nat → PState → List SeqStep → PState → Prop
  | done (f : Nat) (st : PState) : st.s.typ ≠ .comma → SeqRun cfg inp (f+1) st [] st
  | more (f : Nat) (st st1 st2 stEnd : PState) (t : SeqStep) (ts : List SeqStep) :
      st.s.typ = .comma → st.next = .ok st1 →
      parseStep f cfg inp st1 = .ok (stepOn inp t, st2) → SeqRun cfg inp f st2 ts stEnd →
      SeqRun cfg inp (f+1) st (t :: ts) stEnd

/-- along such a run the loop returns the left-nested union of the operand so far and the members -/
theorem seqLoop_run (cfg : PCfg) (inp : Ast) (f : Nat) (st stEnd : PState) (ts : List SeqStep)
    (h : SeqRun cfg inp f st ts stEnd) :
    ∀ acc, seqLoop f cfg inp acc st = .ok (unionOf acc (ts.map (stepOn inp)), stEnd) := by
  induction h with
  | done f st hne =>
    intro acc
    simp [seqLoop, hne, unionOf, pure, Except.pure]
  | more f st st1 st2 stEnd t ts hc hn hp _ ih =>
    intro acc
    rw [Theorems.C11.sequence_is_union f cfg inp acc _ st st1 st2 hc hn hp, ih]
    rfl

/-- with the first member `s` already parsed: the loop returns `seqForm inp s ts` -/
theorem seqLoop_seqForm (cfg : PCfg) (inp : Ast) (f : Nat) (st stEnd : PState) (s : SeqStep)
    (ts : List SeqStep) (h : SeqRun cfg inp f st ts stEnd) :
    seqLoop f cfg inp (stepOn inp s) st = .ok (seqForm inp s ts, stEnd) :=
  seqLoop_run cfg inp f st stEnd ts h _

/-! ## Non-vacuity -/

section Examples

private def ch (n : String) : AxisInfo := ⟨"child", .elem, "", n, "", false, ""⟩

/-- `a/(b, c[d], @e)` -/
def exSeq : Ast :=
  seqForm (.axis (ch "a") .none) (ch "b", [])
    [(ch "c", [.axis (ch "d") .none]), (⟨"attribute", .attr, "", "e", "", false, ""⟩, [])]

theorem exists_of_toBool {ε α : Type} (x : Except ε α) (h : x.toBool = true) : ∃ o, x = .ok o := by
  cases x with
  | ok o => exact ⟨o, rfl⟩
  | error e => cases h

theorem exSeq_build : ∃ o, build (fun _ => true) 100 true false exSeq {} {} = .ok o :=
  exists_of_toBool _ (by decide +kernel)

theorem exSeq_steps :
    StepOK (ch "b", []) ∧ ∀ t ∈ [(ch "c", [Ast.axis (ch "d") .none]),
      ((⟨"attribute", .attr, "", "e", "", false, ""⟩ : AxisInfo), ([] : List Ast))], StepOK t := by
  refine ⟨⟨by simp [axes12, ch], by simp⟩, ?_⟩
  intro t ht
  simp only [List.mem_cons, List.not_mem_nil, or_false] at ht
  rcases ht with rfl | rfl
  · refine ⟨by simp [axes12, ch], ?_⟩
    intro b hb
    simp only [List.mem_cons, List.not_mem_nil, or_false] at hb
    subst hb
    exact .exist _ (.axis _ _ .none (by simp [axes12, ch]))
  · exact ⟨by simp [axes12], by simp⟩

/-- `a | b[c] | //d` builds -/
theorem exNary_build : ∃ o, build (fun _ => true) 100 true false
    (unionOf (.axis (ch "a") .none)
      [.filter (.axis (ch "b") .none) (.axis (ch "c") .none),
       .axis (ch "d") (.axis ⟨"descendant-or-self", .all, "", "", "", false, ""⟩ (.root "//"))]) {} {} = .ok o :=
  exists_of_toBool _ (by decide +kernel)

end Examples

end XPathV.UnionSem

/-! ## Axiom audit -/
section AxiomAudit
open XPathV.UnionSem
end AxiomAudit
