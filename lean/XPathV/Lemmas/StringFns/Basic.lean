import XPathV.Lemmas.C08Base
import XPathV.Lemmas.C09Base
/-!
# C09 — string functions: the model's `callFn` against the oracle `Spec.callFn`
-/
namespace XPathV.StringFns
open XPathV XPathV.Model NumAlg
open XPathV.Theorems.C08 (emb)

variable {F : Type} [NumAlg F]

/-- the model outcome is the embedding of the (successful) oracle outcome -/
def Agrees (m : Except EErr (MVal F)) (s : Except Spec.Err (Spec.Value F)) : Prop :=
  ∃ v, s = .ok v ∧ m = .ok (emb v)

/-- every character is a space for Go's `unicode.IsSpace` exactly when it is XML whitespace -/
def Plain (s : String) : Prop := ∀ c ∈ s.toList, Model.isSpace c = Spec.isXmlSpace c

/-! ## 2. normalize-space -/

theorem dropWhile_congr {α : Type} (p q : α → Bool) (l : List α) (h : ∀ x ∈ l, p x = q x) :
    l.dropWhile p = l.dropWhile q := by
  induction l with
  | nil => rfl
  | cons x t ih =>
    simp only [List.dropWhile_cons, h x (List.mem_cons_self)]
    split
    · exact ih (fun y hy => h y (List.mem_cons_of_mem _ hy))
    · rfl

theorem mem_dropWhile {α : Type} (p : α → Bool) (l : List α) (x : α) (h : x ∈ l.dropWhile p) : x ∈ l :=
  (List.dropWhile_sublist p).subset h

theorem goTrimSpace_eq (cs : List Char) (h : ∀ c ∈ cs, Model.isSpace c = Spec.isXmlSpace c) :
    goTrimSpace cs = Spec.trimXml cs := by
  unfold goTrimSpace Spec.trimXml
  rw [dropWhile_congr _ _ cs h]
  rw [dropWhile_congr Model.isSpace Spec.isXmlSpace (cs.dropWhile Spec.isXmlSpace).reverse]
  intro x hx
  exact h x (mem_dropWhile _ _ _ (List.mem_reverse.1 hx))

theorem mem_trimXml (cs : List Char) (x : Char) (h : x ∈ Spec.trimXml cs) : x ∈ cs := by
  unfold Spec.trimXml at h
  exact mem_dropWhile _ _ _ (List.mem_reverse.1 (mem_dropWhile _ _ _ (List.mem_reverse.1 h)))

theorem trimXml_last (cs : List Char) (x : Char) (h : (Spec.trimXml cs).getLast? = some x) :
    Spec.isXmlSpace x = false := by
  unfold Spec.trimXml at h
  rw [List.getLast?_reverse] at h
  have := List.head?_dropWhile_not Spec.isXmlSpace (cs.dropWhile Spec.isXmlSpace).reverse
  rw [h] at this
  exact this

theorem aux_cons (c : Char) (cs : List Char) (p : Bool) :
    Spec.normSpaceAux (c :: cs) p =
      if Spec.isXmlSpace c then Spec.normSpaceAux cs true
      else (if p then [' ', c] else [c]) ++ Spec.normSpaceAux cs false := by
  rw [Spec.normSpaceAux]

theorem loop_cons2 (c c2 : Char) (cs : List Char) :
    normLoop (c :: c2 :: cs) =
      if Model.isSpace c && Model.isSpace c2 then normLoop (c2 :: cs)
      else (if Model.isSpace c then ' ' else c) :: normLoop (c2 :: cs) := by
  rw [normLoop]

/-- on a list without trailing whitespace the Go loop and the oracle's collapse agree -/
theorem normLoop_aux (t : List Char) (hag : ∀ c ∈ t, Model.isSpace c = Spec.isXmlSpace c) :
    t ≠ [] → (∀ x, t.getLast? = some x → Spec.isXmlSpace x = false) →
    Spec.normSpaceAux t false = normLoop t ∧
    Spec.normSpaceAux t true = (if (t.head?.map Spec.isXmlSpace) = some true then normLoop t else ' ' :: normLoop t) := by
  induction t with
  | nil => intro h; exact absurd rfl h
  | cons c rest ih =>
    intro _ hlast
    have hc := hag c List.mem_cons_self
    have hag' : ∀ x ∈ rest, Model.isSpace x = Spec.isXmlSpace x := fun x hx => hag x (List.mem_cons_of_mem _ hx)
    cases rest with
    | nil =>
      have hns : Spec.isXmlSpace c = false := hlast c rfl
      simp [Spec.normSpaceAux, normLoop, hc, hns]
    | cons c2 cs =>
      have hlast' : ∀ x, (c2 :: cs).getLast? = some x → Spec.isXmlSpace x = false := by
        intro x hx; apply hlast x; rw [List.getLast?_cons_cons]; exact hx
      obtain ⟨ih1, ih2⟩ := ih hag' (by simp) hlast'
      have hc2 := hag c2 (List.mem_cons_of_mem _ List.mem_cons_self)
      rw [aux_cons c (c2 :: cs) false, aux_cons c (c2 :: cs) true, loop_cons2 c c2 cs, ih1, ih2]
      simp only [List.head?_cons, Option.map_some, Option.some.injEq]
      rw [← hc, ← hc2]
      cases Model.isSpace c <;> cases Model.isSpace c2 <;> simp

theorem normLoop_eq (t : List Char) (hag : ∀ c ∈ t, Model.isSpace c = Spec.isXmlSpace c)
    (hlast : ∀ x, t.getLast? = some x → Spec.isXmlSpace x = false) :
    normLoop t = Spec.normSpaceAux t false := by
  cases t with
  | nil => simp [normLoop, Spec.normSpaceAux]
  | cons c r => exact ((normLoop_aux (c :: r) hag (by simp) hlast).1).symm

/-- **normalize-space**: on strings whose characters are classified alike by Go's `unicode.IsSpace`
and the XML `S` production, `normalizespaceFunc` computes the XPath `normalize-space` -/
theorem normalizeSpace_spec (s : String) (h : ∀ c ∈ s.toList, Model.isSpace c = Spec.isXmlSpace c) :
    normalizeSpaceM s = Spec.fnNormalizeSpace s := by
  unfold normalizeSpaceM Spec.fnNormalizeSpace
  rw [goTrimSpace_eq _ h]
  rw [normLoop_eq _ (fun c hc => h c (mem_trimXml _ _ hc)) (trimXml_last _)]

/-! ## 1. one theorem per function, string-typed arguments -/

section
variable (d : Doc) (cfg : ECfg) (fi : Plan) (c : Ref) (asel : Option (List Ref)) (ctx : Spec.Ctx)

theorem fn_contains_spec (a b : String) :
    Agrees (F := F) (callFn d cfg "contains" fi c [.ok (.str a), .ok (.str b)] asel)
      (Spec.callFn d ctx "contains" [.str a, .str b]) :=
  ⟨.bool (Spec.fnContains a b), rfl, by simp [callFn, bind, Except.bind, emb]⟩

theorem fn_starts_with_spec (a b : String) :
    Agrees (F := F) (callFn d cfg "starts-with" fi c [.ok (.str a), .ok (.str b)] asel)
      (Spec.callFn d ctx "starts-with" [.str a, .str b]) :=
  ⟨.bool (Spec.fnStartsWith a b), rfl, by simp [callFn, bind, Except.bind, emb]⟩

theorem fn_ends_with_spec (a b : String) :
    Agrees (F := F) (callFn d cfg "ends-with" fi c [.ok (.str a), .ok (.str b)] asel)
      (Spec.callFn d ctx "ends-with" [.str a, .str b]) :=
  ⟨.bool (Spec.fnEndsWith a b), rfl, by simp [callFn, bind, Except.bind, emb]⟩

theorem fn_substring_before_spec (a b : String) :
    Agrees (F := F) (callFn d cfg "substring-before" fi c [.ok (.str a), .ok (.str b)] asel)
      (Spec.callFn d ctx "substring-before" [.str a, .str b]) :=
  ⟨.str (Spec.fnSubstringBefore a b), rfl, by simp [callFn, bind, Except.bind, emb]⟩

theorem fn_substring_after_spec (a b : String) :
    Agrees (F := F) (callFn d cfg "substring-after" fi c [.ok (.str a), .ok (.str b)] asel)
      (Spec.callFn d ctx "substring-after" [.str a, .str b]) :=
  ⟨.str (Spec.fnSubstringAfter a b), rfl, by simp [callFn, bind, Except.bind, emb]⟩

theorem fn_substring2_spec (a : String) (start : F) :
    Agrees (F := F) (callFn d cfg "substring" fi c [.ok (.str a), .ok (.num start)] asel)
      (Spec.callFn d ctx "substring" [.str a, .num start]) :=
  ⟨.str (Spec.fnSubstring2 a start), rfl,
    by simp [callFn, bind, Except.bind, emb, Theorems.C09.substring2_spec]⟩

theorem fn_substring3_spec (a : String) (start len : F) :
    Agrees (F := F) (callFn d cfg "substring" fi c [.ok (.str a), .ok (.num start), .ok (.num len)] asel)
      (Spec.callFn d ctx "substring" [.str a, .num start, .num len]) :=
  ⟨.str (Spec.fnSubstring3 a start len), rfl,
    by simp [callFn, bind, Except.bind, emb, Theorems.C09.substring3_spec]⟩

theorem fn_string_length_spec (a : String) :
    Agrees (F := F) (callFn d cfg "string-length" fi c [.ok (.str a)] asel)
      (Spec.callFn d ctx "string-length" [.str a]) :=
  ⟨.num (ofNat a.length), rfl, by simp [callFn, bind, Except.bind, emb]⟩

theorem fn_normalize_space_spec (a : String)
    (h : ∀ c ∈ a.toList, Model.isSpace c = Spec.isXmlSpace c) :
    Agrees (F := F) (callFn d cfg "normalize-space" fi c [.ok (.str a)] asel)
      (Spec.callFn d ctx "normalize-space" [.str a]) :=
  ⟨.str (Spec.fnNormalizeSpace a), rfl, by simp [callFn, bind, Except.bind, emb, normalizeSpace_spec a h]⟩

theorem fn_translate_spec (s a b : String) :
    Agrees (F := F) (callFn d cfg "translate" fi c [.ok (.str s), .ok (.str a), .ok (.str b)] asel)
      (Spec.callFn d ctx "translate" [.str s, .str a, .str b]) :=
  ⟨.str (Spec.fnTranslate s a b), rfl, by simp [callFn, bind, Except.bind, emb, asStringM]⟩

theorem fn_lower_case_spec (a : String) :
    Agrees (F := F) (callFn d cfg "lower-case" fi c [.ok (.str a)] asel)
      (Spec.callFn d ctx "lower-case" [.str a]) :=
  ⟨.str (Spec.fnLowerCase a), rfl, by simp [callFn, bind, Except.bind, emb, asStringM]⟩

/-- `string(v)` for every XPath value: `asString` is the XPath `string()` conversion -/
theorem fn_string_spec (v : Spec.Value F) :
    Agrees (F := F) (callFn d cfg "string" fi c [.ok (emb v)] asel) (Spec.callFn d ctx "string" [v]) :=
  ⟨.str (Spec.toStr d v), rfl, by
    rcases v with (_ | ⟨r, t⟩) | b | x | s <;> simp [callFn, bind, Except.bind, emb, asStringM, Spec.toStr]⟩

/-- `string()` without argument: the string-value of the context node -/
theorem fn_string0_spec :
    Agrees (F := F) (callFn d cfg "string" fi ctx.node [] asel) (Spec.callFn d ctx "string" []) :=
  ⟨.str (stringValue d ctx.node), rfl, by
    simp [callFn, bind, Except.bind, emb, asStringM, pure, Except.pure]⟩

/-- `string-join(node list, separator)`: the string-values of *all* nodes of the list, in list
order, separated by the separator -/
theorem fn_string_join_spec (l : List Ref) (sep : String) :
    Agrees (F := F) (callFn d cfg "string-join" fi c [.ok (.nodes l), .ok (.str sep)] asel)
      (Spec.callFn d ctx "string-join" [.nodes l, .str sep]) :=
  ⟨.str (Spec.fnStringJoin (l.map (stringValue d)) sep), rfl, by
    simp [callFn, bind, Except.bind, emb, Spec.fnStringJoin]⟩

end

theorem mapM_map_ok {α β γ ε : Type} (f : α → Except ε β) (g : γ → α) (h : γ → β)
    (l : List γ) (hf : ∀ x ∈ l, f (g x) = .ok (h x)) : (l.map g).mapM f = .ok (l.map h) := by
  induction l with
  | nil => rfl
  | cons x t ih =>
    simp [List.mapM_cons, hf x List.mem_cons_self, ih (fun y hy => hf y (List.mem_cons_of_mem _ hy)),
      bind, Except.bind, pure, Except.pure]

/-- a value that `concat` and the first-argument functions read as a string: a string or a node list -/
inductive StrLike : Spec.Value F → Prop
  | str (s : String) : StrLike (.str s)
  | nodes (l : List Ref) : StrLike (.nodes l)

theorem callFn_concat (d : Doc) (cfg : ECfg) (fi : Plan) (c : Ref) (asel : Option (List Ref))
    (vs : List (Spec.Value F)) (h : ∀ v ∈ vs, StrLike v) :
    callFn (F := F) d cfg "concat" fi c (vs.map (fun v => .ok (emb v))) asel
      = .ok (.str ((vs.map (Spec.toStr d)).foldl (· ++ ·) "")) := by
  simp only [callFn]
  have : ∀ v ∈ vs, (fun (a : Except EErr (MVal F)) => (do
              let __do_lift ← a
              match __do_lift with
                | MVal.str s => pure s
                | MVal.nodes (r :: _) => pure (stringValue d r)
                | _ => pure "" : Except EErr String)) ((fun v => Except.ok (emb v)) v) = .ok (Spec.toStr d v) := by
    intro v hv
    cases h v hv with
    | str s => rfl
    | nodes l => cases l <;> rfl
  rw [mapM_map_ok _ _ _ vs this]
  rfl

theorem spec_concat (d : Doc) (ctx : Spec.Ctx) (vs : List (Spec.Value F)) (h2 : 2 ≤ vs.length) :
    Spec.callFn d ctx "concat" vs = .ok (.str ((vs.map (Spec.toStr d)).foldl (· ++ ·) "")) := by
  rcases vs with _ | ⟨a, _ | ⟨b, rest⟩⟩
  · simp at h2
  · simp at h2
  · show Except.ok (Spec.Value.str ((a :: b :: rest).foldl (fun acc v => acc ++ Spec.toStr d v) "")) = _
    rw [List.foldl_map]

/-- `concat` with any number `n ≥ 2` of arguments, each a string or a node list (read as the
string-value of its first node) -/
theorem fn_concat_strlike_spec (d : Doc) (cfg : ECfg) (fi : Plan) (c : Ref) (asel : Option (List Ref))
    (ctx : Spec.Ctx) (vs : List (Spec.Value F)) (h : ∀ v ∈ vs, StrLike v) (h2 : 2 ≤ vs.length) :
    Agrees (F := F) (callFn d cfg "concat" fi c (vs.map (fun v => .ok (emb v))) asel)
      (Spec.callFn d ctx "concat" vs) :=
  ⟨_, spec_concat d ctx vs h2, by rw [callFn_concat d cfg fi c asel vs h]; rfl⟩

/-- `concat` of `n ≥ 2` strings -/
theorem fn_concat_spec (d : Doc) (cfg : ECfg) (fi : Plan) (c : Ref) (asel : Option (List Ref))
    (ctx : Spec.Ctx) (ss : List String) (h2 : 2 ≤ ss.length) :
    Agrees (F := F) (callFn d cfg "concat" fi c (ss.map (fun s => .ok (.str s))) asel)
      (Spec.callFn d ctx "concat" (ss.map .str)) := by
  have := fn_concat_strlike_spec (F := F) d cfg fi c asel ctx (ss.map .str)
    (by intro v hv; obtain ⟨s, _, rfl⟩ := List.mem_map.1 hv; exact .str s) (by simpa using h2)
  simpa [List.map_map, Function.comp_def, emb] using this

/-! ## 3. node-set arguments: the string-value of the first node, "" for the empty list -/

/-- functions that read their first argument as a string -/
def firstArgFns : List String :=
  ["contains", "starts-with", "ends-with", "substring-before", "substring-after", "substring",
   "string-length", "normalize-space", "translate", "lower-case", "string", "concat"]

/-- shape of the remaining arguments under which the statement holds (well-typed calls): the
bounds of `substring` are numbers, `substring-before/after` have their second argument -/
def RestOk (name : String) (rest : List (Except EErr (MVal F))) : Prop :=
  if name = "substring" then
    (∃ s, rest = [.ok (.num s)]) ∨ (∃ s l, rest = [.ok (.num s), .ok (.num l)])
  else if name = "substring-before" ∨ name = "substring-after" then ∃ w tl, rest = .ok w :: tl
  else True

theorem substringM_empty (start : F) (len : Option F) : substringM "" start len = "" := by
  cases len <;> rfl

theorem normalizeSpaceM_empty : normalizeSpaceM "" = "" := by
  unfold normalizeSpaceM
  have : "".toList = [] := rfl
  rw [this]
  rfl

theorem fnSubstringBefore_empty (b : String) : Spec.fnSubstringBefore "" b = "" := by
  unfold Spec.fnSubstringBefore
  have : "".toList = [] := rfl
  rw [this]
  split <;> simp

theorem fnSubstringAfter_empty (b : String) : Spec.fnSubstringAfter "" b = "" := by
  unfold Spec.fnSubstringAfter
  have : "".toList = [] := rfl
  rw [this]
  split <;> simp

/-- **node-set argument = its first node's string-value**: for every function that reads its first
argument as a string, passing a node list `l` is the same as passing the string
`Spec.toStr d (.nodes l)` — the string-value of the first node of `l`, `""` for the empty list -/
theorem nodeset_arg_is_first (d : Doc) (cfg : ECfg) (fi : Plan) (c : Ref) (asel : Option (List Ref))
    (name : String) (hn : name ∈ firstArgFns) (l : List Ref) (rest : List (Except EErr (MVal F)))
    (hr : RestOk name rest) :
    callFn (F := F) d cfg name fi c (.ok (.nodes l) :: rest) asel
      = callFn d cfg name fi c (.ok (.str (Spec.toStr (F := F) d (.nodes l))) :: rest) asel := by
  simp only [firstArgFns, List.mem_cons, List.not_mem_nil, or_false] at hn
  rcases hn with h | h | h | h | h | h | h | h | h | h | h | h <;> subst h
  · cases l <;> simp [callFn, Spec.toStr, bind, Except.bind]
  · cases l <;> simp [callFn, Spec.toStr, bind, Except.bind]
  · cases l <;> simp [callFn, Spec.toStr, bind, Except.bind]
  · obtain ⟨w, tl, rfl⟩ : ∃ w tl, rest = .ok w :: tl := by simpa [RestOk] using hr
    cases l <;> simp [callFn, Spec.toStr, bind, Except.bind]
    rcases w with (_ | ⟨_, _⟩) | _ | _ | _ | _ | _ <;> simp [fnSubstringBefore_empty]
  · obtain ⟨w, tl, rfl⟩ : ∃ w tl, rest = .ok w :: tl := by simpa [RestOk] using hr
    cases l <;> simp [callFn, Spec.toStr, bind, Except.bind]
    rcases w with (_ | ⟨_, _⟩) | _ | _ | _ | _ | _ <;> simp [fnSubstringAfter_empty]
  · have hr' : (∃ s, rest = [.ok (.num s)]) ∨ (∃ s l, rest = [.ok (.num s), .ok (.num l)]) := by
      simpa [RestOk] using hr
    rcases hr' with ⟨s, rfl⟩ | ⟨s, l', rfl⟩ <;>
      cases l <;> simp [callFn, Spec.toStr, bind, Except.bind, substringM_empty]
  · cases l <;> simp [callFn, Spec.toStr, bind, Except.bind]
  · cases l <;> simp [callFn, Spec.toStr, bind, Except.bind, normalizeSpaceM_empty]
  · cases l <;> simp [callFn, Spec.toStr, bind, Except.bind, asStringM]
  · cases l <;> simp [callFn, Spec.toStr, bind, Except.bind, asStringM]
  · cases l <;> simp [callFn, Spec.toStr, bind, Except.bind, asStringM]
  · cases l <;> simp [callFn, Spec.toStr, bind, Except.bind]

/-- the oracle reads a node-set first argument through `string()`, too -/
theorem spec_nodeset_arg_is_first (d : Doc) (ctx : Spec.Ctx) (name : String) (hn : name ∈ firstArgFns)
    (l : List Ref) (rest : List (Spec.Value F)) :
    Spec.callFn (F := F) d ctx name (.nodes l :: rest)
      = Spec.callFn d ctx name (.str (Spec.toStr (F := F) d (.nodes l)) :: rest) := by
  simp only [firstArgFns, List.mem_cons, List.not_mem_nil, or_false] at hn
  rcases hn with h | h | h | h | h | h | h | h | h | h | h | h <;> subst h <;>
    rcases rest with _ | ⟨b, _ | ⟨c', _ | ⟨e, r⟩⟩⟩ <;> rfl

/-- consequence: agreement on a call whose first argument is a node list follows from agreement
on the call with that argument replaced by the string-value of the list's first node -/
theorem nodeset_arg_agrees (d : Doc) (cfg : ECfg) (fi : Plan) (c : Ref) (asel : Option (List Ref))
    (ctx : Spec.Ctx) (name : String) (hn : name ∈ firstArgFns) (l : List Ref)
    (rest : List (Except EErr (MVal F))) (hr : RestOk name rest) (srest : List (Spec.Value F))
    (h : Agrees (F := F) (callFn d cfg name fi c (.ok (.str (Spec.toStr (F := F) d (.nodes l))) :: rest) asel)
      (Spec.callFn d ctx name (.str (Spec.toStr (F := F) d (.nodes l)) :: srest))) :
    Agrees (F := F) (callFn d cfg name fi c (.ok (.nodes l) :: rest) asel)
      (Spec.callFn d ctx name (.nodes l :: srest)) := by
  rw [nodeset_arg_is_first d cfg fi c asel name hn l rest hr, spec_nodeset_arg_is_first d ctx name hn l srest]
  exact h

/-- instance: `contains(node list, string)` -/
theorem fn_contains_nodeset_spec (d : Doc) (cfg : ECfg) (fi : Plan) (c : Ref) (asel : Option (List Ref))
    (ctx : Spec.Ctx) (l : List Ref) (b : String) :
    Agrees (F := F) (callFn d cfg "contains" fi c [.ok (.nodes l), .ok (.str b)] asel)
      (Spec.callFn d ctx "contains" [.nodes l, .str b]) :=
  nodeset_arg_agrees d cfg fi c asel ctx "contains" (by simp [firstArgFns]) l _ (by simp [RestOk]) _
    (fn_contains_spec d cfg fi c asel ctx _ b)

/-! ## 4. node-set arguments in *second* position (after the repair of `contains`/`starts-with`/`ends-with`)

`containsFunc`, `startwithFunc`, `endwithFunc` used to demand a `string` second argument and raised
"argument type must be string" on a node-set; now the second argument is read like the first. -/

/-- functions that read their second argument as a string: a node list stands for the string-value
of its first node (`""` when empty) -/
def secondArgFns : List String :=
  ["contains", "starts-with", "ends-with", "substring-before", "substring-after", "translate"]

/-- **node-set in second position = its first node's string-value**, whatever the first argument's
outcome is (a value of any type, or a failure) and whatever follows -/
theorem nodeset_arg_is_second (d : Doc) (cfg : ECfg) (fi : Plan) (c : Ref) (asel : Option (List Ref))
    (name : String) (hn : name ∈ secondArgFns) (a1 : Except EErr (MVal F)) (l : List Ref)
    (rest : List (Except EErr (MVal F))) :
    callFn (F := F) d cfg name fi c (a1 :: .ok (.nodes l) :: rest) asel
      = callFn d cfg name fi c (a1 :: .ok (.str (Spec.toStr (F := F) d (.nodes l))) :: rest) asel := by
  simp only [secondArgFns, List.mem_cons, List.not_mem_nil, or_false] at hn
  rcases hn with h | h | h | h | h | h <;> subst h <;> rcases a1 with e | v
  all_goals first
    | (cases l <;> simp [callFn, Spec.toStr, bind, Except.bind, asStringM]; done)
    | (rcases v with (_ | ⟨_, _⟩) | _ | _ | _ | _ | _ <;> cases l <;>
        simp [callFn, Spec.toStr, bind, Except.bind, asStringM])

/-- the oracle reads a node-set second argument through `string()`, too -/
theorem spec_nodeset_arg_is_second (d : Doc) (ctx : Spec.Ctx) (name : String) (hn : name ∈ secondArgFns)
    (a : Spec.Value F) (l : List Ref) (rest : List (Spec.Value F)) :
    Spec.callFn (F := F) d ctx name (a :: .nodes l :: rest)
      = Spec.callFn d ctx name (a :: .str (Spec.toStr (F := F) d (.nodes l)) :: rest) := by
  simp only [secondArgFns, List.mem_cons, List.not_mem_nil, or_false] at hn
  rcases hn with h | h | h | h | h | h <;> subst h <;>
    rcases rest with _ | ⟨b, _ | ⟨c', r⟩⟩ <;> rfl

/-- the three string tests -/
def strTestFns : List String := ["contains", "starts-with", "ends-with"]

/-- what a string test computes on two strings (shared by both sides) -/
def strTestOf (name : String) (a b : String) : Bool :=
  if name = "starts-with" then Spec.fnStartsWith a b
  else if name = "ends-with" then Spec.fnEndsWith a b
  else Spec.fnContains a b

/-- **`contains` / `starts-with` / `ends-with` with a string or a node-set in EITHER position**: the
engine's answer is the oracle's, namely the test on the two string-values (`Spec.toStr`: a string
as it is, a node list as the string-value of its first node, `""` when empty) -/
theorem fn_strtest_strlike_spec (d : Doc) (cfg : ECfg) (fi : Plan) (c : Ref) (asel : Option (List Ref))
    (ctx : Spec.Ctx) (name : String) (hn : name ∈ strTestFns) (va vb : Spec.Value F)
    (ha : StrLike va) (hb : StrLike vb) :
    callFn (F := F) d cfg name fi c [.ok (emb va), .ok (emb vb)] asel =
      .ok (.bool (strTestOf name (Spec.toStr d va) (Spec.toStr d vb))) ∧
    Spec.callFn (F := F) d ctx name [va, vb] =
      .ok (.bool (strTestOf name (Spec.toStr d va) (Spec.toStr d vb))) := by
  simp only [strTestFns, List.mem_cons, List.not_mem_nil, or_false] at hn
  rcases hn with h | h | h <;> subst h <;> refine ⟨?_, rfl⟩ <;>
    cases ha with
    | str s =>
      cases hb with
      | str t => simp [callFn, emb, Spec.toStr, strTestOf, bind, Except.bind]
      | nodes l => cases l <;> simp [callFn, emb, Spec.toStr, strTestOf, bind, Except.bind]
    | nodes l1 =>
      cases hb with
      | str t => cases l1 <;> simp [callFn, emb, Spec.toStr, strTestOf, bind, Except.bind]
      | nodes l => cases l1 <;> cases l <;> simp [callFn, emb, Spec.toStr, strTestOf, bind, Except.bind]

theorem fn_strtest_strlike_agrees (d : Doc) (cfg : ECfg) (fi : Plan) (c : Ref) (asel : Option (List Ref))
    (ctx : Spec.Ctx) (name : String) (hn : name ∈ strTestFns) (va vb : Spec.Value F)
    (ha : StrLike va) (hb : StrLike vb) :
    Agrees (F := F) (callFn d cfg name fi c [.ok (emb va), .ok (emb vb)] asel)
      (Spec.callFn d ctx name [va, vb]) := by
  obtain ⟨h1, h2⟩ := fn_strtest_strlike_spec d cfg fi c asel ctx name hn va vb ha hb
  exact ⟨_, h2, by rw [h1]; rfl⟩

/-- instance: `contains(string, node list)` — an error ("argument type must be string") before the
repair -/
theorem fn_contains_nodeset2_spec (d : Doc) (cfg : ECfg) (fi : Plan) (c : Ref) (asel : Option (List Ref))
    (ctx : Spec.Ctx) (a : String) (l : List Ref) :
    Agrees (F := F) (callFn d cfg "contains" fi c [.ok (.str a), .ok (.nodes l)] asel)
      (Spec.callFn d ctx "contains" [.str a, .nodes l]) :=
  fn_strtest_strlike_agrees d cfg fi c asel ctx "contains" (by simp [strTestFns]) (.str a) (.nodes l)
    (.str a) (.nodes l)

/-- what still raises: a number or a boolean in either position (the package's tests pin
`contains(0, 0)` as an error) -/
theorem fn_strtest_raises (d : Doc) (cfg : ECfg) (fi : Plan) (c : Ref) (asel : Option (List Ref))
    (name : String) (hn : name ∈ strTestFns) (v w : MVal F)
    (hw : (∃ x, w = .num x) ∨ (∃ b, w = .bool b)) :
    callFn (F := F) d cfg name fi c [.ok w, .ok v] asel = .error (.raised name) ∧
    ((∃ s, v = .str s) ∨ (∃ l, v = .nodes l) →
      callFn (F := F) d cfg name fi c [.ok v, .ok w] asel = .error (.raised name)) := by
  simp only [strTestFns, List.mem_cons, List.not_mem_nil, or_false] at hn
  rcases hn with h | h | h <;> subst h <;> rcases hw with ⟨x, rfl⟩ | ⟨b, rfl⟩ <;>
    refine ⟨by simp [callFn, bind, Except.bind], ?_⟩ <;>
    rintro (⟨s, rfl⟩ | ⟨l, rfl⟩) <;> first
      | (simp [callFn, bind, Except.bind]; done)
      | (cases l <;> simp [callFn, bind, Except.bind])

end XPathV.StringFns

/-! ## Axiom audit (second-position node-set arguments) -/
section AxiomAudit
open XPathV.StringFns
end AxiomAudit
