import XPathV.Lemmas.StringFns.Basic
/-!
# C09 — nested string-function calls: model value = oracle value, to any depth
-/
namespace XPathV.StringFns
open XPathV XPathV.Model NumAlg
open XPathV.Theorems.C08 (emb)

variable {F : Type} [NumAlg F]

/-! ## generic helpers for `build` -/

theorem except_bind_ok {ε α β : Type} (x : Except ε α) (f : α → Except ε β) (r : β)
    (h : x >>= f = .ok r) : ∃ a, x = .ok a ∧ f a = .ok r := by
  cases x with
  | error e => cases h
  | ok a => exact ⟨a, rfl, h⟩

theorem enter_ok (limit : Nat) (st : BState) (k : BState → Except BErr BOut) (o : BOut)
    (h : build.enter limit st k = .ok o) : k { st with depth := st.depth + 1 } = .ok o := by
  unfold build.enter at h
  split at h
  · cases h
  · exact h

theorem argList_ofArgList (l : List Ast) : (Ast.ofArgList l).argList = l := by
  induction l with
  | nil => rfl
  | cons a t ih => simp [Ast.ofArgList, Ast.argList, ih]

/-- what a successful `build` of an ordinary function call consists of -/
theorem build_call_inv (regexOk : RegexOk) (limit : Nat) (sn sd : Bool) (name pfx : String) (args : Ast)
    (fl : Flags) (st : BState) (o : BOut)
    (h : build regexOk limit sn sd (.call name pfx args) fl st = .ok o)
    (hm : name ≠ "matches") (hr : name ≠ "reverse") (hl : name ≠ "last") (hp : name ≠ "position")
    (hn : args.argList.length ≠ 0) :
    ∃ ao, build regexOk limit sn sd args { take := fnUsed name args.argList.length }
        { st with depth := st.depth + 1 } = .ok ao ∧ o.q = .func name .nil ao.q := by
  rw [build] at h
  replace h := enter_ok _ _ _ _ h
  dsimp only at h
  cases hfa : fnArity name with
  | none => rw [hfa] at h; cases h
  | some t =>
    obtain ⟨mn, mx, idx⟩ := t
    rw [hfa] at h
    dsimp only at h
    by_cases h1 : args.argList.length < mn
    · rw [if_pos h1] at h; cases h
    · rw [if_neg h1] at h
      have hm' : (name == "matches") = false := by simpa using hm
      have hr' : (name == "reverse") = false := by simpa using hr
      have hl' : (name == "last") = false := by simpa using hl
      have hp' : (name == "position") = false := by simpa using hp
      have hn' : (args.argList.length == 0) = false := by simpa using hn
      have fin : ∀ (x : Except BErr BOut), x = .ok o →
          (x = do
            let ao ← build regexOk limit sn sd args { take := fnUsed name args.argList.length }
              { depth := st.depth + 1, firstInput := st.firstInput, predInput := st.predInput }
            .ok ⟨Plan.func name .nil ao.q, if (fnUsed name args.argList.length == 0) = true then { } else ao.props,
              build.leave ao.st⟩) →
          ∃ ao, build regexOk limit sn sd args { take := fnUsed name args.argList.length }
            { depth := st.depth + 1, firstInput := st.firstInput, predInput := st.predInput } = Except.ok ao ∧
            o.q = Plan.func name Plan.nil ao.q := by
        intro x hx hx2
        rw [hx2] at hx
        obtain ⟨ao, hao, h⟩ := except_bind_ok _ _ _ hx
        refine ⟨ao, hao, ?_⟩
        cases h; rfl
      cases mx with
      | none =>
        dsimp only at h
        rw [if_neg (by decide)] at h
        refine fin _ h ?_
        simp only [hm', hr', hl', hp', hn', Bool.false_eq_true, ↓reduceIte, Bool.and_false, Bool.false_and, Bool.or_false]
      | some m =>
        dsimp only at h
        by_cases h2 : decide (args.argList.length > m) = true
        · rw [if_pos h2] at h; cases h
        · rw [if_neg h2] at h
          refine fin _ h ?_
          simp only [hm', hr', hl', hp', hn', Bool.false_eq_true, ↓reduceIte, Bool.and_false, Bool.false_and, Bool.or_false]

/-- pointwise relation of two lists -/
inductive All2 {α β : Type} (R : α → β → Prop) : List α → List β → Prop
  | nil : All2 R [] []
  | cons {a : α} {b : β} {as : List α} {bs : List β} : R a b → All2 R as bs → All2 R (a :: as) (b :: bs)

/-! ## semantic agreement of an expression, of an argument chain, of a call -/

/-- `e` has the context-independent value `v` on both sides: the oracle evaluates it to `v`, and
every plan `build` makes for it (any flags, any builder state, any configuration) evaluates to the
embedding of `v` at every context node -/
def SemV (d : Doc) (e : Ast) (v : Spec.Value F) : Prop :=
  (∀ ctx, Spec.eval (F := F) d e ctx = .ok (.val v none)) ∧
  ∀ regexOk limit sn sd fl st o, build regexOk limit sn sd e fl st = .ok o →
    ∀ cfg c, evalP (F := F) d cfg o.q c = .ok (emb v)

theorem semV_str (d : Doc) (s : String) : SemV (F := F) d (.str s) (.str s) := by
  refine ⟨fun ctx => by simp [Spec.eval], ?_⟩
  intro regexOk limit sn sd fl st o h cfg c
  rw [build] at h
  replace h := enter_ok _ _ _ _ h
  cases h
  simp [evalP, emb]

theorem semV_num (d : Doc) (l : String) : SemV (F := F) d (.num l) (.num (Spec.strToNum l)) := by
  refine ⟨fun ctx => by simp [Spec.eval], ?_⟩
  intro regexOk limit sn sd fl st o h cfg c
  rw [build] at h
  replace h := enter_ok _ _ _ _ h
  cases h
  simp [evalP, emb]

/-- an argument chain: the oracle's argument values and the model's argument outcomes -/
theorem args_sem (d : Doc) (args : List Ast) (vs : List (Spec.Value F))
    (h : All2 (SemV d) args vs) :
    (∀ ctx, Spec.eval (F := F) d (Ast.ofArgList args) ctx = .ok (.args vs)) ∧
    ∀ regexOk limit sn sd k st o, args.length ≤ k →
      build regexOk limit sn sd (Ast.ofArgList args) { take := k } st = .ok o →
      ∀ cfg c, argVals (F := F) d cfg o.q c = .ok (vs.map (fun v => .ok (emb v))) := by
  induction h with
  | nil =>
    refine ⟨fun ctx => by simp [Ast.ofArgList, Spec.eval], ?_⟩
    intro regexOk limit sn sd k st o _ h cfg c
    simp only [Ast.ofArgList] at h
    rw [build] at h
    cases h
    simp [argVals]
  | @cons a v as vs' hav _ ih =>
    obtain ⟨ih1, ih2⟩ := ih
    refine ⟨fun ctx => ?_, ?_⟩
    · simp [Ast.ofArgList, Spec.eval, hav.1 ctx, ih1 ctx, bind, Except.bind, Spec.Res.value, Spec.Res.argList]
    · intro regexOk limit sn sd k st o hk h cfg c
      simp only [Ast.ofArgList] at h
      rw [build] at h
      have hk0 : ¬ ((({ take := k } : Flags).take == 0) = true) := by
        simp only [List.length_cons] at hk
        simp; omega
      rw [if_neg hk0] at h
      obtain ⟨ho, hho, h⟩ := except_bind_ok _ _ _ h
      obtain ⟨to, hto, h⟩ := except_bind_ok _ _ _ h
      cases h
      simp only [argVals, bind, Except.bind]
      rw [ih2 regexOk limit sn sd (k - 1) ho.st to (by simp only [List.length_cons] at hk; omega) hto cfg c]
      simp only [List.map_cons]
      rw [hav.2 _ _ _ _ _ _ _ hho cfg c]

/-- evaluating an ordinary function plan: the function applied to the argument outcomes -/
theorem evalP_func (d : Doc) (cfg : ECfg) (name : String) (q : Plan) (c : Ref)
    (avs : List (Except EErr (MVal F)))
    (h1 : name ≠ "name") (h2 : name ≠ "local-name") (h3 : name ≠ "namespace-uri")
    (ha : argVals (F := F) d cfg q c = .ok avs) :
    evalP (F := F) d cfg (.func name .nil q) c = callFn d cfg name .nil c avs none := by
  simp only [evalP, ha, bind, Except.bind]
  have e : (name == "name" || name == "local-name" || name == "namespace-uri") = false := by
    simp [h1, h2, h3]
  split <;> simp [e, pure, Except.pure]

/-- names `build` and `evalP` treat specially -/
def specialNames : List String :=
  ["matches", "reverse", "last", "position", "name", "local-name", "namespace-uri"]

/-- a call over semantically agreeing arguments agrees as soon as the two function libraries
agree on the argument values -/
theorem call_sem (d : Doc) (name pfx : String) (args : List Ast) (vs : List (Spec.Value F))
    (hF : All2 (SemV d) args vs) (v : Spec.Value F)
    (hn : name ∉ specialNames) (hlen : args.length ≠ 0)
    (hused : args.length ≤ fnUsed name args.length)
    (hspec : ∀ ctx, Spec.callFn d ctx name vs = .ok v)
    (hmodel : ∀ cfg c, callFn d cfg name .nil c (vs.map (fun v => .ok (emb v))) none = .ok (emb v)) :
    SemV d (.call name pfx (Ast.ofArgList args)) v := by
  obtain ⟨a1, a2⟩ := args_sem d args vs hF
  simp only [specialNames, List.mem_cons, List.not_mem_nil, or_false, not_or] at hn
  obtain ⟨n1, n2, n3, n4, n5, n6, n7⟩ := hn
  refine ⟨fun ctx => ?_, ?_⟩
  · simp [Spec.eval, a1 ctx, bind, Except.bind, Spec.Res.argList, hspec ctx]
  · intro regexOk limit sn sd fl st o h cfg c
    obtain ⟨ao, hao, hq⟩ := build_call_inv regexOk limit sn sd name pfx _ fl st o h n1 n2 n3 n4
      (by rw [argList_ofArgList]; exact hlen)
    rw [argList_ofArgList] at hao
    rw [hq, evalP_func d cfg name ao.q c _ n5 n6 n7 (a2 _ _ _ _ _ _ _ hused hao cfg c)]
    exact hmodel cfg c

omit [NumAlg F] in
theorem Agrees.model_eq {m : Except EErr (MVal F)} {s : Except Spec.Err (Spec.Value F)}
    (h : Agrees m s) {v : Spec.Value F} (hs : s = .ok v) : m = .ok (emb v) := by
  obtain ⟨w, h1, h2⟩ := h
  rw [h1] at hs; cases hs; exact h2

/-! ## the string functions keep strings `Plain` -/

theorem Plain.of_subset {s t : String} (h : ∀ c ∈ t.toList, c ∈ s.toList) (hs : Plain s) : Plain t :=
  fun c hc => hs c (h c hc)

theorem plain_empty : Plain "" := by
  intro c hc
  have : "".toList = [] := rfl
  rw [this] at hc; cases hc

theorem plain_append {a b : String} (ha : Plain a) (hb : Plain b) : Plain (a ++ b) := by
  intro c hc
  rw [String.toList_append] at hc
  rcases List.mem_append.1 hc with h | h
  · exact ha c h
  · exact hb c h

theorem plain_foldl (ss : List String) : ∀ acc, Plain acc → (∀ s ∈ ss, Plain s) →
    Plain (ss.foldl (· ++ ·) acc) := by
  induction ss with
  | nil => intro acc h _; exact h
  | cons x t ih =>
    intro acc h hs
    exact ih _ (plain_append h (hs x List.mem_cons_self)) (fun s hs' => hs s (List.mem_cons_of_mem _ hs'))

theorem plain_substringBefore (a b : String) (ha : Plain a) : Plain (Spec.fnSubstringBefore a b) := by
  unfold Spec.fnSubstringBefore
  split
  · refine Plain.of_subset ?_ ha
    intro c hc; rw [String.toList_ofList] at hc; exact List.mem_of_mem_take hc
  · exact plain_empty

theorem plain_substringAfter (a b : String) (ha : Plain a) : Plain (Spec.fnSubstringAfter a b) := by
  unfold Spec.fnSubstringAfter
  split
  · refine Plain.of_subset ?_ ha
    intro c hc; rw [String.toList_ofList] at hc; exact List.mem_of_mem_drop hc
  · exact plain_empty

theorem filterMap_zipIdx_sublist (xs : List Char) : ∀ (k : Nat) (p : Char × Nat → Option Char),
    (∀ c i o, p (c, i) = some o → o = c) → ((xs.zipIdx k).filterMap p).Sublist xs := by
  induction xs with
  | nil => intro k p _; simp
  | cons x t ih =>
    intro k p hp
    simp only [List.zipIdx_cons, List.filterMap_cons]
    cases hpx : p (x, k) with
    | none => exact (ih (k+1) p hp).cons _
    | some o => rw [hp x k o hpx]; exact (ih (k+1) p hp).cons_cons _

theorem plain_substring2 (a : String) (st : F) (ha : Plain a) : Plain (Spec.fnSubstring2 a st) := by
  refine Plain.of_subset ?_ ha
  intro c hc
  unfold Spec.fnSubstring2 at hc
  rw [String.toList_ofList] at hc
  refine (filterMap_zipIdx_sublist a.toList 0 _ ?_).subset hc
  intro c i o h
  split at h <;> simp_all

theorem plain_substring3 (a : String) (st len : F) (ha : Plain a) : Plain (Spec.fnSubstring3 a st len) :=
  Plain.of_subset (fun _ hc => (Theorems.C09.substring_is_sublist a st len).subset hc) ha

theorem mem_normSpaceAux (t : List Char) : ∀ (p : Bool) (c : Char), c ∈ Spec.normSpaceAux t p → c = ' ' ∨ c ∈ t := by
  induction t with
  | nil => intro p c h; simp [Spec.normSpaceAux] at h
  | cons x r ih =>
    intro p c h
    rw [aux_cons] at h
    split at h
    · rcases ih _ _ h with h | h
      · exact .inl h
      · exact .inr (List.mem_cons_of_mem _ h)
    · rcases List.mem_append.1 h with h | h
      · cases p <;> simp at h <;> rcases h with h | h <;> simp [h]
      · rcases ih _ _ h with h | h
        · exact .inl h
        · exact .inr (List.mem_cons_of_mem _ h)

theorem plain_normalizeSpace (a : String) (ha : Plain a) : Plain (Spec.fnNormalizeSpace a) := by
  intro c hc
  unfold Spec.fnNormalizeSpace at hc
  rw [String.toList_ofList] at hc
  rcases mem_normSpaceAux _ _ _ hc with h | h
  · subst h; decide
  · exact ha c (mem_trimXml _ _ h)

theorem plain_translate (s a b : String) (hs : Plain s) (hb : Plain b) : Plain (Spec.fnTranslate s a b) := by
  intro c hc
  unfold Spec.fnTranslate at hc
  rw [String.toList_ofList] at hc
  obtain ⟨x, hx, hxc⟩ := List.mem_filterMap.1 hc
  unfold Spec.translateChar at hxc
  split at hxc
  · cases hxc; exact hs c hx
  · exact hb c (List.mem_of_getElem? hxc)

theorem lower_range : ∀ k : Fin 26, Model.isSpace (Char.ofNat (k.val + 65 + 32)) = false ∧
    Spec.isXmlSpace (Char.ofNat (k.val + 65 + 32)) = false := by decide

theorem plain_lowerC (c : Char) (h : Model.isSpace c = Spec.isXmlSpace c) :
    Model.isSpace (Spec.lowerC c) = Spec.isXmlSpace (Spec.lowerC c) := by
  unfold Spec.lowerC
  split
  · rename_i hc
    simp only [Bool.and_eq_true, decide_eq_true_eq] at hc
    obtain ⟨h1, h2⟩ := hc
    have h1' : 65 ≤ c.toNat := h1
    have h2' : c.toNat ≤ 90 := h2
    have := lower_range ⟨c.toNat - 65, by omega⟩
    simp only [] at this
    rw [show c.toNat - 65 + 65 = c.toNat by omega] at this
    rw [this.1, this.2]
  · exact h

theorem plain_lowerCase (a : String) (ha : Plain a) : Plain (Spec.fnLowerCase a) := by
  intro c hc
  unfold Spec.fnLowerCase at hc
  rw [String.toList_ofList] at hc
  obtain ⟨x, hx, rfl⟩ := List.mem_map.1 hc
  exact plain_lowerC x (ha x hx)

/-! ## 4. the fragment of nested string expressions -/

/-- every string literal of the expression is `Plain` -/
def PlainLits : Ast → Prop
  | .str s => Plain s
  | .call _ _ args => PlainLits args
  | .acons h t => PlainLits h ∧ PlainLits t
  | _ => True

/-- string literals and calls of `concat` (any number ≥ 2 of arguments), `substring-before`,
`substring-after`, `substring` (2 and 3 arguments, number literals as bounds), `normalize-space`,
`translate`, `lower-case`, `string` over such expressions, nested to any depth.  Below a
`normalize-space` call all string literals are `Plain` (Go's and XML's whitespace coincide on
them); elsewhere literals are arbitrary. -/
inductive StrE : Ast → Prop
  | lit (s : String) : StrE (.str s)
  | concat (pfx : String) (args : List Ast) : 2 ≤ args.length → (∀ a ∈ args, StrE a) →
      StrE (.call "concat" pfx (Ast.ofArgList args))
  | substringBefore (pfx : String) (a b : Ast) : StrE a → StrE b →
      StrE (.call "substring-before" pfx (.acons a (.acons b .anil)))
  | substringAfter (pfx : String) (a b : Ast) : StrE a → StrE b →
      StrE (.call "substring-after" pfx (.acons a (.acons b .anil)))
  | substring2 (pfx : String) (a : Ast) (start : String) : StrE a →
      StrE (.call "substring" pfx (.acons a (.acons (.num start) .anil)))
  | substring3 (pfx : String) (a : Ast) (start len : String) : StrE a →
      StrE (.call "substring" pfx (.acons a (.acons (.num start) (.acons (.num len) .anil))))
  | normalizeSpace (pfx : String) (a : Ast) : StrE a → PlainLits a →
      StrE (.call "normalize-space" pfx (.acons a .anil))
  | translate (pfx : String) (a b c : Ast) : StrE a → StrE b → StrE c →
      StrE (.call "translate" pfx (.acons a (.acons b (.acons c .anil))))
  | lowerCase (pfx : String) (a : Ast) : StrE a → StrE (.call "lower-case" pfx (.acons a .anil))
  | string (pfx : String) (a : Ast) : StrE a → StrE (.call "string" pfx (.acons a .anil))

theorem plainLits_ofArgList (args : List Ast) (h : PlainLits (Ast.ofArgList args)) :
    ∀ a ∈ args, PlainLits a := by
  induction args with
  | nil => intro a ha; cases ha
  | cons x t ih =>
    intro a ha
    simp only [Ast.ofArgList, PlainLits] at h
    rcases List.mem_cons.1 ha with rfl | ha
    · exact h.1
    · exact ih h.2 a ha

theorem exists_all2 {α β : Type} (R : α → β → Prop) (l : List α) (h : ∀ a ∈ l, ∃ b, R a b) :
    ∃ bs, All2 R l bs := by
  induction l with
  | nil => exact ⟨[], .nil⟩
  | cons x t ih =>
    obtain ⟨b, hb⟩ := h x List.mem_cons_self
    obtain ⟨bs, hbs⟩ := ih (fun a ha => h a (List.mem_cons_of_mem _ ha))
    exact ⟨b :: bs, .cons hb hbs⟩

theorem all2_length {α β : Type} {R : α → β → Prop} {l : List α} {bs : List β} (h : All2 R l bs) :
    bs.length = l.length := by
  induction h with
  | nil => rfl
  | cons _ _ ih => simp [ih]

/-- the per-expression statement of the induction -/
def Good (d : Doc) (e : Ast) (s : String) : Prop :=
  SemV (F := F) d e (.str s) ∧ (PlainLits e → Plain s)

theorem all2_good_sem (d : Doc) (args : List Ast) (ss : List String)
    (h : All2 (Good (F := F) d) args ss) : All2 (SemV (F := F) d) args (ss.map .str) := by
  induction h with
  | nil => exact .nil
  | cons h _ ih => exact .cons h.1 ih

theorem all2_good_plain (d : Doc) (args : List Ast) (ss : List String)
    (h : All2 (Good (F := F) d) args ss) (hp : ∀ a ∈ args, PlainLits a) : ∀ s ∈ ss, Plain s := by
  induction h with
  | nil => intro s hs; cases hs
  | cons h _ ih =>
    intro s hs
    rcases List.mem_cons.1 hs with rfl | hs
    · exact h.2 (hp _ List.mem_cons_self)
    · exact ih (fun a ha => hp a (List.mem_cons_of_mem _ ha)) s hs

theorem map_toStr_str (d : Doc) (ss : List String) :
    (ss.map (Spec.Value.str (F := F))).map (Spec.toStr d) = ss := by
  induction ss with
  | nil => rfl
  | cons x t ih => simp only [List.map_cons, ih]; rfl

/-- **nested calls**: every expression of the fragment has one string value `s`, the oracle
evaluates it to `s` in every context, and every plan `build` produces for it evaluates to `s` at
every context node, under every engine configuration -/
theorem strE_good (d : Doc) (e : Ast) (h : StrE e) : ∃ s, Good (F := F) d e s := by
  induction h with
  | lit s => exact ⟨s, semV_str d s, fun h => h⟩
  | concat pfx args h2 _ ih =>
    obtain ⟨ss, hss⟩ := exists_all2 _ args ih
    have hlen := all2_length hss
    refine ⟨((ss.map (Spec.Value.str (F := F))).map (Spec.toStr d)).foldl (· ++ ·) "", ?_, ?_⟩
    · refine call_sem d "concat" pfx args (ss.map .str) (all2_good_sem d args ss hss) _
        (by decide) (by omega) (by simp [fnUsed]) (fun ctx => spec_concat d ctx _ (by simp; omega)) ?_
      intro cfg c
      exact callFn_concat d cfg .nil c none _
        (by intro v hv; obtain ⟨s, _, rfl⟩ := List.mem_map.1 hv; exact .str s)
    · intro hp
      rw [map_toStr_str]
      exact plain_foldl ss "" plain_empty
        (all2_good_plain d args ss hss (plainLits_ofArgList args hp))
  | substringBefore pfx a b _ _ iha ihb =>
    obtain ⟨sa, ha⟩ := iha
    obtain ⟨sb, hb⟩ := ihb
    refine ⟨Spec.fnSubstringBefore sa sb, ?_, fun hp => plain_substringBefore _ _ (ha.2 hp.1)⟩
    exact call_sem d "substring-before" pfx [a, b] [.str sa, .str sb] (.cons ha.1 (.cons hb.1 .nil)) _
      (by decide) (by simp) (by simp [fnUsed]) (fun ctx => rfl)
      (fun cfg c => (fn_substring_before_spec d cfg .nil c none ⟨c, 1, 1⟩ sa sb).model_eq rfl)
  | substringAfter pfx a b _ _ iha ihb =>
    obtain ⟨sa, ha⟩ := iha
    obtain ⟨sb, hb⟩ := ihb
    refine ⟨Spec.fnSubstringAfter sa sb, ?_, fun hp => plain_substringAfter _ _ (ha.2 hp.1)⟩
    exact call_sem d "substring-after" pfx [a, b] [.str sa, .str sb] (.cons ha.1 (.cons hb.1 .nil)) _
      (by decide) (by simp) (by simp [fnUsed]) (fun ctx => rfl)
      (fun cfg c => (fn_substring_after_spec d cfg .nil c none ⟨c, 1, 1⟩ sa sb).model_eq rfl)
  | substring2 pfx a start _ iha =>
    obtain ⟨sa, ha⟩ := iha
    refine ⟨Spec.fnSubstring2 sa (Spec.strToNum start : F), ?_, fun hp => plain_substring2 _ _ (ha.2 hp.1)⟩
    exact call_sem d "substring" pfx [a, .num start] [.str sa, .num (Spec.strToNum start)]
      (.cons ha.1 (.cons (semV_num d start) .nil)) _
      (by decide) (by simp) (by simp [fnUsed]) (fun ctx => rfl)
      (fun cfg c => (fn_substring2_spec d cfg .nil c none ⟨c, 1, 1⟩ sa _).model_eq rfl)
  | substring3 pfx a start len _ iha =>
    obtain ⟨sa, ha⟩ := iha
    refine ⟨Spec.fnSubstring3 sa (Spec.strToNum start : F) (Spec.strToNum len), ?_,
      fun hp => plain_substring3 _ _ _ (ha.2 hp.1)⟩
    exact call_sem d "substring" pfx [a, .num start, .num len]
      [.str sa, .num (Spec.strToNum start), .num (Spec.strToNum len)]
      (.cons ha.1 (.cons (semV_num d start) (.cons (semV_num d len) .nil))) _
      (by decide) (by simp) (by simp [fnUsed]) (fun ctx => rfl)
      (fun cfg c => (fn_substring3_spec d cfg .nil c none ⟨c, 1, 1⟩ sa _ _).model_eq rfl)
  | normalizeSpace pfx a _ hpl iha =>
    obtain ⟨sa, ha⟩ := iha
    have hsa : Plain sa := ha.2 hpl
    refine ⟨Spec.fnNormalizeSpace sa, ?_, fun _ => plain_normalizeSpace _ hsa⟩
    exact call_sem d "normalize-space" pfx [a] [.str sa] (.cons ha.1 .nil) _
      (by decide) (by simp) (by simp [fnUsed]) (fun ctx => rfl)
      (fun cfg c => (fn_normalize_space_spec d cfg .nil c none ⟨c, 1, 1⟩ sa hsa).model_eq rfl)
  | translate pfx a b c _ _ _ iha ihb ihc =>
    obtain ⟨sa, ha⟩ := iha
    obtain ⟨sb, hb⟩ := ihb
    obtain ⟨sc, hc⟩ := ihc
    refine ⟨Spec.fnTranslate sa sb sc, ?_, fun hp => plain_translate _ _ _ (ha.2 hp.1) (hc.2 hp.2.2.1)⟩
    exact call_sem d "translate" pfx [a, b, c] [.str sa, .str sb, .str sc]
      (.cons ha.1 (.cons hb.1 (.cons hc.1 .nil))) _
      (by decide) (by simp) (by simp [fnUsed]) (fun ctx => rfl)
      (fun cfg c' => (fn_translate_spec d cfg .nil c' none ⟨c', 1, 1⟩ sa sb sc).model_eq rfl)
  | lowerCase pfx a _ iha =>
    obtain ⟨sa, ha⟩ := iha
    refine ⟨Spec.fnLowerCase sa, ?_, fun hp => plain_lowerCase _ (ha.2 hp.1)⟩
    exact call_sem d "lower-case" pfx [a] [.str sa] (.cons ha.1 .nil) _
      (by decide) (by simp) (by simp [fnUsed]) (fun ctx => rfl)
      (fun cfg c => (fn_lower_case_spec d cfg .nil c none ⟨c, 1, 1⟩ sa).model_eq rfl)
  | string pfx a _ iha =>
    obtain ⟨sa, ha⟩ := iha
    refine ⟨sa, ?_, fun hp => ha.2 hp.1⟩
    exact call_sem d "string" pfx [a] [.str sa] (.cons ha.1 .nil) _
      (by decide) (by simp) (by simp [fnUsed]) (fun ctx => rfl)
      (fun cfg c => (fn_string_spec d cfg .nil c none ⟨c, 1, 1⟩ (.str sa)).model_eq rfl)

/-- the statement in the shape of the property: whenever `build` succeeds on an expression of the
fragment, the plan's value at any context node is the string the oracle computes there -/
theorem strE_sem (e : Ast) (h : StrE e) (d : Doc) (cfg : ECfg) (c : Ref)
    (regexOk : RegexOk) (limit : Nat) (sn sd : Bool) (st : BState) (o : BOut)
    (hb : build regexOk limit sn sd e {} st = .ok o) :
    ∃ s, evalP (F := F) d cfg o.q c = .ok (.str s) ∧
      evaluate (F := F) d cfg o.q c = .ok (.str s) ∧
      Spec.eval (F := F) d e ⟨c, 1, 1⟩ = .ok (.val (.str s) none) ∧
      Spec.evalTop (F := F) d e c = .ok (.str s) := by
  obtain ⟨s, ⟨h1, h2⟩, _⟩ := strE_good (F := F) d e h
  have hv := h2 regexOk limit sn sd {} st o hb cfg c
  refine ⟨s, hv, ?_, h1 _, ?_⟩
  · simp only [evaluate, hv, bind, Except.bind, emb]; rfl
  · simp only [Spec.evalTop, h1 ⟨c, 1, 1⟩, bind, Except.bind]; rfl

/-! ## non-vacuity: `build` succeeds on the fragment when the depth limit suffices -/

/-- nesting height as `parseDepth` counts it -/
def ht : Ast → Nat
  | .call _ _ args => ht args + 1
  | .acons h t => max (ht h) (ht t)
  | .str _ => 1
  | .num _ => 1
  | _ => 0

def Builds (e : Ast) : Prop :=
  ∀ regexOk limit sn sd fl st, st.depth + ht e ≤ limit →
    ∃ o, build regexOk limit sn sd e fl st = .ok o ∧ o.st.depth = st.depth

theorem builds_str (s : String) : Builds (.str s) := by
  intro regexOk limit sn sd fl st h
  simp only [ht] at h
  refine ⟨_, by rw [build, build.enter, if_neg (by omega)], ?_⟩
  simp [build.leave]

theorem builds_num (s : String) : Builds (.num s) := by
  intro regexOk limit sn sd fl st h
  simp only [ht] at h
  refine ⟨_, by rw [build, build.enter, if_neg (by omega)], ?_⟩
  simp [build.leave]

theorem args_builds (args : List Ast) (h : ∀ a ∈ args, Builds a) :
    ∀ regexOk limit sn sd k st, st.depth + ht (Ast.ofArgList args) ≤ limit →
      ∃ o, build regexOk limit sn sd (Ast.ofArgList args) { take := k } st = .ok o ∧
        o.st.depth = st.depth := by
  induction args with
  | nil =>
    intro regexOk limit sn sd k st _
    exact ⟨_, by simp only [Ast.ofArgList]; rw [build], rfl⟩
  | cons x t ih =>
    intro regexOk limit sn sd k st hd
    simp only [Ast.ofArgList, ht] at hd
    simp only [Ast.ofArgList]
    rw [build]
    by_cases hk : (({ take := k } : Flags).take == 0) = true
    · rw [if_pos hk]; exact ⟨_, rfl, rfl⟩
    · rw [if_neg hk]
      obtain ⟨ho, hho, hhd⟩ := h x List.mem_cons_self regexOk limit sn sd {} st (by omega)
      obtain ⟨to, hto, htd⟩ := ih (fun a ha => h a (List.mem_cons_of_mem _ ha)) regexOk limit sn sd
        (k - 1) ho.st (by omega)
      refine ⟨_, by simp only [hho, hto, bind, Except.bind]; rfl, ?_⟩
      simp only [htd, hhd]

theorem call_builds (name pfx : String) (args : List Ast) (mn : Nat) (mx : Option Nat) (idx : Bool)
    (hfa : fnArity name = some (mn, mx, idx)) (h1 : mn ≤ args.length)
    (h2 : ∀ m, mx = some m → args.length ≤ m) (hm : name ≠ "matches")
    (h : ∀ a ∈ args, Builds a) (hz : args.length ≠ 0 := by first | simp | omega) :
    Builds (.call name pfx (Ast.ofArgList args)) := by
  intro regexOk limit sn sd fl st hd
  have hz' : (args.length == 0) = false := by simpa using hz
  simp only [ht] at hd
  obtain ⟨ao, hao, had⟩ := args_builds args h regexOk limit sn sd (fnUsed name args.length)
    { st with depth := st.depth + 1 } (by simp only; omega)
  have hm' : (name == "matches") = false := by simpa using hm
  rw [build, build.enter, if_neg (by omega)]
  simp only [argList_ofArgList, hfa]
  rw [if_neg (by omega)]
  cases mx with
  | none =>
    simp only [hao, bind, Except.bind, hm', hz', Bool.false_eq_true, ↓reduceIte, Bool.and_false, Bool.false_and]
    refine ⟨_, rfl, ?_⟩
    simp only [build.leave, had]
    omega
  | some m =>
    have := h2 m rfl
    have h3 : decide (args.length > m) = false := by simp; omega
    simp only [h3, hao, bind, Except.bind, hm', hz', Bool.false_eq_true, ↓reduceIte, Bool.and_false, Bool.false_and]
    refine ⟨_, rfl, ?_⟩
    simp only [build.leave, had]
    omega

theorem strE_builds (e : Ast) (h : StrE e) : Builds e := by
  induction h with
  | lit s => exact builds_str s
  | concat pfx args h2 _ ih =>
    exact call_builds "concat" pfx args 2 none false (by simp [fnArity]) h2 (by simp) (by decide) ih (by omega)
  | substringBefore pfx a b _ _ iha ihb =>
    exact call_builds "substring-before" pfx [a, b] 2 (some 2) false (by simp [fnArity]) (by simp)
      (by simp) (by decide) (by simp [iha, ihb])
  | substringAfter pfx a b _ _ iha ihb =>
    exact call_builds "substring-after" pfx [a, b] 2 (some 2) false (by simp [fnArity]) (by simp)
      (by simp) (by decide) (by simp [iha, ihb])
  | substring2 pfx a start _ iha =>
    exact call_builds "substring" pfx [a, .num start] 2 none false (by simp [fnArity]) (by simp)
      (by simp) (by decide) (by simp [iha, builds_num])
  | substring3 pfx a start len _ iha =>
    exact call_builds "substring" pfx [a, .num start, .num len] 2 none false (by simp [fnArity]) (by simp)
      (by simp) (by decide) (by simp [iha, builds_num])
  | normalizeSpace pfx a _ _ iha =>
    exact call_builds "normalize-space" pfx [a] 0 none false (by simp [fnArity]) (by simp)
      (by simp) (by decide) (by simp [iha])
  | translate pfx a b c _ _ _ iha ihb ihc =>
    exact call_builds "translate" pfx [a, b, c] 3 (some 3) false (by simp [fnArity]) (by simp)
      (by simp) (by decide) (by simp [iha, ihb, ihc])
  | lowerCase pfx a _ iha =>
    exact call_builds "lower-case" pfx [a] 1 none true (by simp [fnArity]) (by simp)
      (by simp) (by decide) (by simp [iha])
  | string pfx a _ iha =>
    exact call_builds "string" pfx [a] 0 (some 1) false (by simp [fnArity]) (by simp)
      (by simp) (by decide) (by simp [iha])

/-- **C09, nested**: for an expression of the fragment whose nesting height fits the builder's
depth limit, `build` succeeds and the plan's value is the oracle's value — neither side fails -/
theorem strE_total (e : Ast) (h : StrE e) (d : Doc) (cfg : ECfg) (c : Ref)
    (regexOk : RegexOk) (limit : Nat) (sn sd : Bool) (st : BState) (hd : st.depth + ht e ≤ limit) :
    ∃ o s, build regexOk limit sn sd e {} st = .ok o ∧
      evaluate (F := F) d cfg o.q c = .ok (.str s) ∧ Spec.evalTop (F := F) d e c = .ok (.str s) := by
  obtain ⟨o, ho, _⟩ := strE_builds e h regexOk limit sn sd {} st hd
  obtain ⟨s, _, h2, _, h4⟩ := strE_sem (F := F) e h d cfg c regexOk limit sn sd st o ho
  exact ⟨o, s, ho, h2, h4⟩

end XPathV.StringFns
