import XPathV.Model.Chain
import XPathV.Lemmas.ScanProgress
/-!
# The parser never runs out of fuel (`fuelFor` is enough)
-/
namespace XPathV.Lemmas.ParserFuel
open XPathV XPathV.Model XPathV.Lemmas.ScanProgress

/-- characters not yet consumed, counting the current (already scanned) token as one more unless it is EOF -/
def meas (s : Scan) : Nat := remaining s + (if s.typ = .eof then 0 else 1)

abbrev M (st : PState) : Nat := meas st.s

theorem nextItem_meas_le {s s' : Scan} (h : s.nextItem = .ok s') : meas s' ≤ meas s := by
  have := nextItem_prog s s' h
  unfold Prog at this; unfold meas
  rcases this with ⟨a, b⟩ | ⟨a, b⟩
  · simp only [a, ↓reduceIte]; omega
  · simp only [a, ↓reduceIte]; omega

theorem nextItem_meas_lt {s s' : Scan} (ht : s.typ ≠ .eof) (h : s.nextItem = .ok s') : meas s' < meas s := by
  have := nextItem_prog s s' h
  unfold Prog at this; unfold meas
  rcases this with ⟨a, b⟩ | ⟨a, b⟩
  · simp only [a, ht, ↓reduceIte]; omega
  · simp only [a, ht, ↓reduceIte]; omega

theorem init_meas {text : List Char} {s : Scan} (h : Scan.init text = .ok s) : meas s ≤ text.length := by
  unfold Scan.init at h
  have h1 := nextItem_prog _ _ h
  have h2 := nextChar_le ({ rest := text } : Scan)
  have h3 : remaining ({ rest := text } : Scan) = text.length := by simp [remaining]
  unfold Prog at h1; unfold meas
  rcases h1 with ⟨a, b⟩ | ⟨a, b⟩
  · simp only [a, ↓reduceIte]; omega
  · simp only [a, ↓reduceIte]; omega

/-- the result is not the fuel error, and a successful result satisfies `P` -/
def Good {α : Type} (P : α → Prop) : Except PErr α → Prop
  | .error e => e ≠ .fuel
  | .ok a => P a

theorem Good.bind {α β : Type} {P : α → Prop} {Q : β → Prop} {x : Except PErr α} {k : α → Except PErr β}
    (hx : Good P x) (hk : ∀ a, P a → Good Q (k a)) : Good Q (x >>= k) := by
  cases x with
  | error e => exact hx
  | ok a => exact hk a hx

theorem Good.pure {α : Type} {Q : α → Prop} {a : α} (h : Q a) : Good Q (pure a : Except PErr α) := h
theorem Good.ok {α : Type} {Q : α → Prop} {a : α} (h : Q a) : Good Q (.ok a : Except PErr α) := h

theorem Good.mono {α : Type} {P Q : α → Prop} {x : Except PErr α} (hx : Good P x) (h : ∀ a, P a → Q a) : Good Q x := by
  cases x with
  | error e => exact hx
  | ok a => exact h a hx

theorem Good.ne {α : Type} {P : α → Prop} {x : Except PErr α} (hx : Good P x) : x ≠ .error .fuel := by
  intro h; subst h; exact hx rfl

theorem next_le (st : PState) : Good (fun st' => M st' ≤ M st) st.next := by
  unfold PState.next
  split
  · rename_i s' h; exact nextItem_meas_le h
  · intro h; cases h

theorem next_lt (st : PState) (ht : st.s.typ ≠ .eof) : Good (fun st' => M st' < M st) st.next := by
  unfold PState.next
  split
  · rename_i s' h; exact nextItem_meas_lt ht h
  · intro h; cases h

theorem skipItem_lt (st : PState) (t : Tok) (ht : t ≠ .eof) : Good (fun st' => M st' < M st) (st.skipItem t) := by
  unfold PState.skipItem
  split
  · rename_i h
    exact next_lt st (by rw [eq_of_beq h]; exact ht)
  · intro h; cases h

theorem tokMatches_ne_eof (s : Scan) (op : String) (h : tokMatches s op = true) : s.typ ≠ .eof := by
  unfold tokMatches at h
  split at h <;> (intro h'; rw [h'] at h; simp at h)

theorem skipMinus_good : ∀ (fuel : Nat) (st : PState) (b : Bool), M st + 1 ≤ fuel →
    Good (fun p => M p.2 ≤ M st) (skipMinus fuel st b)
  | 0, st, b, h => by omega
  | f+1, st, b, h => by
    unfold skipMinus
    split
    · rename_i ht
      refine Good.bind (next_lt st (by rw [eq_of_beq ht]; decide)) ?_
      intro st1 h1
      refine Good.mono (skipMinus_good f st1 (!b) (by omega)) ?_
      intro p hp; simp only [M] at *; omega
    · exact Nat.le_refl _

abbrev Le (st : PState) : Ast × PState → Prop := fun p => M p.2 ≤ M st

theorem Good.err {α : Type} {Q : α → Prop} {e : PErr} (h : e ≠ .fuel) : Good Q (.error e : Except PErr α) := h

theorem parseNodeTest_good (cfg : PCfg) (inp : Ast) (axis : String) (mt : NType) (st : PState) :
    Good (Le st) (parseNodeTest cfg inp axis mt st) := by
  unfold parseNodeTest
  split
  · rename_i hty
    have hne : st.s.typ ≠ .eof := by rw [hty]; decide
    split
    · refine Good.bind (next_lt st hne) ?_
      intro st1 h1
      refine Good.bind (skipItem_lt st1 .lparen (by decide)) ?_
      intro st2 h2
      extract_lets mt' jp
      have hjp : ∀ name st', M st' ≤ M st2 → Good (Le st) (jp (name, st')) := by
        intro name st' h'
        simp only [jp]
        refine Good.bind (skipItem_lt st' .rparen (by decide)) ?_
        intro st3 h3
        refine Good.pure ?_
        simp only [Le, M] at *; omega
      clear_value jp
      split
      · split
        · refine Good.bind (next_le st2) ?_
          intro st3 h3
          refine Good.bind (Good.pure (Q := fun p => M p.2 ≤ M st2) h3) ?_
          intro p hp
          exact hjp _ _ hp
        · exact Good.bind (P := fun _ => False) (Good.err (by decide)) (fun _ h => h.elim)
      · refine Good.bind (Good.pure (Q := fun p => M p.2 ≤ M st2) (Nat.le_refl _)) ?_
        intro p hp
        exact hjp _ _ hp
    · refine Good.bind (next_lt st hne) ?_
      intro st1 h1
      have hle : M st1 ≤ M st := Nat.le_of_lt h1
      split
      · split
        · split
          · exact Good.pure hle
          · exact Good.err (by decide)
        · exact Good.pure hle
      · exact Good.pure hle
  · rename_i hty
    have hne : st.s.typ ≠ .eof := by rw [hty]; decide
    refine Good.bind (next_lt st hne) ?_
    intro st1 h1
    exact Good.pure (Nat.le_of_lt h1)
  · exact Good.err (by decide)

section
variable (cfg : PCfg)

def SExpr (f : Nat) : Prop := ∀ st, 40 * M st + 8 + cfg.chain.length ≤ f → Good (Le st) (parseExpression f cfg st)
def SChain (f : Nat) : Prop := ∀ stages st, stages.length ≤ 31 → 40 * M st + 7 + stages.length ≤ f →
  Good (Le st) (parseChain f cfg stages st)
def STier (f : Nat) : Prop := ∀ ops rest opnd st, rest.length ≤ 31 → 40 * M st + 1 ≤ f →
  Good (Le st) (tierLoop f cfg ops rest opnd st)
def SPath (f : Nat) : Prop := ∀ st, 40 * M st + 6 ≤ f → Good (Le st) (parsePathExpr f cfg st)
def SFilter (f : Nat) : Prop := ∀ st, 40 * M st + 3 ≤ f → Good (Le st) (parseFilterExpr f cfg st)
def SPred (f : Nat) : Prop := ∀ st, 40 * M st + 1 ≤ f →
  Good (fun p => M p.2 < M st) (parsePredicate f cfg st)
def SPrimary (f : Nat) : Prop := ∀ st, 40 * M st + 2 ≤ f → Good (Le st) (parsePrimary f cfg st)
def SMethod (f : Nat) : Prop := ∀ st, 40 * M st + 1 ≤ f → Good (Le st) (parseMethod f cfg st)
def SArgs (f : Nat) : Prop := ∀ st, 40 * M st + 9 + cfg.chain.length ≤ f → Good (Le st) (parseArgs f cfg st)
def SLoc (f : Nat) : Prop := ∀ st, 40 * M st + 5 ≤ f → Good (Le st) (parseLocationPath f cfg st)
def SRel (f : Nat) : Prop := ∀ inp st, 40 * M st + 4 ≤ f → Good (Le st) (parseRelLoc f cfg inp st)
def SStep (f : Nat) : Prop := ∀ inp st, 40 * M st + 3 ≤ f → Good (Le st) (parseStep f cfg inp st)
def SPreds (f : Nat) : Prop := ∀ opnd st, 40 * M st + 2 ≤ f → Good (Le st) (stepPreds f cfg opnd st)
def SSeq (f : Nat) : Prop := ∀ inp st, 40 * M st + 1 ≤ f → Good (Le st) (parseSequence f cfg inp st)
def SSeqLoop (f : Nat) : Prop := ∀ inp opnd st, 40 * M st + 1 ≤ f → Good (Le st) (seqLoop f cfg inp opnd st)

variable {cfg}


macro "leq" : tactic => `(tactic| (simp only [Le, M] at *; omega))
macro "mono " t:term : tactic => `(tactic| exact Good.mono $t (fun p hp => by leq))

theorem step_expr (hK : cfg.chain.length ≤ 31) {f : Nat} (ih : SChain cfg f) : SExpr cfg (f+1) := by
  intro st h
  simp only [parseExpression]
  split
  · exact Good.err (by decide)
  · refine Good.bind (ih cfg.chain _ hK (by leq)) ?_
    rintro ⟨a, st1⟩ h1
    exact Good.pure h1

theorem step_chain {f : Nat} (ihChain : SChain cfg f) (ihTier : STier cfg f) (ihPath : SPath cfg f) :
    SChain cfg (f+1) := by
  intro stages st hlen h
  cases stages with
  | nil =>
    simp only [parseChain]
    mono (ihPath st (by simp only [List.length_nil] at h; leq))
  | cons s rest =>
    simp only [List.length_cons] at h hlen
    cases s with
    | tier ops =>
      simp only [parseChain]
      refine Good.bind (ihChain rest st (by omega) (by leq)) ?_
      rintro ⟨opnd, st1⟩ h1
      mono (ihTier ops rest opnd st1 (by omega) (by leq))
    | unary =>
      simp only [parseChain]
      refine Good.bind (skipMinus_good (f+1) st false (by leq)) ?_
      rintro ⟨minus, st1⟩ h1
      refine Good.bind (ihChain rest st1 (by omega) (by leq)) ?_
      rintro ⟨opnd, st2⟩ h2
      exact Good.pure (by leq)

theorem step_tier {f : Nat} (ihChain : SChain cfg f) (ihTier : STier cfg f) : STier cfg (f+1) := by
  intro ops rest opnd st hlen h
  simp only [tierLoop]
  split
  · exact Good.pure (Nat.le_refl _)
  · rename_i op hfind
    have hm : tokMatches st.s op = true := List.find?_some hfind
    refine Good.bind (next_lt st (tokMatches_ne_eof _ _ hm)) ?_
    intro st1 h1
    refine Good.bind (ihChain rest st1 hlen (by leq)) ?_
    rintro ⟨r, st2⟩ h2
    mono (ihTier ops rest _ st2 hlen (by leq))

theorem step_path {f : Nat} (ihFilter : SFilter cfg f) (ihRel : SRel cfg f) (ihLoc : SLoc cfg f) :
    SPath cfg (f+1) := by
  intro st h
  simp only [parsePathExpr]
  split
  · refine Good.bind (ihFilter st (by leq)) ?_
    rintro ⟨opnd, st1⟩ h1
    simp only []
    split
    · rename_i hty
      refine Good.bind (next_lt st1 (by rw [hty]; decide)) ?_
      intro st2 h2
      mono (ihRel _ st2 (by leq))
    · rename_i hty
      refine Good.bind (next_lt st1 (by rw [hty]; decide)) ?_
      intro st2 h2
      mono (ihRel _ st2 (by leq))
    · exact Good.pure (by leq)
  · mono (ihLoc st (by leq))

theorem step_filter {f : Nat} (ihPrimary : SPrimary cfg f) (ihPreds : SPreds cfg f) : SFilter cfg (f+1) := by
  intro st h
  simp only [parseFilterExpr]
  refine Good.bind (ihPrimary st (by leq)) ?_
  rintro ⟨opnd, st1⟩ h1
  mono (ihPreds opnd st1 (by leq))

theorem step_pred (hK : cfg.chain.length ≤ 31) {f : Nat} (ihExpr : SExpr cfg f) : SPred cfg (f+1) := by
  intro st h
  simp only [parsePredicate]
  refine Good.bind (skipItem_lt st .lbracket (by decide)) ?_
  intro st1 h1
  refine Good.bind (ihExpr st1 (by leq)) ?_
  rintro ⟨opnd, st2⟩ h2
  refine Good.bind (skipItem_lt st2 .rbracket (by decide)) ?_
  intro st3 h3
  exact Good.pure (by leq)

theorem step_primary (hK : cfg.chain.length ≤ 31) {f : Nat} (ihExpr : SExpr cfg f) (ihMethod : SMethod cfg f) :
    SPrimary cfg (f+1) := by
  intro st h
  simp only [parsePrimary]
  split
  · rename_i hty
    refine Good.bind (next_lt st (by rw [hty]; decide)) ?_
    intro st1 h1
    exact Good.pure (by leq)
  · rename_i hty
    refine Good.bind (next_lt st (by rw [hty]; decide)) ?_
    intro st1 h1
    exact Good.pure (by leq)
  · rename_i hty
    refine Good.bind (next_lt st (by rw [hty]; decide)) ?_
    intro st1 h1
    split
    · refine Good.bind (next_le st1) ?_
      intro st2 h2
      exact Good.pure (by leq)
    · exact Good.err (by decide)
  · rename_i hty
    refine Good.bind (next_lt st (by rw [hty]; decide)) ?_
    intro st1 h1
    refine Good.bind (ihExpr st1 (by leq)) ?_
    rintro ⟨opnd, st2⟩ h2
    refine Good.bind (skipItem_lt st2 .rparen (by decide)) ?_
    intro st3 h3
    exact Good.pure (by leq)
  · split
    · mono (ihMethod st (by leq))
    · exact Good.pure (Nat.le_refl _)
  · exact Good.pure (Nat.le_refl _)

theorem step_method (hK : cfg.chain.length ≤ 31) {f : Nat} (ihArgs : SArgs cfg f) : SMethod cfg (f+1) := by
  intro st h
  simp only [parseMethod]
  refine Good.bind (skipItem_lt st .name (by decide)) ?_
  intro st1 h1
  refine Good.bind (skipItem_lt st1 .lparen (by decide)) ?_
  intro st2 h2
  split
  · refine Good.bind (ihArgs st2 (by leq)) ?_
    rintro ⟨args, st3⟩ h3
    refine Good.bind (skipItem_lt st3 .rparen (by decide)) ?_
    intro st4 h4
    exact Good.pure (by leq)
  · refine Good.bind (Good.pure (Q := fun (p : Ast × PState) => M p.2 ≤ M st2) (Nat.le_refl _)) ?_
    rintro ⟨args, st3⟩ h3
    refine Good.bind (skipItem_lt st3 .rparen (by decide)) ?_
    intro st4 h4
    exact Good.pure (by leq)

theorem step_args {f : Nat} (ihExpr : SExpr cfg f) (ihArgs : SArgs cfg f) : SArgs cfg (f+1) := by
  intro st h
  simp only [parseArgs]
  refine Good.bind (ihExpr st (by leq)) ?_
  rintro ⟨a, st1⟩ h1
  simp only []
  split
  · exact Good.pure (by leq)
  · refine Good.bind (skipItem_lt st1 .comma (by decide)) ?_
    intro st2 h2
    refine Good.bind (ihArgs st2 (by leq)) ?_
    rintro ⟨rest, st3⟩ h3
    exact Good.pure (by leq)

theorem step_loc {f : Nat} (ihRel : SRel cfg f) : SLoc cfg (f+1) := by
  intro st h
  simp only [parseLocationPath]
  split
  · rename_i hty
    refine Good.bind (next_lt st (by rw [hty]; decide)) ?_
    intro st1 h1
    split
    · mono (ihRel _ st1 (by leq))
    · exact Good.pure (by leq)
  · rename_i hty
    refine Good.bind (next_lt st (by rw [hty]; decide)) ?_
    intro st1 h1
    mono (ihRel _ st1 (by leq))
  · mono (ihRel _ st (by leq))

theorem step_rel {f : Nat} (ihRel : SRel cfg f) (ihStep : SStep cfg f) : SRel cfg (f+1) := by
  intro inp st h
  simp only [parseRelLoc]
  refine Good.bind (ihStep inp st (by leq)) ?_
  rintro ⟨opnd, st1⟩ h1
  simp only []
  split
  · rename_i hty
    refine Good.bind (next_lt st1 (by rw [hty]; decide)) ?_
    intro st2 h2
    mono (ihRel _ st2 (by leq))
  · rename_i hty
    refine Good.bind (next_lt st1 (by rw [hty]; decide)) ?_
    intro st2 h2
    mono (ihRel _ st2 (by leq))
  · exact Good.pure (by leq)

theorem step_step {f : Nat} (ihSeq : SSeq cfg f) (ihPreds : SPreds cfg f) : SStep cfg (f+1) := by
  intro inp st h
  simp only [parseStep]
  split
  · rename_i hty
    have hne : st.s.typ ≠ .eof := by
      intro he; rw [he] at hty; simp at hty
    refine Good.bind (next_lt st hne) ?_
    intro st1 h1
    split
    · exact Good.pure (by leq)
    · mono (ihPreds _ st1 (by leq))
  · split
    · mono (ihSeq inp st (by leq))
    · rename_i hty
      refine Good.bind (next_lt st (by rw [hty]; decide)) ?_
      intro st1 h1
      refine Good.bind (parseNodeTest_good cfg inp _ _ st1) ?_
      rintro ⟨opnd, st2⟩ h2
      mono (ihPreds _ st2 (by leq))
    · rename_i hty
      refine Good.bind (next_lt st (by rw [hty]; decide)) ?_
      intro st1 h1
      refine Good.bind (parseNodeTest_good cfg inp _ _ st1) ?_
      rintro ⟨opnd, st2⟩ h2
      mono (ihPreds _ st2 (by leq))
    · refine Good.bind (parseNodeTest_good cfg inp _ _ st) ?_
      rintro ⟨opnd, st2⟩ h2
      mono (ihPreds _ st2 (by leq))

theorem step_preds {f : Nat} (ihPred : SPred cfg f) (ihPreds : SPreds cfg f) : SPreds cfg (f+1) := by
  intro opnd st h
  simp only [stepPreds]
  split
  · refine Good.bind (ihPred st (by leq)) ?_
    rintro ⟨c, st1⟩ h1
    mono (ihPreds _ st1 (by leq))
  · exact Good.pure (Nat.le_refl _)

theorem step_seq {f : Nat} (ihStep : SStep cfg f) (ihSeqLoop : SSeqLoop cfg f) : SSeq cfg (f+1) := by
  intro inp st h
  simp only [parseSequence]
  split
  · exact Good.err (by decide)
  · refine Good.bind (skipItem_lt { st with d := st.d + 1 } .lparen (by decide)) ?_
    intro st1 h1
    refine Good.bind (ihStep inp st1 (by leq)) ?_
    rintro ⟨opnd, st2⟩ h2
    refine Good.bind (ihSeqLoop inp opnd st2 (by leq)) ?_
    rintro ⟨opnd2, st3⟩ h3
    refine Good.bind (skipItem_lt st3 .rparen (by decide)) ?_
    intro st4 h4
    exact Good.pure (by leq)

theorem step_seqLoop {f : Nat} (ihStep : SStep cfg f) (ihSeqLoop : SSeqLoop cfg f) : SSeqLoop cfg (f+1) := by
  intro inp opnd st h
  simp only [seqLoop]
  split
  · rename_i hty
    refine Good.bind (next_lt st (by rw [eq_of_beq hty]; decide)) ?_
    intro st1 h1
    refine Good.bind (ihStep inp st1 (by leq)) ?_
    rintro ⟨o2, st2⟩ h2
    mono (ihSeqLoop inp _ st2 (by leq))
  · exact Good.pure (Nat.le_refl _)

/-- all fifteen statements at once -/
def SAll (cfg : PCfg) (f : Nat) : Prop :=
  SExpr cfg f ∧ SChain cfg f ∧ STier cfg f ∧ SPath cfg f ∧ SFilter cfg f ∧ SPred cfg f ∧ SPrimary cfg f ∧
  SMethod cfg f ∧ SArgs cfg f ∧ SLoc cfg f ∧ SRel cfg f ∧ SStep cfg f ∧ SPreds cfg f ∧ SSeq cfg f ∧ SSeqLoop cfg f

theorem all_good (hK : cfg.chain.length ≤ 31) : ∀ f, SAll cfg f
  | 0 => by
    refine ⟨?_, ?_, ?_, ?_, ?_, ?_, ?_, ?_, ?_, ?_, ?_, ?_, ?_, ?_, ?_⟩ <;> intro <;> intros <;> omega
  | f+1 => by
    obtain ⟨hExpr, hChain, hTier, hPath, hFilter, hPred, hPrimary, hMethod, hArgs, hLoc, hRel, hStep, hPreds,
      hSeq, hSeqLoop⟩ := all_good hK f
    exact ⟨step_expr hK hChain, step_chain hChain hTier hPath, step_tier hChain hTier,
      step_path hFilter hRel hLoc, step_filter hPrimary hPreds, step_pred hK hExpr,
      step_primary hK hExpr hMethod, step_method hK hArgs, step_args hExpr hArgs, step_loc hRel,
      step_rel hRel hStep, step_step hSeq hPreds, step_preds hPred hPreds, step_seq hStep hSeqLoop,
      step_seqLoop hStep hSeqLoop⟩

end

/-- the fuel bound used by the proof: `40 * remaining + 8 + (number of precedence stages)` -/
theorem parseExpression_fuel_enough (cfg : PCfg) (hK : cfg.chain.length ≤ 31) (fuel : Nat) (st : PState)
    (h : 40 * meas st.s + 8 + cfg.chain.length ≤ fuel) :
    parseExpression fuel cfg st ≠ .error .fuel :=
  ((all_good hK fuel).1 st h).ne

/-- `fuelFor` is enough whenever the precedence chain has at most 31 stages -/
theorem parse_fuel_enough (cfg : PCfg) (hK : cfg.chain.length ≤ 31) (text : List Char) :
    parse (fuelFor text) cfg text ≠ .error .fuel := by
  unfold parse
  split
  · intro h; cases h
  · rename_i s hs
    have hm := init_meas hs
    have hg : Good (Le { s := s, d := 0 }) (parseExpression (fuelFor text) cfg { s := s, d := 0 }) :=
      (all_good hK (fuelFor text)).1 _ (by simp only [fuelFor, M]; omega)
    generalize parseExpression (fuelFor text) cfg { s := s, d := 0 } = r at hg
    cases r with
    | error e =>
      intro h
      simp only [bind, Except.bind] at h
      cases h
      exact hg rfl
    | ok p =>
      obtain ⟨a, st⟩ := p
      simp only [bind, Except.bind]
      split <;> (intro h; cases h)

theorem stages_length : (stages).length = 8 := by decide

/-- the property for the configuration the library actually uses -/
theorem parse_fuel_enough_default (ns : Option (List (String × String))) (text : List Char) :
    parse (fuelFor text) (defaultCfg ns) text ≠ .error .fuel :=
  parse_fuel_enough _ (by show stages.length ≤ 31; rw [stages_length]; decide) text

/-- without a bound on the chain the statement is false -/
theorem parse_fuel_not_enough_in_general :
    ∃ cfg : PCfg, parse (fuelFor []) cfg [] = .error .fuel :=
  ⟨{ depthLimit := 1, chain := List.replicate 200 (.tier []), ns := none }, by rfl⟩

end XPathV.Lemmas.ParserFuel

#print axioms XPathV.Lemmas.ScanProgress.nextItem_prog
#print axioms XPathV.Lemmas.ParserFuel.all_good
#print axioms XPathV.Lemmas.ParserFuel.parseExpression_fuel_enough
#print axioms XPathV.Lemmas.ParserFuel.parse_fuel_enough
#print axioms XPathV.Lemmas.ParserFuel.parse_fuel_enough_default
#print axioms XPathV.Lemmas.ParserFuel.parse_fuel_not_enough_in_general
