import XPathV.Lemmas.PredSem
import XPathV.Lemmas.ArithSem
import XPathV.Lemmas.FlatOrder
/-!
# C12, first half — flat paths (with predicates) come out in document order, no node repeated

* sequence-level facts: a filter yields a sub-sequence of its input (`sel_filter_sublist`, whatever
  the predicate), a `child`/`attribute`/`self` step over a separated sequence yields a separated
  sequence, also when every per-origin block is thinned out (`flat_flatMap_sub`) — this is what
  the merge rewrite of `processFilter` produces
* `build_filter_shape` — the plan `build` makes of `inp[cond]` is the plain filter or the merge form,
  for *every* predicate
* `FlatAny` (flat steps, arbitrary predicates on any step) and `FlatFrag` (predicates from
  `PredSem.Frag false`); `flatAny_inv`, `flatAny_sorted`: the plan `build` makes yields a strictly
  document-ordered, duplicate-free sequence; `flatFrag_main`: it succeeds and the sequence *is* the
  oracle's node list
* predicate-free statements at Ast level: `flatPath_sorted`, `slashslash_abs_sorted`,
  `slashslash_rel_sorted`
-/
namespace XPathV.FlatFiltered
open XPathV XPathV.Model XPathV.PathSem XPathV.PredSem XPathV.ArithSem

variable {F : Type} [NumAlg F]

/-! ## generic list facts -/

theorem keep_sublist {α : Type} (l : List α) (fs : List Bool) :
    ((l.zip fs).filterMap (fun (p : α × Bool) => if p.2 then some p.1 else none)).Sublist l := by
  induction l generalizing fs with
  | nil => simp
  | cons a t ih =>
    cases fs with
    | nil => simp
    | cons b bs =>
      simp only [List.zip_cons_cons, List.filterMap_cons]
      cases b
      · exact (ih bs).cons a
      · exact (ih bs).cons_cons a

theorem mapM_ok_map {α β ε : Type} (f : α → Except ε β) (g : α → β)
    (hg : ∀ x y, f x = .ok y → g x = y) (l : List α) (ys : List β) (h : l.mapM f = .ok ys) :
    ys = l.map g := by
  induction l generalizing ys with
  | nil => simp [List.mapM_nil, pure, Except.pure] at h; subst h; rfl
  | cons a t ih =>
    rw [List.mapM_cons] at h
    cases hfa : f a with
    | error e => simp [hfa, bind, Except.bind] at h
    | ok y =>
      cases ht : t.mapM f with
      | error e => simp [hfa, ht, bind, Except.bind] at h
      | ok ys' =>
        simp only [hfa, ht, bind, Except.bind, pure, Except.pure, Except.ok.injEq] at h
        subst h
        rw [List.map_cons, hg a y hfa, ih ys' ht]

theorem filter_eq_flatMap {α : Type} (t : α → Bool) (l : List α) :
    l.filter t = l.flatMap (fun r => [r].filter t) := by
  induction l with
  | nil => rfl
  | cons a l ih =>
    rw [List.flatMap_cons, ← ih]
    cases hta : t a <;> simp [hta]

/-! ## a filter yields a sub-sequence of its input -/

/-- **any filter, any predicate**: what `filterQuery` yields is a sub-sequence of what its input
yields (same relative order, nothing added) -/
theorem sel_filter_sublist (d : Doc) (cfg : ECfg) (inp pred : Plan) (c : Ref) (out : List Item)
    (h : sel (F := F) d cfg (.filter inp pred) c = .ok out) :
    ∃ ins, sel (F := F) d cfg inp c = .ok ins ∧ (refs out).Sublist (refs ins) := by
  cases hi : sel (F := F) d cfg inp c with
  | error e => simp [sel, hi, bind, Except.bind] at h
  | ok ins =>
    refine ⟨ins, rfl, ?_⟩
    simp only [sel, hi, bind, Except.bind] at h
    split at h
    · cases h
    · rename_i flags _
      cases h
      rw [filterPositions_refs]
      exact (keep_sublist ins flags).map _


/-! ## the plan of `inp[cond]` -/

/-- `processFilter`, for **every** predicate: the result is the plain filter over the built input, or
the merge rewrite (only over an axis-node input whose plan has an input other than the context) -/
theorem build_filter_shape (regexOk : RegexOk) (limit : Nat) (snt sdf : Bool) (inp cond : Ast)
    (fl : Flags) (st : BState) (o : BOut)
    (h : build regexOk limit snt sdf (.filter inp cond) fl st = .ok o) :
    ∃ st1 io X,
      build regexOk limit snt sdf inp { fl with filter := true, smartDesc := fl.smartDesc && sdf } st1 = .ok io ∧
      (o.q = .filter io.q X ∨
        (inp.isAxis = true ∧ ∃ parent, io.q.inputOf = some parent ∧
          o.q = .merge parent (.filter (io.q.withInput .context) X))) := by
  rw [build] at h
  replace h := enter_ok _ _ _ _ h
  obtain ⟨io, hio, h⟩ := except_bind_ok _ _ _ h
  obtain ⟨co, hco, h⟩ := except_bind_ok _ _ _ h
  cases hvt : co.q.valueType with
  | none => simp only [hvt, bind, Except.bind] at h; cases h
  | some vt =>
    cases hmg : io.q.hasMerge with
    | none => simp only [hvt, hmg, bind, Except.bind, pure, Except.pure] at h; cases h
    | some mg =>
      simp only [hvt, hmg, bind, Except.bind, pure, Except.pure] at h
      repeat' split at h
      all_goals (cases h)
      all_goals first
        | exact ⟨_, io, _, hio, Or.inl rfl⟩
        | (refine ⟨_, io, _, hio, Or.inr ⟨?_, _, ?_, rfl⟩⟩ <;> assumption)


/-! ## one flat step over a separated sequence -/

theorem Flat.sublist {d : Doc} {l l' : List Ref} (h : Flat d l) (hs : l'.Sublist l) : Flat d l' :=
  List.Pairwise.sublist hs h

theorem Flat.nodup {d : Doc} {l : List Ref} (h : Flat d l) : l.Nodup :=
  List.Pairwise.imp (fun {a b} hab e => by subst e; rw [ref_lt_irrefl] at hab; cases hab) h.sorted

/-- the candidates of a flat step from one origin are separated, and separated origins have
separated candidates -/
theorem axis_own_sep {d : Doc} (wf : WF d) (ax : String) (hax : ax ∈ flatAxes) (r : Ref) :
    (axisRefsM d ax r).Pairwise (SepRel d) := by
  simp only [flatAxes, List.mem_cons, List.not_mem_nil, or_false] at hax
  rcases hax with rfl | rfl | rfl
  · exact children_own_sep wf r
  · exact attrs_own_sep d r
  · exact List.pairwise_singleton _ _

theorem axis_cross_sep {d : Doc} (wf : WF d) (ax : String) (hax : ax ∈ flatAxes) (r₁ r₂ : Ref)
    (h : SepRel d r₁ r₂) : ∀ x ∈ axisRefsM d ax r₁, ∀ y ∈ axisRefsM d ax r₂, SepRel d x y := by
  simp only [flatAxes, List.mem_cons, List.not_mem_nil, or_false] at hax
  rcases hax with rfl | rfl | rfl
  · exact children_cross_sep wf r₁ r₂ h
  · exact attrs_cross_sep d r₁ r₂ h
  · intro x hx y hy
    simp only [axisRefsM, List.mem_cons, List.not_mem_nil, or_false] at hx hy
    subst hx; subst hy; exact h

/-- **a flat step over a separated sequence, every per-origin block thinned out**: still separated
(hence strictly increasing in document order) -/
theorem flat_flatMap_sub {d : Doc} (wf : WF d) (ax : String) (hax : ax ∈ flatAxes) (g : Ref → List Ref)
    (hsub : ∀ r, (g r).Sublist (axisRefsM d ax r)) (l : List Ref) (h : Flat d l) :
    Flat d (l.flatMap g) := by
  unfold Flat
  rw [List.pairwise_flatMap]
  constructor
  · intro r _
    exact List.Pairwise.sublist (hsub r) (axis_own_sep wf ax hax r)
  · exact List.Pairwise.imp (fun {a b} hab x hx y hy =>
      axis_cross_sep wf ax hax a b hab x ((hsub a).subset hx) y ((hsub b).subset hy)) h

/-- the sequence a plain flat step yields, in terms of the sequence of its input -/
theorem sel_stepPlan_flat (d : Doc) (cfg : ECfg) (a : AxisInfo) (ha : a.axis ∈ flatAxes) (inp : Plan)
    (c : Ref) (out : List Item) (h : sel (F := F) d cfg (stepPlan a inp) c = .ok out) :
    ∃ ins, sel (F := F) d cfg inp c = .ok ins ∧
      refs out = (refs ins).flatMap (fun r => (axisRefsM d a.axis r).filter (test d cfg a)) := by
  simp only [flatAxes, List.mem_cons, List.not_mem_nil, or_false] at ha
  cases hi : sel (F := F) d cfg inp c with
  | error e =>
    rcases ha with hax | hax | hax <;>
      simp [stepPlan, hax, sel, hi, bind, Except.bind] at h
  | ok ins =>
    refine ⟨ins, rfl, ?_⟩
    rcases ha with hax | hax | hax
    · simp only [stepPlan, hax, sel, hi, bind, Except.bind, Except.ok.injEq] at h
      subst h
      rw [hax]
      exact sel_child_refs d cfg a ins
    · simp only [stepPlan, hax, sel, hi, bind, Except.bind, Except.ok.injEq] at h
      subst h
      rw [hax]
      exact sel_attr_refs d cfg a ins
    · simp only [stepPlan, hax, sel, hi, bind, Except.bind, Except.ok.injEq] at h
      subst h
      rw [show refs (plain ((ins.map (·.r)).filter (test d cfg a))) = _ from plain_map_r _, hax]
      exact filter_eq_flatMap _ _

/-- a plain flat step keeps the separation invariant -/
theorem flat_stepPlan {d : Doc} (wf : WF d) (cfg : ECfg) (a : AxisInfo) (ha : a.axis ∈ flatAxes)
    (inp : Plan) (c : Ref) (out : List Item) (h : sel (F := F) d cfg (stepPlan a inp) c = .ok out)
    (hin : ∀ ins, sel (F := F) d cfg inp c = .ok ins → Flat d (refs ins)) : Flat d (refs out) := by
  obtain ⟨ins, hins, e⟩ := sel_stepPlan_flat (F := F) d cfg a ha inp c out h
  rw [e]
  exact flat_flatMap_sub wf a.axis ha _ (fun r => List.filter_sublist) _ (hin ins hins)

/-- the plan of a flat step: the step constructor over its input (whatever the flags) -/
theorem axisPlan_flat_step (a : AxisInfo) (ha : a.axis ∈ flatAxes) (fl : Flags)
    (pr : Props) (qi q : Plan) (pr' : Props) (h : axisPlan a fl pr qi = .ok (q, pr')) :
    q.inputOf = some qi ∧
    (∀ (n : Plan) (d : Doc) (cfg : ECfg) (c : Ref),
      sel (F := F) d cfg (q.withInput n) c = sel (F := F) d cfg (stepPlan a n) c) ∧
    (∀ (d : Doc) (cfg : ECfg) (c : Ref), sel (F := F) d cfg q c = sel (F := F) d cfg (stepPlan a qi) c) := by
  simp only [flatAxes, List.mem_cons, List.not_mem_nil, or_false] at ha
  rcases ha with hax | hax | hax
  · simp only [axisPlan, hax, Except.ok.injEq, Prod.mk.injEq] at h
    obtain ⟨rfl, _⟩ := h
    split
    · exact ⟨rfl, fun n d cfg c => by simp [Plan.withInput, stepPlan, hax, sel],
        fun d cfg c => by simp [stepPlan, hax, sel]⟩
    · exact ⟨rfl, fun n d cfg c => by simp [Plan.withInput, stepPlan, hax],
        fun d cfg c => by simp [stepPlan, hax]⟩
  all_goals
    simp only [axisPlan, hax, Except.ok.injEq, Prod.mk.injEq] at h
    obtain ⟨rfl, _⟩ := h
    exact ⟨rfl, fun n d cfg c => by simp [Plan.withInput, stepPlan, hax],
      fun d cfg c => by simp [stepPlan, hax]⟩


/-! ## the merge form keeps the order -/

theorem sel_merge_inv (d : Doc) (cfg : ECfg) (inp child : Plan) (c : Ref) (out : List Item)
    (h : sel (F := F) d cfg (.merge inp child) c = .ok out) :
    ∃ ins parts, sel (F := F) d cfg inp c = .ok ins ∧
      ins.mapM (fun it => sel (F := F) d cfg child it.r) = .ok parts ∧
      refs out = parts.flatten.map (·.r) := by
  rw [sel] at h
  cases hi : sel (F := F) d cfg inp c with
  | error e => simp [hi, bind, Except.bind] at h
  | ok ins =>
    cases hp : ins.mapM (fun it => sel (F := F) d cfg child it.r) with
    | error e => simp [hi, hp, bind, Except.bind] at h
    | ok parts =>
      simp only [hi, hp, bind, Except.bind, Except.ok.injEq] at h
      subst h
      exact ⟨ins, parts, rfl, hp, plain_refs _⟩

/-- the refs a plan yields from `r` (`[]` when it fails) -/
def refsFrom (d : Doc) (cfg : ECfg) (F : Type) [NumAlg F] (q : Plan) (r : Ref) : List Ref :=
  match sel (F := F) d cfg q r with
  | .ok l => refs l
  | .error _ => []

/-- the sequence of a merge plan: the child plan's sequences from each node of the input, in turn -/
theorem sel_merge_refs (d : Doc) (cfg : ECfg) (inp child : Plan) (c : Ref) (out : List Item)
    (h : sel (F := F) d cfg (.merge inp child) c = .ok out) :
    ∃ ins, sel (F := F) d cfg inp c = .ok ins ∧
      refs out = (refs ins).flatMap (refsFrom d cfg F child) := by
  obtain ⟨ins, parts, hins, hparts, e⟩ := sel_merge_inv (F := F) d cfg inp child c out h
  refine ⟨ins, hins, ?_⟩
  have hp := mapM_ok_map (fun it : Item => sel (F := F) d cfg child it.r)
    (fun it => match sel (F := F) d cfg child it.r with | .ok l => l | .error _ => [])
    (fun x y hxy => by simp only [hxy]) ins parts hparts
  rw [e, hp]
  clear hp hparts e h hins
  induction ins with
  | nil => rfl
  | cons it t ih =>
    simp only [List.map_cons, List.flatten_cons, List.map_append, List.flatMap_cons, refs] at ih ⊢
    rw [ih]
    congr 1
    unfold refsFrom
    cases sel (F := F) d cfg child it.r <;> rfl

/-- **the merge rewrite over a flat step keeps the separation invariant**: per input node, the
filtered step from that node is a sub-sequence of the node's candidates -/
theorem flat_merge {d : Doc} (wf : WF d) (cfg : ECfg) (a : AxisInfo) (ha : a.axis ∈ flatAxes)
    (parent q X : Plan)
    (hwi : ∀ (n : Plan) (c : Ref), sel (F := F) d cfg (q.withInput n) c = sel (F := F) d cfg (stepPlan a n) c)
    (c : Ref) (out : List Item)
    (h : sel (F := F) d cfg (.merge parent (.filter (q.withInput .context) X)) c = .ok out)
    (hin : ∀ ins, sel (F := F) d cfg parent c = .ok ins → Flat d (refs ins)) : Flat d (refs out) := by
  obtain ⟨ins, hins, e⟩ := sel_merge_refs (F := F) d cfg _ _ c out h
  rw [e]
  refine flat_flatMap_sub wf a.axis ha _ (fun r => ?_) _ (hin ins hins)
  unfold refsFrom
  cases hs : sel (F := F) d cfg (.filter (q.withInput .context) X) r with
  | error e => exact List.nil_sublist _
  | ok l =>
    obtain ⟨s, hs1, hsub⟩ := sel_filter_sublist (F := F) d cfg _ _ r l hs
    rw [hwi] at hs1
    obtain ⟨i0, hi0, e0⟩ := sel_stepPlan_flat (F := F) d cfg a ha .context r s hs1
    rw [sel_context] at hi0
    cases hi0
    simp only [refs, List.map_cons, List.map_nil, List.flatMap_cons, List.flatMap_nil,
      List.append_nil] at e0
    have e1 : refs s = (axisRefsM d a.axis r).filter (test d cfg a) := e0
    exact hsub.trans (e1 ▸ List.filter_sublist)


/-! ## the merge rewrite preserves the *sequence* (boolean-valued predicates) -/

theorem flatMap_congr_mem {α β : Type} (l : List α) (f g : α → List β) (h : ∀ x ∈ l, f x = g x) :
    l.flatMap f = l.flatMap g := by
  induction l with
  | nil => rfl
  | cons a t ih =>
    rw [List.flatMap_cons, List.flatMap_cons, h a List.mem_cons_self,
      ih (fun x hx => h x (List.mem_cons_of_mem _ hx))]

/-- **sequence version of `PredSem.merge_sem`** for flat steps: when the predicate value is never a
number, the merge form `merge qi (filter (step from context) pred)` and the plain filter
`filter (step over qi) pred` yield the *same sequence* — same nodes, same order -/
theorem merge_seq {d : Doc} (wf : WF d) (cfg : ECfg) (hinj : HashInj d cfg) (a : AxisInfo)
    (ha : a.axis ∈ flatAxes) (q qi pred : Plan)
    (hwi : ∀ (n : Plan) (c : Ref), sel (F := F) d cfg (q.withInput n) c = sel (F := F) d cfg (stepPlan a n) c)
    (hq : ∀ c : Ref, sel (F := F) d cfg q c = sel (F := F) d cfg (stepPlan a qi) c)
    (c : Ref) (ins : List Item) (hsel : sel (F := F) d cfg qi c = .ok ins)
    (hv : ∀ o ∈ refs ins, validRef d o = true) (tr : Ref → Bool)
    (hpred : PredTr (F := F) d cfg pred tr) :
    ∃ o1 o2, sel (F := F) d cfg (.merge qi (.filter (q.withInput .context) pred)) c = .ok o1 ∧
      sel (F := F) d cfg (.filter q pred) c = .ok o2 ∧ refs o1 = refs o2 ∧
      refs o2 = ((refs ins).flatMap (fun r => (axisRefsM d a.axis r).filter (test d cfg a))).filter tr := by
  have ha12 := flatAxes_axes12 ha
  obtain ⟨o1, o2, ho1, ho2, _⟩ :=
    merge_sem (F := F) wf cfg hinj a ha12 q qi pred hwi hq c ins hsel hv tr hpred
  -- the plain filter
  obtain ⟨s2, hs2, _, hv2⟩ := stepPlan_ok (F := F) wf cfg hinj a ha12 qi c ins hv hsel
  obtain ⟨ins', hins', e2⟩ := sel_stepPlan_flat (F := F) d cfg a ha qi c s2 hs2
  rw [hsel] at hins'; cases hins'
  have hs2' : sel (F := F) d cfg q c = .ok s2 := by rw [hq]; exact hs2
  obtain ⟨o2', ho2', hr2⟩ := sel_filter_bool (F := F) d cfg q pred c s2 tr hs2'
    (fun it hit => hpred it.r (hv2 _ (List.mem_map.2 ⟨it, hit, rfl⟩)))
  rw [ho2] at ho2'; cases ho2'
  -- the merge form
  obtain ⟨ins', hins', e1⟩ := sel_merge_refs (F := F) d cfg _ _ c o1 ho1
  rw [hsel] at hins'; cases hins'
  have hitem : ∀ r ∈ refs ins, refsFrom d cfg F (.filter (q.withInput .context) pred) r =
      ((axisRefsM d a.axis r).filter (test d cfg a)).filter tr := by
    intro r hr
    have hvr := hv r hr
    obtain ⟨s, hs, _, hvs⟩ := stepPlan_ok (F := F) wf cfg hinj a ha12 .context r [⟨r, 1, 0⟩]
      (by intro o ho; simp only [refs, List.map_cons, List.map_nil, List.mem_cons, List.not_mem_nil,
            or_false] at ho; rw [ho]; exact hvr)
      (sel_context d cfg r)
    obtain ⟨i0, hi0, e0⟩ := sel_stepPlan_flat (F := F) d cfg a ha .context r s hs
    rw [sel_context] at hi0
    cases hi0
    simp only [refs, List.map_cons, List.map_nil, List.flatMap_cons, List.flatMap_nil,
      List.append_nil] at e0
    have hs' : sel (F := F) d cfg (q.withInput .context) r = .ok s := by rw [hwi]; exact hs
    obtain ⟨l, hl, hrl⟩ := sel_filter_bool (F := F) d cfg (q.withInput .context) pred r s tr hs'
      (fun jt hjt => hpred jt.r (hvs _ (List.mem_map.2 ⟨jt, hjt, rfl⟩)))
    unfold refsFrom
    rw [hl]
    show refs l = _
    rw [hrl]
    exact congrArg (List.filter tr) e0
  refine ⟨o1, o2, ho1, ho2, ?_, by rw [hr2, e2]⟩
  rw [e1, hr2, e2, List.filter_flatMap]
  exact flatMap_congr_mem _ _ _ hitem

/-! ## the fragments -/

/-- flat paths with **arbitrary** predicates: steps over the axes child/attribute/self from the
context node or the root, each step (and the start) followed by any number of predicates — any
parse tree at all in predicate position -/
inductive FlatAny : Ast → Prop
  | none : FlatAny .none
  | root (s : String) : FlatAny (.root s)
  | axis (a : AxisInfo) (inp : Ast) : a.axis ∈ flatAxes → FlatAny inp → FlatAny (.axis a inp)
  | filter (inp b : Ast) : FlatAny inp → FlatAny (.filter inp b)

/-- flat paths with the boolean-valued predicates of C02 (`PredSem.Frag false`: existence tests,
comparisons of a path with a literal, `not`, `and`, `or`, nested; the paths inside predicates range
over all twelve axes) on any step -/
inductive FlatFrag : Ast → Prop
  | none : FlatFrag .none
  | root (s : String) : FlatFrag (.root s)
  | axis (a : AxisInfo) (inp : Ast) : a.axis ∈ flatAxes → FlatFrag inp → FlatFrag (.axis a inp)
  | filter (inp b : Ast) : FlatFrag inp → Frag false b → FlatFrag (.filter inp b)

theorem FlatFrag.flatAny {p : Ast} (h : FlatFrag p) : FlatAny p := by
  induction h with
  | none => exact .none
  | root s => exact .root s
  | axis a inp ha _ ih => exact .axis a inp ha ih
  | filter inp b _ _ ih => exact .filter inp b ih

theorem FlatFrag.frag {p : Ast} (h : FlatFrag p) : Frag true p := by
  induction h with
  | none => exact .none
  | root s => exact .root s
  | axis a inp ha _ ih => exact .axis a inp ih (flatAxes_axes12 ha)
  | filter inp b _ hb ih => exact .filter inp b ih hb

theorem FlatPath.flatFrag {p : Ast} (h : FlatPath p) : FlatFrag p := by
  induction h with
  | step a ha => exact .axis a .none ha .none
  | cons a inp ha _ ih => exact .axis a inp ha ih

/-! ## the induction over `build` -/

section Build
variable {d : Doc} (wf : WF d) (cfg : ECfg) (regexOk : RegexOk) (limit : Nat) (snt sdf : Bool)

/-- every sequence the built plan yields is separated -/
def OutFlat (d : Doc) (cfg : ECfg) (F : Type) [NumAlg F] (q : Plan) : Prop :=
  ∀ c l, sel (F := F) d cfg q c = .ok l → Flat d (refs l)

/-- the invariant for a path -/
def BuildFlat (p : Ast) : Prop :=
  ∀ fl st o, build regexOk limit snt sdf p fl st = .ok o → OutFlat d cfg F o.q

/-- a step built as the input of a filter: the step constructor over a plan whose sequences are
separated -/
def StepFlat (p : Ast) : Prop :=
  ∀ a inp', p = .axis a inp' → ∀ fl st o, build regexOk limit snt sdf p fl st = .ok o →
    ∃ qi, o.q.inputOf = some qi ∧
      (∀ (n : Plan) (c : Ref),
        sel (F := F) d cfg (o.q.withInput n) c = sel (F := F) d cfg (stepPlan a n) c) ∧
      OutFlat d cfg F qi

theorem outFlat_context : OutFlat d cfg F .context := by
  intro c l h
  rw [sel_context] at h
  cases h
  exact flat_single d c

theorem outFlat_absolute : OutFlat d cfg F .absolute := by
  intro c l h
  simp only [sel] at h
  cases h
  exact flat_single d _

include wf in
/-- `axisPlan` + `finAxis` of a flat step over an input with separated sequences -/
theorem axis_flat_core (a : AxisInfo) (ha : a.axis ∈ flatAxes) (fl : Flags) (qin : Plan) (pin : Props)
    (hin : OutFlat d cfg F qin) (q : Plan) (props : Props) (st' : BState) (o : BOut)
    (hq : axisPlan a fl pin qin = .ok (q, props)) (hfin : build.finAxis q props st' = .ok o) :
    OutFlat d cfg F o.q ∧
    ∃ qi, o.q.inputOf = some qi ∧
      (∀ (n : Plan) (c : Ref),
        sel (F := F) d cfg (o.q.withInput n) c = sel (F := F) d cfg (stepPlan a n) c) ∧
      OutFlat d cfg F qi := by
  rw [finAxis_q _ _ _ _ hfin]
  obtain ⟨h1, h2, h3⟩ := axisPlan_flat_step (F := F) a ha fl pin qin q props hq
  refine ⟨fun c l h => ?_, qin, h1, fun n c => h2 n d cfg c, hin⟩
  rw [h3] at h
  exact flat_stepPlan wf cfg a ha qin c l h (fun ins hins => hin c ins hins)

include wf in
theorem build_flat_axis (a : AxisInfo) (ha : a.axis ∈ flatAxes) (inp : Ast) (hinp : FlatAny inp)
    (ih : BuildFlat (F := F) (d := d) cfg regexOk limit snt sdf inp) :
    BuildFlat (F := F) (d := d) cfg regexOk limit snt sdf (.axis a inp) ∧
    StepFlat (F := F) (d := d) cfg regexOk limit snt sdf (.axis a inp) := by
  have key : ∀ fl st o, build regexOk limit snt sdf (.axis a inp) fl st = .ok o →
      OutFlat d cfg F o.q ∧
      ∃ qi, o.q.inputOf = some qi ∧
        (∀ (n : Plan) (c : Ref),
          sel (F := F) d cfg (o.q.withInput n) c = sel (F := F) d cfg (stepPlan a n) c) ∧
        OutFlat d cfg F qi := by
    intro fl st o h
    cases hinp with
    | none =>
      rw [build] at h
      have h := enter_ok _ _ _ _ h
      obtain ⟨⟨q, props⟩, hq, hfin⟩ := except_bind_ok _ _ _ h
      exact axis_flat_core (F := F) wf cfg a ha fl .context {} (outFlat_context cfg) q props _ o hq hfin
    | root s =>
      rw [build] at h
      · have h := enter_ok _ _ _ _ h
        obtain ⟨o1, ho1, h⟩ := except_bind_ok _ _ _ h
        obtain ⟨⟨q, props⟩, hq, hfin⟩ := except_bind_ok _ _ _ h
        exact axis_flat_core (F := F) wf cfg a ha fl o1.q o1.props (ih _ _ o1 ho1) q props _ o hq hfin
      · intro e; cases e
      · intro b g e; cases e
    | filter i2 b2 _ =>
      rw [build] at h
      · have h := enter_ok _ _ _ _ h
        obtain ⟨o1, ho1, h⟩ := except_bind_ok _ _ _ h
        obtain ⟨⟨q, props⟩, hq, hfin⟩ := except_bind_ok _ _ _ h
        exact axis_flat_core (F := F) wf cfg a ha fl o1.q o1.props (ih _ _ o1 ho1) q props _ o hq hfin
      · intro e; cases e
      · intro b g e; cases e
    | axis b g hb _ =>
      rw [build] at h
      replace h := enter_ok _ _ _ _ h
      simp only [] at h
      have hnd : isPlainDos snt b = false := by
        simp only [flatAxes, List.mem_cons, List.not_mem_nil, or_false] at hb
        rcases hb with hb | hb | hb <;> simp [isPlainDos, hb]
      simp only [hnd, Bool.and_false, Bool.false_eq_true, ↓reduceIte] at h
      obtain ⟨o1, ho1, h⟩ := except_bind_ok _ _ _ h
      obtain ⟨⟨q, props⟩, hq, hfin⟩ := except_bind_ok _ _ _ h
      exact axis_flat_core (F := F) wf cfg a ha fl o1.q o1.props (ih _ _ o1 ho1) q props _ o hq hfin
  refine ⟨fun fl st o h => (key fl st o h).1, fun a' inp' he fl st o h => ?_⟩
  cases he
  exact (key fl st o h).2

include wf in
theorem build_flat_filter (inp b : Ast) (hinp : FlatAny inp)
    (ih : BuildFlat (F := F) (d := d) cfg regexOk limit snt sdf inp)
    (ihs : StepFlat (F := F) (d := d) cfg regexOk limit snt sdf inp) :
    BuildFlat (F := F) (d := d) cfg regexOk limit snt sdf (.filter inp b) := by
  intro fl st o h c l hl
  obtain ⟨st1, io, X, hio, hq⟩ := build_filter_shape regexOk limit snt sdf inp b fl st o h
  rcases hq with hq | ⟨hax, parent, hpar, hq⟩
  · rw [hq] at hl
    obtain ⟨ins, hins, hsub⟩ := sel_filter_sublist (F := F) d cfg _ _ c l hl
    exact (ih _ _ io hio c ins hins).sublist hsub
  · cases hinp with
    | none => cases hax
    | root s => cases hax
    | filter i2 b2 _ => cases hax
    | axis a inp' ha _ =>
      obtain ⟨qi, hi1, hi2, hi3⟩ := ihs a inp' rfl _ _ io hio
      have hqp : qi = parent := Option.some.inj (hi1.symm.trans hpar)
      subst hqp
      rw [hq] at hl
      exact flat_merge (F := F) wf cfg a ha qi io.q X hi2 c l hl (fun ins hins => hi3 c ins hins)

include wf in
/-- every flat path, whatever its predicates, is built into a plan whose sequences are separated -/
theorem flatAny_inv (p : Ast) (hp : FlatAny p) :
    BuildFlat (F := F) (d := d) cfg regexOk limit snt sdf p ∧
    StepFlat (F := F) (d := d) cfg regexOk limit snt sdf p := by
  induction hp with
  | none =>
    refine ⟨fun fl st o h => ?_, fun a inp' e => by cases e⟩
    rw [build] at h; cases h
  | root s =>
    refine ⟨fun fl st o h => ?_, fun a inp' e => by cases e⟩
    rw [(build_root_inv regexOk limit snt sdf s fl st o h).1]
    exact outFlat_absolute cfg
  | axis a inp ha hinp ih => exact build_flat_axis (F := F) wf cfg regexOk limit snt sdf a ha inp hinp ih.1
  | filter inp b hinp ih =>
    exact ⟨build_flat_filter (F := F) wf cfg regexOk limit snt sdf inp b hinp ih.1 ih.2,
      fun a inp' e => by cases e⟩

include wf in
/-- **C12, flat paths with arbitrary predicates**: whatever plan `build` makes of a path of
child/attribute/self steps carrying any predicates on any step (boolean, positional, `last()`, …;
plain filter or merge form), whatever the builder configuration, flags and state, every sequence the
plan yields — from any context reference — is strictly increasing in document order, so no node is
repeated -/
theorem flatAny_sorted (p : Ast) (hp : FlatAny p) (fl : Flags) (st : BState) (o : BOut)
    (hb : build regexOk limit snt sdf p fl st = .ok o) (c : Ref) (l : List Item)
    (hl : sel (F := F) d cfg o.q c = .ok l) :
    (refs l).Pairwise (fun a b => Ref.lt a b = true) ∧ (refs l).Nodup := by
  have hf : Flat d (refs l) := (flatAny_inv (F := F) wf cfg regexOk limit snt sdf p hp).1 fl st o hb c l hl
  exact ⟨Flat.sorted hf, Flat.nodup hf⟩

end Build

/-! ## the oracle's node lists are in document order; sorted lists with the same members are equal -/

theorem ref_lt_asymm (a b : Ref) (h : Ref.lt a b = true) : Ref.lt b a = false := by
  cases h' : Ref.lt b a with
  | false => rfl
  | true => rw [ref_lt_iff] at h h'; omega

theorem ref_lt_trans (a b c : Ref) (h1 : Ref.lt a b = true) (h2 : Ref.lt b c = true) :
    Ref.lt a c = true := by
  rw [ref_lt_iff] at h1 h2 ⊢; omega

/-- two strictly increasing sequences with the same members are the same sequence -/
theorem sorted_ext : ∀ (l₁ l₂ : List Ref), l₁.Pairwise (fun a b => Ref.lt a b = true) →
    l₂.Pairwise (fun a b => Ref.lt a b = true) → (∀ x, x ∈ l₁ ↔ x ∈ l₂) → l₁ = l₂
  | [], [], _, _, _ => rfl
  | [], b :: t, _, _, h => absurd ((h b).2 List.mem_cons_self) (by simp)
  | a :: t, [], _, _, h => absurd ((h a).1 List.mem_cons_self) (by simp)
  | a :: t₁, b :: t₂, h₁, h₂, h => by
    rw [List.pairwise_cons] at h₁ h₂
    have hab : a = b := by
      rcases List.mem_cons.1 ((h a).1 List.mem_cons_self) with e | ha
      · exact e
      · rcases List.mem_cons.1 ((h b).2 List.mem_cons_self) with e | hb
        · exact e.symm
        · have := ref_lt_asymm _ _ (h₂.1 a ha)
          rw [h₁.1 b hb] at this
          cases this
    subst hab
    have ht : ∀ x, x ∈ t₁ ↔ x ∈ t₂ := by
      intro x
      constructor
      · intro hx
        rcases List.mem_cons.1 ((h x).1 (List.mem_cons_of_mem _ hx)) with e | hx'
        · subst e
          have := h₁.1 x hx
          rw [ref_lt_irrefl] at this; cases this
        · exact hx'
      · intro hx
        rcases List.mem_cons.1 ((h x).2 (List.mem_cons_of_mem _ hx)) with e | hx'
        · subst e
          have := h₂.1 x hx
          rw [ref_lt_irrefl] at this; cases this
        · exact hx'
    rw [sorted_ext t₁ t₂ h₁.2 h₂.2 ht]

theorem allRefs_sorted (d : Doc) : (allRefs d).Pairwise (fun a b => Ref.lt a b = true) := by
  unfold allRefs
  rw [List.pairwise_flatMap]
  constructor
  · intro i _
    rw [List.pairwise_cons]
    constructor
    · intro x hx
      simp only [attrsOf, List.mem_map] at hx
      obtain ⟨k, _, rfl⟩ := hx
      rw [ref_lt_iff]; right; exact ⟨rfl, Nat.succ_pos _⟩
    · unfold attrsOf
      rw [List.pairwise_map]
      exact List.Pairwise.imp (fun {a b} hab => by
        rw [ref_lt_iff]; right; exact ⟨rfl, Nat.succ_lt_succ hab⟩) List.pairwise_lt_range
  · refine List.Pairwise.imp (fun {i j} hij x hx y hy => ?_) List.pairwise_lt_range
    have hxi : x.ord.1 = i := by
      simp only [List.mem_cons, attrsOf, List.mem_map] at hx
      rcases hx with rfl | ⟨k, _, rfl⟩ <;> rfl
    have hyj : y.ord.1 = j := by
      simp only [List.mem_cons, attrsOf, List.mem_map] at hy
      rcases hy with rfl | ⟨k, _, rfl⟩ <;> rfl
    rw [ref_lt_iff]; omega

theorem docOrder_sorted (d : Doc) (l : List Ref) :
    (Spec.docOrder d l).Pairwise (fun a b => Ref.lt a b = true) :=
  List.Pairwise.filter _ (allRefs_sorted d)

theorem filterPos_sublist (l l' : List Ref) (cond : Spec.Ctx → Except Spec.Err (Spec.Res F))
    (h : Spec.filterPos l cond = .ok l') : l'.Sublist l := by
  unfold Spec.filterPos at h
  simp only [bind, Except.bind, pure, Except.pure] at h
  split at h
  · cases h
  · cases h
    exact keep_sublist l _

/-- **oracle side**: the node list the oracle assigns to a flat path (any predicates) is strictly
increasing in document order -/
theorem flatAny_spec_sorted (d : Doc) (p : Ast) (hp : FlatAny p) :
    ∀ (c : Spec.Ctx) (ns : List Ref) (g : Option (List (List Ref))),
      Spec.eval (F := F) d p c = .ok (.val (.nodes ns) g) →
      ns.Pairwise (fun a b => Ref.lt a b = true) := by
  induction hp with
  | none =>
    intro c ns g h
    simp only [Spec.eval, Except.ok.injEq, Spec.Res.val.injEq, Spec.Value.nodes.injEq] at h
    rw [← h.1]; exact List.pairwise_singleton _ _
  | root s =>
    intro c ns g h
    simp only [Spec.eval, Except.ok.injEq, Spec.Res.val.injEq, Spec.Value.nodes.injEq] at h
    rw [← h.1]; exact List.pairwise_singleton _ _
  | axis a inp _ _ _ =>
    intro c ns g h
    obtain ⟨l, rfl⟩ := eval_axis_inv (F := F) d a inp c ns g h
    exact docOrder_sorted d l
  | filter inp b _ ih =>
    intro c ns g h
    rw [Spec.eval] at h
    obtain ⟨iv, hiv, h⟩ := except_bind_ok _ _ _ h
    cases iv with
    | args vs => cases h
    | val v gs =>
      cases gs with
      | some groups =>
        simp only [] at h
        obtain ⟨groups', _, h⟩ := except_bind_ok _ _ _ h
        cases h
        exact docOrder_sorted d _
      | none =>
        simp only [] at h
        obtain ⟨l, hl, h⟩ := except_bind_ok _ _ _ h
        obtain ⟨l', hl', h⟩ := except_bind_ok _ _ _ h
        cases h
        cases v with
        | nodes l0 =>
          simp only [Spec.asNodes, Except.ok.injEq] at hl
          subst hl
          exact List.Pairwise.sublist (filterPos_sublist _ _ _ hl') (ih c l0 none hiv)
        | bool _ => cases hl
        | num _ => cases hl
        | str _ => cases hl

/-! ## flat paths with the predicates of C02: the engine's sequence *is* the oracle's list -/

section Main
variable {d : Doc} (wf : WF d) (cfg : ECfg) (hns : cfg.nsIface = true) (hinj : HashInj d cfg)
  (regexOk : RegexOk) (limit : Nat)
include wf hns hinj

/-- **C12 for `build`, flat paths with boolean-valued predicates on any step**: the plan the builder
makes (plain filters or the merge form) succeeds from every valid context node; its sequence is
strictly increasing in document order, repeats no node, has exactly the members of the oracle's
node-set — and therefore *is* the oracle's node list, element by element -/
theorem flatFrag_main (p : Ast) (hp : FlatFrag p) (st : BState) (o : BOut)
    (hb : build regexOk limit true false p {} st = .ok o) (c : Ref) (hc : validRef d c = true) :
    ∃ l ns g, sel (F := F) d cfg o.q c = .ok l ∧
      (refs l).Pairwise (fun a b => Ref.lt a b = true) ∧ (refs l).Nodup ∧
      Spec.eval (F := F) d p ⟨c, 1, 1⟩ = .ok (.val (.nodes ns) g) ∧
      (∀ x, x ∈ refs l ↔ x ∈ ns) ∧ refs l = ns := by
  obtain ⟨l, ns, g, h1, h2, h3⟩ :=
    C02_main (F := F) wf cfg hns hinj regexOk limit p hp.frag st o hb c hc
  obtain ⟨hs, hn⟩ := flatAny_sorted (F := F) wf cfg regexOk limit true false p hp.flatAny {} st o hb c l h1
  exact ⟨l, ns, g, h1, hs, hn, h2, h3,
    sorted_ext _ _ hs (flatAny_spec_sorted (F := F) d p hp.flatAny _ ns g h2) h3⟩

end Main

/-! ## predicate-free statements at Ast level, through the builder -/

/-- **C12, predicate-free flat paths through `build`**: for a path of child/attribute/self steps
the plan the builder makes (any configuration, flags, state) yields, from every context reference
of a well-formed document, a strictly document-ordered, duplicate-free sequence -/
theorem flatPath_sorted {d : Doc} (wf : WF d) (cfg : ECfg) (regexOk : RegexOk) (limit : Nat)
    (snt sdf : Bool) (p : Ast) (hp : FlatPath p) (fl : Flags) (st : BState) (o : BOut)
    (hb : build regexOk limit snt sdf p fl st = .ok o) (c : Ref) (l : List Item)
    (hl : sel (F := F) d cfg o.q c = .ok l) :
    (refs l).Pairwise (fun a b => Ref.lt a b = true) ∧ (refs l).Nodup :=
  have hq : FlatPlan o.q := build_flat regexOk limit snt sdf hp fl st o hb
  ⟨flat_sorted wf cfg c hq l hl, flat_nodup wf cfg c hq l hl⟩

/-- the `//name` shortcut over the root: `/descendant-or-self::node()/child::name` outside a
predicate is built into one descendant query over the root -/
theorem build_slashslash_abs (regexOk : RegexOk) (limit : Nat) (snt sdf : Bool) (a b : AxisInfo)
    (s : String) (fl : Flags) (st : BState) (o : BOut) (hf : fl.filter = false)
    (ha : a.axis = "child") (hb : isPlainDos snt b = true)
    (h : build regexOk limit snt sdf (.axis a (.axis b (.root s))) fl st = .ok o) :
    o.q = .descendant a false .absolute := by
  rw [build] at h
  replace h := enter_ok _ _ _ _ h
  simp only [hf, ha, hb, Bool.not_false, Bool.true_and, beq_self_eq_true, ↓reduceIte] at h
  obtain ⟨o1, ho1, h⟩ := except_bind_ok _ _ _ h
  simp only [pure, Except.pure, bind, Except.bind] at h
  rw [finAxis_q _ _ _ _ h, (build_root_inv regexOk limit snt sdf s _ _ o1 ho1).1]

/-- the relative form `.//name` (`descendant-or-self::node()/child::name` from the context node) -/
theorem build_slashslash_rel (regexOk : RegexOk) (limit : Nat) (snt sdf : Bool) (a b : AxisInfo)
    (fl : Flags) (st : BState) (o : BOut) (hf : fl.filter = false)
    (ha : a.axis = "child") (hb : isPlainDos snt b = true)
    (h : build regexOk limit snt sdf (.axis a (.axis b .none)) fl st = .ok o) :
    o.q = .descendant a false .context := by
  rw [build] at h
  replace h := enter_ok _ _ _ _ h
  simp only [hf, ha, hb, Bool.not_false, Bool.true_and, beq_self_eq_true, ↓reduceIte,
    pure, Except.pure, bind, Except.bind] at h
  rw [finAxis_q _ _ _ _ h]

/-- **C12, `//name`**: the plan `build` makes of `//name` (absolute) yields its nodes strictly
increasing in document order, none repeated, from every context reference -/
theorem slashslash_abs_sorted {d : Doc} (wf : WF d) (cfg : ECfg) (regexOk : RegexOk) (limit : Nat)
    (snt sdf : Bool) (a b : AxisInfo) (s : String) (fl : Flags) (st : BState) (o : BOut)
    (hf : fl.filter = false) (ha : a.axis = "child") (hb : isPlainDos snt b = true)
    (h : build regexOk limit snt sdf (.axis a (.axis b (.root s))) fl st = .ok o)
    (c : Ref) (l : List Item) (hl : sel (F := F) d cfg o.q c = .ok l) :
    (refs l).Pairwise (fun a b => Ref.lt a b = true) ∧ (refs l).Nodup := by
  rw [build_slashslash_abs regexOk limit snt sdf a b s fl st o hf ha hb h] at hl
  have hs := desc_abs_sorted wf cfg a false c l hl
  exact ⟨hs, List.Pairwise.imp (fun {a b} hab e => by subst e; rw [ref_lt_irrefl] at hab; cases hab) hs⟩

/-- an attribute has no descendants: the walk of `descendantQuery` stops at once -/
theorem descM_attr (d : Doc) (i k : Nat) : descM d (.attr i k) = [] := by
  unfold descM
  cases d.length with
  | zero => rfl
  | succ n => simp [walkD, stepD, Nav.moveChild, climb]

/-- **C12, `.//name`** from any valid context reference (a node of the document or an attribute) -/
theorem slashslash_rel_sorted {d : Doc} (wf : WF d) (cfg : ECfg) (regexOk : RegexOk) (limit : Nat)
    (snt sdf : Bool) (a b : AxisInfo) (fl : Flags) (st : BState) (o : BOut)
    (hf : fl.filter = false) (ha : a.axis = "child") (hb : isPlainDos snt b = true)
    (h : build regexOk limit snt sdf (.axis a (.axis b .none)) fl st = .ok o)
    (c : Ref) (hc : validRef d c = true) (l : List Item) (hl : sel (F := F) d cfg o.q c = .ok l) :
    (refs l).Pairwise (fun a b => Ref.lt a b = true) ∧ (refs l).Nodup := by
  rw [build_slashslash_rel regexOk limit snt sdf a b fl st o hf ha hb h] at hl
  have hs : (refs l).Pairwise (fun a b => Ref.lt a b = true) := by
    cases c with
    | node i =>
      exact desc_sorted wf cfg a false i (by simpa [validRef] using hc) l hl
    | attr i k =>
      simp only [sel, bind, Except.bind, List.flatMap_cons, List.flatMap_nil, List.append_nil,
        descM_attr, Bool.false_and, Bool.false_eq_true, ↓reduceIte, List.filter_nil,
        List.append_nil, List.zipIdx_nil, List.map_nil, Except.ok.injEq] at hl
      subst hl
      exact List.Pairwise.nil
  exact ⟨hs, List.Pairwise.imp (fun {a b} hab e => by subst e; rw [ref_lt_irrefl] at hab; cases hab) hs⟩

/-! ## Non-vacuity: the builder succeeds on the fragment and the merge form does occur -/

section Examples

private def ch (n : String) : AxisInfo := ⟨"child", .elem, "", n, "", false, ""⟩
private def at' (n : String) : AxisInfo := ⟨"attribute", .attr, "", n, "", false, ""⟩

/-- `a/b[not(c)]/@d` -/
def exFlat : Ast :=
  .axis (at' "d") (.filter (.axis (ch "b") (.axis (ch "a") .none))
    (.call "not" "" (.acons (.axis (ch "c") .none) .anil)))

theorem exFlat_frag : FlatFrag exFlat :=
  .axis _ _ (by simp [flatAxes, at'])
    (.filter _ _ (.axis _ _ (by simp [flatAxes, ch]) (.axis _ _ (by simp [flatAxes, ch]) .none))
      (.not _ _ (.exist _ (.axis _ _ .none (by simp [axes12, ch])))))

/-- the builder turns the filtered step into the merge form -/
theorem exFlat_build : (build (fun _ => true) 100 true false exFlat {} {}).map (·.q) =
    .ok (.attr (at' "d") (.merge (.child (ch "a") .context)
      (.filter (.child (ch "b") .context)
        (.func "not" .nil (.pcons (.child (ch "c") .context) .pnil))))) := rfl

/-- `a[@k = 'v'][b]/c[2]` (a positional predicate: `FlatAny`, not `FlatFrag`) -/
def exPos : Ast :=
  .filter (.axis (ch "c") (.filter (.filter (.axis (ch "a") .none)
      (.oper "=" (.axis (at' "k") .none) (.str "v"))) (.axis (ch "b") .none))) (.num "2")

theorem exPos_any : FlatAny exPos :=
  .filter _ _ (.axis _ _ (by simp [flatAxes, ch]) (.filter _ _ (.filter _ _
    (.axis _ _ (by simp [flatAxes, ch]) .none))))

theorem exPos_build : ∃ o, build (fun _ => true) 100 true false exPos {} {} = .ok o := ⟨_, rfl⟩

end Examples

end XPathV.FlatFiltered

/-! ## Axiom audit -/
section AxiomAudit
open XPathV.FlatFiltered
end AxiomAudit
