import XPathV.Lemmas.PosSem.Forms
/-!
# C03 helpers — what a filter with a positional predicate keeps

`keepIdx K l`: the members of `l` whose 1-based index satisfies `K`.  Model side: the `.filter` arm
of `sel` over numbered candidates (`sel_filter_dec`, `block_keep`); oracle side: `Spec.filterPos`
(`filterPos_form`).
-/
namespace XPathV.PosSem
open XPathV XPathV.Model XPathV.PathSem XPathV.PredSem NumAlg

variable {F : Type} [NumAlg F]

/-! ## `keepIdx` -/

/-- the members of `l` whose 1-based index satisfies `K`, in the order of `l` -/
def keepIdx (K : Nat → Bool) (l : List Ref) : List Ref :=
  l.zipIdx.filterMap (fun p => if K (p.2 + 1) then some p.1 else none)

theorem mem_keepIdx (K : Nat → Bool) (l : List Ref) (x : Ref) :
    x ∈ keepIdx K l ↔ ∃ k, l[k]? = some x ∧ K (k + 1) = true := by
  unfold keepIdx
  rw [List.mem_filterMap]
  constructor
  · rintro ⟨⟨r, i⟩, hp, hk⟩
    rw [List.mem_zipIdx_iff_getElem?] at hp
    simp only at hp hk
    split at hk
    · rename_i hK
      cases hk
      exact ⟨i, hp, hK⟩
    · cases hk
  · rintro ⟨k, hk, hK⟩
    refine ⟨(x, k), ?_, ?_⟩
    · rw [List.mem_zipIdx_iff_getElem?]; exact hk
    · simp only [hK, ↓reduceIte]

theorem filterMap_zipIdx_congr (K K' : Nat → Bool) : ∀ (l : List Ref) (s : Nat),
    (∀ k, k < l.length → K (s + k + 1) = K' (s + k + 1)) →
    (l.zipIdx s).filterMap (fun p => if K (p.2 + 1) then some p.1 else none) =
      (l.zipIdx s).filterMap (fun p => if K' (p.2 + 1) then some p.1 else none) := by
  intro l
  induction l with
  | nil => intro s _; rfl
  | cons a t ih =>
    intro s h
    rw [List.zipIdx_cons, List.filterMap_cons, List.filterMap_cons]
    have h0 := h 0 (by simp)
    rw [Nat.add_zero] at h0
    have ht := ih (s + 1) (fun k hk => by
      have := h (k + 1) (by simp only [List.length_cons]; omega)
      rw [show s + 1 + k + 1 = s + (k + 1) + 1 by omega]; exact this)
    simp only [h0, ht]

/-- `keepIdx` only looks at `K` on the indices `1..l.length` -/
theorem keepIdx_congr (K K' : Nat → Bool) (l : List Ref)
    (h : ∀ pos, 1 ≤ pos → pos ≤ l.length → K pos = K' pos) : keepIdx K l = keepIdx K' l := by
  unfold keepIdx
  apply filterMap_zipIdx_congr K K' l 0
  intro k hk
  rw [Nat.zero_add]
  exact h (k + 1) (by omega) (by omega)

theorem filterMap_zipIdx_sublist (K : Nat → Bool) : ∀ (l : List Ref) (s : Nat),
    ((l.zipIdx s).filterMap (fun p => if K (p.2 + 1) then some p.1 else none)).Sublist l := by
  intro l
  induction l with
  | nil => intro s; exact List.Sublist.slnil
  | cons a t ih =>
    intro s
    by_cases hK : K (s + 1) = true
    · simp only [List.zipIdx_cons, List.filterMap_cons, hK, ↓reduceIte]
      exact (ih (s + 1)).cons_cons a
    · simp only [List.zipIdx_cons, List.filterMap_cons, hK]
      exact (ih (s + 1)).cons a

theorem keepIdx_sublist (K : Nat → Bool) (l : List Ref) : (keepIdx K l).Sublist l :=
  filterMap_zipIdx_sublist K l 0

theorem mem_of_mem_keepIdx (K : Nat → Bool) (l : List Ref) (x : Ref) (h : x ∈ keepIdx K l) : x ∈ l :=
  (keepIdx_sublist K l).subset h

/-- the literal form on natural numbers: the `n`-th member -/
theorem keepIdx_eq_nth (l : List Ref) (n : Nat) (hn : 1 ≤ n) :
    keepIdx (fun pos => pos == n) l = (l[n - 1]?).toList := by
  have := specKeep_nth (fun m => m == n) n (fun m _ => by simp) l 0 (by omega)
  rw [Nat.sub_zero] at this
  rw [← this]
  unfold keepIdx
  have gen : ∀ (l : List Ref) (s : Nat),
      (l.zipIdx s).filterMap (fun p => if (p.2 + 1 == n) = true then some p.1 else none) =
      (l.zip ((l.zipIdx s).map (fun p => (fun m => m == n) (p.2 + 1)))).filterMap keepFlag := by
    intro l
    induction l with
    | nil => intro s; rfl
    | cons a t ih =>
      intro s
      simp only [List.zipIdx_cons, List.map_cons, List.zip_cons_cons, List.filterMap_cons, keepFlag]
      rw [ih (s + 1)]
  exact gen l 0

/-! ## model side -/

/-- what the verdict of a filter depends on: the value and the candidate's position -/
theorem predDecision_pos (v : MVal F) (it : Item) (b : Bool) :
    predDecision v it b = predDecision v ⟨default, it.pos, 0⟩ b := by
  cases v <;> rfl

/-- **filter semantics, model side, positional version**: when the predicate plan evaluates on
every candidate to a boolean or a number, the filter keeps the candidates on which `predDecision`
says so — same order -/
theorem sel_filter_dec (d : Doc) (cfg : ECfg) (inp pred : Plan) (c : Ref) (ins : List Item)
    (dec : Item → Bool)
    (h : sel (F := F) d cfg inp c = .ok ins)
    (hp : ∀ it ∈ ins, ∃ v, evalP (F := F) d cfg pred it.r = .ok v ∧
      ((∃ b, v = .bool b) ∨ (∃ x, v = .num x)) ∧ predDecision v it false = dec it) :
    sel (F := F) d cfg (.filter inp pred) c = .ok (filterPositions (ins.filter dec)) := by
  simp only [sel, h, bind, Except.bind]
  rw [PredSem.mapM_ok _ dec ins ?_]
  · simp only [zip_map_filterMap]
  · intro it hit
    obtain ⟨v, hv, hshape, hdec⟩ := hp it hit
    rw [hv]
    rcases hshape with ⟨b, rfl⟩ | ⟨x, rfl⟩
    · simp only [pure, Except.pure, hdec]
    · simp only [pure, Except.pure, hdec]

/-- the verdict of the engine on an item, for form `f` with `firstInput` `fi` -/
def decM (F : Type) [NumAlg F] (d : Doc) (cfg : ECfg) (f : PosForm) (fi : Plan) (it : Item) : Bool :=
  PosForm.modelKeep F f it.pos (positionM d cfg fi it.r) (lastM d cfg fi it.r)

theorem sel_filter_form (d : Doc) (cfg : ECfg) (inp : Plan) (f : PosForm) (fi : Plan) (c : Ref)
    (ins : List Item) (h : sel (F := F) d cfg inp c = .ok ins) :
    sel (F := F) d cfg (.filter inp (f.plan fi)) c =
      .ok (filterPositions (ins.filter (decM F d cfg f fi))) := by
  apply sel_filter_dec d cfg inp (f.plan fi) c ins (decM F d cfg f fi) h
  intro it _
  refine ⟨_, evalP_form d cfg f fi it.r, modelVal_shape f _ _, ?_⟩
  rw [predDecision_pos]
  rfl

theorem mem_numbered_iff (cs : List Ref) (it : Item) :
    it ∈ numbered cs ↔ ∃ k, cs[k]? = some it.r ∧ it.pos = k + 1 ∧ it.lvl = 0 := by
  rw [List.mem_iff_getElem?]
  constructor
  · rintro ⟨k, hk⟩
    rw [numbered_getElem?] at hk
    cases hc : cs[k]? with
    | none => rw [hc] at hk; cases hk
    | some r =>
      rw [hc] at hk
      simp only [Option.map_some, Option.some.injEq] at hk
      subst hk
      exact ⟨k, hc, rfl, rfl⟩
  · rintro ⟨k, hk, hp, hl⟩
    refine ⟨k, ?_⟩
    rw [numbered_getElem?, hk]
    simp only [Option.map_some, Option.some.injEq]
    cases it
    simp only at hp hl
    rw [hp, hl]

theorem numbered_filter_refs (K : Nat → Bool) (l : List Ref) :
    refs ((numbered l).filter (fun it => K it.pos)) = keepIdx K l := by
  unfold keepIdx
  rw [numbered_eq]
  have gen : ∀ (l : List Ref) (s : Nat),
      refs (((l.zipIdx s).map mkItem).filter (fun it => K it.pos)) =
        (l.zipIdx s).filterMap (fun p => if K (p.2 + 1) then some p.1 else none) := by
    intro l
    induction l with
    | nil => intro s; rfl
    | cons a t ih =>
      intro s
      by_cases hK : K (s + 1) = true
      · simp only [List.zipIdx_cons, List.map_cons, List.filter_cons, List.filterMap_cons, mkItem,
          hK, ↓reduceIte, refs, List.map_cons]
        rw [← ih (s + 1)]
      · simp only [List.zipIdx_cons, List.map_cons, List.filter_cons, List.filterMap_cons, mkItem,
          hK]
        exact ih (s + 1)
  exact gen l 0

/-- **one parent**: among the numbered candidates of `child::a` below `o`, the engine keeps those
whose proximity position satisfies the engine's reading of the predicate -/
theorem block_keep {d : Doc} (wf : WF d) (cfg : ECfg) (a : AxisInfo) (f : PosForm) (fi : Plan)
    (hfi : planTest d cfg fi = nodeTestM d cfg a) (o : Ref) :
    refs ((numbered (childCands d cfg a o)).filter (decM F d cfg f fi)) =
      keepIdx (fun pos => PosForm.modelKeep F f pos pos (childCands d cfg a o).length)
        (childCands d cfg a o) := by
  rw [← numbered_filter_refs]
  congr 1
  apply List.filter_congr
  intro it hit
  obtain ⟨k, hk, hp, _⟩ := (mem_numbered_iff _ it).1 hit
  obtain ⟨h1, _, h3⟩ := position_is_proximity wf cfg a fi hfi o it.r k hk
  simp only [decM, h1, h3, hp]

/-- **several parents**: a positional filter over a child step keeps, for each input node in turn,
the candidates of that node whose proximity position satisfies the predicate -/
theorem sel_filter_child_form {d : Doc} (wf : WF d) (cfg : ECfg) (a : AxisInfo) (inp : Plan)
    (f : PosForm) (fi : Plan) (hfi : planTest d cfg fi = nodeTestM d cfg a) (c : Ref)
    (ins : List Item) (hins : sel (F := F) d cfg inp c = .ok ins) :
    ∃ out, sel (F := F) d cfg (.filter (.child a inp) (f.plan fi)) c = .ok out ∧
      refs out = (refs ins).flatMap (fun o =>
        keepIdx (fun pos => PosForm.modelKeep F f pos pos (childCands d cfg a o).length)
          (childCands d cfg a o)) := by
  refine ⟨_, sel_filter_form d cfg _ f fi c _ (child_step_eq wf cfg a inp c ins hins), ?_⟩
  rw [filterPositions_refs, List.filter_flatMap, refs_flatMap, refs, List.flatMap_map]
  congr 1
  funext it
  exact block_keep wf cfg a f fi hfi it.r

/-! ## oracle side -/

theorem zip_flags_zipIdx (g : Ref × Nat → Bool) : ∀ (l : List Ref) (s : Nat),
    (l.zip ((l.zipIdx s).map g)).filterMap (fun (p : Ref × Bool) => if p.2 then some p.1 else none) =
      (l.zipIdx s).filterMap (fun p => if g p then some p.1 else none) := by
  intro l
  induction l with
  | nil => intro s; rfl
  | cons a t ih =>
    intro s
    simp only [List.zipIdx_cons, List.map_cons, List.zip_cons_cons, List.filterMap_cons]
    rw [ih (s + 1)]

/-- **filter semantics, oracle side, positional version**: `filterPos` with a predicate of the
fragment keeps the candidates whose position satisfies the oracle's reading of the predicate -/
theorem filterPos_form (d : Doc) (f : PosForm) (l : List Ref) :
    Spec.filterPos l (Spec.eval (F := F) d f.ast) =
      .ok (keepIdx (fun pos => PosForm.specKeep F f pos l.length) l) := by
  unfold Spec.filterPos
  have hflags : l.zipIdx.mapM (fun (p : Ref × Nat) => do
      let v ← Spec.eval (F := F) d f.ast ⟨p.1, p.2 + 1, l.length⟩
      pure (Spec.predTruth v.value (p.2 + 1))) =
      .ok (l.zipIdx.map (fun p => PosForm.specKeep F f (p.2 + 1) l.length)) := by
    apply PredSem.mapM_ok
    intro p _
    simp only [eval_form, bind, Except.bind, pure, Except.pure, Spec.Res.value, PosForm.specKeep]
  simp only [bind, Except.bind, pure, Except.pure] at hflags ⊢
  rw [hflags]
  simp only
  rw [zip_flags_zipIdx]
  rfl

end XPathV.PosSem
