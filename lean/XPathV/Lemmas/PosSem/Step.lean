import XPathV.Lemmas.PosSem.Filter
/-!
# C03 — a child step with a positional first predicate: model = oracle = proximity semantics

For an input plan `qi` agreeing with an input path `q` (`PathOK`), the plain form
`.filter (.child a qi) P` and the merge form `.merge qi (.filter (.child a .context) P)` both yield,
for each input node in turn, the candidates of that node whose proximity position satisfies the
predicate (`keepOf`), and this is the node set the oracle assigns to `q/child::a[P]`.
-/
namespace XPathV.PosSem
open XPathV XPathV.Model XPathV.PathSem XPathV.PredSem NumAlg

variable {F : Type} [NumAlg F]

/-- the candidates of `child::a` below `o` whose proximity position satisfies the predicate `f`
(the oracle's reading `specKeep`), in document order -/
def keepOf (F : Type) [NumAlg F] (d : Doc) (cfg : ECfg) (a : AxisInfo) (f : PosForm) (o : Ref) :
    List Ref :=
  keepIdx (fun pos => PosForm.specKeep F f pos (childCands d cfg a o).length) (childCands d cfg a o)

/-- **exactly those whose 1-based position satisfies the predicate** -/
theorem mem_keepOf (d : Doc) (cfg : ECfg) (a : AxisInfo) (f : PosForm) (o x : Ref) :
    x ∈ keepOf F d cfg a f o ↔ ∃ k, (childCands d cfg a o)[k]? = some x ∧
      PosForm.specKeep F f (k + 1) (childCands d cfg a o).length = true :=
  mem_keepIdx _ _ x

theorem keepOf_valid (d : Doc) (cfg : ECfg) (a : AxisInfo) (f : PosForm) (o x : Ref)
    (h : x ∈ keepOf F d cfg a f o) : validRef d x = true := by
  have := mem_of_mem_keepIdx _ _ x h
  unfold childCands Spec.children at this
  exact allNodes_valid d x (List.mem_filter.1 (List.mem_filter.1 this).1).1

/-- the engine's reading and the oracle's reading keep the same candidates -/
theorem keepIdx_model_eq (d : Doc) (cfg : ECfg) (a : AxisInfo) (f : PosForm)
    (hag : f.Agree F d.length) (o : Ref) :
    keepIdx (fun pos => PosForm.modelKeep F f pos pos (childCands d cfg a o).length)
      (childCands d cfg a o) = keepOf F d cfg a f o := by
  apply keepIdx_congr
  intro pos h1 h2
  exact hag pos _ h1 h2 (childCands_length_le d cfg a o)

/-! ## oracle side -/

theorem eval_filter_form_groups (d : Doc) (inp : Ast) (f : PosForm) (c : Spec.Ctx)
    (v : Spec.Value F) (groups : List (List Ref))
    (hev : Spec.eval (F := F) d inp c = .ok (.val v (some groups))) :
    Spec.eval (F := F) d (.filter inp f.ast) c =
      .ok (.val (.nodes (Spec.docOrder d (groups.map (fun g =>
          keepIdx (fun pos => PosForm.specKeep F f pos g.length) g)).flatten))
        (some (groups.map (fun g => keepIdx (fun pos => PosForm.specKeep F f pos g.length) g)))) := by
  have hmap : groups.mapM (fun g => Spec.filterPos g (Spec.eval (F := F) d f.ast)) =
      .ok (groups.map (fun g => keepIdx (fun pos => PosForm.specKeep F f pos g.length) g)) :=
    PredSem.mapM_ok _ _ groups (fun g _ => filterPos_form d f g)
  rw [Spec.eval]
  simp only [hev, bind, Except.bind, hmap]

theorem eval_filter_form_nogroups (d : Doc) (inp : Ast) (f : PosForm) (c : Spec.Ctx)
    (l : List Ref) (hev : Spec.eval (F := F) d inp c = .ok (.val (.nodes l) none)) :
    Spec.eval (F := F) d (.filter inp f.ast) c =
      .ok (.val (.nodes (keepIdx (fun pos => PosForm.specKeep F f pos l.length) l)) none) := by
  rw [Spec.eval]
  simp only [hev, bind, Except.bind, Spec.asNodes, filterPos_form]

theorem child_in_axes12 (a : AxisInfo) (ha : a.axis = "child") : a.axis ∈ axes12 := by
  rw [ha]; simp [axes12]

/-- the oracle's candidate groups of a child step are `childCands` of the origins -/
theorem child_groups (d : Doc) (cfg : ECfg) (hns : cfg.nsIface = true) (a : AxisInfo)
    (ha : a.axis = "child") (origins : List Ref) :
    origins.map (fun o => ((Spec.axisProx d a.axis o).getD []).filter (Spec.nodeTest d a)) =
      origins.map (childCands d cfg a) := by
  congr 1
  funext o
  have e : (Spec.axisProx d a.axis o).getD [] = Spec.children d o := by
    rw [ha]
    simp [Spec.axisProx, Spec.axisNodes, Spec.isReverseAxis]
  rw [e]
  unfold childCands
  congr 1
  funext r
  exact (nodeTest_eq d cfg hns a r).symm

/-- the oracle's value of `q/child::a[P]` over an evaluated input `q` -/
theorem eval_child_form (d : Doc) (cfg : ECfg) (hns : cfg.nsIface = true) (a : AxisInfo)
    (ha : a.axis = "child") (q : Ast) (f : PosForm) (c : Spec.Ctx) (origins : List Ref)
    (g : Option (List (List Ref)))
    (hev : Spec.eval (F := F) d q c = .ok (.val (.nodes origins) g)) :
    Spec.eval (F := F) d (.filter (.axis a q) f.ast) c =
      .ok (.val (.nodes (Spec.docOrder d (origins.map (keepOf F d cfg a f)).flatten))
        (some (origins.map (keepOf F d cfg a f)))) := by
  have h1 := eval_axis_groups (F := F) d a (child_in_axes12 a ha) q c origins g hev
  rw [child_groups d cfg hns a ha origins] at h1
  rw [eval_filter_form_groups d (.axis a q) f c _ _ h1, List.map_map]
  rfl

/-! ## the statement -/

theorem mem_flatten_map' (origins : List Ref) (k : Ref → List Ref) (x : Ref) :
    x ∈ (origins.map k).flatten ↔ ∃ o ∈ origins, x ∈ k o := by
  simp only [List.mem_flatten, List.mem_map]
  constructor
  · rintro ⟨l, ⟨o, ho, rfl⟩, hx⟩; exact ⟨o, ho, hx⟩
  · rintro ⟨o, ho, hx⟩; exact ⟨_, ⟨o, ho, rfl⟩, hx⟩

/-- plan `pl` implements `q/child::a[f]` over the input plan `qi` at context `c`: it yields, for each
node of `qi` in turn, the candidates whose proximity position satisfies the predicate, and the
oracle's node set is the document-ordered union of the same per-parent lists -/
def PosStepOK (F : Type) [NumAlg F] (d : Doc) (cfg : ECfg) (a : AxisInfo) (f : PosForm)
    (pl qi : Plan) (q : Ast) (c : Spec.Ctx) : Prop :=
  ∃ ins origins g0 out,
    sel (F := F) d cfg qi c.node = .ok ins ∧
    Spec.eval (F := F) d q c = .ok (.val (.nodes origins) g0) ∧
    (∀ x, x ∈ refs ins ↔ x ∈ origins) ∧
    sel (F := F) d cfg pl c.node = .ok out ∧
    refs out = (refs ins).flatMap (keepOf F d cfg a f) ∧
    Spec.eval (F := F) d (.filter (.axis a q) f.ast) c =
      .ok (.val (.nodes (Spec.docOrder d (origins.map (keepOf F d cfg a f)).flatten))
        (some (origins.map (keepOf F d cfg a f))))

/-- node-set agreement, packaged as `PathOK` (so that further boolean predicates and steps can be
put on top with the lemmas of `PredSem`) -/
theorem PosStepOK.pathOK {d : Doc} {cfg : ECfg} {a : AxisInfo} {f : PosForm} {pl qi : Plan}
    {q : Ast} {c : Spec.Ctx} (h : PosStepOK F d cfg a f pl qi q c) (hs : PathShape pl) :
    PathOK (F := F) d cfg pl (.filter (.axis a q) f.ast) c := by
  obtain ⟨ins, origins, g0, out, _, _, hm, hout, hrefs, hev⟩ := h
  have hflat : ∀ x, x ∈ (origins.map (keepOf F d cfg a f)).flatten ↔
      ∃ o ∈ origins, x ∈ keepOf F d cfg a f o := fun x => mem_flatten_map' origins _ x
  have hvalid : ∀ x, x ∈ (origins.map (keepOf F d cfg a f)).flatten → validRef d x = true := by
    intro x hx
    obtain ⟨o, _, hxo⟩ := (hflat x).1 hx
    exact keepOf_valid d cfg a f o x hxo
  refine ⟨out, _, _, hout, evalP_pathShape d cfg pl hs c.node out hout, hev, fun x => ?_,
    fun x hx => ((mem_docOrder d _ x).1 hx).2, ?_⟩
  · rw [hrefs, mem_docOrder, hflat, List.mem_flatMap]
    constructor
    · rintro ⟨o, ho, hx⟩
      exact ⟨⟨o, (hm o).1 ho, hx⟩, keepOf_valid d cfg a f o x hx⟩
    · rintro ⟨⟨o, ho, hx⟩, _⟩
      exact ⟨o, (hm o).2 ho, hx⟩
  · intro gs hgs x
    cases hgs
    rw [mem_docOrder]
    exact ⟨fun hx => ⟨hx, hvalid x hx⟩, fun hx => hx.1⟩

/-- **the property, node-set level**: the nodes returned are exactly the candidates `x` of some
input node `o` whose 1-based position among the candidates of `o` satisfies the predicate -/
theorem PosStepOK.mem_iff {d : Doc} {cfg : ECfg} {a : AxisInfo} {f : PosForm} {pl qi : Plan}
    {q : Ast} {c : Spec.Ctx} (h : PosStepOK F d cfg a f pl qi q c) :
    ∃ out ns g origins g0, sel (F := F) d cfg pl c.node = .ok out ∧
      Spec.eval (F := F) d (.filter (.axis a q) f.ast) c = .ok (.val (.nodes ns) g) ∧
      Spec.eval (F := F) d q c = .ok (.val (.nodes origins) g0) ∧
      (∀ x, x ∈ refs out ↔ x ∈ ns) ∧
      (∀ x, x ∈ ns ↔ ∃ o ∈ origins, ∃ k, (childCands d cfg a o)[k]? = some x ∧
        PosForm.specKeep F f (k + 1) (childCands d cfg a o).length = true) := by
  obtain ⟨ins, origins, g0, out, _, hevq, hm, hout, hrefs, hev⟩ := h
  refine ⟨out, _, _, origins, g0, hout, hev, hevq, fun x => ?_, fun x => ?_⟩
  · rw [hrefs, mem_docOrder, List.mem_flatMap, mem_flatten_map']
    constructor
    · rintro ⟨o, ho, hx⟩
      exact ⟨⟨o, (hm o).1 ho, hx⟩, keepOf_valid d cfg a f o x hx⟩
    · rintro ⟨⟨o, ho, hx⟩, _⟩
      exact ⟨o, (hm o).2 ho, hx⟩
  · rw [mem_docOrder, mem_flatten_map']
    constructor
    · rintro ⟨⟨o, ho, hx⟩, _⟩
      exact ⟨o, ho, (mem_keepOf d cfg a f o x).1 hx⟩
    · rintro ⟨o, ho, hk⟩
      have hx := (mem_keepOf (F := F) d cfg a f o x).2 hk
      exact ⟨⟨o, ho, hx⟩, keepOf_valid d cfg a f o x hx⟩

/-! ## model side: the plain form -/

section
variable {d : Doc} (wf : WF d) (cfg : ECfg) (hns : cfg.nsIface = true) (a : AxisInfo)
  (ha : a.axis = "child") (f : PosForm) (fi : Plan) (hfi : planTest d cfg fi = nodeTestM d cfg a)
  (hag : f.Agree F d.length)
include wf hfi hag

theorem sel_filter_child_keepOf (inp : Plan) (c : Ref) (ins : List Item)
    (hins : sel (F := F) d cfg inp c = .ok ins) :
    ∃ out, sel (F := F) d cfg (.filter (.child a inp) (f.plan fi)) c = .ok out ∧
      refs out = (refs ins).flatMap (keepOf F d cfg a f) := by
  obtain ⟨out, hout, hrefs⟩ := sel_filter_child_form (F := F) wf cfg a inp f fi hfi c ins hins
  refine ⟨out, hout, ?_⟩
  rw [hrefs]
  congr 1
  funext o
  exact keepIdx_model_eq d cfg a f hag o

theorem sel_filter_cachedChild_keepOf (inp : Plan) (c : Ref) (ins : List Item)
    (hins : sel (F := F) d cfg inp c = .ok ins) :
    ∃ out, sel (F := F) d cfg (.filter (.cachedChild a inp) (f.plan fi)) c = .ok out ∧
      refs out = (refs ins).flatMap (keepOf F d cfg a f) := by
  rw [sel_filter_congr d cfg (.cachedChild a inp) (.child a inp) _ c (sel_cachedChild d cfg a inp c)]
  exact sel_filter_child_keepOf wf cfg a f fi hfi hag inp c ins hins

/-- **one parent** (`inp = .context`): `child::a[P]` from `c` keeps the candidates of `c` whose
proximity position satisfies `P` — the oracle's `filterPos` on the candidate list -/
theorem single_parent (c : Ref) :
    ∃ out, sel (F := F) d cfg (.filter (.child a .context) (f.plan fi)) c = .ok out ∧
      refs out = keepOf F d cfg a f c ∧
      Spec.filterPos (childCands d cfg a c) (Spec.eval (F := F) d f.ast) = .ok (keepOf F d cfg a f c) := by
  obtain ⟨out, hout, hrefs⟩ :=
    sel_filter_child_keepOf (F := F) wf cfg a f fi hfi hag .context c [⟨c, 1, 0⟩] (sel_context d cfg c)
  refine ⟨out, hout, ?_, filterPos_form d f _⟩
  rw [hrefs]
  simp only [refs, List.map_cons, List.map_nil, List.flatMap_cons, List.flatMap_nil, List.append_nil]

include hns ha in
/-- **several parents, plain form**: `.filter (.child a qi) P` over an input that agrees with `q` -/
theorem posStep_filter (qi : Plan) (q : Ast) (c : Spec.Ctx) (hq : PathOK (F := F) d cfg qi q c) :
    PosStepOK F d cfg a f (.filter (.child a qi) (f.plan fi)) qi q c := by
  obtain ⟨ins, origins, g0, hsel, _, hev, hm, _, _⟩ := hq
  obtain ⟨out, hout, hrefs⟩ := sel_filter_child_keepOf (F := F) wf cfg a f fi hfi hag qi c.node ins hsel
  exact ⟨ins, origins, g0, out, hsel, hev, hm, hout, hrefs,
    eval_child_form d cfg hns a ha q f c origins g0 hev⟩

include hns ha in
theorem posStep_filter_cached (qi : Plan) (q : Ast) (c : Spec.Ctx)
    (hq : PathOK (F := F) d cfg qi q c) :
    PosStepOK F d cfg a f (.filter (.cachedChild a qi) (f.plan fi)) qi q c := by
  obtain ⟨ins, origins, g0, out, h1, h2, h3, h4, h5, h6⟩ :=
    posStep_filter (F := F) wf cfg hns a ha f fi hfi hag qi q c hq
  refine ⟨ins, origins, g0, out, h1, h2, h3, ?_, h5, h6⟩
  rw [sel_filter_congr d cfg (.cachedChild a qi) (.child a qi) _ c.node (sel_cachedChild d cfg a qi c.node)]
  exact h4

/-! ## model side: the merge form -/

omit wf hfi hag in
/-- the merge rewrite evaluates the filtered child step once per input node: exactly the
per-parent proximity semantics -/
theorem sel_merge_keepOf (qi child : Plan) (c : Ref) (ins : List Item)
    (hins : sel (F := F) d cfg qi c = .ok ins)
    (hchild : ∀ x : Ref, ∃ out, sel (F := F) d cfg child x = .ok out ∧ refs out = keepOf F d cfg a f x) :
    ∃ out, sel (F := F) d cfg (.merge qi child) c = .ok out ∧
      refs out = (refs ins).flatMap (keepOf F d cfg a f) := by
  let g : Item → List Item := fun it =>
    match sel (F := F) d cfg child it.r with
    | .ok l => l
    | .error _ => []
  have hg : ∀ it ∈ ins, sel (F := F) d cfg child it.r = .ok (g it) ∧ refs (g it) = keepOf F d cfg a f it.r := by
    intro it _
    obtain ⟨l, hl, hr⟩ := hchild it.r
    have : g it = l := by simp only [g, hl]
    rw [this]; exact ⟨hl, hr⟩
  refine ⟨_, sel_merge d cfg qi child c ins g hins (fun it hit => (hg it hit).1), ?_⟩
  rw [plain_refs]
  clear hins
  induction ins with
  | nil => rfl
  | cons it t ih =>
    simp only [List.map_cons, List.flatten_cons, List.map_append, refs, List.flatMap_cons]
    rw [← ih (fun it' h' => hg it' (List.mem_cons_of_mem _ h'))]
    congr 1
    exact (hg it List.mem_cons_self).2

include hns ha in
/-- **several parents, merge form** -/
theorem posStep_merge (qi : Plan) (q : Ast) (c : Spec.Ctx) (hq : PathOK (F := F) d cfg qi q c) :
    PosStepOK F d cfg a f (.merge qi (.filter (.child a .context) (f.plan fi))) qi q c := by
  obtain ⟨ins, origins, g0, hsel, _, hev, hm, _, _⟩ := hq
  obtain ⟨out, hout, hrefs⟩ := sel_merge_keepOf (F := F) cfg a f qi _ c.node ins hsel
    (fun x => by
      obtain ⟨o, h1, h2, _⟩ := single_parent (F := F) wf cfg a f fi hfi hag x
      exact ⟨o, h1, h2⟩)
  exact ⟨ins, origins, g0, out, hsel, hev, hm, hout, hrefs,
    eval_child_form d cfg hns a ha q f c origins g0 hev⟩

include hns ha in
theorem posStep_merge_cached (qi : Plan) (q : Ast) (c : Spec.Ctx)
    (hq : PathOK (F := F) d cfg qi q c) :
    PosStepOK F d cfg a f (.merge qi (.filter (.cachedChild a .context) (f.plan fi))) qi q c := by
  obtain ⟨ins, origins, g0, hsel, _, hev, hm, _, _⟩ := hq
  obtain ⟨out, hout, hrefs⟩ := sel_merge_keepOf (F := F) cfg a f qi _ c.node ins hsel
    (fun x => by
      obtain ⟨o, h1, h2⟩ := sel_filter_cachedChild_keepOf (F := F) wf cfg a f fi hfi hag .context x
        [⟨x, 1, 0⟩] (sel_context d cfg x)
      refine ⟨o, h1, ?_⟩
      rw [h2]
      simp only [refs, List.map_cons, List.map_nil, List.flatMap_cons, List.flatMap_nil,
        List.append_nil])
  exact ⟨ins, origins, g0, out, hsel, hev, hm, hout, hrefs,
    eval_child_form d cfg hns a ha q f c origins g0 hev⟩

end

end XPathV.PosSem
