import XPathV.Lemmas.PosSem.Forms
/-!
# C03 — the side conditions on the abstract numbers are satisfiable

A toy `NumAlg` on the integers (exact arithmetic; *not* a global instance) satisfies `NatEmb` and
`LitIsNat "2" 2` for every bound `N`: the hypotheses `PosForm.NumOK` / `PosForm.Agree` of the C03
theorems are not contradictory.
-/
namespace XPathV.PosSem
open XPathV XPathV.Model NumAlg

/-- a toy number algebra on the integers (exact arithmetic) -/
@[reducible] def toyAlg : NumAlg Int where
  add := (· + ·)
  sub := (· - ·)
  mul := (· * ·)
  div := (· / ·)
  fmod := Int.fmod
  floor := id
  ceil := id
  roundGo := id
  nan := 0
  ofNat := Int.ofNat
  ofInt := id
  lt a b := decide (a < b)
  le a b := decide (a ≤ b)
  eq a b := decide (a = b)
  isNaN _ := false
  toInt := some
  ofDecimal neg m _ := if neg then -(m : Int) else m
  classify _ := .nan
  posInf := 0
  negInf := 0

section Toy
attribute [local instance] toyAlg

theorem toy_lit : Spec.strToNum (F := Int) "2" = 2 := by decide

theorem toy_natEmb (N : Nat) : NatEmb Int N where
  toInt_ofNat := fun m _ => rfl
  eq_ofNat := fun a b _ _ => by
    show decide ((a : Int) = (b : Int)) = true ↔ a = b
    rw [decide_eq_true_iff]; exact Int.ofNat_inj

theorem toy_litIsNat (N : Nat) : LitIsNat Int "2" 2 N where
  toInt_lit := by rw [toy_lit]; rfl
  lit_eq := fun m _ _ => by
    rw [toy_lit]
    show decide ((2 : Int) = (m : Int)) = true ↔ m = 2
    rw [decide_eq_true_iff]; omega
  cmp := fun cop m _ _ => by
    rw [toy_lit]
    cases cop <;> simp [Spec.cmpNum, natCmp, NumAlg.eq, NumAlg.ne, NumAlg.lt, NumAlg.le, NumAlg.gt, NumAlg.ge, NumAlg.ofNat]
    all_goals first
      | omega
      | (rw [Bool.eq_iff_iff]; simp; omega)
  sub_toInt := fun s _ => by rw [toy_lit]; rfl
  sub_eq := fun s m _ _ _ => by
    rw [toy_lit]
    show decide ((s : Int) - 2 = (m : Int)) = true ↔ (s : Int) - (2 : Nat) = m
    rw [decide_eq_true_iff]; omega

/-- every form with the literal `2` satisfies the side conditions, for every bound -/
theorem toy_numOK (f : PosForm) (hf : ∀ lex, (f = .lit lex ∨ (∃ cop pfx, f = .posCmp cop pfx lex) ∨
    ∃ pfx, f = .lastMinus pfx lex) → lex = "2") (N : Nat) : f.NumOK Int 2 N := by
  cases f with
  | lit lex => rw [hf lex (Or.inl rfl)]; exact toy_litIsNat N
  | posCmp cop pfx lex => rw [hf lex (Or.inr (Or.inl ⟨cop, pfx, rfl⟩))]; exact toy_litIsNat N
  | posEqLast p1 p2 => exact toy_natEmb N
  | last pfx => exact toy_natEmb N
  | lastMinus pfx lex => rw [hf lex (Or.inr (Or.inr ⟨pfx, rfl⟩))]; exact toy_litIsNat N

end Toy
end XPathV.PosSem
