import XPathV.Lemmas.NoCrash
import XPathV.Lemmas.PosSem.Build
/-!
# C03 — `position()` / `last()` are bound to the step being filtered (`predInput`)

The builder keeps, while it builds the condition of a predicate, the step the predicate filters in
`BState.predInput`; `position()` and `last()` take it (`BState.positionInput`), whatever location
steps were built in between (every step overwrites `firstInput`, none touches `predInput`).

* `build_predInput` — `build` hands `predInput` back unchanged (`processFilter` restores it);
* `posBound t q` — every `position()` / `last()` call of the plan `q` that is not inside the
  condition of a nested filter has `firstInput = t`;
* `build_posBound` — a plan built while `predInput = some t` is `posBound t`;
* `build_position_fi_is_filtered_step` — the condition of `X[cond]` is `posBound` to the step
  recorded when `X` was built (for an axis step `X`: the plan of `X` itself).
-/
namespace XPathV.PosSem
open XPathV XPathV.Model XPathV.PathSem XPathV.PredSem

/-- every `position()` / `last()` call of the plan that is not inside the condition of a (nested)
filter counts in `t` (a nested filter's condition counts in that filter's own step) -/
def posBound (t : Plan) : Plan → Bool
  | .nil | .context | .absolute | .pnil | .constStr _ | .constNum _ => true
  | .ancestor _ _ i | .attr _ i | .child _ i | .cachedChild _ i | .descendant _ _ i
  | .following _ _ i | .preceding _ _ i | .parent _ i | .self _ i | .group i | .transform _ i
  | .descOverDesc _ _ i => posBound t i
  | .filter i _ => posBound t i
  | .func n fi args => (if n == "last" || n == "position" then fi == t else true) && posBound t args
  | .pcons h tl => posBound t h && posBound t tl
  | .logical _ l r | .numeric _ l r | .boolean _ l r | .union l r => posBound t l && posBound t r
  | .lastFunc i => i == t
  | .merge i c => posBound t i && posBound t c

theorem posBound_inputOf {t q p : Plan} (h : q.inputOf = some p) (hq : posBound t q = true) :
    posBound t p = true := by
  cases q <;> simp [Plan.inputOf] at h <;> subst h <;> simpa [posBound] using hq

theorem posBound_withInput (t q n : Plan) (hq : posBound t q = true) (hn : posBound t n = true) :
    posBound t (q.withInput n) = true := by
  cases q <;> simp_all [Plan.withInput, posBound]

theorem posBound_arg0 (t q : Plan) (hq : posBound t q = true) :
    posBound t (q.argList.getD 0 .nil) = true := by
  cases q <;> simp_all [Plan.argList, posBound]

section
variable (rx : RegexOk) (lim : Nat) (sn sd : Bool)

/-- the invariant of one `build` call started with `predInput = p` -/
def Bound (p : Option Plan) (o : BOut) : Prop :=
  o.st.predInput = p ∧ ∀ t, p = some t → posBound t o.q = true

theorem finAxis_bound (p : Option Plan) (q : Plan) (props : Props) (st : BState)
    (hst : st.predInput = p) (hq : ∀ t, p = some t → posBound t q = true) :
    BSat (Bound p) (build.finAxis q props st) := by
  unfold build.finAxis
  exact BSat.ok ⟨hst, hq⟩

theorem axisPlan_bound (p : Option Plan) (a : AxisInfo) (fl : Flags) (props : Props) (inp : Plan)
    (h : ∀ t, p = some t → posBound t inp = true) :
    BSat (fun r => ∀ t, p = some t → posBound t r.1 = true) (axisPlan a fl props inp) := by
  unfold axisPlan
  split <;> first | exact BSat.error _ | (apply BSat.ok; dsimp only; try split) <;>
    (intro t ht; simpa [posBound] using h t ht)

theorem oper_bound (t : Plan) (op : String) (l r : Plan) (p1 p2 p3 p4 p5 p6 : Props)
    (hl : posBound t l = true) (hr : posBound t r = true) :
    posBound t (if (op == "+" || op == "-" || op == "*" || op == "div" || op == "mod") = true then
        (Plan.numeric op l r, p1)
      else if (op == "=" || op == ">" || op == ">=" || op == "<" || op == "<=" || op == "!=") = true then
        (Plan.logical op l r, p2)
      else if (op == "or") = true then (Plan.boolean true l r, p3)
      else if (op == "and") = true then (Plan.boolean false l r, p4)
      else if (op == "|") = true then (l.union r, p5)
      else (Plan.nil, p6)).fst = true := by
  repeat' split
  all_goals simp [posBound, hl, hr]

theorem done_bound (p : Option Plan) (q : Plan) (props : Props) (st : BState)
    (hst : st.predInput = p) (hq : ∀ t, p = some t → posBound t q = true) :
    BSat (Bound p)
      (.ok ⟨q, props, build.leave { depth := st.depth, firstInput := some q, predInput := st.predInput }⟩) :=
  BSat.ok ⟨hst, hq⟩

/-- **`predInput` is threaded, and what is built under it is bound to it** -/
theorem build_bound (ast : Ast) (fl : Flags) (st : BState) (p : Option Plan) :
    st.predInput = p → BSat (Bound p) (build rx lim sn sd ast fl st) := by
  induction ast, fl, st using build.induct sd with
  | case1 s fl st | case2 s fl st | case3 s fl st =>
    intro hst
    simp only [build]
    exact enter_sat fun n => BSat.ok ⟨hst, fun _ _ => rfl⟩
  | case4 p n fl st =>
    intro _
    simp only [build]
    exact enter_sat fun n => BSat.error _
  | case5 fl st => intro _; simp only [build]; exact BSat.error _
  | case6 fl st => intro hst; simp only [build]; exact BSat.ok ⟨hst, fun _ _ => rfl⟩
  | case7 h t fl st htake =>
    intro hst; simp only [build, htake, if_true]; exact BSat.ok ⟨hst, fun _ _ => rfl⟩
  | case8 h t fl st htake ihh iht =>
    intro hst
    simp only [build, htake]
    refine BSat.bind (ihh hst) fun ho hho => ?_
    refine BSat.bind (iht ho hho.1) fun to hto => ?_
    exact BSat.ok ⟨hto.1, fun t ht => by simp [posBound, hho.2 t ht, hto.2 t ht]⟩
  | case9 x fl st ih =>
    intro hst
    simp only [build]
    refine enter_sat fun n => ?_
    refine BSat.bind (ih _ hst) fun o ho => ?_
    exact BSat.ok ⟨ho.1, fun t ht => by simpa [posBound] using ho.2 t ht⟩
  | case10 op l r fl st ihl ihr =>
    intro hst
    simp only [build]
    refine enter_sat fun n => ?_
    refine BSat.bind (ihl _ hst) fun lo hlo => ?_
    refine BSat.bind (ihr lo hlo.1) fun ro hro => ?_
    exact BSat.ok ⟨hro.1, fun t ht => oper_bound t op _ _ _ _ _ _ _ _ (hlo.2 t ht) (hro.2 t ht)⟩
  | case11 name pfx args fl st ih =>
    intro hst
    simp -zeta only [build]
    refine enter_sat fun n => ?_
    extract_lets n1
    split
    · exact BSat.error _
    · rename_i mn mx idx harity
      split
      · exact BSat.error _
      · rename_i hmin
        split
        all_goals (split; exact BSat.error _)
        all_goals
          refine BSat.bind (ih _ hst) fun ao hao => ?_
          extract_lets argsQ props0 fi props q st1 jp
          have hargsQ : ∀ t, p = some t → posBound t argsQ = true := by
            intro t ht
            show posBound t (if _ then _ else _) = true
            split
            · rfl
            · exact hao.2 t ht
          have hq : ∀ t, p = some t → posBound t q = true := by
            intro t ht
            show posBound t (if _ then _ else _) = true
            split
            · exact posBound_arg0 t _ (hargsQ t ht)
            · simp only [posBound, hargsQ t ht, Bool.and_true]
              split
              · show ((if _ then _ else _) == t) = true
                rename_i hpl
                rw [if_pos hpl]
                simp [BState.positionInput, hao.1, ht]
              · rfl
          have hjp : ∀ u, BSat (Bound p) (jp u) := fun u => by
            show BSat (Bound p) (if _ then _ else _)
            split
            · exact BSat.error _
            · refine BSat.ok ⟨?_, hq⟩
              show BState.predInput (build.leave (if _ then _ else _)) = p
              split
              · exact hao.1
              · exact hao.1
          clear_value jp
          repeat' split
          all_goals first | exact hjp _ | exact BSat.error _
  | case12 a fl st =>
    intro hst
    simp only [build]
    refine enter_sat fun n => ?_
    exact BSat.bind (axisPlan_bound p a fl {} .context fun _ _ => rfl) fun r hr =>
      finAxis_bound p _ _ _ hst hr
  | case13 a b grand fl st ihg ihi =>
    intro hst
    simp only [build]
    refine enter_sat fun n => ?_
    split
    · split
      · exact BSat.bind
          (P := fun x => x.2.2.predInput = p ∧ ∀ t, p = some t → posBound t x.1 = true)
          (BSat.pure ⟨hst, fun _ _ => rfl⟩) fun x hx =>
          finAxis_bound p _ _ _ hx.1 (fun t ht => by simpa [posBound] using hx.2 t ht)
      · rename_i hne
        have h := ihg ⟨n, st.firstInput, st.predInput⟩
        dsimp only at h
        split at h
        · exact absurd rfl (hne · )
        · refine BSat.bind (h hst) fun o ho => ?_
          exact BSat.bind
            (P := fun x => x.2.2.predInput = p ∧ ∀ t, p = some t → posBound t x.1 = true)
            (BSat.pure ⟨ho.1, ho.2⟩) fun x hx =>
            finAxis_bound p _ _ _ hx.1 (fun t ht => by simpa [posBound] using hx.2 t ht)
    · refine BSat.bind (ihi ⟨n, st.firstInput, st.predInput⟩ hst) fun o ho => ?_
      exact BSat.bind (axisPlan_bound p a fl _ _ ho.2) fun r hr => finAxis_bound p _ _ _ ho.1 hr
  | case14 a other fl st h1 h2 ih =>
    intro hst
    simp only [build]
    refine enter_sat fun n => ?_
    refine BSat.bind (ih ⟨n, st.firstInput, st.predInput⟩ hst) fun o ho => ?_
    exact BSat.bind (axisPlan_bound p a fl _ _ ho.2) fun r hr => finAxis_bound p _ _ _ ho.1 hr
  | case15 inp cond fl st ihi ihc =>
    intro hst
    simp -zeta only [build]
    refine enter_sat fun n => ?_
    extract_lets first inFlags
    refine BSat.bind (ihi _ hst) fun io hio => ?_
    extract_lets firstInput props props2
    refine BSat.bind (P := fun _ => True) (BSat.triv _) fun co0 _ => ?_
    extract_lets co pc0 jp
    have hjp : ∀ vt, BSat (Bound p) (jp vt) := by
      intro vt
      simp -zeta only [jp]
      extract_lets canBeNumber pc props3 condQ dn jp2
      have hf : ∀ t, p = some t → posBound t (io.q.filter condQ) = true :=
        fun t ht => by simpa [posBound] using hio.2 t ht
      have hjp2 : ∀ m, BSat (Bound p) (jp2 m) := by
        intro m
        simp only [jp2]
        repeat' split
        all_goals first
          | exact done_bound p _ _ co.st hio.1 hf
          | (rename_i parent _ _ hpar
             refine done_bound p _ _ co.st hio.1 fun t ht => ?_
             simp only [posBound, Bool.and_eq_true]
             exact ⟨posBound_inputOf hpar (hio.2 t ht), posBound_withInput t _ _ (hio.2 t ht) rfl⟩)
      clear_value jp2
      split <;> exact BSat.bind (P := fun _ => True) (BSat.triv _) fun m _ => hjp2 m
    clear_value jp
    split <;> exact BSat.bind (P := fun _ => True) (BSat.triv _) fun m _ => hjp m

end

section
variable (regexOk : RegexOk) (limit : Nat) (snt sdf : Bool)

/-- **`predInput` is handed back unchanged** by every successful `build` (`processFilter` restores
the outer value after the condition) -/
theorem build_predInput (ast : Ast) (fl : Flags) (st : BState) (o : BOut)
    (h : build regexOk limit snt sdf ast fl st = .ok o) : o.st.predInput = st.predInput :=
  ((build_bound regexOk limit snt sdf ast fl st st.predInput rfl).val h).1

/-- **what is built while `predInput = some t` counts in `t`**: every `position()` / `last()` call
of the plan outside the conditions of nested filters has `firstInput = t` — whatever location steps
the builder went through before reaching the call -/
theorem build_posBound (ast : Ast) (fl : Flags) (st : BState) (o : BOut) (t : Plan)
    (hst : st.predInput = some t) (h : build regexOk limit snt sdf ast fl st = .ok o) :
    posBound t o.q = true :=
  ((build_bound regexOk limit snt sdf ast fl st (some t) hst).val h).2 t rfl

theorem axisPlan_not_nil (a : AxisInfo) (fl : Flags) (pr pr' : Props) (inp q : Plan)
    (h : axisPlan a fl pr inp = .ok (q, pr')) : q ≠ .nil := by
  unfold axisPlan at h
  intro hq
  subst hq
  split at h <;> first
    | (cases h)
    | (simp only [Except.ok.injEq, Prod.mk.injEq] at h
       have h := h.1
       split at h <;> cases h)

/-- the plan of a successfully built axis node is recorded as `firstInput` -/
theorem build_axis_firstInput (a : AxisInfo) (q : Ast) (fl : Flags) (st : BState) (o : BOut)
    (h : build regexOk limit snt sdf (.axis a q) fl st = .ok o) : o.st.firstInput = some o.q := by
  have fin : ∀ q' pr' st', q' ≠ .nil → build.finAxis q' pr' st' = .ok o → o.st.firstInput = some o.q := by
    intro q' pr' st' hne hfin
    rw [finAxis_q _ _ _ _ hfin]
    exact finAxis_first q' pr' st' o hne hfin
  have fin' : ∀ pr qi q' pr' st', axisPlan a fl pr qi = .ok (q', pr') →
      build.finAxis q' pr' st' = .ok o → o.st.firstInput = some o.q :=
    fun pr qi q' pr' st' hq hfin => fin q' pr' st' (axisPlan_not_nil a fl pr pr' qi q' hq) hfin
  cases q with
  | none =>
    rw [build] at h
    replace h := enter_ok _ _ _ _ h
    obtain ⟨⟨q', pr'⟩, hq, hfin⟩ := except_bind_ok _ _ _ h
    exact fin' _ _ _ _ _ hq hfin
  | axis b grand =>
    rw [build] at h
    replace h := enter_ok _ _ _ _ h
    split at h
    · split at h
      · exact fin _ _ _ (by intro e; cases e) h
      · obtain ⟨o1, _, hfin⟩ := except_bind_ok _ _ _ h
        exact fin _ _ _ (by intro e; cases e) hfin
    · obtain ⟨o1, _, h⟩ := except_bind_ok _ _ _ h
      obtain ⟨⟨q', pr'⟩, hq, hfin⟩ := except_bind_ok _ _ _ h
      exact fin' _ _ _ _ _ hq hfin
  | _ =>
    rw [build] at h
    · replace h := enter_ok _ _ _ _ h
      obtain ⟨o1, _, h⟩ := except_bind_ok _ _ _ h
      obtain ⟨⟨q', pr'⟩, hq, hfin⟩ := except_bind_ok _ _ _ h
      exact fin' _ _ _ _ _ hq hfin
    · intro e; cases e
    · intro b g e; cases e

/-- **`position()` / `last()` inside a predicate count in the filtered step** (the repaired
defect): in the plan `build` makes of `X[cond]`, every `position()` / `last()` call of the condition
— at any depth: behind `and` / `or` / comparisons / arithmetic, inside function arguments, after any
number of location steps, but not inside a nested filter's condition (which counts in its own
step) — has as `firstInput` the step `b.firstInput` recorded right after `X` was built; for an axis
step `X` that is the plan of `X` itself -/
theorem build_position_fi_is_filtered_step (inp cond : Ast) (fl : Flags) (st : BState) (o : BOut)
    (h : build regexOk limit snt sdf (.filter inp cond) fl st = .ok o) :
    ∃ st1 io co,
      build regexOk limit snt sdf inp { fl with filter := true, smartDesc := fl.smartDesc && sdf } st1 = .ok io ∧
      build regexOk limit snt sdf cond fl ⟨io.st.depth, io.st.firstInput, io.st.firstInput⟩ = .ok co ∧
      (∀ step, io.st.firstInput = some step → posBound step co.q = true) ∧
      (∀ a q, inp = .axis a q → posBound io.q co.q = true) := by
  obtain ⟨st1, io, co, hio, hco, _⟩ := build_filter_inv' regexOk limit snt sdf inp cond fl st o h
  have h1 : ∀ step, io.st.firstInput = some step → posBound step co.q = true :=
    fun step hs => build_posBound regexOk limit snt sdf cond fl _ co step hs hco
  refine ⟨st1, io, co, hio, hco, h1, fun a q e => ?_⟩
  subst e
  exact h1 _ (build_axis_firstInput regexOk limit snt sdf a q _ st1 io hio)

end

end XPathV.PosSem
