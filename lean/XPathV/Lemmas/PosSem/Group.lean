import XPathV.Lemmas.PosSem.Step
import XPathV.Lemmas.ArithSem
/-!
# C03 — `(P)[n]`: a parenthesised path filtered by a number keeps the n-th node in document order

`groupQuery` numbers the nodes of its input 1, 2, … over the whole sequence
(`Theorems.C03.group_positions_global`).  When that sequence is strictly increasing in document
order (flat paths: `flat_sorted`; a single descendant step: `desc_sorted`) it *is* the oracle's
document-ordered node-set, so the engine's `[n]` and the oracle's `filterPos` keep the same node.
-/
namespace XPathV.PosSem
open XPathV XPathV.Model XPathV.PathSem XPathV.PredSem XPathV.ArithSem NumAlg

variable {F : Type} [NumAlg F]

/-! ## document order: strictly increasing lists are determined by their members -/

theorem allRefs_sorted (d : Doc) : (allRefs d).Pairwise (fun a b => Ref.lt a b = true) := by
  unfold allRefs
  rw [List.pairwise_flatMap]
  constructor
  · intro i _
    rw [List.pairwise_cons]
    constructor
    · intro x hx
      simp only [attrsOf, List.mem_map] at hx
      obtain ⟨k, _, rfl⟩ := hx
      simp [Ref.lt, Ref.ord]
    · unfold attrsOf
      rw [List.pairwise_map]
      exact List.Pairwise.imp (fun {a b} hab => by simp [Ref.lt, Ref.ord]; omega)
        List.pairwise_lt_range
  · refine List.Pairwise.imp (fun {i j} hij x hx y hy => ?_) List.pairwise_lt_range
    have hxi : x.ord.1 = i := by
      simp only [List.mem_cons, attrsOf, List.mem_map] at hx
      rcases hx with rfl | ⟨k, _, rfl⟩ <;> rfl
    have hyj : y.ord.1 = j := by
      simp only [List.mem_cons, attrsOf, List.mem_map] at hy
      rcases hy with rfl | ⟨k, _, rfl⟩ <;> rfl
    rw [ref_lt_iff]; omega

theorem docOrder_sorted (d : Doc) (l : List Ref) :
    (Spec.docOrder d l).Pairwise (fun a b => Ref.lt a b = true) :=
  List.Pairwise.filter _ (allRefs_sorted d)

theorem sorted_nodup {l : List Ref} (h : l.Pairwise (fun a b => Ref.lt a b = true)) : l.Nodup :=
  List.Pairwise.imp (fun {a b} hab e => by subst e; rw [ref_lt_irrefl] at hab; cases hab) h

theorem sorted_ref_ext {l₁ l₂ : List Ref} (h₁ : l₁.Pairwise (fun a b => Ref.lt a b = true))
    (h₂ : l₂.Pairwise (fun a b => Ref.lt a b = true)) (h : ∀ x, x ∈ l₁ ↔ x ∈ l₂) : l₁ = l₂ := by
  apply List.Perm.eq_of_pairwise (le := fun a b => Ref.lt a b = true) _ h₁ h₂
    ((List.perm_ext_iff_of_nodup (sorted_nodup h₁) (sorted_nodup h₂)).2 h)
  intro a b _ _ hab hba
  rw [ref_lt_asymm a b hab] at hba
  cases hba

/-! ## the engine's `(p)[n]` -/

theorem modelKeep_lit (lex : String) (ipos pm lm pm' lm' : Nat) :
    PosForm.modelKeep F (.lit lex) ipos pm lm = PosForm.modelKeep F (.lit lex) ipos pm' lm' := rfl

/-- a numeric predicate on a parenthesised plan keeps the members of the whole sequence whose
1-based index is the number -/
theorem sel_group_lit (d : Doc) (cfg : ECfg) (p : Plan) (lex : String) (c : Ref) (ins : List Item)
    (hsel : sel (F := F) d cfg p c = .ok ins) :
    ∃ out, sel (F := F) d cfg (.filter (.group p) (.constNum lex)) c = .ok out ∧
      refs out = keepIdx (fun pos => PosForm.modelKeep F (.lit lex) pos pos (refs ins).length)
        (refs ins) := by
  have hg : sel (F := F) d cfg (.group p) c = .ok (numbered (refs ins)) := by
    simp only [sel, hsel, bind, Except.bind, refs]
  refine ⟨_, sel_filter_form d cfg (.group p) (.lit lex) .nil c _ hg, ?_⟩
  rw [filterPositions_refs, ← numbered_filter_refs]
  rfl

/-- **`(P)[n]`, core**: if the plan `p` yields a strictly increasing sequence with the members of
the oracle's (document-ordered) node-set of `pa`, then that sequence *is* the node-set, and the
engine's `.filter (.group p) n` and the oracle's `(pa)[n]` keep the same nodes -/
theorem group_lit_core (d : Doc) (cfg : ECfg) (p : Plan) (pa : Ast) (lex : String) (c : Spec.Ctx)
    (ins : List Item) (ns : List Ref) (g : Option (List (List Ref)))
    (hsel : sel (F := F) d cfg p c.node = .ok ins)
    (hsorted : (refs ins).Pairwise (fun a b => Ref.lt a b = true))
    (hev : Spec.eval (F := F) d pa c = .ok (.val (.nodes ns) g))
    (hdo : ∃ l, ns = Spec.docOrder d l) (hm : ∀ x, x ∈ refs ins ↔ x ∈ ns)
    (N : Nat) (hN : ns.length ≤ N) (hag : (PosForm.lit lex).Agree F N) :
    refs ins = ns ∧
    ∃ out, sel (F := F) d cfg (.filter (.group p) (.constNum lex)) c.node = .ok out ∧
      refs out = keepIdx (fun pos => PosForm.specKeep F (.lit lex) pos ns.length) ns ∧
      Spec.eval (F := F) d (.filter (.group pa) (.num lex)) c =
        .ok (.val (.nodes (keepIdx (fun pos => PosForm.specKeep F (.lit lex) pos ns.length) ns)) none) := by
  have heq : refs ins = ns := by
    obtain ⟨l, rfl⟩ := hdo
    exact sorted_ref_ext hsorted (docOrder_sorted d l) hm
  refine ⟨heq, ?_⟩
  obtain ⟨out, hout, hrefs⟩ := sel_group_lit (F := F) d cfg p lex c.node ins hsel
  refine ⟨out, hout, ?_, ?_⟩
  · rw [hrefs, heq]
    apply keepIdx_congr
    intro pos h1 h2
    exact hag pos ns.length h1 h2 hN
  · have hgr : Spec.eval (F := F) d (.group pa) c = .ok (.val (.nodes ns) none) :=
      eval_group d pa c _ g hev
    exact eval_filter_form_nogroups d (.group pa) (.lit lex) c ns hgr

/-- the natural-number reading: the `n`-th node of the sequence -/
theorem keepIdx_lit_nat (lex : String) (n N : Nat) (hn : 1 ≤ n) (hlit : LitIsNat F lex n N)
    (l : List Ref) (hl : l.length ≤ N) :
    keepIdx (fun pos => PosForm.specKeep F (.lit lex) pos l.length) l = (l[n - 1]?).toList := by
  rw [← keepIdx_eq_nth l n hn]
  apply keepIdx_congr
  intro pos h1 h2
  exact specKeep_nat (.lit lex) n N hlit pos l.length h1 h2 hl

/-! ## through the builder -/

theorem build_group_lit_inv (regexOk : RegexOk) (limit : Nat) (snt sdf : Bool) (pa : Ast)
    (lex : String) (fl : Flags) (st : BState) (o : BOut)
    (h : build regexOk limit snt sdf (.filter (.group pa) (.num lex)) fl st = .ok o) :
    ∃ st' o1, build regexOk limit snt sdf pa {} st' = .ok o1 ∧
      o.q = .filter (.group o1.q) (.constNum lex) := by
  obtain ⟨st1, io, co, hio, hco, hres⟩ := build_filter_inv regexOk limit snt sdf _ _ fl st o h
  obtain ⟨hcq, hcp⟩ := build_num_inv regexOk limit snt sdf lex _ _ co hco
  obtain ⟨st', o1, ho1, hiq⟩ := build_group regexOk limit snt sdf pa _ _ io hio
  obtain ⟨hq, _⟩ := hres (by rw [hcp])
  refine ⟨st', o1, ho1, ?_⟩
  rcases hq with hq | ⟨hax, _⟩
  · rw [hq, hiq, hcq]
  · cases hax

/-- **`(P)[n]` for a flat path, through `build`**: the plan the builder makes of `(P)[n]` yields
exactly the `n`-th node (in document order) of the node-set of `P`, which is what the oracle's
`filterPos` keeps of the document-ordered node-set -/
theorem paren_flat_nth {d : Doc} (wf : WF d) (cfg : ECfg) (hns : cfg.nsIface = true)
    (hinj : HashInj d cfg) (regexOk : RegexOk) (limit : Nat) (sdf : Bool) (pa : Ast)
    (hp : FlatPath pa) (lex : String) (n N : Nat) (hn : 1 ≤ n) (hlit : LitIsNat F lex n N)
    (st : BState) (o : BOut)
    (hb : build regexOk limit true sdf (.filter (.group pa) (.num lex)) {} st = .ok o)
    (c : Ref) (hc : validRef d c = true) :
    ∃ out ns g, sel (F := F) d cfg o.q c = .ok out ∧
      Spec.eval (F := F) d pa ⟨c, 1, 1⟩ = .ok (.val (.nodes ns) g) ∧
      (ns.length ≤ N →
        refs out = (ns[n - 1]?).toList ∧
        Spec.eval (F := F) d (.filter (.group pa) (.num lex)) ⟨c, 1, 1⟩ =
          .ok (.val (.nodes (ns[n - 1]?).toList) none)) := by
  obtain ⟨st', o1, ho1, hq⟩ := build_group_lit_inv regexOk limit true sdf pa lex {} st o hb
  obtain ⟨ins, ns, g, hsel, hev, hm⟩ :=
    C01_main (F := F) wf cfg hns hinj regexOk limit sdf pa hp.pathPF st' o1 ho1 c hc
  have hflat := build_flat regexOk limit true sdf hp _ _ _ ho1
  have hdo : ∃ l, ns = Spec.docOrder d l := by
    cases hp with
    | step a _ => exact eval_axis_inv d a _ _ ns g hev
    | cons a inp _ _ => exact eval_axis_inv d a _ _ ns g hev
  obtain ⟨out, hout, _⟩ := sel_group_lit (F := F) d cfg o1.q lex c ins hsel
  refine ⟨out, ns, g, by rw [hq]; exact hout, hev, fun hN => ?_⟩
  obtain ⟨_, out', hout', hrefs, hev'⟩ := group_lit_core (F := F) d cfg o1.q pa lex ⟨c, 1, 1⟩ ins ns g
    hsel (flat_sorted wf cfg c hflat ins hsel) hev hdo hm N hN
    (agree_of_numOK (.lit lex) n N hlit)
  rw [hout] at hout'; cases hout'
  rw [keepIdx_lit_nat lex n N hn hlit ns hN] at hrefs hev'
  exact ⟨hrefs, hev'⟩

/-- **`(descendant::t)[n]`** (single descendant step from a node context, naive plan): the `n`-th
descendant candidate in document order -/
theorem paren_desc_nth {d : Doc} (wf : WF d) (cfg : ECfg) (hns : cfg.nsIface = true)
    (hinj : HashInj d cfg) (a : AxisInfo) (self : Bool)
    (ha : a.axis = if self then "descendant-or-self" else "descendant")
    (lex : String) (n N : Nat) (hn : 1 ≤ n) (hlit : LitIsNat F lex n N)
    (i : Nat) (hi : i < d.length) :
    ∃ out ns g, sel (F := F) d cfg (.filter (.group (.descendant a self .context)) (.constNum lex))
        (.node i) = .ok out ∧
      Spec.eval (F := F) d (.axis a .none) ⟨.node i, 1, 1⟩ = .ok (.val (.nodes ns) g) ∧
      (ns.length ≤ N →
        refs out = (ns[n - 1]?).toList ∧
        Spec.eval (F := F) d (.filter (.group (.axis a .none)) (.num lex)) ⟨.node i, 1, 1⟩ =
          .ok (.val (.nodes (ns[n - 1]?).toList) none)) := by
  have hax : a.axis ∈ axes12 := by
    rw [ha]; cases self <;> simp [axes12]
  have hpf : PathPF (.axis a .none) := .axis a .none .none hax
  have hc : validRef d (.node i) = true := (validRef_node d i).2 hi
  obtain ⟨ins, ns, g, hsel, hev, hm, _⟩ := naive_sem (F := F) wf cfg hns hinj _ hpf (.node i) hc
  have hpl : naivePlan (.axis a .none) = .descendant a self .context := by
    cases self <;> simp only [naivePlan, stepPlan, ha] <;> rfl
  rw [hpl] at hsel
  obtain ⟨out, hout, _⟩ := sel_group_lit (F := F) d cfg _ lex (.node i) ins hsel
  refine ⟨out, ns, g, hout, hev, fun hN => ?_⟩
  obtain ⟨_, out', hout', hrefs, hev'⟩ := group_lit_core (F := F) d cfg _ (.axis a .none) lex
    ⟨.node i, 1, 1⟩ ins ns g hsel (desc_sorted wf cfg a self i hi ins hsel) hev
    (eval_axis_inv d a _ _ ns g hev) hm N hN (agree_of_numOK (.lit lex) n N hlit)
  rw [hout] at hout'; cases hout'
  rw [keepIdx_lit_nat lex n N hn hlit ns hN] at hrefs hev'
  exact ⟨hrefs, hev'⟩

/-! ## flat input paths: the engine's sequence *is* the oracle's node-set -/

theorem flatMap_sublist {α β : Type} (l : List α) (f g : α → List β)
    (h : ∀ x, (f x).Sublist (g x)) : (l.flatMap f).Sublist (l.flatMap g) := by
  induction l with
  | nil => exact List.Sublist.slnil
  | cons a t ih =>
    rw [List.flatMap_cons, List.flatMap_cons]
    exact List.Sublist.append (h a) ih

/-- **order on the model side**: over a flat input plan (child / attribute / self steps from the
context node) the sequence the positional step yields is strictly increasing in document order,
hence equal — as a list — to the oracle's node-set -/
theorem PosStepOK.exact_of_flat {d : Doc} (wf : WF d) {cfg : ECfg} {a : AxisInfo} {f : PosForm}
    {pl qi : Plan} {q : Ast} {c : Spec.Ctx} (h : PosStepOK F d cfg a f pl qi q c)
    (hflat : FlatPlan qi) :
    ∃ out ns g, sel (F := F) d cfg pl c.node = .ok out ∧
      Spec.eval (F := F) d (.filter (.axis a q) f.ast) c = .ok (.val (.nodes ns) g) ∧
      refs out = ns := by
  obtain ⟨out, ns, g, _, _, hout, hev, _, hm, _⟩ := h.mem_iff
  obtain ⟨ins, origins, g0, out', hins, _, _, hout', hrefs, hev'⟩ := h
  rw [hout] at hout'; cases hout'
  rw [hev] at hev'
  refine ⟨out, ns, g, hout, hev, ?_⟩
  have hsorted : (refs out).Pairwise (fun a b => Ref.lt a b = true) := by
    rw [hrefs]
    have hfl := flat_children_step wf (nodeTestM d cfg a) (refs ins) (flat_inv (F := F) wf cfg c.node hflat ins hins)
    have hsub : ((refs ins).flatMap (keepOf F d cfg a f)).Sublist
        ((refs ins).flatMap (fun r => (childrenM d r).filter (nodeTestM d cfg a))) := by
      apply flatMap_sublist
      intro o
      rw [children_spec_all wf]
      exact keepIdx_sublist _ _
    exact List.Pairwise.sublist hsub hfl.sorted
  have hns : ns = Spec.docOrder d (origins.map (keepOf F d cfg a f)).flatten := by
    cases hev'; rfl
  apply sorted_ref_ext hsorted (hns ▸ docOrder_sorted d _) hm

end XPathV.PosSem
