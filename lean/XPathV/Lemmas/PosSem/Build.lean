import XPathV.Lemmas.PosSem.Stack
import XPathV.Lemmas.ArithSem
/-!
# C03 — through the builder

Inversion of `build` on `child::t[P]` (`processFilter` with a positional predicate: the plain
`.filter` form or the merge form, the predicate plan `PosForm.plan` of the filtered step — the
builder's `predInput`, read through `positionInput`),
then the semantic statements of `Step`/`Stack` for the plan `build` returns.
-/
namespace XPathV.PosSem
open XPathV XPathV.Model XPathV.PathSem XPathV.PredSem NumAlg

/-! ## inversion -/

section Inv
variable (regexOk : RegexOk) (limit : Nat) (snt sdf : Bool)

theorem build_position_inv (pfx : String) (fl : Flags) (st : BState) (o : BOut)
    (h : build regexOk limit snt sdf (.call "position" pfx .anil) fl st = .ok o) :
    o.q = .func "position" st.positionInput .pnil ∧ o.st.firstInput = st.firstInput ∧
      o.st.predInput = st.predInput := by
  rw [build] at h
  replace h := enter_ok _ _ _ _ h
  have hn : Ast.anil.argList.length = 0 := rfl
  simp only [hn] at h
  rw [show fnArity "position" = some (0, none, false) from rfl] at h
  have h1 : ("position" == "normalize-space" || "position" == "string" || "position" == "number") = false := by decide
  have h2 : ("position" == "last" || "position" == "position") = true := by decide
  have h3 : ("position" == "reverse") = false := by decide
  have h4 : ("position" == "matches") = false := by decide
  simp only [show fnUsed "position" 0 = 0 from rfl, h1, h2, h3, h4, Nat.lt_irrefl, ↓reduceIte, Bool.false_eq_true,
    Bool.false_and] at h
  obtain ⟨ao, hao, h⟩ := except_bind_ok _ _ _ h
  rw [build] at hao
  cases hao
  cases h
  exact ⟨rfl, rfl, rfl⟩

theorem build_last_inv (pfx : String) (fl : Flags) (st : BState) (o : BOut)
    (h : build regexOk limit snt sdf (.call "last" pfx .anil) fl st = .ok o) :
    o.q = .func "last" st.positionInput .pnil ∧ o.st.firstInput = st.firstInput ∧
      o.st.predInput = st.predInput := by
  rw [build] at h
  replace h := enter_ok _ _ _ _ h
  have hn : Ast.anil.argList.length = 0 := rfl
  simp only [hn] at h
  rw [show fnArity "last" = some (0, none, false) from rfl] at h
  have h1 : ("last" == "normalize-space" || "last" == "string" || "last" == "number") = false := by decide
  have h2 : ("last" == "last" || "last" == "position") = true := by decide
  have h3 : ("last" == "reverse") = false := by decide
  have h4 : ("last" == "matches") = false := by decide
  simp only [show fnUsed "last" 0 = 0 from rfl, h1, h2, h3, h4, Nat.lt_irrefl, ↓reduceIte, Bool.false_eq_true,
    Bool.false_and] at h
  obtain ⟨ao, hao, h⟩ := except_bind_ok _ _ _ h
  rw [build] at hao
  cases hao
  cases h
  exact ⟨rfl, rfl, rfl⟩

theorem build_cmp_inv' (op : String) (hop : op ∈ cmpOps) (l r : Ast) (fl : Flags)
    (st : BState) (o : BOut) (h : build regexOk limit snt sdf (.oper op l r) fl st = .ok o) :
    ∃ lo ro, build regexOk limit snt sdf l {} ⟨st.depth + 1, st.firstInput, st.predInput⟩ = .ok lo ∧
      build regexOk limit snt sdf r {} lo.st = .ok ro ∧
      o.q = .logical op lo.q ro.q := by
  rw [build] at h
  replace h := enter_ok _ _ _ _ h
  obtain ⟨lo, hlo, h⟩ := except_bind_ok _ _ _ h
  obtain ⟨ro, hro, h⟩ := except_bind_ok _ _ _ h
  refine ⟨lo, ro, hlo, hro, ?_⟩
  simp only [cmpOps, List.mem_cons, List.not_mem_nil, or_false] at hop
  rcases hop with rfl | rfl | rfl | rfl | rfl | rfl <;>
  · simp at h
    cases h; rfl

theorem build_minus_inv' (l r : Ast) (fl : Flags)
    (st : BState) (o : BOut) (h : build regexOk limit snt sdf (.oper "-" l r) fl st = .ok o) :
    ∃ lo ro, build regexOk limit snt sdf l {} ⟨st.depth + 1, st.firstInput, st.predInput⟩ = .ok lo ∧
      build regexOk limit snt sdf r {} lo.st = .ok ro ∧
      o.q = .numeric "-" lo.q ro.q := by
  rw [build] at h
  replace h := enter_ok _ _ _ _ h
  obtain ⟨lo, hlo, h⟩ := except_bind_ok _ _ _ h
  obtain ⟨ro, hro, h⟩ := except_bind_ok _ _ _ h
  refine ⟨lo, ro, hlo, hro, ?_⟩
  simp at h
  cases h; rfl

/-- the builder turns a positional predicate into `PosForm.plan` of the current `positionInput`
(inside a predicate: the step being filtered) -/
theorem build_form_inv (f : PosForm) (fl : Flags) (st : BState) (o : BOut)
    (h : build regexOk limit snt sdf f.ast fl st = .ok o) :
    o.q = f.plan st.positionInput := by
  cases f with
  | lit lex => exact (build_num_inv regexOk limit snt sdf lex fl st o h).1
  | posCmp cop pfx lex =>
    obtain ⟨lo, ro, hlo, hro, hq⟩ := build_cmp_inv' regexOk limit snt sdf _ (opStr_mem cop) _ _ fl st o h
    obtain ⟨h1, _⟩ := build_position_inv regexOk limit snt sdf pfx _ _ lo hlo
    obtain ⟨h2, _⟩ := build_num_inv regexOk limit snt sdf lex _ _ ro hro
    rw [hq, h1, h2]; rfl
  | posEqLast p1 p2 =>
    obtain ⟨lo, ro, hlo, hro, hq⟩ := build_cmp_inv' regexOk limit snt sdf "=" (by simp [cmpOps]) _ _ fl st o h
    obtain ⟨h1, h1', h1''⟩ := build_position_inv regexOk limit snt sdf p1 _ _ lo hlo
    obtain ⟨h2, _⟩ := build_last_inv regexOk limit snt sdf p2 _ _ ro hro
    rw [hq, h1, h2]
    simp only [BState.positionInput, h1', h1'']; rfl
  | last pfx => exact (build_last_inv regexOk limit snt sdf pfx fl st o h).1
  | lastMinus pfx lex =>
    obtain ⟨lo, ro, hlo, hro, hq⟩ := build_minus_inv' regexOk limit snt sdf _ _ fl st o h
    obtain ⟨h1, _⟩ := build_last_inv regexOk limit snt sdf pfx _ _ lo hlo
    obtain ⟨h2, _⟩ := build_num_inv regexOk limit snt sdf lex _ _ ro hro
    rw [hq, h1, h2]; rfl

theorem form_plan_not_filterfunc (f : PosForm) (fi : Plan) (hfi : ∀ a b, fi ≠ .filter a b) :
    ∀ n fi' fp ar, f.plan fi ≠ .func n (.filter fi' fp) ar := by
  intro n fi' fp ar h
  cases f <;> simp only [PosForm.plan] at h <;> cases h
  exact hfi _ _ rfl

theorem axisPlan_child (a : AxisInfo) (ha : a.axis = "child") (fl : Flags) (pr : Props) (qi q : Plan)
    (pr' : Props) (h : axisPlan a fl pr qi = .ok (q, pr')) : q = .child a qi ∨ q = .cachedChild a qi := by
  simp only [axisPlan, ha, Except.ok.injEq, Prod.mk.injEq] at h
  obtain ⟨rfl, _⟩ := h
  split
  · exact Or.inr rfl
  · exact Or.inl rfl

theorem finAxis_first (q : Plan) (props : Props) (st : BState) (o : BOut) (hq : q ≠ .nil)
    (h : build.finAxis q props st = .ok o) : o.st.firstInput = some q := by
  unfold build.finAxis at h
  cases h
  simp [hq]

/-- a child step built as the input of a filter (`fl.filter = true`: no `//` shortcut): the child
(or cachedChild) constructor over the context or over the plan built for the input path with empty
flags; it is recorded as `firstInput` -/
theorem build_child_step_inv (a : AxisInfo) (ha : a.axis = "child") (q : Ast) (fl : Flags)
    (hfl : fl.filter = true) (st : BState) (o : BOut)
    (h : build regexOk limit snt sdf (.axis a q) fl st = .ok o) :
    ∃ qi, (o.q = .child a qi ∨ o.q = .cachedChild a qi) ∧ o.st.firstInput = some o.q ∧
      ((q = .none ∧ qi = .context) ∨
        (q ≠ .none ∧ ∃ st' o1, build regexOk limit snt sdf q {} st' = .ok o1 ∧ qi = o1.q)) := by
  have hin : build.inFlagsOf a fl = {} := by
    simp [build.inFlagsOf, hfl]
  have fin : ∀ qi pr q' pr' st' , axisPlan a fl pr qi = .ok (q', pr') → build.finAxis q' pr' st' = .ok o →
      (o.q = .child a qi ∨ o.q = .cachedChild a qi) ∧ o.st.firstInput = some o.q := by
    intro qi pr q' pr' st' hq hfin
    have hshape := axisPlan_child a ha fl pr qi q' pr' hq
    have hne : q' ≠ .nil := by rcases hshape with e | e <;> rw [e] <;> intro h <;> cases h
    rw [finAxis_q _ _ _ _ hfin]
    exact ⟨hshape, finAxis_first q' pr' st' o hne hfin⟩
  cases q with
  | none =>
    rw [build] at h
    replace h := enter_ok _ _ _ _ h
    obtain ⟨⟨q', pr'⟩, hq, hfin⟩ := except_bind_ok _ _ _ h
    obtain ⟨h1, h2⟩ := fin _ _ _ _ _ hq hfin
    exact ⟨.context, h1, h2, Or.inl ⟨rfl, rfl⟩⟩
  | axis b grand =>
    rw [build] at h
    replace h := enter_ok _ _ _ _ h
    simp only [hfl, Bool.not_true, Bool.false_and, Bool.false_eq_true, ↓reduceIte, hin] at h
    obtain ⟨o1, ho1, h⟩ := except_bind_ok _ _ _ h
    obtain ⟨⟨q', pr'⟩, hq, hfin⟩ := except_bind_ok _ _ _ h
    obtain ⟨h1, h2⟩ := fin _ _ _ _ _ hq hfin
    exact ⟨o1.q, h1, h2, Or.inr ⟨(by intro e; cases e), _, o1, ho1, rfl⟩⟩
  | _ =>
    rw [build] at h
    · replace h := enter_ok _ _ _ _ h
      rw [hin] at h
      obtain ⟨o1, ho1, h⟩ := except_bind_ok _ _ _ h
      obtain ⟨⟨q', pr'⟩, hq, hfin⟩ := except_bind_ok _ _ _ h
      obtain ⟨h1, h2⟩ := fin _ _ _ _ _ hq hfin
      exact ⟨o1.q, h1, h2, Or.inr ⟨(by intro e; cases e), _, o1, ho1, rfl⟩⟩
    · intro e; cases e
    · intro b g e; cases e

theorem build_filter_inv' (inp cond : Ast) (fl : Flags)
    (st : BState) (o : BOut) (h : build regexOk limit snt sdf (.filter inp cond) fl st = .ok o) :
    ∃ st1 io co,
      build regexOk limit snt sdf inp { fl with filter := true, smartDesc := fl.smartDesc && sdf } st1 = .ok io ∧
      build regexOk limit snt sdf cond fl ⟨io.st.depth, io.st.firstInput, io.st.firstInput⟩ = .ok co ∧
      ((∀ n fi fp ar, co.q ≠ .func n (.filter fi fp) ar) →
        (o.q = .filter io.q co.q ∨
          (inp.isAxis = true ∧ ∃ parent, io.q.inputOf = some parent ∧
            o.q = .merge parent (.filter (io.q.withInput .context) co.q)))) := by
  rw [build] at h
  replace h := enter_ok _ _ _ _ h
  obtain ⟨io, hio, h⟩ := except_bind_ok _ _ _ h
  obtain ⟨co, hco, h⟩ := except_bind_ok _ _ _ h
  refine ⟨_, io, co, hio, hco, fun hnf => ?_⟩
  cases hvt : co.q.valueType with
  | none => simp only [hvt, bind, Except.bind] at h; cases h
  | some vt =>
    cases hmg : io.q.hasMerge with
    | none => simp only [hvt, hmg, bind, Except.bind, pure, Except.pure] at h; cases h
    | some mg =>
      simp only [hvt, hmg, bind, Except.bind, pure, Except.pure] at h
      generalize (vt == Plan.VType.any || vt == Plan.VType.number || co.props.hasPosition ||
        co.props.hasLast) = cb at h
      cases cb <;> cases hif : inp.isFilter <;>
        simp only [hif, Bool.false_eq_true, ↓reduceIte] at h
      all_goals (repeat' split at h)
      all_goals (cases h)
      all_goals first
        | exact Or.inl rfl
        | (refine Or.inr ⟨by assumption, _, ?_, rfl⟩; assumption)

theorem stackAst_not_axis (x y : Ast) (t : List Ast) : (stackAst (.filter x y) t).isAxis = false := by
  cases t <;> rfl

end Inv

/-! ## semantics of the built plans -/

variable {F : Type} [NumAlg F]

section Sem
variable {d : Doc} (wf : WF d) (cfg : ECfg) (hns : cfg.nsIface = true) (hinj : HashInj d cfg)
  (regexOk : RegexOk) (limit : Nat)
include wf hns hinj

/-- the plan built for the input path of the step agrees with the path -/
theorem input_pathOK (q : Ast) (hq : Frag true q) (qi : Plan)
    (h : (q = .none ∧ qi = .context) ∨
      (q ≠ .none ∧ ∃ st' o1, build regexOk limit true false q {} st' = .ok o1 ∧ qi = o1.q))
    (c : Spec.Ctx) (hc : validRef d c.node = true) : PathOK (F := F) d cfg qi q c := by
  rcases h with ⟨rfl, rfl⟩ | ⟨_, st', o1, ho1, rfl⟩
  · exact pathOK_none d cfg c hc
  · obtain ⟨_, hs, hr⟩ :=
      ((build_frag (F := F) wf cfg hns hinj regexOk limit true q hq).1 rfl).1 {} st' o1 ho1
    exact pathOK_of_rel d cfg o1.q (predPlan q) q c (hr c.node hc) hs
      ((frag_sem (F := F) wf cfg hns hinj true q hq c hc).1 rfl)

/-- **`child::t[P]` through `build`** (any flags): the built plan is the plain filter or the merge
form over the plan `qi` built for the input path, and it implements the proximity semantics -/
theorem build_posStep' (a : AxisInfo) (ha : a.axis = "child") (q : Ast) (hq : Frag true q)
    (f : PosForm) (hag : f.Agree F d.length) (fl : Flags) (st : BState) (o : BOut)
    (hb : build regexOk limit true false (.filter (.axis a q) f.ast) fl st = .ok o) :
    ∃ qi, ((q = .none ∧ qi = .context) ∨
        (q ≠ .none ∧ ∃ st' o1, build regexOk limit true false q {} st' = .ok o1 ∧ qi = o1.q)) ∧
      PathShape o.q ∧
      ∀ c : Spec.Ctx, validRef d c.node = true → PosStepOK F d cfg a f o.q qi q c := by
  obtain ⟨st1, io, co, hio, hco, hres⟩ := build_filter_inv' regexOk limit true false _ _ fl st o hb
  obtain ⟨qi, hshape, hfirst, hqi⟩ := build_child_step_inv regexOk limit true false a ha q _ rfl st1 io hio
  have hcq := build_form_inv regexOk limit true false f fl _ co hco
  simp only [BState.positionInput, hfirst] at hcq
  have hnf : ∀ n fi fp ar, co.q ≠ .func n (.filter fi fp) ar := by
    rw [hcq]
    apply form_plan_not_filterfunc
    intro x y e
    rcases hshape with h | h <;> rw [h] at e <;> cases e
  have hin : ∀ c : Spec.Ctx, validRef d c.node = true → PathOK (F := F) d cfg qi q c :=
    fun c hc => input_pathOK (F := F) wf cfg hns hinj regexOk limit q hq qi hqi c hc
  refine ⟨qi, hqi, ?_, fun c hc => ?_⟩
  · rcases hres hnf with h | ⟨_, parent, _, h⟩ <;> rw [h] <;> trivial
  · rcases hshape with hio' | hio'
    · have hfi : planTest d cfg io.q = nodeTestM d cfg a := by rw [hio']; rfl
      rcases hres hnf with h | ⟨_, parent, hpar, h⟩
      · rw [h, hcq]
        have := posStep_filter (F := F) wf cfg hns a ha f io.q hfi hag qi q c (hin c hc)
        rw [hio'] at this ⊢
        exact this
      · rw [hio'] at hpar
        cases hpar
        rw [h, hcq]
        have := posStep_merge (F := F) wf cfg hns a ha f io.q hfi hag qi q c (hin c hc)
        rw [hio'] at this ⊢
        exact this
    · have hfi : planTest d cfg io.q = nodeTestM d cfg a := by rw [hio']; rfl
      rcases hres hnf with h | ⟨_, parent, hpar, h⟩
      · rw [h, hcq]
        have := posStep_filter_cached (F := F) wf cfg hns a ha f io.q hfi hag qi q c (hin c hc)
        rw [hio'] at this ⊢
        exact this
      · rw [hio'] at hpar
        cases hpar
        rw [h, hcq]
        have := posStep_merge_cached (F := F) wf cfg hns a ha f io.q hfi hag qi q c (hin c hc)
        rw [hio'] at this ⊢
        exact this

theorem build_posStep (a : AxisInfo) (ha : a.axis = "child") (q : Ast) (hq : Frag true q)
    (f : PosForm) (hag : f.Agree F d.length) (fl : Flags) (st : BState) (o : BOut)
    (hb : build regexOk limit true false (.filter (.axis a q) f.ast) fl st = .ok o) :
    ∃ qi, PathShape o.q ∧
      ∀ c : Spec.Ctx, validRef d c.node = true → PosStepOK F d cfg a f o.q qi q c := by
  obtain ⟨qi, _, h1, h2⟩ :=
    build_posStep' (F := F) wf cfg hns hinj regexOk limit a ha q hq f hag fl st o hb
  exact ⟨qi, h1, h2⟩

/-- over a flat input path (or the context node) the built input plan is a flat plan -/
theorem build_posStep_flat (a : AxisInfo) (ha : a.axis = "child") (q : Ast)
    (hq : q = .none ∨ ArithSem.FlatPath q)
    (f : PosForm) (hag : f.Agree F d.length) (fl : Flags) (st : BState) (o : BOut)
    (hb : build regexOk limit true false (.filter (.axis a q) f.ast) fl st = .ok o) :
    ∃ qi, FlatPlan qi ∧
      ∀ c : Spec.Ctx, validRef d c.node = true → PosStepOK F d cfg a f o.q qi q c := by
  have hfrag : Frag true q := by
    rcases hq with rfl | hq
    · exact .none
    · exact frag_of_pathPF q hq.pathPF
  obtain ⟨qi, hqi, _, h2⟩ :=
    build_posStep' (F := F) wf cfg hns hinj regexOk limit a ha q hfrag f hag fl st o hb
  refine ⟨qi, ?_, h2⟩
  rcases hqi with ⟨_, rfl⟩ | ⟨hne, st', o1, ho1, rfl⟩
  · exact .context
  · rcases hq with rfl | hq
    · exact absurd rfl hne
    · exact ArithSem.build_flat regexOk limit true false hq _ _ _ ho1

/-- **`child::t[P][b1]…[bk]` through `build`**: the later boolean filters are plain filters on top -/
theorem build_posChain_shape (a : AxisInfo) (ha : a.axis = "child") (q : Ast) (hq : Frag true q)
    (f : PosForm) (hag : f.Agree F d.length) :
    ∀ (bs : List Ast), (∀ b ∈ bs, Frag false b) → ∀ (fl : Flags) (st : BState) (o : BOut),
      build regexOk limit true false (stackAst (.filter (.axis a q) f.ast) bs) fl st = .ok o →
      ∃ qi pl0 ps, o.q = stackPlan pl0 ps ∧ PathShape pl0 ∧ PredsOK F d cfg ps bs ∧
        ∀ c : Spec.Ctx, validRef d c.node = true → PosStepOK F d cfg a f pl0 qi q c := by
  intro bs
  induction bs with
  | nil =>
    intro _ fl st o hb
    obtain ⟨qi, hs, hok⟩ := build_posStep (F := F) wf cfg hns hinj regexOk limit a ha q hq f hag fl st o hb
    exact ⟨qi, o.q, [], rfl, hs, trivial, hok⟩
  | cons b t ih =>
    intro hbs fl st o hb
    obtain ⟨st1, io, co, hio, hco, hres⟩ :=
      build_filter_inv regexOk limit true false _ b fl st o hb
    obtain ⟨qi, pl0, ps, hq0, hs, hps, hok⟩ :=
      ih (fun b' hb' => hbs b' (List.mem_cons_of_mem _ hb')) _ st1 io hio
    obtain ⟨hcop, hcor⟩ :=
      (build_frag (F := F) wf cfg hns hinj regexOk limit false b (hbs b List.mem_cons_self)).2 rfl
        fl _ co hco
    obtain ⟨hshape, _⟩ := hres hcop.2
    refine ⟨qi, pl0, co.q :: ps, ?_, hs, ⟨fun x hx pos size => hcor ⟨x, pos, size⟩ hx, hps⟩, hok⟩
    rcases hshape with h | ⟨hax, _⟩
    · rw [h, hq0]; rfl
    · rw [stackAst_not_axis] at hax; cases hax

/-- **`child::t[P][b1]…[bk]` through `build`, the statement** -/
theorem build_posChain (a : AxisInfo) (ha : a.axis = "child") (q : Ast) (hq : Frag true q)
    (f : PosForm) (hag : f.Agree F d.length) (bs : List Ast) (hbs : ∀ b ∈ bs, Frag false b)
    (fl : Flags) (st : BState) (o : BOut)
    (hb : build regexOk limit true false (stackAst (.filter (.axis a q) f.ast) bs) fl st = .ok o) :
    ∃ qi, ∀ c : Spec.Ctx, validRef d c.node = true → PosChainOK F d cfg a f bs o.q qi q c := by
  obtain ⟨qi, pl0, ps, hq0, hs, hps, hok⟩ :=
    build_posChain_shape (F := F) wf cfg hns hinj regexOk limit a ha q hq f hag bs hbs fl st o hb
  refine ⟨qi, fun c hc => ?_⟩
  rw [hq0]
  exact posChain_of_step (hok c hc) hs ps bs hps

end Sem

end XPathV.PosSem
