import XPathV.Lemmas.PosSem.Position
import XPathV.Lemmas.PredSem
/-!
# C03 helpers — the positional predicate forms: parse tree, plan, value on both sides

`PosForm` enumerates the forms of the property; `PosForm.ast` is the parse tree the parser
produces, `PosForm.plan fi` the plan the builder makes of it (with `fi` the builder's
`positionInput`: inside a predicate the step being filtered, `predInput`).
`specKeep` / `modelKeep` are the verdicts the oracle (`predTruth`) / the engine (`predDecision`)
reach from position and size; `natKeep` is their reading on natural numbers, available under the
side conditions `LitIsNat` / `NatEmb` on the abstract number algebra.
-/
namespace XPathV.PosSem
open XPathV XPathV.Model XPathV.PathSem XPathV.PredSem NumAlg

variable {F : Type} [NumAlg F]

/-! ## the forms -/

def opStr : Spec.CmpOp → String
  | .eq => "=" | .ne => "!=" | .lt => "<" | .le => "<=" | .gt => ">" | .ge => ">="

theorem ofString_opStr (cop : Spec.CmpOp) : Spec.CmpOp.ofString (opStr cop) = some cop := by
  cases cop <;> rfl

theorem opStr_mem (cop : Spec.CmpOp) : opStr cop ∈ cmpOps := by
  cases cop <;> simp [opStr, cmpOps]

/-- the positional predicate forms of the property -/
inductive PosForm
  /-- `[n]` -/
  | lit (lex : String)
  /-- `[position() op n]` -/
  | posCmp (cop : Spec.CmpOp) (pfx lex : String)
  /-- `[position() = last()]` -/
  | posEqLast (pfx1 pfx2 : String)
  /-- `[last()]` -/
  | last (pfx : String)
  /-- `[last() - n]` -/
  | lastMinus (pfx lex : String)

namespace PosForm

/-- the parse tree -/
def ast : PosForm → Ast
  | lit lex => .num lex
  | posCmp cop pfx lex => .oper (opStr cop) (.call "position" pfx .anil) (.num lex)
  | posEqLast p1 p2 => .oper "=" (.call "position" p1 .anil) (.call "last" p2 .anil)
  | last pfx => .call "last" pfx .anil
  | lastMinus pfx lex => .oper "-" (.call "last" pfx .anil) (.num lex)

/-- the plan the builder makes of the predicate when `positionInput` (`predInput`, else `firstInput`) is `fi` -/
def plan (fi : Plan) : PosForm → Plan
  | lit lex => .constNum lex
  | posCmp cop _ lex => .logical (opStr cop) (.func "position" fi .pnil) (.constNum lex)
  | posEqLast _ _ => .logical "=" (.func "position" fi .pnil) (.func "last" fi .pnil)
  | last _ => .func "last" fi .pnil
  | lastMinus _ lex => .numeric "-" (.func "last" fi .pnil) (.constNum lex)

/-- the oracle's value at context position `pos` of `size` -/
def specVal : PosForm → Nat → Nat → Spec.Value F
  | lit lex, _, _ => .num (Spec.strToNum lex)
  | posCmp cop _ lex, pos, _ => .bool (Spec.cmpNum cop (ofNat pos : F) (Spec.strToNum lex))
  | posEqLast _ _, pos, size => .bool (Spec.cmpNum .eq (ofNat pos : F) (ofNat size))
  | last _, _, size => .num (ofNat size)
  | lastMinus _ lex, _, size => .num (sub (ofNat size) (Spec.strToNum lex))

/-- the engine's value when `position()` yields `pm` and `last()` yields `lm` -/
def modelVal : PosForm → Nat → Nat → MVal F
  | lit lex, _, _ => .num (Spec.strToNum lex)
  | posCmp cop _ lex, pm, _ => .bool (Spec.cmpNum cop (ofNat pm : F) (Spec.strToNum lex))
  | posEqLast _ _, pm, lm => .bool (Spec.cmpNum .eq (ofNat pm : F) (ofNat lm))
  | last _, _, lm => .num (ofNat lm)
  | lastMinus _ lex, _, lm => .num (sub (ofNat lm) (Spec.strToNum lex))

/-- the oracle's verdict (`predTruth`) for the candidate at position `pos` of `size` -/
def specKeep (F : Type) [NumAlg F] (f : PosForm) (pos size : Nat) : Bool :=
  Spec.predTruth (f.specVal (F := F) pos size) pos

/-- the engine's verdict (`predDecision`) for a candidate whose item position is `ipos` -/
def modelKeep (F : Type) [NumAlg F] (f : PosForm) (ipos pm lm : Nat) : Bool :=
  predDecision (f.modelVal (F := F) pm lm) ⟨default, ipos, 0⟩ false

/-- the two verdicts coincide on every position `1 ≤ pos ≤ size ≤ N` -/
def Agree (F : Type) [NumAlg F] (f : PosForm) (N : Nat) : Prop :=
  ∀ pos size, 1 ≤ pos → pos ≤ size → size ≤ N → modelKeep F f pos pos size = specKeep F f pos size

end PosForm

/-- the fragment as a predicate on parse trees -/
inductive PosPred : Ast → Prop
  | lit (lex : String) : PosPred (.num lex)
  | posCmp (cop : Spec.CmpOp) (pfx lex : String) :
      PosPred (.oper (opStr cop) (.call "position" pfx .anil) (.num lex))
  | posEqLast (p1 p2 : String) :
      PosPred (.oper "=" (.call "position" p1 .anil) (.call "last" p2 .anil))
  | last (pfx : String) : PosPred (.call "last" pfx .anil)
  | lastMinus (pfx lex : String) : PosPred (.oper "-" (.call "last" pfx .anil) (.num lex))

theorem posPred_iff (P : Ast) : PosPred P ↔ ∃ f : PosForm, P = f.ast := by
  constructor
  · intro h
    cases h with
    | lit lex => exact ⟨.lit lex, rfl⟩
    | posCmp cop pfx lex => exact ⟨.posCmp cop pfx lex, rfl⟩
    | posEqLast p1 p2 => exact ⟨.posEqLast p1 p2, rfl⟩
    | last pfx => exact ⟨.last pfx, rfl⟩
    | lastMinus pfx lex => exact ⟨.lastMinus pfx lex, rfl⟩
  · rintro ⟨f, rfl⟩
    cases f with
    | lit lex => exact .lit lex
    | posCmp cop pfx lex => exact .posCmp cop pfx lex
    | posEqLast p1 p2 => exact .posEqLast p1 p2
    | last pfx => exact .last pfx
    | lastMinus pfx lex => exact .lastMinus pfx lex

/-! ## side conditions on the abstract numbers -/

/-- comparison of natural numbers by a comparison operator -/
def natCmp : Spec.CmpOp → Nat → Nat → Bool
  | .eq, a, b => a == b
  | .ne, a, b => a != b
  | .lt, a, b => decide (a < b)
  | .le, a, b => decide (a ≤ b)
  | .gt, a, b => decide (b < a)
  | .ge, a, b => decide (b ≤ a)

/-- the natural numbers up to `N` are embedded faithfully (true of IEEE doubles for `N < 2^53`) -/
structure NatEmb (F : Type) [NumAlg F] (N : Nat) : Prop where
  toInt_ofNat : ∀ m, m ≤ N → toInt (ofNat m : F) = some (m : Int)
  eq_ofNat : ∀ a b, a ≤ N → b ≤ N → (NumAlg.eq (ofNat a : F) (ofNat b) = true ↔ a = b)

/-- the number literal `lex` denotes the natural number `n`, as far as positions up to `N` can tell:
Go's `int(x)` yields `n`; IEEE comparison with the positions `1..N` is comparison with `n`;
`s - x` for a size `s ≤ N` is the integer `s - n` -/
structure LitIsNat (F : Type) [NumAlg F] (lex : String) (n N : Nat) : Prop where
  toInt_lit : toInt (Spec.strToNum lex : F) = some (n : Int)
  lit_eq : ∀ m, 1 ≤ m → m ≤ N → (NumAlg.eq (Spec.strToNum lex : F) (ofNat m) = true ↔ m = n)
  cmp : ∀ cop m, 1 ≤ m → m ≤ N →
    Spec.cmpNum cop (ofNat m : F) (Spec.strToNum lex) = natCmp cop m n
  sub_toInt : ∀ s, s ≤ N → toInt (sub (ofNat s : F) (Spec.strToNum lex)) = some ((s : Int) - n)
  sub_eq : ∀ s m, s ≤ N → 1 ≤ m → m ≤ N →
    (NumAlg.eq (sub (ofNat s : F) (Spec.strToNum lex)) (ofNat m) = true ↔ (s : Int) - n = m)

/-- the verdict on natural numbers: `n` is the value of the literal (ignored if there is none) -/
def PosForm.natKeep : PosForm → Nat → Nat → Nat → Bool
  | .lit _, n, pos, _ => pos == n
  | .posCmp cop _ _, n, pos, _ => natCmp cop pos n
  | .posEqLast _ _, _, pos, size => pos == size
  | .last _, _, pos, size => pos == size
  | .lastMinus _ _, n, pos, size => pos + n == size

/-- what a form needs from the abstract numbers, for positions up to `N`: the forms with a literal
need `LitIsNat` of that literal, the forms with `last()` alone the embedding of the naturals -/
def PosForm.NumOK (F : Type) [NumAlg F] (f : PosForm) (n N : Nat) : Prop :=
  match f with
  | .lit lex | .posCmp _ _ lex | .lastMinus _ lex => LitIsNat F lex n N
  | .posEqLast _ _ | .last _ => NatEmb F N

theorem beq_int_ofNat (a b : Nat) : ((some (a : Int)) == some (b : Int)) = (a == b) := by
  rw [Bool.eq_iff_iff]
  simp only [beq_iff_eq, Option.some.injEq]
  exact Int.ofNat_inj

/-- under the side conditions the engine's verdict is the verdict on natural numbers -/
theorem modelKeep_nat (f : PosForm) (n N : Nat) (h : f.NumOK F n N) (pos size : Nat)
    (h1 : 1 ≤ pos) (h2 : pos ≤ size) (h3 : size ≤ N) :
    PosForm.modelKeep F f pos pos size = f.natKeep n pos size := by
  cases f with
  | lit lex =>
    have hl : LitIsNat F lex n N := h
    simp only [PosForm.modelKeep, PosForm.modelVal, predDecision, hl.toInt_lit, PosForm.natKeep]
    rw [beq_int_ofNat, Bool.eq_iff_iff]
    simp only [beq_iff_eq]
    exact eq_comm
  | posCmp cop pfx lex =>
    have hl : LitIsNat F lex n N := h
    simp only [PosForm.modelKeep, PosForm.modelVal, predDecision, PosForm.natKeep]
    exact hl.cmp cop pos h1 (by omega)
  | posEqLast p1 p2 =>
    have hemb : NatEmb F N := h
    simp only [PosForm.modelKeep, PosForm.modelVal, predDecision, PosForm.natKeep, Spec.cmpNum]
    rw [Bool.eq_iff_iff, hemb.eq_ofNat pos size (by omega) h3]
    simp only [beq_iff_eq]
  | last pfx =>
    have hemb : NatEmb F N := h
    simp only [PosForm.modelKeep, PosForm.modelVal, predDecision, PosForm.natKeep,
      hemb.toInt_ofNat size h3]
    rw [beq_int_ofNat, Bool.eq_iff_iff]
    simp only [beq_iff_eq]
    exact eq_comm
  | lastMinus pfx lex =>
    have hl : LitIsNat F lex n N := h
    simp only [PosForm.modelKeep, PosForm.modelVal, predDecision, PosForm.natKeep,
      hl.sub_toInt size h3]
    rw [Bool.eq_iff_iff]
    simp only [beq_iff_eq, Option.some.injEq]
    omega

/-- under the side conditions the oracle's verdict is the verdict on natural numbers -/
theorem specKeep_nat (f : PosForm) (n N : Nat) (h : f.NumOK F n N) (pos size : Nat)
    (h1 : 1 ≤ pos) (h2 : pos ≤ size) (h3 : size ≤ N) :
    PosForm.specKeep F f pos size = f.natKeep n pos size := by
  cases f with
  | lit lex =>
    have hl : LitIsNat F lex n N := h
    simp only [PosForm.specKeep, PosForm.specVal, Spec.predTruth, PosForm.natKeep]
    rw [Bool.eq_iff_iff, hl.lit_eq pos h1 (by omega)]
    simp only [beq_iff_eq]
  | posCmp cop pfx lex =>
    have hl : LitIsNat F lex n N := h
    simp only [PosForm.specKeep, PosForm.specVal, Spec.predTruth, Spec.toBool, PosForm.natKeep]
    exact hl.cmp cop pos h1 (by omega)
  | posEqLast p1 p2 =>
    have hemb : NatEmb F N := h
    simp only [PosForm.specKeep, PosForm.specVal, Spec.predTruth, Spec.toBool, PosForm.natKeep,
      Spec.cmpNum]
    rw [Bool.eq_iff_iff, hemb.eq_ofNat pos size (by omega) h3]
    simp only [beq_iff_eq]
  | last pfx =>
    have hemb : NatEmb F N := h
    simp only [PosForm.specKeep, PosForm.specVal, Spec.predTruth, PosForm.natKeep]
    rw [Bool.eq_iff_iff, hemb.eq_ofNat size pos h3 (by omega)]
    simp only [beq_iff_eq]
    exact eq_comm
  | lastMinus pfx lex =>
    have hl : LitIsNat F lex n N := h
    simp only [PosForm.specKeep, PosForm.specVal, Spec.predTruth, PosForm.natKeep]
    rw [Bool.eq_iff_iff, hl.sub_eq size pos h3 h1 (by omega)]
    simp only [beq_iff_eq]
    omega

/-- the side conditions make the two verdicts agree; the forms `position() op n` and
`position() = last()` agree unconditionally (both sides compute the same comparison) -/
theorem agree_of_numOK (f : PosForm) (n N : Nat) (h : f.NumOK F n N) : f.Agree F N := by
  intro pos size h1 h2 h3
  rw [modelKeep_nat f n N h pos size h1 h2 h3, specKeep_nat f n N h pos size h1 h2 h3]

theorem agree_posCmp (cop : Spec.CmpOp) (pfx lex : String) (N : Nat) :
    (PosForm.posCmp cop pfx lex).Agree F N := fun _ _ _ _ _ => rfl

theorem agree_posEqLast (p1 p2 : String) (N : Nat) : (PosForm.posEqLast p1 p2).Agree F N :=
  fun _ _ _ _ _ => rfl

/-! ## the engine's value of a form at a candidate -/

section Model
variable (d : Doc) (cfg : ECfg)

theorem evalP_position (fi : Plan) (x : Ref) :
    evalP (F := F) d cfg (.func "position" fi .pnil) x = .ok (.num (ofNat (positionM d cfg fi x))) := by
  simp [evalP, argVals, callFn, bind, Except.bind, pure, Except.pure]

theorem evalP_last (fi : Plan) (x : Ref) :
    evalP (F := F) d cfg (.func "last" fi .pnil) x = .ok (.num (ofNat (lastM d cfg fi x))) := by
  simp [evalP, argVals, callFn, bind, Except.bind, pure, Except.pure]

theorem cmpM_num_num (cop : Spec.CmpOp) (a b : F) :
    cmpM d cop (.num a) (.num b) = .ok (Spec.cmpNum cop a b) := by
  cases cop <;> simp [cmpM, xtypeOf, bind, Except.bind, pure, Except.pure]

/-- the value of the predicate plan at a candidate, in terms of `positionM` and `lastM` -/
theorem evalP_form (f : PosForm) (fi : Plan) (x : Ref) :
    evalP (F := F) d cfg (f.plan fi) x =
      .ok (f.modelVal (positionM d cfg fi x) (lastM d cfg fi x)) := by
  cases f with
  | lit lex => simp only [PosForm.plan, PosForm.modelVal, evalP]
  | posCmp cop pfx lex =>
    exact evalP_logical d cfg _ cop (ofString_opStr cop) _ _ x _ _ _ (evalP_position d cfg fi x)
      (evalP_constNum d cfg lex x) (cmpM_num_num d cop _ _)
  | posEqLast p1 p2 =>
    exact evalP_logical d cfg "=" .eq rfl _ _ x _ _ _ (evalP_position d cfg fi x)
      (evalP_last d cfg fi x) (cmpM_num_num d .eq _ _)
  | last pfx => exact evalP_last d cfg fi x
  | lastMinus pfx lex =>
    simp only [PosForm.plan, PosForm.modelVal]
    rw [evalP]
    simp only [evalP_last, evalP_constNum, bind, Except.bind, asNumberM]

/-- the value is a boolean or a number: the filter decides without a second `Select` -/
theorem modelVal_shape (f : PosForm) (pm lm : Nat) :
    (∃ b, f.modelVal (F := F) pm lm = .bool b) ∨ (∃ x, f.modelVal (F := F) pm lm = .num x) := by
  cases f <;> simp [PosForm.modelVal]

end Model

/-! ## the oracle's value of a form at a context -/

section Spec
variable (d : Doc)

theorem eval_position (pfx : String) (c : Spec.Ctx) :
    Spec.eval (F := F) d (.call "position" pfx .anil) c = .ok (.val (.num (ofNat c.pos)) none) := by
  simp only [Spec.eval, bind, Except.bind, Spec.Res.argList]
  rfl

theorem eval_last (pfx : String) (c : Spec.Ctx) :
    Spec.eval (F := F) d (.call "last" pfx .anil) c = .ok (.val (.num (ofNat c.size)) none) := by
  simp only [Spec.eval, bind, Except.bind, Spec.Res.argList]
  rfl

theorem compare_num_num (cop : Spec.CmpOp) (a b : F) :
    Spec.compare d cop (.num a) (.num b) = Spec.cmpNum cop a b := by
  cases cop <;> simp [Spec.compare, Spec.cmpAtom, Spec.CmpOp.isRel, Spec.toNum, Spec.cmpNum]

theorem eval_form (f : PosForm) (x : Ref) (pos size : Nat) :
    Spec.eval (F := F) d f.ast ⟨x, pos, size⟩ = .ok (.val (f.specVal pos size) none) := by
  cases f with
  | lit lex => simp only [PosForm.ast, PosForm.specVal, Spec.eval]
  | posCmp cop pfx lex =>
    simp only [PosForm.ast, PosForm.specVal]
    rw [eval_cmp d _ cop (ofString_opStr cop) _ _ _ _ _ (eval_position d pfx _) (eval_num d lex _)]
    simp only [Spec.Res.value, compare_num_num]
  | posEqLast p1 p2 =>
    simp only [PosForm.ast, PosForm.specVal]
    rw [eval_cmp d "=" .eq rfl _ _ _ _ _ (eval_position d p1 _) (eval_last d p2 _)]
    simp only [Spec.Res.value, compare_num_num]
  | last pfx => exact eval_last d pfx _
  | lastMinus pfx lex =>
    simp only [PosForm.ast, PosForm.specVal]
    rw [Spec.eval]
    simp [eval_last, eval_num, Spec.arith, Spec.toNum, Spec.CmpOp.ofString, Spec.Res.value, bind,
      Except.bind]

end Spec

end XPathV.PosSem
