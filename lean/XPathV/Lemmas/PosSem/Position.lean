import XPathV.Lemmas.FlatOrder
import XPathV.Lemmas.PathSem
/-!
# C03 helpers — `position()` / `last()` of the engine are the XPath proximity position / context size

`positionM` walks the preceding siblings of the candidate and counts those passing the node test of
the builder's `firstInput`; `lastM` moves to the first sibling and counts all siblings passing it.
For a candidate of a child step these are 1 + the number of earlier candidates of the same parent,
and the number of candidates of that parent.
-/
namespace XPathV.PosSem
open XPathV XPathV.Model XPathV.PathSem

/-! ## document order on sibling lists -/

theorem allNodes_sorted (d : Doc) : (allNodes d).Pairwise (fun a b => Ref.lt a b = true) := by
  unfold allNodes
  rw [List.pairwise_map]
  exact List.Pairwise.imp (fun {a b} h => (lt_node a b).2 h) List.pairwise_lt_range

theorem children_lt_sorted (d : Doc) (p : Ref) :
    (Spec.children d p).Pairwise (fun a b => Ref.lt a b = true) :=
  List.Pairwise.filter _ (allNodes_sorted d)

theorem childCands_sorted (d : Doc) (cfg : ECfg) (a : AxisInfo) (p : Ref) :
    (childCands d cfg a p).Pairwise (fun a b => Ref.lt a b = true) :=
  List.Pairwise.filter _ (children_lt_sorted d p)

theorem ref_lt_asymm (a b : Ref) (h : Ref.lt a b = true) : Ref.lt b a = false := by
  cases h' : Ref.lt b a with
  | false => rfl
  | true => rw [ref_lt_iff] at h h'; omega

/-- in a strictly increasing list, the elements smaller than a member are those before it -/
theorem sorted_filter_lt (A B : List Ref) (x : Ref)
    (h : (A ++ x :: B).Pairwise (fun a b => Ref.lt a b = true)) :
    (A ++ x :: B).filter (fun y => Ref.lt y x) = A := by
  rw [List.pairwise_append] at h
  obtain ⟨_, hxB, hAx⟩ := h
  rw [List.pairwise_cons] at hxB
  rw [List.filter_append]
  have h1 : A.filter (fun y => Ref.lt y x) = A := by
    rw [List.filter_eq_self]
    intro y hy
    exact hAx y hy x List.mem_cons_self
  have h2 : (x :: B).filter (fun y => Ref.lt y x) = [] := by
    rw [List.filter_eq_nil_iff]
    intro y hy
    rcases List.mem_cons.1 hy with e | e
    · rw [e, ref_lt_irrefl]; simp
    · rw [ref_lt_asymm x y (hxB.1 y e)]; simp
  rw [h1, h2, List.append_nil]

theorem child_is_node (d : Doc) (p x : Ref) (hx : x ∈ Spec.children d p) :
    ∃ i, i < d.length ∧ x = .node i ∧ Spec.parent? d x = some p := by
  unfold Spec.children at hx
  obtain ⟨hx1, hx2⟩ := List.mem_filter.1 hx
  obtain ⟨i, hi, rfl⟩ := (mem_allNodes d x).1 hx1
  exact ⟨i, hi, rfl, beq_iff_eq.1 hx2⟩

/-- the preceding siblings of a child of `p` are the children of `p` before it -/
theorem precedingSiblings_child (d : Doc) (p : Ref) (i : Nat)
    (hp : Spec.parent? d (.node i) = some p) :
    Spec.precedingSiblings d (.node i) = (Spec.children d p).filter (fun y => Ref.lt y (.node i)) := by
  unfold Spec.precedingSiblings Spec.children
  simp only [Ref.isAttr, Bool.false_eq_true, ↓reduceIte, hp, Option.isSome_some, Bool.and_true,
    List.filter_filter]

/-! ## `position()` -/

/-- **`position()` is the proximity position**: for a candidate `x` of the step `child::a` below `p`
and any plan `fi` whose test is the step's node test, the engine's `positionM` is 1 + the number of
candidates before `x` -/
theorem positionM_split {d : Doc} (wf : WF d) (cfg : ECfg) (a : AxisInfo) (fi : Plan)
    (hfi : planTest d cfg fi = nodeTestM d cfg a) (p x : Ref) (A B : List Ref)
    (h : childCands d cfg a p = A ++ x :: B) :
    positionM d cfg fi x = A.length + 1 := by
  have hxc : x ∈ childCands d cfg a p := by rw [h]; simp
  obtain ⟨i, hi, rfl, hpar⟩ := child_is_node d p x (List.mem_filter.1 hxc).1
  unfold positionM
  rw [hfi]
  have e1 : ((prevSibsM d (.node i)).filter (nodeTestM d cfg a)).length =
      ((Spec.precedingSiblings d (.node i)).filter (nodeTestM d cfg a)).length := by
    rw [← prevSibs_spec wf i hi, List.filter_reverse, List.length_reverse]
  rw [e1, precedingSiblings_child d p i hpar]
  have e2 : ((Spec.children d p).filter (fun y => Ref.lt y (.node i))).filter (nodeTestM d cfg a) =
      (childCands d cfg a p).filter (fun y => Ref.lt y (.node i)) := by
    unfold childCands
    rw [List.filter_filter, List.filter_filter]
    congr 1; funext y
    exact Bool.and_comm _ _
  rw [e2, h, sorted_filter_lt A B (.node i) (h ▸ childCands_sorted d cfg a p)]
  omega

/-- index form: the `k`-th candidate (0-based) has `position() = k + 1` -/
theorem positionM_getElem {d : Doc} (wf : WF d) (cfg : ECfg) (a : AxisInfo) (fi : Plan)
    (hfi : planTest d cfg fi = nodeTestM d cfg a) (p x : Ref) (k : Nat)
    (h : (childCands d cfg a p)[k]? = some x) :
    positionM d cfg fi x = k + 1 := by
  obtain ⟨hk, hx⟩ := List.getElem?_eq_some_iff.1 h
  have hsplit : childCands d cfg a p =
      (childCands d cfg a p).take k ++ x :: (childCands d cfg a p).drop (k+1) := by
    rw [← hx, ← List.drop_eq_getElem_cons hk, List.take_append_drop]
  rw [positionM_split wf cfg a fi hfi p x _ _ hsplit, List.length_take]
  omega

/-! ## `last()` -/

/-- a node without previous sibling is the first child of its parent -/
theorem first_child_of_prev_none {d : Doc} (wf : WF d) (c q : Nat) (hc : c < d.length)
    (hp : parentFrom d (dep d c) c = some q) (hn : prevFrom d (dep d c) c = none) : c = q + 1 := by
  obtain ⟨hqc, hqd, hqb⟩ := parentFrom_some d _ _ _ hp
  have hdep := parent_depth wf c q hc hp
  rcases prevFrom_none d _ _ hn with h | ⟨q', hq', hqd', hqb'⟩
  · have := h q hqc; omega
  · have hqq : q' = q := by
      rcases Nat.lt_trichotomy q' q with h | h | h
      · have := hqb' q h hqc; omega
      · exact h
      · have := hqb q' h hq'; omega
    subst hqq
    rcases Nat.lt_or_ge (q' + 1) c with h | h
    · have h1 := hqb' (q'+1) (by omega) h
      have h2 := (wf.step q' (by omega)).2
      omega
    · omega

/-- the previous sibling has the same parent -/
theorem prev_same_parent {d : Doc} (c q p' : Nat)
    (hp : parentFrom d (dep d c) c = some q) (hprev : prevFrom d (dep d c) c = some p') :
    parentFrom d (dep d p') p' = some q := by
  obtain ⟨hqc, hqd, hqb⟩ := parentFrom_some d _ _ _ hp
  obtain ⟨hpc, hpd, hpb⟩ := prevFrom_some d _ _ _ hprev
  have hqp : q < p' := by
    rcases Nat.lt_trichotomy q p' with h | h | h
    · exact h
    · subst h; omega
    · have := hpb q h hqc; omega
  apply parentFrom_eq d _ p' q hqp (by omega)
  intro k h1 h2
  have := hqb k h1 (by omega)
  omega

theorem firstFrom_child {d : Doc} (wf : WF d) : ∀ (f c q : Nat), c ≤ f → c < d.length →
    parentFrom d (dep d c) c = some q → Nav.firstFrom d f (.node c) = .node (q + 1) := by
  intro f
  induction f with
  | zero =>
    intro c q hcf _ hp
    have : c = 0 := by omega
    subst this
    rw [parentFrom_zero] at hp; cases hp
  | succ f ih =>
    intro c q hcf hc hp
    simp only [Nav.firstFrom, movePrev_node]
    cases hprev : prevFrom d (dep d c) c with
    | none =>
      simp only [Option.map_none]
      rw [first_child_of_prev_none wf c q hc hp hprev]
    | some p' =>
      simp only [Option.map_some]
      have hlt := (prevFrom_some d _ _ _ hprev).1
      exact ih p' q (by omega) (by omega) (prev_same_parent c q p' hp hprev)

/-- `MoveToFirst` (or staying put when it fails) lands on the first child of the parent -/
theorem moveFirst_child {d : Doc} (wf : WF d) (c q : Nat) (hc : c < d.length)
    (hp : parentFrom d (dep d c) c = some q) :
    (Nav.moveFirst d (.node c)).getD (.node c) = .node (q + 1) := by
  unfold Nav.moveFirst
  rw [movePrev_node]
  cases hprev : prevFrom d (dep d c) c with
  | none =>
    simp only [Option.map_none, Option.getD_none]
    rw [first_child_of_prev_none wf c q hc hp hprev]
  | some p' =>
    simp only [Option.map_some, Option.getD_some]
    have hlt := (prevFrom_some d _ _ _ hprev).1
    exact firstFrom_child wf d.length p' q (by omega) (by omega) (prev_same_parent c q p' hp hprev)

/-- the sibling chain from the first child, with any sufficient fuel, is the child list -/
theorem sibs_from_first {d : Doc} (wf : WF d) (c q : Nat) (hc : c < d.length)
    (hp : parentFrom d (dep d c) c = some q) (f : Nat) (hf : d.length ≤ f) :
    sibsFrom d f (.node (q + 1)) = Spec.children d (.node q) := by
  obtain ⟨hqc, hce, _⟩ := parent_endOf wf q c hc hp
  have hq : q < d.length := by omega
  have hcm : c ∈ childIdx d q :=
    (childIdx_mem wf q hq c).2 ⟨hqc, hce, (parent_depth wf c q hc hp).symm⟩
  rw [← children_spec wf q hq, childrenM_node, sibsFrom_node]
  congr 1
  have hle := endOf_le d q hq
  by_cases hcond : q + 1 < d.length ∧ dep d (q+1) = dep d q + 1
  · obtain ⟨hc1, hc2⟩ := hcond
    have hlt : q + 1 < endOf d q := by
      have := endOf_gt d q
      omega
    apply sorted_ext _ _ (sibsIdx_pairwise_lt d _ _) (children_sorted wf q hq).2.1
    intro j
    rw [childIdx_mem wf q hq j,
      sibsIdx_mem d (endOf d q) hle f (q+1) hlt (by omega)
        (fun k h1 h2 => by have := endOf_inside d q k (by omega) h2; omega)
        (by
          rcases Nat.lt_or_ge (endOf d q) d.length with h | h
          · right; have := endOf_at d q h; omega
          · left; omega) j, hc2]
    constructor
    · intro ⟨a, b, c⟩; exact ⟨by omega, b, c⟩
    · intro ⟨a, b, c⟩; exact ⟨by omega, b, c⟩
  · exfalso
    unfold childIdx at hcm
    rw [if_neg hcond] at hcm
    cases hcm

/-- **`last()` is the context size**: for a candidate `x` of the step `child::a` below `p`, the
engine's `lastM` is the number of candidates of `p` -/
theorem lastM_child {d : Doc} (wf : WF d) (cfg : ECfg) (a : AxisInfo) (fi : Plan)
    (hfi : planTest d cfg fi = nodeTestM d cfg a) (p x : Ref)
    (hx : x ∈ childCands d cfg a p) :
    lastM d cfg fi x = (childCands d cfg a p).length := by
  obtain ⟨i, hi, rfl, hpar⟩ := child_is_node d p x (List.mem_filter.1 hx).1
  obtain ⟨q, rfl⟩ := parent?_is_node d _ _ hpar
  have hp : parentFrom d (dep d i) i = some q := (parent?_node_eq d i q).1 hpar
  unfold lastM
  simp only [moveFirst_child wf i q hi hp, sibs_from_first wf i q hi hp (d.length + 1) (by omega), hfi]
  rfl

/-! ## The statement of the task (item 1) -/

/-- **`position()` / `last()` on a child step are the XPath proximity position / context size**:
for a candidate `x` of the step `child::a` from parent `p`, with `fi` a plan whose test is the step's
node test (the child plan the builder records as `firstInput`), `positionM` is 1 + the number of
candidates before `x` among the children of `p` — the index the oracle's `filterPos` gives `x` in
`childCands d cfg a p` — and `lastM` is the number of candidates -/
theorem position_is_proximity {d : Doc} (wf : WF d) (cfg : ECfg) (a : AxisInfo) (fi : Plan)
    (hfi : planTest d cfg fi = nodeTestM d cfg a) (p x : Ref) (k : Nat)
    (h : (childCands d cfg a p)[k]? = some x) :
    positionM d cfg fi x = k + 1 ∧
    positionM d cfg fi x = 1 + (((childCands d cfg a p).take k).length) ∧
    lastM d cfg fi x = (childCands d cfg a p).length := by
  have hk := (List.getElem?_eq_some_iff.1 h).1
  refine ⟨positionM_getElem wf cfg a fi hfi p x k h, ?_, lastM_child wf cfg a fi hfi p x
    (List.mem_of_getElem? h)⟩
  rw [positionM_getElem wf cfg a fi hfi p x k h, List.length_take]
  omega

/-- the builder's `firstInput` for a child step is the child plan itself: its test is the node test -/
theorem planTest_child (d : Doc) (cfg : ECfg) (a : AxisInfo) (inp : Plan) :
    planTest d cfg (.child a inp) = nodeTestM d cfg a := rfl

theorem planTest_cachedChild (d : Doc) (cfg : ECfg) (a : AxisInfo) (inp : Plan) :
    planTest d cfg (.cachedChild a inp) = nodeTestM d cfg a := rfl

theorem childCands_length_le (d : Doc) (cfg : ECfg) (a : AxisInfo) (p : Ref) :
    (childCands d cfg a p).length ≤ d.length := by
  unfold childCands Spec.children
  refine Nat.le_trans (List.length_filter_le _ _) (Nat.le_trans (List.length_filter_le _ _) ?_)
  simp [allNodes]

end XPathV.PosSem
