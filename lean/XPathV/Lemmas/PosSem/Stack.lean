import XPathV.Lemmas.PosSem.Step
/-!
# C03 — boolean predicates after the positional one: `child::t[P][b1]…[bk]`

The later filters do not look at positions (`PredSem.filter_sem`): they keep, of what the
positional step yields, the nodes on which every `bi` holds.
-/
namespace XPathV.PosSem
open XPathV XPathV.Model XPathV.PathSem XPathV.PredSem NumAlg

variable {F : Type} [NumAlg F]

/-- `s[bk]…[b1]` for the list `[b1', …]` given **outermost first**: `stackAst s [b2, b1] = s[b1][b2]` -/
def stackAst (s : Ast) : List Ast → Ast
  | [] => s
  | b :: t => .filter (stackAst s t) b

/-- the corresponding stack of filters over plan `pl`, predicate plans outermost first -/
def stackPlan (pl : Plan) : List Plan → Plan
  | [] => pl
  | p :: t => .filter (stackPlan pl t) p

/-- all the predicates hold at `x` (oracle truth) -/
def allHold (F : Type) [NumAlg F] (d : Doc) (bs : List Ast) (x : Ref) : Bool :=
  bs.all (fun b => holds (F := F) d b x)

/-- predicate plans and predicates agree pairwise, on every valid node, whatever position/size -/
def PredsOK (F : Type) [NumAlg F] (d : Doc) (cfg : ECfg) : List Plan → List Ast → Prop
  | [], [] => True
  | p :: ps, b :: bs =>
    (∀ x, validRef d x = true → ∀ pos size, PredOK (F := F) d cfg p b ⟨x, pos, size⟩) ∧
      PredsOK F d cfg ps bs
  | _, _ => False

theorem predsOK_naive {d : Doc} (wf : WF d) (cfg : ECfg) (hns : cfg.nsIface = true)
    (hinj : HashInj d cfg) : ∀ (bs : List Ast), (∀ b ∈ bs, Frag false b) →
      PredsOK F d cfg (bs.map predPlan) bs
  | [], _ => trivial
  | b :: t, h =>
    ⟨fun x hx pos size =>
      (frag_sem (F := F) wf cfg hns hinj false b (h b List.mem_cons_self) ⟨x, pos, size⟩ hx).2 rfl,
     predsOK_naive wf cfg hns hinj t (fun b' hb' => h b' (List.mem_cons_of_mem _ hb'))⟩

/-- **stacked boolean predicates**: on top of an agreeing path (`sel`/`eval` with the same node
set), the stack keeps exactly the nodes on which all the predicates hold — the model as the
sub-sequence of its input sequence -/
theorem stack_sem (d : Doc) (cfg : ECfg) (pl : Plan) (s : Ast) (c : Spec.Ctx)
    (out0 : List Item) (ns0 : List Ref) :
    ∀ (ps : List Plan) (bs : List Ast) (g0 : Option (List (List Ref))),
    PredsOK F d cfg ps bs →
    sel (F := F) d cfg pl c.node = .ok out0 →
    Spec.eval (F := F) d s c = .ok (.val (.nodes ns0) g0) →
    (∀ x, x ∈ refs out0 ↔ x ∈ ns0) → (∀ x ∈ ns0, validRef d x = true) →
    (∀ gs, g0 = some gs → ∀ x, x ∈ gs.flatten ↔ x ∈ ns0) →
    ∃ out ns g, sel (F := F) d cfg (stackPlan pl ps) c.node = .ok out ∧
      Spec.eval (F := F) d (stackAst s bs) c = .ok (.val (.nodes ns) g) ∧
      refs out = (refs out0).filter (allHold F d bs) ∧
      (∀ x, x ∈ ns ↔ x ∈ ns0 ∧ allHold F d bs x = true) ∧
      (∀ x ∈ ns, validRef d x = true) ∧
      (∀ gs, g = some gs → ∀ x, x ∈ gs.flatten ↔ x ∈ ns) := by
  intro ps
  induction ps with
  | nil =>
    intro bs g0 hok hsel hev hm hv hg
    cases bs with
    | cons b t => exact False.elim hok
    | nil =>
      have hnil : allHold F d [] = fun _ => true := by funext x; rfl
      refine ⟨out0, ns0, g0, hsel, hev, ?_, fun x => ?_, hv, hg⟩
      · rw [hnil]; symm; rw [List.filter_eq_self]; intro _ _; rfl
      · rw [hnil]; simp
  | cons p t ih =>
    intro bs g0 hok hsel hev hm hv hg
    cases bs with
    | nil => exact False.elim hok
    | cons b bt =>
      obtain ⟨hp, hrest⟩ := hok
      obtain ⟨out1, ns1, g1, h1, h2, h3, h4, h5, h6⟩ := ih bt g0 hrest hsel hev hm hv hg
      have hm1 : ∀ x, x ∈ refs out1 ↔ x ∈ ns1 := by
        intro x
        rw [h3, List.mem_filter, h4, hm]
      obtain ⟨out, ns, g, k1, k2, k3, k4, k5⟩ :=
        filter_sem (F := F) d cfg (stackPlan pl t) p (stackAst s bt) b c out1 ns1 g1 h1 h2 hm1 h5 h6 hp
      refine ⟨out, ns, g, k1, k2, ?_, fun x => ?_, fun x hx => h5 x ((k4 x).1 hx).1, k5⟩
      · rw [k3, h3, List.filter_filter]
        congr 1
      · rw [k4, h4]
        simp only [allHold, List.all_cons, Bool.and_eq_true]
        constructor
        · rintro ⟨⟨a1, a2⟩, a3⟩; exact ⟨a1, a3, a2⟩
        · rintro ⟨a1, a3, a2⟩; exact ⟨⟨a1, a2⟩, a3⟩

/-- plan `pl` implements `q/child::a[f][b1]…[bk]` (`bs` outermost first) over the input plan `qi`:
it yields, for each node of `qi` in turn, the candidates whose proximity position satisfies `f`
and on which all `bi` hold; the oracle's node set consists of exactly these nodes -/
def PosChainOK (F : Type) [NumAlg F] (d : Doc) (cfg : ECfg) (a : AxisInfo) (f : PosForm)
    (bs : List Ast) (pl qi : Plan) (q : Ast) (c : Spec.Ctx) : Prop :=
  ∃ ins origins g0 out ns g,
    sel (F := F) d cfg qi c.node = .ok ins ∧
    Spec.eval (F := F) d q c = .ok (.val (.nodes origins) g0) ∧
    (∀ x, x ∈ refs ins ↔ x ∈ origins) ∧
    sel (F := F) d cfg pl c.node = .ok out ∧
    Spec.eval (F := F) d (stackAst (.filter (.axis a q) f.ast) bs) c = .ok (.val (.nodes ns) g) ∧
    refs out = ((refs ins).flatMap (keepOf F d cfg a f)).filter (allHold F d bs) ∧
    (∀ x, x ∈ ns ↔ (∃ o ∈ origins, x ∈ keepOf F d cfg a f o) ∧ allHold F d bs x = true) ∧
    (∀ x, x ∈ refs out ↔ x ∈ ns)

theorem posChain_of_step {d : Doc} {cfg : ECfg} {a : AxisInfo} {f : PosForm} {pl qi : Plan}
    {q : Ast} {c : Spec.Ctx} (h : PosStepOK F d cfg a f pl qi q c) (hs : PathShape pl)
    (ps : List Plan) (bs : List Ast) (hok : PredsOK F d cfg ps bs) :
    PosChainOK F d cfg a f bs (stackPlan pl ps) qi q c := by
  obtain ⟨out0, ns0, g1, hsel0, _, hev0, hm0, hv0, hg0⟩ := h.pathOK hs
  obtain ⟨ins, origins, g0, out0', hins, hevq, hm, hout0', hrefs0, hev0'⟩ := h
  rw [hsel0] at hout0'; cases hout0'
  rw [hev0] at hev0'; cases hev0'
  obtain ⟨out, ns, g, k1, k2, k3, k4, _, _⟩ :=
    stack_sem (F := F) d cfg pl _ c out0 _ ps bs _ hok hsel0 hev0 hm0 hv0 hg0
  have hns0 : ∀ x, x ∈ Spec.docOrder d (origins.map (keepOf F d cfg a f)).flatten ↔
      ∃ o ∈ origins, x ∈ keepOf F d cfg a f o := by
    intro x
    rw [mem_docOrder, mem_flatten_map']
    exact ⟨fun hx => hx.1, fun ⟨o, ho, hx⟩ => ⟨⟨o, ho, hx⟩, keepOf_valid d cfg a f o x hx⟩⟩
  refine ⟨ins, origins, g0, out, ns, g, hins, hevq, hm, k1, k2, ?_, fun x => ?_, fun x => ?_⟩
  · rw [k3, hrefs0]
  · rw [k4, hns0]
  · rw [k3, List.mem_filter, k4, hm0]

end XPathV.PosSem
