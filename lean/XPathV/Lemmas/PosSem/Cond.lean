import XPathV.Lemmas.PosSem.Step
/-!
# C03 — a child step whose first predicate looks at the node *and* at its proximity position

`Step` treats predicates that depend on position and size alone (`PosForm`).  Here the predicate is
any condition `cond` whose plan `cq` agrees with the oracle at every candidate of the step — at the
candidate node, with the candidate's proximity position and the number of candidates of the same
parent as context position and size (`CondOK`, i.e. `PredOK` at those contexts).  Such conditions
are closed under `and` / `or` / `not` (`PredSem.predOK_and`, …), contain the boolean predicates of
the C02 fragment (which ignore position and size) and the comparisons of `position()` / `last()`
(which ignore the node): `PosSem/CondBuild.lean`.

* `keepIdxR`, `condTruth`, `keepOfC` — what the oracle keeps of the candidates of one parent;
* `filterPos_cond`, `eval_child_cond` — oracle side;
* `sel_filter_child_cond`, `sel_merge_flat` — model side (plain and merge form);
* `CondStepOK`, `.mem_iff`, `.pathOK` — the statement; `condStep_*` — the four plan shapes.
-/
namespace XPathV.PosSem
open XPathV XPathV.Model XPathV.PathSem XPathV.PredSem NumAlg

variable {F : Type} [NumAlg F]

/-! ## `keepIdxR`: the verdict may depend on the node -/

/-- the members `x` of `l` with `K x (1-based index of x)`, in the order of `l` -/
def keepIdxR (K : Ref → Nat → Bool) (l : List Ref) : List Ref :=
  l.zipIdx.filterMap (fun p => if K p.1 (p.2 + 1) then some p.1 else none)

theorem mem_keepIdxR (K : Ref → Nat → Bool) (l : List Ref) (x : Ref) :
    x ∈ keepIdxR K l ↔ ∃ k, l[k]? = some x ∧ K x (k + 1) = true := by
  unfold keepIdxR
  rw [List.mem_filterMap]
  constructor
  · rintro ⟨⟨r, i⟩, hp, hk⟩
    rw [List.mem_zipIdx_iff_getElem?] at hp
    simp only at hp hk
    split at hk
    · rename_i hK
      cases hk
      exact ⟨i, hp, hK⟩
    · cases hk
  · rintro ⟨k, hk, hK⟩
    refine ⟨(x, k), ?_, ?_⟩
    · rw [List.mem_zipIdx_iff_getElem?]; exact hk
    · simp only [hK, ↓reduceIte]

theorem mem_of_mem_keepIdxR (K : Ref → Nat → Bool) (l : List Ref) (x : Ref) (h : x ∈ keepIdxR K l) :
    x ∈ l := by
  obtain ⟨k, hk, _⟩ := (mem_keepIdxR K l x).1 h
  exact List.mem_of_getElem? hk

theorem numbered_filter_refsR (K : Ref → Nat → Bool) (l : List Ref) :
    refs ((numbered l).filter (fun it => K it.r it.pos)) = keepIdxR K l := by
  unfold keepIdxR
  rw [numbered_eq]
  have gen : ∀ (l : List Ref) (s : Nat),
      refs (((l.zipIdx s).map mkItem).filter (fun it => K it.r it.pos)) =
        (l.zipIdx s).filterMap (fun p => if K p.1 (p.2 + 1) then some p.1 else none) := by
    intro l
    induction l with
    | nil => intro s; rfl
    | cons a t ih =>
      intro s
      by_cases hK : K a (s + 1) = true
      · simp only [List.zipIdx_cons, List.map_cons, List.filter_cons, List.filterMap_cons, mkItem,
          hK, ↓reduceIte, refs, List.map_cons]
        rw [← ih (s + 1)]
      · simp only [List.zipIdx_cons, List.map_cons, List.filter_cons, List.filterMap_cons, mkItem,
          hK]
        exact ih (s + 1)
  exact gen l 0

/-! ## the oracle's verdict -/

/-- the oracle's verdict on the candidate `x` at proximity position `pos` of `size`: `predTruth` of
the value of the condition in that context -/
def condTruth (F : Type) [NumAlg F] (d : Doc) (cond : Ast) (x : Ref) (pos size : Nat) : Bool :=
  match Spec.eval (F := F) d cond ⟨x, pos, size⟩ with
  | .ok r => Spec.predTruth r.value pos
  | .error _ => false

/-- the candidates of `child::a` below `o` that the oracle keeps under `[cond]`, document order -/
def keepOfC (F : Type) [NumAlg F] (d : Doc) (cfg : ECfg) (a : AxisInfo) (cond : Ast) (o : Ref) :
    List Ref :=
  keepIdxR (fun x pos => condTruth F d cond x pos (childCands d cfg a o).length) (childCands d cfg a o)

theorem mem_keepOfC (d : Doc) (cfg : ECfg) (a : AxisInfo) (cond : Ast) (o x : Ref) :
    x ∈ keepOfC F d cfg a cond o ↔ ∃ k, (childCands d cfg a o)[k]? = some x ∧
      condTruth F d cond x (k + 1) (childCands d cfg a o).length = true :=
  mem_keepIdxR _ _ x

theorem childCands_valid (d : Doc) (cfg : ECfg) (a : AxisInfo) (o x : Ref)
    (h : x ∈ childCands d cfg a o) : validRef d x = true := by
  unfold childCands Spec.children at h
  exact allNodes_valid d x (List.mem_filter.1 (List.mem_filter.1 h).1).1

theorem keepOfC_valid (d : Doc) (cfg : ECfg) (a : AxisInfo) (cond : Ast) (o x : Ref)
    (h : x ∈ keepOfC F d cfg a cond o) : validRef d x = true :=
  childCands_valid d cfg a o x (mem_of_mem_keepIdxR _ _ x h)

/-! ## the agreement of a condition plan with the oracle at the candidates -/

/-- plan `cq` and condition `cond` agree at every candidate `x` of `child::a` (below any parent `p`),
in the context the oracle evaluates the predicate in: node `x`, the proximity position of `x`, the
number of candidates of `p` -/
def CondOK (F : Type) [NumAlg F] (d : Doc) (cfg : ECfg) (a : AxisInfo) (cq : Plan) (cond : Ast) :
    Prop :=
  ∀ p x k, (childCands d cfg a p)[k]? = some x →
    PredOK (F := F) d cfg cq cond ⟨x, k + 1, (childCands d cfg a p).length⟩

/-! ## oracle side -/

theorem filterPos_cond (d : Doc) (cond : Ast) (l : List Ref)
    (h : ∀ k x, l[k]? = some x → ∃ r, Spec.eval (F := F) d cond ⟨x, k + 1, l.length⟩ = .ok r) :
    Spec.filterPos l (Spec.eval (F := F) d cond) =
      .ok (keepIdxR (fun x pos => condTruth F d cond x pos l.length) l) := by
  unfold Spec.filterPos
  have hflags : l.zipIdx.mapM (fun (p : Ref × Nat) => do
      let v ← Spec.eval (F := F) d cond ⟨p.1, p.2 + 1, l.length⟩
      pure (Spec.predTruth v.value (p.2 + 1))) =
      .ok (l.zipIdx.map (fun p => condTruth F d cond p.1 (p.2 + 1) l.length)) := by
    apply PredSem.mapM_ok
    rintro ⟨x, i⟩ hp
    rw [List.mem_zipIdx_iff_getElem?] at hp
    obtain ⟨r, hr⟩ := h i x hp
    simp only [hr, condTruth, bind, Except.bind, pure, Except.pure]
  simp only [bind, Except.bind, pure, Except.pure] at hflags ⊢
  rw [hflags]
  simp only
  rw [zip_flags_zipIdx]
  rfl

theorem eval_filter_cond_groups (d : Doc) (inp cond : Ast) (c : Spec.Ctx)
    (v : Spec.Value F) (groups : List (List Ref))
    (hev : Spec.eval (F := F) d inp c = .ok (.val v (some groups)))
    (h : ∀ g ∈ groups, ∀ k x, g[k]? = some x →
      ∃ r, Spec.eval (F := F) d cond ⟨x, k + 1, g.length⟩ = .ok r) :
    Spec.eval (F := F) d (.filter inp cond) c =
      .ok (.val (.nodes (Spec.docOrder d (groups.map (fun g =>
          keepIdxR (fun x pos => condTruth F d cond x pos g.length) g)).flatten))
        (some (groups.map (fun g => keepIdxR (fun x pos => condTruth F d cond x pos g.length) g)))) := by
  have hmap : groups.mapM (fun g => Spec.filterPos g (Spec.eval (F := F) d cond)) =
      .ok (groups.map (fun g => keepIdxR (fun x pos => condTruth F d cond x pos g.length) g)) :=
    PredSem.mapM_ok _ _ groups (fun g hg => filterPos_cond d cond g (h g hg))
  rw [Spec.eval]
  simp only [hev, bind, Except.bind, hmap]

/-- the oracle's value of `q/child::a[cond]` over an evaluated input `q` -/
theorem eval_child_cond (d : Doc) (cfg : ECfg) (hns : cfg.nsIface = true) (a : AxisInfo)
    (ha : a.axis = "child") (q cond : Ast) (c : Spec.Ctx) (origins : List Ref)
    (g : Option (List (List Ref)))
    (hev : Spec.eval (F := F) d q c = .ok (.val (.nodes origins) g))
    (hc : ∀ p x k, (childCands d cfg a p)[k]? = some x →
      ∃ r, Spec.eval (F := F) d cond ⟨x, k + 1, (childCands d cfg a p).length⟩ = .ok r) :
    Spec.eval (F := F) d (.filter (.axis a q) cond) c =
      .ok (.val (.nodes (Spec.docOrder d (origins.map (keepOfC F d cfg a cond)).flatten))
        (some (origins.map (keepOfC F d cfg a cond)))) := by
  have h1 := eval_axis_groups (F := F) d a (child_in_axes12 a ha) q c origins g hev
  rw [child_groups d cfg hns a ha origins] at h1
  rw [eval_filter_cond_groups d (.axis a q) cond c _ _ h1 ?_, List.map_map]
  · rfl
  · intro gr hgr k x hk
    obtain ⟨p, _, rfl⟩ := List.mem_map.1 hgr
    exact hc p x k hk

/-! ## model side -/

/-- **filter semantics, model side**: when the predicate plan evaluates on every candidate to a
boolean, a string or a node-set, the filter keeps the candidates on which that value is true -/
theorem sel_filter_truth (d : Doc) (cfg : ECfg) (inp pred : Plan) (c : Ref) (ins : List Item)
    (dec : Item → Bool)
    (h : sel (F := F) d cfg inp c = .ok ins)
    (hp : ∀ it ∈ ins, ∃ v, evalP (F := F) d cfg pred it.r = .ok v ∧ IsBSN v ∧ truthM v = dec it) :
    sel (F := F) d cfg (.filter inp pred) c = .ok (filterPositions (ins.filter dec)) := by
  simp only [sel, h, bind, Except.bind]
  rw [PredSem.mapM_ok _ dec ins ?_]
  · simp only [zip_map_filterMap]
  · intro it hit
    obtain ⟨v, hv, hbsn, htr⟩ := hp it hit
    rw [hv]
    cases v with
    | bool b => simp only [truthM] at htr; simp [pure, Except.pure, predDecision, htr]
    | str s => simp only [truthM] at htr; simp [pure, Except.pure, predDecision, htr]
    | nodes l => simp only [truthM] at htr; simp [pure, Except.pure, predDecision, htr]
    | num x => exact absurd hbsn (by simp [IsBSN])
    | int i => exact absurd hbsn (by simp [IsBSN])
    | nilv => exact absurd hbsn (by simp [IsBSN])

/-- the engine's verdict on an item: the truth of the condition plan's value at its node -/
def decC (F : Type) [NumAlg F] (d : Doc) (cfg : ECfg) (cq : Plan) (it : Item) : Bool :=
  match evalP (F := F) d cfg cq it.r with
  | .ok v => truthM v
  | .error _ => false

section
variable {d : Doc} (cfg : ECfg) (a : AxisInfo) (cq : Plan) (cond : Ast)
  (hcond : CondOK F d cfg a cq cond)
include hcond

theorem condOK_evalOK (p x : Ref) (k : Nat) (hk : (childCands d cfg a p)[k]? = some x) :
    ∃ r, Spec.eval (F := F) d cond ⟨x, k + 1, (childCands d cfg a p).length⟩ = .ok r := by
  obtain ⟨_, sv, g, _, hS, _⟩ := hcond p x k hk
  exact ⟨_, hS⟩

theorem decC_eq (p x : Ref) (k : Nat) (hk : (childCands d cfg a p)[k]? = some x) (it : Item)
    (hr : it.r = x) :
    ∃ v, evalP (F := F) d cfg cq it.r = .ok v ∧ IsBSN v ∧ truthM v = decC F d cfg cq it ∧
      decC F d cfg cq it = condTruth F d cond x (k + 1) (childCands d cfg a p).length := by
  obtain ⟨v, sv, g, hE, hS, hbn, hnn, htr⟩ := hcond p x k hk
  have hE' : evalP (F := F) d cfg cq it.r = .ok v := by rw [hr]; exact hE
  refine ⟨v, hE', hbn.isBSN, ?_, ?_⟩
  · simp only [decC, hE']
  · simp only [decC, hE', condTruth, hS, Spec.Res.value, predTruth_notNum _ hnn, htr]

/-- **one parent**: among the numbered candidates below `o` the engine keeps what the oracle keeps -/
theorem block_keepC (o : Ref) :
    refs ((numbered (childCands d cfg a o)).filter (decC F d cfg cq)) = keepOfC F d cfg a cond o := by
  unfold keepOfC
  rw [← numbered_filter_refsR]
  congr 1
  apply List.filter_congr
  intro it hit
  obtain ⟨k, hk, hp, _⟩ := (mem_numbered_iff _ it).1 hit
  obtain ⟨_, _, _, _, h4⟩ := decC_eq cfg a cq cond hcond o it.r k hk it rfl
  rw [h4, hp]

/-- **several parents**: a filter with condition plan `cq` over a child step keeps, for each input
node in turn, the candidates the oracle keeps -/
theorem sel_filter_child_cond (wf : WF d) (inp : Plan) (c : Ref) (ins : List Item)
    (hins : sel (F := F) d cfg inp c = .ok ins) :
    ∃ out, sel (F := F) d cfg (.filter (.child a inp) cq) c = .ok out ∧
      refs out = (refs ins).flatMap (keepOfC F d cfg a cond) := by
  refine ⟨_, sel_filter_truth d cfg _ cq c _ (decC F d cfg cq) (child_step_eq wf cfg a inp c ins hins)
    ?_, ?_⟩
  · intro it hit
    obtain ⟨it', _, hit'⟩ := List.mem_flatMap.1 hit
    obtain ⟨k, hk, _, _⟩ := (mem_numbered_iff _ it).1 hit'
    obtain ⟨v, h1, h2, h3, _⟩ := decC_eq cfg a cq cond hcond it'.r it.r k hk it rfl
    exact ⟨v, h1, h2, h3⟩
  · rw [filterPositions_refs, List.filter_flatMap, refs_flatMap, refs, List.flatMap_map]
    congr 1
    funext it
    exact block_keepC cfg a cq cond hcond it.r

theorem sel_filter_cachedChild_cond (wf : WF d) (inp : Plan) (c : Ref) (ins : List Item)
    (hins : sel (F := F) d cfg inp c = .ok ins) :
    ∃ out, sel (F := F) d cfg (.filter (.cachedChild a inp) cq) c = .ok out ∧
      refs out = (refs ins).flatMap (keepOfC F d cfg a cond) := by
  rw [sel_filter_congr d cfg (.cachedChild a inp) (.child a inp) _ c (sel_cachedChild d cfg a inp c)]
  exact sel_filter_child_cond cfg a cq cond hcond wf inp c ins hins

end

/-- the merge rewrite evaluates the filtered step once per input node and concatenates -/
theorem sel_merge_flat (d : Doc) (cfg : ECfg) (kf : Ref → List Ref) (qi child : Plan) (c : Ref)
    (ins : List Item) (hins : sel (F := F) d cfg qi c = .ok ins)
    (hchild : ∀ x : Ref, ∃ out, sel (F := F) d cfg child x = .ok out ∧ refs out = kf x) :
    ∃ out, sel (F := F) d cfg (.merge qi child) c = .ok out ∧ refs out = (refs ins).flatMap kf := by
  let g : Item → List Item := fun it =>
    match sel (F := F) d cfg child it.r with
    | .ok l => l
    | .error _ => []
  have hg : ∀ it ∈ ins, sel (F := F) d cfg child it.r = .ok (g it) ∧ refs (g it) = kf it.r := by
    intro it _
    obtain ⟨l, hl, hr⟩ := hchild it.r
    have : g it = l := by simp only [g, hl]
    rw [this]; exact ⟨hl, hr⟩
  refine ⟨_, sel_merge d cfg qi child c ins g hins (fun it hit => (hg it hit).1), ?_⟩
  rw [plain_refs]
  clear hins
  induction ins with
  | nil => rfl
  | cons it t ih =>
    simp only [List.map_cons, List.flatten_cons, List.map_append, refs, List.flatMap_cons]
    rw [← ih (fun it' h' => hg it' (List.mem_cons_of_mem _ h'))]
    congr 1
    exact (hg it List.mem_cons_self).2

/-! ## the statement -/

/-- plan `pl` implements `q/child::a[cond]` over the input plan `qi` at context `c`: it yields, for
each node of `qi` in turn, the candidates the oracle keeps, and the oracle's node set is the
document-ordered union of the same per-parent lists -/
def CondStepOK (F : Type) [NumAlg F] (d : Doc) (cfg : ECfg) (a : AxisInfo) (cond : Ast)
    (pl qi : Plan) (q : Ast) (c : Spec.Ctx) : Prop :=
  ∃ ins origins g0 out,
    sel (F := F) d cfg qi c.node = .ok ins ∧
    Spec.eval (F := F) d q c = .ok (.val (.nodes origins) g0) ∧
    (∀ x, x ∈ refs ins ↔ x ∈ origins) ∧
    sel (F := F) d cfg pl c.node = .ok out ∧
    refs out = (refs ins).flatMap (keepOfC F d cfg a cond) ∧
    Spec.eval (F := F) d (.filter (.axis a q) cond) c =
      .ok (.val (.nodes (Spec.docOrder d (origins.map (keepOfC F d cfg a cond)).flatten))
        (some (origins.map (keepOfC F d cfg a cond))))

/-- **the property, node-set level**: the nodes returned are exactly the candidates `x` of some
input node `o` on which the condition, evaluated at `x` with the 1-based position of `x` among the
candidates of `o` and their number, is true -/
theorem CondStepOK.mem_iff {d : Doc} {cfg : ECfg} {a : AxisInfo} {cond : Ast} {pl qi : Plan}
    {q : Ast} {c : Spec.Ctx} (h : CondStepOK F d cfg a cond pl qi q c) :
    ∃ out ns g origins g0, sel (F := F) d cfg pl c.node = .ok out ∧
      Spec.eval (F := F) d (.filter (.axis a q) cond) c = .ok (.val (.nodes ns) g) ∧
      Spec.eval (F := F) d q c = .ok (.val (.nodes origins) g0) ∧
      (∀ x, x ∈ refs out ↔ x ∈ ns) ∧
      (∀ x, x ∈ ns ↔ ∃ o ∈ origins, ∃ k, (childCands d cfg a o)[k]? = some x ∧
        condTruth F d cond x (k + 1) (childCands d cfg a o).length = true) := by
  obtain ⟨ins, origins, g0, out, _, hevq, hm, hout, hrefs, hev⟩ := h
  refine ⟨out, _, _, origins, g0, hout, hev, hevq, fun x => ?_, fun x => ?_⟩
  · rw [hrefs, mem_docOrder, List.mem_flatMap, mem_flatten_map']
    constructor
    · rintro ⟨o, ho, hx⟩
      exact ⟨⟨o, (hm o).1 ho, hx⟩, keepOfC_valid d cfg a cond o x hx⟩
    · rintro ⟨⟨o, ho, hx⟩, _⟩
      exact ⟨o, (hm o).2 ho, hx⟩
  · rw [mem_docOrder, mem_flatten_map']
    constructor
    · rintro ⟨⟨o, ho, hx⟩, _⟩
      exact ⟨o, ho, (mem_keepOfC d cfg a cond o x).1 hx⟩
    · rintro ⟨o, ho, hk⟩
      have hx := (mem_keepOfC (F := F) d cfg a cond o x).2 hk
      exact ⟨⟨o, ho, hx⟩, keepOfC_valid d cfg a cond o x hx⟩

/-- node-set agreement, packaged as `PathOK` (further boolean predicates and steps can be put on
top with the lemmas of `PredSem`) -/
theorem CondStepOK.pathOK {d : Doc} {cfg : ECfg} {a : AxisInfo} {cond : Ast} {pl qi : Plan}
    {q : Ast} {c : Spec.Ctx} (h : CondStepOK F d cfg a cond pl qi q c) (hs : PathShape pl) :
    PathOK (F := F) d cfg pl (.filter (.axis a q) cond) c := by
  obtain ⟨ins, origins, g0, out, _, _, hm, hout, hrefs, hev⟩ := h
  have hflat : ∀ x, x ∈ (origins.map (keepOfC F d cfg a cond)).flatten ↔
      ∃ o ∈ origins, x ∈ keepOfC F d cfg a cond o := fun x => mem_flatten_map' origins _ x
  have hvalid : ∀ x, x ∈ (origins.map (keepOfC F d cfg a cond)).flatten → validRef d x = true := by
    intro x hx
    obtain ⟨o, _, hxo⟩ := (hflat x).1 hx
    exact keepOfC_valid d cfg a cond o x hxo
  refine ⟨out, _, _, hout, evalP_pathShape d cfg pl hs c.node out hout, hev, fun x => ?_,
    fun x hx => ((mem_docOrder d _ x).1 hx).2, ?_⟩
  · rw [hrefs, mem_docOrder, hflat, List.mem_flatMap]
    constructor
    · rintro ⟨o, ho, hx⟩
      exact ⟨⟨o, (hm o).1 ho, hx⟩, keepOfC_valid d cfg a cond o x hx⟩
    · rintro ⟨⟨o, ho, hx⟩, _⟩
      exact ⟨o, (hm o).2 ho, hx⟩
  · intro gs hgs x
    cases hgs
    rw [mem_docOrder]
    exact ⟨fun hx => ⟨hx, hvalid x hx⟩, fun hx => hx.1⟩

/-! ## the four plan shapes -/

section
variable {d : Doc} (wf : WF d) (cfg : ECfg) (hns : cfg.nsIface = true) (a : AxisInfo)
  (ha : a.axis = "child") (cq : Plan) (cond : Ast) (hcond : CondOK F d cfg a cq cond)
include wf hns ha hcond

/-- plain form: `.filter (.child a qi) cq` over an input that agrees with `q` -/
theorem condStep_filter (qi : Plan) (q : Ast) (c : Spec.Ctx) (hq : PathOK (F := F) d cfg qi q c) :
    CondStepOK F d cfg a cond (.filter (.child a qi) cq) qi q c := by
  obtain ⟨ins, origins, g0, hsel, _, hev, hm, _, _⟩ := hq
  obtain ⟨out, hout, hrefs⟩ := sel_filter_child_cond (F := F) cfg a cq cond hcond wf qi c.node ins hsel
  exact ⟨ins, origins, g0, out, hsel, hev, hm, hout, hrefs,
    eval_child_cond d cfg hns a ha q cond c origins g0 hev (condOK_evalOK cfg a cq cond hcond)⟩

theorem condStep_filter_cached (qi : Plan) (q : Ast) (c : Spec.Ctx)
    (hq : PathOK (F := F) d cfg qi q c) :
    CondStepOK F d cfg a cond (.filter (.cachedChild a qi) cq) qi q c := by
  obtain ⟨ins, origins, g0, hsel, _, hev, hm, _, _⟩ := hq
  obtain ⟨out, hout, hrefs⟩ :=
    sel_filter_cachedChild_cond (F := F) cfg a cq cond hcond wf qi c.node ins hsel
  exact ⟨ins, origins, g0, out, hsel, hev, hm, hout, hrefs,
    eval_child_cond d cfg hns a ha q cond c origins g0 hev (condOK_evalOK cfg a cq cond hcond)⟩

/-- merge form: the filtered step is run once per input node -/
theorem condStep_merge (qi : Plan) (q : Ast) (c : Spec.Ctx) (hq : PathOK (F := F) d cfg qi q c) :
    CondStepOK F d cfg a cond (.merge qi (.filter (.child a .context) cq)) qi q c := by
  obtain ⟨ins, origins, g0, hsel, _, hev, hm, _, _⟩ := hq
  obtain ⟨out, hout, hrefs⟩ := sel_merge_flat (F := F) d cfg (keepOfC F d cfg a cond) qi _ c.node ins hsel
    (fun x => by
      obtain ⟨o, h1, h2⟩ := sel_filter_child_cond (F := F) cfg a cq cond hcond wf .context x
        [⟨x, 1, 0⟩] (sel_context d cfg x)
      refine ⟨o, h1, ?_⟩
      rw [h2]
      simp only [refs, List.map_cons, List.map_nil, List.flatMap_cons, List.flatMap_nil,
        List.append_nil])
  exact ⟨ins, origins, g0, out, hsel, hev, hm, hout, hrefs,
    eval_child_cond d cfg hns a ha q cond c origins g0 hev (condOK_evalOK cfg a cq cond hcond)⟩

theorem condStep_merge_cached (qi : Plan) (q : Ast) (c : Spec.Ctx)
    (hq : PathOK (F := F) d cfg qi q c) :
    CondStepOK F d cfg a cond (.merge qi (.filter (.cachedChild a .context) cq)) qi q c := by
  obtain ⟨ins, origins, g0, hsel, _, hev, hm, _, _⟩ := hq
  obtain ⟨out, hout, hrefs⟩ := sel_merge_flat (F := F) d cfg (keepOfC F d cfg a cond) qi _ c.node ins hsel
    (fun x => by
      obtain ⟨o, h1, h2⟩ := sel_filter_cachedChild_cond (F := F) cfg a cq cond hcond wf .context x
        [⟨x, 1, 0⟩] (sel_context d cfg x)
      refine ⟨o, h1, ?_⟩
      rw [h2]
      simp only [refs, List.map_cons, List.map_nil, List.flatMap_cons, List.flatMap_nil,
        List.append_nil])
  exact ⟨ins, origins, g0, out, hsel, hev, hm, hout, hrefs,
    eval_child_cond d cfg hns a ha q cond c origins g0 hev (condOK_evalOK cfg a cq cond hcond)⟩

end

end XPathV.PosSem
