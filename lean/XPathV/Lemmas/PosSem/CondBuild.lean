import XPathV.Lemmas.PosSem.Cond
import XPathV.Lemmas.PosSem.PredInput
/-!
# C03 — `position()` / `last()` after other location steps, through the builder

The fragment `PosCond` of first predicates: comparisons among `position()`, `last()` and number
literals (`NumAtom`), comparisons of a path of the C02 fragment with one of those
(`. = last()`, `position() >= @k`), every boolean predicate of the C02 fragment, closed under `and`,
`or`, `not(…)` — in any order, so that the positional test may come *after* any number of location
steps (`[b and position() = 2]`, `[@k or position() = 1]`, `[not(c) and . = last()]`).

`build_posCond`: built while `predInput` is the filtered child step, such a condition becomes a plan
that agrees with the oracle at every candidate (`CondOK`) — `position()` / `last()` count in the
filtered step whatever steps were built before them (`build_predInput`).
`build_condStep`: `q/child::a[cond]` through `build`, plain or merge form (`CondStepOK`).
-/
namespace XPathV.PosSem
open XPathV XPathV.Model XPathV.PathSem XPathV.PredSem NumAlg

variable {F : Type} [NumAlg F]

/-! ## numeric atoms: `position()`, `last()`, a literal -/

inductive NumAtom
  | position (pfx : String)
  | last (pfx : String)
  | lit (lex : String)

namespace NumAtom

def ast : NumAtom → Ast
  | position pfx => .call "position" pfx .anil
  | last pfx => .call "last" pfx .anil
  | lit lex => .num lex

/-- the plan the builder makes when `position()` / `last()` count in `fi` -/
def plan (fi : Plan) : NumAtom → Plan
  | position _ => .func "position" fi .pnil
  | last _ => .func "last" fi .pnil
  | lit lex => .constNum lex

/-- the value at context position `pos` of `size` -/
def val (F : Type) [NumAlg F] : NumAtom → Nat → Nat → F
  | position _, pos, _ => ofNat pos
  | last _, _, size => ofNat size
  | lit lex, _, _ => Spec.strToNum lex

end NumAtom

theorem evalP_numAtom (d : Doc) (cfg : ECfg) (n : NumAtom) (fi : Plan) (x : Ref) :
    evalP (F := F) d cfg (n.plan fi) x =
      .ok (.num (n.val F (positionM d cfg fi x) (lastM d cfg fi x))) := by
  cases n with
  | position pfx => exact evalP_position d cfg fi x
  | last pfx => exact evalP_last d cfg fi x
  | lit lex => exact evalP_constNum d cfg lex x

theorem eval_numAtom (d : Doc) (n : NumAtom) (x : Ref) (pos size : Nat) :
    Spec.eval (F := F) d n.ast ⟨x, pos, size⟩ = .ok (.val (.num (n.val F pos size)) none) := by
  cases n with
  | position pfx => exact eval_position d pfx _
  | last pfx => exact eval_last d pfx _
  | lit lex => exact eval_num d lex _

theorem positionInput_of_pred (st : BState) (step : Plan) (h : st.predInput = some step) :
    st.positionInput = step := by
  simp [BState.positionInput, h]

theorem build_numAtom_inv (regexOk : RegexOk) (limit : Nat) (snt sdf : Bool) (n : NumAtom)
    (fl : Flags) (st : BState) (o : BOut) (step : Plan) (hst : st.predInput = some step)
    (h : build regexOk limit snt sdf n.ast fl st = .ok o) :
    o.q = n.plan step ∧ o.st.predInput = some step := by
  refine ⟨?_, (build_predInput regexOk limit snt sdf _ fl st o h).trans hst⟩
  cases n with
  | position pfx =>
    rw [(build_position_inv regexOk limit snt sdf pfx fl st o h).1, positionInput_of_pred st step hst]
    rfl
  | last pfx =>
    rw [(build_last_inv regexOk limit snt sdf pfx fl st o h).1, positionInput_of_pred st step hst]
    rfl
  | lit lex => exact (build_num_inv regexOk limit snt sdf lex fl st o h).1

/-! ## the fragment -/

/-- first predicates in which positional tests and tests on the node are freely combined -/
inductive PosCond : Ast → Prop
  /-- `position() op n`, `position() = last()`, `2 >= position()`, … -/
  | cmpNN (op : String) (l r : NumAtom) : op ∈ cmpOps → PosCond (.oper op l.ast r.ast)
  /-- `p op position()`, `. = last()`, … for a path `p` of the C02 fragment -/
  | cmpPN (op : String) (p : Ast) (n : NumAtom) : op ∈ cmpOps → Frag true p →
      PosCond (.oper op p n.ast)
  | cmpNP (op : String) (n : NumAtom) (p : Ast) : op ∈ cmpOps → Frag true p →
      PosCond (.oper op n.ast p)
  /-- a boolean predicate of the C02 fragment -/
  | frag (b : Ast) : Frag false b → PosCond b
  | and (c1 c2 : Ast) : PosCond c1 → PosCond c2 → PosCond (.oper "and" c1 c2)
  | or (c1 c2 : Ast) : PosCond c1 → PosCond c2 → PosCond (.oper "or" c1 c2)
  | not (pfx : String) (c : Ast) : PosCond c → PosCond (.call "not" pfx (.acons c .anil))

theorem posCond_posCmp (cop : Spec.CmpOp) (pfx lex : String) :
    PosCond (PosForm.posCmp cop pfx lex).ast :=
  .cmpNN (opStr cop) (.position pfx) (.lit lex) (opStr_mem cop)

theorem posCond_posEqLast (p1 p2 : String) : PosCond (PosForm.posEqLast p1 p2).ast :=
  .cmpNN "=" (.position p1) (.last p2) (by simp [cmpOps])

/-! ## comparisons with a number, at one context -/

theorem predOK_cmpNumNum (d : Doc) (cfg : ECfg) (op : String) (hop : op ∈ cmpOps) (pl pr : Plan)
    (l r : Ast) (c : Spec.Ctx) (y z : F)
    (hEl : evalP (F := F) d cfg pl c.node = .ok (.num y))
    (hEr : evalP (F := F) d cfg pr c.node = .ok (.num z))
    (hSl : Spec.eval (F := F) d l c = .ok (.val (.num y) none))
    (hSr : Spec.eval (F := F) d r c = .ok (.val (.num z) none)) :
    PredOK (F := F) d cfg (.logical op pl pr) (.oper op l r) c := by
  obtain ⟨cop, hcop⟩ := cmpOps_ofString op hop
  refine ⟨.bool (Spec.compare d cop (.num y) (.num z)), .bool (Spec.compare d cop (.num y) (.num z)),
    none, ?_, ?_, trivial, trivial, rfl⟩
  · exact evalP_logical d cfg op cop hcop _ _ _ _ _ _ hEl hEr (Theorems.C07.cell_numNum d cop y z)
  · rw [eval_cmp d op cop hcop l r c _ _ hSl hSr]
    simp only [Spec.Res.value]

/-- path `op` number-valued operand -/
theorem predOK_cmpPathNum (d : Doc) (cfg : ECfg) (op : String) (hop : op ∈ cmpOps) (pl pr : Plan)
    (p r : Ast) (c : Spec.Ctx) (z : F) (h : PathOK (F := F) d cfg pl p c)
    (hEr : evalP (F := F) d cfg pr c.node = .ok (.num z))
    (hSr : Spec.eval (F := F) d r c = .ok (.val (.num z) none)) :
    PredOK (F := F) d cfg (.logical op pl pr) (.oper op p r) c := by
  obtain ⟨out, ns, g, _, hE, hS, hm, hv, _⟩ := h
  obtain ⟨cop, hcop⟩ := cmpOps_ofString op hop
  refine ⟨.bool (Spec.compare d cop (.nodes (nodesVal d cfg out)) (.num z)),
    .bool (Spec.compare d cop (.nodes ns) (.num z)), none, ?_, ?_, trivial, trivial, ?_⟩
  · exact evalP_logical d cfg op cop hcop _ _ _ _ _ _ hE hEr (Theorems.C07.cell_setNum d cop _ _)
  · rw [eval_cmp d op cop hcop p r c _ _ hS hSr]
    simp only [Spec.Res.value]
  · simp only [truthM, Spec.toBool, Spec.compare]
    exact any_congr_mem _ _ _ (mem_nodesVal d cfg out ns hm hv)

/-- number-valued operand `op` path -/
theorem predOK_cmpNumPath (d : Doc) (cfg : ECfg) (op : String) (hop : op ∈ cmpOps) (pl pr : Plan)
    (l p : Ast) (c : Spec.Ctx) (y : F) (h : PathOK (F := F) d cfg pr p c)
    (hEl : evalP (F := F) d cfg pl c.node = .ok (.num y))
    (hSl : Spec.eval (F := F) d l c = .ok (.val (.num y) none)) :
    PredOK (F := F) d cfg (.logical op pl pr) (.oper op l p) c := by
  obtain ⟨out, ns, g, _, hE, hS, hm, hv, _⟩ := h
  obtain ⟨cop, hcop⟩ := cmpOps_ofString op hop
  refine ⟨.bool (Spec.compare d cop (.num y) (.nodes (nodesVal d cfg out))),
    .bool (Spec.compare d cop (.num y) (.nodes ns)), none, ?_, ?_, trivial, trivial, ?_⟩
  · exact evalP_logical d cfg op cop hcop _ _ _ _ _ _ hEl hE (Theorems.C07.cell_numSet d cop _ _)
  · rw [eval_cmp d op cop hcop l p c _ _ hSl hS]
    simp only [Spec.Res.value]
  · simp only [truthM, Spec.toBool, Spec.compare]
    exact any_congr_mem _ _ _ (mem_nodesVal d cfg out ns hm hv)

/-! ## inversion of `build` with the state the operands are built in -/

section Inv
variable (regexOk : RegexOk) (limit : Nat) (snt sdf : Bool)

theorem build_and_inv' (l r : Ast) (fl : Flags)
    (st : BState) (o : BOut) (h : build regexOk limit snt sdf (.oper "and" l r) fl st = .ok o) :
    ∃ lo ro, build regexOk limit snt sdf l {} ⟨st.depth + 1, st.firstInput, st.predInput⟩ = .ok lo ∧
      build regexOk limit snt sdf r {} lo.st = .ok ro ∧
      o.q = .boolean false lo.q ro.q := by
  rw [build] at h
  replace h := enter_ok _ _ _ _ h
  obtain ⟨lo, hlo, h⟩ := except_bind_ok _ _ _ h
  obtain ⟨ro, hro, h⟩ := except_bind_ok _ _ _ h
  refine ⟨lo, ro, hlo, hro, ?_⟩
  simp at h
  cases h; rfl

theorem build_or_inv' (l r : Ast) (fl : Flags)
    (st : BState) (o : BOut) (h : build regexOk limit snt sdf (.oper "or" l r) fl st = .ok o) :
    ∃ lo ro, build regexOk limit snt sdf l {} ⟨st.depth + 1, st.firstInput, st.predInput⟩ = .ok lo ∧
      build regexOk limit snt sdf r {} lo.st = .ok ro ∧
      o.q = .boolean true lo.q ro.q := by
  rw [build] at h
  replace h := enter_ok _ _ _ _ h
  obtain ⟨lo, hlo, h⟩ := except_bind_ok _ _ _ h
  obtain ⟨ro, hro, h⟩ := except_bind_ok _ _ _ h
  refine ⟨lo, ro, hlo, hro, ?_⟩
  simp at h
  cases h; rfl

theorem build_not_inv' (pfx : String) (b : Ast) (fl : Flags) (st : BState) (o : BOut)
    (h : build regexOk limit snt sdf (.call "not" pfx (.acons b .anil)) fl st = .ok o) :
    ∃ ho, build regexOk limit snt sdf b {} ⟨st.depth + 1, st.firstInput, st.predInput⟩ = .ok ho ∧
      o.q = .func "not" .nil (.pcons ho.q .pnil) := by
  rw [build] at h
  replace h := enter_ok _ _ _ _ h
  simp only [fnArity_not, fnUsed_not, Ast.argList, List.length_cons, List.length_nil,
    show ("not" == "matches") = false from by decide,
    show ("not" == "reverse") = false from by decide,
    show ("not" == "normalize-space") = false from by decide,
    show ("not" == "string") = false from by decide,
    show ("not" == "number") = false from by decide,
    show ("not" == "last") = false from by decide,
    show ("not" == "position") = false from by decide,
    Bool.false_eq_true, ↓reduceIte, Bool.or_self, Bool.false_and, Nat.lt_irrefl,
    show ((1 : Nat) == 0) = false from rfl, Nat.zero_add] at h
  obtain ⟨ao, hao, h⟩ := except_bind_ok _ _ _ h
  rw [build] at hao
  simp only [show ((1 : Nat) == 0) = false from rfl, Bool.false_eq_true, ↓reduceIte] at hao
  obtain ⟨ho, hho, hao⟩ := except_bind_ok _ _ _ hao
  rw [build] at hao
  simp only [bind, Except.bind] at hao h
  cases hao; cases h
  exact ⟨_, hho, rfl⟩

end Inv

/-! ## through the builder -/

section Sem
variable {d : Doc} (wf : WF d) (cfg : ECfg) (hns : cfg.nsIface = true) (hinj : HashInj d cfg)
  (regexOk : RegexOk) (limit : Nat)
include wf hns hinj

/-- the plan of a boolean predicate of the C02 fragment is never a function call whose
`firstInput` is a filter (the shape `processFilter` rewrites to `lastFuncQuery`) -/
theorem frag_false_shape (G : Type) [NumAlg G] (b : Ast) (hb : Frag false b) (fl : Flags) (st : BState) (o : BOut)
    (h : build regexOk limit true false b fl st = .ok o) :
    ∀ n fi fp ar, o.q ≠ .func n (.filter fi fp) ar := by
  intro n fi fp ar e
  cases hb with
  | exist _ hp =>
    have hs := (((build_frag (F := G) wf cfg hns hinj regexOk limit true b hp).1 rfl).1 fl st o h).2.1
    rw [e] at hs; exact hs
  | eqStr p s _ =>
    obtain ⟨_, _, _, _, _, hq, _⟩ := build_cmp_inv regexOk limit true false "=" (by simp [cmpOps]) _ _ fl st o h
    rw [hq] at e; cases e
  | neStr p s _ =>
    obtain ⟨_, _, _, _, _, hq, _⟩ := build_cmp_inv regexOk limit true false "!=" (by simp [cmpOps]) _ _ fl st o h
    rw [hq] at e; cases e
  | cmpNumR op p lex hop _ =>
    obtain ⟨_, _, _, _, _, hq, _⟩ := build_cmp_inv regexOk limit true false op hop _ _ fl st o h
    rw [hq] at e; cases e
  | cmpNumL op lex p hop _ =>
    obtain ⟨_, _, _, _, _, hq, _⟩ := build_cmp_inv regexOk limit true false op hop _ _ fl st o h
    rw [hq] at e; cases e
  | not pfx b' _ =>
    obtain ⟨_, _, _, hq, _⟩ := build_not_inv regexOk limit true false pfx b' fl st o h
    rw [hq] at e; cases e
  | and b1 b2 _ _ =>
    obtain ⟨_, _, _, _, _, hq, _⟩ := build_and_inv regexOk limit true false b1 b2 fl st o h
    rw [hq] at e; cases e
  | or b1 b2 _ _ =>
    obtain ⟨_, _, _, _, _, hq, _⟩ := build_or_inv regexOk limit true false b1 b2 fl st o h
    rw [hq] at e; cases e

/-- **conditions of the fragment, built under `predInput = some step`**: wherever in the condition
`position()` / `last()` stand — behind `and` / `or` / `not`, after any number of location steps —
they count in `step`; when `step` tests what the child step `a` tests, the plan agrees with the
oracle at every candidate of the step, in the oracle's context (proximity position, number of
candidates of the same parent) -/
theorem build_posCond (a : AxisInfo) (step : Plan) (hstep : planTest d cfg step = nodeTestM d cfg a)
    (cond : Ast) (hc : PosCond cond) :
    ∀ (fl : Flags) (st : BState) (o : BOut), st.predInput = some step →
      build regexOk limit true false cond fl st = .ok o →
      CondOK F d cfg a o.q cond ∧ ∀ n fi fp ar, o.q ≠ .func n (.filter fi fp) ar := by
  induction hc with
  | cmpNN op l r hop =>
    intro fl st o hst0 hb
    have hst : BState.predInput ⟨st.depth + 1, st.firstInput, st.predInput⟩ = some step := hst0
    obtain ⟨lo, ro, hlo, hro, hq⟩ := build_cmp_inv' regexOk limit true false op hop _ _ fl st o hb
    obtain ⟨hl, hlp⟩ := build_numAtom_inv regexOk limit true false l _ _ lo step hst hlo
    obtain ⟨hr, _⟩ := build_numAtom_inv regexOk limit true false r _ _ ro step hlp hro
    refine ⟨fun p x k hk => ?_, fun n fi fp ar e => by rw [hq] at e; cases e⟩
    obtain ⟨h1, _, h3⟩ := position_is_proximity wf cfg a step hstep p x k hk
    rw [hq, hl, hr]
    refine predOK_cmpNumNum d cfg op hop _ _ _ _ _ _ _ ?_ ?_ (eval_numAtom d l x _ _)
      (eval_numAtom d r x _ _)
    · show evalP (F := F) d cfg (l.plan step) x = _
      rw [evalP_numAtom, h1, h3]
    · show evalP (F := F) d cfg (r.plan step) x = _
      rw [evalP_numAtom, h1, h3]
  | cmpPN op p n hop hp =>
    intro fl st o hst0 hb
    have hst : BState.predInput ⟨st.depth + 1, st.firstInput, st.predInput⟩ = some step := hst0
    obtain ⟨lo, ro, hlo, hro, hq⟩ := build_cmp_inv' regexOk limit true false op hop _ _ fl st o hb
    have hlp : lo.st.predInput = some step :=
      (build_predInput regexOk limit true false _ _ _ lo hlo).trans hst
    obtain ⟨hr, _⟩ := build_numAtom_inv regexOk limit true false n _ _ ro step hlp hro
    refine ⟨fun pp x k hk => ?_, fun n fi fp ar e => by rw [hq] at e; cases e⟩
    obtain ⟨h1, _, h3⟩ := position_is_proximity wf cfg a step hstep pp x k hk
    have hx : validRef d x = true := childCands_valid d cfg a pp x (List.mem_of_getElem? hk)
    have hpath := (operand_pathOK (F := F) wf cfg hns hinj regexOk limit p hp
      ((build_frag (F := F) wf cfg hns hinj regexOk limit true p hp).1 rfl).1 _ lo hlo
      ⟨x, k + 1, (childCands d cfg a pp).length⟩ hx).2
    rw [hq, hr]
    refine predOK_cmpPathNum d cfg op hop _ _ _ _ _ _ hpath ?_ (eval_numAtom d n x _ _)
    show evalP (F := F) d cfg (n.plan step) x = _
    rw [evalP_numAtom, h1, h3]
  | cmpNP op n p hop hp =>
    intro fl st o hst0 hb
    have hst : BState.predInput ⟨st.depth + 1, st.firstInput, st.predInput⟩ = some step := hst0
    obtain ⟨lo, ro, hlo, hro, hq⟩ := build_cmp_inv' regexOk limit true false op hop _ _ fl st o hb
    obtain ⟨hl, hlp⟩ := build_numAtom_inv regexOk limit true false n _ _ lo step hst hlo
    refine ⟨fun pp x k hk => ?_, fun n fi fp ar e => by rw [hq] at e; cases e⟩
    obtain ⟨h1, _, h3⟩ := position_is_proximity wf cfg a step hstep pp x k hk
    have hx : validRef d x = true := childCands_valid d cfg a pp x (List.mem_of_getElem? hk)
    have hpath := (operand_pathOK (F := F) wf cfg hns hinj regexOk limit p hp
      ((build_frag (F := F) wf cfg hns hinj regexOk limit true p hp).1 rfl).1 _ ro hro
      ⟨x, k + 1, (childCands d cfg a pp).length⟩ hx).2
    rw [hq, hl]
    refine predOK_cmpNumPath d cfg op hop _ _ _ _ _ _ hpath ?_ (eval_numAtom d n x _ _)
    show evalP (F := F) d cfg (n.plan step) x = _
    rw [evalP_numAtom, h1, h3]
  | frag b hb =>
    intro fl st o _ hbld
    refine ⟨fun pp x k hk => ?_, frag_false_shape wf cfg hns hinj regexOk limit F b hb fl st o hbld⟩
    have hx : validRef d x = true := childCands_valid d cfg a pp x (List.mem_of_getElem? hk)
    exact (((build_frag (F := F) wf cfg hns hinj regexOk limit false b hb).2 rfl) fl st o hbld).2
      ⟨x, k + 1, (childCands d cfg a pp).length⟩ hx
  | and c1 c2 _ _ ih1 ih2 =>
    intro fl st o hst0 hb
    have hst : BState.predInput ⟨st.depth + 1, st.firstInput, st.predInput⟩ = some step := hst0
    obtain ⟨lo, ro, hlo, hro, hq⟩ := build_and_inv' regexOk limit true false c1 c2 fl st o hb
    have hlp : lo.st.predInput = some step :=
      (build_predInput regexOk limit true false _ _ _ lo hlo).trans hst
    obtain ⟨h1, _⟩ := ih1 _ _ lo hst hlo
    obtain ⟨h2, _⟩ := ih2 _ _ ro hlp hro
    refine ⟨fun pp x k hk => ?_, fun n fi fp ar e => by rw [hq] at e; cases e⟩
    rw [hq]
    exact predOK_and d cfg lo.q ro.q c1 c2 _ (h1 pp x k hk) (h2 pp x k hk)
  | or c1 c2 _ _ ih1 ih2 =>
    intro fl st o hst0 hb
    have hst : BState.predInput ⟨st.depth + 1, st.firstInput, st.predInput⟩ = some step := hst0
    obtain ⟨lo, ro, hlo, hro, hq⟩ := build_or_inv' regexOk limit true false c1 c2 fl st o hb
    have hlp : lo.st.predInput = some step :=
      (build_predInput regexOk limit true false _ _ _ lo hlo).trans hst
    obtain ⟨h1, _⟩ := ih1 _ _ lo hst hlo
    obtain ⟨h2, _⟩ := ih2 _ _ ro hlp hro
    refine ⟨fun pp x k hk => ?_, fun n fi fp ar e => by rw [hq] at e; cases e⟩
    rw [hq]
    exact predOK_or d cfg lo.q ro.q c1 c2 _ (h1 pp x k hk) (h2 pp x k hk)
  | not pfx c _ ih =>
    intro fl st o hst0 hb
    have hst : BState.predInput ⟨st.depth + 1, st.firstInput, st.predInput⟩ = some step := hst0
    obtain ⟨ho, hho, hq⟩ := build_not_inv' regexOk limit true false pfx c fl st o hb
    obtain ⟨h1, _⟩ := ih _ _ ho hst hho
    refine ⟨fun pp x k hk => ?_, fun n fi fp ar e => by rw [hq] at e; cases e⟩
    rw [hq]
    exact predOK_not d cfg ho.q c pfx _ (h1 pp x k hk)

/-- **`q/child::a[cond]` through `build`** (any flags), `cond` in `PosCond`: the built plan is the
plain filter or the merge form over the plan `qi` built for the input path, and it keeps, for each
input node in turn, the candidates on which the oracle's reading of `cond` — at the candidate, with
its proximity position and the number of candidates of the same parent — is true -/
theorem build_condStep (a : AxisInfo) (ha : a.axis = "child") (q : Ast) (hq : Frag true q)
    (cond : Ast) (hc : PosCond cond) (fl : Flags) (st : BState) (o : BOut)
    (hb : build regexOk limit true false (.filter (.axis a q) cond) fl st = .ok o) :
    ∃ qi, ((q = .none ∧ qi = .context) ∨
        (q ≠ .none ∧ ∃ st' o1, build regexOk limit true false q {} st' = .ok o1 ∧ qi = o1.q)) ∧
      PathShape o.q ∧
      ∀ c : Spec.Ctx, validRef d c.node = true → CondStepOK F d cfg a cond o.q qi q c := by
  obtain ⟨st1, io, co, hio, hco, hres⟩ := build_filter_inv' regexOk limit true false _ _ fl st o hb
  obtain ⟨qi, hshape, hfirst, hqi⟩ := build_child_step_inv regexOk limit true false a ha q _ rfl st1 io hio
  have hstep : planTest d cfg io.q = nodeTestM d cfg a := by
    rcases hshape with h | h <;> rw [h] <;> rfl
  obtain ⟨hcond, hnf⟩ := build_posCond (F := F) wf cfg hns hinj regexOk limit a io.q hstep cond hc
    fl _ co hfirst hco
  have hin : ∀ c : Spec.Ctx, validRef d c.node = true → PathOK (F := F) d cfg qi q c :=
    fun c hc => input_pathOK (F := F) wf cfg hns hinj regexOk limit q hq qi hqi c hc
  refine ⟨qi, hqi, ?_, fun c hc => ?_⟩
  · rcases hres hnf with h | ⟨_, parent, _, h⟩ <;> rw [h] <;> trivial
  · rcases hshape with hio' | hio'
    · rcases hres hnf with h | ⟨_, parent, hpar, h⟩
      · rw [h, hio']
        exact condStep_filter (F := F) wf cfg hns a ha co.q cond hcond qi q c (hin c hc)
      · rw [hio'] at hpar
        cases hpar
        rw [h, hio']
        exact condStep_merge (F := F) wf cfg hns a ha co.q cond hcond qi q c (hin c hc)
    · rcases hres hnf with h | ⟨_, parent, hpar, h⟩
      · rw [h, hio']
        exact condStep_filter_cached (F := F) wf cfg hns a ha co.q cond hcond qi q c (hin c hc)
      · rw [hio'] at hpar
        cases hpar
        rw [h, hio']
        exact condStep_merge_cached (F := F) wf cfg hns a ha co.q cond hcond qi q c (hin c hc)

/-! ## the oracle's verdict, spelled out -/

omit wf hns hinj in
theorem condTruth_of_eval (cond : Ast) (x : Ref) (pos size : Nat) (sv : Spec.Value F)
    (g : Option (List (List Ref)))
    (h : Spec.eval (F := F) d cond ⟨x, pos, size⟩ = .ok (.val sv g)) (hnn : NotNum sv) :
    condTruth F d cond x pos size = Spec.toBool sv := by
  simp only [condTruth, h, Spec.Res.value, predTruth_notNum _ hnn]

omit wf hns hinj in
/-- `position() op n`: the comparison of the position with the literal -/
theorem condTruth_posCmp (cop : Spec.CmpOp) (pfx lex : String) (x : Ref) (pos size : Nat) :
    condTruth F d (PosForm.posCmp cop pfx lex).ast x pos size =
      Spec.cmpNum cop (ofNat pos : F) (Spec.strToNum lex) := by
  rw [condTruth_of_eval (F := F) _ x pos size _ none (eval_form d (.posCmp cop pfx lex) x pos size) trivial]
  rfl

/-- a boolean predicate of the C02 fragment: its truth at the node, whatever position and size -/
theorem condTruth_frag (b : Ast) (hb : Frag false b) (x : Ref) (hx : validRef d x = true)
    (pos size : Nat) : condTruth F d b x pos size = holds (F := F) d b x := by
  have hp := fun pos size => (frag_sem (F := F) wf cfg hns hinj false b hb ⟨x, pos, size⟩ hx).2 rfl
  obtain ⟨_, sv, g, _, hS, _, hnn, _⟩ := hp pos size
  obtain ⟨_, res, _, hS', _, _, _, htr⟩ := predOK_holds (F := F) d cfg (predPlan b) b x hp pos size
  rw [hS] at hS'
  cases hS'
  rw [condTruth_of_eval (F := F) b x pos size sv g hS hnn]
  exact htr

omit wf hns hinj in
theorem condTruth_and (c1 c2 : Ast) (x : Ref) (pos size : Nat) (r1 r2 : Spec.Res F)
    (h1 : Spec.eval (F := F) d c1 ⟨x, pos, size⟩ = .ok r1) (h2 : Spec.eval (F := F) d c2 ⟨x, pos, size⟩ = .ok r2) :
    condTruth F d (.oper "and" c1 c2) x pos size = (Spec.toBool r1.value && Spec.toBool r2.value) := by
  simp only [condTruth, eval_and d c1 c2 _ r1 r2 h1 h2, Spec.Res.value, Spec.predTruth, Spec.toBool]

omit wf hns hinj in
theorem condTruth_or (c1 c2 : Ast) (x : Ref) (pos size : Nat) (r1 r2 : Spec.Res F)
    (h1 : Spec.eval (F := F) d c1 ⟨x, pos, size⟩ = .ok r1) (h2 : Spec.eval (F := F) d c2 ⟨x, pos, size⟩ = .ok r2) :
    condTruth F d (.oper "or" c1 c2) x pos size = (Spec.toBool r1.value || Spec.toBool r2.value) := by
  simp only [condTruth, eval_or d c1 c2 _ r1 r2 h1 h2, Spec.Res.value, Spec.predTruth, Spec.toBool]

/-! ## the forms of the task: a boolean predicate combined with `position() op n` -/

/-- `[b and position() op n]`, `[position() op n and b]`, `[b or position() op n]`,
`[position() op n or b]` -/
inductive MixShape
  | andPos | posAnd | orPos | posOr

/-- the parse tree of the combination of the boolean predicate `b` with the positional test `f` -/
def MixShape.ast : MixShape → Ast → Ast → Ast
  | .andPos, b, f => .oper "and" b f
  | .posAnd, b, f => .oper "and" f b
  | .orPos, b, f => .oper "or" b f
  | .posOr, b, f => .oper "or" f b

/-- the verdict: from the truth of `b` at the node and the truth of the positional test -/
def MixShape.comb : MixShape → Bool → Bool → Bool
  | .andPos, tb, tf | .posAnd, tb, tf => tb && tf
  | .orPos, tb, tf | .posOr, tb, tf => tb || tf

omit wf hns hinj in
theorem posCond_mix (s : MixShape) (b f : Ast) (hb : Frag false b) (hf : PosCond f) :
    PosCond (s.ast b f) := by
  cases s
  · exact .and _ _ (.frag b hb) hf
  · exact .and _ _ hf (.frag b hb)
  · exact .or _ _ (.frag b hb) hf
  · exact .or _ _ hf (.frag b hb)

/-- the oracle's verdict on `b and position() op n` (and the three other arrangements) at a
candidate: `b` holds at the node, and/or the candidate's position compares with `n` -/
theorem condTruth_mix (s : MixShape) (b : Ast) (hb : Frag false b) (cop : Spec.CmpOp)
    (pfx lex : String) (x : Ref) (hx : validRef d x = true) (pos size : Nat) :
    condTruth F d (s.ast b (PosForm.posCmp cop pfx lex).ast) x pos size =
      s.comb (holds (F := F) d b x) (Spec.cmpNum cop (ofNat pos : F) (Spec.strToNum lex)) := by
  obtain ⟨_, r1, _, h1, _, _, _, ht1⟩ := predOK_holds (F := F) d cfg (predPlan b) b x
    (fun pos size => (frag_sem (F := F) wf cfg hns hinj false b hb ⟨x, pos, size⟩ hx).2 rfl) pos size
  have h2 := eval_form (F := F) d (.posCmp cop pfx lex) x pos size
  have ht2 : Spec.toBool (Spec.Res.val ((PosForm.posCmp cop pfx lex).specVal (F := F) pos size) none).value =
      Spec.cmpNum cop (ofNat pos : F) (Spec.strToNum lex) := rfl
  cases s
  · rw [MixShape.ast, condTruth_and (F := F) _ _ x pos size _ _ h1 h2, ht1, ht2]; rfl
  · rw [MixShape.ast, condTruth_and (F := F) _ _ x pos size _ _ h2 h1, ht1, ht2, Bool.and_comm]; rfl
  · rw [MixShape.ast, condTruth_or (F := F) _ _ x pos size _ _ h1 h2, ht1, ht2]; rfl
  · rw [MixShape.ast, condTruth_or (F := F) _ _ x pos size _ _ h2 h1, ht1, ht2, Bool.or_comm]; rfl

end Sem

end XPathV.PosSem
