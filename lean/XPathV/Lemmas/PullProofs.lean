import XPathV.Model.Pull
/-!
# The pull machine refines the sequence model
-/
namespace XPathV.Model
open XPathV

/-! ## Navigator facts (no well-formedness needed) -/

theorem endFrom_ge (di : Nat) : ∀ (xs : List Rec) (j : Nat), j ≤ endFrom di xs j
  | [], j => by simp [endFrom]
  | x :: xs, j => by
    simp only [endFrom]
    split
    · exact Nat.le_refl _
    · have := endFrom_ge di xs (j+1); omega

theorem moveNext_some {d : Doc} {r r' : Ref} (h : Nav.moveNext d r = some r') :
    ∃ i j, r = .node i ∧ r' = .node j ∧ i < j ∧ j < d.length ∧ dep d j = dep d i := by
  cases r with
  | attr i k => simp [Nav.moveNext] at h
  | node i =>
    simp only [Nav.moveNext] at h
    split at h
    · rename_i hc
      injection h with h
      refine ⟨i, _, rfl, h.symm, ?_, hc.2.1, hc.2.2⟩
      have := endFrom_ge (dep d i) (d.drop (i+1)) (i+1)
      simp only [endOf]; omega
    · cases h

theorem moveChild_some {d : Doc} {r r' : Ref} (h : Nav.moveChild d r = some r') :
    ∃ i, r = .node i ∧ r' = .node (i+1) ∧ i + 1 < d.length := by
  cases r with
  | attr i k => simp [Nav.moveChild] at h
  | node i =>
    simp only [Nav.moveChild] at h
    split at h
    · rename_i hc
      injection h with h
      exact ⟨i, rfl, h.symm, hc.1⟩
    · cases h

theorem parentFrom_some {d : Doc} {di : Nat} : ∀ {j q : Nat}, parentFrom d di j = some q →
    q < j ∧ dep d q < di ∧ ∀ k, q < k → k < j → di ≤ dep d k
  | 0, q, h => by simp [parentFrom] at h
  | j+1, q, h => by
    simp only [parentFrom] at h
    split at h
    · rename_i hc
      injection h with h; subst h
      exact ⟨by omega, hc, fun k h1 h2 => by omega⟩
    · rename_i hc
      obtain ⟨h1, h2, h3⟩ := parentFrom_some h
      refine ⟨by omega, h2, fun k hk1 hk2 => ?_⟩
      by_cases hkj : k = j
      · subst hkj; omega
      · exact h3 k hk1 (by omega)

/-- climbing from `p`, with every index in `(p, i]` strictly deeper than `p`, lands beyond `i` -/
theorem climb_gt {d : Doc} : ∀ (level : Nat) (p : Ref) (i : Nat) {r' : Ref} {l' : Nat},
    p.idx ≤ i → (∀ k, p.idx < k → k ≤ i → dep d p.idx < dep d k) →
    climb d level p = some (r', l') → i < r'.idx ∧ r'.idx < d.length
  | 0, _, _, _, _, _, _, h => by simp [climb] at h
  | level+1, p, i, r', l', hp, hdeep, h => by
    simp only [climb] at h
    split at h
    · rename_i n hn
      injection h with h
      obtain ⟨a, b, rfl, rfl, hab, hb, hdep⟩ := moveNext_some hn
      injection h with h1 h2
      subst h1
      simp only [Ref.idx] at *
      refine ⟨?_, hb⟩
      apply Nat.lt_of_not_le
      intro hbi
      have := hdeep b hab hbi
      omega
    · split at h
      · rename_i q hq
        cases p with
        | attr a k =>
          simp only [Nav.moveParent] at hq
          injection hq with hq; subst hq
          exact climb_gt level (.node a) i hp hdeep h
        | node a =>
          simp only [Nav.moveParent] at hq
          cases hpf : parentFrom d (dep d a) a with
          | none => simp [hpf] at hq
          | some q' =>
            simp only [hpf, Option.map] at hq
            injection hq with hq; subst hq
            obtain ⟨h1, h2, h3⟩ := parentFrom_some hpf
            simp only [Ref.idx] at *
            refine climb_gt level (.node q') i (by simp only [Ref.idx]; omega) ?_ h
            intro k hk1 hk2
            simp only [Ref.idx] at *
            by_cases hka : k < a
            · have := h3 k hk1 hka; omega
            · by_cases hka' : k = a
              · subst hka'; exact h2
              · have := hdeep k (by omega) hk2; omega
      · cases h

theorem stepD_gt {d : Doc} {r r' : Ref} {l l' : Nat} (h : stepD d r l = some (r', l')) :
    r.idx < r'.idx ∧ r'.idx < d.length := by
  simp only [stepD] at h
  split at h
  · rename_i c hc
    obtain ⟨i, rfl, rfl, hi⟩ := moveChild_some hc
    injection h with h; injection h with h1 h2; subst h1
    simp only [Ref.idx]; omega
  · exact climb_gt l r r.idx (Nat.le_refl _) (fun k h1 h2 => by omega) h

/-! ## The fuel of the sequence-model walks is never the limit -/

theorem walkD_stable {d : Doc} : ∀ (f f' : Nat) (r : Ref) (l : Nat),
    d.length - 1 - r.idx ≤ f → d.length - 1 - r.idx ≤ f' → walkD d f r l = walkD d f' r l
  | 0, 0, _, _, _, _ => rfl
  | 0, f'+1, r, l, h, _ => by
    simp only [walkD]
    cases hs : stepD d r l with
    | none => rfl
    | some p => obtain ⟨n, l'⟩ := p; have := stepD_gt hs; omega
  | f+1, 0, r, l, _, h => by
    simp only [walkD]
    cases hs : stepD d r l with
    | none => rfl
    | some p => obtain ⟨n, l'⟩ := p; have := stepD_gt hs; omega
  | f+1, f'+1, r, l, h, h' => by
    simp only [walkD]
    cases hs : stepD d r l with
    | none => rfl
    | some p =>
      obtain ⟨n, l'⟩ := p
      have := stepD_gt hs
      simp only
      rw [walkD_stable f f' n l' (by omega) (by omega)]

/-- the descendant walk, unfolded one step at full fuel -/
theorem walkD_unfold (d : Doc) (r : Ref) (l : Nat) :
    walkD d d.length r l =
      match stepD d r l with
      | none => []
      | some (n, l') => (n, l') :: walkD d d.length n l' := by
  rw [walkD_stable d.length (d.length + 1) r l (by omega) (by omega)]
  simp only [walkD]
  cases hs : stepD d r l with
  | none => rfl
  | some p =>
    obtain ⟨n, l'⟩ := p
    simp only

theorem sibsFrom_stable {d : Doc} : ∀ (f f' i : Nat), i < d.length →
    d.length - i ≤ f → d.length - i ≤ f' → sibsFrom d f (.node i) = sibsFrom d f' (.node i)
  | 0, _, _, hi, h, _ => by omega
  | _+1, 0, _, hi, _, h => by omega
  | f+1, f'+1, i, hi, h, h' => by
    simp only [sibsFrom]
    cases hn : Nav.moveNext d (.node i) with
    | none => rfl
    | some n =>
      obtain ⟨a, b, ha, rfl, hab, hb, _⟩ := moveNext_some hn
      injection ha with ha; subst ha
      simp only
      rw [sibsFrom_stable f f' b hb (by omega) (by omega)]

theorem sibsFrom_unfold {d : Doc} {i : Nat} (hi : i < d.length) :
    sibsFrom d d.length (.node i) = .node i :: nextSibsM d (.node i) := by
  rw [sibsFrom_stable d.length (d.length + 1) i hi (by omega) (by omega)]
  simp only [sibsFrom, nextSibsM]

theorem attrChain_stable {d : Doc} : ∀ (f f' : Nat) (r : Ref),
    (match r with
      | .node i => (recAt d i).attrs.length
      | .attr i k => (recAt d i).attrs.length - (k + 1)) ≤ f →
    (match r with
      | .node i => (recAt d i).attrs.length
      | .attr i k => (recAt d i).attrs.length - (k + 1)) ≤ f' →
    attrChain d f r = attrChain d f' r
  | 0, 0, _, _, _ => rfl
  | 0, f'+1, r, h, _ => by
    simp only [attrChain]
    cases r with
    | node i => simp only [Nav.moveNextAttr]; simp only at h; rw [if_neg (by omega)]
    | attr i k => simp only [Nav.moveNextAttr]; simp only at h; rw [if_neg (by omega)]
  | f+1, 0, r, _, h => by
    simp only [attrChain]
    cases r with
    | node i => simp only [Nav.moveNextAttr]; simp only at h; rw [if_neg (by omega)]
    | attr i k => simp only [Nav.moveNextAttr]; simp only at h; rw [if_neg (by omega)]
  | f+1, f'+1, r, h, h' => by
    simp only [attrChain]
    cases r with
    | node i =>
      simp only [Nav.moveNextAttr]; simp only at h h'
      by_cases hc : (recAt d i).attrs.length > 0
      · rw [if_pos hc]; simp only
        rw [attrChain_stable (d := d) f f' (.attr i 0) (by simp only; omega) (by simp only; omega)]
      · rw [if_neg hc]
    | attr i k =>
      simp only [Nav.moveNextAttr]; simp only at h h'
      by_cases hc : k + 1 < (recAt d i).attrs.length
      · rw [if_pos hc]; simp only
        rw [attrChain_stable (d := d) f f' (.attr i (k+1)) (by simp only; omega) (by simp only; omega)]
      · rw [if_neg hc]

/-! ## One-step unfoldings of the candidate lists -/

theorem sibCands_unfold (d : Doc) (n : Ref) (first : Bool) :
    sibCands d n first =
      match (if first then Nav.moveChild d n else Nav.moveNext d n) with
      | none => []
      | some c => c :: sibCands d c false := by
  cases first with
  | true =>
    simp only [sibCands, childrenM, if_true]
    cases hc : Nav.moveChild d n with
    | none => rfl
    | some c =>
      obtain ⟨i, rfl, rfl, hi⟩ := moveChild_some hc
      simp only [Bool.false_eq_true, if_false]
      exact sibsFrom_unfold hi
  | false =>
    simp only [sibCands, nextSibsM, Bool.false_eq_true, if_false]
    cases hc : Nav.moveNext d n with
    | none => rfl
    | some c =>
      obtain ⟨i, j, rfl, rfl, _, hj, _⟩ := moveNext_some hc
      simp only
      exact sibsFrom_unfold hj

theorem attrCands_unfold (d : Doc) (n : Ref) (isAttr : Bool) :
    attrCands d n isAttr =
      if isAttr then []
      else match Nav.moveNextAttr d n with
        | none => []
        | some c => c :: attrCands d c isAttr := by
  cases isAttr with
  | true => simp [attrCands]
  | false =>
    simp only [attrCands, Bool.false_eq_true, if_false]
    rw [attrChain]
    cases n with
    | node i =>
      simp only [Nav.moveNextAttr, Ref.idx]
      by_cases hc : (recAt d i).attrs.length > 0
      · rw [if_pos hc]; simp only
        rw [attrChain_stable (d := d) _ ((recAt d i).attrs.length + 1) (.attr i 0)
          (by simp only; omega) (by simp only; omega)]
      · rw [if_neg hc]
    | attr i k =>
      simp only [Nav.moveNextAttr, Ref.idx]
      by_cases hc : k + 1 < (recAt d i).attrs.length
      · rw [if_pos hc]; simp only
        rw [attrChain_stable (d := d) _ ((recAt d i).attrs.length + 1) (.attr i (k+1))
          (by simp only; omega) (by simp only; omega)]
      · rw [if_neg hc]

theorem attrCands_fresh (d : Doc) (n : Ref) : attrCands d n n.isAttr = attrsM d n := rfl

/-! ## The literal climbing loop agrees with the sequence model's `climb` -/

theorem pclimb_stuck {d : Doc} {r : Ref} (h1 : Nav.moveNext d r = none) (h2 : Nav.moveParent d r = none) :
    ∀ level, pclimb d level r = none
  | 0 => rfl
  | level+1 => by simp only [pclimb, h1, h2, Option.getD]; exact pclimb_stuck h1 h2 level

theorem pclimb_eq (d : Doc) : ∀ (level : Nat) (r : Ref), pclimb d level r = climb d level r
  | 0, _ => rfl
  | level+1, r => by
    simp only [pclimb, climb]
    cases h1 : Nav.moveNext d r with
    | some n => rfl
    | none =>
      cases h2 : Nav.moveParent d r with
      | some p => simp only [Option.getD]; exact pclimb_eq d level p
      | none => simp only [Option.getD]; exact pclimb_stuck h1 h2 level

theorem pstep_eq (d : Doc) (r : Ref) (level : Nat) : pstep d r level = stepD d r level := by
  cases h : Nav.moveChild d r <;> simp [pstep, stepD, pclimb_eq, h]

/-! ## The closure bodies return the head of their filtered candidate list -/

/-- head of a list as a loop outcome -/
def hdR {α : Type} : List α → Res α
  | [] => .done
  | x :: _ => .yield x

theorem childIter_spec (d : Doc) (t : Ref → Bool) : ∀ (k : Nat) (n : Ref) (first : Bool),
    (sibCands d n first).length ≤ k →
    ∃ f0, (∀ f, f0 ≤ f → childIter d t f n first = hdR ((sibCands d n first).filter t)) ∧
      (∀ j rest, (sibCands d n first).filter t = j :: rest → (sibCands d j false).filter t = rest) := by
  intro k
  induction k with
  | zero =>
    intro n first hlen
    have hnil : sibCands d n first = [] := List.eq_nil_of_length_eq_zero (by omega)
    have hu := sibCands_unfold d n first
    rw [hnil] at hu
    cases hm : (if first then Nav.moveChild d n else Nav.moveNext d n) with
    | some c => rw [hm] at hu; cases hu
    | none =>
      refine ⟨1, fun f hf => ?_, fun j rest h => by simp [hnil] at h⟩
      obtain ⟨f', rfl⟩ : ∃ f', f = f' + 1 := ⟨f - 1, by omega⟩
      simp only [childIter, hm, hnil, List.filter_nil, hdR]
  | succ k ih =>
    intro n first hlen
    have hu := sibCands_unfold d n first
    cases hm : (if first then Nav.moveChild d n else Nav.moveNext d n) with
    | none =>
      rw [hm] at hu; simp only at hu
      refine ⟨1, fun f hf => ?_, fun j rest h => by simp [hu] at h⟩
      obtain ⟨f', rfl⟩ : ∃ f', f = f' + 1 := ⟨f - 1, by omega⟩
      simp only [childIter, hm, hu, List.filter_nil, hdR]
    | some c =>
      rw [hm] at hu; simp only at hu
      have hlen' : (sibCands d c false).length ≤ k := by
        rw [hu] at hlen; simp only [List.length_cons] at hlen; omega
      by_cases htc : t c = true
      · refine ⟨1, fun f hf => ?_, fun j rest h => ?_⟩
        · obtain ⟨f', rfl⟩ : ∃ f', f = f' + 1 := ⟨f - 1, by omega⟩
          simp only [childIter, hm, hu, List.filter_cons, htc, if_true, hdR]
        · rw [hu, List.filter_cons, if_pos htc] at h
          injection h with h1 h2
          subst h1; exact h2
      · obtain ⟨f0, h1, h2⟩ := ih c false hlen'
        refine ⟨f0 + 1, fun f hf => ?_, fun j rest h => ?_⟩
        · obtain ⟨f', rfl⟩ : ∃ f', f = f' + 1 := ⟨f - 1, by omega⟩
          simp only [childIter, hm, hu, List.filter_cons, htc, if_false, Bool.false_eq_true]
          exact h1 f' (by omega)
        · rw [hu, List.filter_cons, if_neg htc] at h
          exact h2 j rest h

theorem attrIter_spec (d : Doc) (t : Ref → Bool) : ∀ (k : Nat) (n : Ref) (isAttr : Bool),
    (attrCands d n isAttr).length ≤ k →
    ∃ f0, (∀ f, f0 ≤ f → attrIter d t f n isAttr = hdR ((attrCands d n isAttr).filter t)) ∧
      (∀ j rest, (attrCands d n isAttr).filter t = j :: rest → (attrCands d j isAttr).filter t = rest) := by
  intro k
  induction k with
  | zero =>
    intro n isAttr hlen
    have hnil : attrCands d n isAttr = [] := List.eq_nil_of_length_eq_zero (by omega)
    have hu := attrCands_unfold d n isAttr
    rw [hnil] at hu
    refine ⟨1, fun f hf => ?_, fun j rest h => by simp [hnil] at h⟩
    obtain ⟨f', rfl⟩ : ∃ f', f = f' + 1 := ⟨f - 1, by omega⟩
    cases isAttr with
    | true => simp [attrIter, hnil, hdR]
    | false =>
      simp only [Bool.false_eq_true, if_false] at hu
      cases hm : Nav.moveNextAttr d n with
      | some c => rw [hm] at hu; cases hu
      | none => simp [attrIter, hm, hnil, hdR]
  | succ k ih =>
    intro n isAttr hlen
    have hu := attrCands_unfold d n isAttr
    cases isAttr with
    | true =>
      simp only [if_true] at hu
      refine ⟨1, fun f hf => ?_, fun j rest h => by simp [hu] at h⟩
      obtain ⟨f', rfl⟩ : ∃ f', f = f' + 1 := ⟨f - 1, by omega⟩
      simp [attrIter, hu, hdR]
    | false =>
      simp only [Bool.false_eq_true, if_false] at hu
      cases hm : Nav.moveNextAttr d n with
      | none =>
        rw [hm] at hu; simp only at hu
        refine ⟨1, fun f hf => ?_, fun j rest h => by simp [hu] at h⟩
        obtain ⟨f', rfl⟩ : ∃ f', f = f' + 1 := ⟨f - 1, by omega⟩
        simp [attrIter, hm, hu, hdR]
      | some c =>
        rw [hm] at hu; simp only at hu
        have hlen' : (attrCands d c false).length ≤ k := by
          rw [hu] at hlen; simp only [List.length_cons] at hlen; omega
        by_cases htc : t c = true
        · refine ⟨1, fun f hf => ?_, fun j rest h => ?_⟩
          · obtain ⟨f', rfl⟩ : ∃ f', f = f' + 1 := ⟨f - 1, by omega⟩
            simp [attrIter, hm, hu, htc, hdR]
          · rw [hu, List.filter_cons, if_pos htc] at h
            injection h with h1 h2
            subst h1; exact h2
        · obtain ⟨f0, h1, h2⟩ := ih c false hlen'
          refine ⟨f0 + 1, fun f hf => ?_, fun j rest h => ?_⟩
          · obtain ⟨f', rfl⟩ : ∃ f', f = f' + 1 := ⟨f - 1, by omega⟩
            simp only [attrIter, hm, hu, List.filter_cons, htc, if_false, Bool.false_eq_true]
            exact h1 f' (by omega)
          · rw [hu, List.filter_cons, if_neg htc] at h
            exact h2 j rest h

theorem descLoop_spec (d : Doc) (t : Ref → Bool) : ∀ (k : Nat) (n : Ref) (level : Nat),
    (walkD d d.length n level).length ≤ k →
    ∃ f0, (∀ f, f0 ≤ f →
        descLoop d t f n level = hdR ((walkD d d.length n level).filter (fun p => t p.1))) ∧
      (∀ j l rest, (walkD d d.length n level).filter (fun p => t p.1) = (j, l) :: rest →
        (walkD d d.length j l).filter (fun p => t p.1) = rest) := by
  intro k
  induction k with
  | zero =>
    intro n level hlen
    have hnil : walkD d d.length n level = [] := List.eq_nil_of_length_eq_zero (by omega)
    have hu := walkD_unfold d n level
    rw [hnil] at hu
    cases hm : stepD d n level with
    | some c => rw [hm] at hu; cases hu
    | none =>
      refine ⟨1, fun f hf => ?_, fun j l rest h => by simp [hnil] at h⟩
      obtain ⟨f', rfl⟩ : ∃ f', f = f' + 1 := ⟨f - 1, by omega⟩
      simp only [descLoop, pstep_eq, hm, hnil, List.filter_nil, hdR]
  | succ k ih =>
    intro n level hlen
    have hu := walkD_unfold d n level
    cases hm : stepD d n level with
    | none =>
      rw [hm] at hu; simp only at hu
      refine ⟨1, fun f hf => ?_, fun j l rest h => by simp [hu] at h⟩
      obtain ⟨f', rfl⟩ : ∃ f', f = f' + 1 := ⟨f - 1, by omega⟩
      simp only [descLoop, pstep_eq, hm, hu, List.filter_nil, hdR]
    | some c =>
      obtain ⟨c, lc⟩ := c
      rw [hm] at hu; simp only at hu
      have hlen' : (walkD d d.length c lc).length ≤ k := by
        rw [hu] at hlen; simp only [List.length_cons] at hlen; omega
      by_cases htc : t c = true
      · refine ⟨1, fun f hf => ?_, fun j l rest h => ?_⟩
        · obtain ⟨f', rfl⟩ : ∃ f', f = f' + 1 := ⟨f - 1, by omega⟩
          simp only [descLoop, pstep_eq, hm, hu, List.filter_cons, htc, if_true, hdR]
        · rw [hu, List.filter_cons, if_pos htc] at h
          injection h with h1 h2
          injection h1 with h1a h1b
          subst h1a; subst h1b; exact h2
      · obtain ⟨f0, h1, h2⟩ := ih c lc hlen'
        refine ⟨f0 + 1, fun f hf => ?_, fun j l rest h => ?_⟩
        · obtain ⟨f', rfl⟩ : ∃ f', f = f' + 1 := ⟨f - 1, by omega⟩
          simp only [descLoop, pstep_eq, hm, hu, List.filter_cons, htc, if_false, Bool.false_eq_true]
          exact h1 f' (by omega)
        · rw [hu, List.filter_cons, if_neg htc] at h
          exact h2 j l rest h

/-! ## Numbering -/

theorem zipIdx_numFrom : ∀ (l : List Ref) (k : Nat),
    (l.zipIdx k).map (fun (r, i) => (⟨r, i + 1, 0⟩ : Item)) = numFrom k l
  | [], _ => rfl
  | r :: rs, k => by simp only [List.zipIdx_cons, List.map_cons, numFrom, zipIdx_numFrom rs (k+1)]

theorem numbered_eq (l : List Ref) : numbered l = numFrom 0 l := zipIdx_numFrom l 0

theorem zipIdx_numFromL : ∀ (l : List (Ref × Nat)) (k : Nat),
    (l.zipIdx k).map (fun (p, i) => (⟨p.1, i + 1, p.2⟩ : Item)) = numFromL k l
  | [], _ => rfl
  | r :: rs, k => by simp only [List.zipIdx_cons, List.map_cons, numFromL, zipIdx_numFromL rs (k+1)]

theorem descItems_eq (d : Doc) (cfg : ECfg) (a : AxisInfo) (s : Bool) (r : Ref) :
    descItems d cfg a s r =
      numFromL 0 ((if s && test d cfg a r then [(r, 0)] else [])
        ++ (walkD d d.length r 0).filter (fun p => test d cfg a p.1)) := by
  simp only [descItems, descM]
  exact zipIdx_numFromL _ 0

/-! ## The one-pull lemma -/

section
variable (d : Doc) (cfg : ECfg) (cur : Ref)

/-- One `Select` from state `q`, given enough fuel: it answers the head of `rem q`, the new state's
`rem` is the tail, the configuration is unchanged, and `position()`/`depth()` are those of the item. -/
def Step (q : PQ) : Prop :=
  ∃ q' f0, (∀ f, f0 ≤ f → PQ.select d cfg cur f q = (headRes (rem d cfg cur q), q')) ∧
    rem d cfg cur q' = (rem d cfg cur q).tail ∧ q'.plan = q.plan ∧
    (∀ x xs, rem d cfg cur q = x :: xs → q'.position = x.pos ∧ q'.depth = x.lvl)

theorem step_self (n : Nat) (ih : ∀ q : PQ, sizeOf q.plan ≤ n → Step d cfg cur q) (a : AxisInfo) :
    ∀ (l : List Item) (inp : PQ), sizeOf inp.plan ≤ n → rem d cfg cur inp = l →
      Step d cfg cur (.self a inp) := by
  intro l
  induction l with
  | nil =>
    intro inp hsz hr
    obtain ⟨inp', f1, hsel, hrem, hplan, _⟩ := ih inp hsz
    refine ⟨.self a inp', f1 + 1, fun f hf => ?_, ?_, ?_, ?_⟩
    · obtain ⟨f', rfl⟩ : ∃ f', f = f' + 1 := ⟨f - 1, by omega⟩
      simp only [PQ.select, hsel f' (by omega), hr, headRes, rem, List.map_nil, List.filter_nil, plain]
    · simp only [rem, hrem, hr, List.tail_nil, List.map_nil, List.filter_nil, plain]
    · simp only [PQ.plan, hplan]
    · intro x xs h; simp [rem, hr, plain] at h
  | cons x xs ihl =>
    intro inp hsz hr
    obtain ⟨inp', f1, hsel, hrem, hplan, _⟩ := ih inp hsz
    rw [hr] at hrem; simp only [List.tail_cons] at hrem
    by_cases ht : test d cfg a x.r = true
    · refine ⟨.self a inp', f1 + 1, fun f hf => ?_, ?_, ?_, ?_⟩
      · obtain ⟨f', rfl⟩ : ∃ f', f = f' + 1 := ⟨f - 1, by omega⟩
        simp only [PQ.select, hsel f' (by omega), hr, headRes, rem, List.map_cons, List.filter_cons, ht,
          if_true, plain]
      · simp only [rem, hrem, hr, List.map_cons, List.filter_cons, ht, if_true, plain, List.tail_cons]
      · simp only [PQ.plan, hplan]
      · intro y ys h
        simp only [rem, hr, List.map_cons, List.filter_cons, ht, if_true, plain] at h
        injection h with h1 h2
        subst h1
        simp [PQ.position, PQ.depth]
    · obtain ⟨q'', f2, hsel2, hrem2, hplan2, hpos2⟩ := ihl inp' (by rw [hplan]; exact hsz) hrem
      have heq : rem d cfg cur (.self a inp) = rem d cfg cur (.self a inp') := by
        simp only [rem, hr, hrem, List.map_cons, List.filter_cons, ht, if_false, Bool.false_eq_true]
      refine ⟨q'', max f1 f2 + 1, fun f hf => ?_, ?_, ?_, ?_⟩
      · obtain ⟨f', rfl⟩ : ∃ f', f = f' + 1 := ⟨f - 1, by omega⟩
        have hs : PQ.select d cfg cur f' inp = (.yield x.r, inp') := by
          rw [hsel f' (by omega), hr]; rfl
        simp only [PQ.select, hs, ht, if_false, Bool.false_eq_true]
        rw [hsel2 f' (by omega), heq]
      · rw [heq]; exact hrem2
      · rw [hplan2]; simp only [PQ.plan, hplan]
      · rw [heq]; exact hpos2

theorem step_parent (n : Nat) (ih : ∀ q : PQ, sizeOf q.plan ≤ n → Step d cfg cur q) (a : AxisInfo) :
    ∀ (l : List Item) (inp : PQ), sizeOf inp.plan ≤ n → rem d cfg cur inp = l →
      Step d cfg cur (.parent a inp) := by
  intro l
  induction l with
  | nil =>
    intro inp hsz hr
    obtain ⟨inp', f1, hsel, hrem, hplan, _⟩ := ih inp hsz
    refine ⟨.parent a inp', f1 + 1, fun f hf => ?_, ?_, ?_, ?_⟩
    · obtain ⟨f', rfl⟩ : ∃ f', f = f' + 1 := ⟨f - 1, by omega⟩
      simp only [PQ.select, hsel f' (by omega), hr, headRes, rem, List.flatMap_nil]
    · simp only [rem, hrem, hr, List.tail_nil, List.flatMap_nil]
    · simp only [PQ.plan, hplan]
    · intro x xs h; simp [rem, hr] at h
  | cons x xs ihl =>
    intro inp hsz hr
    obtain ⟨inp', f1, hsel, hrem, hplan, _⟩ := ih inp hsz
    rw [hr] at hrem; simp only [List.tail_cons] at hrem
    have hs : ∀ f, f1 ≤ f → PQ.select d cfg cur f inp = (.yield x.r, inp') := by
      intro f hf; rw [hsel f hf, hr]; rfl
    obtain ⟨q'', f2, hsel2, hrem2, hplan2, hpos2⟩ := ihl inp' (by rw [hplan]; exact hsz) hrem
    cases hp : Nav.moveParent d x.r with
    | none =>
      have heq : rem d cfg cur (.parent a inp) = rem d cfg cur (.parent a inp') := by
        simp [rem, hr, hrem, hp, plain]
      refine ⟨q'', max f1 f2 + 1, fun f hf => ?_, ?_, ?_, ?_⟩
      · obtain ⟨f', rfl⟩ : ∃ f', f = f' + 1 := ⟨f - 1, by omega⟩
        simp only [PQ.select, hs f' (by omega), hp]
        rw [hsel2 f' (by omega), heq]
      · rw [heq]; exact hrem2
      · rw [hplan2]; simp only [PQ.plan, hplan]
      · rw [heq]; exact hpos2
    | some p =>
      by_cases ht : test d cfg a p = true
      · refine ⟨.parent a inp', f1 + 1, fun f hf => ?_, ?_, ?_, ?_⟩
        · obtain ⟨f', rfl⟩ : ∃ f', f = f' + 1 := ⟨f - 1, by omega⟩
          simp [PQ.select, hs f' (by omega), hp, ht, rem, hr, plain, headRes]
        · simp [rem, hrem, hr, hp, ht, plain]
        · simp only [PQ.plan, hplan]
        · intro y ys h
          simp [rem, hr, hp, ht, plain] at h
          obtain ⟨h1, _⟩ := h
          subst h1
          simp [PQ.position, PQ.depth]
      · have heq : rem d cfg cur (.parent a inp) = rem d cfg cur (.parent a inp') := by
          simp [rem, hr, hrem, hp, ht, plain]
        refine ⟨q'', max f1 f2 + 1, fun f hf => ?_, ?_, ?_, ?_⟩
        · obtain ⟨f', rfl⟩ : ∃ f', f = f' + 1 := ⟨f - 1, by omega⟩
          simp only [PQ.select, hs f' (by omega), hp, ht, if_false, Bool.false_eq_true]
          rw [hsel2 f' (by omega), heq]
        · rw [heq]; exact hrem2
        · rw [hplan2]; simp only [PQ.plan, hplan]
        · rw [heq]; exact hpos2

theorem step_child_some (a : AxisInfo) (inp : PQ)
    (hn : ∀ pos, Step d cfg cur (.child a inp none pos)) (n : Ref) (first : Bool) (pos : Nat) :
    Step d cfg cur (.child a inp (some (n, first)) pos) := by
  obtain ⟨f1, h1, h2⟩ := childIter_spec d (test d cfg a) _ n first (Nat.le_refl _)
  cases hc : (sibCands d n first).filter (test d cfg a) with
  | nil =>
    obtain ⟨q'', f2, hsel2, hrem2, hplan2, hpos2⟩ := hn pos
    have heq : rem d cfg cur (.child a inp (some (n, first)) pos) = rem d cfg cur (.child a inp none pos) := by
      simp [rem, hc, numFrom]
    refine ⟨q'', max f1 f2 + 1, fun f hf => ?_, ?_, ?_, ?_⟩
    · obtain ⟨f', rfl⟩ : ∃ f', f = f' + 1 := ⟨f - 1, by omega⟩
      simp only [PQ.select, h1 f' (by omega), hc, hdR]
      rw [hsel2 f' (by omega), heq]
    · rw [heq]; exact hrem2
    · rw [hplan2]; simp only [PQ.plan]
    · rw [heq]; exact hpos2
  | cons j rest =>
    have h2' := h2 j rest hc
    refine ⟨.child a inp (some (j, false)) (pos+1), f1 + 1, fun f hf => ?_, ?_, ?_, ?_⟩
    · obtain ⟨f', rfl⟩ : ∃ f', f = f' + 1 := ⟨f - 1, by omega⟩
      simp [PQ.select, h1 f' (by omega), hc, hdR, rem, numFrom, headRes]
    · simp [rem, hc, h2', numFrom]
    · simp only [PQ.plan]
    · intro y ys h
      simp [rem, hc, numFrom] at h
      obtain ⟨h, _⟩ := h
      subst h
      simp [PQ.position, PQ.depth]

theorem step_child_none (n : Nat) (ih : ∀ q : PQ, sizeOf q.plan ≤ n → Step d cfg cur q) (a : AxisInfo) :
    ∀ (l : List Item) (inp : PQ), sizeOf inp.plan ≤ n → rem d cfg cur inp = l →
      ∀ pos, Step d cfg cur (.child a inp none pos) := by
  intro l
  induction l with
  | nil =>
    intro inp hsz hr pos
    obtain ⟨inp', f1, hsel, hrem, hplan, _⟩ := ih inp hsz
    refine ⟨.child a inp' none 0, f1 + 1, fun f hf => ?_, ?_, ?_, ?_⟩
    · obtain ⟨f', rfl⟩ : ∃ f', f = f' + 1 := ⟨f - 1, by omega⟩
      simp [PQ.select, hsel f' (by omega), hr, headRes, rem]
    · simp [rem, hrem, hr]
    · simp only [PQ.plan, hplan]
    · intro x xs h; simp [rem, hr] at h
  | cons x xs ihl =>
    intro inp hsz hr pos
    obtain ⟨inp', f1, hsel, hrem, hplan, _⟩ := ih inp hsz
    rw [hr] at hrem; simp only [List.tail_cons] at hrem
    have hs : ∀ f, f1 ≤ f → PQ.select d cfg cur f inp = (.yield x.r, inp') := by
      intro f hf; rw [hsel f hf, hr]; rfl
    obtain ⟨q'', f2, hsel2, hrem2, hplan2, hpos2⟩ :=
      step_child_some d cfg cur a inp' (ihl inp' (by rw [hplan]; exact hsz) hrem) x.r true 0
    have heq : rem d cfg cur (.child a inp none pos) = rem d cfg cur (.child a inp' (some (x.r, true)) 0) := by
      simp [rem, hr, hrem, numbered_eq, sibCands]
    refine ⟨q'', max f1 f2 + 1, fun f hf => ?_, ?_, ?_, ?_⟩
    · obtain ⟨f', rfl⟩ : ∃ f', f = f' + 1 := ⟨f - 1, by omega⟩
      simp only [PQ.select, hs f' (by omega)]
      rw [hsel2 f' (by omega), heq]
    · rw [heq]; exact hrem2
    · rw [hplan2]; simp only [PQ.plan, hplan]
    · rw [heq]; exact hpos2

theorem step_attr_some (a : AxisInfo) (inp : PQ)
    (hn : Step d cfg cur (.attr a inp none)) (n : Ref) (isAttr : Bool) :
    Step d cfg cur (.attr a inp (some (n, isAttr))) := by
  obtain ⟨f1, h1, h2⟩ := attrIter_spec d (test d cfg a) _ n isAttr (Nat.le_refl _)
  cases hc : (attrCands d n isAttr).filter (test d cfg a) with
  | nil =>
    obtain ⟨q'', f2, hsel2, hrem2, hplan2, hpos2⟩ := hn
    have heq : rem d cfg cur (.attr a inp (some (n, isAttr))) = rem d cfg cur (.attr a inp none) := by
      simp [rem, hc, plain]
    refine ⟨q'', max f1 f2 + 1, fun f hf => ?_, ?_, ?_, ?_⟩
    · obtain ⟨f', rfl⟩ : ∃ f', f = f' + 1 := ⟨f - 1, by omega⟩
      simp only [PQ.select, h1 f' (by omega), hc, hdR]
      rw [hsel2 f' (by omega), heq]
    · rw [heq]; exact hrem2
    · rw [hplan2]; simp only [PQ.plan]
    · rw [heq]; exact hpos2
  | cons j rest =>
    have h2' := h2 j rest hc
    refine ⟨.attr a inp (some (j, isAttr)), f1 + 1, fun f hf => ?_, ?_, ?_, ?_⟩
    · obtain ⟨f', rfl⟩ : ∃ f', f = f' + 1 := ⟨f - 1, by omega⟩
      simp [PQ.select, h1 f' (by omega), hc, hdR, rem, plain, headRes]
    · simp [rem, hc, h2', plain]
    · simp only [PQ.plan]
    · intro y ys h
      simp [rem, hc, plain] at h
      obtain ⟨h, _⟩ := h
      subst h
      simp [PQ.position, PQ.depth]

theorem step_attr_none (n : Nat) (ih : ∀ q : PQ, sizeOf q.plan ≤ n → Step d cfg cur q) (a : AxisInfo) :
    ∀ (l : List Item) (inp : PQ), sizeOf inp.plan ≤ n → rem d cfg cur inp = l →
      Step d cfg cur (.attr a inp none) := by
  intro l
  induction l with
  | nil =>
    intro inp hsz hr
    obtain ⟨inp', f1, hsel, hrem, hplan, _⟩ := ih inp hsz
    refine ⟨.attr a inp' none, f1 + 1, fun f hf => ?_, ?_, ?_, ?_⟩
    · obtain ⟨f', rfl⟩ : ∃ f', f = f' + 1 := ⟨f - 1, by omega⟩
      simp [PQ.select, hsel f' (by omega), hr, headRes, rem]
    · simp [rem, hrem, hr]
    · simp only [PQ.plan, hplan]
    · intro x xs h; simp [rem, hr] at h
  | cons x xs ihl =>
    intro inp hsz hr
    obtain ⟨inp', f1, hsel, hrem, hplan, _⟩ := ih inp hsz
    rw [hr] at hrem; simp only [List.tail_cons] at hrem
    have hs : ∀ f, f1 ≤ f → PQ.select d cfg cur f inp = (.yield x.r, inp') := by
      intro f hf; rw [hsel f hf, hr]; rfl
    obtain ⟨q'', f2, hsel2, hrem2, hplan2, hpos2⟩ :=
      step_attr_some d cfg cur a inp' (ihl inp' (by rw [hplan]; exact hsz) hrem) x.r x.r.isAttr
    have heq : rem d cfg cur (.attr a inp none) = rem d cfg cur (.attr a inp' (some (x.r, x.r.isAttr))) := by
      simp [rem, hr, hrem, attrCands_fresh]
    refine ⟨q'', max f1 f2 + 1, fun f hf => ?_, ?_, ?_, ?_⟩
    · obtain ⟨f', rfl⟩ : ∃ f', f = f' + 1 := ⟨f - 1, by omega⟩
      simp only [PQ.select, hs f' (by omega)]
      rw [hsel2 f' (by omega), heq]
    · rw [heq]; exact hrem2
    · rw [hplan2]; simp only [PQ.plan, hplan]
    · rw [heq]; exact hpos2

theorem step_desc_some (a : AxisInfo) (s : Bool) (inp : PQ)
    (hn : ∀ pos level, Step d cfg cur (.descendant a s inp none pos level))
    (n : Ref) (first : Bool) (pos level : Nat) :
    Step d cfg cur (.descendant a s inp (some (n, first)) pos level) := by
  by_cases hown : (first && s && test d cfg a n) = true
  · refine ⟨.descendant a s inp (some (n, false)) (pos+1) level, 1, fun f hf => ?_, ?_, ?_, ?_⟩
    · obtain ⟨f', rfl⟩ : ∃ f', f = f' + 1 := ⟨f - 1, by omega⟩
      simp [PQ.select, descIter, hown, rem, numFromL, headRes]
    · simp [rem, hown, numFromL]
    · simp only [PQ.plan]
    · intro y ys h
      simp [rem, hown, numFromL] at h
      obtain ⟨h, _⟩ := h
      subst h
      simp [PQ.position, PQ.depth]
  · obtain ⟨f1, h1, h2⟩ := descLoop_spec d (test d cfg a) _ n level (Nat.le_refl _)
    cases hc : (walkD d d.length n level).filter (fun p => test d cfg a p.1) with
    | nil =>
      obtain ⟨q'', f2, hsel2, hrem2, hplan2, hpos2⟩ := hn pos 0
      have heq : rem d cfg cur (.descendant a s inp (some (n, first)) pos level)
          = rem d cfg cur (.descendant a s inp none pos 0) := by
        simp [rem, hc, hown, numFromL]
      refine ⟨q'', max f1 f2 + 1, fun f hf => ?_, ?_, ?_, ?_⟩
      · obtain ⟨f', rfl⟩ : ∃ f', f = f' + 1 := ⟨f - 1, by omega⟩
        simp only [PQ.select, descIter, hown, h1 f' (by omega), hc, hdR, if_false, Bool.false_eq_true]
        rw [hsel2 f' (by omega), heq]
      · rw [heq]; exact hrem2
      · rw [hplan2]; simp only [PQ.plan]
      · rw [heq]; exact hpos2
    | cons jl rest =>
      obtain ⟨j, l⟩ := jl
      have h2' := h2 j l rest hc
      refine ⟨.descendant a s inp (some (j, false)) (pos+1) l, f1 + 1, fun f hf => ?_, ?_, ?_, ?_⟩
      · obtain ⟨f', rfl⟩ : ∃ f', f = f' + 1 := ⟨f - 1, by omega⟩
        simp [PQ.select, descIter, hown, h1 f' (by omega), hc, hdR, rem, numFromL, headRes]
      · simp [rem, hc, hown, h2', numFromL]
      · simp only [PQ.plan]
      · intro y ys h
        simp [rem, hc, hown, numFromL] at h
        obtain ⟨h, _⟩ := h
        subst h
        simp [PQ.position, PQ.depth]

theorem step_desc_none (n : Nat) (ih : ∀ q : PQ, sizeOf q.plan ≤ n → Step d cfg cur q)
    (a : AxisInfo) (s : Bool) :
    ∀ (l : List Item) (inp : PQ), sizeOf inp.plan ≤ n → rem d cfg cur inp = l →
      ∀ pos level, Step d cfg cur (.descendant a s inp none pos level) := by
  intro l
  induction l with
  | nil =>
    intro inp hsz hr pos level
    obtain ⟨inp', f1, hsel, hrem, hplan, _⟩ := ih inp hsz
    refine ⟨.descendant a s inp' none 0 level, f1 + 1, fun f hf => ?_, ?_, ?_, ?_⟩
    · obtain ⟨f', rfl⟩ : ∃ f', f = f' + 1 := ⟨f - 1, by omega⟩
      simp [PQ.select, hsel f' (by omega), hr, headRes, rem]
    · simp [rem, hrem, hr]
    · simp only [PQ.plan, hplan]
    · intro x xs h; simp [rem, hr] at h
  | cons x xs ihl =>
    intro inp hsz hr pos level
    obtain ⟨inp', f1, hsel, hrem, hplan, _⟩ := ih inp hsz
    rw [hr] at hrem; simp only [List.tail_cons] at hrem
    have hs : ∀ f, f1 ≤ f → PQ.select d cfg cur f inp = (.yield x.r, inp') := by
      intro f hf; rw [hsel f hf, hr]; rfl
    obtain ⟨q'', f2, hsel2, hrem2, hplan2, hpos2⟩ :=
      step_desc_some d cfg cur a s inp' (ihl inp' (by rw [hplan]; exact hsz) hrem) x.r true 0 0
    have heq : rem d cfg cur (.descendant a s inp none pos level)
        = rem d cfg cur (.descendant a s inp' (some (x.r, true)) 0 0) := by
      simp [rem, hr, hrem, descItems_eq]
    refine ⟨q'', max f1 f2 + 1, fun f hf => ?_, ?_, ?_, ?_⟩
    · obtain ⟨f', rfl⟩ : ∃ f', f = f' + 1 := ⟨f - 1, by omega⟩
      simp only [PQ.select, hs f' (by omega)]
      rw [hsel2 f' (by omega), heq]
    · rw [heq]; exact hrem2
    · rw [hplan2]; simp only [PQ.plan, hplan]
    · rw [heq]; exact hpos2

theorem select_step_aux : ∀ (n : Nat) (q : PQ), sizeOf q.plan ≤ n → Step d cfg cur q := by
  intro n
  induction n with
  | zero => intro q h; cases q <;> simp [PQ.plan] at h
  | succ n ih =>
    intro q h
    cases q with
    | context c =>
      by_cases hc : c > 0
      · refine ⟨.context c, 1, fun f hf => ?_, ?_, rfl, ?_⟩
        · obtain ⟨f', rfl⟩ : ∃ f', f = f' + 1 := ⟨f - 1, by omega⟩
          simp [PQ.select, rem, hc, headRes]
        · simp [rem, hc]
        · intro x xs hx; simp [rem, hc] at hx
      · refine ⟨.context (c+1), 1, fun f hf => ?_, ?_, rfl, ?_⟩
        · obtain ⟨f', rfl⟩ : ∃ f', f = f' + 1 := ⟨f - 1, by omega⟩
          simp [PQ.select, rem, hc, headRes]
        · simp [rem, hc]
        · intro x xs hx
          simp [rem, hc] at hx
          obtain ⟨hx, _⟩ := hx; subst hx
          simp [PQ.position, PQ.depth]
    | absolute c =>
      by_cases hc : c > 0
      · refine ⟨.absolute c, 1, fun f hf => ?_, ?_, rfl, ?_⟩
        · obtain ⟨f', rfl⟩ : ∃ f', f = f' + 1 := ⟨f - 1, by omega⟩
          simp [PQ.select, rem, hc, headRes]
        · simp [rem, hc]
        · intro x xs hx; simp [rem, hc] at hx
      · refine ⟨.absolute (c+1), 1, fun f hf => ?_, ?_, rfl, ?_⟩
        · obtain ⟨f', rfl⟩ : ∃ f', f = f' + 1 := ⟨f - 1, by omega⟩
          simp [PQ.select, rem, hc, headRes]
        · simp [rem, hc]
        · intro x xs hx
          simp [rem, hc] at hx
          obtain ⟨hx, _⟩ := hx; subst hx
          simp [PQ.position, PQ.depth]
    | self a inp =>
      exact step_self d cfg cur n ih a _ inp (by simp [PQ.plan] at h; omega) rfl
    | parent a inp =>
      exact step_parent d cfg cur n ih a _ inp (by simp [PQ.plan] at h; omega) rfl
    | child a inp it pos =>
      have hn := step_child_none d cfg cur n ih a _ inp (by simp [PQ.plan] at h; omega) rfl
      cases it with
      | none => exact hn pos
      | some nf => exact step_child_some d cfg cur a inp hn nf.1 nf.2 pos
    | attr a inp it =>
      have hn := step_attr_none d cfg cur n ih a _ inp (by simp [PQ.plan] at h; omega) rfl
      cases it with
      | none => exact hn
      | some nf => exact step_attr_some d cfg cur a inp hn nf.1 nf.2
    | descendant a s inp it pos level =>
      have hn := step_desc_none d cfg cur n ih a s _ inp (by simp [PQ.plan] at h; omega) rfl
      cases it with
      | none => exact hn pos level
      | some nf => exact step_desc_some d cfg cur a s inp hn nf.1 nf.2 pos level

/-- **One-pull lemma.**  From *any* state `q`, with enough fuel, `Select` returns the head of
`rem q` (or `nil` when it is empty) and moves to a state whose `rem` is the tail; the configuration
is unchanged and `position()`/`depth()` are the `pos`/`lvl` of the yielded item. -/
theorem select_step (q : PQ) : Step d cfg cur q := select_step_aux d cfg cur _ q (Nat.le_refl _)

/-! ## More fuel never changes an answer -/

theorem childIter_mono {t : Ref → Bool} : ∀ (f : Nat) (n : Ref) (first : Bool) (r : Res Ref),
    childIter d t f n first = r → r ≠ .fuel → childIter d t (f+1) n first = r
  | 0, _, _, r, h, hne => by simp only [childIter] at h; exact absurd h.symm hne
  | f+1, n, first, r, h, hne => by
    rw [childIter] at h ⊢
    cases hm : (if first then Nav.moveChild d n else Nav.moveNext d n) with
    | none => rw [hm] at h; exact h
    | some c =>
      rw [hm] at h
      simp only at h ⊢
      by_cases htc : t c = true
      · simp only [htc, if_true] at h ⊢; exact h
      · simp only [htc, if_false, Bool.false_eq_true] at h ⊢
        exact childIter_mono f c false r h hne

theorem attrIter_mono {t : Ref → Bool} : ∀ (f : Nat) (n : Ref) (isAttr : Bool) (r : Res Ref),
    attrIter d t f n isAttr = r → r ≠ .fuel → attrIter d t (f+1) n isAttr = r
  | 0, _, _, r, h, hne => by simp only [attrIter] at h; exact absurd h.symm hne
  | f+1, n, isAttr, r, h, hne => by
    rw [attrIter] at h ⊢
    cases isAttr with
    | true => simpa using h
    | false =>
      simp only [Bool.false_eq_true, if_false] at h ⊢
      cases hm : Nav.moveNextAttr d n with
      | none => rw [hm] at h; exact h
      | some c =>
        rw [hm] at h
        simp only at h ⊢
        by_cases htc : t c = true
        · simp only [htc, if_true] at h ⊢; exact h
        · simp only [htc, if_false, Bool.false_eq_true] at h ⊢
          exact attrIter_mono f c false r h hne

theorem descLoop_mono {t : Ref → Bool} : ∀ (f : Nat) (n : Ref) (level : Nat) (r : Res (Ref × Nat)),
    descLoop d t f n level = r → r ≠ .fuel → descLoop d t (f+1) n level = r
  | 0, _, _, r, h, hne => by simp only [descLoop] at h; exact absurd h.symm hne
  | f+1, n, level, r, h, hne => by
    rw [descLoop] at h ⊢
    cases hm : pstep d n level with
    | none => rw [hm] at h; exact h
    | some c =>
      obtain ⟨c, lc⟩ := c
      rw [hm] at h
      simp only at h ⊢
      by_cases htc : t c = true
      · simp only [htc, if_true] at h ⊢; exact h
      · simp only [htc, if_false, Bool.false_eq_true] at h ⊢
        exact descLoop_mono f c lc r h hne

theorem descIter_mono {t : Ref → Bool} {s : Bool} (f : Nat) (n : Ref) (first : Bool) (level : Nat)
    (r : Res (Ref × Nat)) (h : descIter d t s f n first level = r) (hne : r ≠ .fuel) :
    descIter d t s (f+1) n first level = r := by
  simp only [descIter] at h ⊢
  split at h
  · rename_i hc; rw [if_pos hc]; exact h
  · rename_i hc; rw [if_neg hc]; exact descLoop_mono d f n level r h hne

theorem select_mono : ∀ (f : Nat) (q : PQ) (o : Res Ref) (q' : PQ),
    PQ.select d cfg cur f q = (o, q') → o ≠ .fuel → PQ.select d cfg cur (f+1) q = (o, q') := by
  intro f
  induction f with
  | zero =>
    intro q o q' h hne
    simp only [PQ.select] at h
    injection h with h1 h2
    exact absurd h1.symm hne
  | succ f ih =>
    intro q o q' h hne
    cases q with
    | context c => simp only [PQ.select] at h ⊢; exact h
    | absolute c => simp only [PQ.select] at h ⊢; exact h
    | self a inp =>
      simp only [PQ.select] at h ⊢
      cases hr : PQ.select d cfg cur f inp with
      | mk o1 inp1 =>
        rw [hr] at h
        cases o1 with
        | fuel => simp only at h; injection h with h1 h2; exact absurd h1.symm hne
        | done => rw [ih inp _ _ hr (by simp)]; exact h
        | yield x =>
          rw [ih inp _ _ hr (by simp)]
          simp only at h ⊢
          by_cases ht : test d cfg a x = true
          · simp only [ht, if_true] at h ⊢; exact h
          · simp only [ht, if_false, Bool.false_eq_true] at h ⊢
            exact ih _ _ _ h hne
    | parent a inp =>
      simp only [PQ.select] at h ⊢
      cases hr : PQ.select d cfg cur f inp with
      | mk o1 inp1 =>
        rw [hr] at h
        cases o1 with
        | fuel => simp only at h; injection h with h1 h2; exact absurd h1.symm hne
        | done => rw [ih inp _ _ hr (by simp)]; exact h
        | yield x =>
          rw [ih inp _ _ hr (by simp)]
          simp only at h ⊢
          cases hp : Nav.moveParent d x with
          | none => rw [hp] at h; simp only at h ⊢; exact ih _ _ _ h hne
          | some p =>
            rw [hp] at h; simp only at h ⊢
            by_cases ht : test d cfg a p = true
            · simp only [ht, if_true] at h ⊢; exact h
            · simp only [ht, if_false, Bool.false_eq_true] at h ⊢
              exact ih _ _ _ h hne
    | child a inp it pos =>
      cases it with
      | none =>
        simp only [PQ.select] at h ⊢
        cases hr : PQ.select d cfg cur f inp with
        | mk o1 inp1 =>
          rw [hr] at h
          cases o1 with
          | fuel => simp only at h; injection h with h1 h2; exact absurd h1.symm hne
          | done => rw [ih inp _ _ hr (by simp)]; exact h
          | yield x =>
            rw [ih inp _ _ hr (by simp)]
            simp only at h ⊢
            exact ih _ _ _ h hne
      | some nf =>
        obtain ⟨n, first⟩ := nf
        simp only [PQ.select] at h ⊢
        cases hr : childIter d (test d cfg a) f n first with
        | fuel => rw [hr] at h; simp only at h; injection h with h1 h2; exact absurd h1.symm hne
        | done =>
          rw [hr] at h
          rw [childIter_mono d f n first _ hr (by simp)]
          simp only at h ⊢
          exact ih _ _ _ h hne
        | yield j =>
          rw [hr] at h
          rw [childIter_mono d f n first _ hr (by simp)]
          exact h
    | attr a inp it =>
      cases it with
      | none =>
        simp only [PQ.select] at h ⊢
        cases hr : PQ.select d cfg cur f inp with
        | mk o1 inp1 =>
          rw [hr] at h
          cases o1 with
          | fuel => simp only at h; injection h with h1 h2; exact absurd h1.symm hne
          | done => rw [ih inp _ _ hr (by simp)]; exact h
          | yield x =>
            rw [ih inp _ _ hr (by simp)]
            simp only at h ⊢
            exact ih _ _ _ h hne
      | some nf =>
        obtain ⟨n, isAttr⟩ := nf
        simp only [PQ.select] at h ⊢
        cases hr : attrIter d (test d cfg a) f n isAttr with
        | fuel => rw [hr] at h; simp only at h; injection h with h1 h2; exact absurd h1.symm hne
        | done =>
          rw [hr] at h
          rw [attrIter_mono d f n isAttr _ hr (by simp)]
          simp only at h ⊢
          exact ih _ _ _ h hne
        | yield j =>
          rw [hr] at h
          rw [attrIter_mono d f n isAttr _ hr (by simp)]
          exact h
    | descendant a s inp it pos level =>
      cases it with
      | none =>
        simp only [PQ.select] at h ⊢
        cases hr : PQ.select d cfg cur f inp with
        | mk o1 inp1 =>
          rw [hr] at h
          cases o1 with
          | fuel => simp only at h; injection h with h1 h2; exact absurd h1.symm hne
          | done => rw [ih inp _ _ hr (by simp)]; exact h
          | yield x =>
            rw [ih inp _ _ hr (by simp)]
            simp only at h ⊢
            exact ih _ _ _ h hne
      | some nf =>
        obtain ⟨n, first⟩ := nf
        simp only [PQ.select] at h ⊢
        cases hr : descIter d (test d cfg a) s f n first level with
        | fuel => rw [hr] at h; simp only at h; injection h with h1 h2; exact absurd h1.symm hne
        | done =>
          rw [hr] at h
          rw [descIter_mono d f n first level _ hr (by simp)]
          simp only at h ⊢
          exact ih _ _ _ h hne
        | yield jl =>
          rw [hr] at h
          rw [descIter_mono d f n first level _ hr (by simp)]
          exact h

theorem select_mono_le {f f' : Nat} {q : PQ} {o : Res Ref} {q' : PQ}
    (h : PQ.select d cfg cur f q = (o, q')) (hne : o ≠ .fuel) (hle : f ≤ f') :
    PQ.select d cfg cur f' q = (o, q') := by
  induction hle with
  | refl => exact h
  | step _ ih => exact select_mono d cfg cur _ q o q' ih hne

/-- **Determinism up to fuel**: any answer other than "out of fuel" is *the* answer of the
one-pull lemma. -/
theorem select_sound {f : Nat} {q : PQ} {o : Res Ref} {q' : PQ}
    (h : PQ.select d cfg cur f q = (o, q')) (hne : o ≠ .fuel) :
    o = headRes (rem d cfg cur q) ∧ rem d cfg cur q' = (rem d cfg cur q).tail ∧ q'.plan = q.plan ∧
    (∀ x xs, rem d cfg cur q = x :: xs → q'.position = x.pos ∧ q'.depth = x.lvl) := by
  obtain ⟨q'', f0, hsel, hrem, hplan, hpos⟩ := select_step d cfg cur q
  have h1 := select_mono_le d cfg cur h hne (Nat.le_max_left f f0)
  have h2 := hsel (max f f0) (Nat.le_max_right f f0)
  rw [h1] at h2
  injection h2 with h2 h3
  subst h3
  exact ⟨h2, hrem, hplan, hpos⟩

end

/-! ## Fresh machines and the sequence model -/

theorem ofPlan_spec : ∀ (p : Plan) (q : PQ), PQ.ofPlan p = some q → q.plan = p ∧ q.fresh = true := by
  intro p
  induction p with
  | context => intro q h; simp only [PQ.ofPlan] at h; injection h with h; subst h; exact ⟨rfl, rfl⟩
  | absolute => intro q h; simp only [PQ.ofPlan] at h; injection h with h; subst h; exact ⟨rfl, rfl⟩
  | child a inp ih | attr a inp ih | self a inp ih | parent a inp ih =>
    intro q h
    simp only [PQ.ofPlan] at h
    cases hi : PQ.ofPlan inp with
    | none => simp [hi] at h
    | some i =>
      simp only [hi, Option.map] at h
      injection h with h; subst h
      obtain ⟨h1, h2⟩ := ih i hi
      simp [PQ.plan, PQ.fresh, h1, h2]
  | descendant a s inp ih =>
    intro q h
    simp only [PQ.ofPlan] at h
    cases hi : PQ.ofPlan inp with
    | none => simp [hi] at h
    | some i =>
      simp only [hi, Option.map] at h
      injection h with h; subst h
      obtain ⟨h1, h2⟩ := ih i hi
      simp [PQ.plan, PQ.fresh, h1, h2]
  | _ => intro q h; simp [PQ.ofPlan] at h

section
variable {F : Type} [NumAlg F] (d : Doc) (cfg : ECfg) (cur : Ref)

/-- a fresh machine still has to yield exactly the sequence of the sequence-level model -/
theorem rem_fresh : ∀ (q : PQ), q.fresh = true →
    sel (F := F) d cfg q.plan cur = .ok (rem d cfg cur q) := by
  intro q
  induction q with
  | context c => intro h; simp [PQ.fresh] at h; subst h; simp [PQ.plan, sel, rem]
  | absolute c => intro h; simp [PQ.fresh] at h; subst h; simp [PQ.plan, sel, rem]
  | child a inp it pos ih =>
    intro h
    simp [PQ.fresh] at h
    obtain ⟨⟨h1, h2⟩, h3⟩ := h
    subst h1; subst h2
    simp only [PQ.plan, sel, rem, ih h3]; rfl
  | attr a inp it ih =>
    intro h
    simp [PQ.fresh] at h
    obtain ⟨h1, h3⟩ := h
    subst h1
    simp only [PQ.plan, sel, rem, ih h3]; rfl
  | self a inp ih =>
    intro h
    simp [PQ.fresh] at h
    simp only [PQ.plan, sel, rem, ih h]; rfl
  | parent a inp ih =>
    intro h
    simp [PQ.fresh] at h
    simp only [PQ.plan, sel, rem, ih h]; rfl
  | descendant a s inp it pos level ih =>
    intro h
    simp [PQ.fresh] at h
    obtain ⟨⟨⟨h1, h2⟩, h4⟩, h3⟩ := h
    subst h1; subst h2; subst h4
    simp only [PQ.plan, sel, rem, ih h3, descItems]; rfl

end

/-! ## Draining -/

section
variable (d : Doc) (cfg : ECfg) (cur : Ref)

/-- with enough fuel, draining a machine in *any* state yields exactly its remaining stream
(nodes with the `position()`/`depth()` reported after each pull) and ends exhausted -/
theorem drain_complete : ∀ (l : List Item) (q : PQ), rem d cfg cur q = l →
    ∃ q' f0, (∀ f, f0 ≤ f → drain d cfg cur f q = some (l, q')) ∧
      rem d cfg cur q' = [] ∧ q'.plan = q.plan := by
  intro l
  induction l with
  | nil =>
    intro q hr
    obtain ⟨q1, f1, hsel, hrem, hplan, _⟩ := select_step d cfg cur q
    refine ⟨q1, f1 + 1, fun f hf => ?_, by rw [hrem, hr]; rfl, hplan⟩
    obtain ⟨f', rfl⟩ : ∃ f', f = f' + 1 := ⟨f - 1, by omega⟩
    simp only [drain, hsel f' (by omega), hr, headRes]
  | cons x xs ih =>
    intro q hr
    obtain ⟨q1, f1, hsel, hrem, hplan, hpos⟩ := select_step d cfg cur q
    rw [hr] at hrem; simp only [List.tail_cons] at hrem
    obtain ⟨q', f2, hdr, hrem', hplan'⟩ := ih q1 hrem
    obtain ⟨hp1, hp2⟩ := hpos x xs hr
    refine ⟨q', max f1 f2 + 1, fun f hf => ?_, hrem', by rw [hplan', hplan]⟩
    obtain ⟨f', rfl⟩ : ∃ f', f = f' + 1 := ⟨f - 1, by omega⟩
    simp only [drain, hsel f' (by omega), hr, headRes, hdr f' (by omega), Option.map, hp1, hp2]

/-- whatever fuel was given: if draining terminated, it produced exactly the remaining stream -/
theorem drain_sound : ∀ (f : Nat) (q : PQ) (l : List Item) (q' : PQ),
    drain d cfg cur f q = some (l, q') →
    l = rem d cfg cur q ∧ rem d cfg cur q' = [] ∧ q'.plan = q.plan := by
  intro f
  induction f with
  | zero => intro q l q' h; simp [drain] at h
  | succ f ih =>
    intro q l q' h
    simp only [drain] at h
    cases hs : PQ.select d cfg cur f q with
    | mk o q1 =>
      rw [hs] at h
      cases o with
      | fuel => simp at h
      | done =>
        simp only [Option.some.injEq, Prod.mk.injEq] at h
        obtain ⟨h1, h2⟩ := h
        subst h1; subst h2
        obtain ⟨ho, hrem, hplan, _⟩ := select_sound d cfg cur hs (by simp)
        cases hr : rem d cfg cur q with
        | nil => rw [hr] at hrem; exact ⟨rfl, hrem, hplan⟩
        | cons x xs => rw [hr] at ho; simp [headRes] at ho
      | yield n =>
        simp only at h
        cases hd : drain d cfg cur f q1 with
        | none => simp [hd] at h
        | some lq =>
          obtain ⟨l1, q2⟩ := lq
          simp only [hd, Option.map, Option.some.injEq, Prod.mk.injEq] at h
          obtain ⟨h1, h2⟩ := h
          subst h1; subst h2
          obtain ⟨ho, hrem, hplan, hpos⟩ := select_sound d cfg cur hs (by simp)
          obtain ⟨hl1, hrem2, hplan2⟩ := ih q1 l1 q2 hd
          cases hr : rem d cfg cur q with
          | nil => rw [hr] at ho; simp [headRes] at ho
          | cons x xs =>
            rw [hr] at ho hrem
            simp only [headRes, Res.yield.injEq] at ho
            simp only [List.tail_cons] at hrem
            obtain ⟨hp1, hp2⟩ := hpos x xs hr
            refine ⟨?_, hrem2, by rw [hplan2, hplan]⟩
            rw [hl1, hrem, ho, hp1, hp2]

end

/-! ## The theorems P1–P5 -/

section
variable {F : Type} [NumAlg F] (d : Doc) (cfg : ECfg) (cur : Ref)

/-- **P1.**  For every supported plan, the freshly built pull machine and the sequence model agree:
`sel` succeeds with some `l`; draining with enough fuel returns exactly `l` — the same nodes in the
same order, with the same `position()` and `depth()` values (`Item.pos`, `Item.lvl`) — and ends in
an exhausted state; and no amount of fuel makes draining return anything else. -/
theorem drain_eq_sel (p : Plan) (q : PQ) (h : PQ.ofPlan p = some q) :
    ∃ l, sel (F := F) d cfg p cur = .ok l ∧
      (∃ q' f0, (∀ f, f0 ≤ f → drain d cfg cur f q = some (l, q')) ∧ rem d cfg cur q' = []) ∧
      (∀ f l' q', drain d cfg cur f q = some (l', q') → l' = l) := by
  obtain ⟨hp, hf⟩ := ofPlan_spec p q h
  have hsel := rem_fresh (F := F) d cfg cur q hf
  rw [hp] at hsel
  refine ⟨rem d cfg cur q, hsel, ?_, ?_⟩
  · obtain ⟨q', f0, h1, h2, _⟩ := drain_complete d cfg cur _ q rfl
    exact ⟨q', f0, h1, h2⟩
  · intro f l' q' hd
    exact (drain_sound d cfg cur f q l' q' hd).1

/-- P1 projected to node references -/
theorem drain_refs_eq_sel (p : Plan) (q : PQ) (h : PQ.ofPlan p = some q) :
    ∃ l, sel (F := F) d cfg p cur = .ok l ∧
      ∃ f0, ∀ f, f0 ≤ f → (drain d cfg cur f q).map (fun r => r.1.map (·.r)) = some (l.map (·.r)) := by
  obtain ⟨l, h1, ⟨q', f0, h2, _⟩, _⟩ := drain_eq_sel (F := F) d cfg cur p q h
  exact ⟨l, h1, f0, fun f hf => by rw [h2 f hf]; rfl⟩

/-- **P2.**  Exhausted stays exhausted: once `Select` has returned `nil` (from `q` to `q'`), the
remaining stream of `q'` is empty, no later `Select` from `q'` yields a node, and with enough fuel
every later `Select` returns `nil` again, into a state that is again exhausted. -/
theorem exhausted_stays {f : Nat} {q q' : PQ} (h : PQ.select d cfg cur f q = (.done, q')) :
    rem d cfg cur q' = [] ∧
    (∀ f' o q'', PQ.select d cfg cur f' q' = (o, q'') → o ≠ .fuel → o = .done ∧ rem d cfg cur q'' = []) ∧
    (∃ q'' f0, (∀ f', f0 ≤ f' → PQ.select d cfg cur f' q' = (.done, q'')) ∧ rem d cfg cur q'' = []) := by
  obtain ⟨ho, hrem, _, _⟩ := select_sound d cfg cur h (by simp)
  have hq : rem d cfg cur q = [] := by
    cases hr : rem d cfg cur q with
    | nil => rfl
    | cons x xs => rw [hr] at ho; simp [headRes] at ho
  have hq' : rem d cfg cur q' = [] := by rw [hrem, hq]; rfl
  refine ⟨hq', ?_, ?_⟩
  · intro f' o q'' hs hne
    obtain ⟨ho2, hrem2, _, _⟩ := select_sound d cfg cur hs hne
    rw [hq'] at ho2 hrem2
    exact ⟨ho2, hrem2⟩
  · obtain ⟨q'', f0, hsel, hrem2, _, _⟩ := select_step d cfg cur q'
    rw [hq'] at hsel hrem2
    exact ⟨q'', f0, hsel, hrem2⟩

/-- P2, state form: an exhausted state (`rem = []`) can only step to exhausted states -/
theorem exhausted_invariant {f : Nat} {q q' : PQ} {o : Res Ref} (hq : rem d cfg cur q = [])
    (h : PQ.select d cfg cur f q = (o, q')) (hne : o ≠ .fuel) : o = .done ∧ rem d cfg cur q' = [] := by
  obtain ⟨ho, hrem, _, _⟩ := select_sound d cfg cur h hne
  rw [hq] at ho hrem
  exact ⟨ho, hrem⟩

theorem evaluate_plan : ∀ q : PQ, q.evaluate.plan = q.plan := by
  intro q; induction q <;> simp_all [PQ.evaluate, PQ.plan]

theorem clone_plan : ∀ q : PQ, q.clone.plan = q.plan := by
  intro q; induction q <;> simp_all [PQ.clone, PQ.plan]

theorem clone_is_fresh : ∀ q : PQ, q.clone.fresh = true := by
  intro q; induction q <;> simp_all [PQ.clone, PQ.fresh]

theorem clone_idem : ∀ q : PQ, q.clone.clone = q.clone := by
  intro q; induction q <;> simp_all [PQ.clone]

/-- a fresh machine is its own clone: `fresh` pins down the state completely -/
theorem clone_of_fresh : ∀ q : PQ, q.fresh = true → q.clone = q := by
  intro q; induction q <;> simp_all [PQ.clone, PQ.fresh]

/-- **P3.**  The state-reset protocol: in whatever state `q` is (reachable or not), after
`Evaluate` the machine has the same remaining stream as a fresh machine of the same configuration
(`q.clone`) … -/
theorem evaluate_resets : ∀ q : PQ, rem d cfg cur q.evaluate = rem d cfg cur q.clone := by
  intro q
  induction q with
  | context c => rfl
  | absolute c => rfl
  | child a inp it pos ih => simp only [PQ.evaluate, PQ.clone, rem, ih]
  | attr a inp it ih => simp only [PQ.evaluate, PQ.clone, rem, ih]
  | self a inp ih => simp only [PQ.evaluate, PQ.clone, rem, ih]
  | parent a inp ih => simp only [PQ.evaluate, PQ.clone, rem, ih]
  | descendant a s inp it pos level ih => simp only [PQ.evaluate, PQ.clone, rem, ih]

/-- … which is the whole sequence of the sequence model: after `Evaluate` the query yields its
whole sequence again. -/
theorem evaluate_yields_all (q : PQ) :
    sel (F := F) d cfg q.plan cur = .ok (rem d cfg cur q.evaluate) := by
  rw [evaluate_resets, ← clone_plan q]
  exact rem_fresh d cfg cur q.clone (clone_is_fresh q)

/-- P3, operationally: draining after `Evaluate`, from any state, gives the sequence of `sel` -/
theorem drain_evaluate (q : PQ) :
    ∃ l, sel (F := F) d cfg q.plan cur = .ok l ∧
      ∃ q' f0, ∀ f, f0 ≤ f → drain d cfg cur f q.evaluate = some (l, q') := by
  obtain ⟨q', f0, h1, _, _⟩ := drain_complete d cfg cur _ q.evaluate rfl
  exact ⟨_, evaluate_yields_all (F := F) d cfg cur q, q', f0, h1⟩

/-- **P4.**  `Clone` gives a fresh machine of the same configuration, is idempotent, does not depend
on the state of the original, and its stream is the whole sequence of the sequence model. -/
theorem clone_fresh (q : PQ) :
    q.clone.fresh = true ∧ q.clone.plan = q.plan ∧ q.clone.clone = q.clone ∧
    (∀ q2 : PQ, q2.plan = q.plan → q2.clone = q.clone) ∧
    sel (F := F) d cfg q.plan cur = .ok (rem d cfg cur q.clone) := by
  refine ⟨clone_is_fresh q, clone_plan q, clone_idem q, ?_, ?_⟩
  · intro q2
    induction q generalizing q2 with
    | context c => intro h; cases q2 <;> simp_all [PQ.plan, PQ.clone]
    | absolute c => intro h; cases q2 <;> simp_all [PQ.plan, PQ.clone]
    | child a inp it pos ih =>
      intro h; cases q2 <;> simp_all [PQ.plan, PQ.clone]
    | attr a inp it ih =>
      intro h; cases q2 <;> simp_all [PQ.plan, PQ.clone]
    | self a inp ih =>
      intro h; cases q2 <;> simp_all [PQ.plan, PQ.clone]
    | parent a inp ih =>
      intro h; cases q2 <;> simp_all [PQ.plan, PQ.clone]
    | descendant a s inp it pos level ih =>
      intro h; cases q2 <;> simp_all [PQ.plan, PQ.clone]
  · rw [← clone_plan q]
    exact rem_fresh d cfg cur q.clone (clone_is_fresh q)

/-- **P5.**  Positions: whenever `Select` yields a node, it is the head item `x` of the remaining
stream and `position()` (`posit`) and `depth()` (`level`) of the new state are `x.pos` and `x.lvl` —
for a machine started fresh these are exactly the `Item.pos`/`Item.lvl` of `sel` (P1), e.g. `k` for
the `k`-th matching child of the current parent. -/
theorem select_position {f : Nat} {q q' : PQ} {n : Ref} (h : PQ.select d cfg cur f q = (.yield n, q')) :
    ∃ x xs, rem d cfg cur q = x :: xs ∧ x.r = n ∧ q'.position = x.pos ∧ q'.depth = x.lvl ∧
      rem d cfg cur q' = xs := by
  obtain ⟨ho, hrem, _, hpos⟩ := select_sound d cfg cur h (by simp)
  cases hr : rem d cfg cur q with
  | nil => rw [hr] at ho; simp [headRes] at ho
  | cons x xs =>
    rw [hr] at ho hrem
    simp only [headRes, Res.yield.injEq] at ho
    obtain ⟨h1, h2⟩ := hpos x xs hr
    exact ⟨x, xs, rfl, ho.symm, h1, h2, hrem⟩

/-- P5 for `childQuery`, literally: in a `childQuery` whose closure is at `(n, first)` with
`posit = k`, a pull that is served by the closure yields the next matching sibling and sets
`posit = k + 1`. -/
theorem child_posit_succ {f : Nat} {a : AxisInfo} {inp : PQ} {n j : Ref} {first : Bool} {k : Nat} {q' : PQ}
    (hc : (sibCands d n first).filter (test d cfg a) ≠ [])
    (h : PQ.select d cfg cur f (.child a inp (some (n, first)) k) = (.yield j, q')) :
    q' = .child a inp (some (j, false)) (k+1) ∧
      ((sibCands d n first).filter (test d cfg a)).head? = some j := by
  obtain ⟨f1, h1, _⟩ := childIter_spec d (test d cfg a) _ n first (Nat.le_refl _)
  cases hl : (sibCands d n first).filter (test d cfg a) with
  | nil => exact absurd hl hc
  | cons j' rest =>
    have hsel : PQ.select d cfg cur (f1 + 1) (.child a inp (some (n, first)) k)
        = (.yield j', .child a inp (some (j', false)) (k+1)) := by
      simp only [PQ.select, h1 f1 (Nat.le_refl _), hl, hdR]
    have h2 := select_mono_le d cfg cur h (by simp) (Nat.le_max_left f (f1+1))
    have h3 := select_mono_le d cfg cur hsel (by simp) (Nat.le_max_right f (f1+1))
    rw [h2] at h3
    simp only [Prod.mk.injEq, Res.yield.injEq] at h3
    obtain ⟨h3a, h3b⟩ := h3
    subst h3a
    exact ⟨h3b, rfl⟩

end

end XPathV.Model

#print axioms XPathV.Model.select_step
#print axioms XPathV.Model.select_sound
#print axioms XPathV.Model.drain_eq_sel
#print axioms XPathV.Model.drain_refs_eq_sel
#print axioms XPathV.Model.exhausted_stays
#print axioms XPathV.Model.exhausted_invariant
#print axioms XPathV.Model.evaluate_resets
#print axioms XPathV.Model.evaluate_yields_all
#print axioms XPathV.Model.drain_evaluate
#print axioms XPathV.Model.clone_fresh
#print axioms XPathV.Model.select_position
#print axioms XPathV.Model.child_posit_succ
