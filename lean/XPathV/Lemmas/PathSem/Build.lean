import XPathV.Lemmas.PathSem.Rewrites
/-!
# C01 — stage 4, `build`: the plan the builder makes for a predicate-free path selects the same
node set as the un-rewritten plan
-/
namespace XPathV.PathSem
open XPathV XPathV.Model

variable {F : Type} [NumAlg F]

/-! ## generic helpers -/

theorem except_bind_ok {ε α β : Type} (x : Except ε α) (f : α → Except ε β) (r : β)
    (h : x >>= f = .ok r) : ∃ a, x = .ok a ∧ f a = .ok r := by
  cases x with
  | error e => cases h
  | ok a => exact ⟨a, rfl, h⟩

theorem enter_ok (limit : Nat) (st : BState) (k : BState → Except BErr BOut) (o : BOut)
    (h : build.enter limit st k = .ok o) : k { st with depth := st.depth + 1 } = .ok o := by
  unfold build.enter at h
  split at h
  · cases h
  · exact h

def IsDescAxis (a : AxisInfo) : Prop := a.axis = "descendant" ∨ a.axis = "descendant-or-self"

theorem axisPlan_desc (a : AxisInfo) (h : IsDescAxis a) (fl : Flags) (pr : Props) (inp : Plan) :
    ∃ s pr', axisPlan a fl pr inp =
        .ok (if fl.smartDesc then .descOverDesc a s inp else .descendant a s inp, pr') ∧
      ∀ n, stepPlan a n = .descendant a s n := by
  rcases h with h | h
  · exact ⟨false, _, by simp only [axisPlan, h]; rfl, fun n => by simp [stepPlan, h]⟩
  · exact ⟨true, _, by simp only [axisPlan, h]; rfl, fun n => by simp [stepPlan, h]⟩

theorem axisPlan_nondesc (a : AxisInfo) (ha : a.axis ∈ axes12) (hn : ¬ IsDescAxis a) (fl : Flags)
    (pr : Props) (inp : Plan) :
    ∃ q pr', axisPlan a fl pr inp = .ok (q, pr') ∧
      ∀ (d : Doc) (cfg : ECfg) (c : Ref), sel (F := F) d cfg q c = sel (F := F) d cfg (stepPlan a inp) c := by
  simp only [axes12, List.mem_cons, List.not_mem_nil, or_false] at ha
  rcases ha with hax | hax | hax | hax | hax | hax | hax | hax | hax | hax | hax | hax
  · refine ⟨_, _, by simp only [axisPlan, hax]; rfl, fun d cfg c => ?_⟩
    simp only [stepPlan, hax]
    split <;> simp [sel]
  · exact absurd (Or.inl hax) hn
  · exact absurd (Or.inr hax) hn
  all_goals exact ⟨_, _, by simp only [axisPlan, hax]; rfl, fun d cfg c => by simp [stepPlan, hax]⟩

/-! ## validity and congruence of a step -/

theorem axisRefsM_valid {d : Doc} (wf : WF d) (o : Ref) (ho : validRef d o = true) (ax : String)
    (hax : ax ∈ axes12) (x : Ref) (hx : x ∈ axisRefsM d ax o) : validRef d x = true :=
  axisNodes_valid wf o ho ax hax x ((axisRefsM_spec wf o ho ax hax x).1 hx)

theorem stepPlan_ok {d : Doc} (wf : WF d) (cfg : ECfg) (hinj : HashInj d cfg) (a : AxisInfo)
    (ha : a.axis ∈ axes12) (inp : Plan) (c : Ref) (ins : List Item)
    (hv : ∀ o ∈ refs ins, validRef d o = true) (h : sel (F := F) d cfg inp c = .ok ins) :
    ∃ out, sel (F := F) d cfg (stepPlan a inp) c = .ok out ∧
      (∀ x, x ∈ refs out ↔ ∃ o ∈ refs ins, x ∈ (axisRefsM d a.axis o).filter (test d cfg a)) ∧
      ∀ x ∈ refs out, validRef d x = true := by
  obtain ⟨out, hout, hmem⟩ := stepPlan_sem (F := F) d cfg hinj a ha inp c ins hv h
  refine ⟨out, hout, hmem, fun x hx => ?_⟩
  obtain ⟨o, ho, hxo⟩ := (hmem x).1 hx
  exact axisRefsM_valid wf o (hv o ho) a.axis ha x (List.mem_filter.1 hxo).1

theorem stepPlan_congr {d : Doc} (cfg : ECfg) (hinj : HashInj d cfg) (a : AxisInfo)
    (ha : a.axis ∈ axes12) (inp' inp : Plan) (c : Ref) (ins' ins : List Item)
    (h' : sel (F := F) d cfg inp' c = .ok ins') (h : sel (F := F) d cfg inp c = .ok ins)
    (hv : ∀ o ∈ refs ins, validRef d o = true) (heq : ∀ x, x ∈ refs ins' ↔ x ∈ refs ins) :
    ∃ o1 o2, sel (F := F) d cfg (stepPlan a inp') c = .ok o1 ∧
      sel (F := F) d cfg (stepPlan a inp) c = .ok o2 ∧ ∀ x, x ∈ refs o1 ↔ x ∈ refs o2 := by
  obtain ⟨o1, ho1, hm1⟩ := stepPlan_sem (F := F) d cfg hinj a ha inp' c ins'
    (fun o ho => hv o ((heq o).1 ho)) h'
  obtain ⟨o2, ho2, hm2⟩ := stepPlan_sem (F := F) d cfg hinj a ha inp c ins hv h
  refine ⟨o1, o2, ho1, ho2, fun x => ?_⟩
  rw [hm1, hm2]
  constructor
  · rintro ⟨o, ho, hx⟩; exact ⟨o, (heq o).1 ho, hx⟩
  · rintro ⟨o, ho, hx⟩; exact ⟨o, (heq o).2 ho, hx⟩

/-- the un-rewritten plan never fails and yields valid nodes -/
theorem naive_ok {d : Doc} (wf : WF d) (cfg : ECfg) (hinj : HashInj d cfg) (p : Ast)
    (hp : PathPF p) (c : Ref) (hc : validRef d c = true) :
    ∃ nv, sel (F := F) d cfg (naivePlan p) c = .ok nv ∧ ∀ o ∈ refs nv, validRef d o = true := by
  induction hp with
  | none =>
    refine ⟨[⟨c, 1, 0⟩], sel_context d cfg c, ?_⟩
    intro x hx; simp only [refs, List.map_cons, List.map_nil, List.mem_cons, List.not_mem_nil,
      or_false] at hx; rw [hx]; exact hc
  | root s =>
    refine ⟨[⟨.node 0, 1, 0⟩], by simp [naivePlan, sel, Nav.root], ?_⟩
    intro x hx; simp only [refs, List.map_cons, List.map_nil, List.mem_cons, List.not_mem_nil,
      or_false] at hx; rw [hx]
    exact (validRef_node d 0).2 wf.pos
  | axis a inp _ ha ih =>
    obtain ⟨ins, hsel, hv⟩ := ih
    obtain ⟨out, hout, _, hval⟩ := stepPlan_ok (F := F) wf cfg hinj a ha (naivePlan inp) c ins hv hsel
    exact ⟨out, hout, hval⟩

/-! ## one `processAxis` over an already related input -/

/-- relation between the built plan and the naive plan at context `c`: same node set when the
consumer did not ask for `smartDesc`, a covering subset otherwise -/
def Rel (d : Doc) (cfg : ECfg) (smart : Bool) (q n : Plan) (c : Ref) : Prop :=
  ∃ out nv, sel (F := F) d cfg q c = .ok out ∧ sel (F := F) d cfg n c = .ok nv ∧
    (∀ o ∈ refs nv, validRef d o = true) ∧
    (smart = false → ∀ x, x ∈ refs out ↔ x ∈ refs nv) ∧ Covers d (refs out) (refs nv)

theorem Rel.refl_of_ok (d : Doc) (cfg : ECfg) (smart : Bool) (q : Plan) (c : Ref) (nv : List Item)
    (h : sel (F := F) d cfg q c = .ok nv) (hv : ∀ o ∈ refs nv, validRef d o = true) :
    Rel (F := F) d cfg smart q q c :=
  ⟨nv, nv, h, h, hv, fun _ _ => Iff.rfl, Covers.of_seteq d _ _ (fun _ => Iff.rfl)⟩

theorem axis_combine {d : Doc} (wf : WF d) (cfg : ECfg) (hinj : HashInj d cfg) (a : AxisInfo)
    (ha : a.axis ∈ axes12) (fl : Flags) (pr pr' : Props) (qin nin q : Plan) (c : Ref) (smartIn : Bool)
    (hin : Rel (F := F) d cfg smartIn qin nin c) (hsm : ¬ IsDescAxis a → smartIn = false)
    (hq : axisPlan a fl pr qin = .ok (q, pr')) :
    Rel (F := F) d cfg fl.smartDesc q (stepPlan a nin) c := by
  obtain ⟨ins', ins, hsel', hsel, hv, heq, hcov⟩ := hin
  by_cases hd : IsDescAxis a
  · obtain ⟨s, pr'', e1, e2⟩ := axisPlan_desc a hd fl pr qin
    rw [e1] at hq
    simp only [Except.ok.injEq, Prod.mk.injEq] at hq
    obtain ⟨hq, _⟩ := hq
    subst hq
    rw [e2]
    cases hsd : fl.smartDesc with
    | false =>
      simp only [Bool.false_eq_true, ↓reduceIte]
      obtain ⟨o1, o2, h1, h2, hm⟩ := descendant_of_covers (F := F) wf cfg a s qin nin c ins' ins hsel' hsel hv hcov
      obtain ⟨o2', h2', _, hval⟩ := stepPlan_ok (F := F) wf cfg hinj a ha nin c ins hv hsel
      rw [e2, h2] at h2'; cases h2'
      exact ⟨o1, o2, h1, h2, hval, fun _ => hm, Covers.of_seteq d _ _ hm⟩
    | true =>
      simp only [↓reduceIte]
      obtain ⟨o1, o2, h1, h2, hm⟩ := descOverDesc_covers (F := F) wf cfg a s qin nin c ins' ins hsel' hsel hv hcov
      obtain ⟨o2', h2', _, hval⟩ := stepPlan_ok (F := F) wf cfg hinj a ha nin c ins hv hsel
      rw [e2, h2] at h2'; cases h2'
      exact ⟨o1, o2, h1, h2, hval, (fun h => by cases h), hm⟩
  · obtain ⟨q', pr'', e1, e2⟩ := axisPlan_nondesc (F := F) a ha hd fl pr qin
    rw [e1] at hq
    simp only [Except.ok.injEq, Prod.mk.injEq] at hq
    obtain ⟨hq, _⟩ := hq
    subst hq
    obtain ⟨o1, o2, h1, h2, hm⟩ := stepPlan_congr (F := F) cfg hinj a ha qin nin c ins' ins hsel' hsel hv
      (heq (hsm hd))
    obtain ⟨o2', h2', _, hval⟩ := stepPlan_ok (F := F) wf cfg hinj a ha nin c ins hv hsel
    rw [h2] at h2'; cases h2'
    exact ⟨o1, o2, by rw [e2, h1], h2, hval, fun _ => hm, Covers.of_seteq d _ _ hm⟩

/-! ## `build` on predicate-free paths -/

def BuildOK (d : Doc) (cfg : ECfg) (regexOk : RegexOk) (limit : Nat) (sdf : Bool) (p : Ast) : Prop :=
  ∀ fl st o, fl.filter = false → build regexOk limit true sdf p fl st = .ok o →
    ∀ c, validRef d c = true → Rel (F := F) d cfg fl.smartDesc o.q (naivePlan p) c

theorem finAxis_q (q : Plan) (props : Props) (st : BState) (o : BOut)
    (h : build.finAxis q props st = .ok o) : o.q = q := by
  unfold build.finAxis at h
  cases h; rfl

theorem inFlagsOf_filter (a : AxisInfo) (fl : Flags) : (build.inFlagsOf a fl).filter = false := by
  unfold build.inFlagsOf; split <;> rfl

theorem inFlagsOf_smart (a : AxisInfo) (fl : Flags) (hn : ¬ IsDescAxis a) :
    (build.inFlagsOf a fl).smartDesc = false := by
  unfold build.inFlagsOf
  split
  · rename_i h
    simp only [Bool.and_eq_true, Bool.or_eq_true, beq_iff_eq] at h
    exact absurd h.2 hn
  · rfl

theorem build_axis_none {d : Doc} (wf : WF d) (cfg : ECfg) (hinj : HashInj d cfg)
    (regexOk : RegexOk) (limit : Nat) (sdf : Bool) (a : AxisInfo) (ha : a.axis ∈ axes12) :
    BuildOK (F := F) d cfg regexOk limit sdf (.axis a .none) := by
  intro fl st o hfl h c hc
  rw [build] at h
  have h := enter_ok _ _ _ _ h
  obtain ⟨⟨q, props⟩, hq, hfin⟩ := except_bind_ok _ _ _ h
  have hoq := finAxis_q _ _ _ _ hfin
  rw [hoq]
  exact axis_combine (F := F) wf cfg hinj a ha fl _ _ .context .context q c false
    (Rel.refl_of_ok d cfg false .context c _ (sel_context d cfg c) (by
      intro x hx; simp only [refs, List.map_cons, List.map_nil, List.mem_cons, List.not_mem_nil,
        or_false] at hx; rw [hx]; exact hc))
    (fun _ => rfl) hq

theorem build_axis_root {d : Doc} (wf : WF d) (cfg : ECfg) (hinj : HashInj d cfg)
    (regexOk : RegexOk) (limit : Nat) (sdf : Bool) (a : AxisInfo) (ha : a.axis ∈ axes12) (s : String) :
    BuildOK (F := F) d cfg regexOk limit sdf (.axis a (.root s)) := by
  intro fl st o hfl h c hc
  rw [build] at h
  · have h := enter_ok _ _ _ _ h
    obtain ⟨o1, ho1, h⟩ := except_bind_ok _ _ _ h
    obtain ⟨⟨q, props⟩, hq, hfin⟩ := except_bind_ok _ _ _ h
    have hoq := finAxis_q _ _ _ _ hfin
    rw [hoq]
    rw [build] at ho1
    have ho1 := enter_ok _ _ _ _ ho1
    cases ho1
    refine axis_combine (F := F) wf cfg hinj a ha fl _ _ .absolute .absolute q c false
      (Rel.refl_of_ok d cfg false .absolute c [⟨.node 0, 1, 0⟩] (by simp [sel, Nav.root]) (by
        intro x hx; simp only [refs, List.map_cons, List.map_nil, List.mem_cons, List.not_mem_nil,
          or_false] at hx; rw [hx]; exact (validRef_node d 0).2 wf.pos))
      (fun _ => rfl) hq
  · intro h; cases h
  · intro b g h; cases h


theorem shortcut_combine {d : Doc} (wf : WF d) (cfg : ECfg) (hinj : HashInj d cfg)
    (a b : AxisInfo) (ha : a.axis = "child") (hb : b.axis = "descendant-or-self")
    (h1 : b.typeTest = .all) (h2 : b.lname = "") (h3 : b.pfx = "")
    (gq ng : Plan) (c : Ref) (smart : Bool)
    (hin : Rel (F := F) d cfg true gq ng c) :
    Rel (F := F) d cfg smart (.descendant a false gq) (stepPlan a (stepPlan b ng)) c := by
  obtain ⟨ins', ins, hsel', hsel, hv, _, hcov⟩ := hin
  obtain ⟨o1, o2, ho1, ho2, hm12⟩ :=
    descendant_of_covers (F := F) wf cfg a false gq ng c ins' ins hsel' hsel hv hcov
  obtain ⟨o2', o3, ho2', ho3, hm23⟩ := shortcut_sem (F := F) wf cfg a b h1 h2 h3 ng c ins hsel hv
  rw [ho2] at ho2'; cases ho2'
  have ha12 : a.axis ∈ axes12 := by simp [axes12, ha]
  have hb12 : b.axis ∈ axes12 := by simp [axes12, hb]
  obtain ⟨mid, hmid, _, hmidv⟩ := stepPlan_ok (F := F) wf cfg hinj b hb12 ng c ins hv hsel
  obtain ⟨o3', ho3', _, hv3⟩ := stepPlan_ok (F := F) wf cfg hinj a ha12 (stepPlan b ng) c mid hmidv hmid
  have e : stepPlan a (stepPlan b ng) = .child a (.descendant b true ng) := by
    simp [stepPlan, ha, hb]
  rw [e] at ho3' ⊢
  rw [ho3] at ho3'; cases ho3'
  have hm : ∀ x, x ∈ refs o1 ↔ x ∈ refs o3 := fun x => (hm12 x).trans (hm23 x)
  exact ⟨o1, o3, ho1, ho3, hv3, fun _ => hm, Covers.of_seteq d _ _ hm⟩

theorem build_axis_axis {d : Doc} (wf : WF d) (cfg : ECfg) (hinj : HashInj d cfg)
    (regexOk : RegexOk) (limit : Nat) (sdf : Bool) (a b : AxisInfo) (grand : Ast) (ha : a.axis ∈ axes12)
    (hg : PathPF grand)
    (ihb : BuildOK (F := F) d cfg regexOk limit sdf (.axis b grand))
    (ihg : BuildOK (F := F) d cfg regexOk limit sdf grand) :
    BuildOK (F := F) d cfg regexOk limit sdf (.axis a (.axis b grand)) := by
  intro fl st o hfl h c hc
  rw [build] at h
  replace h := enter_ok _ _ _ _ h
  simp only [] at h
  show Rel d cfg fl.smartDesc o.q (stepPlan a (stepPlan b (naivePlan grand))) c
  split at h
  · rename_i hcond
    simp only [hfl, Bool.not_false, Bool.true_and, Bool.and_eq_true, beq_iff_eq, isPlainDos,
      Bool.not_true, Bool.false_or] at hcond
    obtain ⟨hax, hbx, ⟨h1, h2⟩, h3⟩ := hcond
    have key : ∀ gq, Rel (F := F) d cfg true gq (naivePlan grand) c → o.q = .descendant a false gq →
        Rel (F := F) d cfg fl.smartDesc o.q (stepPlan a (stepPlan b (naivePlan grand))) c := by
      intro gq hr hq
      rw [hq]
      exact shortcut_combine wf cfg hinj a b hax hbx h1 h2 h3 gq _ c _ hr
    cases hg with
    | none =>
      simp only [pure, Except.pure, bind, Except.bind] at h
      refine key .context ?_ (finAxis_q _ _ _ _ h)
      exact Rel.refl_of_ok d cfg true .context c _ (sel_context d cfg c) (by
        intro x hx; simp only [refs, List.map_cons, List.map_nil, List.mem_cons, List.not_mem_nil,
          or_false] at hx; rw [hx]; exact hc)
    | root s =>
      simp only [] at h
      obtain ⟨o1, ho1, h⟩ := except_bind_ok _ _ _ h
      simp only [pure, Except.pure, bind, Except.bind] at h
      exact key o1.q (ihg _ _ o1 rfl ho1 c hc) (finAxis_q _ _ _ _ h)
    | axis e g2 hg2 he =>
      simp only [] at h
      obtain ⟨o1, ho1, h⟩ := except_bind_ok _ _ _ h
      simp only [pure, Except.pure, bind, Except.bind] at h
      exact key o1.q (ihg _ _ o1 rfl ho1 c hc) (finAxis_q _ _ _ _ h)
  · obtain ⟨o1, ho1, h⟩ := except_bind_ok _ _ _ h
    obtain ⟨⟨q, props⟩, hq, hfin⟩ := except_bind_ok _ _ _ h
    rw [finAxis_q _ _ _ _ hfin]
    have hr := ihb _ _ o1 (inFlagsOf_filter a fl) ho1 c hc
    exact axis_combine (F := F) wf cfg hinj a ha fl _ _ o1.q (stepPlan b (naivePlan grand)) q c _
      hr (inFlagsOf_smart a fl) hq

/-- every predicate-free path (and the input of its last step) is built into a related plan -/
theorem build_ok_all {d : Doc} (wf : WF d) (cfg : ECfg) (hinj : HashInj d cfg)
    (regexOk : RegexOk) (limit : Nat) (sdf : Bool) (p : Ast) (hp : PathPF p) :
    BuildOK (F := F) d cfg regexOk limit sdf p ∧
      ∀ b g, p = .axis b g → BuildOK (F := F) d cfg regexOk limit sdf g := by
  induction hp with
  | none =>
    refine ⟨?_, fun b g h => by cases h⟩
    intro fl st o _ h; rw [build] at h; cases h
  | root s =>
    refine ⟨?_, fun b g h => by cases h⟩
    intro fl st o _ h c hc
    rw [build] at h
    replace h := enter_ok _ _ _ _ h
    cases h
    exact Rel.refl_of_ok d cfg _ .absolute c [⟨.node 0, 1, 0⟩] (by simp [sel, Nav.root]) (by
      intro x hx; simp only [refs, List.map_cons, List.map_nil, List.mem_cons, List.not_mem_nil,
        or_false] at hx; rw [hx]; exact (validRef_node d 0).2 wf.pos)
  | axis a inp hinp ha ih =>
    refine ⟨?_, fun b g h => by cases h; exact ih.1⟩
    cases hinp with
    | none => exact build_axis_none wf cfg hinj regexOk limit sdf a ha
    | root s => exact build_axis_root wf cfg hinj regexOk limit sdf a ha s
    | axis b g hg hb =>
      exact build_axis_axis wf cfg hinj regexOk limit sdf a b g ha hg ih.1 (ih.2 b g rfl)

/-- **Stage 4, `build`**: for a predicate-free path the plan `build` returns (with the `//name`
shortcut, the descendant-over-descendant rewrite and `cachedChild`) selects, from every valid
context node, the same node set as the un-rewritten plan -/
theorem build_pathpf {d : Doc} (wf : WF d) (cfg : ECfg) (hinj : HashInj d cfg)
    (regexOk : RegexOk) (limit : Nat) (sdf : Bool) (p : Ast) (hp : PathPF p) (st : BState) (o : BOut)
    (h : build regexOk limit true sdf p {} st = .ok o) (c : Ref) (hc : validRef d c = true) :
    ∃ out nv, sel (F := F) d cfg o.q c = .ok out ∧ sel (F := F) d cfg (naivePlan p) c = .ok nv ∧
      ∀ x, x ∈ refs out ↔ x ∈ refs nv := by
  obtain ⟨out, nv, h1, h2, _, heq, _⟩ :=
    (build_ok_all (F := F) wf cfg hinj regexOk limit sdf p hp).1 {} st o rfl h c hc
  exact ⟨out, nv, h1, h2, heq rfl⟩

end XPathV.PathSem
