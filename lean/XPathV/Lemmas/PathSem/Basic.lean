import XPathV.Lemmas.AxesLemmas
import XPathV.Lemmas.C11Base
/-!
# C01 helpers — the node set each axis plan yields, per origin node
-/
namespace XPathV.PathSem
open XPathV XPathV.Model

variable {F : Type} [NumAlg F]

/-- the twelve axis names of the property -/
def axes12 : List String :=
  ["child", "descendant", "descendant-or-self", "parent", "ancestor", "ancestor-or-self",
   "following", "following-sibling", "preceding", "preceding-sibling", "attribute", "self"]

/-- the plain plan of one step (never `descOverDesc`, never `cachedChild`) -/
def stepPlan (a : AxisInfo) (inp : Plan) : Plan :=
  match a.axis with
  | "ancestor" => .ancestor a false inp
  | "ancestor-or-self" => .ancestor a true inp
  | "attribute" => .attr a inp
  | "child" => .child a inp
  | "descendant" => .descendant a false inp
  | "descendant-or-self" => .descendant a true inp
  | "following" => .following a false inp
  | "following-sibling" => .following a true inp
  | "parent" => .parent a inp
  | "preceding" => .preceding a false inp
  | "preceding-sibling" => .preceding a true inp
  | "self" => .self a inp
  | _ => .nil

/-- the nodes the model's walk for axis `ax` visits from origin `o` (before the node test) -/
def axisRefsM (d : Doc) (ax : String) (o : Ref) : List Ref :=
  match ax with
  | "child" => childrenM d o
  | "descendant" => (descM d o).map (·.1)
  | "descendant-or-self" => o :: (descM d o).map (·.1)
  | "parent" => (Nav.moveParent d o).toList
  | "ancestor" => ancestorsM d o
  | "ancestor-or-self" => o :: ancestorsM d o
  | "following" => (if o.isAttr then (descM d (.node o.idx)).map (·.1) else []) ++
      (followRoots d (2 * d.length + 2) o).flatMap (fun r => r :: (descM d r).map (·.1))
  | "following-sibling" => nextSibsM d o
  | "preceding" => (precRoots d (2 * d.length + 2) o false).flatMap
      (fun rb => rb.1 :: (descM d rb.1).map (·.1))
  | "preceding-sibling" => prevSibsM d o
  | "attribute" => attrsM d o
  | "self" => [o]
  | _ => []

/-- the key union and ancestor de-duplicate with is injective on the nodes of `d`.  (Formerly the
documented NoFnvCollision ASSUMPTION — the key was a 64-bit hash; since the repair of `getNodeKey` the
engine compares the key strings and this is a THEOREM: `hashInj_holds`.) -/
def HashInj (d : Doc) (cfg : ECfg) : Prop :=
  ∀ a b, validRef d a = true → validRef d b = true →
    identityHash d cfg a = identityHash d cfg b → a = b

/-- **`HashInj` holds**: on a well-formed document in which no element has two attributes with the same
prefix, local name and value (XML well-formedness gives more: no two attributes with the same qualified
name), two valid nodes with the same node key are the same node.  No assumption on names (empty or
not), none on the configuration. -/
theorem hashInj_holds {d : Doc} (wf : WF d) (hattr : AttrTriplesDistinct d) (cfg : ECfg) :
    HashInj d cfg :=
  fun a b ha hb h => identityKey_inj wf hattr cfg a b ha hb h

/-- the same from the XML well-formedness constraint "attribute names are unique" -/
theorem hashInj_of_attrNames {d : Doc} (wf : WF d) (hattr : AttrNamesDistinct d) (cfg : ECfg) :
    HashInj d cfg := hashInj_holds wf hattr.triples cfg

/-- the side condition of `hashInj_holds` is necessary: `HashInj` implies it (two attributes of one
element with the same prefix, name and value have the same key) -/
theorem attrTriples_of_hashInj {d : Doc} {cfg : ECfg} (h : HashInj d cfg) : AttrTriplesDistinct d := by
  intro i k₁ k₂ hi h₁ h₂ e₁ e₂ e₃
  have := h (.attr i k₁) (.attr i k₂) (by simp [validRef, hi, h₁]) (by simp [validRef, hi, h₂])
    (identityKey_attr_collide d cfg i k₁ k₂ e₁ e₂ e₃)
  injection this

/-- on a well-formed document, `HashInj` is exactly `AttrTriplesDistinct` -/
theorem hashInj_iff {d : Doc} (wf : WF d) (cfg : ECfg) : HashInj d cfg ↔ AttrTriplesDistinct d :=
  ⟨attrTriples_of_hashInj, fun h => hashInj_holds wf h cfg⟩

/-- the refs of a list of items -/
abbrev refs (l : List Item) : List Ref := l.map (·.r)

/-! ## Items → refs -/

theorem numbered_refs (l : List Ref) : refs (numbered l) = l := by
  simp only [refs, numbered, List.map_map]
  have : ((fun (x : Item) => x.r) ∘ fun (x : Ref × Nat) => (⟨x.1, x.2 + 1, 0⟩ : Item)) = Prod.fst := by
    funext x; rfl
  rw [this, List.zipIdx_map_fst]

theorem plain_refs (l : List Ref) : refs (plain l) = l := by
  simp [refs, plain, List.map_map, Function.comp_def]

theorem leveled_refs (l : List (Ref × Nat)) :
    refs (l.zipIdx.map (fun (p, i) => (⟨p.1, i + 1, p.2⟩ : Item))) = l.map (·.1) := by
  simp only [refs, List.map_map]
  have : ((fun (x : Item) => x.r) ∘ fun (x : (Ref × Nat) × Nat) => (⟨x.1.1, x.2 + 1, x.1.2⟩ : Item))
      = (fun p => p.1) ∘ Prod.fst := by
    funext x; rfl
  rw [this, ← List.map_map, List.zipIdx_map_fst]

theorem refs_flatMap (l : List Item) (f : Item → List Item) :
    refs (l.flatMap f) = l.flatMap (fun it => refs (f it)) := by
  simp [refs, List.map_flatMap]

theorem mem_refs_flatMap (l : List Item) (f : Item → List Item) (g : Ref → List Ref)
    (h : ∀ it, refs (f it) = g it.r) (x : Ref) :
    x ∈ refs (l.flatMap f) ↔ ∃ o ∈ refs l, x ∈ g o := by
  rw [refs_flatMap]
  simp only [List.mem_flatMap, h, refs, List.mem_map]
  constructor
  · rintro ⟨it, hit, hx⟩; exact ⟨it.r, ⟨it, hit, rfl⟩, hx⟩
  · rintro ⟨o, ⟨it, hit, rfl⟩, hx⟩; exact ⟨it, hit, hx⟩

theorem followingItems_refs (d : Doc) (cfg : ECfg) (a : AxisInfo) (n : Ref) :
    refs (followingItems d cfg a n) = (axisRefsM d "following" n).filter (test d cfg a) := by
  simp only [followingItems, axisRefsM, refs, List.map_append, List.filter_append]
  congr 1
  · split
    · exact numbered_refs _
    · rfl
  · rw [List.map_flatMap, List.filter_flatMap]
    congr 1; funext root
    exact numbered_refs _

theorem precFold_refs (d : Doc) (cfg : ECfg) (a : AxisInfo) (roots : List (Ref × Bool))
    (acc : List Item × Nat) :
    refs (roots.foldl (fun (acc : List Item × Nat) (rb : Ref × Bool) =>
        let (out, cnt) := acc
        let cnt := if rb.2 then 0 else cnt
        let ms := ((rb.1 :: (descM d rb.1).map (·.1)).filter (test d cfg a))
        (out ++ ms.zipIdx.map (fun (r, i) => (⟨r, cnt + i + 1, 0⟩ : Item)), cnt + ms.length)) acc).1 =
      refs acc.1 ++ roots.flatMap (fun rb => (rb.1 :: (descM d rb.1).map (·.1)).filter (test d cfg a)) := by
  induction roots generalizing acc with
  | nil => simp
  | cons rb rest ih =>
    rw [List.foldl_cons, ih]
    obtain ⟨out, cnt⟩ := acc
    simp only [refs, List.map_append, List.flatMap_cons, List.append_assoc, List.map_map]
    congr 2
    have : ∀ c : Nat, ((fun (x : Item) => x.r) ∘ fun (x : Ref × Nat) => (⟨x.1, c + x.2 + 1, 0⟩ : Item)) = Prod.fst := by
      intro c; funext x; rfl
    rw [this, List.zipIdx_map_fst]

theorem precedingItems_refs (d : Doc) (cfg : ECfg) (a : AxisInfo) (n : Ref) :
    refs (precedingItems d cfg a n) = (axisRefsM d "preceding" n).filter (test d cfg a) := by
  simp only [precedingItems, axisRefsM]
  rw [List.filter_flatMap]
  exact precFold_refs d cfg a _ ([], 0)


/-! ## Validity of what the walks produce (only what the ancestor de-duplication needs) -/

theorem moveParent_valid (d : Doc) (o p : Ref) (ho : validRef d o = true)
    (h : Nav.moveParent d o = some p) : validRef d p = true := by
  cases o with
  | node i =>
    simp only [Nav.moveParent, Option.map_eq_some_iff] at h
    obtain ⟨q, hq, rfl⟩ := h
    have := (parentFrom_some d _ _ _ hq).1
    simp only [validRef, decide_eq_true_eq] at ho ⊢
    omega
  | attr i k =>
    simp only [Nav.moveParent, Option.some.injEq] at h
    subst h
    simp only [validRef, Bool.and_eq_true, decide_eq_true_eq] at ho ⊢
    exact ho.1

theorem ancestorsFrom_valid (d : Doc) (f : Nat) (o : Ref) (ho : validRef d o = true) :
    ∀ x ∈ ancestorsFrom d f o, validRef d x = true := by
  induction f generalizing o with
  | zero => intro x hx; simp [ancestorsFrom] at hx
  | succ f ih =>
    intro x hx
    simp only [ancestorsFrom] at hx
    split at hx
    · rename_i p hp
      have hpv := moveParent_valid d o p ho hp
      simp only [List.mem_cons] at hx
      rcases hx with rfl | hx
      · exact hpv
      · exact ih p hpv x hx
    · simp at hx

theorem ancestorsM_valid (d : Doc) (o : Ref) (ho : validRef d o = true) :
    ∀ x ∈ ancestorsM d o, validRef d x = true := ancestorsFrom_valid d _ o ho

/-- under the no-collision assumption `dedupByKey` preserves membership on valid refs -/
theorem mem_dedup (d : Doc) (cfg : ECfg) (hinj : HashInj d cfg) (l : List Ref)
    (hv : ∀ x ∈ l, validRef d x = true) (x : Ref) :
    x ∈ dedupByKey (identityHash d cfg) l [] ↔ x ∈ l := by
  constructor
  · exact Theorems.C11.dedup_subset _ _ _ x
  · intro hx
    apply Theorems.C11.dedup_complete _ _ _ (fun a ha b hb => hinj a b (hv a ha) (hv b hb)) x hx
    simp

/-! ## The node set of one step over an input sequence -/

/-- **one step, model side**: the plain plan of axis `a` over `inp` yields, from the refs `ins` of
its input, exactly the nodes the walk reaches from some origin in `ins` that pass the node test -/
theorem stepPlan_sem (d : Doc) (cfg : ECfg) (hinj : HashInj d cfg) (a : AxisInfo)
    (ha : a.axis ∈ axes12) (inp : Plan) (c : Ref) (ins : List Item)
    (hv : ∀ o ∈ refs ins, validRef d o = true)
    (h : sel (F := F) d cfg inp c = .ok ins) :
    ∃ out, sel (F := F) d cfg (stepPlan a inp) c = .ok out ∧
      ∀ x, x ∈ refs out ↔ ∃ o ∈ refs ins, x ∈ (axisRefsM d a.axis o).filter (test d cfg a) := by
  simp only [axes12, List.mem_cons, List.not_mem_nil, or_false] at ha
  rcases ha with hax | hax | hax | hax | hax | hax | hax | hax | hax | hax | hax | hax
  · -- child
    refine ⟨ins.flatMap (fun it => numbered ((childrenM d it.r).filter (test d cfg a))),
      by simp [stepPlan, hax, sel, h, bind, Except.bind], fun x => ?_⟩
    rw [hax]
    exact mem_refs_flatMap _ _ (fun o => (axisRefsM d "child" o).filter (test d cfg a))
      (fun it => numbered_refs _) x
  · -- descendant
    refine ⟨ins.flatMap (fun it =>
        let own : List (Ref × Nat) := if false && test d cfg a it.r then [(it.r, 0)] else []
        let l := own ++ (descM d it.r).filter (fun p => test d cfg a p.1)
        l.zipIdx.map (fun (p, i) => ⟨p.1, i + 1, p.2⟩)),
      by simp [stepPlan, hax, sel, h, bind, Except.bind], fun x => ?_⟩
    rw [hax]
    refine mem_refs_flatMap _ _ (fun o => (axisRefsM d "descendant" o).filter (test d cfg a))
      (fun it => ?_) x
    simp only [leveled_refs, axisRefsM, Bool.false_and, Bool.false_eq_true, ↓reduceIte,
      List.nil_append, List.filter_map, Function.comp_def]
  · -- descendant-or-self
    refine ⟨ins.flatMap (fun it =>
        let own : List (Ref × Nat) := if true && test d cfg a it.r then [(it.r, 0)] else []
        let l := own ++ (descM d it.r).filter (fun p => test d cfg a p.1)
        l.zipIdx.map (fun (p, i) => ⟨p.1, i + 1, p.2⟩)),
      by simp [stepPlan, hax, sel, h, bind, Except.bind], fun x => ?_⟩
    rw [hax]
    refine mem_refs_flatMap _ _ (fun o => (axisRefsM d "descendant-or-self" o).filter (test d cfg a))
      (fun it => ?_) x
    simp only [leveled_refs, axisRefsM, Bool.true_and, List.filter_cons, List.map_append,
      List.filter_map, Function.comp_def]
    split <;> simp
  · -- parent
    refine ⟨ins.flatMap (fun it => plain (((Nav.moveParent d it.r).toList).filter (test d cfg a))),
      by simp [stepPlan, hax, sel, h, bind, Except.bind], fun x => ?_⟩
    rw [hax]
    exact mem_refs_flatMap _ _ (fun o => (axisRefsM d "parent" o).filter (test d cfg a))
      (fun it => plain_refs _) x
  · -- ancestor
    refine ⟨plain (dedupByKey (identityHash d cfg) (ins.flatMap (fun it =>
        ((if false then [it.r] else []) ++ ancestorsM d it.r).filter (test d cfg a))) []),
      by simp [stepPlan, hax, sel, h, bind, Except.bind], fun x => ?_⟩
    rw [hax, plain_refs, mem_dedup d cfg hinj]
    · simp only [List.mem_flatMap, refs, List.mem_map, axisRefsM, Bool.false_eq_true, ↓reduceIte,
        List.nil_append]
      constructor
      · rintro ⟨it, hit, hx⟩; exact ⟨it.r, ⟨it, hit, rfl⟩, hx⟩
      · rintro ⟨o, ⟨it, hit, rfl⟩, hx⟩; exact ⟨it, hit, hx⟩
    · intro y hy
      simp only [List.mem_flatMap, Bool.false_eq_true, ↓reduceIte, List.nil_append,
        List.mem_filter] at hy
      obtain ⟨it, hit, hy, _⟩ := hy
      exact ancestorsM_valid d it.r (hv _ (List.mem_map.mpr ⟨it, hit, rfl⟩)) y hy
  · -- ancestor-or-self
    refine ⟨plain (dedupByKey (identityHash d cfg) (ins.flatMap (fun it =>
        ((if true then [it.r] else []) ++ ancestorsM d it.r).filter (test d cfg a))) []),
      by simp [stepPlan, hax, sel, h, bind, Except.bind], fun x => ?_⟩
    rw [hax, plain_refs, mem_dedup d cfg hinj]
    · simp only [List.mem_flatMap, refs, List.mem_map, axisRefsM, ↓reduceIte,
        List.singleton_append]
      constructor
      · rintro ⟨it, hit, hx⟩; exact ⟨it.r, ⟨it, hit, rfl⟩, hx⟩
      · rintro ⟨o, ⟨it, hit, rfl⟩, hx⟩; exact ⟨it, hit, hx⟩
    · intro y hy
      simp only [List.mem_flatMap, ↓reduceIte, List.singleton_append,
        List.mem_filter, List.mem_cons] at hy
      obtain ⟨it, hit, hy, _⟩ := hy
      have hiv := hv _ (List.mem_map.mpr ⟨it, hit, rfl⟩)
      rcases hy with rfl | hy
      · exact hiv
      · exact ancestorsM_valid d it.r hiv y hy
  · -- following
    refine ⟨ins.flatMap (fun it =>
        if false then numbered ((nextSibsM d it.r).filter (test d cfg a))
        else followingItems d cfg a it.r),
      by simp [stepPlan, hax, sel, h, bind, Except.bind], fun x => ?_⟩
    rw [hax]
    exact mem_refs_flatMap _ _ (fun o => (axisRefsM d "following" o).filter (test d cfg a))
      (fun it => followingItems_refs d cfg a it.r) x
  · -- following-sibling
    refine ⟨ins.flatMap (fun it =>
        if true then numbered ((nextSibsM d it.r).filter (test d cfg a))
        else followingItems d cfg a it.r),
      by simp [stepPlan, hax, sel, h, bind, Except.bind], fun x => ?_⟩
    rw [hax]
    exact mem_refs_flatMap _ _ (fun o => (axisRefsM d "following-sibling" o).filter (test d cfg a))
      (fun it => numbered_refs _) x
  · -- preceding
    refine ⟨ins.flatMap (fun it =>
        if false then numbered ((prevSibsM d it.r).filter (test d cfg a))
        else precedingItems d cfg a it.r),
      by simp [stepPlan, hax, sel, h, bind, Except.bind], fun x => ?_⟩
    rw [hax]
    exact mem_refs_flatMap _ _ (fun o => (axisRefsM d "preceding" o).filter (test d cfg a))
      (fun it => precedingItems_refs d cfg a it.r) x
  · -- preceding-sibling
    refine ⟨ins.flatMap (fun it =>
        if true then numbered ((prevSibsM d it.r).filter (test d cfg a))
        else precedingItems d cfg a it.r),
      by simp [stepPlan, hax, sel, h, bind, Except.bind], fun x => ?_⟩
    rw [hax]
    exact mem_refs_flatMap _ _ (fun o => (axisRefsM d "preceding-sibling" o).filter (test d cfg a))
      (fun it => numbered_refs _) x
  · -- attribute
    refine ⟨ins.flatMap (fun it => plain ((attrsM d it.r).filter (test d cfg a))),
      by simp [stepPlan, hax, sel, h, bind, Except.bind], fun x => ?_⟩
    rw [hax]
    exact mem_refs_flatMap _ _ (fun o => (axisRefsM d "attribute" o).filter (test d cfg a))
      (fun it => plain_refs _) x
  · -- self
    refine ⟨plain ((ins.map (·.r)).filter (test d cfg a)),
      by simp [stepPlan, hax, sel, h, bind, Except.bind], fun x => ?_⟩
    rw [hax, plain_refs]
    simp only [List.mem_filter, axisRefsM, List.mem_cons, List.not_mem_nil, or_false, refs]
    constructor
    · rintro ⟨h1, h2⟩; exact ⟨x, h1, rfl, h2⟩
    · rintro ⟨o, h1, rfl, h2⟩; exact ⟨h1, h2⟩

end XPathV.PathSem
