import XPathV.Lemmas.PathSem.Basic
/-!
# C01 helpers — each model walk reaches exactly the nodes of the XPath axis (node and attribute contexts)
-/
namespace XPathV.PathSem
open XPathV XPathV.Model

/-! ## small facts -/

theorem validRef_node (d : Doc) (i : Nat) : validRef d (.node i) = true ↔ i < d.length := by
  simp [validRef]

theorem validRef_attr (d : Doc) (i k : Nat) :
    validRef d (.attr i k) = true ↔ (i < d.length ∧ k < (recAt d i).attrs.length) := by
  simp [validRef]

theorem mem_allNodes (d : Doc) (x : Ref) : x ∈ allNodes d ↔ ∃ j, j < d.length ∧ x = .node j := by
  simp only [allNodes, List.mem_map, List.mem_range]
  constructor
  · rintro ⟨j, hj, rfl⟩; exact ⟨j, hj, rfl⟩
  · rintro ⟨j, hj, rfl⟩; exact ⟨j, hj, rfl⟩

theorem parent?_is_node (d : Doc) (r p : Ref) (h : Spec.parent? d r = some p) : ∃ j, p = .node j := by
  cases r with
  | node i =>
    rw [parent?_node] at h
    simp only [Option.map_eq_some_iff] at h
    obtain ⟨q, _, rfl⟩ := h; exact ⟨q, rfl⟩
  | attr i k =>
    simp only [Spec.parent?, Nav.moveParent, Option.some.injEq] at h
    exact ⟨i, h.symm⟩

theorem ancestorsFuel_nodes (d : Doc) (f : Nat) (r : Ref) :
    ∀ x ∈ Spec.ancestorsFuel d f r, ∃ j, x = .node j := by
  induction f generalizing r with
  | zero => intro x hx; simp [Spec.ancestorsFuel] at hx
  | succ f ih =>
    intro x hx
    simp only [Spec.ancestorsFuel] at hx
    split at hx
    · rename_i p hp
      simp only [List.mem_cons] at hx
      rcases hx with rfl | hx
      · exact parent?_is_node d r x hp
      · exact ih p x hx
    · simp at hx

theorem isAncestor_attr (d : Doc) (i k : Nat) (x : Ref) : Spec.isAncestor d (.attr i k) x = false := by
  cases h : Spec.isAncestor d (.attr i k) x with
  | false => rfl
  | true =>
    simp only [Spec.isAncestor, List.contains_iff_mem] at h
    obtain ⟨j, hj⟩ := ancestorsFuel_nodes d _ x _ h
    cases hj

/-! ## walks from an attribute -/

theorem childrenM_attr (d : Doc) (i k : Nat) : childrenM d (.attr i k) = [] := by
  simp [childrenM, Nav.moveChild]

theorem descM_attr (d : Doc) (i k : Nat) : descM d (.attr i k) = [] := by
  unfold descM
  cases d.length with
  | zero => rfl
  | succ n => simp [walkD, stepD, Nav.moveChild, climb]

theorem nextSibsM_attr (d : Doc) (i k : Nat) : nextSibsM d (.attr i k) = [] := by
  simp [nextSibsM, Nav.moveNext]

theorem prevSibsM_attr (d : Doc) (i k : Nat) : prevSibsM d (.attr i k) = [] := by
  unfold prevSibsM
  cases d.length with
  | zero => rfl
  | succ n => simp [prevSibsFrom, Nav.movePrev]

theorem attrsM_attr (d : Doc) (i k : Nat) : attrsM d (.attr i k) = [] := by
  simp [attrsM, Ref.isAttr]

/-! ## spec axes from an attribute -/

theorem children_attr (d : Doc) (i k : Nat) : Spec.children d (.attr i k) = [] := by
  unfold Spec.children
  rw [List.filter_eq_nil_iff]
  intro x _ h
  simp only [beq_iff_eq] at h
  obtain ⟨j, hj⟩ := parent?_is_node d x _ h
  cases hj

theorem descendants_attr (d : Doc) (i k : Nat) : Spec.descendants d (.attr i k) = [] := by
  unfold Spec.descendants
  rw [List.filter_eq_nil_iff]
  intro x _
  simp [isAncestor_attr]

/-! ## attribute axis from a node -/

theorem attrChain_mem (d : Doc) (i : Nat) (x : Ref) : ∀ f k,
    x ∈ attrChain d f (.attr i k) ↔
      ∃ m, x = .attr i m ∧ k < m ∧ m < (recAt d i).attrs.length ∧ m ≤ k + f := by
  intro f
  induction f with
  | zero =>
    intro k
    simp only [attrChain, List.not_mem_nil, false_iff]
    rintro ⟨m, _, h1, _, h2⟩; omega
  | succ f ih =>
    intro k
    simp only [attrChain, Nav.moveNextAttr]
    split
    · rename_i h
      split at h
      · rename_i hk
        cases h
        simp only [List.mem_cons, ih]
        constructor
        · rintro (rfl | ⟨m, rfl, h1, h2, h3⟩)
          · exact ⟨k+1, rfl, by omega, hk, by omega⟩
          · exact ⟨m, rfl, by omega, h2, by omega⟩
        · rintro ⟨m, rfl, h1, h2, h3⟩
          by_cases hm : m = k + 1
          · left; rw [hm]
          · right; exact ⟨m, rfl, by omega, h2, by omega⟩
      · cases h
    · rename_i h
      split at h
      · cases h
      · rename_i hk
        simp only [List.not_mem_nil, false_iff]
        rintro ⟨m, _, h1, h2, _⟩; omega

theorem attrsM_node_mem (d : Doc) (i : Nat) (x : Ref) :
    x ∈ attrsM d (.node i) ↔ ∃ m, m < (recAt d i).attrs.length ∧ x = .attr i m := by
  simp only [attrsM, Ref.isAttr, Bool.false_eq_true, ↓reduceIte, Ref.idx, attrChain, Nav.moveNextAttr]
  split
  · rename_i h
    split at h
    · rename_i hn
      cases h
      simp only [List.mem_cons, attrChain_mem]
      constructor
      · rintro (rfl | ⟨m, rfl, h1, h2, h3⟩)
        · exact ⟨0, hn, rfl⟩
        · exact ⟨m, h2, rfl⟩
      · rintro ⟨m, hm, rfl⟩
        by_cases h0 : m = 0
        · left; rw [h0]
        · right; exact ⟨m, rfl, by omega, hm, by omega⟩
    · cases h
  · rename_i h
    split at h
    · cases h
    · rename_i hn
      simp only [List.not_mem_nil, false_iff]
      rintro ⟨m, hm, _⟩; omega

theorem attributes_node_mem {d : Doc} (wf : WF d) (i : Nat) (hi : i < d.length) (x : Ref) :
    x ∈ Spec.attributes d (.node i) ↔ ∃ m, m < (recAt d i).attrs.length ∧ x = .attr i m := by
  simp only [Spec.attributes]
  split
  · simp only [attrsOf, List.mem_map, List.mem_range]
    constructor
    · rintro ⟨m, hm, rfl⟩; exact ⟨m, hm, rfl⟩
    · rintro ⟨m, hm, rfl⟩; exact ⟨m, hm, rfl⟩
  · rename_i hk
    have : (recAt d i).attrs = [] := wf.attrs i hi (by simpa using hk)
    simp [this]

/-! ## following / preceding from an attribute -/

theorem lt_attr_node (i k j : Nat) : Ref.lt (.attr i k) (.node j) = true ↔ i < j := by
  simp [Ref.lt, Ref.ord]
  exact decide_eq_true_iff

theorem lt_node_attr (i k j : Nat) : Ref.lt (.node j) (.attr i k) = true ↔ j ≤ i := by
  unfold Ref.lt Ref.ord
  simp only [Bool.or_eq_true, Bool.and_eq_true, decide_eq_true_eq, beq_iff_eq]
  omega

theorem mem_range'_node (s n : Nat) (x : Ref) :
    x ∈ (List.range' s n).map Ref.node ↔ ∃ j, x = .node j ∧ s ≤ j ∧ j < s + n := by
  simp only [List.mem_map, List.mem_range'_1]
  constructor
  · rintro ⟨j, hj, rfl⟩; exact ⟨j, rfl, hj⟩
  · rintro ⟨j, rfl, hj⟩; exact ⟨j, hj, rfl⟩

theorem following_attr_walk {d : Doc} (wf : WF d) (i k : Nat) (hi : i < d.length) (x : Ref) :
    x ∈ axisRefsM d "following" (.attr i k) ↔ ∃ j, x = .node j ∧ i < j ∧ j < d.length := by
  have hroots : followRoots d (2 * d.length + 2) (.attr i k) = followRoots d (2 * d.length + 1) (.node i) := by
    simp [followRoots, Nav.moveNext, Nav.moveParent]
  have hflat := followRoots_flat wf (2 * d.length + 1) i hi (by have := dep_le_idx wf i hi; omega)
  have hgt := endOf_gt d i
  have hle := endOf_le d i hi
  simp only [axisRefsM, Ref.isAttr, ↓reduceIte, Ref.idx, hroots, List.mem_append]
  rw [desc_range wf i hi]
  change _ ∨ x ∈ (followRoots d (2 * d.length + 1) (.node i)).flatMap (subtreeM d) ↔ _
  rw [hflat, mem_range'_node, mem_range'_node]
  constructor
  · rintro (⟨j, rfl, h1, h2⟩ | ⟨j, rfl, h1, h2⟩)
    · exact ⟨j, rfl, by omega, by omega⟩
    · exact ⟨j, rfl, by omega, by omega⟩
  · rintro ⟨j, rfl, h1, h2⟩
    by_cases h : j < endOf d i
    · left; exact ⟨j, rfl, by omega, by omega⟩
    · right; exact ⟨j, rfl, by omega, by omega⟩

theorem following_attr_spec (d : Doc) (i k : Nat) (x : Ref) :
    x ∈ Spec.following d (.attr i k) ↔ ∃ j, x = .node j ∧ i < j ∧ j < d.length := by
  simp only [Spec.following, List.mem_filter, mem_allNodes, isAncestor_attr, Bool.not_false,
    Bool.and_true]
  constructor
  · rintro ⟨⟨j, hj, rfl⟩, h⟩; exact ⟨j, rfl, (lt_attr_node i k j).1 h, hj⟩
  · rintro ⟨j, rfl, h1, h2⟩; exact ⟨⟨j, h2, rfl⟩, (lt_attr_node i k j).2 h1⟩

theorem preceding_attr_walk {d : Doc} (wf : WF d) (i k : Nat) (hi : i < d.length) (x : Ref) :
    x ∈ axisRefsM d "preceding" (.attr i k) ↔ ∃ j, x = .node j ∧ j < i ∧ endOf d j ≤ i := by
  have hroots : precRoots d (2 * d.length + 2) (.attr i k) false = precRoots d (2 * d.length + 1) (.node i) true := by
    simp [precRoots, Nav.movePrev, Nav.moveParent]
  have h1 := precRoots_mem wf (2 * d.length + 1) i true hi (by omega) x
  simp only [axisRefsM, hroots]
  exact h1

theorem isAncestor_node_attr {d : Doc} (wf : WF d) (i k j : Nat) (hi : i < d.length) :
    Spec.isAncestor d (.node j) (.attr i k) = true ↔ (j = i ∨ (j < i ∧ i < endOf d j)) := by
  simp only [Spec.isAncestor, List.contains_iff_mem, Spec.ancestors, Spec.ancestorsFuel,
    Spec.parent?, Nav.moveParent, List.mem_cons, Ref.node.injEq]
  rw [anc_mem wf j d.length i hi hi]

theorem preceding_attr_spec {d : Doc} (wf : WF d) (i k : Nat) (hi : i < d.length) (x : Ref) :
    x ∈ Spec.preceding d (.attr i k) ↔ ∃ j, x = .node j ∧ j < i ∧ endOf d j ≤ i := by
  simp only [Spec.preceding, List.mem_filter, mem_allNodes, Bool.and_eq_true, Bool.not_eq_true']
  constructor
  · rintro ⟨⟨j, hj, rfl⟩, h1, h2⟩
    have h1 := (lt_node_attr i k j).1 h1
    have h3 : ¬ (j = i ∨ (j < i ∧ i < endOf d j)) := by
      intro h; rw [(isAncestor_node_attr wf i k j hi).2 h] at h2; cases h2
    exact ⟨j, rfl, by omega, by omega⟩
  · rintro ⟨j, rfl, h1, h2⟩
    refine ⟨⟨j, by omega, rfl⟩, (lt_node_attr i k j).2 (by omega), ?_⟩
    cases h : Spec.isAncestor d (.node j) (.attr i k) with
    | false => rfl
    | true => have := (isAncestor_node_attr wf i k j hi).1 h; omega

/-! ## the twelve axes, any valid origin -/

/-- **walks = axes**: from every valid node (element, text, comment, root or attribute) of a
well-formed document the model's walk for each of the twelve axes reaches exactly the nodes of
the XPath 1.0 axis -/
theorem axisRefsM_spec {d : Doc} (wf : WF d) (o : Ref) (ho : validRef d o = true) (ax : String)
    (hax : ax ∈ axes12) (x : Ref) :
    x ∈ axisRefsM d ax o ↔ x ∈ (Spec.axisNodes d ax o).getD [] := by
  simp only [axes12, List.mem_cons, List.not_mem_nil, or_false] at hax
  rcases hax with rfl | rfl | rfl | rfl | rfl | rfl | rfl | rfl | rfl | rfl | rfl | rfl
  · -- child
    simp only [axisRefsM, Spec.axisNodes, Option.getD_some]
    cases o with
    | node i => rw [children_spec wf i ((validRef_node d i).1 ho)]
    | attr i k => rw [childrenM_attr, children_attr]
  · -- descendant
    simp only [axisRefsM, Spec.axisNodes, Option.getD_some]
    cases o with
    | node i => rw [desc_spec wf i ((validRef_node d i).1 ho)]
    | attr i k => rw [descM_attr, descendants_attr]; simp
  · -- descendant-or-self
    simp only [axisRefsM, Spec.axisNodes, Option.getD_some]
    cases o with
    | node i =>
      have hi := (validRef_node d i).1 ho
      rw [desc_spec wf i hi]
      simp only [Spec.descendants, Ref.isAttr, Bool.false_eq_true, ↓reduceIte, List.nil_append,
        List.mem_cons, List.mem_filter, Bool.or_eq_true, beq_iff_eq]
      constructor
      · rintro (rfl | ⟨h1, h2⟩)
        · exact ⟨(mem_allNodes d _).2 ⟨i, hi, rfl⟩, Or.inl rfl⟩
        · exact ⟨h1, Or.inr h2⟩
      · rintro ⟨h1, h2 | h2⟩
        · exact Or.inl h2
        · exact Or.inr ⟨h1, h2⟩
    | attr i k =>
      simp [descM_attr, Ref.isAttr, isAncestor_attr, mem_allNodes]
  · -- parent
    simp only [axisRefsM, Spec.axisNodes, Option.getD_some, Spec.parent?]
  · -- ancestor
    simp only [axisRefsM, Spec.axisNodes, Option.getD_some, ancestors_spec, List.mem_reverse]
  · -- ancestor-or-self
    simp only [axisRefsM, Spec.axisNodes, Option.getD_some, ancestors_spec, List.mem_reverse,
      List.mem_cons, List.mem_append, List.not_mem_nil, or_false]
    exact Or.comm
  · -- following
    cases o with
    | node i =>
      have hi := (validRef_node d i).1 ho
      simp only [axisRefsM, Spec.axisNodes, Option.getD_some, Ref.isAttr, Bool.false_eq_true,
        ↓reduceIte, List.nil_append]
      exact following_spec wf i hi x
    | attr i k =>
      have hi := ((validRef_attr d i k).1 ho).1
      rw [following_attr_walk wf i k hi]
      simp only [Spec.axisNodes, Option.getD_some]
      rw [following_attr_spec]
  · -- following-sibling
    simp only [axisRefsM, Spec.axisNodes, Option.getD_some]
    cases o with
    | node i => rw [nextSibs_spec wf i ((validRef_node d i).1 ho)]
    | attr i k => rw [nextSibsM_attr]; simp [Spec.followingSiblings, Ref.isAttr]
  · -- preceding
    cases o with
    | node i =>
      have hi := (validRef_node d i).1 ho
      simp only [axisRefsM, Spec.axisNodes, Option.getD_some]
      exact preceding_spec wf i hi x
    | attr i k =>
      have hi := ((validRef_attr d i k).1 ho).1
      rw [preceding_attr_walk wf i k hi]
      simp only [Spec.axisNodes, Option.getD_some]
      rw [preceding_attr_spec wf i k hi]
  · -- preceding-sibling
    simp only [axisRefsM, Spec.axisNodes, Option.getD_some]
    cases o with
    | node i =>
      rw [← prevSibs_spec wf i ((validRef_node d i).1 ho), List.mem_reverse]
    | attr i k => rw [prevSibsM_attr]; simp [Spec.precedingSiblings, Ref.isAttr]
  · -- attribute
    simp only [axisRefsM, Spec.axisNodes, Option.getD_some]
    cases o with
    | node i =>
      rw [attrsM_node_mem, attributes_node_mem wf i ((validRef_node d i).1 ho)]
    | attr i k => rw [attrsM_attr]; simp [Spec.attributes]
  · -- self
    simp only [axisRefsM, Spec.axisNodes, Option.getD_some]

end XPathV.PathSem
