import XPathV.Lemmas.PathSem.Naive
/-!
# C01 — stage 4: the builder's rewrites preserve the node set
-/
namespace XPathV.PathSem
open XPathV XPathV.Model

variable {F : Type} [NumAlg F]

/-! ## descendant / child relations in index form -/

/-- `x` is a proper descendant of `o` (never an attribute, never below an attribute) -/
def InSub (d : Doc) (o x : Ref) : Prop :=
  ∃ p j, o = .node p ∧ x = .node j ∧ p < j ∧ j < endOf d p

/-- `x` is a child of `o` -/
def IsChild (d : Doc) (o x : Ref) : Prop :=
  ∃ p j, o = .node p ∧ x = .node j ∧ p < j ∧ j < endOf d p ∧ dep d j = dep d p + 1

theorem mem_descM {d : Doc} (wf : WF d) (o : Ref) (ho : validRef d o = true) (x : Ref) :
    x ∈ (descM d o).map (·.1) ↔ InSub d o x := by
  cases o with
  | node i =>
    have hi := (validRef_node d i).1 ho
    rw [desc_range wf i hi, mem_range'_node]
    have := endOf_gt d i
    constructor
    · rintro ⟨j, rfl, h1, h2⟩; exact ⟨i, j, rfl, rfl, by omega, by omega⟩
    · rintro ⟨p, j, hp, rfl, h1, h2⟩; cases hp; exact ⟨j, rfl, by omega, by omega⟩
  | attr i k =>
    rw [descM_attr]
    simp only [List.map_nil, List.not_mem_nil, false_iff]
    rintro ⟨p, j, hp, _⟩; cases hp

theorem mem_childrenM {d : Doc} (wf : WF d) (o : Ref) (ho : validRef d o = true) (x : Ref) :
    x ∈ childrenM d o ↔ IsChild d o x := by
  cases o with
  | node i =>
    have hi := (validRef_node d i).1 ho
    rw [childrenM_node, List.mem_map]
    constructor
    · rintro ⟨j, hj, rfl⟩
      obtain ⟨a, b, c⟩ := (childIdx_mem wf i hi j).1 hj
      exact ⟨i, j, rfl, rfl, a, b, c⟩
    · rintro ⟨p, j, hp, rfl, a, b, c⟩; cases hp
      exact ⟨j, (childIdx_mem wf i hi j).2 ⟨a, b, c⟩, rfl⟩
  | attr i k =>
    rw [childrenM_attr]
    simp only [List.not_mem_nil, false_iff]
    rintro ⟨p, j, hp, _⟩; cases hp

theorem InSub_valid {d : Doc} (o x : Ref) (ho : validRef d o = true) (h : InSub d o x) :
    validRef d x = true := by
  obtain ⟨p, j, rfl, rfl, h1, h2⟩ := h
  have hp := (validRef_node d p).1 ho
  have := endOf_le d p hp
  exact (validRef_node d j).2 (by omega)

theorem InSub_trans {d : Doc} (o' o x : Ref) (ho : validRef d o' = true)
    (h1 : InSub d o' o) (h2 : InSub d o x) : InSub d o' x := by
  obtain ⟨p', p, rfl, rfl, a, b⟩ := h1
  obtain ⟨q, j, hq, rfl, e, f⟩ := h2
  cases hq
  have hp := (validRef_node d p').1 ho
  have := endOf_nested d p' p hp a b
  exact ⟨p', j, rfl, rfl, by omega, by omega⟩

/-- a proper descendant `j` of `c` has its parent in the subtree of `c` (or is a child of `c`) -/
theorem parent_in_sub {d : Doc} (wf : WF d) (c j : Nat) (hc : c < d.length) (h1 : c < j)
    (h2 : j < endOf d c) : ∃ p, c ≤ p ∧ p < j ∧ j < endOf d p ∧ dep d j = dep d p + 1 := by
  have hle := endOf_le d c hc
  have hj : j < d.length := by omega
  obtain ⟨p, hp⟩ := parent_exists wf j (by omega) hj
  obtain ⟨hpj, hpd, hb⟩ := parentFrom_some d _ _ _ hp
  have hin := endOf_inside d c j h1 h2
  have hcp : c ≤ p := by
    rcases Nat.lt_or_ge p c with h | h
    · have := hb c h h1; omega
    · exact h
  have := (parent_iff_subtree wf p j hj hpj).1 hp
  exact ⟨p, hcp, hpj, this.1, this.2⟩

/-- every proper descendant lies in the subtree of exactly one child; here: of some child -/
theorem child_cover {d : Doc} (wf : WF d) (c : Nat) (hc : c < d.length) :
    ∀ j, c < j → j < endOf d c → ∃ m ∈ childIdx d c, m ≤ j ∧ j < endOf d m := by
  intro j
  induction j using Nat.strongRecOn with
  | ind j ih =>
    intro h1 h2
    obtain ⟨p, hcp, hpj, hjp, hdep⟩ := parent_in_sub wf c j hc h1 h2
    rcases Nat.eq_or_lt_of_le hcp with h | h
    · subst h
      exact ⟨j, (childIdx_mem wf c hc j).2 ⟨h1, h2, hdep⟩, Nat.le_refl _, endOf_gt d j⟩
    · obtain ⟨m, hm, hmp, hpm⟩ := ih p hpj h (by omega)
      refine ⟨m, hm, by omega, ?_⟩
      rcases Nat.eq_or_lt_of_le hmp with e | e
      · subst e; exact hjp
      · have hml : m < d.length := by
          have := ((childIdx_mem wf c hc m).1 hm).2.1
          have := endOf_le d c hc; omega
        have := endOf_nested d m p hml e hpm
        omega

/-- `x` is a descendant of `o` iff it is a child of `o` or of a descendant of `o` -/
theorem desc_iff_child_of_dos {d : Doc} (wf : WF d) (o : Ref) (ho : validRef d o = true) (x : Ref) :
    InSub d o x ↔ ∃ y, (y = o ∨ InSub d o y) ∧ IsChild d y x := by
  constructor
  · rintro ⟨c, j, rfl, rfl, h1, h2⟩
    have hc := (validRef_node d c).1 ho
    obtain ⟨p, hcp, hpj, hjp, hdep⟩ := parent_in_sub wf c j hc h1 h2
    refine ⟨.node p, ?_, ⟨p, j, rfl, rfl, hpj, hjp, hdep⟩⟩
    rcases Nat.eq_or_lt_of_le hcp with h | h
    · left; rw [h]
    · right; exact ⟨c, p, rfl, rfl, h, by omega⟩
  · rintro ⟨y, hy, ⟨p, j, rfl, rfl, a, b, _⟩⟩
    rcases hy with rfl | hy
    · exact ⟨p, j, rfl, rfl, a, b⟩
    · exact InSub_trans o (.node p) (.node j) ho hy ⟨p, j, rfl, rfl, a, b⟩

/-! ## `topMost` -/

theorem topMostFrom_sound {d : Doc} (wf : WF d) (t : Ref → Bool) (x : Ref) :
    ∀ f (L : List Nat), (∀ c ∈ L, c < d.length) → x ∈ topMostFrom d t f (L.map .node) →
      ∃ c ∈ L, ∃ j, x = .node j ∧ c ≤ j ∧ j < endOf d c ∧ t x = true := by
  intro f
  induction f with
  | zero => intro L _ hx; simp [topMostFrom] at hx
  | succ f ih =>
    intro L hL hx
    cases L with
    | nil => simp [topMostFrom] at hx
    | cons c cs =>
      simp only [List.map_cons, topMostFrom, List.mem_append] at hx
      have hc : c < d.length := hL c List.mem_cons_self
      rcases hx with hx | hx
      · split at hx
        · rename_i ht
          simp only [List.mem_cons, List.not_mem_nil, or_false] at hx
          subst hx
          exact ⟨c, List.mem_cons_self, c, rfl, Nat.le_refl _, endOf_gt d c, ht⟩
        · rw [childrenM_node] at hx
          have hs := (children_sorted wf c hc).2.2.1
          have hle := endOf_le d c hc
          obtain ⟨c', hc', j, rfl, a, b, e⟩ := ih (childIdx d c)
            (fun m hm => by have := hs m hm; omega) hx
          have := hs c' hc'
          exact ⟨c, List.mem_cons_self, j, rfl, by omega, by omega, e⟩
      · obtain ⟨c', hc', h⟩ := ih cs (fun m hm => hL m (List.mem_cons_of_mem _ hm)) hx
        exact ⟨c', List.mem_cons_of_mem _ hc', h⟩

theorem topMostFrom_complete {d : Doc} (wf : WF d) (t : Ref → Bool) :
    ∀ f (L : List Nat), L.Pairwise (fun a b => endOf d a ≤ b) → (∀ c ∈ L, c < d.length) →
      (∀ c ∈ L, d.length - c < f) →
      ∀ c ∈ L, ∀ j, c ≤ j → j < endOf d c → t (.node j) = true →
        ∃ k, .node k ∈ topMostFrom d t f (L.map .node) ∧ k ≤ j ∧ j < endOf d k := by
  intro f
  induction f with
  | zero => intro L _ _ hf c hc; have := hf c hc; omega
  | succ f ih =>
    intro L hp hL hf c hc j h1 h2 ht
    cases L with
    | nil => cases hc
    | cons c0 cs =>
      have hc0 : c0 < d.length := hL c0 List.mem_cons_self
      have hf0 := hf c0 List.mem_cons_self
      simp only [List.map_cons, topMostFrom, List.mem_append]
      rw [List.pairwise_cons] at hp
      rcases List.mem_cons.1 hc with rfl | hc
      · by_cases ht0 : t (.node c) = true
        · refine ⟨c, Or.inl ?_, h1, h2⟩
          simp [ht0]
        · have hne : c ≠ j := by intro e; subst e; exact ht0 ht
          obtain ⟨m, hm, hmj, hjm⟩ := child_cover wf c hc0 j (by omega) h2
          have hs := (children_sorted wf c hc0)
          have hle := endOf_le d c hc0
          obtain ⟨k, hk, a, b⟩ := ih (childIdx d c) hs.2.2.2
            (fun m hm => by have := hs.2.2.1 m hm; omega)
            (fun m hm => by have := hs.2.2.1 m hm; omega) m hm j hmj hjm ht
          refine ⟨k, Or.inl ?_, a, b⟩
          simp only [ht0]
          rw [childrenM_node]
          exact hk
      · have hgt := endOf_gt d c0
        obtain ⟨k, hk, a, b⟩ := ih cs hp.2 (fun m hm => hL m (List.mem_cons_of_mem _ hm))
          (fun m hm => by
            have := hp.1 m hm
            have := hL m (List.mem_cons_of_mem _ hm)
            omega) c hc j h1 h2 ht
        exact ⟨k, Or.inr hk, a, b⟩

theorem topMost_attr (d : Doc) (t : Ref → Bool) (i k : Nat) : topMost d t (.attr i k) = [] := by
  simp [topMost, childrenM_attr, topMostFrom]

theorem mem_topMost_sound {d : Doc} (wf : WF d) (t : Ref → Bool) (o : Ref)
    (ho : validRef d o = true) (x : Ref) (hx : x ∈ topMost d t o) : InSub d o x ∧ t x = true := by
  cases o with
  | attr i k => rw [topMost_attr] at hx; cases hx
  | node i =>
    have hi := (validRef_node d i).1 ho
    have hs := (children_sorted wf i hi).2.2.1
    have hle := endOf_le d i hi
    unfold topMost at hx
    rw [childrenM_node] at hx
    obtain ⟨c, hc, j, rfl, a, b, e⟩ := topMostFrom_sound wf t x _ (childIdx d i)
      (fun m hm => by have := hs m hm; omega) hx
    have := hs c hc
    exact ⟨⟨i, j, rfl, rfl, by omega, by omega⟩, e⟩

theorem mem_topMost_cover {d : Doc} (wf : WF d) (t : Ref → Bool) (o : Ref)
    (ho : validRef d o = true) (x : Ref) (hx : InSub d o x) (ht : t x = true) :
    ∃ y ∈ topMost d t o, y = x ∨ InSub d y x := by
  obtain ⟨i, j, rfl, rfl, h1, h2⟩ := hx
  have hi := (validRef_node d i).1 ho
  have hs := children_sorted wf i hi
  have hle := endOf_le d i hi
  obtain ⟨m, hm, hmj, hjm⟩ := child_cover wf i hi j h1 h2
  obtain ⟨k, hk, a, b⟩ := topMostFrom_complete wf t (2 * d.length + 2) (childIdx d i) hs.2.2.2
    (fun m hm => by have := hs.2.2.1 m hm; omega)
    (fun m hm => by omega) m hm j hmj hjm ht
  refine ⟨.node k, ?_, ?_⟩
  · unfold topMost; rw [childrenM_node]; exact hk
  · rcases Nat.eq_or_lt_of_le a with e | e
    · left; rw [e]
    · right; exact ⟨k, j, rfl, rfl, e, b⟩


/-! ## node sets of the plans involved in the rewrites -/

section
variable (d : Doc) (cfg : ECfg)

theorem sel_child (a : AxisInfo) (inp : Plan) (c : Ref) (ins : List Item)
    (h : sel (F := F) d cfg inp c = .ok ins) :
    ∃ out, sel (F := F) d cfg (.child a inp) c = .ok out ∧
      ∀ x, x ∈ refs out ↔ ∃ o ∈ refs ins, x ∈ (childrenM d o).filter (test d cfg a) :=
  ⟨ins.flatMap (fun it => numbered ((childrenM d it.r).filter (test d cfg a))),
    by simp [sel, h, bind, Except.bind],
    fun x => mem_refs_flatMap _ _ (fun o => (childrenM d o).filter (test d cfg a))
      (fun _ => numbered_refs _) x⟩

/-- **(a)** `cachedChild` and `child` have the same `sel` -/
theorem sel_cachedChild (a : AxisInfo) (inp : Plan) (c : Ref) :
    sel (F := F) d cfg (.cachedChild a inp) c = sel (F := F) d cfg (.child a inp) c := by
  simp [sel]

theorem sel_descendant (a : AxisInfo) (s : Bool) (inp : Plan) (c : Ref) (ins : List Item)
    (h : sel (F := F) d cfg inp c = .ok ins) :
    ∃ out, sel (F := F) d cfg (.descendant a s inp) c = .ok out ∧
      ∀ x, x ∈ refs out ↔ ∃ o ∈ refs ins,
        ((s = true ∧ x = o) ∨ x ∈ (descM d o).map (·.1)) ∧ test d cfg a x = true := by
  refine ⟨ins.flatMap (fun it =>
      let own : List (Ref × Nat) := if s && test d cfg a it.r then [(it.r, 0)] else []
      let l := own ++ (descM d it.r).filter (fun p => test d cfg a p.1)
      l.zipIdx.map (fun (p, i) => ⟨p.1, i + 1, p.2⟩)),
    by simp [sel, h, bind, Except.bind], fun x => ?_⟩
  rw [mem_refs_flatMap _ _ (fun o => ((if s then [o] else []) ++ (descM d o).map (·.1)).filter (test d cfg a))]
  · simp only [List.mem_filter, List.mem_append]
    constructor
    · rintro ⟨o, ho, h1 | h1, h2⟩
      · refine ⟨o, ho, Or.inl ?_, h2⟩
        cases s <;> simp_all
      · exact ⟨o, ho, Or.inr h1, h2⟩
    · rintro ⟨o, ho, ⟨hs, rfl⟩ | h1, h2⟩
      · exact ⟨x, ho, Or.inl (by simp [hs]), h2⟩
      · exact ⟨o, ho, Or.inr h1, h2⟩
  · intro it
    simp only [leveled_refs, List.map_append, List.filter_append, List.filter_map, Function.comp_def]
    congr 1
    cases s
    · simp
    · simp only [Bool.true_and, ↓reduceIte, List.filter_cons, List.filter_nil]
      split <;> simp

theorem sel_descOverDesc (a : AxisInfo) (m : Bool) (inp : Plan) (c : Ref) (ins : List Item)
    (h : sel (F := F) d cfg inp c = .ok ins) :
    ∃ out, sel (F := F) d cfg (.descOverDesc a m inp) c = .ok out ∧
      ∀ x, x ∈ refs out ↔ ∃ o ∈ refs ins,
        x ∈ (if m && test d cfg a o then [o] else topMost d (test d cfg a) o) := by
  refine ⟨ins.flatMap (fun it =>
      if m && test d cfg a it.r then [⟨it.r, 1, 0⟩]
      else numbered (topMost d (test d cfg a) it.r)),
    by simp [sel, h, bind, Except.bind], fun x => ?_⟩
  apply mem_refs_flatMap _ _ (fun o => if m && test d cfg a o then [o] else topMost d (test d cfg a) o)
  intro it
  split
  · rfl
  · exact numbered_refs _

end

/-! ## (b) the `//name` shortcut -/

theorem test_dos (d : Doc) (cfg : ECfg) (dos : AxisInfo) (h1 : dos.typeTest = .all)
    (h2 : dos.lname = "") (h3 : dos.pfx = "") (y : Ref) : test d cfg dos y = true := by
  simp [test, nodeTestM, h1, h2, h3]

/-- **(b)** `//name`: `descendant::name` over `g` selects the same nodes as
`child::name` over `descendant-or-self::node()` over `g` -/
theorem shortcut_sem {d : Doc} (wf : WF d) (cfg : ECfg) (a dos : AxisInfo)
    (h1 : dos.typeTest = .all) (h2 : dos.lname = "") (h3 : dos.pfx = "")
    (g : Plan) (c : Ref) (ins : List Item) (h : sel (F := F) d cfg g c = .ok ins)
    (hv : ∀ o ∈ refs ins, validRef d o = true) :
    ∃ o1 o2, sel (F := F) d cfg (.descendant a false g) c = .ok o1 ∧
      sel (F := F) d cfg (.child a (.descendant dos true g)) c = .ok o2 ∧
      ∀ x, x ∈ refs o1 ↔ x ∈ refs o2 := by
  obtain ⟨o1, ho1, hm1⟩ := sel_descendant (F := F) d cfg a false g c ins h
  obtain ⟨mid, hmid, hmm⟩ := sel_descendant (F := F) d cfg dos true g c ins h
  obtain ⟨o2, ho2, hm2⟩ := sel_child (F := F) d cfg a (.descendant dos true g) c mid hmid
  refine ⟨o1, o2, ho1, ho2, fun x => ?_⟩
  rw [hm1, hm2]
  constructor
  · rintro ⟨o, ho, hx | hx, ht⟩
    · exact absurd hx.1 (by simp)
    · have hov := hv o ho
      obtain ⟨y, hy, hc⟩ := (desc_iff_child_of_dos wf o hov x).1 ((mem_descM wf o hov x).1 hx)
      have hyv : validRef d y = true := by
        rcases hy with rfl | hy
        · exact hov
        · exact InSub_valid o y hov hy
      refine ⟨y, (hmm y).2 ⟨o, ho, ?_, test_dos d cfg dos h1 h2 h3 y⟩, ?_⟩
      · rcases hy with rfl | hy
        · exact Or.inl ⟨rfl, rfl⟩
        · exact Or.inr ((mem_descM wf o hov y).2 hy)
      · exact List.mem_filter.2 ⟨(mem_childrenM wf y hyv x).2 hc, ht⟩
  · rintro ⟨y, hy, hx⟩
    obtain ⟨o, ho, hyo, _⟩ := (hmm y).1 hy
    have hov := hv o ho
    obtain ⟨hx, ht⟩ := List.mem_filter.1 hx
    have hyo' : y = o ∨ InSub d o y := by
      rcases hyo with ⟨_, rfl⟩ | hyo
      · exact Or.inl rfl
      · exact Or.inr ((mem_descM wf o hov y).1 hyo)
    have hyv : validRef d y = true := by
      rcases hyo' with rfl | hy
      · exact hov
      · exact InSub_valid o y hov hy
    refine ⟨o, ho, Or.inr ((mem_descM wf o hov x).2 ?_), ht⟩
    exact (desc_iff_child_of_dos wf o hov x).2 ⟨y, hyo', (mem_childrenM wf y hyv x).1 hx⟩

/-! ## (c) descendant over descendant -/

/-- `S'` is a sub-list of `S` (as sets) containing an ancestor-or-self of every member of `S` -/
def Covers (d : Doc) (S' S : List Ref) : Prop :=
  (∀ x ∈ S', x ∈ S) ∧ ∀ o ∈ S, ∃ o' ∈ S', o' = o ∨ InSub d o' o

theorem Covers.of_seteq (d : Doc) (S' S : List Ref) (h : ∀ x, x ∈ S' ↔ x ∈ S) : Covers d S' S :=
  ⟨fun x hx => (h x).1 hx, fun o ho => ⟨o, (h o).2 ho, Or.inl rfl⟩⟩

/-- consumer: a descendant step over a covering input yields the same node set -/
theorem descendant_of_covers {d : Doc} (wf : WF d) (cfg : ECfg) (a : AxisInfo) (s : Bool)
    (inp' inp : Plan) (c : Ref) (ins' ins : List Item)
    (h' : sel (F := F) d cfg inp' c = .ok ins') (h : sel (F := F) d cfg inp c = .ok ins)
    (hv : ∀ o ∈ refs ins, validRef d o = true) (hc : Covers d (refs ins') (refs ins)) :
    ∃ o1 o2, sel (F := F) d cfg (.descendant a s inp') c = .ok o1 ∧
      sel (F := F) d cfg (.descendant a s inp) c = .ok o2 ∧ ∀ x, x ∈ refs o1 ↔ x ∈ refs o2 := by
  obtain ⟨o1, ho1, hm1⟩ := sel_descendant (F := F) d cfg a s inp' c ins' h'
  obtain ⟨o2, ho2, hm2⟩ := sel_descendant (F := F) d cfg a s inp c ins h
  refine ⟨o1, o2, ho1, ho2, fun x => ?_⟩
  rw [hm1, hm2]
  constructor
  · rintro ⟨o, ho, hx⟩; exact ⟨o, hc.1 o ho, hx⟩
  · rintro ⟨o, ho, hx, ht⟩
    obtain ⟨o', ho', hcov⟩ := hc.2 o ho
    have hov := hv o ho
    have hov' := hv o' (hc.1 o' ho')
    rcases hcov with rfl | hcov
    · exact ⟨o', ho', hx, ht⟩
    · refine ⟨o', ho', Or.inr ((mem_descM wf o' hov' x).2 ?_), ht⟩
      rcases hx with ⟨_, rfl⟩ | hx
      · exact hcov
      · exact InSub_trans o' o x hov' hcov ((mem_descM wf o hov x).1 hx)

/-- producer: `descOverDesc` over a covering input covers the plain descendant step -/
theorem descOverDesc_covers {d : Doc} (wf : WF d) (cfg : ECfg) (a : AxisInfo) (m : Bool)
    (inp' inp : Plan) (c : Ref) (ins' ins : List Item)
    (h' : sel (F := F) d cfg inp' c = .ok ins') (h : sel (F := F) d cfg inp c = .ok ins)
    (hv : ∀ o ∈ refs ins, validRef d o = true) (hc : Covers d (refs ins') (refs ins)) :
    ∃ o1 o2, sel (F := F) d cfg (.descOverDesc a m inp') c = .ok o1 ∧
      sel (F := F) d cfg (.descendant a m inp) c = .ok o2 ∧ Covers d (refs o1) (refs o2) := by
  obtain ⟨o1, ho1, hm1⟩ := sel_descOverDesc (F := F) d cfg a m inp' c ins' h'
  obtain ⟨o2, ho2, hm2⟩ := sel_descendant (F := F) d cfg a m inp c ins h
  refine ⟨o1, o2, ho1, ho2, ?_, ?_⟩
  · intro x hx
    obtain ⟨o', ho', hx⟩ := (hm1 x).1 hx
    have hov' := hv o' (hc.1 o' ho')
    rw [hm2]
    refine ⟨o', hc.1 o' ho', ?_⟩
    split at hx
    · rename_i hmt
      simp only [List.mem_cons, List.not_mem_nil, or_false] at hx
      subst hx
      simp only [Bool.and_eq_true] at hmt
      exact ⟨Or.inl ⟨hmt.1, rfl⟩, hmt.2⟩
    · obtain ⟨h1, h2⟩ := mem_topMost_sound wf _ o' hov' x hx
      exact ⟨Or.inr ((mem_descM wf o' hov' x).2 h1), h2⟩
  · intro x hx
    obtain ⟨o, ho, hxo, ht⟩ := (hm2 x).1 hx
    obtain ⟨o', ho', hcov⟩ := hc.2 o ho
    have hov := hv o ho
    have hov' := hv o' (hc.1 o' ho')
    by_cases hmt : (m && test d cfg a o') = true
    · -- `o'` itself is yielded
      refine ⟨o', (hm1 o').2 ⟨o', ho', by simp [hmt]⟩, ?_⟩
      rcases hxo with ⟨_, rfl⟩ | hxo
      · exact hcov
      · right
        have := (mem_descM wf o hov x).1 hxo
        rcases hcov with rfl | hcov
        · exact this
        · exact InSub_trans o' o x hov' hcov this
    · -- the top-most matches below `o'` are yielded
      have hsub : InSub d o' x := by
        rcases hxo with ⟨hm, rfl⟩ | hxo
        · rcases hcov with rfl | hcov
          · exfalso; apply hmt; simp [hm, ht]
          · exact hcov
        · have := (mem_descM wf o hov x).1 hxo
          rcases hcov with rfl | hcov
          · exact this
          · exact InSub_trans o' o x hov' hcov this
      obtain ⟨y, hy, hyx⟩ := mem_topMost_cover wf (test d cfg a) o' hov' x hsub ht
      exact ⟨y, (hm1 y).2 ⟨o', ho', by simp only [hmt]; exact hy⟩, hyx⟩

/-- **(c)** an outer descendant step only needs the top-most matches of an inner one -/
theorem descOverDesc_sem {d : Doc} (wf : WF d) (cfg : ECfg) (a b : AxisInfo) (s m : Bool)
    (g : Plan) (c : Ref) (ins : List Item) (h : sel (F := F) d cfg g c = .ok ins)
    (hv : ∀ o ∈ refs ins, validRef d o = true) :
    ∃ o1 o2, sel (F := F) d cfg (.descendant a s (.descOverDesc b m g)) c = .ok o1 ∧
      sel (F := F) d cfg (.descendant a s (.descendant b m g)) c = .ok o2 ∧
      ∀ x, x ∈ refs o1 ↔ x ∈ refs o2 := by
  obtain ⟨m1, m2, hm1, hm2, hcov⟩ := descOverDesc_covers (F := F) wf cfg b m g g c ins ins h h hv
    (Covers.of_seteq d _ _ (fun _ => Iff.rfl))
  have hv2 : ∀ o ∈ refs m2, validRef d o = true := by
    obtain ⟨m2', hm2', hmem⟩ := sel_descendant (F := F) d cfg b m g c ins h
    rw [hm2] at hm2'; cases hm2'
    intro o ho
    obtain ⟨o0, ho0, hx, _⟩ := (hmem o).1 ho
    rcases hx with ⟨_, rfl⟩ | hx
    · exact hv _ ho0
    · exact InSub_valid o0 o (hv _ ho0) ((mem_descM wf o0 (hv _ ho0) o).1 hx)
  exact descendant_of_covers wf cfg a s _ _ c m1 m2 hm1 hm2 hv2 hcov

end XPathV.PathSem
