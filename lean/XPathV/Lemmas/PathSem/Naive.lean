import XPathV.Lemmas.PathSem.Walks
/-!
# C01 — stages 1–3: one step from any node, and predicate-free paths without builder rewrites
-/
namespace XPathV.PathSem
open XPathV XPathV.Model

variable {F : Type} [NumAlg F]

/-! ## the builder's plan for a step vs the plain plan -/

theorem axisPlan_sel (a : AxisInfo) (ha : a.axis ∈ axes12) (fl : Flags) (hfl : fl.smartDesc = false)
    (pr : Props) (inp : Plan) :
    ∃ q pr', axisPlan a fl pr inp = .ok (q, pr') ∧
      ∀ (d : Doc) (cfg : ECfg) (c : Ref), sel (F := F) d cfg q c = sel (F := F) d cfg (stepPlan a inp) c := by
  simp only [axes12, List.mem_cons, List.not_mem_nil, or_false] at ha
  rcases ha with hax | hax | hax | hax | hax | hax | hax | hax | hax | hax | hax | hax
  · refine ⟨_, _, by simp only [axisPlan, hax]; rfl, fun d cfg c => ?_⟩
    simp only [stepPlan, hax]
    split <;> simp [sel]
  all_goals exact ⟨_, _, by simp only [axisPlan, hax, hfl]; rfl, fun d cfg c => by simp [stepPlan, hax]⟩

/-! ## spec-side facts -/

theorem nodeTest_eq (d : Doc) (cfg : ECfg) (hns : cfg.nsIface = true) (a : AxisInfo) (r : Ref) :
    nodeTestM d cfg a r = Spec.nodeTest d a r := by
  simp only [nodeTestM, Spec.nodeTest, hns, Bool.true_and]
  rw [Bool.or_comm]
  congr 1
  split
  · split <;> rfl
  · rfl

theorem mem_allRefs (d : Doc) (x : Ref) : x ∈ allRefs d ↔ validRef d x = true := by
  simp only [allRefs, List.mem_flatMap, List.mem_range, List.mem_cons, attrsOf, List.mem_map]
  cases x with
  | node i =>
    simp only [validRef, decide_eq_true_eq]
    constructor
    · rintro ⟨j, hj, h | ⟨m, _, h⟩⟩
      · cases h; exact hj
      · cases h
    · intro h; exact ⟨i, h, Or.inl rfl⟩
  | attr i k =>
    simp only [validRef, Bool.and_eq_true, decide_eq_true_eq]
    constructor
    · rintro ⟨j, hj, h | ⟨m, hm, h⟩⟩
      · cases h
      · cases h; exact ⟨hj, hm⟩
    · rintro ⟨h1, h2⟩; exact ⟨i, h1, Or.inr ⟨k, h2, rfl⟩⟩

theorem mem_docOrder (d : Doc) (l : List Ref) (x : Ref) :
    x ∈ Spec.docOrder d l ↔ (x ∈ l ∧ validRef d x = true) := by
  simp only [Spec.docOrder, List.mem_filter, List.contains_iff_mem, mem_allRefs]
  exact And.comm

theorem allNodes_valid (d : Doc) (x : Ref) (h : x ∈ allNodes d) : validRef d x = true := by
  obtain ⟨j, hj, rfl⟩ := (mem_allNodes d x).1 h
  exact (validRef_node d j).2 hj

theorem axisNodes_valid {d : Doc} (wf : WF d) (o : Ref) (ho : validRef d o = true) (ax : String)
    (hax : ax ∈ axes12) : ∀ x ∈ (Spec.axisNodes d ax o).getD [], validRef d x = true := by
  intro x hx
  have hm := (axisRefsM_spec wf o ho ax hax x).2 hx
  simp only [axes12, List.mem_cons, List.not_mem_nil, or_false] at hax
  rcases hax with rfl | rfl | rfl | rfl | rfl | rfl | rfl | rfl | rfl | rfl | rfl | rfl
  · simp only [Spec.axisNodes, Option.getD_some, Spec.children] at hx
    exact allNodes_valid d x (List.mem_filter.1 hx).1
  · simp only [Spec.axisNodes, Option.getD_some, Spec.descendants] at hx
    exact allNodes_valid d x (List.mem_filter.1 hx).1
  · simp only [Spec.axisNodes, Option.getD_some, List.mem_append] at hx
    rcases hx with hx | hx
    · split at hx
      · simp only [List.mem_cons, List.not_mem_nil, or_false] at hx; rw [hx]; exact ho
      · simp at hx
    · exact allNodes_valid d x (List.mem_filter.1 hx).1
  · simp only [axisRefsM, Option.mem_toList] at hm
    exact moveParent_valid d o x ho hm
  · simp only [axisRefsM] at hm
    exact ancestorsM_valid d o ho x hm
  · simp only [axisRefsM, List.mem_cons] at hm
    rcases hm with rfl | hm
    · exact ho
    · exact ancestorsM_valid d o ho x hm
  · simp only [Spec.axisNodes, Option.getD_some, Spec.following] at hx
    exact allNodes_valid d x (List.mem_filter.1 hx).1
  · simp only [Spec.axisNodes, Option.getD_some, Spec.followingSiblings] at hx
    split at hx
    · simp at hx
    · exact allNodes_valid d x (List.mem_filter.1 hx).1
  · simp only [Spec.axisNodes, Option.getD_some, Spec.preceding] at hx
    exact allNodes_valid d x (List.mem_filter.1 hx).1
  · simp only [Spec.axisNodes, Option.getD_some, Spec.precedingSiblings] at hx
    split at hx
    · simp at hx
    · exact allNodes_valid d x (List.mem_filter.1 hx).1
  · simp only [Spec.axisNodes, Option.getD_some] at hx
    cases o with
    | node i =>
      obtain ⟨m, hm', rfl⟩ := (attributes_node_mem wf i ((validRef_node d i).1 ho) x).1 hx
      exact (validRef_attr d i m).2 ⟨(validRef_node d i).1 ho, hm'⟩
    | attr i k => simp [Spec.attributes] at hx
  · simp only [Spec.axisNodes, Option.getD_some, List.mem_cons, List.not_mem_nil, or_false] at hx
    rw [hx]; exact ho

theorem mem_axisProx (d : Doc) (ax : String) (o x : Ref) :
    x ∈ (Spec.axisProx d ax o).getD [] ↔ x ∈ (Spec.axisNodes d ax o).getD [] := by
  unfold Spec.axisProx
  cases Spec.axisNodes d ax o with
  | none => simp
  | some l =>
    simp only [Option.map_some, Option.getD_some]
    split <;> simp

theorem axisProx_some (d : Doc) (ax : String) (hax : ax ∈ axes12) (o : Ref) :
    ∃ l, Spec.axisProx d ax o = some l := by
  simp only [axes12, List.mem_cons, List.not_mem_nil, or_false] at hax
  rcases hax with rfl | rfl | rfl | rfl | rfl | rfl | rfl | rfl | rfl | rfl | rfl | rfl <;>
    exact ⟨_, by simp only [Spec.axisProx, Spec.axisNodes, Option.map_some]; rfl⟩

/-- the spec's value of a step over an evaluated input -/
theorem eval_axis (d : Doc) (a : AxisInfo) (ha : a.axis ∈ axes12) (inp : Ast) (c : Spec.Ctx)
    (origins : List Ref) (g : Option (List (List Ref)))
    (h : Spec.eval (F := F) d inp c = .ok (.val (.nodes origins) g)) :
    ∃ g', Spec.eval (F := F) d (.axis a inp) c =
      .ok (.val (.nodes (Spec.docOrder d (origins.map (fun o =>
        ((Spec.axisProx d a.axis o).getD []).filter (Spec.nodeTest d a))).flatten)) g') := by
  obtain ⟨l, hl⟩ := axisProx_some d a.axis ha (.node 0)
  refine ⟨some (origins.map (fun o =>
        ((Spec.axisProx d a.axis o).getD []).filter (Spec.nodeTest d a))), ?_⟩
  simp only [Spec.eval, h, bind, Except.bind, Spec.Res.value, Spec.asNodes, hl]


/-! ## Stage 1 and 2: one step from a node / from an attribute -/

theorem sel_context (d : Doc) (cfg : ECfg) (c : Ref) :
    sel (F := F) d cfg .context c = .ok [⟨c, 1, 0⟩] := by simp [sel]

/-- **Stage 1+2 (single step, any valid context node — element, text, comment, root or attribute)**:
the plan the builder makes for the step `axis::test` over the context node yields exactly the
nodes of the XPath axis that pass the node test -/
theorem step_sem {d : Doc} (wf : WF d) (cfg : ECfg) (hinj : HashInj d cfg) (a : AxisInfo)
    (ha : a.axis ∈ axes12) (c : Ref) (hc : validRef d c = true) :
    ∃ p pr out, axisPlan a {} {} .context = .ok (p, pr) ∧ sel (F := F) d cfg p c = .ok out ∧
      ∀ x, x ∈ refs out ↔ x ∈ ((Spec.axisNodes d a.axis c).getD []).filter (nodeTestM d cfg a) := by
  obtain ⟨q, pr', hq, hsel⟩ := axisPlan_sel (F := F) a ha {} rfl {} .context
  obtain ⟨out, hout, hmem⟩ := stepPlan_sem (F := F) d cfg hinj a ha .context c [⟨c, 1, 0⟩]
    (by intro o ho; simp only [refs, List.map_cons, List.map_nil, List.mem_cons, List.not_mem_nil,
          or_false] at ho; rw [ho]; exact hc)
    (sel_context d cfg c)
  refine ⟨q, pr', out, hq, by rw [hsel, hout], fun x => ?_⟩
  rw [hmem]
  simp only [refs, List.map_cons, List.map_nil, List.mem_cons, List.not_mem_nil, or_false,
    exists_eq_left, List.mem_filter, test]
  rw [axisRefsM_spec wf c hc a.axis ha x]

/-- **Stage 1** (node context) -/
theorem step_sem_node {d : Doc} (wf : WF d) (cfg : ECfg) (hinj : HashInj d cfg) (a : AxisInfo)
    (ha : a.axis ∈ axes12) (i : Nat) (hi : i < d.length) :
    ∃ p pr out, axisPlan a {} {} .context = .ok (p, pr) ∧ sel (F := F) d cfg p (.node i) = .ok out ∧
      ∀ x, x ∈ refs out ↔
        x ∈ ((Spec.axisNodes d a.axis (.node i)).getD []).filter (nodeTestM d cfg a) :=
  step_sem wf cfg hinj a ha (.node i) ((validRef_node d i).2 hi)

/-- **Stage 2** (attribute context) -/
theorem step_sem_attr {d : Doc} (wf : WF d) (cfg : ECfg) (hinj : HashInj d cfg) (a : AxisInfo)
    (ha : a.axis ∈ axes12) (i k : Nat) (hi : i < d.length) (hk : k < (recAt d i).attrs.length) :
    ∃ p pr out, axisPlan a {} {} .context = .ok (p, pr) ∧ sel (F := F) d cfg p (.attr i k) = .ok out ∧
      ∀ x, x ∈ refs out ↔
        x ∈ ((Spec.axisNodes d a.axis (.attr i k)).getD []).filter (nodeTestM d cfg a) :=
  step_sem wf cfg hinj a ha (.attr i k) ((validRef_attr d i k).2 ⟨hi, hk⟩)

/-! ## Stage 3: composition without rewrites -/

/-- predicate-free location paths over the twelve axes (relative or absolute) -/
inductive PathPF : Ast → Prop
  | none : PathPF .none
  | root (s : String) : PathPF (.root s)
  | axis (a : AxisInfo) (inp : Ast) : PathPF inp → a.axis ∈ axes12 → PathPF (.axis a inp)

/-- the plan of a path without any builder rewrite -/
def naivePlan : Ast → Plan
  | .none => .context
  | .root _ => .absolute
  | .axis a inp => stepPlan a (naivePlan inp)
  | _ => .nil

/-- the naive plan is what `axisPlan` (no `smartDesc` flag, any props) makes of each step, up to
`cachedChild`/`child`, which have the same `sel` -/
theorem naivePlan_axisPlan (a : AxisInfo) (ha : a.axis ∈ axes12) (pr : Props) (inp : Ast) :
    ∃ q pr', axisPlan a {} pr (naivePlan inp) = .ok (q, pr') ∧
      ∀ (d : Doc) (cfg : ECfg) (c : Ref),
        sel (F := F) d cfg q c = sel (F := F) d cfg (naivePlan (.axis a inp)) c :=
  axisPlan_sel a ha {} rfl pr (naivePlan inp)

/-- one origin: model walk + model test = spec axis (proximity order) + spec test -/
theorem step_mem_iff {d : Doc} (wf : WF d) (cfg : ECfg) (hns : cfg.nsIface = true) (a : AxisInfo)
    (ha : a.axis ∈ axes12) (o : Ref) (ho : validRef d o = true) (x : Ref) :
    x ∈ (axisRefsM d a.axis o).filter (test d cfg a) ↔
      x ∈ ((Spec.axisProx d a.axis o).getD []).filter (Spec.nodeTest d a) := by
  simp only [List.mem_filter, test, nodeTest_eq d cfg hns, mem_axisProx,
    axisRefsM_spec wf o ho a.axis ha x]

/-- **Stage 3**: for a predicate-free path, the un-rewritten plan yields from every valid context
node exactly the node-set the XPath 1.0 oracle assigns to the path (neither side fails) -/
theorem naive_sem {d : Doc} (wf : WF d) (cfg : ECfg) (hns : cfg.nsIface = true)
    (hinj : HashInj d cfg) (p : Ast) (hp : PathPF p) (c : Ref) (hc : validRef d c = true) :
    ∃ out ns g, sel (F := F) d cfg (naivePlan p) c = .ok out ∧
      Spec.eval (F := F) d p ⟨c, 1, 1⟩ = .ok (.val (.nodes ns) g) ∧
      (∀ x, x ∈ refs out ↔ x ∈ ns) ∧ (∀ x ∈ ns, validRef d x = true) := by
  induction hp with
  | none =>
    refine ⟨[⟨c, 1, 0⟩], [c], none, sel_context d cfg c, by simp [Spec.eval], by simp [refs], ?_⟩
    intro x hx; simp only [List.mem_cons, List.not_mem_nil, or_false] at hx; rw [hx]; exact hc
  | root s =>
    refine ⟨[⟨.node 0, 1, 0⟩], [.node 0], none, by simp [naivePlan, sel, Nav.root],
      by simp [Spec.eval], by simp [refs], ?_⟩
    intro x hx; simp only [List.mem_cons, List.not_mem_nil, or_false] at hx; rw [hx]
    exact (validRef_node d 0).2 wf.pos
  | axis a inp _ ha ih =>
    obtain ⟨ins, origins, g, hsel, hev, hmem, hval⟩ := ih
    have hinsv : ∀ o ∈ refs ins, validRef d o = true := fun o ho => hval o ((hmem o).1 ho)
    obtain ⟨out, hout, hom⟩ := stepPlan_sem (F := F) d cfg hinj a ha (naivePlan inp) c ins hinsv hsel
    obtain ⟨g', hev'⟩ := eval_axis (F := F) d a ha inp ⟨c, 1, 1⟩ origins g hev
    refine ⟨out, _, g', hout, hev', fun x => ?_, fun x hx => ((mem_docOrder d _ x).1 hx).2⟩
    rw [hom, mem_docOrder, List.mem_flatten]
    constructor
    · rintro ⟨o, ho, hx⟩
      have hov := hinsv o ho
      have hx' := (step_mem_iff wf cfg hns a ha o hov x).1 hx
      refine ⟨⟨_, List.mem_map.2 ⟨o, (hmem o).1 ho, rfl⟩, hx'⟩, ?_⟩
      have := (List.mem_filter.1 hx').1
      rw [mem_axisProx] at this
      exact axisNodes_valid wf o hov a.axis ha x this
    · rintro ⟨⟨l, hl, hx⟩, _⟩
      obtain ⟨o, ho, rfl⟩ := List.mem_map.1 hl
      have ho' := (hmem o).2 ho
      exact ⟨o, ho', (step_mem_iff wf cfg hns a ha o (hval o ho) x).2 hx⟩

end XPathV.PathSem
