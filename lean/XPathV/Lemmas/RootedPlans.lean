import XPathV.Model.Api
import XPathV.Lemmas.Facts
/-!
# Rooted plans: start-node independence (base lemmas of C13)
-/
namespace XPathV.RootedPlans
open XPathV XPathV.Model XPathV.Facts NumAlg

variable {F : Type} [NumAlg F]

/-- a plan is *rooted* when every read of the context outside predicates goes through
`absoluteQuery` -/
def Rooted : Plan → Bool
  | .absolute => true
  | .child _ i | .cachedChild _ i | .attr _ i | .parent _ i | .self _ i | .descendant _ _ i | .ancestor _ _ i
  | .following _ _ i | .preceding _ _ i | .descOverDesc _ _ i | .group i | .transform _ i => Rooted i
  | .union l r => Rooted l && Rooted r
  | _ => false

/-- **start-node independence**: a rooted plan yields the same sequence from every start node -/
theorem abs_start_indep (d : Doc) (cfg : ECfg) (p : Plan) (h : Rooted p = true) (c₁ c₂ : Ref) :
    sel (F := F) d cfg p c₁ = sel (F := F) d cfg p c₂ := by
  induction p with
  | absolute => simp [sel]
  | child a i ih | cachedChild a i ih | attr a i ih | parent a i ih | self a i ih | group i ih =>
    simp only [Rooted] at h; simp only [sel, ih h]
  | descendant a s i ih | ancestor a s i ih | following a s i ih | preceding a s i ih | descOverDesc a s i ih | transform n i ih =>
    simp only [Rooted] at h; simp only [sel, ih h]
  | union l r ihl ihr =>
    simp only [Rooted, Bool.and_eq_true] at h
    simp only [sel, ihl h.1, ihr h.2]
  | _ => simp [Rooted] at h

/-- wrapping in parentheses preserves the node sequence -/
theorem group_preserves_sequence (d : Doc) (cfg : ECfg) (p : Plan) (c : Ref) (ins : List Item)
    (h : sel (F := F) d cfg p c = .ok ins) :
    (sel (F := F) d cfg (.group p) c).map (fun o => o.map (·.r)) = .ok (ins.map (·.r)) := by
  simp [sel, h, bind, Except.bind, numbered, Except.map, List.map_map, Function.comp_def]

/-- the steps of a relative path compose: a child step over an input is the concatenation of the
child steps from each input node (the denotation of a path is the union over its prefix) -/
theorem rel_compose_child (d : Doc) (cfg : ECfg) (a : AxisInfo) (inp : Plan) (c : Ref) (ins : List Item)
    (h : sel (F := F) d cfg inp c = .ok ins) :
    (sel (F := F) d cfg (.child a inp) c).map (fun o => o.map (·.r)) =
      .ok (ins.flatMap (fun it => (childrenM d it.r).filter (nodeTestM d cfg a))) := by
  simp [sel, h, bind, Except.bind, numbered, Except.map, test, List.map_flatMap, List.map_map, Function.comp_def]

end XPathV.RootedPlans
