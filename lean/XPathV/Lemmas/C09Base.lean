import XPathV.Generated.ExtraFacts
import XPathV.Model.Api
import XPathV.Lemmas.Facts
/-!
# C09 — string functions compute the XPath result on their arguments
-/
namespace XPathV.Theorems.C09
open XPathV XPathV.Model XPathV.Facts NumAlg

variable {F : Type} [NumAlg F]

/-- three-argument substring: exactly the characters at the positions `p` with
`round(start) ≤ p < round(start) + round(length)` -/
theorem substring3_spec (m : String) (start len : F) :
    substringM m start (some len) = Spec.fnSubstring3 m start len := by
  unfold substringM Spec.fnSubstring3 Spec.roundHalfUp xpathRoundM
  rfl

theorem substring2_spec (m : String) (start : F) :
    substringM m start none = Spec.fnSubstring2 m start := by
  unfold substringM Spec.fnSubstring2 Spec.roundHalfUp xpathRoundM
  rfl

/-- `substring` never fails: the model has explicit crash outcomes and produces none here, for
every string and every (finite or not) start and length -/
theorem substring_never_fails (d : Doc) (cfg : ECfg) (c : Ref) (m : String) (s l : F) :
    callFn (F := F) d cfg "substring" .nil c [.ok (.str m), .ok (.num s), .ok (.num l)] none
      = .ok (.str (Spec.fnSubstring3 m s l)) := by
  simp [callFn, bind, Except.bind, substring3_spec]

/-- the result is a subsequence of the argument -/
theorem substring_is_sublist (m : String) (s l : F) :
    (Spec.fnSubstring3 m s l).toList.Sublist m.toList := by
  unfold Spec.fnSubstring3
  simp only [String.toList_ofList]
  have : ∀ (xs : List Char) (k : Nat) (p : Char × Nat → Option Char), (∀ c i o, p (c, i) = some o → o = c) →
      ((xs.zipIdx k).filterMap p).Sublist xs := by
    intro xs
    induction xs with
    | nil => intro k p _; simp
    | cons x t ih =>
      intro k p hp
      simp only [List.zipIdx_cons, List.filterMap_cons]
      cases hpx : p (x, k) with
      | none => exact (ih (k+1) p hp).cons _
      | some o => rw [hp x k o hpx]; exact (ih (k+1) p hp).cons_cons _
  apply this
  intro c i o h
  split at h <;> simp_all

theorem contains_spec (d : Doc) (cfg : ECfg) (c : Ref) (a b : String) :
    callFn (F := F) d cfg "contains" .nil c [.ok (.str a), .ok (.str b)] none = .ok (.bool (Spec.fnContains a b)) := by
  simp [callFn, bind, Except.bind]

theorem starts_with_spec (d : Doc) (cfg : ECfg) (c : Ref) (a b : String) :
    callFn (F := F) d cfg "starts-with" .nil c [.ok (.str a), .ok (.str b)] none = .ok (.bool (Spec.fnStartsWith a b)) := by
  simp [callFn, bind, Except.bind]

theorem substring_after_spec (d : Doc) (cfg : ECfg) (c : Ref) (a b : String) :
    callFn (F := F) d cfg "substring-after" .nil c [.ok (.str a), .ok (.str b)] none = .ok (.str (Spec.fnSubstringAfter a b)) := by
  simp [callFn, bind, Except.bind]

theorem substring_before_spec (d : Doc) (cfg : ECfg) (c : Ref) (a b : String) :
    callFn (F := F) d cfg "substring-before" .nil c [.ok (.str a), .ok (.str b)] none = .ok (.str (Spec.fnSubstringBefore a b)) := by
  simp [callFn, bind, Except.bind]

theorem translate_spec (d : Doc) (cfg : ECfg) (c : Ref) (s a b : String) :
    callFn (F := F) d cfg "translate" .nil c [.ok (.str s), .ok (.str a), .ok (.str b)] none = .ok (.str (Spec.fnTranslate s a b)) := by
  simp [callFn, bind, Except.bind, asStringM]

theorem string_length_spec (d : Doc) (cfg : ECfg) (c : Ref) (s : String) :
    callFn (F := F) d cfg "string-length" .nil c [.ok (.str s)] none = .ok (.num (ofNat s.length)) := by
  simp [callFn, bind, Except.bind]

/-- a node-set argument is taken as the string-value of its first node, the empty set as "" -/
theorem nodeset_argument_first (d : Doc) (cfg : ECfg) (c : Ref) (r : Ref) (rest : List Ref) (b : String) :
    callFn (F := F) d cfg "contains" .nil c [.ok (.nodes (r :: rest)), .ok (.str b)] none
      = .ok (.bool (Spec.fnContains (stringValue d r) b)) := by
  simp [callFn, bind, Except.bind]

theorem nodeset_argument_empty (d : Doc) (cfg : ECfg) (c : Ref) (b : String) :
    callFn (F := F) d cfg "contains" .nil c [.ok (.nodes []), .ok (.str b)] none
      = .ok (.bool (Spec.fnContains "" b)) := by
  simp [callFn, bind, Except.bind]

end XPathV.Theorems.C09
