import XPathV.Lemmas.CmpSem
import XPathV.Lemmas.PredSem2
/-!
# C07 — comparisons and boolean operators over *filtered* paths (`PredSem2.Frag2`)

`CmpSem` proves C07 for expressions whose node-set leaves are predicate-free paths (`PathPF`):
the inductive `CmpSem.XExpG NP SP` fixes that leaf.  This module restates the fragment with the
leaf predicate as a parameter — `XExpP PP NP SP` (same constructors; `path p : PP p → …`) — and
instantiates it with the paths of the C02 fragment **with predicates**, `PredSem2.Frag2 true`
(`//a[@x]`, `//b[count(*) = 0]`, `a[b < c]`, `(P)[b]`, …):

* `XExpP`, `XExpP.mono`, `XExpP.of_xexpG` (the old fragment is the instance `PP := PathPF`)
* `build_xexpP` — the induction through `build`, for any leaf fragments whose members are built
  into plans that compute the oracle's value (`hP`, `hN`, `hS`)
* `sem_frag2_build` — what the induction needs of a path leaf: the built plan of a path of
  `Frag2 true` *evaluates* (`evalP`, not only `sel`) to a node list with the members of the
  oracle's node-set (`PredSem2.operand_pathOK2` on `PredSem2.build_frag2`); the comparison cells
  are existential and `boolean()` is non-emptiness, so membership is all that is used (`VRel`)
* `XExp2`, `XExp2F` — the instances with the leaves of `XExp` / of `C07_main_full`
* `C07_main2`, `C07_main2_full` — the built plan evaluates to the oracle's boolean
* `xexp2_of_xexp`, `xexp2F_of_xexpG` — old fragment → new

As everywhere for `Frag2`, the builder runs with `smartDescThroughFilter = false` (the value read
off the source: `SourceConfig.smartdesc_stops_at_filters_from_source`) and the `//name` shortcut
guarded by the node test.
-/
namespace XPathV.CmpSem2
open XPathV XPathV.Model XPathV.PathSem XPathV.PredSem XPathV.PredSem2 XPathV.CmpSem

variable {F : Type} [NumAlg F]

/-! ## the fragment, parametric in its three kinds of leaves -/

/-- `CmpSem.XExpG` with the node-set leaves as a parameter `PP` too -/
inductive XExpP (PP NP SP : Ast → Prop) : CmpSem.Kind → Ast → Prop
  | num (lex : String) : XExpP PP NP SP .num (.num lex)
  | str (s : String) : XExpP PP NP SP .str (.str s)
  | path (p : Ast) : PP p → XExpP PP NP SP .set p
  | numE (e : Ast) : NP e → XExpP PP NP SP .num e
  | strE (e : Ast) : SP e → XExpP PP NP SP .str e
  | cmp (op : String) (cop : Spec.CmpOp) (ka kb : CmpSem.Kind) (a b : Ast) :
      Spec.CmpOp.ofString op = some cop → XExpP PP NP SP ka a → XExpP PP NP SP kb b →
      XExpP PP NP SP .bool (.oper op a b)
  | and (ka kb : CmpSem.Kind) (a b : Ast) : XExpP PP NP SP ka a → XExpP PP NP SP kb b →
      XExpP PP NP SP .bool (.oper "and" a b)
  | or (ka kb : CmpSem.Kind) (a b : Ast) : XExpP PP NP SP ka a → XExpP PP NP SP kb b →
      XExpP PP NP SP .bool (.oper "or" a b)
  | not (ka : CmpSem.Kind) (a : Ast) (pfx : String) : XExpP PP NP SP ka a →
      XExpP PP NP SP .bool (.call "not" pfx (.acons a .anil))
  | boolean (ka : CmpSem.Kind) (a : Ast) (pfx : String) : XExpP PP NP SP ka a →
      XExpP PP NP SP .bool (.call "boolean" pfx (.acons a .anil))
  | true (pfx : String) : XExpP PP NP SP .bool (.call "true" pfx .anil)
  | false (pfx : String) : XExpP PP NP SP .bool (.call "false" pfx .anil)
  | group (k : CmpSem.Kind) (a : Ast) : XExpP PP NP SP k a → XExpP PP NP SP k (.group a)

theorem XExpP.mono {PP PP' NP NP' SP SP' : Ast → Prop} (hp : ∀ e, PP e → PP' e)
    (hn : ∀ e, NP e → NP' e) (hs : ∀ e, SP e → SP' e)
    {k : CmpSem.Kind} {e : Ast} (h : XExpP PP NP SP k e) : XExpP PP' NP' SP' k e := by
  induction h with
  | num lex => exact .num lex
  | str s => exact .str s
  | path p hp' => exact .path p (hp p hp')
  | numE e he => exact .numE e (hn e he)
  | strE e he => exact .strE e (hs e he)
  | cmp op cop ka kb a b hop _ _ iha ihb => exact .cmp op cop ka kb a b hop iha ihb
  | and ka kb a b _ _ iha ihb => exact .and ka kb a b iha ihb
  | or ka kb a b _ _ iha ihb => exact .or ka kb a b iha ihb
  | not ka a pfx _ ih => exact .not ka a pfx ih
  | boolean ka a pfx _ ih => exact .boolean ka a pfx ih
  | true pfx => exact .true pfx
  | false pfx => exact .false pfx
  | group k a _ ih => exact .group k a ih

/-- the fragment of `CmpSem` is the instance `PP := PathPF` -/
theorem XExpP.of_xexpG {NP SP : Ast → Prop} {k : CmpSem.Kind} {e : Ast} (h : XExpG NP SP k e) :
    XExpP PathPF NP SP k e := by
  induction h with
  | num lex => exact .num lex
  | str s => exact .str s
  | path p hp => exact .path p hp
  | numE e he => exact .numE e he
  | strE e he => exact .strE e he
  | cmp op cop ka kb a b hop _ _ iha ihb => exact .cmp op cop ka kb a b hop iha ihb
  | and ka kb a b _ _ iha ihb => exact .and ka kb a b iha ihb
  | or ka kb a b _ _ iha ihb => exact .or ka kb a b iha ihb
  | not ka a pfx _ ih => exact .not ka a pfx ih
  | boolean ka a pfx _ ih => exact .boolean ka a pfx ih
  | true pfx => exact .true pfx
  | false pfx => exact .false pfx
  | group k a _ ih => exact .group k a ih

/-- … and conversely -/
theorem XExpP.to_xexpG {NP SP : Ast → Prop} {k : CmpSem.Kind} {e : Ast} (h : XExpP PathPF NP SP k e) :
    XExpG NP SP k e := by
  induction h with
  | num lex => exact .num lex
  | str s => exact .str s
  | path p hp => exact .path p hp
  | numE e he => exact .numE e he
  | strE e he => exact .strE e he
  | cmp op cop ka kb a b hop _ _ iha ihb => exact .cmp op cop ka kb a b hop iha ihb
  | and ka kb a b _ _ iha ihb => exact .and ka kb a b iha ihb
  | or ka kb a b _ _ iha ihb => exact .or ka kb a b iha ihb
  | not ka a pfx _ ih => exact .not ka a pfx ih
  | boolean ka a pfx _ ih => exact .boolean ka a pfx ih
  | true pfx => exact .true pfx
  | false pfx => exact .false pfx
  | group k a _ ih => exact .group k a ih

/-! ## the induction through `build` -/

/-- **C07 through `build`, any leaves**: as `CmpSem.build_xexpG`, with the statement for the
node-set leaves as a hypothesis (`hP`) beside those for the number- and string-valued ones -/
theorem build_xexpP (d : Doc) (cfg : ECfg) (c : Ref) (regexOk : RegexOk) (limit : Nat)
    (sdf : Bool) {PP NP SP : Ast → Prop}
    (hP : ∀ e, PP e → ∀ (st : BState) (o : BOut), build regexOk limit true sdf e {} st = .ok o →
      Sem (F := F) d cfg c .set o.q e)
    (hN : ∀ e, NP e → ∀ (st : BState) (o : BOut), build regexOk limit true sdf e {} st = .ok o →
      Sem (F := F) d cfg c .num o.q e)
    (hS : ∀ e, SP e → ∀ (st : BState) (o : BOut), build regexOk limit true sdf e {} st = .ok o →
      Sem (F := F) d cfg c .str o.q e)
    (k : CmpSem.Kind) (e : Ast) (h : XExpP PP NP SP k e) :
    ∀ (st : BState) (o : BOut), build regexOk limit true sdf e {} st = .ok o →
      Sem (F := F) d cfg c k o.q e := by
  induction h with
  | num lex => intro st o hb; rw [build_lit_num _ _ _ _ _ _ _ _ hb]; exact sem_num d cfg c lex
  | str s => intro st o hb; rw [build_lit_str _ _ _ _ _ _ _ _ hb]; exact sem_str d cfg c s
  | path p hp => exact hP p hp
  | numE e he => exact hN e he
  | strE e he => exact hS e he
  | cmp op cop ka kb a b hop _ _ iha ihb =>
    intro st o hb
    obtain ⟨st1, lo, ro, hlo, hro, hq⟩ := build_oper_inv _ _ _ _ _ _ _ _ _ _ hb
    rw [hq, build_cmp_q op cop hop]
    exact sem_cmp d cfg c op cop hop ka kb _ _ a b (iha _ _ hlo) (ihb _ _ hro)
  | and ka kb a b _ _ iha ihb =>
    intro st o hb
    obtain ⟨st1, lo, ro, hlo, hro, hq⟩ := build_oper_inv _ _ _ _ _ _ _ _ _ _ hb
    have hq' : o.q = .boolean false lo.q ro.q := by rw [hq]; rfl
    rw [hq']
    exact sem_and d cfg c ka kb _ _ a b (iha _ _ hlo) (ihb _ _ hro)
  | or ka kb a b _ _ iha ihb =>
    intro st o hb
    obtain ⟨st1, lo, ro, hlo, hro, hq⟩ := build_oper_inv _ _ _ _ _ _ _ _ _ _ hb
    have hq' : o.q = .boolean true lo.q ro.q := by rw [hq]; rfl
    rw [hq']
    exact sem_or d cfg c ka kb _ _ a b (iha _ _ hlo) (ihb _ _ hro)
  | not ka a pfx _ ih =>
    intro st o hb
    obtain ⟨st1, ao, hao, hq⟩ := CmpSem.build_call1_inv regexOk limit true sdf "not" pfx a none false
      (by rfl) (Or.inl rfl) (by rfl) (by decide) (by decide) (by decide) (by decide) _ _ _ hb
    rw [hq]
    exact sem_not d cfg c ka _ a pfx .nil (ih _ _ hao)
  | boolean ka a pfx _ ih =>
    intro st o hb
    obtain ⟨st1, ao, hao, hq⟩ := CmpSem.build_call1_inv regexOk limit true sdf "boolean" pfx a (some 1) false
      (by rfl) (Or.inr rfl) (by rfl) (by decide) (by decide) (by decide) (by decide) _ _ _ hb
    rw [hq]
    exact sem_boolean d cfg c ka _ a pfx .nil (ih _ _ hao)
  | true pfx =>
    intro st o hb
    rw [build_call0_inv regexOk limit true sdf "true" pfx false (by rfl) (by rfl) (by decide)
      (by decide) (by decide) (by decide) _ _ _ hb]
    exact sem_true d cfg c pfx .nil
  | false pfx =>
    intro st o hb
    rw [build_call0_inv regexOk limit true sdf "false" pfx false (by rfl) (by rfl) (by decide)
      (by decide) (by decide) (by decide) _ _ _ hb]
    exact sem_false d cfg c pfx .nil
  | group k a _ ih =>
    intro st o hb
    obtain ⟨st1, xo, hxo, hq⟩ := CmpSem.build_group_inv _ _ _ _ _ _ _ _ hb
    rw [hq]
    exact sem_group d cfg c k _ a (ih _ _ hxo)

/-! ## the path leaves: `Frag2 true` -/

/-- **a filtered path as an operand**: the plan `build` makes of a path of `Frag2 true` (all
rewrites, merge form included) *evaluates* to a node list whose members are exactly the members
of the oracle's node-set — from `PredSem2.build_frag2` through `PredSem2.operand_pathOK2` -/
theorem sem_frag2_build {d : Doc} (wf : WF d) (cfg : ECfg) (hns : cfg.nsIface = true)
    (hinj : HashInj d cfg) (c : Ref) (hc : validRef d c = true) (regexOk : RegexOk) (limit : Nat)
    (p : Ast) (hp : Frag2 true p) (st : BState) (o : BOut)
    (hb : build regexOk limit true false p {} st = .ok o) :
    Sem (F := F) d cfg c .set o.q p := by
  have ih := ((build_frag2 (F := F) wf cfg hns hinj regexOk limit true p hp).1 rfl).1
  obtain ⟨_, out, ns, g, _, hev, hS, hm, hv, _⟩ :=
    operand_pathOK2 (F := F) wf cfg hns hinj regexOk limit p hp ih st o hb ⟨c, 1, 1⟩ hc
  exact ⟨.nodes (nodesVal d cfg out), .nodes ns, g, hev, hS,
    fun x => mem_nodesVal d cfg out ns hm hv x, rfl⟩

/-- the same, spelled out: the value is a node list, `l`, with the oracle's members -/
theorem frag2_operand_value {d : Doc} (wf : WF d) (cfg : ECfg) (hns : cfg.nsIface = true)
    (hinj : HashInj d cfg) (c : Ref) (hc : validRef d c = true) (regexOk : RegexOk) (limit : Nat)
    (p : Ast) (hp : Frag2 true p) (st : BState) (o : BOut)
    (hb : build regexOk limit true false p {} st = .ok o) :
    ∃ l ns g, evalP (F := F) d cfg o.q c = .ok (.nodes l) ∧
      Spec.eval (F := F) d p ⟨c, 1, 1⟩ = .ok (.val (.nodes ns) g) ∧ (∀ x, x ∈ l ↔ x ∈ ns) ∧
      asBoolM (F := F) (.nodes l) = .ok (Spec.toBool (F := F) (.nodes ns)) := by
  have ih := ((build_frag2 (F := F) wf cfg hns hinj regexOk limit true p hp).1 rfl).1
  obtain ⟨_, out, ns, g, _, hev, hS, hm, hv, _⟩ :=
    operand_pathOK2 (F := F) wf cfg hns hinj regexOk limit p hp ih st o hb ⟨c, 1, 1⟩ hc
  have hmem : ∀ x, x ∈ nodesVal d cfg out ↔ x ∈ ns := fun x => mem_nodesVal d cfg out ns hm hv x
  exact ⟨_, ns, g, hev, hS, hmem, asBool_vrel (F := F) (.nodes (nodesVal d cfg out)) (.nodes ns) hmem⟩

/-! ## the instances -/

/-- **the C07 fragment over filtered paths**: `XExp` with its node-set leaves in `Frag2 true` -/
abbrev XExp2 : CmpSem.Kind → Ast → Prop := XExpP (Frag2 true) ArithSem.NumEC StringFns.StrE

/-- the fragment of `C07_main_full` (number-valued leaves `ArithSem.NumEF`: `mod` and `sum` inside
the oracle's domain at the context) with its node-set leaves in `Frag2 true` -/
abbrev XExp2F (d : Doc) (c : Ref) (F : Type) [NumAlg F] : CmpSem.Kind → Ast → Prop :=
  XExpP (Frag2 true) (ArithSem.NumEF d ⟨c, 1, 1⟩ F) StringFns.StrE

theorem frag2_of_pathPF (p : Ast) (hp : PathPF p) : Frag2 true p :=
  frag2_of_frag true p (frag_of_pathPF p hp)

/-- **old fragment → new** -/
theorem xexp2_of_xexpG {NP SP : Ast → Prop} {k : CmpSem.Kind} {e : Ast} (h : XExpG NP SP k e) :
    XExpP (Frag2 true) NP SP k e :=
  (XExpP.of_xexpG h).mono frag2_of_pathPF (fun _ h => h) (fun _ h => h)

theorem xexp2_of_xexp {k : CmpSem.Kind} {e : Ast} (h : XExp k e) : XExp2 k e := xexp2_of_xexpG h

theorem xexp2F_of_xexpG {d : Doc} {c : Ref} {k : CmpSem.Kind} {e : Ast}
    (h : XExpG (ArithSem.NumEF d ⟨c, 1, 1⟩ F) StringFns.StrE k e) : XExp2F d c F k e :=
  xexp2_of_xexpG h

/-- a path of `Frag true` (the first C02 fragment) is a leaf too -/
theorem xexp2_of_frag {NP SP : Ast → Prop} (p : Ast) (hp : Frag true p) :
    XExpP (Frag2 true) NP SP .set p := .path p (frag2_of_frag true p hp)

section Main
variable {d : Doc} (wf : WF d) (cfg : ECfg) (hns : cfg.nsIface = true) (hinj : HashInj d cfg)
  (c : Ref) (hc : validRef d c = true) (regexOk : RegexOk) (limit : Nat)
include wf hns hinj hc

/-- `Sem` for every expression of `XExp2` (any kind) -/
theorem build_xexp2 (k : CmpSem.Kind) (e : Ast) (h : XExp2 k e) :
    ∀ (st : BState) (o : BOut), build regexOk limit true false e {} st = .ok o →
      Sem (F := F) d cfg c k o.q e :=
  build_xexpP d cfg c regexOk limit false
    (fun e he st o hb => sem_frag2_build wf cfg hns hinj c hc regexOk limit e he st o hb)
    (fun e he st o hb => sem_numEC_build wf cfg hns hinj c hc regexOk limit false e he st o hb)
    (fun e he st o hb => sem_strE_build d cfg c regexOk limit true false e he st o hb) k e h

/-- `Sem` for every expression of `XExp2F` (any kind) -/
theorem build_xexp2F (k : CmpSem.Kind) (e : Ast) (h : XExp2F d c F k e) :
    ∀ (st : BState) (o : BOut), build regexOk limit true false e {} st = .ok o →
      Sem (F := F) d cfg c k o.q e :=
  build_xexpP d cfg c regexOk limit false
    (fun e he st o hb => sem_frag2_build wf cfg hns hinj c hc regexOk limit e he st o hb)
    (fun e he st o hb => sem_numEF_build wf cfg hns hinj c hc regexOk limit false e he st o hb)
    (fun e he st o hb => sem_strE_build d cfg c regexOk limit true false e he st o hb) k e h

/-- **C07 through `build`, filtered paths as node-set operands**: for every boolean-valued
expression of `XExp2` the plan the builder makes evaluates to the boolean the oracle's top-level
evaluation gives -/
theorem C07_main2 (e : Ast) (h : XExp2 .bool e) (st : BState) (o : BOut)
    (hb : build regexOk limit true false e {} st = .ok o) :
    ∃ t : Bool, evalP (F := F) d cfg o.q c = .ok (.bool t) ∧
      Spec.evalTop (F := F) d e c = .ok (.bool t) :=
  sem_bool_out d cfg c _ e (build_xexp2 wf cfg hns hinj c hc regexOk limit .bool e h st o hb)

/-- `C07_main2` with the full arithmetic fragment of C08 as number-valued leaves -/
theorem C07_main2_full (e : Ast) (h : XExp2F d c F .bool e) (st : BState) (o : BOut)
    (hb : build regexOk limit true false e {} st = .ok o) :
    ∃ t : Bool, evalP (F := F) d cfg o.q c = .ok (.bool t) ∧
      Spec.evalTop (F := F) d e c = .ok (.bool t) :=
  sem_bool_out d cfg c _ e (build_xexp2F wf cfg hns hinj c hc regexOk limit .bool e h st o hb)

/-- a single comparison between two operands of `XExp2` (filtered paths, literals, arithmetic,
string functions, or boolean-valued sub-expressions), with the value spelled out: the built plan
gives XPath's `compare` of the oracle's operand values -/
theorem C07_comparison_value2 (op : String) (cop : Spec.CmpOp) (ka kb : CmpSem.Kind) (a b : Ast)
    (hop : Spec.CmpOp.ofString op = some cop) (ha : XExp2 ka a) (hb : XExp2 kb b)
    (st : BState) (o : BOut) (hbd : build regexOk limit true false (.oper op a b) {} st = .ok o) :
    ∃ (va vb : Spec.Value F) (ga gb : Option (List (List Ref))),
      Spec.eval (F := F) d a ⟨c, 1, 1⟩ = .ok (.val va ga) ∧
      Spec.eval (F := F) d b ⟨c, 1, 1⟩ = .ok (.val vb gb) ∧
      evalP (F := F) d cfg o.q c = .ok (.bool (Spec.compare d cop va vb)) ∧
      Spec.eval (F := F) d (.oper op a b) ⟨c, 1, 1⟩ = .ok (.val (.bool (Spec.compare d cop va vb)) none) := by
  obtain ⟨st1, lo, ro, hlo, hro, hq⟩ := build_oper_inv _ _ _ _ _ _ _ _ _ _ hbd
  rw [hq, build_cmp_q op cop hop]
  exact sem_cmp_explicit d cfg c op cop hop _ _ _ _ a b
    (build_xexp2 wf cfg hns hinj c hc regexOk limit _ a ha _ _ hlo)
    (build_xexp2 wf cfg hns hinj c hc regexOk limit _ b hb _ _ hro)

end Main

end XPathV.CmpSem2

/-! ## Axiom audit -/
section AxiomAudit
open XPathV.CmpSem2
end AxiomAudit
