import XPathV.Lemmas.NoCrash
import XPathV.Model.Api
/-!
# C15 at the `compile` level, modulo `round`

The parser only produces parse trees of the shape `Ast.wf` asks for (apart from the function name
`round`, which is an input), hence every compiled expression that does not call `round` is a clean
plan and `no_crash` applies.
-/
namespace XPathV.Model
open XPathV

/-- `Ast.wf` without the condition on function names -/
def _root_.XPathV.Ast.shape : Ast → Bool
  | .oper op l r => knownOp op && l.isExpr && r.isExpr && l.shape && r.shape
  | .axis _ i => i.isExpr && i.shape
  | .filter i c => i.isExpr && c.isExpr && i.shape && c.shape
  | .call _ _ a => a.isArgs && a.shape
  | .acons h t => h.isExpr && h.shape && t.isArgs && t.shape
  | .group x => x.isExpr && x.shape
  | _ => true

/-- no call of `round` anywhere -/
def _root_.XPathV.Ast.noRound : Ast → Bool
  | .oper _ l r => l.noRound && r.noRound
  | .axis _ i => i.noRound
  | .filter i c => i.noRound && c.noRound
  | .call name _ a => name != "round" && a.noRound
  | .acons h t => h.noRound && t.noRound
  | .group x => x.noRound
  | _ => true

theorem wf_of_shape (a : Ast) (hs : a.shape = true) (hr : a.noRound = true) : a.wf = true := by
  induction a <;> simp_all [Ast.shape, Ast.noRound, Ast.wf]

namespace ParseShape

/-- an expression node of parser shape -/
def E (a : Ast) : Prop := a.isExpr = true ∧ a.shape = true

def PSat {α : Type} (P : α → Prop) : Except PErr α → Prop
  | .error _ => True
  | .ok a => P a

theorem PSat.bind {α β : Type} {P : α → Prop} {Q : β → Prop} {x : Except PErr α} {k : α → Except PErr β}
    (hx : PSat P x) (hk : ∀ a, P a → PSat Q (k a)) : PSat Q (x >>= k) := by
  cases x with
  | error e => trivial
  | ok a => exact hk a hx

theorem PSat.pure {α : Type} {Q : α → Prop} {a : α} (h : Q a) : PSat Q (pure a : Except PErr α) := h
theorem PSat.ok {α : Type} {Q : α → Prop} {a : α} (h : Q a) : PSat Q (.ok a : Except PErr α) := h
theorem PSat.err {α : Type} {Q : α → Prop} {e : PErr} : PSat Q (.error e : Except PErr α) := trivial
theorem PSat.triv {α : Type} (x : Except PErr α) : PSat (fun _ => True) x := by cases x <;> trivial
theorem PSat.val {α} {P : α → Prop} {x : Except PErr α} (h : PSat P x) {v} (hv : x = .ok v) : P v := by
  subst hv; exact h

def stagesKnown (l : List Stage) : Bool :=
  l.all fun s => match s with
    | .tier ops => ops.all knownOp
    | .unary => true

abbrev EP (p : Ast × PState) : Prop := E p.1

theorem E_axis {a : AxisInfo} {inp : Ast} (h : E inp) : E (.axis a inp) :=
  ⟨rfl, by simp [Ast.shape, h.1, h.2]⟩

theorem parseNodeTest_shape (cfg : PCfg) (inp : Ast) (axis : String) (mt : NType) (st : PState) (hi : E inp) :
    PSat EP (parseNodeTest cfg inp axis mt st) := by
  unfold parseNodeTest
  split
  · split
    · refine PSat.bind (PSat.triv _) fun st1 _ => ?_
      refine PSat.bind (PSat.triv _) fun st2 _ => ?_
      extract_lets mt' jp
      have hjp : ∀ x, PSat EP (jp x) := by
        rintro ⟨name, st3⟩
        exact PSat.bind (PSat.triv _) fun st4 _ => PSat.pure (E_axis hi)
      clear_value jp
      repeat' (first
        | exact hjp _
        | refine PSat.bind (PSat.triv _) fun _ _ => ?_
        | split
        | (extract_lets _nm; clear_value _nm))
    · refine PSat.bind (PSat.triv _) fun st1 _ => ?_
      repeat' split
      all_goals first | exact PSat.pure (E_axis hi) | exact PSat.err
  · exact PSat.bind (PSat.triv _) fun st1 _ => PSat.pure (E_axis hi)
  · exact PSat.err

section
variable (cfg : PCfg)

def SExpr (f : Nat) : Prop := ∀ st, PSat EP (parseExpression f cfg st)
def SChain (f : Nat) : Prop := ∀ stages st, stagesKnown stages = true → PSat EP (parseChain f cfg stages st)
def STier (f : Nat) : Prop := ∀ ops rest opnd st, ops.all knownOp = true → stagesKnown rest = true → E opnd →
  PSat EP (tierLoop f cfg ops rest opnd st)
def SPath (f : Nat) : Prop := ∀ st, PSat EP (parsePathExpr f cfg st)
def SFilter (f : Nat) : Prop := ∀ st, PSat EP (parseFilterExpr f cfg st)
def SPred (f : Nat) : Prop := ∀ st, PSat EP (parsePredicate f cfg st)
def SPrimary (f : Nat) : Prop := ∀ st, PSat EP (parsePrimary f cfg st)
def SMethod (f : Nat) : Prop := ∀ st, PSat EP (parseMethod f cfg st)
def SArgs (f : Nat) : Prop := ∀ st,
  PSat (fun p => p.1.isArgs = true ∧ p.1.shape = true) (parseArgs f cfg st)
def SLoc (f : Nat) : Prop := ∀ st, PSat EP (parseLocationPath f cfg st)
def SRel (f : Nat) : Prop := ∀ inp st, E inp → PSat EP (parseRelLoc f cfg inp st)
def SStep (f : Nat) : Prop := ∀ inp st, E inp → PSat EP (parseStep f cfg inp st)
def SPreds (f : Nat) : Prop := ∀ opnd st, E opnd → PSat EP (stepPreds f cfg opnd st)
def SSeq (f : Nat) : Prop := ∀ inp st, E inp → PSat EP (parseSequence f cfg inp st)
def SSeqLoop (f : Nat) : Prop := ∀ inp opnd st, E inp → E opnd → PSat EP (seqLoop f cfg inp opnd st)

variable {cfg}

theorem E_none : E .none := ⟨rfl, rfl⟩
theorem E_dos {inp : Ast} (h : E inp) : E (dosNode inp) := E_axis h
theorem E_mkAxis {ax tt l p pr} {inp : Ast} (h : E inp) : E (mkAxis ax tt l p pr inp) := E_axis h
theorem E_oper {op : String} {l r : Ast} (hop : knownOp op = true) (hl : E l) (hr : E r) : E (.oper op l r) :=
  ⟨rfl, by simp [Ast.shape, hop, hl.1, hl.2, hr.1, hr.2]⟩

theorem step_expr (hK : stagesKnown cfg.chain = true) {f : Nat} (ih : SChain cfg f) : SExpr cfg (f+1) := by
  intro st
  simp only [parseExpression]
  split
  · exact PSat.err
  · refine PSat.bind (ih cfg.chain _ hK) ?_
    rintro ⟨a, st1⟩ h1
    exact PSat.pure h1

theorem step_chain {f : Nat} (ihChain : SChain cfg f) (ihTier : STier cfg f) (ihPath : SPath cfg f) :
    SChain cfg (f+1) := by
  intro stages st hk
  cases stages with
  | nil =>
    simp only [parseChain]
    exact ihPath st
  | cons s rest =>
    simp only [stagesKnown, List.all_cons, Bool.and_eq_true] at hk
    cases s with
    | tier ops =>
      simp only [parseChain]
      refine PSat.bind (ihChain rest st hk.2) ?_
      rintro ⟨opnd, st1⟩ h1
      exact ihTier ops rest opnd st1 hk.1 hk.2 h1
    | unary =>
      simp only [parseChain]
      refine PSat.bind (PSat.triv _) ?_
      rintro ⟨minus, st1⟩ _
      refine PSat.bind (ihChain rest st1 hk.2) ?_
      rintro ⟨opnd, st2⟩ h2
      refine PSat.pure ?_
      show E (if minus = true then _ else _)
      split
      · exact E_oper rfl h2 ⟨rfl, rfl⟩
      · split
        · exact E_oper rfl (E_oper rfl h2 ⟨rfl, rfl⟩) ⟨rfl, rfl⟩
        · exact h2

theorem step_tier {f : Nat} (ihChain : SChain cfg f) (ihTier : STier cfg f) : STier cfg (f+1) := by
  intro ops rest opnd st hops hk ho
  simp only [tierLoop]
  split
  · exact PSat.pure ho
  · rename_i op hfind
    have hop : knownOp op = true := List.all_eq_true.mp hops op (List.mem_of_find?_eq_some hfind)
    refine PSat.bind (PSat.triv _) fun st1 _ => ?_
    refine PSat.bind (ihChain rest st1 hk) ?_
    rintro ⟨r, st2⟩ h2
    exact ihTier ops rest _ st2 hops hk (E_oper hop ho h2)

theorem step_path {f : Nat} (ihFilter : SFilter cfg f) (ihRel : SRel cfg f) (ihLoc : SLoc cfg f) :
    SPath cfg (f+1) := by
  intro st
  simp only [parsePathExpr]
  split
  · refine PSat.bind (ihFilter st) ?_
    rintro ⟨opnd, st1⟩ h1
    simp only []
    split
    · exact PSat.bind (PSat.triv _) fun st2 _ => ihRel _ st2 h1
    · exact PSat.bind (PSat.triv _) fun st2 _ => ihRel _ st2 (E_dos h1)
    · exact PSat.pure h1
  · exact ihLoc st

theorem step_filter {f : Nat} (ihPrimary : SPrimary cfg f) (ihPreds : SPreds cfg f) : SFilter cfg (f+1) := by
  intro st
  simp only [parseFilterExpr]
  refine PSat.bind (ihPrimary st) ?_
  rintro ⟨opnd, st1⟩ h1
  exact ihPreds opnd st1 h1

theorem step_pred {f : Nat} (ihExpr : SExpr cfg f) : SPred cfg (f+1) := by
  intro st
  simp only [parsePredicate]
  refine PSat.bind (PSat.triv _) fun st1 _ => ?_
  refine PSat.bind (ihExpr st1) ?_
  rintro ⟨opnd, st2⟩ h2
  exact PSat.bind (PSat.triv _) fun st3 _ => PSat.pure h2

theorem step_primary {f : Nat} (ihExpr : SExpr cfg f) (ihMethod : SMethod cfg f) : SPrimary cfg (f+1) := by
  intro st
  simp only [parsePrimary]
  split
  · exact PSat.bind (PSat.triv _) fun st1 _ => PSat.pure ⟨rfl, rfl⟩
  · exact PSat.bind (PSat.triv _) fun st1 _ => PSat.pure ⟨rfl, rfl⟩
  · refine PSat.bind (PSat.triv _) fun st1 _ => ?_
    split
    · exact PSat.bind (PSat.triv _) fun st2 _ => PSat.pure ⟨rfl, rfl⟩
    · exact PSat.err
  · refine PSat.bind (PSat.triv _) fun st1 _ => ?_
    refine PSat.bind (ihExpr st1) ?_
    rintro ⟨opnd, st2⟩ h2
    refine PSat.bind (PSat.triv _) fun st3 _ => PSat.pure ?_
    show E (if _ then _ else _)
    split
    · exact h2
    · exact ⟨rfl, by simp [Ast.shape, h2.1, h2.2]⟩
  · split
    · exact ihMethod st
    · exact PSat.pure E_none
  · exact PSat.pure E_none

theorem step_method {f : Nat} (ihArgs : SArgs cfg f) : SMethod cfg (f+1) := by
  intro st
  simp only [parseMethod]
  refine PSat.bind (PSat.triv _) fun st1 _ => ?_
  refine PSat.bind (PSat.triv _) fun st2 _ => ?_
  have hk : ∀ p : Ast × PState, p.1.isArgs = true ∧ p.1.shape = true →
      PSat EP (do let st_1 ← p.snd.skipItem Tok.rparen; pure (Ast.call st.s.name st.s.pfx p.fst, st_1)) := by
    rintro ⟨args, st3⟩ h3
    exact PSat.bind (PSat.triv _) fun st4 _ => PSat.pure ⟨rfl, by simp [Ast.shape, h3.1, h3.2]⟩
  split
  · exact PSat.bind (ihArgs st2) hk
  · exact PSat.bind (P := fun p : Ast × PState => p.1.isArgs = true ∧ p.1.shape = true)
      (PSat.pure ⟨rfl, rfl⟩) hk

theorem step_args {f : Nat} (ihExpr : SExpr cfg f) (ihArgs : SArgs cfg f) : SArgs cfg (f+1) := by
  intro st
  simp only [parseArgs]
  refine PSat.bind (ihExpr st) ?_
  rintro ⟨a, st1⟩ h1
  simp only []
  split
  · exact PSat.pure ⟨rfl, by simp [Ast.shape, Ast.isArgs, h1.1, h1.2]⟩
  · refine PSat.bind (PSat.triv _) fun st2 _ => ?_
    refine PSat.bind (ihArgs st2) ?_
    rintro ⟨rest, st3⟩ h3
    exact PSat.pure ⟨rfl, by simp [Ast.shape, h1.1, h1.2, h3.1, h3.2]⟩

theorem step_loc {f : Nat} (ihRel : SRel cfg f) : SLoc cfg (f+1) := by
  intro st
  simp only [parseLocationPath]
  split
  · refine PSat.bind (PSat.triv _) fun st1 _ => ?_
    split
    · exact ihRel _ st1 ⟨rfl, rfl⟩
    · exact PSat.pure ⟨rfl, rfl⟩
  · exact PSat.bind (PSat.triv _) fun st1 _ => ihRel _ st1 (E_dos ⟨rfl, rfl⟩)
  · exact ihRel _ st E_none

theorem step_rel {f : Nat} (ihRel : SRel cfg f) (ihStep : SStep cfg f) : SRel cfg (f+1) := by
  intro inp st hi
  simp only [parseRelLoc]
  refine PSat.bind (ihStep inp st hi) ?_
  rintro ⟨opnd, st1⟩ h1
  simp only []
  split
  · exact PSat.bind (PSat.triv _) fun st2 _ => ihRel _ st2 (E_dos h1)
  · exact PSat.bind (PSat.triv _) fun st2 _ => ihRel _ st2 h1
  · exact PSat.pure h1

theorem step_step {f : Nat} (ihSeq : SSeq cfg f) (ihPreds : SPreds cfg f) : SStep cfg (f+1) := by
  intro inp st hi
  simp only [parseStep]
  split
  · refine PSat.bind (PSat.triv _) fun st1 _ => ?_
    have ho : E (if st.s.typ == Tok.dot then mkAxis "self" .all "" "" "" inp
                  else mkAxis "parent" .all "" "" "" inp) := by
      split <;> exact E_mkAxis hi
    split
    · exact PSat.pure ho
    · exact ihPreds _ st1 ho
  · split
    · exact ihSeq inp st hi
    · refine PSat.bind (PSat.triv _) fun st1 _ => ?_
      refine PSat.bind (parseNodeTest_shape cfg inp _ _ st1 hi) ?_
      rintro ⟨opnd, st2⟩ h2
      exact ihPreds opnd st2 h2
    · refine PSat.bind (PSat.triv _) fun st1 _ => ?_
      refine PSat.bind (parseNodeTest_shape cfg inp _ _ st1 hi) ?_
      rintro ⟨opnd, st2⟩ h2
      exact ihPreds opnd st2 h2
    · refine PSat.bind (parseNodeTest_shape cfg inp _ _ st hi) ?_
      rintro ⟨opnd, st2⟩ h2
      exact ihPreds opnd st2 h2

theorem step_preds {f : Nat} (ihPred : SPred cfg f) (ihPreds : SPreds cfg f) : SPreds cfg (f+1) := by
  intro opnd st ho
  simp only [stepPreds]
  split
  · refine PSat.bind (ihPred st) ?_
    rintro ⟨c, st1⟩ h1
    exact ihPreds _ st1 ⟨rfl, by simp [Ast.shape, ho.1, ho.2, h1.1, h1.2]⟩
  · exact PSat.pure ho

theorem step_seq {f : Nat} (ihStep : SStep cfg f) (ihSeqLoop : SSeqLoop cfg f) : SSeq cfg (f+1) := by
  intro inp st hi
  simp only [parseSequence]
  split
  · exact PSat.err
  · refine PSat.bind (PSat.triv _) fun st1 _ => ?_
    refine PSat.bind (ihStep inp st1 hi) ?_
    rintro ⟨opnd, st2⟩ h2
    refine PSat.bind (ihSeqLoop inp opnd st2 hi h2) ?_
    rintro ⟨opnd2, st3⟩ h3
    exact PSat.bind (PSat.triv _) fun st4 _ => PSat.pure h3

theorem step_seqLoop {f : Nat} (ihStep : SStep cfg f) (ihSeqLoop : SSeqLoop cfg f) : SSeqLoop cfg (f+1) := by
  intro inp opnd st hi ho
  simp only [seqLoop]
  split
  · refine PSat.bind (PSat.triv _) fun st1 _ => ?_
    refine PSat.bind (ihStep inp st1 hi) ?_
    rintro ⟨o2, st2⟩ h2
    exact ihSeqLoop inp _ st2 hi (E_oper rfl ho h2)
  · exact PSat.pure ho

def SAll (cfg : PCfg) (f : Nat) : Prop :=
  SExpr cfg f ∧ SChain cfg f ∧ STier cfg f ∧ SPath cfg f ∧ SFilter cfg f ∧ SPred cfg f ∧ SPrimary cfg f ∧
  SMethod cfg f ∧ SArgs cfg f ∧ SLoc cfg f ∧ SRel cfg f ∧ SStep cfg f ∧ SPreds cfg f ∧ SSeq cfg f ∧ SSeqLoop cfg f

theorem all_shape (hK : stagesKnown cfg.chain = true) : ∀ f, SAll cfg f
  | 0 => by
    refine ⟨?_, ?_, ?_, ?_, ?_, ?_, ?_, ?_, ?_, ?_, ?_, ?_, ?_, ?_, ?_⟩ <;> intro <;> intros
    all_goals simp only [parseExpression, parseChain, tierLoop, parsePathExpr, parseFilterExpr, parsePredicate,
      parsePrimary, parseMethod, parseArgs, parseLocationPath, parseRelLoc, parseStep, stepPreds, parseSequence,
      seqLoop]
    all_goals exact PSat.err
  | f+1 => by
    obtain ⟨hExpr, hChain, hTier, hPath, hFilter, hPred, hPrimary, hMethod, hArgs, hLoc, hRel, hStep, hPreds,
      hSeq, hSeqLoop⟩ := all_shape hK f
    exact ⟨step_expr hK hChain, step_chain hChain hTier hPath, step_tier hChain hTier,
      step_path hFilter hRel hLoc, step_filter hPrimary hPreds, step_pred hExpr,
      step_primary hExpr hMethod, step_method hArgs, step_args hExpr hArgs, step_loc hRel,
      step_rel hRel hStep, step_step hSeq hPreds, step_preds hPred hPreds, step_seq hStep hSeqLoop,
      step_seqLoop hStep hSeqLoop⟩

end

end ParseShape
open ParseShape

/-- every parse tree the parser returns has the shape the builder lemma needs -/
theorem parse_shape (cfg : PCfg) (hK : stagesKnown cfg.chain = true) (fuel : Nat) (text : List Char) (ast : Ast)
    (h : parse fuel cfg text = .ok ast) : ast.isExpr = true ∧ ast.shape = true := by
  unfold parse at h
  split at h
  · cases h
  · rename_i s hs
    have hg := (all_shape hK fuel).1 { s := s, d := 0 }
    generalize parseExpression fuel cfg { s := s, d := 0 } = r at hg h
    cases r with
    | error e => simp [bind, Except.bind] at h
    | ok p =>
      obtain ⟨a, st⟩ := p
      simp only [bind, Except.bind] at h
      split at h
      · cases h; exact hg
      · cases h

theorem stages_known : stagesKnown stages = true := by decide

/-- the text, as parsed by the library's parser, does not call `round` -/
def noRoundIn (ns : Option (List (String × String))) (text : List Char) : Prop :=
  ∀ ast, parse (fuelFor text) (defaultCfg ns) text = .ok ast → ast.noRound = true

/-- every compiled expression that does not call `round` is a clean plan -/
theorem compile_clean (cc : CompileCfg) (ns : Option (List (String × String))) (text : List Char) (p : Plan)
    (h : compile cc ns text = .ok p) (hr : noRoundIn ns text) : p.clean = true := by
  unfold compile at h
  split at h
  · cases h
  · split at h
    · cases h
    · rename_i ast hparse
      have hs := parse_shape (defaultCfg ns) stages_known _ text ast hparse
      have hwf := wf_of_shape ast hs.2 (hr ast hparse)
      split at h
      · cases h
      · rename_i o hb
        split at h
        · cases h
        · cases h
          exact build_clean _ _ _ _ ast {} o hwf hs.1 hb

/-- **C15, modulo `round`**: a compiled expression that does not call `round` never fails with a Go
runtime error — for every numeric algebra, document, engine configuration and context node -/
theorem compile_no_crash {F : Type} [NumAlg F] (cc : CompileCfg) (ns : Option (List (String × String)))
    (text : List Char) (p : Plan) (h : compile cc ns text = .ok p) (hr : noRoundIn ns text)
    (d : Doc) (cfg : ECfg) (c : Ref) :
    (∀ k, sel (F := F) d cfg p c ≠ .error (.crash k)) ∧ (∀ k, evalP (F := F) d cfg p c ≠ .error (.crash k)) :=
  no_crash d cfg p c (compile_clean cc ns text p h hr)

end XPathV.Model

#print axioms XPathV.Model.parse_shape
#print axioms XPathV.Model.compile_clean
#print axioms XPathV.Model.compile_no_crash
