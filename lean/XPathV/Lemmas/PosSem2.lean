import XPathV.Lemmas.PosSem
import XPathV.Lemmas.PredSem2
/-!
# C03 on the extended fragment `Frag2`

The positional theorems of `PosSem` (`C03_main`, `C03_main_nat`, `C03_chain`) with the input path
in `PredSem2.Frag2 true` (count / contains / local-name predicates, `(P)[b]`, path-vs-path and
path-vs-string comparisons with six operators) and the following boolean predicates in
`PredSem2.Frag2 false`.

What `PosSem.Build` uses about the fragment is (i) that the plan built for the input path agrees
with the oracle (`input_pathOK`, from `build_frag` + `frag_sem`) and (ii) that a following boolean
predicate is built into a plan with the oracle's truth and props without `last()`
(`build_frag … .2`).  Both are available for `Frag2` as `build_frag2` / `frag_sem2`; the positional
part (`posStep_filter`, `posStep_merge`, cached forms, `posChain_of_step`) takes any agreeing input
plan and is reused unchanged.
-/
namespace XPathV.PosSem2
open XPathV XPathV.Model XPathV.PathSem XPathV.PredSem XPathV.PredSem2 XPathV.PosSem NumAlg

variable {F : Type} [NumAlg F]

section Sem
variable {d : Doc} (wf : WF d) (cfg : ECfg) (hns : cfg.nsIface = true) (hinj : HashInj d cfg)
  (regexOk : RegexOk) (limit : Nat)
include wf hns hinj

/-- the plan built for an input path of `Frag2` agrees with the path -/
theorem input_pathOK2 (q : Ast) (hq : Frag2 true q) (qi : Plan)
    (h : (q = .none ∧ qi = .context) ∨
      (q ≠ .none ∧ ∃ st' o1, build regexOk limit true false q {} st' = .ok o1 ∧ qi = o1.q))
    (c : Spec.Ctx) (hc : validRef d c.node = true) : PathOK (F := F) d cfg qi q c := by
  rcases h with ⟨rfl, rfl⟩ | ⟨_, st', o1, ho1, rfl⟩
  · exact pathOK_none d cfg c hc
  · exact (operand_pathOK2 (F := F) wf cfg hns hinj regexOk limit q hq
      ((build_frag2 (F := F) wf cfg hns hinj regexOk limit true q hq).1 rfl).1 st' o1 ho1 c hc).2

/-- a following boolean predicate of `Frag2` is built into a plan with the oracle's truth -/
theorem buildB2_of_frag2 (b : Ast) (hb : Frag2 false b) : BuildB2 (F := F) d cfg regexOk limit b :=
  (build_frag2 (F := F) wf cfg hns hinj regexOk limit false b hb).2 rfl

/-- naive plans of following predicates of `Frag2` -/
theorem predsOK_naive2 : ∀ (bs : List Ast), (∀ b ∈ bs, Frag2 false b) →
      PredsOK F d cfg (bs.map predPlan2) bs
  | [], _ => trivial
  | b :: t, h =>
    ⟨fun x hx pos size =>
      (frag_sem2 (F := F) wf cfg hns hinj false b (h b List.mem_cons_self) ⟨x, pos, size⟩ hx).2 rfl,
     predsOK_naive2 t (fun b' hb' => h b' (List.mem_cons_of_mem _ hb'))⟩

/-- **`child::t[P]` through `build`, input path in `Frag2`** (any flags): the built plan is the plain
filter or the merge form over the plan `qi` built for the input path, and it implements the
proximity semantics -/
theorem build_posStep2 (a : AxisInfo) (ha : a.axis = "child") (q : Ast) (hq : Frag2 true q)
    (f : PosForm) (hag : f.Agree F d.length) (fl : Flags) (st : BState) (o : BOut)
    (hb : build regexOk limit true false (.filter (.axis a q) f.ast) fl st = .ok o) :
    ∃ qi, ((q = .none ∧ qi = .context) ∨
        (q ≠ .none ∧ ∃ st' o1, build regexOk limit true false q {} st' = .ok o1 ∧ qi = o1.q)) ∧
      PathShape o.q ∧
      ∀ c : Spec.Ctx, validRef d c.node = true → PosStepOK F d cfg a f o.q qi q c := by
  obtain ⟨st1, io, co, hio, hco, hres⟩ := build_filter_inv' regexOk limit true false _ _ fl st o hb
  obtain ⟨qi, hshape, hfirst, hqi⟩ := build_child_step_inv regexOk limit true false a ha q _ rfl st1 io hio
  have hcq := build_form_inv regexOk limit true false f fl _ co hco
  simp only [BState.positionInput, hfirst] at hcq
  have hnf : ∀ n fi fp ar, co.q ≠ .func n (.filter fi fp) ar := by
    rw [hcq]
    apply form_plan_not_filterfunc
    intro x y e
    rcases hshape with h | h <;> rw [h] at e <;> cases e
  have hin : ∀ c : Spec.Ctx, validRef d c.node = true → PathOK (F := F) d cfg qi q c :=
    fun c hc => input_pathOK2 (F := F) wf cfg hns hinj regexOk limit q hq qi hqi c hc
  refine ⟨qi, hqi, ?_, fun c hc => ?_⟩
  · rcases hres hnf with h | ⟨_, parent, _, h⟩ <;> rw [h] <;> trivial
  · rcases hshape with hio' | hio'
    · have hfi : planTest d cfg io.q = nodeTestM d cfg a := by rw [hio']; rfl
      rcases hres hnf with h | ⟨_, parent, hpar, h⟩
      · rw [h, hcq]
        have := posStep_filter (F := F) wf cfg hns a ha f io.q hfi hag qi q c (hin c hc)
        rw [hio'] at this ⊢
        exact this
      · rw [hio'] at hpar
        cases hpar
        rw [h, hcq]
        have := posStep_merge (F := F) wf cfg hns a ha f io.q hfi hag qi q c (hin c hc)
        rw [hio'] at this ⊢
        exact this
    · have hfi : planTest d cfg io.q = nodeTestM d cfg a := by rw [hio']; rfl
      rcases hres hnf with h | ⟨_, parent, hpar, h⟩
      · rw [h, hcq]
        have := posStep_filter_cached (F := F) wf cfg hns a ha f io.q hfi hag qi q c (hin c hc)
        rw [hio'] at this ⊢
        exact this
      · rw [hio'] at hpar
        cases hpar
        rw [h, hcq]
        have := posStep_merge_cached (F := F) wf cfg hns a ha f io.q hfi hag qi q c (hin c hc)
        rw [hio'] at this ⊢
        exact this

/-- **`child::t[P][b1]…[bk]` through `build`, `Frag2`**: the later boolean filters are plain filters
on top -/
theorem build_posChain_shape2 (a : AxisInfo) (ha : a.axis = "child") (q : Ast) (hq : Frag2 true q)
    (f : PosForm) (hag : f.Agree F d.length) :
    ∀ (bs : List Ast), (∀ b ∈ bs, Frag2 false b) → ∀ (fl : Flags) (st : BState) (o : BOut),
      build regexOk limit true false (stackAst (.filter (.axis a q) f.ast) bs) fl st = .ok o →
      ∃ qi pl0 ps, o.q = stackPlan pl0 ps ∧ PathShape pl0 ∧ PredsOK F d cfg ps bs ∧
        ∀ c : Spec.Ctx, validRef d c.node = true → PosStepOK F d cfg a f pl0 qi q c := by
  intro bs
  induction bs with
  | nil =>
    intro _ fl st o hb
    obtain ⟨qi, _, hs, hok⟩ :=
      build_posStep2 (F := F) wf cfg hns hinj regexOk limit a ha q hq f hag fl st o hb
    exact ⟨qi, o.q, [], rfl, hs, trivial, hok⟩
  | cons b t ih =>
    intro hbs fl st o hb
    obtain ⟨st1, io, co, hio, hco, hres⟩ :=
      build_filter_inv regexOk limit true false _ b fl st o hb
    obtain ⟨qi, pl0, ps, hq0, hs, hps, hok⟩ :=
      ih (fun b' hb' => hbs b' (List.mem_cons_of_mem _ hb')) _ st1 io hio
    obtain ⟨hcop, hcor⟩ :=
      buildB2_of_frag2 (F := F) wf cfg hns hinj regexOk limit b (hbs b List.mem_cons_self)
        fl _ co hco
    obtain ⟨hshape, _⟩ := hres hcop.2
    refine ⟨qi, pl0, co.q :: ps, ?_, hs, ⟨fun x hx pos size => hcor ⟨x, pos, size⟩ hx, hps⟩, hok⟩
    rcases hshape with h | ⟨hax, _⟩
    · rw [h, hq0]; rfl
    · rw [stackAst_not_axis] at hax; cases hax

/-- **`child::t[P][b1]…[bk]` through `build`, `Frag2`, the statement** -/
theorem build_posChain2 (a : AxisInfo) (ha : a.axis = "child") (q : Ast) (hq : Frag2 true q)
    (f : PosForm) (hag : f.Agree F d.length) (bs : List Ast) (hbs : ∀ b ∈ bs, Frag2 false b)
    (fl : Flags) (st : BState) (o : BOut)
    (hb : build regexOk limit true false (stackAst (.filter (.axis a q) f.ast) bs) fl st = .ok o) :
    ∃ qi, ∀ c : Spec.Ctx, validRef d c.node = true → PosChainOK F d cfg a f bs o.q qi q c := by
  obtain ⟨qi, pl0, ps, hq0, hs, hps, hok⟩ :=
    build_posChain_shape2 (F := F) wf cfg hns hinj regexOk limit a ha q hq f hag bs hbs fl st o hb
  refine ⟨qi, fun c hc => ?_⟩
  rw [hq0]
  exact posChain_of_step (hok c hc) hs ps bs hps

/-! ## naive plans -/

/-- **C03, naive plan, `Frag2`** -/
theorem C03_naive2 (a : AxisInfo) (ha : a.axis = "child") (q : Ast) (hq : Frag2 true q)
    (f : PosForm) (hag : f.Agree F d.length) (c : Ref) (hc : validRef d c = true) :
    PosStepOK F d cfg a f
      (.filter (.child a (predPlan2 q)) (f.plan (.child a (predPlan2 q)))) (predPlan2 q) q ⟨c, 1, 1⟩ :=
  posStep_filter (F := F) wf cfg hns a ha f _ rfl hag (predPlan2 q) q ⟨c, 1, 1⟩
    ((frag_sem2 (F := F) wf cfg hns hinj true q hq ⟨c, 1, 1⟩ hc).1 rfl)

/-- **C03, naive plan, followed by boolean predicates, `Frag2`** -/
theorem C03_naive_chain2 (a : AxisInfo) (ha : a.axis = "child") (q : Ast) (hq : Frag2 true q)
    (f : PosForm) (hag : f.Agree F d.length) (bs : List Ast) (hbs : ∀ b ∈ bs, Frag2 false b)
    (c : Ref) (hc : validRef d c = true) :
    PosChainOK F d cfg a f bs
      (stackPlan (.filter (.child a (predPlan2 q)) (f.plan (.child a (predPlan2 q)))) (bs.map predPlan2))
      (predPlan2 q) q ⟨c, 1, 1⟩ :=
  posChain_of_step (C03_naive2 (F := F) wf cfg hns hinj a ha q hq f hag c hc) trivial _ bs
    (predsOK_naive2 wf cfg hns hinj bs hbs)

/-! ## through `build` -/

/-- **C03 for `build`, input path in `Frag2`**: the plan the builder produces for `q/child::a[f]` —
the plain filter or the merge rewrite — yields exactly the XPath 1.0 node set of the expression, and
these are the candidates `x` of an input node `p` whose 1-based position among the candidates of `p`
satisfies the predicate; neither side fails -/
theorem C03_main2 (a : AxisInfo) (ha : a.axis = "child") (q : Ast) (hq : Frag2 true q)
    (f : PosForm) (hag : f.Agree F d.length) (st : BState) (o : BOut)
    (hb : build regexOk limit true false (.filter (.axis a q) f.ast) {} st = .ok o)
    (c : Ref) (hc : validRef d c = true) :
    ∃ out ns g origins g0, sel (F := F) d cfg o.q c = .ok out ∧
      Spec.eval (F := F) d (.filter (.axis a q) f.ast) ⟨c, 1, 1⟩ = .ok (.val (.nodes ns) g) ∧
      Spec.eval (F := F) d q ⟨c, 1, 1⟩ = .ok (.val (.nodes origins) g0) ∧
      (∀ x, x ∈ refs out ↔ x ∈ ns) ∧
      (∀ x, x ∈ ns ↔ ∃ p ∈ origins, ∃ k, (childCands d cfg a p)[k]? = some x ∧
        PosForm.specKeep F f (k + 1) (childCands d cfg a p).length = true) := by
  obtain ⟨qi, _, _, hok⟩ :=
    build_posStep2 (F := F) wf cfg hns hinj regexOk limit a ha q hq f hag {} st o hb
  exact (hok ⟨c, 1, 1⟩ hc).mem_iff

/-- the sequence the built plan yields, input path in `Frag2` -/
theorem C03_main_seq2 (a : AxisInfo) (ha : a.axis = "child") (q : Ast) (hq : Frag2 true q)
    (f : PosForm) (hag : f.Agree F d.length) (st : BState) (o : BOut)
    (hb : build regexOk limit true false (.filter (.axis a q) f.ast) {} st = .ok o) :
    ∃ qi, ∀ c, validRef d c = true → PosStepOK F d cfg a f o.q qi q ⟨c, 1, 1⟩ := by
  obtain ⟨qi, _, _, hok⟩ :=
    build_posStep2 (F := F) wf cfg hns hinj regexOk limit a ha q hq f hag {} st o hb
  exact ⟨qi, fun c hc => hok ⟨c, 1, 1⟩ hc⟩

/-- **C03 on natural numbers, input path in `Frag2`** -/
theorem C03_main_nat2 (a : AxisInfo) (ha : a.axis = "child") (q : Ast) (hq : Frag2 true q)
    (f : PosForm) (n : Nat) (hnum : f.NumOK F n d.length) (st : BState) (o : BOut)
    (hb : build regexOk limit true false (.filter (.axis a q) f.ast) {} st = .ok o)
    (c : Ref) (hc : validRef d c = true) :
    ∃ out ns g origins g0, sel (F := F) d cfg o.q c = .ok out ∧
      Spec.eval (F := F) d (.filter (.axis a q) f.ast) ⟨c, 1, 1⟩ = .ok (.val (.nodes ns) g) ∧
      Spec.eval (F := F) d q ⟨c, 1, 1⟩ = .ok (.val (.nodes origins) g0) ∧
      (∀ x, x ∈ refs out ↔ x ∈ ns) ∧
      (∀ x, x ∈ ns ↔ ∃ p ∈ origins, ∃ k, (childCands d cfg a p)[k]? = some x ∧
        f.natKeep n (k + 1) (childCands d cfg a p).length = true) := by
  obtain ⟨out, ns, g, origins, g0, h1, h2, h3, h4, h5⟩ :=
    C03_main2 (F := F) wf cfg hns hinj regexOk limit a ha q hq f (agree_of_numOK f n _ hnum) st o hb c hc
  refine ⟨out, ns, g, origins, g0, h1, h2, h3, h4, fun x => ?_⟩
  rw [h5]
  constructor
  · rintro ⟨p, hp, k, hk, hs⟩
    have hlt := (List.getElem?_eq_some_iff.1 hk).1
    rw [specKeep_nat f n d.length hnum (k + 1) _ (by omega) (by omega)
      (childCands_length_le d cfg a p)] at hs
    exact ⟨p, hp, k, hk, hs⟩
  · rintro ⟨p, hp, k, hk, hs⟩
    have hlt := (List.getElem?_eq_some_iff.1 hk).1
    rw [← specKeep_nat f n d.length hnum (k + 1) _ (by omega) (by omega)
      (childCands_length_le d cfg a p)] at hs
    exact ⟨p, hp, k, hk, hs⟩

/-- C03 against the top-level oracle `evalTop`, input path in `Frag2` -/
theorem C03_evalTop2 (a : AxisInfo) (ha : a.axis = "child") (q : Ast) (hq : Frag2 true q)
    (f : PosForm) (hag : f.Agree F d.length) (st : BState) (o : BOut)
    (hb : build regexOk limit true false (.filter (.axis a q) f.ast) {} st = .ok o)
    (c : Ref) (hc : validRef d c = true) :
    ∃ out ns, sel (F := F) d cfg o.q c = .ok out ∧
      Spec.evalTop (F := F) d (.filter (.axis a q) f.ast) c = .ok (.nodes ns) ∧
      ∀ x, x ∈ refs out ↔ x ∈ ns := by
  obtain ⟨out, ns, g, _, _, h1, h2, _, h4, _⟩ :=
    C03_main2 (F := F) wf cfg hns hinj regexOk limit a ha q hq f hag st o hb c hc
  refine ⟨out, ns, h1, ?_, h4⟩
  simp [Spec.evalTop, h2, bind, Except.bind, pure, Except.pure, Spec.Res.value]

/-- **C03 for `build`, followed by boolean predicates, everything in `Frag2`**:
`q/child::a[f][b1]…[bk]` (`bs` lists the `bi` outermost first, each in `Frag2 false`) -/
theorem C03_chain2 (a : AxisInfo) (ha : a.axis = "child") (q : Ast) (hq : Frag2 true q)
    (f : PosForm) (hag : f.Agree F d.length) (bs : List Ast) (hbs : ∀ b ∈ bs, Frag2 false b)
    (st : BState) (o : BOut)
    (hb : build regexOk limit true false (stackAst (.filter (.axis a q) f.ast) bs) {} st = .ok o) :
    ∃ qi, ∀ c, validRef d c = true → PosChainOK F d cfg a f bs o.q qi q ⟨c, 1, 1⟩ := by
  obtain ⟨qi, hok⟩ :=
    build_posChain2 (F := F) wf cfg hns hinj regexOk limit a ha q hq f hag bs hbs {} st o hb
  exact ⟨qi, fun c hc => hok ⟨c, 1, 1⟩ hc⟩

/-! ## conditions that look at the node and at its position (`PosCond`), input path in `Frag2` -/

/-- `build_condStep` with the input path in `Frag2` (the condition stays in `PosCond`, whose boolean
parts are those of `PredSem.Frag`) -/
theorem build_condStep2 (a : AxisInfo) (ha : a.axis = "child") (q : Ast) (hq : Frag2 true q)
    (cond : Ast) (hc : PosCond cond) (fl : Flags) (st : BState) (o : BOut)
    (hb : build regexOk limit true false (.filter (.axis a q) cond) fl st = .ok o) :
    ∃ qi, ((q = .none ∧ qi = .context) ∨
        (q ≠ .none ∧ ∃ st' o1, build regexOk limit true false q {} st' = .ok o1 ∧ qi = o1.q)) ∧
      PathShape o.q ∧
      ∀ c : Spec.Ctx, validRef d c.node = true → CondStepOK F d cfg a cond o.q qi q c := by
  obtain ⟨st1, io, co, hio, hco, hres⟩ := build_filter_inv' regexOk limit true false _ _ fl st o hb
  obtain ⟨qi, hshape, hfirst, hqi⟩ := build_child_step_inv regexOk limit true false a ha q _ rfl st1 io hio
  have hstep : planTest d cfg io.q = nodeTestM d cfg a := by
    rcases hshape with h | h <;> rw [h] <;> rfl
  obtain ⟨hcond, hnf⟩ := build_posCond (F := F) wf cfg hns hinj regexOk limit a io.q hstep cond hc
    fl _ co hfirst hco
  have hin : ∀ c : Spec.Ctx, validRef d c.node = true → PathOK (F := F) d cfg qi q c :=
    fun c hc => input_pathOK2 (F := F) wf cfg hns hinj regexOk limit q hq qi hqi c hc
  refine ⟨qi, hqi, ?_, fun c hc => ?_⟩
  · rcases hres hnf with h | ⟨_, parent, _, h⟩ <;> rw [h] <;> trivial
  · rcases hshape with hio' | hio'
    · rcases hres hnf with h | ⟨_, parent, hpar, h⟩
      · rw [h, hio']
        exact condStep_filter (F := F) wf cfg hns a ha co.q cond hcond qi q c (hin c hc)
      · rw [hio'] at hpar
        cases hpar
        rw [h, hio']
        exact condStep_merge (F := F) wf cfg hns a ha co.q cond hcond qi q c (hin c hc)
    · rcases hres hnf with h | ⟨_, parent, hpar, h⟩
      · rw [h, hio']
        exact condStep_filter_cached (F := F) wf cfg hns a ha co.q cond hcond qi q c (hin c hc)
      · rw [hio'] at hpar
        cases hpar
        rw [h, hio']
        exact condStep_merge_cached (F := F) wf cfg hns a ha co.q cond hcond qi q c (hin c hc)

/-- **C03, positional tests after other location steps, input path in `Frag2`** -/
theorem C03_after_steps2 (a : AxisInfo) (ha : a.axis = "child") (q : Ast) (hq : Frag2 true q)
    (cond : Ast) (hcond : PosCond cond) (st : BState) (o : BOut)
    (hb : build regexOk limit true false (.filter (.axis a q) cond) {} st = .ok o)
    (c : Ref) (hc : validRef d c = true) :
    ∃ out ns g origins g0, sel (F := F) d cfg o.q c = .ok out ∧
      Spec.eval (F := F) d (.filter (.axis a q) cond) ⟨c, 1, 1⟩ = .ok (.val (.nodes ns) g) ∧
      Spec.eval (F := F) d q ⟨c, 1, 1⟩ = .ok (.val (.nodes origins) g0) ∧
      (∀ x, x ∈ refs out ↔ x ∈ ns) ∧
      (∀ x, x ∈ ns ↔ ∃ p ∈ origins, ∃ k, (childCands d cfg a p)[k]? = some x ∧
        condTruth F d cond x (k + 1) (childCands d cfg a p).length = true) := by
  obtain ⟨qi, _, _, hok⟩ :=
    build_condStep2 (F := F) wf cfg hns hinj regexOk limit a ha q hq cond hcond {} st o hb
  exact (hok ⟨c, 1, 1⟩ hc).mem_iff

end Sem

/-- the `Frag` theorems are instances of the `Frag2` ones -/
theorem C03_main_of_main2 {d : Doc} (wf : WF d) (cfg : ECfg) (hns : cfg.nsIface = true)
    (hinj : HashInj d cfg) (regexOk : RegexOk) (limit : Nat) (a : AxisInfo) (ha : a.axis = "child")
    (q : Ast) (hq : Frag true q) (f : PosForm) (hag : f.Agree F d.length) (st : BState) (o : BOut)
    (hb : build regexOk limit true false (.filter (.axis a q) f.ast) {} st = .ok o)
    (c : Ref) (hc : validRef d c = true) :
    ∃ out ns g origins g0, sel (F := F) d cfg o.q c = .ok out ∧
      Spec.eval (F := F) d (.filter (.axis a q) f.ast) ⟨c, 1, 1⟩ = .ok (.val (.nodes ns) g) ∧
      Spec.eval (F := F) d q ⟨c, 1, 1⟩ = .ok (.val (.nodes origins) g0) ∧
      (∀ x, x ∈ refs out ↔ x ∈ ns) ∧
      (∀ x, x ∈ ns ↔ ∃ p ∈ origins, ∃ k, (childCands d cfg a p)[k]? = some x ∧
        PosForm.specKeep F f (k + 1) (childCands d cfg a p).length = true) :=
  C03_main2 (F := F) wf cfg hns hinj regexOk limit a ha q (frag2_of_frag true q hq) f hag st o hb c hc

end XPathV.PosSem2

/-! ## Axiom audit -/
section AxiomAudit
open XPathV.PosSem2
end AxiomAudit
