import XPathV.Lemmas.KeyInj
import XPathV.Generated.ExtraFacts
import XPathV.Model.Api
import XPathV.Lemmas.Facts
/-!
# C11 — union yields the set union, each node exactly once
-/
namespace XPathV.Theorems.C11
open XPathV XPathV.Model XPathV.Facts

variable {F : Type} [NumAlg F]

/-- `dedupByKey` keeps only members of its input -/
theorem dedup_subset (key : Ref → String) (l : List Ref) (seen : List String) :
    ∀ x ∈ dedupByKey key l seen, x ∈ l := by
  induction l generalizing seen with
  | nil => intro x hx; simp [dedupByKey] at hx
  | cons r rs ih =>
    intro x hx
    simp only [dedupByKey] at hx
    split at hx
    · exact List.mem_cons_of_mem _ (ih _ x hx)
    · simp only [List.mem_cons] at hx
      rcases hx with rfl | hx
      · exact List.mem_cons_self
      · exact List.mem_cons_of_mem _ (ih _ x hx)

/-- every output key is new: outputs have pairwise distinct keys, none of them in `seen` -/
theorem dedup_keys_fresh (key : Ref → String) (l : List Ref) (seen : List String) :
    (∀ x ∈ dedupByKey key l seen, key x ∉ seen) ∧ ((dedupByKey key l seen).map key).Nodup := by
  induction l generalizing seen with
  | nil => simp [dedupByKey]
  | cons r rs ih =>
    simp only [dedupByKey]
    split
    · exact ih seen
    · rename_i hns
      have ⟨h1, h2⟩ := ih (key r :: seen)
      refine ⟨?_, ?_⟩
      · intro x hx
        simp only [List.mem_cons] at hx
        rcases hx with rfl | hx
        · simpa using hns
        · have := h1 x hx
          simp only [List.mem_cons, not_or] at this
          exact this.2
      · simp only [List.map_cons, List.nodup_cons]
        refine ⟨?_, h2⟩
        intro hmem
        obtain ⟨y, hy, hky⟩ := List.mem_map.mp hmem
        have := h1 y hy
        simp only [List.mem_cons, not_or] at this
        exact this.1 hky

/-- with an injective key nothing is lost: every input node is in the output -/
theorem dedup_complete (key : Ref → String) (l : List Ref) (seen : List String)
    (hinj : ∀ a ∈ l, ∀ b ∈ l, key a = key b → a = b) :
    ∀ x ∈ l, key x ∉ seen → x ∈ dedupByKey key l seen := by
  induction l generalizing seen with
  | nil => intro x hx; simp at hx
  | cons r rs ih =>
    intro x hx hns
    simp only [dedupByKey]
    have hinj' : ∀ a ∈ rs, ∀ b ∈ rs, key a = key b → a = b :=
      fun a ha b hb => hinj a (List.mem_cons_of_mem _ ha) b (List.mem_cons_of_mem _ hb)
    simp only [List.mem_cons] at hx
    split
    · rename_i hs
      rcases hx with rfl | hx
      · simp at hs; exact absurd hs hns
      · exact ih seen hinj' x hx hns
    · rcases hx with rfl | hx
      · exact List.mem_cons_self
      · by_cases hk : key x = key r
        · have := hinj x (List.mem_cons_of_mem _ hx) r List.mem_cons_self hk
          subst this; exact List.mem_cons_self
        · apply List.mem_cons_of_mem
          apply ih (key r :: seen) hinj' x hx
          simp only [List.mem_cons, not_or]
          exact ⟨hk, hns⟩

theorem nodup_of_map {α β : Type} (f : α → β) (l : List α) (h : (l.map f).Nodup) : l.Nodup := by
  induction l with
  | nil => simp
  | cons a t ih =>
    simp only [List.map_cons, List.nodup_cons] at h ⊢
    exact ⟨fun ha => h.1 (List.mem_map.mpr ⟨a, ha, rfl⟩), ih h.2⟩

/-- **union**: given pairwise different node keys on the nodes involved, `A | B` returns exactly
the nodes of A and B, each once -/
theorem C11_union (d : Doc) (cfg : ECfg) (l r : Plan) (c : Ref) (a b : List Item)
    (ha : sel (F := F) d cfg l c = .ok a) (hb : sel (F := F) d cfg r c = .ok b)
    (hinj : ∀ x ∈ (a ++ b).map (·.r), ∀ y ∈ (a ++ b).map (·.r), identityHash d cfg x = identityHash d cfg y → x = y) :
    ∃ out, sel (F := F) d cfg (.union l r) c = .ok out ∧
      (∀ x, x ∈ out.map (·.r) ↔ (x ∈ a.map (·.r) ∨ x ∈ b.map (·.r))) ∧ (out.map (·.r)).Nodup := by
  refine ⟨plain (dedupByKey (identityHash d cfg) ((a ++ b).map (·.r)) []), ?_, ?_, ?_⟩
  · simp [sel, ha, hb, bind, Except.bind]
  · intro x
    have hp : (plain (dedupByKey (identityHash d cfg) ((a ++ b).map (·.r)) [])).map (·.r) =
        dedupByKey (identityHash d cfg) ((a ++ b).map (·.r)) [] := by
      simp [plain, List.map_map, Function.comp_def]
    rw [hp]
    constructor
    · intro hx
      have := dedup_subset _ _ _ x hx
      simpa [List.map_append] using this
    · intro hx
      apply dedup_complete _ _ _ hinj
      · simpa [List.map_append] using hx
      · simp
  · have hp : (plain (dedupByKey (identityHash d cfg) ((a ++ b).map (·.r)) [])).map (·.r) =
        dedupByKey (identityHash d cfg) ((a ++ b).map (·.r)) [] := by
      simp [plain, List.map_map, Function.comp_def]
    rw [hp]
    have := (dedup_keys_fresh (identityHash d cfg) ((a ++ b).map (·.r)) []).2
    exact nodup_of_map _ _ this

/-- the sequence form `p/(a, b)` is parsed to the same operator node as `|` -/
theorem sequence_is_union (f : Nat) (cfg : PCfg) (inp opnd o2 : Ast) (st st1 st2 : PState)
    (hc : st.s.typ = .comma) (hn : st.next = .ok st1) (h2 : parseStep f cfg inp st1 = .ok (o2, st2)) :
    seqLoop (f+1) cfg inp opnd st = seqLoop f cfg inp (.oper "|" opnd o2) st2 := by
  simp [seqLoop, hc, hn, h2, bind, Except.bind]

/-! ## The identity key identifies nodes -/

/-- **key injectivity**: on a well-formed document whose elements have no two attributes with the same
(prefix, name) and no attribute with an empty name, two valid nodes with the same structured key
(name parts + sibling-index path, exactly what `getNodeKey` renders after the node-type tag, with length prefixes) are the
same node.  The pinned key (no length prefixes, no prefix part) failed this. -/
theorem key_injective {d : Doc} (wf : WF d) (hd : AttrNamesDistinct d) (hne : AttrNamesNonEmpty d)
    (r₁ r₂ : Ref) (h₁ : validRef d r₁ = true) (h₂ : validRef d r₂ = true)
    (h : keyStruct d r₁ = keyStruct d r₂) : r₁ = r₂ :=
  keyStruct_inj wf hd hne r₁ r₂ h₁ h₂ h

/-- the rendered index path of the model is a function of the structured key alone -/
theorem rendered_key_from_struct (d : Doc) (r : Ref) :
    indexChain d r = (indexPath d r).foldl (fun s n => s ++ "-" ++ toString n) "" :=
  indexChain_eq d r

end XPathV.Theorems.C11
