import XPathV.Lemmas.ParserFuel
import XPathV.Lemmas.ParserShape
import XPathV.Lemmas.C17Base
/-!
# C17 — the tokens consumed by the parser model; truncated / unbalanced texts are rejected

Everything here is for **every fuel** and **every configuration** (`PCfg`: any precedence chain, any
depth limit, any namespace map): "success ⇒ property", so a rejection includes the fuel error.

1. **Token streams.**  `Steps s u s'` (the scanner goes from `s` to `s'` over the non-EOF tokens `u`),
   `Toks s ts` (the whole stream ahead of `s`, ending in `.eof`; a function of `s`: `Toks.det`),
   `TextToks text ts` (through `Scan.init`), the fuelled `toksFuel`/`textToksFuel` (sound:
   `textToksFuel_sound`) and the link to `tokensFuel` of `Model/Scanner.lean` (`Toks.tokensFuel`).
2. **Grammar.**  `G : NT → List Tok → Prop`, a token-level grammar (kinds `expr rel step nt filt args
   steps`) over-approximating what the parser functions consume.
3. **Consumed-token theorem** (`all_con`, a mutual induction over the fifteen parser functions with
   `parseNodeTest` and `skipMinus` as lemmas; restated per function as `parseExpression_tokens`,
   `parseChain_tokens`, `tierLoop_tokens`, `parsePathExpr_tokens`, `parseFilterExpr_tokens`,
   `parsePredicate_tokens`, `parsePrimary_tokens`, `parseMethod_tokens`, `parseArgs_tokens`,
   `parseLocationPath_tokens`, `parseRelLoc_tokens`, `parseStep_tokens`, `stepPreds_tokens`,
   `parseSequence_tokens`, `seqLoop_tokens`): a successful call goes from `st` to `st'` over a token
   list `used` (`Steps st.s used st'.s`, hence `∀ rest, Toks st'.s rest → Toks st.s (used ++ rest)`,
   `ConK.toks`) that is a word of the grammar kind of the function; the loops (`tierLoop`,
   `stepPreds`, `seqLoop`) extend any word of the kind (`Ext`).  `parsePredicate` consumes
   `lbracket e rbracket` with `e` an expression word; `parseArgs` consumes `e (comma e)*`.
4. **Properties of the words** (by induction on `G`): (a) `G.ne_nil`; (b) `G.endK`/`G.last`/
   `G.last_slash`: the last token is an end token (`isEnd`: name star rparen rbracket dot dotdot string
   number) for every kind but `expr`, and for `expr` the exact invariant `ExprEnd`: an end token, or the
   word is `/` alone, or it ends in `- /`, or it ends in `op /` with `op` an operator token
   (`isOpTok`) and *the part before `op` is again an expression word*; (c) `G.bal`: balanced (`Bal`,
   which is exactly the counting definition: `Bal_iff`).
5. **Corollaries for `parse`:** `parse_ok_grammar`, `accepted_ends_in_end_token`,
   `reject_of_not_grammar`, `reject_trailing`(`'`), `reject_trailing_slash`(`_hard`, `_operand`, `_first`,
   `_after`), `reject_unbalanced`, `reject_bracket_erased`, `reject_bracket_inserted`,
   `reject_scan_error`, `reject_unclosed_quote`(`_first`), and at the level of the tier loop
   `tierLoop_operator_tokens`, `tierLoop_operator_then_eof`, `parseExpression_at_eof`.

**What the token level cannot see.**  Operator *words* (`and or div mod`) are `name` tokens, and `*` is
both a name test and an operator.  Hence
* a cut after an operator word (`a and`) has the stream of `a b`: it is not covered by
  `reject_trailing` (the tier-loop lemma `tierLoop_operator_then_eof` covers it at the parser level);
* "stream ends in `t /` with `t` an end token ⇒ rejected" is **false** for `t = name` and `t = star`:
  `a and /` and `a * /` are accepted (examples at the end).  True are `reject_trailing_slash` (`t` not an
  operator token, in particular `) ] . .. string number`) and the exact `reject_trailing_slash_operand`
  (`t ≠ -` and what precedes `t` is no expression word; e.g. `a/`, `a/b/`, `a[b/`).
  For the same reason `Theorems.C17.C17TruncationStatement` is false for the character `/`
  (`C17TruncationStatement_false`: `/a` cut after the slash is the accepted `/`).
-/
namespace XPathV.Lemmas.ParserTokens
open XPathV XPathV.Model
open XPathV.Lemmas.ParserShape (bind_ok)

/-! ## 1. Token streams -/

/-- `Steps s u s'`: starting from scanner state `s` (whose current token is `s.typ`), `u` is the
list of the non-EOF tokens passed over by `|u|` successful `nextItem` calls, ending in `s'`. -/
inductive Steps : Scan → List Tok → Scan → Prop
  | nil (s : Scan) : Steps s [] s
  | cons {s s1 s' : Scan} {u : List Tok} :
      s.typ ≠ .eof → s.nextItem = .ok s1 → Steps s1 u s' → Steps s (s.typ :: u) s'

/-- the whole token stream ahead of a scanner state, ending with `.eof` -/
inductive Toks : Scan → List Tok → Prop
  | eof {s : Scan} : s.typ = .eof → Toks s [.eof]
  | cons {s s1 : Scan} {rest : List Tok} :
      s.typ ≠ .eof → s.nextItem = .ok s1 → Toks s1 rest → Toks s (s.typ :: rest)

/-- fuelled computation of the stream (for the examples) -/
def toksFuel : Nat → Scan → Option (List Tok)
  | 0, _ => none
  | f+1, s =>
    if s.typ = .eof then some [.eof]
    else match s.nextItem with
      | .error _ => none
      | .ok s' => (toksFuel f s').map (s.typ :: ·)

def textToksFuel (f : Nat) (text : String) : Option (List Tok) :=
  match Scan.init text.toList with
  | .error _ => none
  | .ok s => toksFuel f s

example : textToksFuel 10 "a[" = some [.name, .lbracket, .eof] := by decide

theorem Steps.trans {s s1 s2 : Scan} {u v : List Tok} (h1 : Steps s u s1) (h2 : Steps s1 v s2) :
    Steps s (u ++ v) s2 := by
  induction h1 with
  | nil => simpa using h2
  | cons a b _ ih => exact Steps.cons a b (ih h2)

theorem Steps.one {s s1 : Scan} (h1 : s.typ ≠ .eof) (h2 : s.nextItem = .ok s1) : Steps s [s.typ] s1 :=
  Steps.cons h1 h2 (Steps.nil _)

theorem Steps.toks {s s' : Scan} {u r : List Tok} (h : Steps s u s') (hr : Toks s' r) : Toks s (u ++ r) := by
  induction h with
  | nil => simpa using hr
  | cons a b _ ih => exact Toks.cons a b (ih hr)

theorem Steps.toks_eof {s s' : Scan} {u : List Tok} (h : Steps s u s') (he : s'.typ = .eof) :
    Toks s (u ++ [.eof]) := h.toks (.eof he)

theorem Toks.steps {s : Scan} {ts : List Tok} (h : Toks s ts) :
    ∃ u s', ts = u ++ [.eof] ∧ Steps s u s' ∧ s'.typ = .eof := by
  induction h with
  | eof he => exact ⟨[], _, rfl, Steps.nil _, he⟩
  | cons a b _ ih =>
    obtain ⟨u, s', rfl, hs, he⟩ := ih
    exact ⟨_ :: u, s', rfl, Steps.cons a b hs, he⟩

/-- the stream is a function of the scanner state -/
theorem Toks.det {s : Scan} {a b : List Tok} (ha : Toks s a) (hb : Toks s b) : a = b := by
  induction ha generalizing b with
  | eof he =>
    cases hb with
    | eof _ => rfl
    | cons hne _ _ => exact absurd he hne
  | cons hne hn _ ih =>
    cases hb with
    | eof he => exact absurd he hne
    | cons _ hn' hb' =>
      rw [hn] at hn'
      cases hn'
      rw [ih hb']

/-- two walks from the same state, the second one reaching EOF: the first is a prefix of it -/
theorem Steps.prefix_of {s s1 s2 : Scan} {u w : List Tok} (h1 : Steps s u s1) (h2 : Steps s w s2)
    (he : s2.typ = .eof) : ∃ v, w = u ++ v ∧ Steps s1 v s2 := by
  induction h1 generalizing w with
  | nil => exact ⟨w, rfl, h2⟩
  | cons hne hn _ ih =>
    cases h2 with
    | nil => exact absurd he hne
    | cons _ hn' h2' =>
      rw [hn] at hn'
      cases hn'
      obtain ⟨v, rfl, hv⟩ := ih h2'
      exact ⟨v, rfl, hv⟩

theorem toksFuel_sound : ∀ (f : Nat) (s : Scan) (ts : List Tok), toksFuel f s = some ts → Toks s ts
  | 0, _, _, h => by simp [toksFuel] at h
  | f+1, s, ts, h => by
    unfold toksFuel at h
    split at h
    · rename_i he
      cases h
      exact .eof he
    · rename_i hne
      split at h
      · cases h
      · rename_i s' hn
        cases hq : toksFuel f s' with
        | none => simp [hq] at h
        | some r =>
          simp only [hq, Option.map_some, Option.some.injEq] at h
          subst h
          exact .cons hne hn (toksFuel_sound f s' r hq)

/-- the stream agrees with `tokensFuel` of `Model/Scanner.lean` -/
theorem Toks.tokensFuel {s : Scan} {ts : List Tok} (h : Toks s ts) :
    ∀ (f : Nat) (acc : List Tok), ts.length ≤ f → tokensFuel f s acc = .ok (acc.reverse ++ ts) := by
  induction h with
  | eof he =>
    intro f acc hf
    cases f with
    | zero => simp at hf
    | succ f => simp [Model.tokensFuel, he]
  | cons hne hn _ ih =>
    intro f acc hf
    cases f with
    | zero => simp at hf
    | succ f =>
      simp only [List.length_cons, Nat.add_le_add_iff_right] at hf
      simp only [Model.tokensFuel, beq_iff_eq, hne, ↓reduceIte, hn]
      rw [ih f _ hf]
      simp

/-- token stream of a text: `Scan.init` then `Toks` -/
def TextToks (text : List Char) (ts : List Tok) : Prop := ∃ s, Scan.init text = .ok s ∧ Toks s ts

theorem TextToks.det {text : List Char} {a b : List Tok} (ha : TextToks text a) (hb : TextToks text b) : a = b := by
  obtain ⟨s, hs, ha⟩ := ha
  obtain ⟨s', hs', hb⟩ := hb
  rw [hs] at hs'; cases hs'
  exact ha.det hb

theorem textToksFuel_sound {f : Nat} {text : String} {ts : List Tok} (h : textToksFuel f text = some ts) :
    TextToks text.toList ts := by
  unfold textToksFuel at h
  split at h
  · cases h
  · rename_i s hs
    exact ⟨s, hs, toksFuel_sound _ _ _ h⟩

/-! ## 2. The token-level grammar -/

inductive NT | expr | rel | step | nt | filt | args | steps
  deriving DecidableEq, Repr

/-- tokens that `tokMatches` can accept as a binary operator (`name` for the operator words), and
`minus` also as the unary operator -/
def isOpTok : Tok → Bool
  | .eq | .ne | .lt | .gt | .le | .ge | .plus | .minus | .star | .union | .name => true
  | _ => false

/-- a token that can end an expression (other than the root path `/`) -/
def isEnd : Tok → Bool
  | .name | .star | .rparen | .rbracket | .dot | .dotdot | .string | .number => true
  | _ => false

/-- Token-level grammar that over-approximates what the parser functions consume.
`expr`: parseExpression / parseChain / parsePathExpr / parseLocationPath; `rel`: parseRelLoc;
`step`: parseStep; `nt`: parseNodeTest; `filt`: parseFilterExpr / parsePrimary (at a primary
expression) / parseMethod; `args`: parseArgs; `steps`: the inside of parseSequence. -/
inductive G : NT → List Tok → Prop
  -- expressions
  | ofFilt {u} : G .filt u → G .expr u
  | filtSlash {u v} : G .filt u → G .rel v → G .expr (u ++ .slash :: v)
  | filtSS {u v} : G .filt u → G .rel v → G .expr (u ++ .slashslash :: v)
  | root : G .expr [.slash]
  | rootRel {v} : G .rel v → G .expr (.slash :: v)
  | ssRel {v} : G .rel v → G .expr (.slashslash :: v)
  | ofRel {v} : G .rel v → G .expr v
  | neg {u} : G .expr u → G .expr (.minus :: u)
  | binop {u v t} : G .expr u → isOpTok t = true → G .expr v → G .expr (u ++ t :: v)
  -- relative location paths
  | relStep {u} : G .step u → G .rel u
  | relSlash {u v} : G .step u → G .rel v → G .rel (u ++ .slash :: v)
  | relSS {u v} : G .step u → G .rel v → G .rel (u ++ .slashslash :: v)
  -- steps
  | dot : G .step [.dot]
  | dotdot : G .step [.dotdot]
  | stepNt {u} : G .nt u → G .step u
  | stepAt {u} : G .nt u → G .step (.at :: u)
  | stepAxe {u} : G .nt u → G .step (.axe :: u)
  | stepPred {u e} : G .step u → G .expr e → G .step (u ++ .lbracket :: e ++ [.rbracket])
  | seq {u} : G .steps u → G .step (.lparen :: u ++ [.rparen])
  | stepsOne {u} : G .step u → G .steps u
  | stepsCons {u v} : G .steps u → G .step v → G .steps (u ++ .comma :: v)
  -- node tests
  | ntName : G .nt [.name]
  | ntStar : G .nt [.star]
  | ntType : G .nt [.name, .lparen, .rparen]
  | ntPI : G .nt [.name, .lparen, .string, .rparen]
  -- filter / primary expressions
  | str : G .filt [.string]
  | num : G .filt [.number]
  | var : G .filt [.dollar, .name]
  | paren {e} : G .expr e → G .filt (.lparen :: e ++ [.rparen])
  | call0 : G .filt [.name, .lparen, .rparen]
  | call {a} : G .args a → G .filt (.name :: .lparen :: a ++ [.rparen])
  | filtPred {u e} : G .filt u → G .expr e → G .filt (u ++ .lbracket :: e ++ [.rbracket])
  -- argument lists
  | argsOne {e} : G .expr e → G .args e
  | argsCons {e a} : G .expr e → G .args a → G .args (e ++ .comma :: a)

/-! ## 3. Every successful parser call consumes a word of the grammar -/

/-- the call went from `st` to `st'` over a token list satisfying `P` -/
def ConK (P : List Tok → Prop) (st st' : PState) : Prop := ∃ u, Steps st.s u st'.s ∧ P u

abbrev Con (k : NT) (st st' : PState) : Prop := ConK (G k) st st'

theorem ConK.mk {P : List Tok → Prop} {st st' : PState} {u u' : List Tok}
    (h : Steps st.s u st'.s) (e : u = u') (p : P u') : ConK P st st' := ⟨u, h, e ▸ p⟩

theorem next_steps {st st' : PState} (h : st.next = .ok st') (hne : st.s.typ ≠ .eof) :
    Steps st.s [st.s.typ] st'.s := by
  unfold PState.next at h
  split at h
  · rename_i s' hn
    cases h
    exact Steps.one hne hn
  · cases h

theorem next_steps' {st st' : PState} {t : Tok} (h : st.next = .ok st') (ht : st.s.typ = t) (hne : t ≠ .eof) :
    Steps st.s [t] st'.s := by
  subst ht; exact next_steps h hne

theorem skipItem_steps {st st' : PState} {t : Tok} (h : st.skipItem t = .ok st') (hne : t ≠ .eof) :
    Steps st.s [t] st'.s := by
  unfold PState.skipItem at h
  split at h
  · rename_i ht
    exact next_steps' h (eq_of_beq ht) hne
  · cases h

theorem tokMatches_isOpTok (s : Scan) (op : String) (h : tokMatches s op = true) : isOpTok s.typ = true := by
  unfold tokMatches at h
  split at h
  all_goals first
    | (have := eq_of_beq h; rw [this]; rfl)
    | (simp only [Bool.and_eq_true, beq_iff_eq] at h; rw [h.1.1]; rfl)

theorem isOpTok_ne_eof {t : Tok} (h : isOpTok t = true) : t ≠ .eof := by
  intro e; subst e; cases h

theorem ok_inj {α : Type} {a b : α} (h : (pure a : Except PErr α) = .ok b) : a = b := by
  simp only [pure, Except.pure, Except.ok.injEq] at h; exact h

theorem parseNodeTest_con {cfg : PCfg} {inp : Ast} {axis : String} {mt : NType} {st st' : PState} {a : Ast}
    (h : parseNodeTest cfg inp axis mt st = .ok (a, st')) : Con .nt st st' := by
  unfold parseNodeTest at h
  split at h
  · rename_i hty
    have hne : st.s.typ ≠ .eof := by rw [hty]; decide
    split at h
    · obtain ⟨st1, h1, h⟩ := bind_ok h
      obtain ⟨st2, h2, h⟩ := bind_ok h
      have s1 := next_steps' h1 hty (by decide)
      have s2 := skipItem_steps h2 (t := .lparen) (by decide)
      try dsimp only at h
      split at h
      · split at h
        · rename_i hstr
          obtain ⟨st3, h3, h⟩ := bind_ok h
          obtain ⟨⟨nm, st3'⟩, h3', h⟩ := bind_ok h
          cases ok_inj h3'
          obtain ⟨st4, h4, h⟩ := bind_ok h
          cases ok_inj h
          have s3 := next_steps' h3 (eq_of_beq hstr) (by decide)
          have s4 := skipItem_steps h4 (t := .rparen) (by decide)
          exact ConK.mk (((s1.trans s2).trans s3).trans s4) rfl .ntPI
        · obtain ⟨_, h3, _⟩ := bind_ok h
          cases h3
      · obtain ⟨⟨nm, st3'⟩, h3', h⟩ := bind_ok h
        cases ok_inj h3'
        obtain ⟨st4, h4, h⟩ := bind_ok h
        cases ok_inj h
        have s4 := skipItem_steps h4 (t := .rparen) (by decide)
        exact ConK.mk ((s1.trans s2).trans s4) rfl .ntType
    · obtain ⟨st1, h1, h⟩ := bind_ok h
      have s1 := next_steps' h1 hty (by decide)
      have : st'.s = st1.s := by
        try dsimp only at h
        split at h
        · split at h
          · split at h
            · cases ok_inj h; rfl
            · cases h
          · cases ok_inj h; rfl
        · cases ok_inj h; rfl
      exact ConK.mk (this ▸ s1) rfl .ntName
  · rename_i hty
    obtain ⟨st1, h1, h⟩ := bind_ok h
    cases ok_inj h
    exact ConK.mk (next_steps' h1 hty (by decide)) rfl .ntStar
  · cases h

/-- what a loop appends after an already parsed `pre` of kind `k` -/
abbrev Ext (k : NT) (u : List Tok) : Prop := ∀ pre, G k pre → G k (pre ++ u)

theorem skipMinus_con : ∀ (f : Nat) {st st' : PState} {m m' : Bool}, skipMinus f st m = .ok (m', st') →
    ConK (fun u => ∀ v, G .expr v → G .expr (u ++ v)) st st'
  | 0, _, _, _, _, h => by simp [skipMinus] at h
  | f+1, st, st', m, m', h => by
    unfold skipMinus at h
    split at h
    · rename_i hty
      obtain ⟨st1, h1, h⟩ := bind_ok h
      have s1 := next_steps' h1 (eq_of_beq hty) (by decide)
      obtain ⟨u, su, gu⟩ := skipMinus_con f h
      exact ⟨_, s1.trans su, fun v gv => G.neg (gu v gv)⟩
    · cases ok_inj h
      exact ⟨[], Steps.nil _, fun v gv => gv⟩

section
variable (cfg : PCfg)

def TExpr (f : Nat) : Prop := ∀ st a st', parseExpression f cfg st = .ok (a, st') → Con .expr st st'
def TChain (f : Nat) : Prop := ∀ stages st a st', parseChain f cfg stages st = .ok (a, st') → Con .expr st st'
def TTier (f : Nat) : Prop := ∀ ops rest opnd st a st', tierLoop f cfg ops rest opnd st = .ok (a, st') →
  ConK (Ext .expr) st st'
def TPath (f : Nat) : Prop := ∀ st a st', parsePathExpr f cfg st = .ok (a, st') → Con .expr st st'
def TFilter (f : Nat) : Prop := ∀ st a st', isPrimaryExpr st.s = true → parseFilterExpr f cfg st = .ok (a, st') →
  Con .filt st st'
def TPred (f : Nat) : Prop := ∀ st a st', parsePredicate f cfg st = .ok (a, st') →
  ConK (fun u => ∃ e, u = .lbracket :: e ++ [.rbracket] ∧ G .expr e) st st'
def TPrimary (f : Nat) : Prop := ∀ st a st', isPrimaryExpr st.s = true → parsePrimary f cfg st = .ok (a, st') →
  Con .filt st st'
def TMethod (f : Nat) : Prop := ∀ st a st', parseMethod f cfg st = .ok (a, st') → Con .filt st st'
def TArgs (f : Nat) : Prop := ∀ st a st', parseArgs f cfg st = .ok (a, st') → Con .args st st'
def TLoc (f : Nat) : Prop := ∀ st a st', parseLocationPath f cfg st = .ok (a, st') → Con .expr st st'
def TRel (f : Nat) : Prop := ∀ inp st a st', parseRelLoc f cfg inp st = .ok (a, st') → Con .rel st st'
def TStep (f : Nat) : Prop := ∀ inp st a st', parseStep f cfg inp st = .ok (a, st') → Con .step st st'
def TPreds (f : Nat) : Prop := ∀ opnd st a st', stepPreds f cfg opnd st = .ok (a, st') →
  ConK (fun u => ∀ k, (k = .step ∨ k = .filt) → Ext k u) st st'
def TSeq (f : Nat) : Prop := ∀ inp st a st', parseSequence f cfg inp st = .ok (a, st') → Con .step st st'
def TSeqLoop (f : Nat) : Prop := ∀ inp opnd st a st', seqLoop f cfg inp opnd st = .ok (a, st') →
  ConK (Ext .steps) st st'

variable {cfg}

theorem t_expr {f : Nat} (ih : TChain cfg f) : TExpr cfg (f+1) := by
  intro st a st' h
  simp only [parseExpression] at h
  split at h
  · cases h
  · obtain ⟨⟨a1, st1⟩, h1, h⟩ := bind_ok h
    cases ok_inj h
    have := ih _ _ _ _ h1
    exact this

theorem t_chain {f : Nat} (ihChain : TChain cfg f) (ihTier : TTier cfg f) (ihPath : TPath cfg f) :
    TChain cfg (f+1) := by
  intro stages st a st' h
  cases stages with
  | nil =>
    simp only [parseChain] at h
    exact ihPath _ _ _ h
  | cons s rest =>
    cases s with
    | tier ops =>
      simp only [parseChain] at h
      obtain ⟨⟨opnd, st1⟩, h1, h⟩ := bind_ok h
      obtain ⟨u, su, gu⟩ := ihChain _ _ _ _ h1
      obtain ⟨v, sv, gv⟩ := ihTier _ _ _ _ _ _ h
      exact ⟨u ++ v, su.trans sv, gv _ gu⟩
    | unary =>
      simp only [parseChain] at h
      obtain ⟨⟨minus, st1⟩, h1, h⟩ := bind_ok h
      obtain ⟨⟨opnd, st2⟩, h2, h⟩ := bind_ok h
      cases ok_inj h
      obtain ⟨u, su, gu⟩ := skipMinus_con _ h1
      obtain ⟨v, sv, gv⟩ := ihChain _ _ _ _ h2
      exact ⟨u ++ v, su.trans sv, gu _ gv⟩

theorem t_tier {f : Nat} (ihChain : TChain cfg f) (ihTier : TTier cfg f) : TTier cfg (f+1) := by
  intro ops rest opnd st a st' h
  simp only [tierLoop] at h
  split at h
  · cases ok_inj h
    exact ⟨[], Steps.nil _, fun pre hp => by simpa using hp⟩
  · rename_i op hfind
    have hm : tokMatches st.s op = true := List.find?_some hfind
    obtain ⟨st1, h1, h⟩ := bind_ok h
    obtain ⟨⟨r, st2⟩, h2, h⟩ := bind_ok h
    have s1 := next_steps h1 (ParserFuel.tokMatches_ne_eof _ _ hm)
    obtain ⟨v, sv, gv⟩ := ihChain _ _ _ _ h2
    obtain ⟨w, sw, gw⟩ := ihTier _ _ _ _ _ _ h
    refine ⟨_, (s1.trans sv).trans sw, fun pre hp => ?_⟩
    have := gw _ (G.binop hp (tokMatches_isOpTok _ _ hm) gv)
    simpa using this

theorem t_path {f : Nat} (ihFilter : TFilter cfg f) (ihRel : TRel cfg f) (ihLoc : TLoc cfg f) :
    TPath cfg (f+1) := by
  intro st a st' h
  simp only [parsePathExpr] at h
  split at h
  · rename_i hp
    obtain ⟨⟨opnd, st1⟩, h1, h⟩ := bind_ok h
    obtain ⟨u, su, gu⟩ := ihFilter _ _ _ hp h1
    try dsimp only at h
    split at h
    · rename_i hty
      obtain ⟨st2, h2, h⟩ := bind_ok h
      have s2 := next_steps' h2 hty (by decide)
      obtain ⟨v, sv, gv⟩ := ihRel _ _ _ _ h
      exact ConK.mk ((su.trans s2).trans sv) (by simp) (G.filtSlash gu gv)
    · rename_i hty
      obtain ⟨st2, h2, h⟩ := bind_ok h
      have s2 := next_steps' h2 hty (by decide)
      obtain ⟨v, sv, gv⟩ := ihRel _ _ _ _ h
      exact ConK.mk ((su.trans s2).trans sv) (by simp) (G.filtSS gu gv)
    · cases ok_inj h
      exact ⟨u, su, .ofFilt gu⟩
  · exact ihLoc _ _ _ h

theorem t_filter {f : Nat} (ihPrimary : TPrimary cfg f) (ihPreds : TPreds cfg f) : TFilter cfg (f+1) := by
  intro st a st' hp h
  simp only [parseFilterExpr] at h
  obtain ⟨⟨opnd, st1⟩, h1, h⟩ := bind_ok h
  obtain ⟨u, su, gu⟩ := ihPrimary _ _ _ hp h1
  obtain ⟨v, sv, gv⟩ := ihPreds _ _ _ _ h
  exact ⟨u ++ v, su.trans sv, gv .filt (.inr rfl) _ gu⟩

theorem t_pred {f : Nat} (ihExpr : TExpr cfg f) : TPred cfg (f+1) := by
  intro st a st' h
  simp only [parsePredicate] at h
  obtain ⟨st1, h1, h⟩ := bind_ok h
  obtain ⟨⟨opnd, st2⟩, h2, h⟩ := bind_ok h
  obtain ⟨st3, h3, h⟩ := bind_ok h
  cases ok_inj h
  have s1 := skipItem_steps h1 (t := .lbracket) (by decide)
  have s3 := skipItem_steps h3 (t := .rbracket) (by decide)
  obtain ⟨e, se, ge⟩ := ihExpr _ _ _ h2
  exact ConK.mk ((s1.trans se).trans s3) (by simp) ⟨e, rfl, ge⟩

theorem t_primary {f : Nat} (ihExpr : TExpr cfg f) (ihMethod : TMethod cfg f) : TPrimary cfg (f+1) := by
  intro st a st' hp h
  simp only [parsePrimary] at h
  split at h
  · rename_i hty
    obtain ⟨st1, h1, h⟩ := bind_ok h
    cases ok_inj h
    exact ⟨_, next_steps' h1 hty (by decide), .str⟩
  · rename_i hty
    obtain ⟨st1, h1, h⟩ := bind_ok h
    cases ok_inj h
    exact ⟨_, next_steps' h1 hty (by decide), .num⟩
  · rename_i hty
    obtain ⟨st1, h1, h⟩ := bind_ok h
    split at h
    · rename_i hn
      obtain ⟨st2, h2, h⟩ := bind_ok h
      cases ok_inj h
      exact ⟨_, (next_steps' h1 hty (by decide)).trans (next_steps' h2 (eq_of_beq hn) (by decide)), .var⟩
    · cases h
  · rename_i hty
    obtain ⟨st1, h1, h⟩ := bind_ok h
    obtain ⟨⟨opnd, st2⟩, h2, h⟩ := bind_ok h
    try dsimp only at h
    obtain ⟨st3, h3, h⟩ := bind_ok h
    cases ok_inj h
    have s1 := next_steps' h1 hty (by decide)
    have s3 := skipItem_steps h3 (t := .rparen) (by decide)
    obtain ⟨e, se, ge⟩ := ihExpr _ _ _ h2
    exact ConK.mk ((s1.trans se).trans s3) (by simp) (G.paren ge)
  · rename_i hty
    split at h
    · exact ihMethod _ _ _ h
    · rename_i hc
      exfalso; apply hc
      simpa [isPrimaryExpr, hty] using hp
  · exfalso
    simp only [isPrimaryExpr, Bool.or_eq_true, Bool.and_eq_true, beq_iff_eq] at hp
    rcases hp with (((hp | hp) | hp) | hp) | hp
    all_goals first | exact absurd hp ‹_› | exact absurd hp.1.1 ‹_›

theorem t_method {f : Nat} (ihArgs : TArgs cfg f) : TMethod cfg (f+1) := by
  intro st a st' h
  simp only [parseMethod] at h
  obtain ⟨st1, h1, h⟩ := bind_ok h
  obtain ⟨st2, h2, h⟩ := bind_ok h
  have s1 := skipItem_steps h1 (t := .name) (by decide)
  have s2 := skipItem_steps h2 (t := .lparen) (by decide)
  split at h
  · obtain ⟨⟨args, st3⟩, h3, h⟩ := bind_ok h
    obtain ⟨st4, h4, h⟩ := bind_ok h
    cases ok_inj h
    have s4 := skipItem_steps h4 (t := .rparen) (by decide)
    obtain ⟨w, sw, gw⟩ := ihArgs _ _ _ h3
    exact ConK.mk (((s1.trans s2).trans sw).trans s4) (by simp) (G.call gw)
  · obtain ⟨⟨args, st3⟩, h3, h⟩ := bind_ok h
    obtain ⟨st4, h4, h⟩ := bind_ok h
    cases ok_inj h
    cases ok_inj h3
    have s4 := skipItem_steps h4 (t := .rparen) (by decide)
    exact ConK.mk ((s1.trans s2).trans s4) rfl G.call0

theorem t_args {f : Nat} (ihExpr : TExpr cfg f) (ihArgs : TArgs cfg f) : TArgs cfg (f+1) := by
  intro st a st' h
  simp only [parseArgs] at h
  obtain ⟨⟨a1, st1⟩, h1, h⟩ := bind_ok h
  obtain ⟨e, se, ge⟩ := ihExpr _ _ _ h1
  dsimp only at h
  split at h
  · cases ok_inj h
    exact ⟨e, se, .argsOne ge⟩
  · obtain ⟨st2, h2, h⟩ := bind_ok h
    obtain ⟨⟨rest, st3⟩, h3, h⟩ := bind_ok h
    cases ok_inj h
    have s2 := skipItem_steps h2 (t := .comma) (by decide)
    obtain ⟨w, sw, gw⟩ := ihArgs _ _ _ h3
    exact ConK.mk ((se.trans s2).trans sw) (by simp) (G.argsCons ge gw)

theorem t_loc {f : Nat} (ihRel : TRel cfg f) : TLoc cfg (f+1) := by
  intro st a st' h
  simp only [parseLocationPath] at h
  split at h
  · rename_i hty
    obtain ⟨st1, h1, h⟩ := bind_ok h
    have s1 := next_steps' h1 hty (by decide)
    split at h
    · obtain ⟨v, sv, gv⟩ := ihRel _ _ _ _ h
      exact ConK.mk (s1.trans sv) rfl (G.rootRel gv)
    · cases ok_inj h
      exact ⟨_, s1, .root⟩
  · rename_i hty
    obtain ⟨st1, h1, h⟩ := bind_ok h
    have s1 := next_steps' h1 hty (by decide)
    obtain ⟨v, sv, gv⟩ := ihRel _ _ _ _ h
    exact ConK.mk (s1.trans sv) rfl (G.ssRel gv)
  · obtain ⟨v, sv, gv⟩ := ihRel _ _ _ _ h
    exact ⟨v, sv, .ofRel gv⟩

theorem t_rel {f : Nat} (ihRel : TRel cfg f) (ihStep : TStep cfg f) : TRel cfg (f+1) := by
  intro inp st a st' h
  simp only [parseRelLoc] at h
  obtain ⟨⟨opnd, st1⟩, h1, h⟩ := bind_ok h
  obtain ⟨u, su, gu⟩ := ihStep _ _ _ _ h1
  dsimp only at h
  split at h
  · rename_i hty
    obtain ⟨st2, h2, h⟩ := bind_ok h
    have s2 := next_steps' h2 hty (by decide)
    obtain ⟨v, sv, gv⟩ := ihRel _ _ _ _ h
    exact ConK.mk ((su.trans s2).trans sv) (by simp) (G.relSS gu gv)
  · rename_i hty
    obtain ⟨st2, h2, h⟩ := bind_ok h
    have s2 := next_steps' h2 hty (by decide)
    obtain ⟨v, sv, gv⟩ := ihRel _ _ _ _ h
    exact ConK.mk ((su.trans s2).trans sv) (by simp) (G.relSlash gu gv)
  · cases ok_inj h
    exact ⟨u, su, .relStep gu⟩

theorem t_step {f : Nat} (ihSeq : TSeq cfg f) (ihPreds : TPreds cfg f) : TStep cfg (f+1) := by
  intro inp st a st' h
  simp only [parseStep] at h
  split at h
  · rename_i hty
    have hd : st.s.typ = .dot ∨ st.s.typ = .dotdot := by simpa using hty
    have g0 : G .step [st.s.typ] := by
      rcases hd with e | e <;> rw [e]
      · exact .dot
      · exact .dotdot
    have hne : st.s.typ ≠ .eof := by
      rcases hd with e | e <;> rw [e] <;> decide
    try dsimp only at h
    obtain ⟨st1, h1, h⟩ := bind_ok h
    have s1 := next_steps h1 hne
    split at h
    · cases ok_inj h
      exact ⟨_, s1, g0⟩
    · obtain ⟨v, sv, gv⟩ := ihPreds _ _ _ _ h
      exact ⟨_, s1.trans sv, gv .step (.inl rfl) _ g0⟩
  · split at h
    · exact ihSeq _ _ _ _ h
    · rename_i hty
      obtain ⟨st1, h1, h⟩ := bind_ok h
      obtain ⟨⟨opnd, st2⟩, h2, h⟩ := bind_ok h
      have s1 := next_steps' h1 hty (by decide)
      obtain ⟨u, su, gu⟩ := parseNodeTest_con h2
      obtain ⟨v, sv, gv⟩ := ihPreds _ _ _ _ h
      exact ⟨_, (s1.trans su).trans sv, gv .step (.inl rfl) _ (G.stepAt gu)⟩
    · rename_i hty
      try dsimp only at h
      obtain ⟨st1, h1, h⟩ := bind_ok h
      obtain ⟨⟨opnd, st2⟩, h2, h⟩ := bind_ok h
      have s1 := next_steps' h1 hty (by decide)
      obtain ⟨u, su, gu⟩ := parseNodeTest_con h2
      obtain ⟨v, sv, gv⟩ := ihPreds _ _ _ _ h
      exact ⟨_, (s1.trans su).trans sv, gv .step (.inl rfl) _ (G.stepAxe gu)⟩
    · obtain ⟨⟨opnd, st2⟩, h2, h⟩ := bind_ok h
      obtain ⟨u, su, gu⟩ := parseNodeTest_con h2
      obtain ⟨v, sv, gv⟩ := ihPreds _ _ _ _ h
      exact ⟨_, su.trans sv, gv .step (.inl rfl) _ (G.stepNt gu)⟩

theorem t_preds {f : Nat} (ihPred : TPred cfg f) (ihPreds : TPreds cfg f) : TPreds cfg (f+1) := by
  intro opnd st a st' h
  simp only [stepPreds] at h
  split at h
  · obtain ⟨⟨c, st1⟩, h1, h⟩ := bind_ok h
    obtain ⟨u, su, e, rfl, ge⟩ := ihPred _ _ _ h1
    obtain ⟨v, sv, gv⟩ := ihPreds _ _ _ _ h
    refine ⟨_, su.trans sv, fun k hk pre gp => ?_⟩
    rcases hk with rfl | rfl
    · have := gv .step (.inl rfl) _ (G.stepPred gp ge)
      simpa using this
    · have := gv .filt (.inr rfl) _ (G.filtPred gp ge)
      simpa using this
  · cases ok_inj h
    exact ⟨[], Steps.nil _, fun k _ pre gp => by simpa using gp⟩

theorem t_seq {f : Nat} (ihStep : TStep cfg f) (ihSeqLoop : TSeqLoop cfg f) : TSeq cfg (f+1) := by
  intro inp st a st' h
  simp only [parseSequence] at h
  split at h
  · cases h
  · try dsimp only at h
    obtain ⟨st1, h1, h⟩ := bind_ok h
    obtain ⟨⟨opnd, st2⟩, h2, h⟩ := bind_ok h
    obtain ⟨⟨opnd2, st3⟩, h3, h⟩ := bind_ok h
    obtain ⟨st4, h4, h⟩ := bind_ok h
    cases ok_inj h
    have s1 : Steps st.s [.lparen] st1.s := skipItem_steps (st := { s := st.s, d := st.d + 1 }) h1 (t := .lparen) (by decide)
    have s4 := skipItem_steps h4 (t := .rparen) (by decide)
    obtain ⟨u, su, gu⟩ := ihStep _ _ _ _ h2
    obtain ⟨w, sw, gw⟩ := ihSeqLoop _ _ _ _ _ h3
    exact ConK.mk (((s1.trans su).trans sw).trans s4) (by simp) (G.seq (gw _ (.stepsOne gu)))

theorem t_seqLoop {f : Nat} (ihStep : TStep cfg f) (ihSeqLoop : TSeqLoop cfg f) : TSeqLoop cfg (f+1) := by
  intro inp opnd st a st' h
  simp only [seqLoop] at h
  split at h
  · rename_i hty
    obtain ⟨st1, h1, h⟩ := bind_ok h
    obtain ⟨⟨o2, st2⟩, h2, h⟩ := bind_ok h
    have s1 := next_steps' h1 (eq_of_beq hty) (by decide)
    obtain ⟨u, su, gu⟩ := ihStep _ _ _ _ h2
    obtain ⟨w, sw, gw⟩ := ihSeqLoop _ _ _ _ _ h
    refine ⟨_, (s1.trans su).trans sw, fun pre gp => ?_⟩
    have := gw _ (G.stepsCons gp gu)
    simpa using this
  · cases ok_inj h
    exact ⟨[], Steps.nil _, fun pre gp => by simpa using gp⟩

/-- all fifteen statements at once -/
def TAll (cfg : PCfg) (f : Nat) : Prop :=
  TExpr cfg f ∧ TChain cfg f ∧ TTier cfg f ∧ TPath cfg f ∧ TFilter cfg f ∧ TPred cfg f ∧ TPrimary cfg f ∧
  TMethod cfg f ∧ TArgs cfg f ∧ TLoc cfg f ∧ TRel cfg f ∧ TStep cfg f ∧ TPreds cfg f ∧ TSeq cfg f ∧ TSeqLoop cfg f

theorem all_con : ∀ f, TAll cfg f
  | 0 => by
    refine ⟨?_, ?_, ?_, ?_, ?_, ?_, ?_, ?_, ?_, ?_, ?_, ?_, ?_, ?_, ?_⟩ <;> intro <;> intros <;>
      simp_all [parseExpression, parseChain, tierLoop, parsePathExpr, parseFilterExpr, parsePredicate,
        parsePrimary, parseMethod, parseArgs, parseLocationPath, parseRelLoc, parseStep, stepPreds,
        parseSequence, seqLoop]
  | f+1 => by
    obtain ⟨hExpr, hChain, hTier, hPath, hFilter, hPred, hPrimary, hMethod, hArgs, hLoc, hRel, hStep, hPreds,
      hSeq, hSeqLoop⟩ := all_con f
    exact ⟨t_expr hChain, t_chain hChain hTier hPath, t_tier hChain hTier,
      t_path hFilter hRel hLoc, t_filter hPrimary hPreds, t_pred hExpr,
      t_primary hExpr hMethod, t_method hArgs, t_args hExpr hArgs, t_loc hRel,
      t_rel hRel hStep, t_step hSeq hPreds, t_preds hPred hPreds, t_seq hStep hSeqLoop,
      t_seqLoop hStep hSeqLoop⟩

end

/-! ### the consumed-token theorem, one statement per parser function -/

section
variable {cfg : PCfg} {f : Nat} {st st' : PState} {a : Ast}

theorem parseExpression_tokens (h : parseExpression f cfg st = .ok (a, st')) : Con .expr st st' :=
  (all_con f).1 _ _ _ h
theorem parseChain_tokens {stages : List Stage} (h : parseChain f cfg stages st = .ok (a, st')) : Con .expr st st' :=
  (all_con f).2.1 _ _ _ _ h
theorem tierLoop_tokens {ops : List String} {rest : List Stage} {opnd : Ast}
    (h : tierLoop f cfg ops rest opnd st = .ok (a, st')) : ConK (Ext .expr) st st' :=
  (all_con f).2.2.1 _ _ _ _ _ _ h
theorem parsePathExpr_tokens (h : parsePathExpr f cfg st = .ok (a, st')) : Con .expr st st' :=
  (all_con f).2.2.2.1 _ _ _ h
theorem parseFilterExpr_tokens (hp : isPrimaryExpr st.s = true) (h : parseFilterExpr f cfg st = .ok (a, st')) :
    Con .filt st st' :=
  (all_con f).2.2.2.2.1 _ _ _ hp h
theorem parsePredicate_tokens (h : parsePredicate f cfg st = .ok (a, st')) :
    ConK (fun u => ∃ e, u = .lbracket :: e ++ [.rbracket] ∧ G .expr e) st st' :=
  (all_con f).2.2.2.2.2.1 _ _ _ h
theorem parsePrimary_tokens (hp : isPrimaryExpr st.s = true) (h : parsePrimary f cfg st = .ok (a, st')) :
    Con .filt st st' :=
  (all_con f).2.2.2.2.2.2.1 _ _ _ hp h
theorem parseMethod_tokens (h : parseMethod f cfg st = .ok (a, st')) : Con .filt st st' :=
  (all_con f).2.2.2.2.2.2.2.1 _ _ _ h
theorem parseArgs_tokens (h : parseArgs f cfg st = .ok (a, st')) : Con .args st st' :=
  (all_con f).2.2.2.2.2.2.2.2.1 _ _ _ h
theorem parseLocationPath_tokens (h : parseLocationPath f cfg st = .ok (a, st')) : Con .expr st st' :=
  (all_con f).2.2.2.2.2.2.2.2.2.1 _ _ _ h
theorem parseRelLoc_tokens {inp : Ast} (h : parseRelLoc f cfg inp st = .ok (a, st')) : Con .rel st st' :=
  (all_con f).2.2.2.2.2.2.2.2.2.2.1 _ _ _ _ h
theorem parseStep_tokens {inp : Ast} (h : parseStep f cfg inp st = .ok (a, st')) : Con .step st st' :=
  (all_con f).2.2.2.2.2.2.2.2.2.2.2.1 _ _ _ _ h
theorem stepPreds_tokens {opnd : Ast} (h : stepPreds f cfg opnd st = .ok (a, st')) :
    ConK (fun u => ∀ k, (k = .step ∨ k = .filt) → Ext k u) st st' :=
  (all_con f).2.2.2.2.2.2.2.2.2.2.2.2.1 _ _ _ _ h
theorem parseSequence_tokens {inp : Ast} (h : parseSequence f cfg inp st = .ok (a, st')) : Con .step st st' :=
  (all_con f).2.2.2.2.2.2.2.2.2.2.2.2.2.1 _ _ _ _ h
theorem seqLoop_tokens {inp opnd : Ast} (h : seqLoop f cfg inp opnd st = .ok (a, st')) :
    ConK (Ext .steps) st st' :=
  (all_con f).2.2.2.2.2.2.2.2.2.2.2.2.2.2 _ _ _ _ _ h

/-- the form of the task statement: what is ahead of `st` is `used` followed by what is ahead of `st'` -/
theorem ConK.toks {P : List Tok → Prop} (h : ConK P st st') :
    ∃ used, P used ∧ ∀ rest, Toks st'.s rest → Toks st.s (used ++ rest) := by
  obtain ⟨u, su, pu⟩ := h
  exact ⟨u, pu, fun _ hr => su.toks hr⟩

end

/-! ## 4. Properties of the words of the grammar -/

/-! ### (a) non-empty -/

theorem G.ne_nil {k : NT} {u : List Tok} (h : G k u) : u ≠ [] := by
  induction h <;> simp_all

/-! ### (b) the last token -/

/-- the last token is an end token -/
def StrictEnd (u : List Tok) : Prop := ∃ ys t, u = ys ++ [t] ∧ isEnd t = true

theorem StrictEnd.single {t : Tok} (h : isEnd t = true) : StrictEnd [t] := ⟨[], t, rfl, h⟩
theorem StrictEnd.snoc {u : List Tok} {t : Tok} (h : isEnd t = true) : StrictEnd (u ++ [t]) := ⟨u, t, rfl, h⟩
theorem StrictEnd.append_cons {u v : List Tok} {t : Tok} (h : StrictEnd v) : StrictEnd (u ++ t :: v) := by
  obtain ⟨ys, x, rfl, hx⟩ := h
  exact ⟨u ++ t :: ys, x, by simp, hx⟩
theorem StrictEnd.cons {v : List Tok} {t : Tok} (h : StrictEnd v) : StrictEnd (t :: v) :=
  StrictEnd.append_cons (u := []) h

/-- **The exact invariant for the last token of an expression.**  Either it is an end token, or the
expression is the root path `/` alone, or it ends with `- /` (unary minus applied to the root
path), or it ends with `op /` where `op` is a binary-operator token and what precedes `op` is
itself a complete expression. -/
def ExprEnd (u : List Tok) : Prop :=
  StrictEnd u ∨ u = [.slash] ∨ (∃ pre, u = pre ++ [.minus, .slash]) ∨
  (∃ pre t, u = pre ++ [t, .slash] ∧ isOpTok t = true ∧ G .expr pre)

def EndK : NT → List Tok → Prop
  | .expr, u => ExprEnd u
  | .args, _ => True
  | _, u => StrictEnd u

theorem G.endK {k : NT} {u : List Tok} (h : G k u) : EndK k u := by
  induction h with
  | ofFilt _ ih => exact .inl ih
  | filtSlash _ _ _ ihv => exact .inl (StrictEnd.append_cons ihv)
  | filtSS _ _ _ ihv => exact .inl (StrictEnd.append_cons ihv)
  | root => exact .inr (.inl rfl)
  | rootRel _ ih => exact .inl ih.cons
  | ssRel _ ih => exact .inl ih.cons
  | ofRel _ ih => exact .inl ih
  | neg gu ih =>
    rcases ih with ih | rfl | ⟨pre, rfl⟩ | ⟨pre, t, rfl, ht, gp⟩
    · exact .inl ih.cons
    · exact .inr (.inr (.inl ⟨[], rfl⟩))
    · exact .inr (.inr (.inl ⟨.minus :: pre, rfl⟩))
    · exact .inr (.inr (.inr ⟨.minus :: pre, t, rfl, ht, .neg gp⟩))
  | @binop u v t gu ht gv _ ihv =>
    rcases ihv with ih | rfl | ⟨pre, rfl⟩ | ⟨pre, t', rfl, ht', gp⟩
    · exact .inl (StrictEnd.append_cons ih)
    · exact .inr (.inr (.inr ⟨u, t, rfl, ht, gu⟩))
    · exact .inr (.inr (.inl ⟨u ++ t :: pre, by simp⟩))
    · exact .inr (.inr (.inr ⟨u ++ t :: pre, t', by simp, ht', .binop gu ht gp⟩))
  | relStep _ ih => exact ih
  | relSlash _ _ _ ihv => exact StrictEnd.append_cons ihv
  | relSS _ _ _ ihv => exact StrictEnd.append_cons ihv
  | dot => exact .single rfl
  | dotdot => exact .single rfl
  | stepNt _ ih => exact ih
  | stepAt _ ih => exact ih.cons
  | stepAxe _ ih => exact ih.cons
  | @stepPred u e _ _ _ _ => exact ⟨u ++ .lbracket :: e, .rbracket, by simp, rfl⟩
  | @seq u _ _ => exact ⟨.lparen :: u, .rparen, rfl, rfl⟩
  | stepsOne _ ih => exact ih
  | stepsCons _ _ _ ihv => exact StrictEnd.append_cons ihv
  | ntName => exact .single rfl
  | ntStar => exact .single rfl
  | ntType => exact ⟨[.name, .lparen], .rparen, rfl, rfl⟩
  | ntPI => exact ⟨[.name, .lparen, .string], .rparen, rfl, rfl⟩
  | str => exact .single rfl
  | num => exact .single rfl
  | var => exact ⟨[.dollar], .name, rfl, rfl⟩
  | @paren e _ _ => exact ⟨.lparen :: e, .rparen, rfl, rfl⟩
  | call0 => exact ⟨[.name, .lparen], .rparen, rfl, rfl⟩
  | @call a _ _ => exact ⟨.name :: .lparen :: a, .rparen, rfl, rfl⟩
  | @filtPred u e _ _ _ _ => exact ⟨u ++ .lbracket :: e, .rbracket, by simp, rfl⟩
  | argsOne _ _ => trivial
  | argsCons _ _ _ _ => trivial

theorem G.exprEnd {u : List Tok} (h : G .expr u) : ExprEnd u := h.endK

/-- two-element suffixes are unique -/
theorem snoc_inj {α : Type} {ys zs : List α} {a b : α} (h : ys ++ [a] = zs ++ [b]) : ys = zs ∧ a = b := by
  have := List.append_inj' h rfl
  exact ⟨this.1, by simpa using this.2⟩

theorem snoc2_inj {α : Type} {ys zs : List α} {a b c d : α} (h : ys ++ [a, b] = zs ++ [c, d]) :
    ys = zs ∧ a = c ∧ b = d := by
  have := List.append_inj' h rfl
  refine ⟨this.1, ?_⟩
  simpa using this.2

/-- (b) the last token of an expression is an end token or `/` -/
theorem G.last {pre : List Tok} {t : Tok} (h : G .expr (pre ++ [t])) : isEnd t = true ∨ t = .slash := by
  rcases h.exprEnd with ⟨ys, x, e, hx⟩ | e | ⟨p, e⟩ | ⟨p, x, e, _, _⟩
  · obtain ⟨_, rfl⟩ := snoc_inj e; exact .inl hx
  · obtain ⟨_, rfl⟩ := snoc_inj (zs := []) e; exact .inr rfl
  · have e' : pre ++ [t] = (p ++ [.minus]) ++ [.slash] := by simpa using e
    obtain ⟨_, rfl⟩ := snoc_inj e'; exact .inr rfl
  · have e' : pre ++ [t] = (p ++ [x]) ++ [.slash] := by simpa using e
    obtain ⟨_, rfl⟩ := snoc_inj e'; exact .inr rfl

/-- (b, the slash case) an expression ending in `t /`: `t` is the unary minus, or a binary operator
token preceded by a complete expression.  So `a/` is no expression, while `/`, `- /`, `a | /`,
`a * /`, `a and /` are. -/
theorem G.last_slash {pre : List Tok} {t : Tok} (h : G .expr (pre ++ [t, .slash])) :
    t = .minus ∨ (isOpTok t = true ∧ G .expr pre) := by
  rcases h.exprEnd with ⟨ys, x, e, hx⟩ | e | ⟨p, e⟩ | ⟨p, x, e, hx, gp⟩
  · have e' : (pre ++ [t]) ++ [.slash] = ys ++ [x] := by simpa using e
    obtain ⟨_, rfl⟩ := snoc_inj e'; cases hx
  · have := congrArg List.length e; simp at this
  · obtain ⟨_, rfl, _⟩ := snoc2_inj e; exact .inl rfl
  · obtain ⟨rfl, rfl, _⟩ := snoc2_inj e; exact .inr ⟨hx, gp⟩

/-- the weaker, purely local form of (b): last token an end token, or `/` that is first or follows
an operator token -/
def EndOK (u : List Tok) : Prop :=
  ∃ pre t, u = pre ++ [t] ∧
    (isEnd t = true ∨ (t = .slash ∧ (pre = [] ∨ ∃ pre' t', pre = pre' ++ [t'] ∧ isOpTok t' = true)))

theorem ExprEnd.endOK {u : List Tok} (h : ExprEnd u) : EndOK u := by
  rcases h with ⟨ys, x, rfl, hx⟩ | rfl | ⟨p, rfl⟩ | ⟨p, x, rfl, hx, _⟩
  · exact ⟨ys, x, rfl, .inl hx⟩
  · exact ⟨[], .slash, rfl, .inr ⟨rfl, .inl rfl⟩⟩
  · exact ⟨p ++ [.minus], .slash, by simp, .inr ⟨rfl, .inr ⟨p, .minus, rfl, rfl⟩⟩⟩
  · exact ⟨p ++ [x], .slash, by simp, .inr ⟨rfl, .inr ⟨p, x, rfl, hx⟩⟩⟩

/-! ### (c) balanced brackets -/

/-- `bal1 o c n u`: reading `u` with `n` brackets `o` already open, no closing bracket `c` comes
without an open one and all are closed at the end -/
def bal1 (o c : Tok) : Nat → List Tok → Bool
  | n, [] => n == 0
  | n, t :: r =>
    if t = o then bal1 o c (n+1) r
    else if t = c then (match n with | 0 => false | m+1 => bal1 o c m r)
    else bal1 o c n r

/-- parentheses and square brackets are (each) balanced -/
def Bal (u : List Tok) : Prop :=
  bal1 .lparen .rparen 0 u = true ∧ bal1 .lbracket .rbracket 0 u = true

instance (u : List Tok) : Decidable (Bal u) := by unfold Bal; infer_instance

theorem bal1_append {o c : Tok} : ∀ (u : List Tok) (n0 n : Nat) (v : List Tok),
    bal1 o c n0 u = true → bal1 o c (n0 + n) (u ++ v) = bal1 o c n v
  | [], n0, n, v, h => by
    simp only [bal1, beq_iff_eq] at h
    subst h; simp
  | t :: u, n0, n, v, h => by
    simp only [bal1, List.cons_append] at h ⊢
    split
    · rename_i ht
      simp only [ht, ↓reduceIte] at h
      have e : n0 + n + 1 = n0 + 1 + n := by omega
      rw [e]; exact bal1_append u _ _ _ h
    · rename_i ht
      simp only [ht, ↓reduceIte] at h
      split
      · rename_i hc
        simp only [hc, ↓reduceIte] at h
        cases n0 with
        | zero => simp at h
        | succ m =>
          have e : m + 1 + n = (m + n) + 1 := by omega
          rw [e]
          exact bal1_append u _ _ _ h
      · rename_i hc
        simp only [hc, ↓reduceIte] at h
        exact bal1_append u _ _ _ h

theorem Bal.append {u v : List Tok} (hu : Bal u) (hv : Bal v) : Bal (u ++ v) := by
  constructor
  · have := bal1_append u 0 0 v hu.1
    simpa [hv.1] using this
  · have := bal1_append u 0 0 v hu.2
    simpa [hv.2] using this

def isBr : Tok → Bool
  | .lparen | .rparen | .lbracket | .rbracket => true
  | _ => false

theorem Bal.cons {t : Tok} {v : List Tok} (ht : isBr t = false) (hv : Bal v) : Bal (t :: v) := by
  have ⟨h1, h2⟩ := hv
  cases t <;> first | (exact absurd ht (by decide)) | (simp [Bal, bal1, h1, h2])

theorem Bal.append_cons {t : Tok} {u v : List Tok} (hu : Bal u) (ht : isBr t = false) (hv : Bal v) :
    Bal (u ++ t :: v) := hu.append (hv.cons ht)

theorem Bal.parens {e : List Tok} (he : Bal e) : Bal (.lparen :: e ++ [.rparen]) := by
  show Bal (.lparen :: (e ++ [.rparen]))
  constructor
  · have := bal1_append e 0 1 [.rparen] he.1
    simp only [Nat.zero_add] at this
    have e1 : bal1 .lparen .rparen 0 (.lparen :: (e ++ [.rparen])) = bal1 .lparen .rparen 1 (e ++ [.rparen]) := by
      simp [bal1]
    rw [e1, this]; decide
  · have := bal1_append e 0 0 [.rparen] he.2
    simp only [Nat.zero_add] at this
    have e1 : bal1 .lbracket .rbracket 0 (.lparen :: (e ++ [.rparen])) = bal1 .lbracket .rbracket 0 (e ++ [.rparen]) := by
      simp [bal1]
    rw [e1, this]; decide

theorem Bal.brackets {e : List Tok} (he : Bal e) : Bal (.lbracket :: e ++ [.rbracket]) := by
  show Bal (.lbracket :: (e ++ [.rbracket]))
  constructor
  · have := bal1_append e 0 0 [.rbracket] he.1
    simp only [Nat.zero_add] at this
    have e1 : bal1 .lparen .rparen 0 (.lbracket :: (e ++ [.rbracket])) = bal1 .lparen .rparen 0 (e ++ [.rbracket]) := by
      simp [bal1]
    rw [e1, this]; decide
  · have := bal1_append e 0 1 [.rbracket] he.2
    simp only [Nat.zero_add] at this
    have e1 : bal1 .lbracket .rbracket 0 (.lbracket :: (e ++ [.rbracket])) = bal1 .lbracket .rbracket 1 (e ++ [.rbracket]) := by
      simp [bal1]
    rw [e1, this]; decide

theorem isOpTok_not_br {t : Tok} (h : isOpTok t = true) : isBr t = false := by
  cases t <;> first | rfl | cases h

theorem G.bal {k : NT} {u : List Tok} (h : G k u) : Bal u := by
  induction h with
  | ofFilt _ ih => exact ih
  | filtSlash _ _ ihu ihv => exact ihu.append_cons rfl ihv
  | filtSS _ _ ihu ihv => exact ihu.append_cons rfl ihv
  | root => decide
  | rootRel _ ih => exact ih.cons rfl
  | ssRel _ ih => exact ih.cons rfl
  | ofRel _ ih => exact ih
  | neg _ ih => exact ih.cons rfl
  | binop _ ht _ ihu ihv => exact ihu.append_cons (isOpTok_not_br ht) ihv
  | relStep _ ih => exact ih
  | relSlash _ _ ihu ihv => exact ihu.append_cons rfl ihv
  | relSS _ _ ihu ihv => exact ihu.append_cons rfl ihv
  | dot => decide
  | dotdot => decide
  | stepNt _ ih => exact ih
  | stepAt _ ih => exact ih.cons rfl
  | stepAxe _ ih => exact ih.cons rfl
  | stepPred _ _ ihu ihe => simpa using ihu.append ihe.brackets
  | seq _ ih => exact ih.parens
  | stepsOne _ ih => exact ih
  | stepsCons _ _ ihu ihv => exact ihu.append_cons rfl ihv
  | ntName => decide
  | ntStar => decide
  | ntType => decide
  | ntPI => decide
  | str => decide
  | num => decide
  | var => decide
  | paren _ ih => exact ih.parens
  | call0 => decide
  | call _ ih => exact (ih.parens).cons (t := .name) rfl
  | filtPred _ _ ihu ihe => simpa using ihu.append ihe.brackets
  | argsOne _ ih => exact ih
  | argsCons _ _ ihe iha => exact ihe.append_cons rfl iha

/-! #### what `Bal` means: every prefix has at least as many opening as closing brackets of each
kind, and the totals are equal -/

def PrefixOK (o c : Tok) (n : Nat) (u : List Tok) : Prop :=
  (∀ k, (u.take k).count c ≤ n + (u.take k).count o) ∧ n + u.count o = u.count c

theorem bal1_iff {o c : Tok} (hoc : o ≠ c) : ∀ (u : List Tok) (n : Nat), bal1 o c n u = true ↔ PrefixOK o c n u
  | [], n => by simp [bal1, PrefixOK]
  | t :: u, n => by
    unfold bal1
    by_cases ho : t = o
    · subst ho
      have hne : (t == c) = false := by simpa using hoc
      simp only [↓reduceIte]
      rw [bal1_iff hoc u (n+1)]
      unfold PrefixOK
      constructor
      · rintro ⟨h1, h2⟩
        refine ⟨fun k => ?_, ?_⟩
        · cases k with
          | zero => simp
          | succ k =>
            have := h1 k
            simp only [List.take_succ_cons, List.count_cons, hne, beq_self_eq_true]
            simp only [Bool.false_eq_true, ↓reduceIte]
            omega
        · simp only [List.count_cons, hne, beq_self_eq_true]
          simp only [Bool.false_eq_true, ↓reduceIte]
          omega
      · rintro ⟨h1, h2⟩
        refine ⟨fun k => ?_, ?_⟩
        · have := h1 (k+1)
          simp only [List.take_succ_cons, List.count_cons, hne, beq_self_eq_true] at this
          simp only [Bool.false_eq_true, ↓reduceIte] at this
          omega
        · simp only [List.count_cons, hne, beq_self_eq_true] at h2
          simp only [Bool.false_eq_true, ↓reduceIte] at h2
          omega
    · have hno : (t == o) = false := by simpa using ho
      simp only [ho, ↓reduceIte]
      by_cases hc : t = c
      · subst hc
        simp only [↓reduceIte]
        cases n with
        | zero =>
          simp only [Bool.false_eq_true, false_iff]
          rintro ⟨h1, _⟩
          have := h1 1
          simp [List.count_cons, hno] at this
        | succ m =>
          simp only
          rw [bal1_iff hoc u m]
          unfold PrefixOK
          constructor
          · rintro ⟨h1, h2⟩
            refine ⟨fun k => ?_, ?_⟩
            · cases k with
              | zero => simp
              | succ k =>
                have := h1 k
                simp only [List.take_succ_cons, List.count_cons, hno, beq_self_eq_true]
                simp only [Bool.false_eq_true, ↓reduceIte]
                omega
            · simp only [List.count_cons, hno, beq_self_eq_true]
              simp only [Bool.false_eq_true, ↓reduceIte]
              omega
          · rintro ⟨h1, h2⟩
            refine ⟨fun k => ?_, ?_⟩
            · have := h1 (k+1)
              simp only [List.take_succ_cons, List.count_cons, hno, beq_self_eq_true] at this
              simp only [Bool.false_eq_true, ↓reduceIte] at this
              omega
            · simp only [List.count_cons, hno, beq_self_eq_true] at h2
              simp only [Bool.false_eq_true, ↓reduceIte] at h2
              omega
      · have hnc : (t == c) = false := by simpa using hc
        simp only [hc, ↓reduceIte]
        rw [bal1_iff hoc u n]
        unfold PrefixOK
        constructor
        · rintro ⟨h1, h2⟩
          refine ⟨fun k => ?_, ?_⟩
          · cases k with
            | zero => simp
            | succ k =>
              have := h1 k
              simp only [List.take_succ_cons, List.count_cons, hno, hnc]
              simp only [Bool.false_eq_true, ↓reduceIte]
              omega
          · simp only [List.count_cons, hno, hnc]
            simp only [Bool.false_eq_true, ↓reduceIte]
            omega
        · rintro ⟨h1, h2⟩
          refine ⟨fun k => ?_, ?_⟩
          · have := h1 (k+1)
            simp only [List.take_succ_cons, List.count_cons, hno, hnc] at this
            simp only [Bool.false_eq_true, ↓reduceIte] at this
            omega
          · simp only [List.count_cons, hno, hnc] at h2
            simp only [Bool.false_eq_true, ↓reduceIte] at h2
            omega

/-- `Bal` is exactly the counting definition of the task: in every prefix the opening brackets of
each kind are at least as many as the closing ones, and the totals are equal -/
theorem Bal_iff (u : List Tok) : Bal u ↔
    (∀ k, (u.take k).count .rparen ≤ (u.take k).count .lparen) ∧ u.count .lparen = u.count .rparen ∧
    (∀ k, (u.take k).count .rbracket ≤ (u.take k).count .lbracket) ∧ u.count .lbracket = u.count .rbracket := by
  unfold Bal
  rw [bal1_iff (by decide), bal1_iff (by decide)]
  simp only [PrefixOK, Nat.zero_add]
  constructor
  · rintro ⟨⟨a, b⟩, c, d⟩; exact ⟨a, b, c, d⟩
  · rintro ⟨a, b, c, d⟩; exact ⟨⟨a, b⟩, c, d⟩

/-- erasing one bracket token from a balanced list unbalances it -/
theorem Bal.erase_bracket {p q : List Tok} {t : Tok} (h : Bal (p ++ t :: q)) (ht : isBr t = true) :
    ¬ Bal (p ++ q) := by
  intro h'
  obtain ⟨_, a, _, b⟩ := (Bal_iff _).1 h
  obtain ⟨_, a', _, b'⟩ := (Bal_iff _).1 h'
  simp only [List.count_append, List.count_cons] at a b a' b'
  cases t <;> first | (exact absurd ht (by decide)) | (simp at a b; omega)

/-- inserting one bracket token into a balanced list unbalances it -/
theorem Bal.insert_bracket {p q : List Tok} {t : Tok} (h : Bal (p ++ q)) (ht : isBr t = true) :
    ¬ Bal (p ++ t :: q) := fun h' => h'.erase_bracket ht h

/-- (a)+(b)+(c) for every expression word -/
theorem G.expr_facts {u : List Tok} (h : G .expr u) : u ≠ [] ∧ EndOK u ∧ Bal u :=
  ⟨h.ne_nil, h.exprEnd.endOK, h.bal⟩

/-! ## 5. Corollaries for `parse` -/

section
variable {fuel : Nat} {cfg : PCfg} {text : List Char}

/-- an accepted text: its token stream is a word of the expression grammar followed by `.eof` -/
theorem parse_ok_grammar {a : Ast} (h : parse fuel cfg text = .ok a) :
    ∃ used, TextToks text (used ++ [.eof]) ∧ G .expr used := by
  unfold parse at h
  split at h
  · cases h
  · rename_i s hs
    obtain ⟨⟨a1, st⟩, h1, h⟩ := bind_ok h
    dsimp only at h
    split at h
    · rename_i he
      obtain ⟨u, su, gu⟩ := parseExpression_tokens h1
      exact ⟨u, ⟨s, hs, su.toks_eof (eq_of_beq he)⟩, gu⟩
    · cases h

/-- **accepted_ends_in_end_token** -/
theorem accepted_ends_in_end_token {a : Ast} (h : parse fuel cfg text = .ok a) :
    ∃ used, TextToks text (used ++ [.eof]) ∧ used ≠ [] ∧ EndOK used ∧ Bal used := by
  obtain ⟨u, hu, gu⟩ := parse_ok_grammar h
  exact ⟨u, hu, gu.expr_facts⟩

end

/-- the general rejection principle: a stream that is not a word of the expression grammar is
rejected, whatever the fuel and the configuration -/
theorem reject_of_not_grammar (fuel : Nat) (cfg : PCfg) {text : List Char} {ts : List Tok}
    (ht : TextToks text (ts ++ [.eof])) (hn : ¬ G .expr ts) : ∃ e, parse fuel cfg text = .error e := by
  cases hp : parse fuel cfg text with
  | error e => exact ⟨e, rfl⟩
  | ok a =>
    obtain ⟨u, hu, gu⟩ := parse_ok_grammar hp
    have := List.append_cancel_right (ht.det hu)
    subst this
    exact absurd gu hn

/-- **reject_trailing**, general form: the last token before the end is neither an end token nor `/` -/
theorem reject_trailing' (fuel : Nat) (cfg : PCfg) {text : List Char} {pre : List Tok} {t : Tok}
    (ht : TextToks text (pre ++ [t, .eof])) (h1 : isEnd t = false) (h2 : t ≠ .slash) :
    ∃ e, parse fuel cfg text = .error e := by
  refine reject_of_not_grammar fuel cfg (ts := pre ++ [t]) (by simpa using ht) ?_
  intro g
  rcases g.last with h | h
  · rw [h1] at h; cases h
  · exact h2 h

/-- **reject_trailing**: a text cut after an opening bracket or parenthesis, a comma, `@`, `$`, an
operator symbol, `//`, `!` or an axis specifier is rejected -/
theorem reject_trailing (fuel : Nat) (cfg : PCfg) {text : List Char} {pre : List Tok} {t : Tok}
    (ht : TextToks text (pre ++ [t, .eof]))
    (hmem : t ∈ [Tok.lbracket, .lparen, .comma, .at, .dollar, .plus, .minus, .eq, .ne, .lt, .le, .gt, .ge,
      .union, .slashslash, .bang, .axe]) :
    ∃ e, parse fuel cfg text = .error e := by
  have : ∀ t ∈ [Tok.lbracket, .lparen, .comma, .at, .dollar, .plus, .minus, .eq, .ne, .lt, .le, .gt, .ge,
      .union, .slashslash, .bang, .axe], isEnd t = false ∧ t ≠ .slash := by decide
  exact reject_trailing' fuel cfg ht (this t hmem).1 (this t hmem).2

/-- **reject_trailing_slash**: the stream ends with `t /` where `t` is not an operator token — in
particular `)`, `]`, `.`, `..`, a string or a number ("cut after a slash inside a path").
For `t = name` or `t = star` see `reject_trailing_slash_operand`: `a and /` and `a * /` are accepted. -/
theorem reject_trailing_slash (fuel : Nat) (cfg : PCfg) {text : List Char} {pre : List Tok} {t : Tok}
    (ht : TextToks text (pre ++ [t, .slash, .eof])) (h1 : isOpTok t = false) :
    ∃ e, parse fuel cfg text = .error e := by
  refine reject_of_not_grammar fuel cfg (ts := pre ++ [t, .slash]) (by simpa using ht) ?_
  intro g
  rcases g.last_slash with h | ⟨h, _⟩
  · subst h; cases h1
  · rw [h1] at h; cases h

theorem reject_trailing_slash_hard (fuel : Nat) (cfg : PCfg) {text : List Char} {pre : List Tok} {t : Tok}
    (ht : TextToks text (pre ++ [t, .slash, .eof]))
    (hmem : t ∈ [Tok.rparen, .rbracket, .dot, .dotdot, .string, .number]) :
    ∃ e, parse fuel cfg text = .error e := by
  have : ∀ t ∈ [Tok.rparen, .rbracket, .dot, .dotdot, .string, .number], isOpTok t = false := by decide
  exact reject_trailing_slash fuel cfg ht (this t hmem)

/-- the exact form: the stream ends with `t /`, `t` is not `-`, and what precedes `t` is not a
complete expression (so `t`, even if it is `name` or `*`, cannot be a binary operator) -/
theorem reject_trailing_slash_operand (fuel : Nat) (cfg : PCfg) {text : List Char} {pre : List Tok} {t : Tok}
    (ht : TextToks text (pre ++ [t, .slash, .eof])) (h1 : t ≠ .minus) (h2 : ¬ G .expr pre) :
    ∃ e, parse fuel cfg text = .error e := by
  refine reject_of_not_grammar fuel cfg (ts := pre ++ [t, .slash]) (by simpa using ht) ?_
  intro g
  rcases g.last_slash with h | ⟨_, h⟩
  · exact h1 h
  · exact h2 h

/-- sufficient conditions for `¬ G .expr pre`, as used with `reject_trailing_slash_operand` -/
theorem not_expr_nil : ¬ G .expr [] := fun g => g.ne_nil rfl

theorem not_expr_of_last {pre : List Tok} {t : Tok} (h1 : isEnd t = false) (h2 : t ≠ .slash) :
    ¬ G .expr (pre ++ [t]) := by
  intro g
  rcases g.last with h | h
  · rw [h1] at h; cases h
  · exact h2 h

theorem not_expr_of_unbalanced {u : List Tok} (h : ¬ Bal u) : ¬ G .expr u := fun g => h g.bal

/-- `a/` at the very beginning, or after something that cannot end an operand -/
theorem reject_trailing_slash_first (fuel : Nat) (cfg : PCfg) {text : List Char} {t : Tok}
    (ht : TextToks text [t, .slash, .eof]) (h1 : t ≠ .minus) : ∃ e, parse fuel cfg text = .error e :=
  reject_trailing_slash_operand fuel cfg (pre := []) ht h1 not_expr_nil

theorem reject_trailing_slash_after (fuel : Nat) (cfg : PCfg) {text : List Char} {pre : List Tok} {t0 t : Tok}
    (ht : TextToks text (pre ++ [t0, t, .slash, .eof])) (h1 : t ≠ .minus) (h0 : isEnd t0 = false) (h0' : t0 ≠ .slash) :
    ∃ e, parse fuel cfg text = .error e :=
  reject_trailing_slash_operand fuel cfg (pre := pre ++ [t0]) (by simpa using ht) h1 (not_expr_of_last h0 h0')

/-- **reject_unbalanced** -/
theorem reject_unbalanced (fuel : Nat) (cfg : PCfg) {text : List Char} {ts : List Tok}
    (ht : TextToks text (ts ++ [.eof])) (h : ¬ Bal ts) : ∃ e, parse fuel cfg text = .error e :=
  reject_of_not_grammar fuel cfg ht (not_expr_of_unbalanced h)

/-- if a text is accepted and another text has the same stream except that one bracket token
(`(`, `)`, `[` or `]`) is missing, the other text is rejected -/
theorem reject_bracket_erased {fuel : Nat} {cfg : PCfg} {text : List Char} {a : Ast} {p q : List Tok} {t : Tok}
    (hok : parse fuel cfg text = .ok a) (hts : TextToks text (p ++ t :: q ++ [.eof])) (ht : isBr t = true)
    (fuel' : Nat) (cfg' : PCfg) {text' : List Char} (hts' : TextToks text' (p ++ q ++ [.eof])) :
    ∃ e, parse fuel' cfg' text' = .error e := by
  obtain ⟨u, hu, gu⟩ := parse_ok_grammar hok
  have := List.append_cancel_right (hts.det hu)
  subst this
  exact reject_unbalanced fuel' cfg' hts' (gu.bal.erase_bracket ht)

/-- … and the same with one extra bracket token -/
theorem reject_bracket_inserted {fuel : Nat} {cfg : PCfg} {text : List Char} {a : Ast} {p q : List Tok} {t : Tok}
    (hok : parse fuel cfg text = .ok a) (hts : TextToks text (p ++ q ++ [.eof])) (ht : isBr t = true)
    (fuel' : Nat) (cfg' : PCfg) {text' : List Char} (hts' : TextToks text' (p ++ t :: q ++ [.eof])) :
    ∃ e, parse fuel' cfg' text' = .error e := by
  obtain ⟨u, hu, gu⟩ := parse_ok_grammar hok
  have := List.append_cancel_right (hts.det hu)
  subst this
  exact reject_unbalanced fuel' cfg' hts' (gu.bal.insert_bracket ht)

/-! ### scanner errors -/

theorem parse_init_error {fuel : Nat} {cfg : PCfg} {text : List Char} {e : ScanErr} (h : Scan.init text = .error e) :
    parse fuel cfg text = .error (.scan e) := by
  simp [parse, h]

/-- if scanning the text fails somewhere (before the end is reached) the text is rejected: either
the parser has failed before, or `PState.next` propagates the scanner error -/
theorem reject_scan_error (fuel : Nat) (cfg : PCfg) {text : List Char} {s s1 : Scan} {u : List Tok} {e0 : ScanErr}
    (hs : Scan.init text = .ok s) (hu : Steps s u s1) (hne : s1.typ ≠ .eof) (herr : s1.nextItem = .error e0) :
    ∃ e, parse fuel cfg text = .error e := by
  cases hp : parse fuel cfg text with
  | error e => exact ⟨e, rfl⟩
  | ok a =>
    exfalso
    obtain ⟨used, ⟨s', hs', ht⟩, _⟩ := parse_ok_grammar hp
    rw [hs] at hs'; cases hs'
    obtain ⟨u', s2, _, su', he⟩ := ht.steps
    obtain ⟨v, _, sv⟩ := hu.prefix_of su' he
    cases sv with
    | nil => exact hne he
    | cons _ hn _ => rw [herr] at hn; cases hn

/-- fuelled check that scanning fails before the end of the text (for the examples) -/
def scanFailsFuel : Nat → Scan → Bool
  | 0, _ => false
  | f+1, s =>
    if s.typ = .eof then false
    else match s.nextItem with
      | .error _ => true
      | .ok s' => scanFailsFuel f s'

def textScanFails (f : Nat) (text : String) : Bool :=
  match Scan.init text.toList with
  | .error _ => true
  | .ok s => scanFailsFuel f s

theorem scanFailsFuel_sound : ∀ (f : Nat) (s : Scan), scanFailsFuel f s = true →
    ∃ u s1 e0, Steps s u s1 ∧ s1.typ ≠ .eof ∧ s1.nextItem = .error e0
  | 0, _, h => by simp [scanFailsFuel] at h
  | f+1, s, h => by
    unfold scanFailsFuel at h
    split at h
    · cases h
    · rename_i hne
      split at h
      · rename_i e0 herr
        exact ⟨[], s, e0, Steps.nil _, hne, herr⟩
      · rename_i s' hn
        obtain ⟨u, s1, e0, su, h1, h2⟩ := scanFailsFuel_sound f s' h
        exact ⟨_, s1, e0, Steps.cons hne hn su, h1, h2⟩

theorem reject_text_scan_fails (fuel : Nat) (cfg : PCfg) {f : Nat} {text : String} (h : textScanFails f text = true) :
    ∃ e, parse fuel cfg text.toList = .error e := by
  unfold textScanFails at h
  split at h
  · rename_i e0 he
    exact ⟨_, parse_init_error he⟩
  · rename_i s hs
    obtain ⟨u, s1, e0, su, h1, h2⟩ := scanFailsFuel_sound _ _ h
    exact reject_scan_error fuel cfg hs su h1 h2

/-- the scanner meets an opening quote that is never closed -/
theorem nextItem_unclosed (s : Scan) (hq : s.skipSpace.curr = '"' ∨ s.skipSpace.curr = '\'')
    (h : scanStringAux s.skipSpace.curr s.skipSpace.rest = none) : s.nextItem = .error .unclosedString := by
  unfold Scan.nextItem
  rcases hq with e | e
  · rw [e] at h
    simp [e, h]
  · rw [e] at h
    simp [e, h]

/-- **reject_unclosed_quote** (anywhere in the text) -/
theorem reject_unclosed_quote (fuel : Nat) (cfg : PCfg) {text : List Char} {s s1 : Scan} {u : List Tok}
    (hs : Scan.init text = .ok s) (hu : Steps s u s1) (hne : s1.typ ≠ .eof)
    (hq : s1.skipSpace.curr = '"' ∨ s1.skipSpace.curr = '\'')
    (h : scanStringAux s1.skipSpace.curr s1.skipSpace.rest = none) :
    ∃ e, parse fuel cfg text = .error e :=
  reject_scan_error fuel cfg hs hu hne (nextItem_unclosed s1 hq h)

theorem scanStringAux_none (q : Char) : ∀ (body : List Char), q ∉ body → scanStringAux q body = none
  | [], _ => rfl
  | c :: t, hq => by
    simp only [List.mem_cons, not_or] at hq
    have hne : (c == q) = false := by
      simp only [beq_eq_false_iff_ne, ne_eq]; exact fun h => hq.1 h.symm
    simp [scanStringAux, hne, scanStringAux_none q t hq.2]

/-- **reject_unclosed_quote**, top-level form: the text starts with a quote that is never closed -/
theorem reject_unclosed_quote_first (fuel : Nat) (cfg : PCfg) {q : Char} {body : List Char}
    (hq : q = '"' ∨ q = '\'') (hb : q ∉ body) :
    parse fuel cfg (q :: body) = .error (.scan .unclosedString) := by
  apply parse_init_error
  unfold Scan.init
  have hsp : isSpace q = false := by rcases hq with rfl | rfl <;> decide
  have hss : (({ rest := q :: body } : Scan).nextChar.1).skipSpace.curr = q ∧
      (({ rest := q :: body } : Scan).nextChar.1).skipSpace.rest = body := by
    cases body <;> simp [Scan.nextChar, Scan.skipSpace, skipSpaceAux, hsp]
  apply nextItem_unclosed
  · rw [hss.1]; exact hq
  · rw [hss.1, hss.2]; exact scanStringAux_none q body hb

/-! ### the tier loop: an operator must be followed by an operand

Operator *words* (`and or div mod`) are `name` tokens, so a cut after them is not visible in the
token stream (`a and` has the same stream as `a b`).  At the level of the parser functions the
fact is: once `tierLoop` has recognised an operator (symbol or word) it requires a non-empty
operand; if the text ends there, it fails. -/

theorem Steps.cons_inv {s s' : Scan} {t : Tok} {u : List Tok} (h : Steps s (t :: u) s') :
    ∃ s1, s.typ ≠ .eof ∧ s.nextItem = .ok s1 ∧ t = s.typ ∧ Steps s1 u s' := by
  cases h with
  | cons hne hn h' => exact ⟨_, hne, hn, rfl, h'⟩

theorem Steps.not_eof {s s' : Scan} {u : List Tok} (h : Steps s u s') (hu : u ≠ []) : s.typ ≠ .eof := by
  cases h with
  | nil => exact absurd rfl hu
  | cons hne _ _ => exact hne

theorem Con.not_eof {k : NT} {st st' : PState} (h : Con k st st') : st.s.typ ≠ .eof := by
  obtain ⟨u, su, gu⟩ := h
  exact su.not_eof gu.ne_nil

/-- no expression starts at the end of the text -/
theorem parseChain_at_eof (f : Nat) (cfg : PCfg) (stages : List Stage) (st : PState) (he : st.s.typ = .eof) :
    ∃ e, parseChain f cfg stages st = .error e := by
  cases h : parseChain f cfg stages st with
  | error e => exact ⟨e, rfl⟩
  | ok p => exact absurd he (parseChain_tokens (a := p.1) (st' := p.2) h).not_eof

theorem parseExpression_at_eof (f : Nat) (cfg : PCfg) (st : PState) (he : st.s.typ = .eof) :
    ∃ e, parseExpression f cfg st = .error e := by
  cases h : parseExpression f cfg st with
  | error e => exact ⟨e, rfl⟩
  | ok p => exact absurd he (parseExpression_tokens (a := p.1) (st' := p.2) h).not_eof

/-- when the tier loop consumes an operator, a complete non-empty operand follows it -/
theorem tierLoop_operator_tokens {f : Nat} {cfg : PCfg} {ops : List String} {rest : List Stage} {opnd a : Ast}
    {st st' : PState} {op : String} (hfind : ops.find? (tokMatches st.s) = some op)
    (h : tierLoop f cfg ops rest opnd st = .ok (a, st')) :
    ∃ v w, Steps st.s (st.s.typ :: v ++ w) st'.s ∧ isOpTok st.s.typ = true ∧ G .expr v ∧ Ext .expr w := by
  cases f with
  | zero => simp [tierLoop] at h
  | succ f =>
    simp only [tierLoop, hfind] at h
    have hm : tokMatches st.s op = true := List.find?_some hfind
    obtain ⟨st1, h1, h⟩ := bind_ok h
    obtain ⟨⟨r, st2⟩, h2, h⟩ := bind_ok h
    have s1 := next_steps h1 (ParserFuel.tokMatches_ne_eof _ _ hm)
    obtain ⟨v, sv, gv⟩ := parseChain_tokens h2
    obtain ⟨w, sw, gw⟩ := tierLoop_tokens h
    exact ⟨v, w, by simpa using (s1.trans sv).trans sw, tokMatches_isOpTok _ _ hm, gv, gw⟩

/-- "… operator, end of text" is rejected by the tier loop (operator symbol or operator word) -/
theorem tierLoop_operator_then_eof (f : Nat) (cfg : PCfg) {ops : List String} (rest : List Stage) (opnd : Ast)
    {st st1 : PState} {op : String} (hfind : ops.find? (tokMatches st.s) = some op)
    (h1 : st.next = .ok st1) (he : st1.s.typ = .eof) :
    ∃ e, tierLoop f cfg ops rest opnd st = .error e := by
  cases h : tierLoop f cfg ops rest opnd st with
  | error e => exact ⟨e, rfl⟩
  | ok p =>
    exfalso
    obtain ⟨v, w, su, _, gv, _⟩ := tierLoop_operator_tokens (a := p.1) (st' := p.2) hfind h
    obtain ⟨s1, _, hn, _, su'⟩ := su.cons_inv
    have e1 : st1.s = s1 := by
      unfold PState.next at h1
      rw [hn] at h1
      cases h1; rfl
    rw [← e1] at su'
    exact su'.not_eof (by simp [gv.ne_nil]) he

/-! ## 6. Non-vacuity: concrete texts -/

section examples

example : textToksFuel 10 "a[" = some [.name, .lbracket, .eof] := by decide
example : textToksFuel 10 "a/" = some [.name, .slash, .eof] := by decide
example : textToksFuel 10 "f(1," = some [.name, .lparen, .number, .comma, .eof] := by decide
example : textToksFuel 10 "a and (" = some [.name, .name, .lparen, .eof] := by decide
example : textToksFuel 10 "a[b" = some [.name, .lbracket, .name, .eof] := by decide
example : textToksFuel 10 "concat('a'" = some [.name, .lparen, .string, .eof] := by decide

/-- cut after an opening bracket -/
theorem ex_cut_lbracket (fuel : Nat) (cfg : PCfg) : ∃ e, parse fuel cfg "a[".toList = .error e :=
  reject_trailing fuel cfg (pre := [.name]) (t := .lbracket)
    (textToksFuel_sound (f := 10) (text := "a[") (by decide)) (by decide)

/-- cut after a slash -/
theorem ex_cut_slash (fuel : Nat) (cfg : PCfg) : ∃ e, parse fuel cfg "a/".toList = .error e :=
  reject_trailing_slash_first fuel cfg (t := .name)
    (textToksFuel_sound (f := 10) (text := "a/") (by decide)) (by decide)

/-- cut after a comma -/
theorem ex_cut_comma (fuel : Nat) (cfg : PCfg) : ∃ e, parse fuel cfg "f(1,".toList = .error e :=
  reject_trailing fuel cfg (pre := [.name, .lparen, .number]) (t := .comma)
    (textToksFuel_sound (f := 10) (text := "f(1,") (by decide)) (by decide)

/-- cut after an opening parenthesis -/
theorem ex_cut_lparen (fuel : Nat) (cfg : PCfg) : ∃ e, parse fuel cfg "a and (".toList = .error e :=
  reject_trailing fuel cfg (pre := [.name, .name]) (t := .lparen)
    (textToksFuel_sound (f := 10) (text := "a and (") (by decide)) (by decide)

/-- closing bracket deleted -/
theorem ex_unclosed_bracket (fuel : Nat) (cfg : PCfg) : ∃ e, parse fuel cfg "a[b".toList = .error e :=
  reject_unbalanced fuel cfg (ts := [.name, .lbracket, .name])
    (textToksFuel_sound (f := 10) (text := "a[b") (by decide)) (by decide)

/-- closing parenthesis deleted -/
theorem ex_unclosed_paren (fuel : Nat) (cfg : PCfg) : ∃ e, parse fuel cfg "concat('a'".toList = .error e :=
  reject_unbalanced fuel cfg (ts := [.name, .lparen, .string])
    (textToksFuel_sound (f := 10) (text := "concat('a'") (by decide)) (by decide)

/-- a path cut after its second slash: `a/b/` — here the token before the slash is a `name`, and
what precedes it (`a/`) is no expression -/
theorem ex_cut_slash2 (fuel : Nat) (cfg : PCfg) : ∃ e, parse fuel cfg "a/b/".toList = .error e := by
  refine reject_trailing_slash_operand fuel cfg (pre := [.name, .slash]) (t := .name)
    (textToksFuel_sound (f := 10) (text := "a/b/") (by decide)) (by decide) ?_
  intro g
  rcases G.last_slash (pre := []) g with h | ⟨_, h⟩
  · cases h
  · exact not_expr_nil h

/-- cut after a slash behind a predicate -/
theorem ex_cut_slash3 (fuel : Nat) (cfg : PCfg) : ∃ e, parse fuel cfg "a[1]/".toList = .error e :=
  reject_trailing_slash_hard fuel cfg (pre := [.name, .lbracket, .number]) (t := .rbracket)
    (textToksFuel_sound (f := 10) (text := "a[1]/") (by decide)) (by decide)

/-- closing quote deleted: at the start, and in the middle of the text -/
theorem ex_unclosed_quote (fuel : Nat) (cfg : PCfg) :
    parse fuel cfg "'abc".toList = .error (.scan .unclosedString) :=
  reject_unclosed_quote_first fuel cfg (q := '\'') (body := "abc".toList) (.inr rfl) (by decide)

theorem ex_unclosed_quote_mid (fuel : Nat) (cfg : PCfg) : ∃ e, parse fuel cfg "a = 'abc".toList = .error e :=
  reject_text_scan_fails fuel cfg (f := 10) (by decide)

/-- the limits of the slash rule: these *are* accepted (root path as right operand), although the
token before the final `/` is an end token (`star`, resp. `name`) -/
theorem ex_star_root_accepted : (parse 100 (defaultCfg none) "a * /".toList).isOk = true := by decide +kernel
theorem ex_and_root_accepted : (parse 100 (defaultCfg none) "a and /".toList).isOk = true := by decide +kernel
example : (parse 100 (defaultCfg none) "/".toList).isOk = true := by decide +kernel
example : (parse 100 (defaultCfg none) "(/)".toList).isOk = true := by decide +kernel
example : (parse 100 (defaultCfg none) "a | /".toList).isOk = true := by decide +kernel
example : (parse 100 (defaultCfg none) "count(/)".toList).isOk = true := by decide +kernel
example : (parse 100 (defaultCfg none) "a[/]".toList).isOk = true := by decide +kernel
example : (parse 100 (defaultCfg none) "- /".toList).isOk = true := by decide +kernel
example : textToksFuel 10 "a * /" = some [.name, .star, .slash, .eof] := by decide
example : textToksFuel 10 "a and /" = some [.name, .name, .slash, .eof] := by decide

/-- the global truncation statement of `Theorems/C17.lean` does not hold for the character `/`:
`/a` is accepted, and cut after its first character it is `/`, which is accepted too -/
theorem C17TruncationStatement_false : ¬ Theorems.C17.C17TruncationStatement := by
  intro h
  have hok : ∃ a, parse (fuelFor "/a".toList) (defaultCfg none) "/a".toList = .ok a := by
    cases hp : parse (fuelFor "/a".toList) (defaultCfg none) "/a".toList with
    | ok a => exact ⟨a, rfl⟩
    | error e =>
      have : (parse (fuelFor "/a".toList) (defaultCfg none) "/a".toList).isOk = true := by decide +kernel
      rw [hp] at this; cases this
  obtain ⟨a, hok⟩ := hok
  obtain ⟨e, he⟩ := h (defaultCfg none) "/a".toList a hok 1 (by decide) ⟨'/', by decide, by decide⟩
  have : (parse (fuelFor ("/a".toList.take 1)) (defaultCfg none) ("/a".toList.take 1)).isOk = true := by
    decide +kernel
  rw [he] at this; cases this

end examples

theorem G.strictEnd {k : NT} {u : List Tok} (h : G k u) (hk : k ≠ .expr) (hk' : k ≠ .args) : StrictEnd u := by
  have := h.endK
  cases k <;> first | exact absurd rfl hk | exact absurd rfl hk' | exact this

theorem G.args_inv {a : List Tok} (h : G .args a) :
    G .expr a ∨ ∃ e r, a = e ++ .comma :: r ∧ G .expr e ∧ G .args r := by
  cases h with
  | argsOne g => exact .inl g
  | argsCons ge ga => exact .inr ⟨_, _, rfl, ge, ga⟩


end XPathV.Lemmas.ParserTokens
