import XPathV.Lemmas.BuildRejects.Tree
import XPathV.Lemmas.BuildRejects.Scan
import XPathV.Lemmas.BuildRejects.Text
import XPathV.Lemmas.BuildRejects.Records
import XPathV.Lemmas.BuildRejects.Rename
import XPathV.Lemmas.BuildRejects.FuelMono
import XPathV.Lemmas.BuildRejects.RenameText
import XPathV.Lemmas.BuildRejects.ScanName
import XPathV.Lemmas.BuildRejects.RenameFirst
/-!
# C17, second half — unknown functions, missing arguments, unknown axes, malformed qualified names

"If a valid expression is damaged … by renaming a function to an unknown name, by removing required
arguments, by using an unknown axis name or a malformed qualified name, Compile returns an error
instead of an expression."  About the models (`Model/Scanner`, `Model/Parser`, `Model/Builder`,
`Model/Api`):

1. **Tree level** (`BuildRejects/Tree.lean`).  `Bad t k` / `BadNode t` follows the sub-trees `build`
   visits; `build_fails_of_bad`: `Bad t fl.take → ∃ e, build rx lim a b t fl st = .error e` for every
   regexp oracle, depth limit, both switches, flags and state (induction over all node kinds);
   `not_bad_of_build_ok` the contrapositive; `bad_iff_visits` the reading "a visited sub-tree is an
   unknown function / a call outside its arity window / a step on an unknown axis".
2. **From text** (`BuildRejects/Text.lean`).  `compile_fails_of_bad`, `no_bad_node_of_compile_ok`,
   `compile_fails_unknown_function`, `compile_fails_missing_arguments`, `compile_fails_unknown_axis`;
   the family `compile_unknown_axis_text` (`name::l`, every name outside the axis table);
   malformed qualified names: `compile_qname_without_local` (`a:`, `a: b`, `a:1`),
   `compile_leading_colon` (`:a`), `compile_name_blank_colon` (`a :b`), `compile_second_colon`
   (`a:b:c`), and the same anywhere in a text at scanner-state level (`parse_fails_…`).
3. **What the parser records** (`BuildRejects/Records.lean`): `parsePrimary_call_records`,
   `parseStep_axe_records`.
4. **Renaming inside a text** (`BuildRejects/Rename.lean`, `RenameText.lean`): `parse_rename` — same
   token stream except one function-name token ⇒ same tree except for that name;
   `compile_fails_after_rename` — … to an unknown name ⇒ `Compile` fails (for expressions without
   superfluous arguments, see below); `renamedAt` is a decidable check of the token-stream hypothesis.
   `BuildRejects/FuelMono.lean`: more fuel does not change an accepted parse (`parse_mono`).
5. **Character level, leading function** (`BuildRejects/ScanName.lean`, `RenameFirst.lean`):
   `nextItem_setName` (the scanner never reads a stale `name` field), `before_first`,
   `compile_fails_rename_first`: for every accepted `G(…` and every unknown plain name `G'`,
   `Compile(G'(…)` fails — no hypothesis on token streams.

**Accepted by the model although damaged** (potential findings, examples at the end):
`true(1)`, `true(foo(1))`, `count(a, foo())`, `substring('a',1,2,foo())` — arguments beyond those a
function reads are neither counted (no maximum for most functions) nor built, so an unknown
function inside them goes unnoticed; `p:contains('a','b')`, `fn:count(a)` — the prefix of a
function name is ignored; `namespace::a` is rejected, but by its own error.
All forms of malformed qualified names tried (`a:`, `:a`, `a:b:c`, `a: b`, `a :b`, `a : b`, `a:1`,
`a:-b`, `a:b:`, `a:b::c`, `a:*:b`, `*:a`, `::a`, `a:::b`) are rejected; `a.:b` and `a:_` are names.
-/
namespace XPathV.BuildRejects
open XPathV XPathV.Model

/-! ## Examples (executable model, source configuration, no namespace map) -/

def compileErr (s : String) : Option CompileErr :=
  match compile {} none s.toList with
  | .error e => some e
  | .ok _ => none

-- renaming a function to an unknown name
example : compileErr "conta('a','b')" = some (.build (.unknownFunction "conta")) := by decide +kernel
example : compileErr "a[conta(.,'x')]/b" = some (.build (.unknownFunction "conta")) := by decide +kernel
example : compileErr "count(cnt(a))" = some (.build (.unknownFunction "cnt")) := by decide +kernel
example : compileErr "a:b()" = some (.build (.unknownFunction "b")) := by decide +kernel
example : compileErr "foo:node()" = some (.build (.unknownFunction "node")) := by decide +kernel
-- removing required arguments
example : compileErr "contains('a')" = some (.build (.indexPanic "contains")) := by decide +kernel
example : compileErr "starts-with('a')" = some (.build (.indexPanic "starts-with")) := by decide +kernel
example : compileErr "lower-case()" = some (.build (.indexPanic "lower-case")) := by decide +kernel
example : compileErr "substring('a')" = some (.build (.arity "substring")) := by decide +kernel
example : compileErr "count()" = some (.build (.arity "count")) := by decide +kernel
example : compileErr "not()" = some (.build (.arity "not")) := by decide +kernel
example : compileErr "concat('a')" = some (.build (.arity "concat")) := by decide +kernel
example : compileErr "boolean()" = some (.build (.arity "boolean")) := by decide +kernel
example : compileErr "translate('a','b')" = some (.build (.arity "translate")) := by decide +kernel
example : compileErr "string-join(a)" = some (.build (.arity "string-join")) := by decide +kernel
-- too many arguments, where the builder has a guard
example : compileErr "boolean(1,2)" = some (.build (.arity "boolean")) := by decide +kernel
example : compileErr "string(1,2)" = some (.build (.arity "string")) := by decide +kernel
example : compileErr "translate('a','b','c','d')" = some (.build (.arity "translate")) := by decide +kernel
-- unknown axis names
example : compileErr "foo::a" = some (.build (.unknownAxis "foo")) := by decide +kernel
example : compileErr "a/foo::b" = some (.build (.unknownAxis "foo")) := by decide +kernel
example : compileErr "a[bar::b]" = some (.build (.unknownAxis "bar")) := by decide +kernel
example : compileErr "count(foo::a)" = some (.build (.unknownAxis "foo")) := by decide +kernel
example : compileErr "a :: b" = some (.build (.unknownAxis "a")) := by decide +kernel
example : compileErr "namespace::a" = some (.build .namespaceAxis) := by decide +kernel
-- malformed qualified names
example : compileErr "a:" = some (.parse (.scan .invalidQName)) := by decide +kernel
example : compileErr "a: b" = some (.parse (.scan .invalidQName)) := by decide +kernel
example : compileErr "a :b" = some (.parse (.scan .invalidQName)) := by decide +kernel
example : compileErr "a : b" = some (.parse (.scan .invalidQName)) := by decide +kernel
example : compileErr "a:1" = some (.parse (.scan .invalidQName)) := by decide +kernel
example : compileErr "a:-b" = some (.parse (.scan .invalidQName)) := by decide +kernel
example : compileErr "child::a:" = some (.parse (.scan .invalidQName)) := by decide +kernel
example : compileErr ":a" = some (.parse (.scan .invalidToken)) := by decide +kernel
example : compileErr "::a" = some (.parse (.scan .invalidToken)) := by decide +kernel
example : compileErr "*:a" = some (.parse (.scan .invalidToken)) := by decide +kernel
example : compileErr "a:b:c" = some (.parse (.scan .invalidToken)) := by decide +kernel
example : compileErr "a:b:" = some (.parse (.scan .invalidToken)) := by decide +kernel
example : compileErr "a:b::c" = some (.parse (.scan .invalidToken)) := by decide +kernel
example : compileErr "a:*:b" = some (.parse (.scan .invalidToken)) := by decide +kernel
example : compileErr "a:::b" = some (.parse (.scan .invalidToken)) := by decide +kernel
example : compileErr "a::" = some (.parse .notNodeSet) := by decide +kernel

/-! ### damaged, and **accepted** by the model (reported, not hidden) -/

-- superfluous arguments are not counted and not built: an unknown function inside them goes unnoticed
example : compileErr "true(1)" = none := by decide +kernel
example : compileErr "true(foo(1))" = none := by decide +kernel
example : compileErr "count(a, foo())" = none := by decide +kernel
example : compileErr "substring('a',1,2,3)" = none := by decide +kernel
example : compileErr "substring('a',1,2,foo())" = none := by decide +kernel
-- the prefix of a function name is ignored
example : compileErr "p:contains('a','b')" = none := by decide +kernel
example : compileErr "fn:count(a)" = none := by decide +kernel
-- (well-formed, for comparison)
example : compileErr "a:b" = none := by decide +kernel
example : compileErr "a:*" = none := by decide +kernel
example : compileErr "child ::a" = none := by decide +kernel

/-! ### the general theorems at work -/

example (cc : CompileCfg) (ns : Option (List (String × String))) :
    compile cc ns "foo::a".toList = .error (.build (.unknownAxis "foo")) :=
  compile_unknown_axis_text cc ns "foo".toList "a".toList (by decide +kernel) (by decide +kernel) (by decide)

example (cc : CompileCfg) (ns : Option (List (String × String))) :
    compile cc ns "descendent::item".toList = .error (.build (.unknownAxis "descendent")) :=
  compile_unknown_axis_text cc ns "descendent".toList "item".toList (by decide +kernel) (by decide +kernel) (by decide)

example (cc : CompileCfg) (ns : Option (List (String × String))) (rest : List Char) :
    compile cc ns ("a: ".toList ++ rest) = .error (.parse (.scan .invalidQName)) :=
  compile_qname_without_local cc ns "a".toList (' ' :: rest) (by decide +kernel)
    (by simp only [mkCR_eta]; decide) (by simp only [mkCR_eta]; decide) (by simp only [mkCR_eta]; decide +kernel)

example (cc : CompileCfg) (ns : Option (List (String × String))) :
    compile cc ns "a:".toList = .error (.parse (.scan .invalidQName)) :=
  compile_qname_without_local cc ns "a".toList [] (by decide +kernel) (by decide) (by decide) (by decide +kernel)

example (cc : CompileCfg) (ns : Option (List (String × String))) (rest : List Char) :
    compile cc ns (':' :: rest) = .error (.parse (.scan .invalidToken)) :=
  compile_leading_colon cc ns (':' :: rest) rest (by
    have : isSpace ':' = false := by decide
    simp [this])

example (cc : CompileCfg) (ns : Option (List (String × String))) (rest : List Char) :
    compile cc ns ("a:b:".toList ++ rest) = .error (.parse (.scan .invalidToken)) :=
  compile_second_colon cc ns "a".toList "b".toList rest (by decide +kernel) (by decide +kernel)

/-- `contains` renamed to `conta` inside `a[contains(.,'x')]/b`, by the renaming theorem -/
example (cc : CompileCfg) : ∃ e, compile cc none "a[conta(.,'x')]/b".toList = .error e :=
  compile_fails_after_rename_dec cc none (g := "contains") (g' := "conta") (text := "a[contains(.,'x')]/b".toList)
    (by decide) (by decide) (by decide) (by rw [opWords_stages]; decide) (by rw [opWords_stages]; decide)
    (by decide) (k := 2) (by decide +kernel) (by decide +kernel)

/-- `count` renamed to `cnt` as an operand -/
example (cc : CompileCfg) : ∃ e, compile cc none "1 + 2 * cnt(//a)".toList = .error e :=
  compile_fails_after_rename_dec cc none (g := "count") (g' := "cnt") (text := "1 + 2 * count(//a)".toList)
    (by decide) (by decide) (by decide) (by rw [opWords_stages]; decide) (by rw [opWords_stages]; decide)
    (by decide) (k := 4) (by decide +kernel) (by decide +kernel)

/-- **every** unknown plain name in place of the leading `contains` of `contains(a,'x') and b`:
character level, no token-stream hypothesis -/
example (cc : CompileCfg) (G' : List Char) (hG' : plainName G' = true)
    (hn : String.ofList G' ∉ nodeTypes) (ho : String.ofList G' ∉ opWords stages)
    (hunk : fnArity (String.ofList G') = none) :
    ∃ e, compile cc none (G' ++ "(a,'x') and b".toList) = .error e := by
  have hne : String.ofList "contains".toList ≠ String.ofList G' := by
    intro e
    rw [← e] at hunk
    revert hunk
    decide
  exact compile_fails_rename_first_paren cc none "contains".toList G' "a,'x') and b".toList (by decide +kernel) hG' hne
    (by decide) hn (by rw [opWords_stages]; decide) ho hunk (by decide +kernel)

end XPathV.BuildRejects

