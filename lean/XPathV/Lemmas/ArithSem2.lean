import XPathV.Lemmas.ArithSem
import XPathV.Lemmas.PredSem2
/-!
# C08 — arithmetic over `count(P)` / `sum(P)` of flat paths **with predicates**

`ArithSem.NumEG CP SP MP` is parametric in the admitted `count` arguments (`CP`), `sum` arguments
(`SP`) and `mod` operand pairs (`MP`); `ArithSem.NumEF` instantiates `CP` with the flat
*predicate-free* paths `FlatPath`.  This module instantiates the same inductive with the flat paths
of the C02 fragment **with predicates**:

* `FlatF2 p := PredSem2.Frag2 true p ∧ FlatFiltered.FlatAny p` — steps over child/attribute/self
  from the context node or the root, every step (and the start) followed by any number of the
  boolean-valued predicates of `Frag2` (`a[@x < @y]`, `a[b][not(c)]`, `*[count(b) = 2]/@x`, …)
* `flat2_same_list` — for such a path the node list the built plan *evaluates* to (`evalP`) **is** the
  oracle's node list, element by element, at every context position/size
  (`PredSem2.operand_seqOK` on `PredSem2.build_frag2`: equal sets from C02, both sides strictly
  increasing in document order from `FlatFiltered.flatAny_sorted` / `flatAny_spec_sorted`)
* `countOK_flat2`, `sumOK_flat2` — the two leaf obligations of `ArithSem.numEG_sem`
* `NumEF2 d ctx F` — the full fragment: `count` over `FlatF2`, `sum` over `FlatF2` paths on which the
  oracle's `sum` speaks (`FlatSum2`: every selected node is numeric), `mod` inside the oracle's domain
* `C08_main2` (`numEF2_sem`), `numEF2_evaluate` — the built plan's number is the oracle's number
* `NumEC2` — the document-independent sub-fragment (no `sum`, no `mod`), `numEC2_sem`
* `numEF2_of_numEF`, `numEC2_of_numEC` — old fragment → new
* `sum_flat2_sem` — `sum(P)` on its own

As everywhere for `Frag2`, the builder runs with `smartDescThroughFilter = false` (the value read
off the source: `SourceConfig.smartdesc_stops_at_filters_from_source`) and the `//name` shortcut
guarded by its node test: the `Frag2` builder lemmas are stated at `build regexOk limit true false`
only, so the parameter `sdf` of `C08_main` is fixed to `false` here.
-/
namespace XPathV.ArithSem2
open XPathV XPathV.Model NumAlg XPathV.PathSem XPathV.PredSem XPathV.PredSem2 XPathV.ArithSem
open XPathV.FlatFiltered (FlatAny)

variable {F : Type} [NumAlg F]

/-! ## the leaves -/

/-- flat paths (child/attribute/self steps from the context node or the root) whose steps carry
predicates of the C02 fragment `Frag2` -/
def FlatF2 (p : Ast) : Prop := Frag2 true p ∧ FlatAny p

/-- a flat predicate-free path is a flat path with (no) predicates -/
theorem flatF2_of_flatPath {p : Ast} (h : FlatPath p) : FlatF2 p :=
  ⟨frag2_of_frag true p (FlatFiltered.FlatPath.flatFrag h).frag,
    (FlatFiltered.FlatPath.flatFrag h).flatAny⟩

/-- a flat path with the predicates of the first C02 fragment (`PredSem.Frag false`) -/
theorem flatF2_of_flatFrag {p : Ast} (h : FlatFiltered.FlatFrag p) : FlatF2 p :=
  ⟨frag2_of_frag true p h.frag, h.flatAny⟩

/-- **flat filtered paths, list level**: the node list `evalP` returns for the plan the builder makes
of a path of `FlatF2` *is* the oracle's node list of the path, at every context position and size -/
theorem flat2_same_list {d : Doc} (wf : WF d) (cfg : ECfg) (hns : cfg.nsIface = true)
    (hinj : HashInj d cfg) (regexOk : RegexOk) (limit : Nat)
    (c : Ref) (hc : validRef d c = true) (i n : Nat) {p : Ast} (hp : FlatF2 p)
    (st : BState) (o : BOut) (hb : build regexOk limit true false p {} st = .ok o) :
    ∃ ns g, evalP (F := F) d cfg o.q c = .ok (.nodes ns) ∧
      Spec.eval (F := F) d p ⟨c, i, n⟩ = .ok (.val (.nodes ns) g) := by
  have ih := ((build_frag2 (F := F) wf cfg hns hinj regexOk limit true p hp.1).1 rfl).1
  obtain ⟨_, out, ns, g, _, _, hE, hS⟩ :=
    operand_seqOK (F := F) wf cfg hns hinj regexOk limit p hp.1 hp.2 ih st o hb ⟨c, i, n⟩ hc
  exact ⟨ns, g, hE, hS⟩

/-- **count over flat filtered paths**: both sides yield node lists of the same length (they are the
same list) -/
theorem countOK_flat2 {d : Doc} (wf : WF d) (cfg : ECfg) (hns : cfg.nsIface = true)
    (hinj : HashInj d cfg) (regexOk : RegexOk) (limit : Nat)
    (c : Ref) (hc : validRef d c = true) (i n : Nat) :
    CountOK d cfg regexOk limit true false ⟨c, i, n⟩ F FlatF2 := by
  intro p hp st o hb
  obtain ⟨ns, g, h1, h2⟩ :=
    flat2_same_list (F := F) wf cfg hns hinj regexOk limit c hc i n hp st o hb
  exact ⟨ns, ns, g, h1, h2, rfl⟩

/-- `sum` arguments of the full fragment: flat filtered paths on which the oracle's `sum` speaks
(every selected node is numeric) -/
def FlatSum2 (d : Doc) (ctx : Spec.Ctx) (F : Type) [NumAlg F] (p : Ast) : Prop :=
  FlatF2 p ∧ SumDom d ctx F p

/-- **sum over flat filtered paths**: the engine's node list is the oracle's node list, and (the
oracle's side condition) every node of it is numeric -/
theorem sumOK_flat2 {d : Doc} (wf : WF d) (cfg : ECfg) (hns : cfg.nsIface = true)
    (hinj : HashInj d cfg) (regexOk : RegexOk) (limit : Nat)
    (c : Ref) (hc : validRef d c = true) (i n : Nat) :
    SumOK d cfg regexOk limit true false ⟨c, i, n⟩ F (FlatSum2 d ⟨c, i, n⟩ F) := by
  intro p hp st o hb
  obtain ⟨ns, g, h1, h2⟩ :=
    flat2_same_list (F := F) wf cfg hns hinj regexOk limit c hc i n hp.1 st o hb
  exact ⟨ns, g, h1, h2, sumDom_numeric d _ p hp.2 ns g h2⟩

/-! ## the instances of `ArithSem.NumEG` -/

/-- **the full C08 fragment over filtered paths**: `NumEF` with the arguments of `count` and `sum`
ranging over flat paths with `Frag2` predicates -/
abbrev NumEF2 (d : Doc) (ctx : Spec.Ctx) (F : Type) [NumAlg F] : Ast → Prop :=
  NumEG FlatF2 (FlatSum2 d ctx F) (ModDom d ctx F)

/-- the document-independent sub-fragment: literals, `+ - * div`, groups, `floor`, `ceiling`,
`number`, `number('…')`, `string-length('…')`, `count` over flat filtered paths; no `sum`, no `mod` -/
abbrev NumEC2 : Ast → Prop := NumEG FlatF2 (fun _ => False) (fun _ _ => False)

theorem flatSum2_of_flatSum {d : Doc} {ctx : Spec.Ctx} {p : Ast} (h : FlatSum d ctx F p) :
    FlatSum2 d ctx F p := ⟨flatF2_of_flatPath h.1, h.2⟩

/-- **old fragment → new** -/
theorem numEF2_of_numEF {d : Doc} {ctx : Spec.Ctx} {e : Ast} (h : NumEF d ctx F e) :
    NumEF2 d ctx F e :=
  NumEG.mono (fun _ hp => flatF2_of_flatPath hp) (fun _ hp => flatSum2_of_flatSum hp)
    (fun _ _ hm => hm) h

theorem numEC2_of_numEC {e : Ast} (h : NumEC e) : NumEC2 e :=
  NumEG.mono (fun _ hp => flatF2_of_flatPath hp) (fun _ hp => hp) (fun _ _ hm => hm) h

theorem NumEC2.numEF2 {d : Doc} {ctx : Spec.Ctx} {e : Ast} (he : NumEC2 e) : NumEF2 d ctx F e :=
  NumEG.mono (fun _ h => h) (fun _ h => h.elim) (fun _ _ h => h.elim) he

/-! ## the main theorems -/

/-- **C08 over filtered counts and sums**: for an arithmetic expression of any depth whose `count`
and `sum` leaves range over flat paths with `Frag2` predicates, the plan the builder makes evaluates
to a number, the oracle evaluates the expression to a number, and it is the same `x : F`.  Standing
assumptions: those of C02 (`WF`, valid context node, `NamespaceURL()` implemented, injective node
keys); builder at `smartDescThroughFilter = false`. -/
theorem numEF2_sem {d : Doc} (wf : WF d) (cfg : ECfg) (hns : cfg.nsIface = true)
    (hinj : HashInj d cfg) (regexOk : RegexOk) (limit : Nat)
    (c : Ref) (hc : validRef d c = true) (i n : Nat) {e : Ast} (he : NumEF2 d ⟨c, i, n⟩ F e)
    (fl : Flags) (st : BState) (o : BOut) (hb : build regexOk limit true false e fl st = .ok o) :
    ∃ x : F, evalP (F := F) d cfg o.q c = .ok (.num x) ∧
      Spec.eval (F := F) d e ⟨c, i, n⟩ = .ok (.val (.num x) none) :=
  numEG_sem d cfg regexOk limit true false ⟨c, i, n⟩
    (countOK_flat2 wf cfg hns hinj regexOk limit c hc i n)
    (sumOK_flat2 wf cfg hns hinj regexOk limit c hc i n) (modOK_dom d _) he fl st o hb

/-- the name the task asks for -/
theorem C08_main2 {d : Doc} (wf : WF d) (cfg : ECfg) (hns : cfg.nsIface = true)
    (hinj : HashInj d cfg) (regexOk : RegexOk) (limit : Nat)
    (c : Ref) (hc : validRef d c = true) (i n : Nat) {e : Ast} (he : NumEF2 d ⟨c, i, n⟩ F e)
    (fl : Flags) (st : BState) (o : BOut) (hb : build regexOk limit true false e fl st = .ok o) :
    ∃ x : F, evalP (F := F) d cfg o.q c = .ok (.num x) ∧
      Spec.eval (F := F) d e ⟨c, i, n⟩ = .ok (.val (.num x) none) :=
  numEF2_sem wf cfg hns hinj regexOk limit c hc i n he fl st o hb

/-- **C08 on `NumEC2`** (no oracle-side domain condition at all) -/
theorem numEC2_sem {d : Doc} (wf : WF d) (cfg : ECfg) (hns : cfg.nsIface = true)
    (hinj : HashInj d cfg) (regexOk : RegexOk) (limit : Nat)
    (c : Ref) (hc : validRef d c = true) (i n : Nat) {e : Ast} (he : NumEC2 e)
    (fl : Flags) (st : BState) (o : BOut) (hb : build regexOk limit true false e fl st = .ok o) :
    ∃ x : F, evalP (F := F) d cfg o.q c = .ok (.num x) ∧
      Spec.eval (F := F) d e ⟨c, i, n⟩ = .ok (.val (.num x) none) :=
  numEF2_sem wf cfg hns hinj regexOk limit c hc i n he.numEF2 fl st o hb

/-- … at the public API: `Expr.Evaluate` returns the number `evalTop` assigns -/
theorem numEF2_evaluate {d : Doc} (wf : WF d) (cfg : ECfg) (hns : cfg.nsIface = true)
    (hinj : HashInj d cfg) (regexOk : RegexOk) (limit : Nat)
    (c : Ref) (hc : validRef d c = true) {e : Ast} (he : NumEF2 d ⟨c, 1, 1⟩ F e)
    (st : BState) (o : BOut) (hb : build regexOk limit true false e {} st = .ok o) :
    ∃ x : F, evaluate (F := F) d cfg o.q c = .ok (.num x) ∧
      Spec.evalTop (F := F) d e c = .ok (.num x) := by
  obtain ⟨x, h1, h2⟩ := numEF2_sem (F := F) wf cfg hns hinj regexOk limit c hc 1 1 he {} st o hb
  exact ⟨x, evaluate_of_num d cfg _ c x h1, evalTop_of_num d e c x _ h2⟩

/-! ## `count(P)` and `sum(P)` on their own -/

/-- **`count(P)` over a flat filtered path**: both sides give the length of the oracle's node list -/
theorem count_flat2_sem {d : Doc} (wf : WF d) (cfg : ECfg) (hns : cfg.nsIface = true)
    (hinj : HashInj d cfg) (regexOk : RegexOk) (limit : Nat)
    (c : Ref) (hc : validRef d c = true) (i n : Nat) {p : Ast} (hp : FlatF2 p) (pfx : String)
    (fl : Flags) (st : BState) (o : BOut)
    (hb : build regexOk limit true false (.call "count" pfx (.acons p .anil)) fl st = .ok o) :
    ∃ ns g, Spec.eval (F := F) d p ⟨c, i, n⟩ = .ok (.val (.nodes ns) g) ∧
      evalP (F := F) d cfg o.q c = .ok (.num (ofNat ns.length)) ∧
      Spec.eval (F := F) d (.call "count" pfx (.acons p .anil)) ⟨c, i, n⟩ =
        .ok (.val (.num (ofNat ns.length)) none) := by
  obtain ⟨st', ao, hao, hq⟩ := build_call1 _ _ _ _ "count" pfx p 1 none false rfl (Nat.le_refl _)
    (fun _ h => by cases h) rfl (by decide) (by decide) (by decide) (by decide) fl st o hb
  obtain ⟨ns, g, h1, h2⟩ :=
    flat2_same_list (F := F) wf cfg hns hinj regexOk limit c hc i n hp _ _ hao
  refine ⟨ns, g, h2, ?_, ?_⟩
  · rw [hq, evalP_func1 d cfg _ _ _ _ (by decide), h1, callFn_count_nodes]
  · rw [eval_call1 d _ _ _ _ _ _ h2, spec_count]; rfl

/-- **`sum(P)` over a flat filtered path**: if the oracle evaluates `sum(P)` to the number `x` (so:
every node `P` selects is numeric), the plan the builder makes of `sum(P)` evaluates to `x` -/
theorem sum_flat2_sem {d : Doc} (wf : WF d) (cfg : ECfg) (hns : cfg.nsIface = true)
    (hinj : HashInj d cfg) (regexOk : RegexOk) (limit : Nat)
    (c : Ref) (hc : validRef d c = true) (i n : Nat) {p : Ast} (hp : FlatF2 p) (pfx : String)
    (x : F) (g : Option (List (List Ref)))
    (hx : Spec.eval (F := F) d (.call "sum" pfx (.acons p .anil)) ⟨c, i, n⟩ = .ok (.val (.num x) g))
    (fl : Flags) (st : BState) (o : BOut)
    (hb : build regexOk limit true false (.call "sum" pfx (.acons p .anil)) fl st = .ok o) :
    evalP (F := F) d cfg o.q c = .ok (.num x) := by
  have he : NumEF2 d ⟨c, i, n⟩ F (.call "sum" pfx (.acons p .anil)) :=
    .sum pfx p ⟨hp, sumDom_of_eval d _ pfx p x g hx⟩
  obtain ⟨y, h1, h2⟩ := numEF2_sem (F := F) wf cfg hns hinj regexOk limit c hc i n he fl st o hb
  rw [hx] at h2
  cases h2
  exact h1

/-! ## Non-vacuity: a parser-shaped member the builder accepts -/
section Examples
private def cA : AxisInfo := ⟨"child", .elem, "", "a", "", false, ""⟩
private def aX : AxisInfo := ⟨"attribute", .attr, "", "x", "", false, ""⟩
private def aY : AxisInfo := ⟨"attribute", .attr, "", "y", "", false, ""⟩
/-- `a[@x < @y]` as the parser produces it -/
private def exP : Ast := .filter (.axis cA .none) (.oper "<" (.axis aX .none) (.axis aY .none))
/-- `count(a[@x < @y]) * 2 + 1` as the parser produces it -/
private def exE : Ast :=
  .oper "+" (.oper "*" (.call "count" "" (.acons exP .anil)) (.num "2")) (.num "1")

private theorem exP_flatF2 : FlatF2 exP :=
  ⟨.filter _ _ (.axis _ _ .none (by decide))
      (.cmpPath _ _ _ (by decide) (.axis _ _ .none (by decide)) (.axis _ _ .none (by decide))),
    .filter _ _ (.axis _ _ (by decide) .none)⟩

example : NumEC2 exE :=
  .arith "+" _ _ (by decide) (.arith "*" _ _ (by decide) (.count "" exP exP_flatF2) (.num _)) (.num _)
example : ∃ o, build (fun _ => true) 100 true false exE {} {} = .ok o := ⟨_, rfl⟩
end Examples

end XPathV.ArithSem2

/-! ## Axiom audit -/
section AxiomAudit
open XPathV.ArithSem2
end AxiomAudit
