import XPathV.Lemmas.ScanProgress
/-!
# The scanner's `name` / `prefix` fields persist across non-name tokens

`parseNodeTest` used to read `p.r.name` *after* consuming the name token (Go: `p.next(); if p.r.name == "*"`);
it now decides `prefix:*` on the name token itself, so `NameSem` no longer needs this file.  The facts
about the scanner remain: unless the following token is itself a name (or an axis specifier),
`nextItem` leaves `name` and `pfx` untouched.
-/
namespace XPathV.Lemmas.ScanKeep
open XPathV XPathV.Model XPathV.Lemmas.ScanProgress

/-- the new token is a name/axis token, or the `name` and `pfx` fields are those of before -/
def Keep (s s' : Scan) : Prop :=
  (s'.typ = .name ∨ s'.typ = .axe) ∨ (s'.name = s.name ∧ s'.pfx = s.pfx)

theorem nextChar_name (s : Scan) : s.nextChar.1.name = s.name := by
  unfold Scan.nextChar; split <;> rfl

theorem nextChar_pfx (s : Scan) : s.nextChar.1.pfx = s.pfx := by
  unfold Scan.nextChar; split <;> rfl

set_option hygiene false in
macro "keepcase " t:term : tactic =>
  `(tactic| (by_cases hx : $t
             · rw [if_pos hx] at h; exact hsingle _ _ h
             rw [if_neg hx] at h; clear hx))

theorem nextItem_keep (s0 s' : Scan) (h : s0.nextItem = .ok s') : Keep s0 s' := by
  have hk0 : s0.skipSpace.name = s0.name ∧ s0.skipSpace.pfx = s0.pfx := ⟨rfl, rfl⟩
  unfold Scan.nextItem at h
  generalize s0.skipSpace = s at h hk0
  suffices hs : Keep s s' by
    rcases hs with hs | hs
    · exact Or.inl hs
    · exact Or.inr ⟨hs.1.trans hk0.1, hs.2.trans hk0.2⟩
  clear hk0
  extract_lets s_ adv single two c s1 fin at h
  by_cases h0 : (c == '\x00') = true
  · rw [if_pos h0] at h
    cases h
    exact Or.inr ⟨rfl, rfl⟩
  rw [if_neg h0] at h
  have hadv : ∀ x : Scan, (adv x).name = x.name ∧ (adv x).pfx = x.pfx := fun x =>
    ⟨nextChar_name x, nextChar_pfx x⟩
  have hsingle : ∀ t, ∀ s', single t = .ok s' → Keep s s' := by
    intro t s' h
    cases h
    exact Or.inr (hadv { s with typ := t })
  have htwo : ∀ t1 t2 c2, ∀ s', two t1 t2 c2 = .ok s' → Keep s s' := by
    intro t1 t2 c2 s' h
    simp only [two] at h
    split at h
    · cases h
      have a1 := hadv { s with typ := t1 }
      have a2 := hadv { adv { s with typ := t1 } with typ := t2 }
      exact Or.inr ⟨a2.1.trans a1.1, a2.2.trans a1.2⟩
    · cases h
      exact Or.inr (hadv { s with typ := t1 })
  keepcase (c == ',') = true
  keepcase (c == '@') = true
  keepcase (c == '(') = true
  keepcase (c == ')') = true
  keepcase (c == '|') = true
  keepcase (c == '*') = true
  keepcase (c == '[') = true
  keepcase (c == ']') = true
  keepcase (c == '+') = true
  keepcase (c == '-') = true
  keepcase (c == '=') = true
  keepcase (c == '$') = true
  by_cases hx : (c == '#') = true
  · rw [if_pos hx] at h; cases h
  rw [if_neg hx] at h; clear hx
  by_cases hx : (c == '<') = true
  · rw [if_pos hx] at h; exact htwo _ _ _ _ h
  rw [if_neg hx] at h; clear hx
  by_cases hx : (c == '>') = true
  · rw [if_pos hx] at h; exact htwo _ _ _ _ h
  rw [if_neg hx] at h; clear hx
  by_cases hx : (c == '!') = true
  · rw [if_pos hx] at h; exact htwo _ _ _ _ h
  rw [if_neg hx] at h; clear hx
  by_cases hx : (c == '/') = true
  · rw [if_pos hx] at h; exact htwo _ _ _ _ h
  rw [if_neg hx] at h; clear hx
  clear hsingle htwo
  have hs1 : s1.name = s.name ∧ s1.pfx = s.pfx := hadv { s with typ := .dot }
  by_cases hx : (c == '.') = true
  · rw [if_pos hx] at h
    clear_value s1
    split at h
    · cases h
      have a2 := hadv { s1 with typ := .dotdot }
      exact Or.inr ⟨a2.1.trans hs1.1, a2.2.trans hs1.2⟩
    split at h
    · generalize hq : takeRun isDigit s1.curr s1.rest = q at h
      obtain ⟨run, c', r'⟩ := q
      simp only [] at h
      split at h
      · cases h
        exact Or.inr hs1
      · cases h
    · cases h
      exact Or.inr hs1
  rw [if_neg hx] at h; clear hx
  clear hs1
  clear_value s1
  clear s1
  by_cases hx : (c == '\"' || c == '\'') = true
  · rw [if_pos hx] at h
    split at h
    · cases h
    · rename_i str rest hq
      cases h
      exact Or.inr (hadv { s with typ := .string, strval := String.ofList str, rest := rest })
  rw [if_neg hx] at h; clear hx
  by_cases hx : isDigit c = true
  · rw [if_pos hx] at h
    generalize hq : takeRun isDigit c s_.rest = q at h
    obtain ⟨ip, c1, r1⟩ := q
    simp only [] at h
    generalize hq2 : (if (c1 == '.') = true then
        match r1 with
        | [] => (['.'], '\x00', [])
        | x :: xs => match takeRun isDigit x xs with
          | (run, c', r') => ('.' :: run, c', r')
      else ([], c1, r1)) = q2 at h
    obtain ⟨fp, c2, r2⟩ := q2
    simp only [] at h
    split at h
    · cases h
      exact Or.inr ⟨rfl, rfl⟩
    · cases h
  rw [if_neg hx] at h; clear hx
  by_cases hx : isName c = true
  · rw [if_pos hx] at h
    have hfin : ∀ x s', fin x = .ok s' → s'.typ = x.typ := by
      intro x s' h
      cases h
      rfl
    clear_value fin
    generalize hq : s_.scanName = q at h
    obtain ⟨nm, s1⟩ := q
    clear hq
    simp only [] at h
    left
    split at h
    · split at h
      · rw [hfin _ _ h]; simp [adv]
      · split at h
        · rw [hfin _ _ h]; simp [adv]
        · split at h
          · generalize hq : Scan.scanName _ = q at h
            obtain ⟨nm2, s3⟩ := q
            simp only [] at h
            obtain ⟨h3t, _⟩ := scanName_eq_le _ _ _ hq
            rw [hfin _ _ h]; simp [adv, h3t]
          · cases h
    · split at h
      · split at h
        · rw [hfin _ _ h]; simp [adv]
        · cases h
      · rw [hfin _ _ h]; simp
  rw [if_neg hx] at h; clear hx
  cases h

/-- in particular: a token followed by the end of the input leaves both fields alone -/
theorem nextItem_eof_keep (s s' : Scan) (h : s.nextItem = .ok s') (he : s'.typ = .eof) :
    s'.name = s.name ∧ s'.pfx = s.pfx := by
  rcases nextItem_keep s s' h with (h1 | h1) | h2
  · rw [he] at h1; cases h1
  · rw [he] at h1; cases h1
  · exact h2

end XPathV.Lemmas.ScanKeep

section AxiomAudit
open XPathV.Lemmas.ScanKeep
#print axioms nextItem_keep
#print axioms nextItem_eof_keep
end AxiomAudit
