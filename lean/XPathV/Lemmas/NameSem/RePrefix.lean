import XPathV.Spec.Axes
/-!
# Documents that differ only in the prefixes they use

`SameShape`: same tree (length, depths, kinds, number of attributes) — the oracle's axes depend on
nothing else (`axisNodes_shape`).  `SameNames`: in addition the same local names and namespace URIs.
`rePrefix f d` rewrites every prefix of `d` with `f`; it is `SameNames` with `d` (`rePrefix_same`).
-/
namespace XPathV.NameSem
open XPathV

structure SameShape (d₁ d₂ : Doc) : Prop where
  len : d₁.length = d₂.length
  dep : ∀ i, dep d₁ i = dep d₂ i
  kind : ∀ i, kindAt d₁ i = kindAt d₂ i
  nattrs : ∀ i, (recAt d₁ i).attrs.length = (recAt d₂ i).attrs.length

structure SameNames (d₁ d₂ : Doc) : Prop extends SameShape d₁ d₂ where
  lname : ∀ x, localName d₁ x = localName d₂ x
  uri : ∀ x, nsURL d₁ x = nsURL d₂ x

section Shape
variable {d₁ d₂ : Doc} (h : SameShape d₁ d₂)
include h

theorem parentFrom_shape (di : Nat) : ∀ j, parentFrom d₁ di j = parentFrom d₂ di j
  | 0 => rfl
  | j+1 => by simp only [parentFrom, h.dep, parentFrom_shape di j]

theorem parent_shape : Spec.parent? d₁ = Spec.parent? d₂ := by
  funext r
  cases r with
  | node i => simp only [Spec.parent?, Nav.moveParent, h.dep, parentFrom_shape h]
  | attr i k => rfl

theorem allNodes_shape : allNodes d₁ = allNodes d₂ := by
  simp only [allNodes, h.len]

theorem ancestorsFuel_shape : ∀ (f : Nat) (r : Ref),
    Spec.ancestorsFuel d₁ f r = Spec.ancestorsFuel d₂ f r
  | 0, _ => rfl
  | f+1, r => by
    simp only [Spec.ancestorsFuel, parent_shape h]
    cases Spec.parent? d₂ r with
    | none => rfl
    | some p => simp only [ancestorsFuel_shape f p]

theorem ancestors_shape : Spec.ancestors d₁ = Spec.ancestors d₂ := by
  funext r
  simp only [Spec.ancestors, h.len, ancestorsFuel_shape h]

theorem isAncestor_shape : Spec.isAncestor d₁ = Spec.isAncestor d₂ := by
  funext a r
  simp only [Spec.isAncestor, ancestors_shape h]

theorem attributes_shape : Spec.attributes d₁ = Spec.attributes d₂ := by
  funext r
  cases r with
  | node i => simp only [Spec.attributes, h.kind, attrsOf, h.nattrs]
  | attr i k => rfl

/-- the oracle's axes see only the shape of the tree -/
theorem axisNodes_shape : Spec.axisNodes d₁ = Spec.axisNodes d₂ := by
  funext ax r
  unfold Spec.axisNodes
  simp only [Spec.children, Spec.descendants, Spec.following, Spec.preceding,
    Spec.followingSiblings, Spec.precedingSiblings, attributes_shape h,
    parent_shape h, allNodes_shape h, ancestors_shape h, isAncestor_shape h]

theorem nodeType_shape (x : Ref) : nodeType d₁ x = nodeType d₂ x := by
  cases x with
  | node i => simp only [nodeType, h.kind]
  | attr i k => rfl

theorem validRef_shape (x : Ref) : validRef d₁ x = validRef d₂ x := by
  cases x with
  | node i => simp only [validRef, h.len]
  | attr i k => simp only [validRef, h.len, h.nattrs]

theorem SameShape.wf (wf : WF d₁) : WF d₂ where
  pos := by rw [← h.len]; exact wf.pos
  root := by rw [← h.dep, ← h.kind]; exact wf.root
  step := by intro i hi; rw [← h.dep, ← h.dep]; exact wf.step i (by rw [h.len]; exact hi)
  nonroot := by intro i h0 hi; rw [← h.kind]; exact wf.nonroot i h0 (by rw [h.len]; exact hi)
  leaf := by
    intro i hi hk
    rw [← h.dep, ← h.dep]
    rw [← h.kind] at hk
    exact wf.leaf i (by rw [h.len]; exact hi) hk
  attrs := by
    intro i hi hk
    rw [← h.kind] at hk
    have := wf.attrs i (by rw [h.len]; exact hi) hk
    have hl := h.nattrs i
    rw [this] at hl
    exact List.eq_nil_of_length_eq_zero hl.symm

end Shape

theorem SameShape.symm {d₁ d₂ : Doc} (h : SameShape d₁ d₂) : SameShape d₂ d₁ :=
  ⟨h.len.symm, fun i => (h.dep i).symm, fun i => (h.kind i).symm, fun i => (h.nattrs i).symm⟩

/-! ## rewriting the prefixes -/

def reAttr (f : String → String) (a : Attr) : Attr := { a with pfx := f a.pfx }

def reRec (f : String → String) (r : Rec) : Rec :=
  { r with pfx := f r.pfx, attrs := r.attrs.map (reAttr f) }

/-- the same document with every prefix `p` (of elements and attributes) replaced by `f p` -/
def rePrefix (f : String → String) (d : Doc) : Doc := d.map (reRec f)

theorem recAt_rePrefix (f : String → String) (d : Doc) (i : Nat) :
    recAt (rePrefix f d) i = reRec f (recAt d i) ∨
      (recAt (rePrefix f d) i = default ∧ recAt d i = default) := by
  unfold recAt rePrefix
  by_cases hi : i < d.length
  · left
    simp [List.getD_eq_getElem?_getD, hi]
  · right
    simp [List.getD_eq_getElem?_getD, Nat.le_of_not_lt hi]

theorem attr_getD_re (f : String → String) (l : List Attr) (k : Nat) :
    (l.map (reAttr f)).getD k default = reAttr f (l.getD k default) ∨
      ((l.map (reAttr f)).getD k default = default ∧ l.getD k default = default) := by
  by_cases hk : k < l.length
  · left
    simp [List.getD_eq_getElem?_getD, hk]
  · right
    simp [List.getD_eq_getElem?_getD, Nat.le_of_not_lt hk]

theorem rePrefix_same (f : String → String) (d : Doc) : SameNames d (rePrefix f d) where
  len := by simp [rePrefix]
  dep := by
    intro i
    show (recAt d i).depth = (recAt (rePrefix f d) i).depth
    rcases recAt_rePrefix f d i with h | ⟨h1, h2⟩
    · rw [h]; rfl
    · rw [h1, h2]
  kind := by
    intro i
    show (recAt d i).kind = (recAt (rePrefix f d) i).kind
    rcases recAt_rePrefix f d i with h | ⟨h1, h2⟩
    · rw [h]; rfl
    · rw [h1, h2]
  nattrs := by
    intro i
    rcases recAt_rePrefix f d i with h | ⟨h1, h2⟩
    · rw [h]; simp [reRec]
    · rw [h1, h2]
  lname := by
    intro x
    cases x with
    | node i =>
      simp only [localName, kindAt]
      rcases recAt_rePrefix f d i with h | ⟨h1, h2⟩
      · rw [h]; rfl
      · rw [h1, h2]
    | attr i k =>
      simp only [localName, attrAt]
      rcases recAt_rePrefix f d i with h | ⟨h1, h2⟩
      · rw [h]
        show _ = (((recAt d i).attrs.map (reAttr f)).getD k default).name
        rcases attr_getD_re f (recAt d i).attrs k with g | ⟨g1, g2⟩
        · rw [g]; rfl
        · rw [g1, g2]
      · rw [h1, h2]
  uri := by
    intro x
    cases x with
    | node i =>
      simp only [nsURL, kindAt]
      rcases recAt_rePrefix f d i with h | ⟨h1, h2⟩
      · rw [h]; rfl
      · rw [h1, h2]
    | attr i k =>
      simp only [nsURL, attrAt]
      rcases recAt_rePrefix f d i with h | ⟨h1, h2⟩
      · rw [h]
        show _ = (((recAt d i).attrs.map (reAttr f)).getD k default).ns
        rcases attr_getD_re f (recAt d i).attrs k with g | ⟨g1, g2⟩
        · rw [g]; rfl
        · rw [g1, g2]
      · rw [h1, h2]

/-- what `rePrefix` does to the prefixes of the nodes of the document -/
theorem prefixOf_rePrefix (f : String → String) (d : Doc) (x : Ref) (hx : validRef d x = true)
    (hk : ∀ i, x = .node i → kindAt d i = .elem) :
    prefixOf (rePrefix f d) x = f (prefixOf d x) := by
  cases x with
  | node i =>
    have hi : i < d.length := by simpa [validRef] using hx
    have hr : recAt (rePrefix f d) i = reRec f (recAt d i) := by
      unfold recAt rePrefix; simp [List.getD_eq_getElem?_getD, hi]
    have hke := hk i rfl
    have hk2 : kindAt (rePrefix f d) i = .elem := by
      rw [← (rePrefix_same f d).kind]; exact hke
    simp only [prefixOf, hke, hk2, hr]; rfl
  | attr i k =>
    simp only [validRef, Bool.and_eq_true, decide_eq_true_eq] at hx
    have hr : recAt (rePrefix f d) i = reRec f (recAt d i) := by
      unfold recAt rePrefix; simp [List.getD_eq_getElem?_getD, hx.1]
    simp only [prefixOf, attrAt, hr]
    show (((recAt d i).attrs.map (reAttr f)).getD k default).pfx = _
    simp [List.getD_eq_getElem?_getD, hx.2, reAttr]

end XPathV.NameSem

section AxiomAudit
open XPathV.NameSem
#print axioms axisNodes_shape
#print axioms rePrefix_same
#print axioms prefixOf_rePrefix
end AxiomAudit
