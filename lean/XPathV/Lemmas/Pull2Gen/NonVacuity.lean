import XPathV.Lemmas.Pull2Gen
import XPathV.Theorems.C02
import XPathV.Theorems.C04
import XPathV.Theorems.C12
import XPathV.Theorems.NonVacuity.Common
/-!
# Non-vacuity of `DecOK'` and of the theorems that assume it

On the document `d0` of `Theorems/NonVacuity/Common.lean`
(`<r><a x="1">t</a><b x="2" y="3">u</b><a/><!--c--></r>`), with the plans `compile` produces:

* `/r/*[@y]` — existence test (node-list-valued predicate): `DecOK'` holds for every context node
  although `DecOK` is unsatisfiable; `drain2_eq_sel'`, `reach_evaluate_restarts'` (from a
  mid-iteration state, for another context node), `clone_fresh2'` applied; result `[b]`.
* `/r/*[string(@y)]` — string-valued predicate (the builder's merge plan); result `[b]`.
* `/r/*[2]` — number-valued predicate (the builder's merge plan); result `[b]`.
* `/r/*[@x][2]` — an existence test below a numeric predicate (two nested filter machines; the
  candidate positions the number is compared with are the ones the inner filter's `positmap`
  produces); result `[b]`.
* `/r/*/following-sibling::*[1]` — the limit: the last `a` is offered at position 2 (from the first
  `a`) and at position 1 (from `b`); the engine keeps it once; no `dec : Plan → Ref → Bool` is the
  engine's verdict (`decOK'_unsat_repeated_candidate`).
-/
namespace XPathV.Theorems.NonVacuity.Pull2Gen
open XPathV XPathV.Model XPathV.Theorems.NonVacuity XPathV.PosSem XPathV.PredSem

attribute [local instance] toyAlg

/-- unfold the engine (and the verdict `keepM`) with its equations, then let the kernel decide -/
local macro "keep_decide" : tactic =>
  `(tactic| (simp only [keepM, sel, evalP, argVals, bind, Except.bind, pure, Except.pure]; decide +kernel))

theorem good0 (i : Nat) (h : i < 8 := by decide) : Good d0 (.node i) := by
  simp only [Good, Ref.idx, d0, List.length_cons, List.length_nil]; omega

/-- `/r/*` -/
def inpC : Plan := .child (chE "") (.child (chE "r") .absolute)
/-- the machine of `/r/*` -/
def qC : PQ2 := .child (chE "") (.child (chE "r") (.absolute 0) none 0) none 0

/-- the candidates: `a[1]`, `b`, `a[2]` at positions 1, 2, 3 — whatever the context node -/
theorem inpC_sel (c : Ref) : sel (F := Int) d0 {} inpC c =
    .ok [⟨.node 2, 1, 0⟩, ⟨.node 4, 2, 0⟩, ⟨.node 6, 3, 0⟩] := by
  simp only [inpC, sel, bind, Except.bind]; decide +kernel

/-! ## `/r/*[@y]`: an existence test -/

def predE : Plan := .attr (atA "y") .context
def planE : Plan := .filter inpC predE

theorem planE_compiled : compile {} none "/r/*[@y]".toList = .ok planE := by decide +kernel

/-- the machine the builder creates -/
def qE : PQ2 := .filter qC predE 0 none
theorem qE_ofPlan : PQ2.ofPlan planE = some qE := rfl

/-- the decision function: "has an attribute `y`" -/
def decE (_ : Plan) (r : Ref) : Bool := !((attrsM d0 r).filter (test d0 {} (atA "y"))).isEmpty

/-- the predicate evaluates to a node list at every node -/
theorem predE_nodes (r : Ref) : evalP (F := Int) d0 {} predE r =
    .ok (.nodes ((plain ((attrsM d0 r).filter (test d0 {} (atA "y")))).map (·.r))) := by
  simp [predE, evalP, sel, bind, Except.bind]

/-- the old hypothesis is unsatisfiable for this machine, whatever `dec` -/
theorem qE_not_decOK (dec : Plan → Ref → Bool) : ¬ qE.DecOK (F := Int) d0 {} dec := by
  rintro ⟨_, h⟩
  have := h (.node 0)
  rw [predE_nodes] at this
  cases this

/-- **`DecOK'` is satisfiable for an existence-test filter**, for every context node -/
theorem qE_decOK' (c : Ref) : qE.DecOK' (F := Int) d0 {} decE c := by
  refine decOK'_filter_bsn d0 {} decE _ _ _ _ c trivial ?_
  intro l _ it _
  exact ⟨_, predE_nodes it.r, trivial, by simp [truthM, decE, plain]⟩

theorem planE_decOKP' (c : Ref) : DecOKP' (F := Int) d0 {} decE planE c :=
  (decOK'_iff_plan d0 {} decE qE c).1 (qE_decOK' c)

theorem planE_sel (c : Ref) : sel (F := Int) d0 {} planE c = .ok [⟨.node 4, 1, 0⟩] := by
  simp only [planE, inpC, predE]; sel_decide

/-- **`drain2_eq_sel'` / `C12_all_iterators_refine_sequence_any_predicate`** with every hypothesis discharged:
the pull machine of `/r/*[@y]` reports `[b]` (position 1), as `sel` does -/
theorem drain2_eq_sel'_instance :
    sel (F := Int) d0 {} planE (.node 0) = .ok [⟨.node 4, 1, 0⟩] ∧
    ∃ q' c' f0, (∀ f, f0 ≤ f → drain2 d0 {} decE f qE (.node 0) = some ([⟨.node 4, 1, 0⟩], q', c')) ∧
      (∀ c'', rem2 d0 {} decE c'' q' = []) := by
  obtain ⟨l, h1, h2⟩ := Theorems.C12.C12_all_iterators_refine_sequence_any_predicate (F := Int) d0 {} decE (by decide) planE qE
    qE_ofPlan (fun _ => wf_d0) (.node 0) (qE_decOK' _) (good0 0)
  rw [planE_sel] at h1; cases h1
  exact ⟨planE_sel _, h2⟩

/-- the state after `Evaluate` and one `Select` (which reported `b`) -/
def qE1 : PQ2 := (PQ2.select d0 {} decE 100 qE.evaluate (.node 0)).2.1

/-- that `Select` did report a node: `qE1` is a mid-iteration state (the machine has not yet
answered `nil`) -/
example : (PQ2.select d0 {} decE 100 qE.evaluate (.node 0)).1 = .yield (.node 4) := by decide +kernel

theorem qE1_reach : Reach d0 {} decE planE qE1 :=
  .select (f := 100) (c := .node 0) (.evaluate qE rfl) (good0 0) rfl
    (show (PQ2.select d0 {} decE 100 qE.evaluate (.node 0)).1 ≠ .fuel by decide +kernel)

/-- **`reach_evaluate_restarts'` / `evaluate_restarts_all_iterators_any_predicate`** with `hd`, `hw`, `Reach`,
`DecOK'`, `Good` discharged: re-evaluating the mid-iteration machine for another context node (`b`)
reports the whole sequence `[b]` again, and nothing else at any fuel -/
theorem evaluate_restarts'_instance :
    sel (F := Int) d0 {} planE (.node 4) = .ok [⟨.node 4, 1, 0⟩] ∧
    (∃ q' c' f0, ∀ f, f0 ≤ f → drain2 d0 {} decE f qE1.evaluate (.node 4) = some ([⟨.node 4, 1, 0⟩], q', c')) ∧
    (∀ f l' q' c', drain2 d0 {} decE f qE1.evaluate (.node 4) = some (l', q', c') → l' = [⟨.node 4, 1, 0⟩]) := by
  obtain ⟨l, h1, h2⟩ := Theorems.C02.evaluate_restarts_all_iterators_any_predicate (F := Int) d0 {} decE (by decide)
    planE (fun _ => wf_d0) qE1 qE1_reach (.node 4)
    (reach_decOK' d0 {} decE (by decide) planE (fun _ => wf_d0) _ (planE_decOKP' _) qE1 qE1_reach) (good0 4)
  rw [planE_sel] at h1; cases h1
  exact ⟨planE_sel _, h2⟩

/-- **`clone_fresh2'` / `clone_is_fresh_all_iterators_any_predicate`**: the clone of the mid-iteration machine
streams `[b]` -/
theorem clone_fresh'_instance :
    qE1.clone.evaluate = qE1.clone ∧ qE1.clone.Inv d0 ∧ rem2 d0 {} decE (.node 0) qE1.clone = [⟨.node 4, 1, 0⟩] := by
  have hd : qE1.DecOK' (F := Int) d0 {} decE (.node 0) :=
    reach_decOK' d0 {} decE (by decide) planE (fun _ => wf_d0) _ (planE_decOKP' _) qE1 qE1_reach
  obtain ⟨h1, h2, h3⟩ := Theorems.C04.clone_is_fresh_all_iterators_any_predicate (F := Int) d0 {} decE qE1 (.node 0) hd
  rw [(reach_inv d0 {} decE (by decide) planE (fun _ => wf_d0) qE1 qE1_reach).1, planE_sel] at h3
  cases h3
  exact ⟨h1, h2, rfl⟩

/-! ## `/r/*[string(@y)]`: a string-valued predicate (merge plan) -/

def predS : Plan := .func "string" .nil (.pcons (.attr (atA "y") .context) .pnil)
def planS : Plan := .merge (.child (chE "r") .absolute) (.filter (.child (chE "") .context) predS)

theorem planS_compiled : compile {} none "/r/*[string(@y)]".toList = .ok planS := by decide +kernel

def qS : PQ2 := .merge (.child (chE "r") (.absolute 0) none 0) (.filter (.child (chE "") (.context 0) none 0) predS 0 none) none
theorem qS_ofPlan : PQ2.ofPlan planS = some qS := rfl

theorem rootS_sel (c : Ref) : sel (F := Int) d0 {} (.child (chE "r") .absolute) c = .ok [⟨.node 1, 1, 0⟩] := by
  simp only [sel, bind, Except.bind]; decide +kernel

theorem kidsS_sel : sel (F := Int) d0 {} (.child (chE "") .context) (.node 1) =
    .ok [⟨.node 2, 1, 0⟩, ⟨.node 4, 2, 0⟩, ⟨.node 6, 3, 0⟩] := by sel_decide

/-- the predicate's values at the three candidates are the strings `""`, `"3"`, `""` -/
example : evalP (F := Int) d0 {} predS (.node 4) = .ok (.str "3") := by simp only [predS]; sel_decide

theorem qS_decOK' (c : Ref) : qS.DecOK' (F := Int) d0 {} (fun _ r => r == .node 4) c := by
  refine ⟨trivial, fun l hl it hit => ?_⟩
  rw [PQ2.plan, PQ2.plan, rootS_sel] at hl
  cases hl
  simp only [List.mem_singleton] at hit
  subst hit
  refine ⟨trivial, fun l hl it hit => ?_⟩
  rw [PQ2.plan, PQ2.plan, kidsS_sel] at hl
  cases hl
  simp only [List.mem_cons, List.not_mem_nil, or_false] at hit
  rcases hit with rfl | rfl | rfl <;> (simp only [predS]; keep_decide)

theorem planS_sel (c : Ref) : sel (F := Int) d0 {} planS c = .ok [⟨.node 4, 1, 0⟩] := by
  simp only [planS, predS]; sel_decide

theorem drain2_eq_sel'_string_instance :
    ∃ q' c' f0, (∀ f, f0 ≤ f → drain2 d0 {} (fun _ r => r == .node 4) f qS (.node 0) = some ([⟨.node 4, 1, 0⟩], q', c')) := by
  obtain ⟨l, h1, q', c', f0, h2, _⟩ := drain2_eq_sel' (F := Int) d0 {} (fun _ r => r == .node 4) (by decide) planS qS
    qS_ofPlan (fun _ => wf_d0) (.node 0) (qS_decOK' _) (good0 0)
  rw [planS_sel] at h1; cases h1
  exact ⟨q', c', f0, h2⟩

/-! ## `/r/*[2]`: a number-valued predicate (merge plan) -/

def planN : Plan := .merge (.child (chE "r") .absolute) (.filter (.child (chE "") .context) (.constNum "2"))

theorem planN_compiled : compile {} none "/r/*[2]".toList = .ok planN := by decide +kernel

def qN : PQ2 :=
  .merge (.child (chE "r") (.absolute 0) none 0) (.filter (.child (chE "") (.context 0) none 0) (.constNum "2") 0 none) none
theorem qN_ofPlan : PQ2.ofPlan planN = some qN := rfl

/-- the decision function: "is the element `b`" — the second child of `r` -/
def decN (_ : Plan) (r : Ref) : Bool := r == .node 4

/-- **`DecOK'` is satisfiable for a numeric (positional) predicate**: among the candidates the filter
is offered (the children of `r`, once each) the verdict "position = 2" is a function of the node -/
theorem qN_decOK' (c : Ref) : qN.DecOK' (F := Int) d0 {} decN c := by
  refine ⟨trivial, fun l hl it hit => ?_⟩
  rw [PQ2.plan, PQ2.plan, rootS_sel] at hl
  cases hl
  simp only [List.mem_singleton] at hit
  subst hit
  refine ⟨trivial, fun l hl it hit => ?_⟩
  rw [PQ2.plan, PQ2.plan, kidsS_sel] at hl
  cases hl
  simp only [List.mem_cons, List.not_mem_nil, or_false] at hit
  rcases hit with rfl | rfl | rfl <;> keep_decide

theorem planN_decOKP' (c : Ref) : DecOKP' (F := Int) d0 {} decN planN c :=
  (decOK'_iff_plan d0 {} decN qN c).1 (qN_decOK' c)

theorem planN_sel (c : Ref) : sel (F := Int) d0 {} planN c = .ok [⟨.node 4, 1, 0⟩] := by
  simp only [planN]; sel_decide

/-- `drain2_eq_sel'` for `/r/*[2]`: the machine reports `[b]` -/
theorem drain2_eq_sel'_numeric_instance :
    ∃ q' c' f0, (∀ f, f0 ≤ f → drain2 d0 {} decN f qN (.node 0) = some ([⟨.node 4, 1, 0⟩], q', c')) ∧
      (∀ c'', rem2 d0 {} decN c'' q' = []) := by
  obtain ⟨l, h1, h2⟩ := drain2_eq_sel' (F := Int) d0 {} decN (by decide) planN qN
    qN_ofPlan (fun _ => wf_d0) (.node 0) (qN_decOK' _) (good0 0)
  rw [planN_sel] at h1; cases h1
  exact h2

def qN1 : PQ2 := (PQ2.select d0 {} decN 100 qN.evaluate (.node 0)).2.1

example : (PQ2.select d0 {} decN 100 qN.evaluate (.node 0)).1 = .yield (.node 4) := by decide +kernel

theorem qN1_reach : Reach d0 {} decN planN qN1 :=
  .select (f := 100) (c := .node 0) (.evaluate qN rfl) (good0 0) rfl
    (show (PQ2.select d0 {} decN 100 qN.evaluate (.node 0)).1 ≠ .fuel by decide +kernel)

/-- `reach_evaluate_restarts'` for `/r/*[2]` from the state after one `Select` -/
theorem evaluate_restarts'_numeric_instance :
    (∃ q' c' f0, ∀ f, f0 ≤ f → drain2 d0 {} decN f qN1.evaluate (.node 6) = some ([⟨.node 4, 1, 0⟩], q', c')) ∧
    (∀ f l' q' c', drain2 d0 {} decN f qN1.evaluate (.node 6) = some (l', q', c') → l' = [⟨.node 4, 1, 0⟩]) := by
  obtain ⟨l, h1, h2⟩ := reach_evaluate_restarts' (F := Int) d0 {} decN (by decide)
    planN (fun _ => wf_d0) qN1 qN1_reach (.node 6)
    (reach_decOK' d0 {} decN (by decide) planN (fun _ => wf_d0) _ (planN_decOKP' _) qN1 qN1_reach) (good0 6)
  rw [planN_sel] at h1; cases h1
  exact h2

/-! ## `/r/*[@x][2]`: a numeric predicate over the output of an existence-test filter -/

def predX : Plan := .attr (atA "x") .context
def planX : Plan := .filter (.filter inpC predX) (.constNum "2")

theorem planX_compiled : compile {} none "/r/*[@x][2]".toList = .ok planX := by decide +kernel

def qX : PQ2 := .filter (.filter qC predX 0 none) (.constNum "2") 0 none
theorem qX_ofPlan : PQ2.ofPlan planX = some qX := rfl

/-- "has an attribute `x`" for the inner predicate, "is `b`" for the numeric one -/
def decX (p : Plan) (r : Ref) : Bool :=
  match p with
  | .constNum _ => r == .node 4
  | _ => !((attrsM d0 r).filter (test d0 {} (atA "x"))).isEmpty

theorem predX_nodes (r : Ref) : evalP (F := Int) d0 {} predX r =
    .ok (.nodes ((plain ((attrsM d0 r).filter (test d0 {} (atA "x")))).map (·.r))) := by
  simp [predX, evalP, sel, bind, Except.bind]

/-- what the numeric filter is offered: `a[1]` at position 1, `b` at position 2 — the positions are
those the inner filter machine's `positmap` produces -/
theorem innerX_sel (c : Ref) : sel (F := Int) d0 {} (.filter inpC predX) c = .ok [⟨.node 2, 1, 0⟩, ⟨.node 4, 2, 0⟩] := by
  simp only [inpC, predX]; sel_decide

theorem qX_decOK' (c : Ref) : qX.DecOK' (F := Int) d0 {} decX c := by
  refine ⟨decOK'_filter_bsn d0 {} decX _ _ _ _ c trivial ?_, fun l hl it hit => ?_⟩
  · intro l _ it _
    exact ⟨_, predX_nodes it.r, trivial, by simp [truthM, decX, predX, plain]⟩
  · have : (PQ2.filter qC predX 0 none).plan = .filter inpC predX := rfl
    rw [this, innerX_sel] at hl
    cases hl
    simp only [List.mem_cons, List.not_mem_nil, or_false] at hit
    rcases hit with rfl | rfl <;> keep_decide

theorem planX_sel (c : Ref) : sel (F := Int) d0 {} planX c = .ok [⟨.node 4, 1, 0⟩] := by
  simp only [planX, inpC, predX]; sel_decide

theorem drain2_eq_sel'_nested_instance :
    ∃ q' c' f0, (∀ f, f0 ≤ f → drain2 d0 {} decX f qX (.node 0) = some ([⟨.node 4, 1, 0⟩], q', c')) := by
  obtain ⟨l, h1, q', c', f0, h2, _⟩ := drain2_eq_sel' (F := Int) d0 {} decX (by decide) planX qX
    qX_ofPlan (fun _ => wf_d0) (.node 0) (qX_decOK' _) (good0 0)
  rw [planX_sel] at h1; cases h1
  exact ⟨q', c', f0, h2⟩

/-! ## the limit: `/r/*/following-sibling::*[1]` -/

def planU : Plan :=
  .merge inpC (.filter (.following (axE "following-sibling" "") true .context) (.constNum "1"))

theorem planU_compiled : compile {} none "/r/*/following-sibling::*[1]".toList = .ok planU := by decide +kernel

def qU : PQ2 :=
  .merge qC (.filter (.following (axE "following-sibling" "") true (.context 0) none 0) (.constNum "1") 0 none) none
theorem qU_ofPlan : PQ2.ofPlan planU = some qU := rfl

/-- the engine keeps `b` (first following sibling of `a[1]`) and `a[2]` (first following sibling of `b`) -/
theorem planU_sel : sel (F := Int) d0 {} planU (.node 0) = .ok [⟨.node 4, 1, 0⟩, ⟨.node 6, 1, 0⟩] := by
  simp only [planU, inpC]; sel_decide

/-- **a numeric predicate `DecOK'` cannot cover**: `a[2]` is offered to the filter `[1]` twice — at
position 2 (root `a[1]`: rejected) and at position 1 (root `b`: kept).  `Model/Pull2.lean` hands
`dec` the plan `constNum "1"` and the node `a[2]` both times; no function of these two is the
engine's verdict.  To cover this plan the filter machine would have to pass the input machine's
`position()` to `dec`. -/
theorem decOK'_unsat_repeated_candidate (dec : Plan → Ref → Bool) :
    ¬ qU.DecOK' (F := Int) d0 {} dec (.node 0) := by
  rintro ⟨_, h⟩
  have hq : qC.plan = inpC := rfl
  rw [hq] at h
  have h2 := (h _ (inpC_sel _) ⟨.node 2, 1, 0⟩ (by simp)).2
  have h4 := (h _ (inpC_sel _) ⟨.node 4, 2, 0⟩ (by simp)).2
  have s2 : sel (F := Int) d0 {} (PQ2.following (axE "following-sibling" "") true (.context 0) none 0).plan (.node 2)
      = .ok [⟨.node 4, 1, 0⟩, ⟨.node 6, 2, 0⟩] := by simp only [PQ2.plan]; sel_decide
  have s4 : sel (F := Int) d0 {} (PQ2.following (axE "following-sibling" "") true (.context 0) none 0).plan (.node 4)
      = .ok [⟨.node 6, 1, 0⟩] := by simp only [PQ2.plan]; sel_decide
  have k2 := h2 _ s2 ⟨.node 6, 2, 0⟩ (by simp)
  have k4 := h4 _ s4 ⟨.node 6, 1, 0⟩ (by simp)
  have e2 : keepM (F := Int) d0 {} (.constNum "1") ⟨.node 6, 2, 0⟩ = .ok false := by keep_decide
  have e4 : keepM (F := Int) d0 {} (.constNum "1") ⟨.node 6, 1, 0⟩ = .ok true := by keep_decide
  rw [e2] at k2
  rw [e4] at k4
  injection k2 with k2
  injection k4 with k4
  rw [← k2] at k4
  cases k4

end XPathV.Theorems.NonVacuity.Pull2Gen

section AxiomAudit
open XPathV.Theorems.NonVacuity.Pull2Gen
end AxiomAudit
