import XPathV.Lemmas.Pull2Gen.DecOK
/-!
# `sel_full2'`: the reset machine's stream is `sel` of the plan, under `DecOK'`

Same induction as `sel_full2` (Pull2/SelFull.lean).  Fifteen of the sixteen cases do not look at the
decision function at all; in the filter case the hypothesis is used exactly once, to replace the
engine's verdict for a candidate item of the input sequence by `dec pred item.r`; in the merge case
the child's hypothesis is needed at the roots the input supplies.
-/
namespace XPathV.Model
open XPathV XPathV.PredSem

section
variable {F : Type} [NumAlg F] (d : Doc) (cfg : ECfg) (dec : Plan → Ref → Bool)

/-- **The reset machine's stream is the sequence model's sequence** — for filters whose predicates
are boolean-, string-, node-list- (existence tests) or number-valued alike, provided `dec` is the
engine's verdict on the candidates offered (`DecOK'`). -/
theorem sel_full2' : ∀ (q : PQ2) (c : Ref), q.DecOK' (F := F) d cfg dec c →
    sel (F := F) d cfg q.plan c = .ok (full2 d cfg dec c q) := by
  intro q
  induction q with
  | context n => intro c _; simp only [PQ2.plan, sel, full2]
  | absolute n => intro c _; simp only [PQ2.plan, sel, full2]
  | child a inp it pos ih | cachedChild a inp it pos ih | attr a inp it ih =>
    intro c h; simp only [PQ2.plan, sel, ih c h, full2]; rfl
  | self a inp ih =>
    intro c h; simp only [PQ2.plan, sel, ih c h, full2, fmapR_self]; rfl
  | parent a inp ih =>
    intro c h; simp only [PQ2.plan, sel, ih c h, full2, fmapR_parent]; rfl
  | descendant a s inp it pos level ih =>
    intro c h; simp only [PQ2.plan, sel, ih c h, full2, descItems]; rfl
  | ancestor a s inp it tb ih =>
    intro c h; simp only [PQ2.plan, sel, ih c h, full2, ancCands, Bool.true_and]; rfl
  | following a sib inp it pos ih | preceding a sib inp it pos ih =>
    intro c h; simp only [PQ2.plan, sel, ih c h, full2]; rfl
  | descOverDesc a ms inp level pos cn ih =>
    intro c h; simp only [PQ2.plan, sel, ih c h, full2]; rfl
  | group inp pos ih =>
    intro c h; simp only [PQ2.plan, sel, ih c h, full2, fmapR_group, numbered_eq]; rfl
  | union l r it ihl ihr =>
    intro c h; simp only [PQ2.plan, sel, ihl c h.1, ihr c h.2, full2]; rfl
  | merge inp ch it ih ihc =>
    intro c h
    simp only [PQ2.plan, sel, ih c h.1, full2, bind, Except.bind]
    rw [mapM_ok _ (fun it => full2 d cfg dec it.r ch) _ (fun x hx => ihc x.r (h.2 _ (ih c h.1) x hx))]
    exact congrArg _ (flatMap_plain_flatten _ (fun r => full2 d cfg dec r ch))
  | filter inp pred pos pm ih =>
    intro c h
    rw [PQ2.plan, sel_filter_keepM]
    simp only [ih c h.1, full2, bind, Except.bind]
    rw [mapM_ok _ (fun it => dec pred it.r) _ (fun it hit => h.2 _ (ih c h.1) it hit)]
    simp only [zip_map_filterMap, filterPositions_eq]

/-- the candidates a filter is offered are the stream of its input machine: `DecOK'` of a filter,
stated on the machine side -/
theorem decOK'_filter_iff_full2 (inp : PQ2) (pred : Plan) (pos : Nat) (pm : Option (List (Nat × Nat))) (c : Ref) :
    (PQ2.filter inp pred pos pm).DecOK' (F := F) d cfg dec c ↔
      inp.DecOK' (F := F) d cfg dec c ∧
        ∀ it ∈ full2 d cfg dec c inp, keepM (F := F) d cfg pred it = .ok (dec pred it.r) := by
  constructor
  · intro h; exact ⟨h.1, fun it hit => h.2 _ (sel_full2' d cfg dec inp c h.1) it hit⟩
  · intro h
    refine ⟨h.1, fun l hl it hit => h.2 it ?_⟩
    rw [sel_full2' d cfg dec inp c h.1] at hl
    cases hl; exact hit

end

end XPathV.Model
