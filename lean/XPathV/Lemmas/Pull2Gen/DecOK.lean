import XPathV.Lemmas.Pull2.SelFull
/-!
# `DecOK'`: the decision function is the engine's *verdict*, whatever kind of value the predicate has

`PQ2.DecOK` (Pull2/SelFull.lean) asks every filter predicate of a machine to evaluate to the
*boolean* `dec pred r`.  That excludes existence tests (`a[b]`: the predicate plan is a path plan,
its value a node list), string-valued and number-valued predicates.

`PQ2.DecOK'` asks only that `dec pred r` is the keep/drop verdict the sequence model `sel`
(`Model/Engine.lean`, `.filter` arm) reaches for the candidate — `keepM`, literally the body of the
`mapM` in that arm: evaluate the predicate at the candidate, then `predDecision` (boolean: itself,
string: non-empty, node list: non-empty, number: equals the candidate's position; the two remaining
value kinds `int`/`nilv` fall back on `sel pred` being non-empty).  The requirement ranges over the
candidates the filter is actually offered: the items of `sel` of the filter's input for the context
node `c` the machine is run with (and, for a merge, the child's requirement ranges over the roots
the input supplies).
-/
namespace XPathV.Model
open XPathV XPathV.PredSem

section
variable {F : Type} [NumAlg F] (d : Doc) (cfg : ECfg) (dec : Plan → Ref → Bool)

/-- the verdict of the `.filter` arm of `sel` for one candidate item: the body of its `mapM` -/
def keepM (pred : Plan) (it : Item) : Except EErr Bool := do
  let v ← evalP (F := F) d cfg pred it.r
  match v with
  | .bool _ | .str _ | .num _ | .nodes _ => pure (predDecision v it false)
  | _ => do
    let s ← sel (F := F) d cfg pred it.r
    pure (predDecision v it (!s.isEmpty))

/-- the `.filter` arm of `sel`, with `keepM` named -/
theorem sel_filter_keepM (inp pred : Plan) (c : Ref) :
    sel (F := F) d cfg (.filter inp pred) c = (do
      let ins ← sel (F := F) d cfg inp c
      let flags ← ins.mapM (keepM (F := F) d cfg pred)
      .ok (filterPositions ((ins.zip flags).filterMap (fun (it, b) => if b then some it else none)))) := by
  simp only [sel]; rfl

/-! ### the verdict by value kind -/

theorem keepM_bool {pred : Plan} {it : Item} {b : Bool}
    (h : evalP (F := F) d cfg pred it.r = .ok (.bool b)) : keepM (F := F) d cfg pred it = .ok b := by
  simp only [keepM, h, bind, Except.bind, pure, Except.pure, predDecision]

theorem keepM_str {pred : Plan} {it : Item} {s : String}
    (h : evalP (F := F) d cfg pred it.r = .ok (.str s)) : keepM (F := F) d cfg pred it = .ok (s != "") := by
  simp only [keepM, h, bind, Except.bind, pure, Except.pure, predDecision]

theorem keepM_nodes {pred : Plan} {it : Item} {l : List Ref}
    (h : evalP (F := F) d cfg pred it.r = .ok (.nodes l)) : keepM (F := F) d cfg pred it = .ok (!l.isEmpty) := by
  simp only [keepM, h, bind, Except.bind, pure, Except.pure, predDecision]

/-- a number-valued predicate keeps the candidate iff the number is the candidate's position *in the
filter's input sequence* (`it.pos`) -/
theorem keepM_num {pred : Plan} {it : Item} {x : F}
    (h : evalP (F := F) d cfg pred it.r = .ok (.num x)) :
    keepM (F := F) d cfg pred it = .ok (NumAlg.toInt x == some (it.pos : Int)) := by
  simp only [keepM, h, bind, Except.bind, pure, Except.pure, predDecision]

/-- boolean, string, node list: the verdict is `truthM` of the value and does not look at the position -/
theorem keepM_bsn {pred : Plan} {it : Item} {v : MVal F}
    (h : evalP (F := F) d cfg pred it.r = .ok v) (hv : IsBSN v) : keepM (F := F) d cfg pred it = .ok (truthM v) := by
  cases v with
  | bool b => exact keepM_bool d cfg h
  | str s => exact keepM_str d cfg h
  | nodes l => exact keepM_nodes d cfg h
  | num x => exact absurd hv (by simp [IsBSN])
  | int i => exact absurd hv (by simp [IsBSN])
  | nilv => exact absurd hv (by simp [IsBSN])

/-- the verdict depends on the item only through its node and its position -/
theorem keepM_congr (pred : Plan) {it it' : Item} (hr : it.r = it'.r) (hp : it.pos = it'.pos) :
    keepM (F := F) d cfg pred it = keepM (F := F) d cfg pred it' := by
  simp only [keepM, hr, predDecision, hp]

/-! ### `DecOK'` -/

/-- `dec` is the engine's verdict for every filter in `q`, on every candidate that filter is offered
when the machine is run with context node `c` -/
def PQ2.DecOK' : PQ2 → Ref → Prop
  | .context _, _ => True
  | .absolute _, _ => True
  | .child _ inp _ _, c | .cachedChild _ inp _ _, c | .attr _ inp _, c | .self _ inp, c | .parent _ inp, c
  | .descendant _ _ inp _ _ _, c | .ancestor _ _ inp _ _, c | .following _ _ inp _ _, c
  | .preceding _ _ inp _ _, c | .group inp _, c | .descOverDesc _ _ inp _ _ _, c => PQ2.DecOK' inp c
  | .filter inp pred _ _, c =>
    PQ2.DecOK' inp c ∧
      ∀ l, sel (F := F) d cfg inp.plan c = .ok l → ∀ it ∈ l, keepM (F := F) d cfg pred it = .ok (dec pred it.r)
  | .union l r _, c => PQ2.DecOK' l c ∧ PQ2.DecOK' r c
  | .merge inp ch _, c =>
    PQ2.DecOK' inp c ∧ ∀ l, sel (F := F) d cfg inp.plan c = .ok l → ∀ it ∈ l, PQ2.DecOK' ch it.r

/-- `DecOK'`, read off the plan: it is a property of the configuration, not of the iteration state -/
def DecOKP' : Plan → Ref → Prop
  | .child _ i, c | .cachedChild _ i, c | .attr _ i, c | .self _ i, c | .parent _ i, c | .descendant _ _ i, c
  | .ancestor _ _ i, c | .following _ _ i, c | .preceding _ _ i, c | .group i, c | .descOverDesc _ _ i, c =>
    DecOKP' i c
  | .filter i pred, c =>
    DecOKP' i c ∧ ∀ l, sel (F := F) d cfg i c = .ok l → ∀ it ∈ l, keepM (F := F) d cfg pred it = .ok (dec pred it.r)
  | .union l r, c => DecOKP' l c ∧ DecOKP' r c
  | .merge i ch, c => DecOKP' i c ∧ ∀ l, sel (F := F) d cfg i c = .ok l → ∀ it ∈ l, DecOKP' ch it.r
  | _, _ => True

theorem decOK'_iff_plan (q : PQ2) : ∀ c, q.DecOK' (F := F) d cfg dec c ↔ DecOKP' (F := F) d cfg dec q.plan c := by
  induction q <;> intro c <;> simp_all [PQ2.DecOK', PQ2.plan, DecOKP']

/-- two states of the same configuration satisfy `DecOK'` together -/
theorem decOK'_plan_congr {q q' : PQ2} (h : q'.plan = q.plan) (c : Ref) :
    q'.DecOK' (F := F) d cfg dec c ↔ q.DecOK' (F := F) d cfg dec c := by
  rw [decOK'_iff_plan, decOK'_iff_plan, h]

/-- **the old hypothesis is an instance**: a boolean-valued predicate whose value is `dec pred r`
everywhere satisfies the verdict requirement for every context node -/
theorem PQ2.DecOK.toGen : ∀ (q : PQ2), q.DecOK (F := F) d cfg dec → ∀ c, q.DecOK' (F := F) d cfg dec c := by
  intro q
  induction q with
  | context n => intro _ c; trivial
  | absolute n => intro _ c; trivial
  | child a inp it pos ih | cachedChild a inp it pos ih | attr a inp it ih | self a inp ih | parent a inp ih
  | descendant a s inp it pos level ih | ancestor a s inp it tb ih | following a sib inp it pos ih
  | preceding a sib inp it pos ih | descOverDesc a ms inp level pos cn ih | group inp pos ih =>
    intro h c; exact ih h c
  | union l r it ihl ihr => intro h c; exact ⟨ihl h.1 c, ihr h.2 c⟩
  | merge inp ch it ih ihc => intro h c; exact ⟨ih h.1 c, fun _ _ x _ => ihc h.2 x.r⟩
  | filter inp pred pos pm ih =>
    intro h c
    exact ⟨ih h.1 c, fun _ _ x _ => keepM_bool d cfg (h.2 x.r)⟩

/-! ### sufficient conditions for one filter -/

/-- position-independent value kinds (boolean, string, node list — existence tests): it is enough
that `dec` is the truth of the predicate's value at every candidate -/
theorem decOK'_filter_bsn (inp : PQ2) (pred : Plan) (pos : Nat) (pm : Option (List (Nat × Nat))) (c : Ref)
    (hi : inp.DecOK' (F := F) d cfg dec c)
    (hv : ∀ l, sel (F := F) d cfg inp.plan c = .ok l → ∀ it ∈ l,
      ∃ v, evalP (F := F) d cfg pred it.r = .ok v ∧ IsBSN v ∧ truthM v = dec pred it.r) :
    (PQ2.filter inp pred pos pm).DecOK' (F := F) d cfg dec c := by
  refine ⟨hi, fun l hl it hit => ?_⟩
  obtain ⟨v, h1, h2, h3⟩ := hv l hl it hit
  rw [keepM_bsn d cfg h1 h2, h3]

/-- number-valued predicates: `dec` has to answer "the number is this candidate's position in the
input sequence" -/
theorem decOK'_filter_num (inp : PQ2) (pred : Plan) (pos : Nat) (pm : Option (List (Nat × Nat))) (c : Ref)
    (hi : inp.DecOK' (F := F) d cfg dec c)
    (hv : ∀ l, sel (F := F) d cfg inp.plan c = .ok l → ∀ it ∈ l,
      ∃ x, evalP (F := F) d cfg pred it.r = .ok (.num x) ∧
        (NumAlg.toInt x == some (it.pos : Int)) = dec pred it.r) :
    (PQ2.filter inp pred pos pm).DecOK' (F := F) d cfg dec c := by
  refine ⟨hi, fun l hl it hit => ?_⟩
  obtain ⟨x, h1, h2⟩ := hv l hl it hit
  rw [keepM_num d cfg h1, h2]

/-- **the limit of `dec : Plan → Ref → Bool`**: the machine hands `dec` the predicate plan and the
candidate node, not the candidate's position.  If `DecOK'` holds for a filter, the engine's verdict
is the same for any two candidates of its input sequence that are the same node. -/
theorem decOK'_verdict_by_node (inp : PQ2) (pred : Plan) (pos : Nat) (pm : Option (List (Nat × Nat))) (c : Ref)
    (h : (PQ2.filter inp pred pos pm).DecOK' (F := F) d cfg dec c) (l : List Item)
    (hl : sel (F := F) d cfg inp.plan c = .ok l) (it it' : Item) (hit : it ∈ l) (hit' : it' ∈ l)
    (hr : it.r = it'.r) : keepM (F := F) d cfg pred it = keepM (F := F) d cfg pred it' := by
  rw [h.2 l hl it hit, h.2 l hl it' hit', hr]

end

end XPathV.Model
