import XPathV.Lemmas.Pull2.StepAll
import XPathV.Lemmas.Pull2.SelFull
import XPathV.Lemmas.Pull2.Mono
import XPathV.Lemmas.Pull2.Context
/-!
# The extended pull machine refines the sequence model (C12 second half, C02/C04 state reset)

`Model/Pull2.lean` is the pull machine for *all* node-set iterator types of `query.go`
(`PQ2.select`, `PQ2.evaluate`, `PQ2.clone`, `PQ2.moveNext`, `drain2`; `t.Current()` is threaded).
Main statements — for every state of every type; the hypothesis `NeedsWF q.plan → WF d` asks for a
well-formed document only when the configuration contains a non-sibling `followingQuery`:

* `select_step2` (Pull2/StepAll)  one-pull lemma: from any state satisfying `PQ2.Inv`, `Select`
  returns the head of `rem2 c q` and leaves the tail (compositional per type: `Pull2/Steps.lean`,
  schemes `closure_step`, `closure_flat`, `fmap_step`, `fmap_step_fin` in `Pull2/Generic.lean`)
* `sel_full2` (Pull2/SelFull)     the stream of a reset machine is `sel` of the plan
* `drain2_eq_sel`, `drain2_refs_eq_sel` (**Q1**)  draining the builder's machine yields `sel`
* `drain2_complete` (**Q1'**)     from any state satisfying the invariant, draining yields `rem2`
* `exhausted_stays2`, `select_done_exhausted`, `exhausted_for_ever` (**Q2**)  exhausted stays exhausted
* `drain2_evaluate`, `reach_evaluate_restarts` (**Q3**)  `Evaluate` from any state whatsoever restarts
  the whole sequence: no state leaks between evaluations
* `clone_fresh2` (**Q4**)         `Clone` gives a machine in reset state with the same sequence
* `moveNext_current` (**Q5**)     after `MoveNext` returned true, `Current` is the node just reported,
  `position()`/`depth()` are those of the sequence model's item
* `select_mono2`, `select_sound2`, `drain2_sound`  more fuel never changes an answer; any answer
  other than "out of fuel" is the one of the one-pull lemma
* `Reach`, `reach_inv`            the invariant holds in every state reachable by `Evaluate`/`Clone`/`Select`
* `select_preserves_context` (Pull2/Context)  no `Select` leaves the context node `t.Current()` moved
  (no invariant, no hypothesis on the state: by induction on the fuel over `PQ2.select` alone)
-/
namespace XPathV.Model
open XPathV

section
variable (d : Doc) (cfg : ECfg) (dec : Plan → Ref → Bool)

/-! ## `ofPlan` -/

theorem PQ2.ofPlan_spec : ∀ (p : Plan) (q : PQ2), PQ2.ofPlan p = some q → q.plan = p ∧ q.evaluate = q := by
  intro p
  induction p with
  | context => intro q h; simp only [PQ2.ofPlan] at h; injection h with h; subst h; exact ⟨rfl, rfl⟩
  | absolute => intro q h; simp only [PQ2.ofPlan] at h; injection h with h; subst h; exact ⟨rfl, rfl⟩
  | child a inp ih | cachedChild a inp ih | attr a inp ih | self a inp ih | parent a inp ih | group inp ih =>
    intro q h
    simp only [PQ2.ofPlan] at h
    cases hi : PQ2.ofPlan inp with
    | none => simp [hi] at h
    | some i =>
      simp only [hi, Option.map] at h
      injection h with h; subst h
      obtain ⟨h1, h2⟩ := ih i hi
      simp [PQ2.plan, PQ2.evaluate, h1, h2]
  | descendant a s inp ih | ancestor a s inp ih | following a s inp ih | preceding a s inp ih
  | descOverDesc a s inp ih =>
    intro q h
    simp only [PQ2.ofPlan] at h
    cases hi : PQ2.ofPlan inp with
    | none => simp [hi] at h
    | some i =>
      simp only [hi, Option.map] at h
      injection h with h; subst h
      obtain ⟨h1, h2⟩ := ih i hi
      simp [PQ2.plan, PQ2.evaluate, h1, h2]
  | filter inp pred ih _ =>
    intro q h
    simp only [PQ2.ofPlan] at h
    cases hi : PQ2.ofPlan inp with
    | none => simp [hi] at h
    | some i =>
      simp only [hi, Option.map] at h
      injection h with h; subst h
      obtain ⟨h1, h2⟩ := ih i hi
      simp [PQ2.plan, PQ2.evaluate, h1, h2]
  | union l r ihl ihr | merge l r ihl ihr =>
    intro q h
    simp only [PQ2.ofPlan] at h
    cases hl : PQ2.ofPlan l with
    | none => simp [hl] at h
    | some l' =>
      cases hr : PQ2.ofPlan r with
      | none => simp [hl, hr] at h
      | some r' =>
        simp only [hl, hr, Option.bind, Option.map] at h
        injection h with h; subst h
        obtain ⟨h1, h2⟩ := ihl l' hl
        obtain ⟨h3, h4⟩ := ihr r' hr
        simp [PQ2.plan, PQ2.evaluate, h1, h2, h3, h4]
  | _ => intro q h; simp [PQ2.ofPlan] at h

/-! ## Draining -/

/-- **Q1'.** With enough fuel, `for t.MoveNext() {…}` from *any* state satisfying the invariant
reports exactly the remaining stream `rem2 c q` — nodes, `position()`, `depth()` — and ends in an
exhausted, consumed state of the same configuration. -/
theorem drain2_complete (hd : 0 < d.length) : ∀ (l : List Item) (q : PQ2), (NeedsWF q.plan → WF d) → q.Inv d →
    ∀ c, Good d c → rem2 d cfg dec c q = l →
    ∃ q' c' f0, (∀ f, f0 ≤ f → drain2 d cfg dec f q c = some (l, q', c')) ∧
      (∀ c'', rem2 d cfg dec c'' q' = []) ∧ q'.Cons d ∧ q'.plan = q.plan := by
  intro l
  induction l with
  | nil =>
    intro q hs hi c hg hr
    obtain ⟨q1, c1, f1, hsel, hrem, hcons, hsame, _, _⟩ := select_step2 d cfg dec hd q hs hi c hg
    simp only [mach2_sel, mach2_rem] at hsel hrem
    rw [hr] at hsel hrem
    refine ⟨q1, c1, f1 + 1, fun f hf => ?_, fun c'' => ?_, hcons, hsame⟩
    · obtain ⟨f', rfl⟩ : ∃ f', f = f' + 1 := ⟨f - 1, by omega⟩
      simp only [drain2, PQ2.moveNext, hsel f' (by omega), headRes]
    · rw [rem2_cons_indep d cfg dec q1 hcons c'' c1, hrem]; rfl
  | cons x xs ih =>
    intro q hs hi c hg hr
    obtain ⟨q1, c1, f1, hsel, hrem, hcons, hsame, _, hpos⟩ := select_step2 d cfg dec hd q hs hi c hg
    simp only [mach2_sel, mach2_rem, mach2_pos, mach2_lvl] at hsel hrem hpos
    have hsame : q1.plan = q.plan := hsame
    obtain ⟨hp1, hp2, hgx⟩ := hpos x xs hr
    rw [hr] at hsel hrem
    simp only [List.tail_cons] at hrem
    have hrem' : rem2 d cfg dec x.r q1 = xs := by rw [rem2_cons_indep d cfg dec q1 hcons x.r c1]; exact hrem
    obtain ⟨q', c', f2, hdr, hnil, hcons', hplan'⟩ :=
      ih q1 (by rw [hsame]; exact hs) (PQ2.cons_inv d _ hcons) x.r hgx hrem'
    refine ⟨q', c', max f1 f2 + 1, fun f hf => ?_, hnil, hcons', by rw [hplan', hsame]⟩
    obtain ⟨f', rfl⟩ : ∃ f', f = f' + 1 := ⟨f - 1, by omega⟩
    simp only [drain2, PQ2.moveNext, hsel f' (by omega), headRes, hdr f' (by omega), Option.map, hp1, hp2]

end

section
variable {F : Type} [NumAlg F] (d : Doc) (cfg : ECfg) (dec : Plan → Ref → Bool)

/-- the stream of a state produced by `Evaluate` is `sel` of the plan -/
theorem rem2_evaluate_sel (q : PQ2) (hdec : q.DecOK (F := F) d cfg dec) (c : Ref) :
    sel (F := F) d cfg q.plan c = .ok (rem2 d cfg dec c q.evaluate) := by
  rw [rem2_evaluate]; exact sel_full2 d cfg dec q hdec c

/-- **Q3 (no state leaks between evaluations).**  Let `q` be *any* state of any
configuration — reachable or not, mid-iteration, exhausted, with arbitrary counters, tables,
buffers and closure cursors.  After `Evaluate`, `for t.MoveNext() {…}` reports exactly the sequence
`sel` of the plan (same nodes, same order, same `position()`/`depth()`), and ends exhausted. -/
theorem drain2_evaluate (hd : 0 < d.length) (q : PQ2) (hs : NeedsWF q.plan → WF d) (hdec : q.DecOK (F := F) d cfg dec)
    (c : Ref) (hg : Good d c) :
    ∃ l, sel (F := F) d cfg q.plan c = .ok l ∧
      ∃ q' c' f0, (∀ f, f0 ≤ f → drain2 d cfg dec f q.evaluate c = some (l, q', c')) ∧
        (∀ c'', rem2 d cfg dec c'' q' = []) ∧ q'.plan = q.plan := by
  obtain ⟨q', c', f0, h1, h2, _, h3⟩ :=
    drain2_complete d cfg dec hd _ q.evaluate (by rw [PQ2.evaluate_plan]; exact hs) (PQ2.inv_evaluate d q) c hg rfl
  exact ⟨_, rem2_evaluate_sel d cfg dec q hdec c, q', c', f0, h1, h2, by rw [h3, PQ2.evaluate_plan]⟩

/-- **Q1.**  For every covered plan, the machine the builder creates and the sequence model agree:
`sel` succeeds with some `l`, and draining with enough fuel reports exactly `l` and ends exhausted. -/
theorem drain2_eq_sel (hd : 0 < d.length) (p : Plan) (q : PQ2) (h : PQ2.ofPlan p = some q) (hs : NeedsWF p → WF d)
    (hdec : q.DecOK (F := F) d cfg dec) (c : Ref) (hg : Good d c) :
    ∃ l, sel (F := F) d cfg p c = .ok l ∧
      ∃ q' c' f0, (∀ f, f0 ≤ f → drain2 d cfg dec f q c = some (l, q', c')) ∧
        (∀ c'', rem2 d cfg dec c'' q' = []) := by
  obtain ⟨hp, he⟩ := PQ2.ofPlan_spec p q h
  obtain ⟨l, h1, q', c', f0, h2, h3, _⟩ := drain2_evaluate (F := F) d cfg dec hd q (by rw [hp]; exact hs) hdec c hg
  rw [hp] at h1
  rw [he] at h2
  exact ⟨l, h1, q', c', f0, h2, h3⟩

/-- Q1 projected to node references: `Evaluate`'s iterator produces the same node sequence as the
sequence model -/
theorem drain2_refs_eq_sel (hd : 0 < d.length) (p : Plan) (q : PQ2) (h : PQ2.ofPlan p = some q) (hs : NeedsWF p → WF d)
    (hdec : q.DecOK (F := F) d cfg dec) (c : Ref) (hg : Good d c) :
    ∃ l, sel (F := F) d cfg p c = .ok l ∧
      ∃ f0, ∀ f, f0 ≤ f → (drain2 d cfg dec f q c).map (fun r => r.1.map (·.r)) = some (l.map (·.r)) := by
  obtain ⟨l, h1, q', c', f0, h2, _⟩ := drain2_eq_sel (F := F) d cfg dec hd p q h hs hdec c hg
  exact ⟨l, h1, f0, fun f hf => by rw [h2 f hf]; rfl⟩

/-- **Q4.**  `Clone` gives a machine in reset state (`Evaluate` changes nothing), satisfying the
invariant, whose stream is the whole sequence of the original's plan — whatever state the original
is in.  (A `cachedChildQuery` is cloned into a `childQuery`: the plan may differ, the sequence not.) -/
theorem clone_fresh2 (q : PQ2) (hdec : q.DecOK (F := F) d cfg dec) (c : Ref) :
    q.clone.evaluate = q.clone ∧ q.clone.Inv d ∧
      sel (F := F) d cfg q.plan c = .ok (rem2 d cfg dec c q.clone) := by
  refine ⟨PQ2.clone_evaluate q, PQ2.inv_clone d q, ?_⟩
  rw [rem2_clone]; exact sel_full2 d cfg dec q hdec c

end

section
variable (d : Doc) (cfg : ECfg) (dec : Plan → Ref → Bool)

/-- **Q2.**  Exhausted stays exhausted.  If the remaining stream of a state (satisfying the
invariant) is empty — in particular after a `Select` that returned `nil`, see `select_done_exhausted` —
then with enough fuel `Select` returns `nil`, into a state that is exhausted again for every
`t.Current()`, is consumed (hence satisfies the invariant) and has the same configuration:
the statement applies to the new state again, for ever. -/
theorem exhausted_stays2 (hd : 0 < d.length) (q : PQ2) (hs : NeedsWF q.plan → WF d) (hi : q.Inv d) (c : Ref)
    (hg : Good d c) (he : rem2 d cfg dec c q = []) :
    ∃ q' c' f0, (∀ f, f0 ≤ f → PQ2.select d cfg dec f q c = (.done, q', c')) ∧
      (∀ c'', rem2 d cfg dec c'' q' = []) ∧ q'.Cons d ∧ q'.Inv d ∧ q'.plan = q.plan ∧ Good d c' := by
  obtain ⟨q1, c1, f1, hsel, hrem, hcons, hsame, hgc, _⟩ := select_step2 d cfg dec hd q hs hi c hg
  simp only [mach2_sel, mach2_rem] at hsel hrem
  have hsame : q1.plan = q.plan := hsame
  rw [he] at hsel hrem
  refine ⟨q1, c1, f1, hsel, fun c'' => ?_, hcons, PQ2.cons_inv d _ hcons, hsame, hgc⟩
  rw [rem2_cons_indep d cfg dec q1 hcons c'' c1, hrem]; rfl

/-- with enough fuel the answer of `Select` is `nil` exactly when the remaining stream is empty, and
then the new state is exhausted -/
theorem select_done_exhausted (hd : 0 < d.length) (q : PQ2) (hs : NeedsWF q.plan → WF d) (hi : q.Inv d) (c : Ref)
    (hg : Good d c) :
    ∃ f0, ∀ f, f0 ≤ f → ∀ q' c', PQ2.select d cfg dec f q c = (.done, q', c') →
      rem2 d cfg dec c q = [] ∧ ∀ c'', rem2 d cfg dec c'' q' = [] := by
  obtain ⟨q1, c1, f1, hsel, hrem, hcons, _, _, _⟩ := select_step2 d cfg dec hd q hs hi c hg
  simp only [mach2_sel, mach2_rem] at hsel hrem
  refine ⟨f1, fun f hf q' c' h => ?_⟩
  rw [hsel f hf] at h
  cases hr : rem2 d cfg dec c q with
  | cons x xs => rw [hr] at h; simp [headRes] at h
  | nil =>
    rw [hr] at h hrem
    simp only [Prod.mk.injEq] at h
    obtain ⟨_, rfl, rfl⟩ := h
    exact ⟨rfl, fun c'' => by rw [rem2_cons_indep d cfg dec q1 hcons c'' c1, hrem]; rfl⟩

/-- **Q5.**  `MoveNext` and `Current`: with enough fuel, `MoveNext` answers true exactly when the
remaining stream is non-empty; then `t.Current()` is the node `x.r` just reported, the query's
`position()`/`depth()` are `x.pos`/`x.lvl`, and what remains is the tail — for every later position
of `t.Current()`. -/
theorem moveNext_current (hd : 0 < d.length) (q : PQ2) (hs : NeedsWF q.plan → WF d) (hi : q.Inv d) (c : Ref)
    (hg : Good d c) :
    ∃ f0, ∀ f, f0 ≤ f →
      match rem2 d cfg dec c q with
      | [] => ∃ q' c', PQ2.moveNext d cfg dec f q c = some (false, q', c')
      | x :: xs => ∃ q', PQ2.moveNext d cfg dec f q c = some (true, q', x.r) ∧
          q'.position = x.pos ∧ q'.depth = x.lvl ∧ (∀ c'', rem2 d cfg dec c'' q' = xs) ∧ q'.Inv d := by
  obtain ⟨q1, c1, f1, hsel, hrem, hcons, _, _, hpos⟩ := select_step2 d cfg dec hd q hs hi c hg
  simp only [mach2_sel, mach2_rem, mach2_pos, mach2_lvl] at hsel hrem hpos
  refine ⟨f1, fun f hf => ?_⟩
  cases hr : rem2 d cfg dec c q with
  | nil =>
    rw [hr] at hsel
    exact ⟨q1, c1, by simp only [PQ2.moveNext, hsel f hf, headRes]⟩
  | cons x xs =>
    obtain ⟨hp1, hp2, _⟩ := hpos x xs hr
    rw [hr] at hsel hrem
    refine ⟨q1, by simp only [PQ2.moveNext, hsel f hf, headRes], hp1, hp2, fun c'' => ?_, PQ2.cons_inv d _ hcons⟩
    rw [rem2_cons_indep d cfg dec q1 hcons c'' c1, hrem]; rfl

end

/-! ## Whatever the fuel: every answer other than "out of fuel" is the answer of the one-pull lemma -/

section
variable (d : Doc) (cfg : ECfg) (dec : Plan → Ref → Bool)

/-- **Determinism up to fuel.**  If `Select` from a state satisfying the invariant answered (with
whatever fuel) a node or `nil`, then that answer is the head of the remaining stream, the new state's
stream is the tail for every later `t.Current()`, the new state is consumed (hence satisfies the
invariant again), has the same configuration, and `position()`/`depth()` are those of the item. -/
theorem select_sound2 (hd : 0 < d.length) {f : Nat} {q : PQ2} {c : Ref} {o : Res Ref} {q' : PQ2} {c' : Ref}
    (hw : NeedsWF q.plan → WF d) (hi : q.Inv d) (hg : Good d c)
    (h : PQ2.select d cfg dec f q c = (o, q', c')) (hne : o ≠ .fuel) :
    o = headRes (rem2 d cfg dec c q) ∧ (∀ c'', rem2 d cfg dec c'' q' = (rem2 d cfg dec c q).tail) ∧
      q'.Cons d ∧ q'.plan = q.plan ∧ Good d c' ∧
      (∀ x xs, rem2 d cfg dec c q = x :: xs → q'.position = x.pos ∧ q'.depth = x.lvl ∧ Good d x.r) := by
  obtain ⟨q1, c1, f1, hsel, hrem, hcons, hsame, hgc, hpos⟩ := select_step2 d cfg dec hd q hw hi c hg
  simp only [mach2_sel, mach2_rem, mach2_pos, mach2_lvl] at hsel hrem hpos
  have h1 := select_mono2_le d cfg dec h hne (Nat.le_max_left f f1)
  have h2 := hsel (max f f1) (Nat.le_max_right f f1)
  rw [h1] at h2
  simp only [Prod.mk.injEq] at h2
  obtain ⟨h2a, h2b, h2c⟩ := h2
  subst h2b; subst h2c
  exact ⟨h2a, fun c'' => by rw [rem2_cons_indep d cfg dec q' hcons c'' c', hrem], hcons, hsame, hgc, hpos⟩

/-- **Q2, whatever the fuel.**  Once `Select` has returned `nil` (from a state satisfying the
invariant, with whatever fuel), the new state is exhausted, and every later `Select` from it — with
any `t.Current()` and any fuel — that answers at all answers `nil` again, into a state for which the
same holds. -/
theorem exhausted_for_ever (hd : 0 < d.length) {f : Nat} {q : PQ2} {c : Ref} {q' : PQ2} {c' : Ref}
    (hw : NeedsWF q.plan → WF d) (hi : q.Inv d) (hg : Good d c)
    (h : PQ2.select d cfg dec f q c = (.done, q', c')) :
    (∀ c'', rem2 d cfg dec c'' q' = []) ∧ q'.Inv d ∧ (NeedsWF q'.plan → WF d) ∧
    ∀ f2 c2 o q2 c3, Good d c2 → PQ2.select d cfg dec f2 q' c2 = (o, q2, c3) → o ≠ .fuel →
      o = .done ∧ (∀ c'', rem2 d cfg dec c'' q2 = []) ∧ q2.Inv d ∧ (NeedsWF q2.plan → WF d) := by
  obtain ⟨ho, hrem, hcons, hplan, _, _⟩ := select_sound2 d cfg dec hd hw hi hg h (by simp)
  have hq : rem2 d cfg dec c q = [] := by
    cases hr : rem2 d cfg dec c q with
    | nil => rfl
    | cons x xs => rw [hr] at ho; simp [headRes] at ho
  have hq' : ∀ c'', rem2 d cfg dec c'' q' = [] := fun c'' => by rw [hrem c'', hq]; rfl
  have hw' : NeedsWF q'.plan → WF d := by rw [hplan]; exact hw
  refine ⟨hq', PQ2.cons_inv d _ hcons, hw', ?_⟩
  intro f2 c2 o q2 c3 hg2 h2 hne
  obtain ⟨ho2, hrem2, hcons2, hplan2, _, _⟩ :=
    select_sound2 d cfg dec hd hw' (PQ2.cons_inv d _ hcons) hg2 h2 hne
  rw [hq' c2] at ho2 hrem2
  exact ⟨ho2, hrem2, PQ2.cons_inv d _ hcons2, by rw [hplan2]; exact hw'⟩

/-- whatever fuel was given: if draining terminated, it reported exactly the remaining stream -/
theorem drain2_sound (hd : 0 < d.length) : ∀ (f : Nat) (q : PQ2) (c : Ref) (l : List Item) (q' : PQ2) (c' : Ref),
    (NeedsWF q.plan → WF d) → q.Inv d → Good d c → drain2 d cfg dec f q c = some (l, q', c') →
    l = rem2 d cfg dec c q ∧ (∀ c'', rem2 d cfg dec c'' q' = []) ∧ q'.plan = q.plan := by
  intro f
  induction f with
  | zero => intro q c l q' c' _ _ _ h; simp [drain2] at h
  | succ f ih =>
    intro q c l q' c' hw hi hg h
    simp only [drain2, PQ2.moveNext] at h
    cases hs : PQ2.select d cfg dec f q c with
    | mk o rest =>
      obtain ⟨q1, c1⟩ := rest
      rw [hs] at h
      cases o with
      | fuel => simp at h
      | done =>
        simp only [Option.some.injEq, Prod.mk.injEq] at h
        obtain ⟨rfl, rfl, rfl⟩ := h
        obtain ⟨ho, hrem, _, hplan, _, _⟩ := select_sound2 d cfg dec hd hw hi hg hs (by simp)
        cases hr : rem2 d cfg dec c q with
        | nil => exact ⟨rfl, fun c'' => by rw [hrem c'', hr]; rfl, hplan⟩
        | cons x xs => rw [hr] at ho; simp [headRes] at ho
      | yield n =>
        simp only at h
        cases hd2 : drain2 d cfg dec f q1 n with
        | none => simp [hd2] at h
        | some lq =>
          obtain ⟨l1, q2, c2⟩ := lq
          simp only [hd2, Option.map, Option.some.injEq, Prod.mk.injEq] at h
          obtain ⟨rfl, rfl, rfl⟩ := h
          obtain ⟨ho, hrem, hcons, hplan, _, hpos⟩ := select_sound2 d cfg dec hd hw hi hg hs (by simp)
          cases hr : rem2 d cfg dec c q with
          | nil => rw [hr] at ho; simp [headRes] at ho
          | cons x xs =>
            rw [hr] at ho
            simp only [headRes, Res.yield.injEq] at ho
            obtain ⟨hp1, hp2, hgx⟩ := hpos x xs hr
            obtain ⟨hl1, hnil, hplan2⟩ :=
              ih q1 n l1 q2 c2 (by rw [hplan]; exact hw) (PQ2.cons_inv d _ hcons) (by rw [ho]; exact hgx) hd2
            refine ⟨?_, hnil, by rw [hplan2, hplan]⟩
            rw [hl1, hrem n, hr, ho, hp1, hp2]; rfl

/-! ## Reachable states -/

/-- The states a query of configuration `p0` can be in under the protocol of the library: it was
reset by `Evaluate` (from any state whatsoever) or produced by `Clone`, and then `Select` was called
any number of times with any positions of `t.Current()`. -/
inductive Reach (p0 : Plan) : PQ2 → Prop
  | evaluate (q : PQ2) : q.plan = p0 → Reach p0 q.evaluate
  | clone (q : PQ2) : q.clone.plan = p0 → Reach p0 q.clone
  | select {f : Nat} {q : PQ2} {c : Ref} {o : Res Ref} {q' : PQ2} {c' : Ref} :
      Reach p0 q → Good d c → PQ2.select d cfg dec f q c = (o, q', c') → o ≠ .fuel → Reach p0 q'

/-- every reachable state has the configuration it started with and satisfies the invariant: the
invariant is preserved by `Select` and established by `Evaluate` and `Clone` -/
theorem reach_inv (hd : 0 < d.length) (p0 : Plan) (hw : NeedsWF p0 → WF d) :
    ∀ q, Reach d cfg dec p0 q → q.plan = p0 ∧ q.Inv d := by
  intro q hr
  induction hr with
  | evaluate q hq => exact ⟨by rw [PQ2.evaluate_plan]; exact hq, PQ2.inv_evaluate d q⟩
  | clone q hq => exact ⟨hq, PQ2.inv_clone d q⟩
  | select _ hg hs hne ih =>
    obtain ⟨hp, hi⟩ := ih
    obtain ⟨_, _, hcons, hplan, _, _⟩ := select_sound2 d cfg dec hd (by rw [hp]; exact hw) hi hg hs hne
    exact ⟨by rw [hplan]; exact hp, PQ2.cons_inv d _ hcons⟩

end

section
variable {F : Type} [NumAlg F] (d : Doc) (cfg : ECfg) (dec : Plan → Ref → Bool)

/-- **No state leaks between evaluations (C02/C04), reachable form.**  From any reachable state —
after any number of `MoveNext` calls of a previous evaluation, exhausted or not — `Evaluate` followed
by `for t.MoveNext() {…}` reports exactly the sequence `sel` of the configuration for the new context
node, and whatever fuel the drain was given, it can report nothing else. -/
theorem reach_evaluate_restarts (hd : 0 < d.length) (p0 : Plan) (hw : NeedsWF p0 → WF d) (q : PQ2)
    (hr : Reach d cfg dec p0 q) (hdec : q.DecOK (F := F) d cfg dec) (c : Ref) (hg : Good d c) :
    ∃ l, sel (F := F) d cfg p0 c = .ok l ∧
      (∃ q' c' f0, ∀ f, f0 ≤ f → drain2 d cfg dec f q.evaluate c = some (l, q', c')) ∧
      (∀ f l' q' c', drain2 d cfg dec f q.evaluate c = some (l', q', c') → l' = l) := by
  obtain ⟨hp, _⟩ := reach_inv d cfg dec hd p0 hw q hr
  obtain ⟨l, h1, q', c', f0, h2, _, _⟩ :=
    drain2_evaluate (F := F) d cfg dec hd q (by rw [hp]; exact hw) hdec c hg
  rw [hp] at h1
  refine ⟨l, h1, ⟨q', c', f0, h2⟩, fun f l' q2 c2 hdr => ?_⟩
  have hs := drain2_sound d cfg dec hd f q.evaluate c l' q2 c2 (by rw [PQ2.evaluate_plan, hp]; exact hw)
    (PQ2.inv_evaluate d q) hg hdr
  have hl : sel (F := F) d cfg p0 c = .ok (rem2 d cfg dec c q.evaluate) := by
    rw [← hp]; exact rem2_evaluate_sel d cfg dec q hdec c
  rw [h1] at hl
  injection hl with hl
  rw [hs.1, hl]

end

end XPathV.Model

