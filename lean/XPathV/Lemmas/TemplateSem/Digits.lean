import XPathV.Lemmas.TemplateSem.Fuel
/-!
# C16, part 3: the digit loop of `xpathReplacement` computes the longest reference; Go's number parser
-/
namespace XPathV.Lemmas.TemplateSem
open XPathV.Model.Template XPathV.Spec.Template

/-- one step of reading a decimal numeral -/
def dstep (n : Nat) (c : Char) : Nat := n * 10 + digitVal c

theorem numVal_eq (ds : List Char) : numVal ds = ds.foldl dstep 0 := rfl

theorem foldl_dstep_ge (l : List Char) (n : Nat) : n ≤ l.foldl dstep n := by
  induction l generalizing n with
  | nil => simp
  | cons c l ih =>
    simp only [List.foldl_cons]
    have := ih (dstep n c)
    unfold dstep at this ⊢
    omega

/-! ## `scanRef` -/

theorem scanRef_taken (groups : Nat) (t : List Char) (n taken : Nat) :
    scanRef groups t n taken = taken + scanRef groups t n 0 := by
  induction t generalizing n taken with
  | nil => simp [scanRef]
  | cons c t ih =>
    simp only [scanRef]
    split
    · rfl
    · split
      · rfl
      · rw [ih _ (taken + 1), ih _ (0 + 1)]; omega

theorem scanRef_cons_digit (groups : Nat) {c : Char} (t : List Char) (n : Nat) (hc : isDigitCh c = true) :
    scanRef groups (c :: t) n 0 =
      if dstep n c > groups then 0 else 1 + scanRef groups t (dstep n c) 0 := by
  unfold dstep
  by_cases h : n * 10 + digitVal c > groups
  · simp [scanRef, hc, h]
  · rw [scanRef]
    simp only [hc, Bool.not_true, Bool.false_eq_true, if_false, h]
    rw [scanRef_taken]

theorem scanRef_cons_nondigit (groups : Nat) {c : Char} (t : List Char) (n : Nat) (hc : isDigitCh c = false) :
    scanRef groups (c :: t) n 0 = 0 := by
  simp [scanRef, hc]

theorem scanRef_le (groups : Nat) (t : List Char) (n : Nat) :
    scanRef groups t n 0 ≤ (t.takeWhile isDigitCh).length := by
  induction t generalizing n with
  | nil => simp [scanRef]
  | cons c t ih =>
    cases hc : isDigitCh c
    · rw [scanRef_cons_nondigit _ _ _ hc]; omega
    · rw [scanRef_cons_digit _ _ _ hc]
      simp only [List.takeWhile_cons, hc, if_true, List.length_cons]
      split
      · omega
      · have := ih (dstep n c); omega

theorem scanRef_val (groups : Nat) (t : List Char) (n : Nat) (hn : n ≤ groups) :
    (t.take (scanRef groups t n 0)).foldl dstep n ≤ groups := by
  induction t generalizing n with
  | nil => simpa [scanRef] using hn
  | cons c t ih =>
    cases hc : isDigitCh c
    · rw [scanRef_cons_nondigit _ _ _ hc]; simpa using hn
    · rw [scanRef_cons_digit _ _ _ hc]
      split
      · simpa using hn
      · rename_i h
        rw [Nat.add_comm 1, List.take_succ_cons, List.foldl_cons]
        exact ih (dstep n c) (by omega)

theorem scanRef_above (groups : Nat) (t : List Char) (n m : Nat)
    (hm : scanRef groups t n 0 < m) (hml : m ≤ (t.takeWhile isDigitCh).length) :
    groups < (t.take m).foldl dstep n := by
  induction t generalizing n m with
  | nil => simp at hml; omega
  | cons c t ih =>
    cases hc : isDigitCh c
    · simp [hc] at hml; omega
    · rw [scanRef_cons_digit _ _ _ hc] at hm
      simp only [List.takeWhile_cons, hc, if_true, List.length_cons] at hml
      match m, hm, hml with
      | m + 1, hm, hml =>
        rw [List.take_succ_cons, List.foldl_cons]
        split at hm
        · rename_i h
          have := foldl_dstep_ge (t.take m) (dstep n c)
          omega
        · exact ih (dstep n c) m (by omega) (by omega)

/-! ## prefixes of `takeWhile` -/

theorem take_takeWhile {α} (p : α → Bool) (t : List α) (m : Nat) (h : m ≤ (t.takeWhile p).length) :
    (t.takeWhile p).take m = t.take m := by
  induction t generalizing m with
  | nil => simp
  | cons c t ih =>
    match m with
    | 0 => simp
    | m + 1 =>
      cases hc : p c
      · simp [hc] at h
      · simp only [List.takeWhile_cons, hc, if_true, List.length_cons] at h ⊢
        rw [List.take_succ_cons, List.take_succ_cons, ih m (by omega)]

theorem take_all_of_le_takeWhile {α} (p : α → Bool) (t : List α) (m : Nat)
    (h : m ≤ (t.takeWhile p).length) : ∀ a ∈ t.take m, p a = true := by
  intro a ha
  rw [← take_takeWhile p t m h] at ha
  exact List.all_eq_true.mp List.all_takeWhile a (List.mem_of_mem_take ha)

/-! ## the search of `longestRef` -/

theorem find_range_succ {α} (f : Nat → α) (P : α → Bool) (n : Nat) :
    ((List.range (n + 1)).reverse.map f).find? P =
      if P (f n) then some (f n) else ((List.range n).reverse.map f).find? P := by
  rw [List.range_succ, List.reverse_append]
  simp only [List.reverse_cons, List.reverse_nil, List.nil_append, List.cons_append, List.map_cons,
    List.find?_cons]
  cases P (f n) <;> simp

/-- the predicate tested by `longestRef` on prefix lengths -/
theorem longestRef_search (groups : Nat) (ds : List Char) (hall : ∀ c ∈ ds, isDigitCh c = true) :
    ∀ n, scanRef groups ds 0 0 ≤ n → n ≤ ds.length →
      ((List.range (n + 1)).reverse.map ds.take).find? (fun p => !p.isEmpty && numVal p ≤ groups) =
        if scanRef groups ds 0 0 > 0 then some (ds.take (scanRef groups ds 0 0)) else none := by
  have htw : ds.takeWhile isDigitCh = ds := by
    have := @List.takeWhile_append_of_pos _ isDigitCh ds [] hall
    simpa using this
  intro n
  induction n with
  | zero =>
    intro h0 _
    have : scanRef groups ds 0 0 = 0 := by omega
    rw [this, find_range_succ]
    simp
  | succ n ih =>
    intro hk hn
    rw [find_range_succ]
    by_cases hkn : scanRef groups ds 0 0 = n + 1
    · have hv := scanRef_val groups ds 0 (Nat.zero_le _)
      rw [hkn] at hv
      have hne : (ds.take (n + 1)).isEmpty = false := by
        match ds, hn with
        | c :: ds', _ => simp
      rw [hkn]
      simp [hne, numVal_eq, hv]
    · have hab := scanRef_above groups ds 0 (n + 1) (by omega) (by rw [htw]; exact hn)
      have hf : (!(ds.take (n + 1)).isEmpty && decide (numVal (ds.take (n + 1)) ≤ groups)) = false := by
        rw [numVal_eq]
        simp only [Bool.and_eq_false_imp, decide_eq_false_iff_not]
        intro _; omega
      rw [hf]
      simp only [Bool.false_eq_true, if_false]
      exact ih (by omega) (by omega)

theorem refLen_eq_scan {groups : Nat} {c : Char} {t : List Char} (h0 : c ≠ '0') :
    refLen groups (c :: t) = scanRef groups (c :: t) 0 0 := by
  unfold refLen
  split
  · rename_i heq; cases heq; exact absurd rfl h0
  · rfl

theorem refLen_zero_head (groups : Nat) (t : List Char) : refLen groups ('0' :: t) = 0 := rfl

theorem refLen_nil (groups : Nat) : refLen groups [] = 0 := rfl

theorem refLen_nondigit (groups : Nat) {c : Char} (t : List Char) (hc : isDigitCh c = false) :
    refLen groups (c :: t) = 0 := by
  have h0 : c ≠ '0' := by intro h; subst h; simp [isDigitCh] at hc
  rw [refLen_eq_scan h0, scanRef_cons_nondigit _ _ _ hc]

theorem scanRef_takeWhile (groups : Nat) (t : List Char) (n : Nat) :
    scanRef groups (t.takeWhile isDigitCh) n 0 = scanRef groups t n 0 := by
  induction t generalizing n with
  | nil => rfl
  | cons c t ih =>
    cases hc : isDigitCh c
    · simp [hc, scanRef]
    · simp only [List.takeWhile_cons, hc, if_true]
      rw [scanRef_cons_digit _ _ _ hc, scanRef_cons_digit _ _ _ hc, ih]

theorem refLen_le (groups : Nat) (t : List Char) : refLen groups t ≤ (t.takeWhile isDigitCh).length := by
  unfold refLen
  split
  · omega
  · exact scanRef_le groups t 0

/-- **the inner loop of `xpathReplacement` computes the specification's longest reference** -/
theorem longestRef_eq (groups : Nat) (t : List Char) :
    longestRef groups (t.takeWhile isDigitCh) =
      if refLen groups t > 0 then some (t.take (refLen groups t)) else none := by
  match t with
  | [] => simp [longestRef, refLen_nil]
  | c :: t' =>
    cases hc : isDigitCh c
    · rw [refLen_nondigit _ _ hc]
      simp [hc, longestRef]
    · by_cases h0 : c = '0'
      · subst h0
        simp [longestRef, refLen_zero_head, isDigitCh]
      · have hds : (c :: t').takeWhile isDigitCh = c :: t'.takeWhile isDigitCh := by
          simp [hc]
        have hall : ∀ a ∈ (c :: t').takeWhile isDigitCh, isDigitCh a = true :=
          fun a ha => List.all_eq_true.mp List.all_takeWhile a ha
        have hs := longestRef_search groups _ hall ((c :: t').takeWhile isDigitCh).length
          (by rw [scanRef_takeWhile]; exact scanRef_le groups _ 0) (Nat.le_refl _)
        rw [scanRef_takeWhile] at hs
        rw [refLen_eq_scan h0]
        have hl : longestRef groups ((c :: t').takeWhile isDigitCh) =
            ((List.range (((c :: t').takeWhile isDigitCh).length + 1)).reverse.map
              ((c :: t').takeWhile isDigitCh).take).find? (fun p => !p.isEmpty && numVal p ≤ groups) := by
          rw [hds]
          unfold longestRef
          split
          · rename_i heq; cases heq
          · rename_i heq; cases heq; exact absurd rfl h0
          · rfl
        rw [hl, hs]
        split
        · rw [take_takeWhile _ _ _ (scanRef_le groups _ 0)]
        · rfl

/-! ## Go's number parser on a numeral -/

theorem parseNumLoop_digits (ds : List Char) (n : Nat) (hall : ∀ c ∈ ds, isDigitCh c = true)
    (hv : ds.foldl dstep n < 100000000) : parseNumLoop ds n = some (ds.foldl dstep n) := by
  induction ds generalizing n with
  | nil => rfl
  | cons c ds ih =>
    have hc : isDigitCh c = true := hall c (by simp)
    have hge := foldl_dstep_ge ds (dstep n c)
    simp only [List.foldl_cons] at hv ⊢
    have hn' : n ≤ dstep n c := by unfold dstep; omega
    have hn : ¬ n ≥ 100000000 := by omega
    simp only [parseNumLoop, hc, Bool.not_true, Bool.false_or, decide_eq_true_eq, hn, if_false]
    exact ih (dstep n c) (fun a ha => hall a (by simp [ha])) hv

theorem parseNum_digits {c : Char} {ds : List Char} (h0 : c ≠ '0')
    (hall : ∀ a ∈ c :: ds, isDigitCh a = true) (hv : numVal (c :: ds) < 100000000) :
    parseNum (c :: ds) = some (numVal (c :: ds)) := by
  unfold parseNum
  split
  · rename_i heq; cases heq; exact absurd rfl h0
  · exact parseNumLoop_digits _ 0 hall hv

/-! ## `extract` on a braced numeral -/

theorem isNameCh_of_digit {c : Char} (h : isDigitCh c = true) : isNameCh c = true := by
  simp only [isDigitCh, Bool.and_eq_true, decide_eq_true_eq] at h
  simp only [isNameCh, Char.isAlphanum, Char.isDigit, Bool.or_eq_true, Bool.and_eq_true, decide_eq_true_eq]
  left; right
  exact h

theorem extract_braced {ds : List Char} (rest : List Char) (hne : ds ≠ [])
    (hall : ∀ a ∈ ds, isDigitCh a = true) :
    extract ('{' :: (ds ++ '}' :: rest)) = some (ds, parseNum ds, rest) := by
  have hall' : ∀ a ∈ ds, isNameCh a = true := fun a ha => isNameCh_of_digit (hall a ha)
  have hb : isNameCh '}' = false := by decide
  rw [extract_brace, List.takeWhile_append_of_pos hall', List.dropWhile_append_of_pos hall']
  simp [hb, hne, closeBrace_brace]

end XPathV.Lemmas.TemplateSem
