import XPathV.Lemmas.TemplateSem.Basic
/-!
# C16, part 2: `extract` by shape, and fuel independence
-/
namespace XPathV.Lemmas.TemplateSem
open XPathV.Model.Template XPathV.Spec.Template

/-! ## `extract` by the shape of its argument -/

theorem extract_nil : extract [] = none := rfl

/-- the end of a braced reference: `}` must follow the name -/
def closeBrace (name : List Char) : List Char → Option (List Char × Option Nat × List Char)
  | '}' :: rest => some (name, parseNum name, rest)
  | _ => none

theorem closeBrace_brace (name rest : List Char) :
    closeBrace name ('}' :: rest) = some (name, parseNum name, rest) := rfl

theorem closeBrace_nil (name : List Char) : closeBrace name [] = none := rfl

theorem closeBrace_other (name : List Char) {d : Char} (rest : List Char) (h : d ≠ '}') :
    closeBrace name (d :: rest) = none := by
  unfold closeBrace
  split
  · rename_i heq; cases heq; exact absurd rfl h
  · rfl

theorem closeBrace_some {name after nm rest : List Char} {num : Option Nat}
    (h : closeBrace name after = some (nm, num, rest)) : after = '}' :: rest := by
  unfold closeBrace at h
  split at h
  · cases h; rfl
  · cases h

theorem extract_brace (t : List Char) :
    extract ('{' :: t) =
      if (t.takeWhile isNameCh).isEmpty then none
      else closeBrace (t.takeWhile isNameCh) (t.dropWhile isNameCh) := by
  rfl

theorem extract_nobrace {c : Char} (t : List Char) (h : c ≠ '{') :
    extract (c :: t) =
      if ((c :: t).takeWhile isNameCh).isEmpty then none
      else some ((c :: t).takeWhile isNameCh, parseNum ((c :: t).takeWhile isNameCh),
                 (c :: t).dropWhile isNameCh) := by
  rw [extract.eq_def]
  simp only
  split
  · rename_i heq; cases heq; exact absurd rfl h
  · simp

theorem length_dropWhile_le {α} (p : α → Bool) (l : List α) : (l.dropWhile p).length ≤ l.length :=
  (List.dropWhile_sublist p).length_le

theorem extract_rest_le {s nm rest : List Char} {num : Option Nat}
    (h : extract s = some (nm, num, rest)) : rest.length ≤ s.length := by
  match s with
  | [] => simp [extract] at h
  | c :: t =>
    by_cases hc : c = '{'
    · subst hc
      rw [extract_brace] at h
      split at h
      · cases h
      · have heq := closeBrace_some h
        have := length_dropWhile_le isNameCh t
        rw [heq] at this
        simp only [List.length_cons] at this ⊢
        omega
    · rw [extract_nobrace t hc] at h
      split at h
      · cases h
      · cases h
        exact length_dropWhile_le isNameCh (c :: t)

/-! ## fuel independence -/

theorem rewrite_fuel_aux (groups : Nat) :
    ∀ (f1 f2 : Nat) (t : List Char), t.length < f1 → t.length < f2 →
      rewrite groups f1 t = rewrite groups f2 t := by
  intro f1
  induction f1 with
  | zero => intro f2 t h; omega
  | succ f1 ih =>
    intro f2 t h1 h2
    match f2, h2 with
    | f2 + 1, h2 =>
    match t with
    | [] => simp [rewrite_nil]
    | c :: t =>
      simp only [List.length_cons] at h1 h2
      by_cases hc : c = '$'
      · subst hc
        match t with
        | '$' :: t' =>
          simp only [List.length_cons] at h1 h2
          rw [rewrite_dd, rewrite_dd, ih f2 t' (by omega) (by omega)]
        | [] => rw [rewrite_dollar _ _ noDollarHead_nil, rewrite_dollar _ _ noDollarHead_nil]; simp [rewrite_nil]
        | c :: t' =>
          by_cases hc : c = '$'
          · subst hc
            simp only [List.length_cons] at h1 h2
            rw [rewrite_dd, rewrite_dd, ih f2 t' (by omega) (by omega)]
          · have hnd := noDollarHead_cons (t := t') hc
            rw [rewrite_dollar _ _ hnd, rewrite_dollar _ _ hnd]
            have hd : ((c :: t').drop (refLen groups (c :: t'))).length ≤ (c :: t').length := by
              simp only [List.length_drop]; omega
            rw [ih f2 _ (by omega) (by omega), ih f2 (c :: t') (by omega) (by omega)]
      · rw [rewrite_cons_ne _ _ _ hc, rewrite_cons_ne _ _ _ hc, ih f2 t (by omega) (by omega)]

/-- `rewrite` does not depend on the fuel once the fuel exceeds the length of the template -/
theorem rewrite_fuel (groups : Nat) {f : Nat} {t : List Char} (h : t.length < f) :
    rewrite groups f t = rewrite groups (t.length + 1) t :=
  rewrite_fuel_aux groups f (t.length + 1) t h (by omega)

theorem expandSpec_fuel_aux (g : Groups) (groups : Nat) :
    ∀ (f1 f2 : Nat) (t : List Char), t.length < f1 → t.length < f2 →
      expandSpec g groups f1 t = expandSpec g groups f2 t := by
  intro f1
  induction f1 with
  | zero => intro f2 t h; omega
  | succ f1 ih =>
    intro f2 t h1 h2
    match f2, h2 with
    | f2 + 1, h2 =>
    match t with
    | [] => simp [expandSpec_nil]
    | c :: t =>
      simp only [List.length_cons] at h1 h2
      by_cases hc : c = '$'
      · subst hc
        have key : ∀ t : List Char, NoDollarHead t → t.length < f1 → t.length < f2 →
            expandSpec g groups (f1 + 1) ('$' :: t) = expandSpec g groups (f2 + 1) ('$' :: t) := by
          intro t hnd h1 h2
          rw [expandSpec_dollar _ _ _ hnd, expandSpec_dollar _ _ _ hnd]
          split
          · rename_i p _
            have hd : (t.drop p.length).length ≤ t.length := by
              simp only [List.length_drop]; omega
            rw [ih f2 _ (by omega) (by omega)]
          · split
            · rw [ih f2 t h1 h2]
            · rename_i nm num rest heq
              have := extract_rest_le heq
              rw [ih f2 rest (by omega) (by omega)]
        match t with
        | '$' :: t' =>
          simp only [List.length_cons] at h1 h2
          rw [expandSpec_dd, expandSpec_dd, ih f2 t' (by omega) (by omega)]
        | [] => exact key [] noDollarHead_nil (by simpa using h1) (by simpa using h2)
        | c :: t' =>
          by_cases hc : c = '$'
          · subst hc
            simp only [List.length_cons] at h1 h2
            rw [expandSpec_dd, expandSpec_dd, ih f2 t' (by omega) (by omega)]
          · exact key (c :: t') (noDollarHead_cons hc) (by omega) (by omega)
      · rw [expandSpec_cons_ne _ _ _ _ hc, expandSpec_cons_ne _ _ _ _ hc, ih f2 t (by omega) (by omega)]

/-- `expandSpec` does not depend on the fuel once the fuel exceeds the length of the template -/
theorem expandSpec_fuel (g : Groups) (groups : Nat) {f : Nat} {t : List Char} (h : t.length < f) :
    expandSpec g groups f t = expandSpec g groups (t.length + 1) t :=
  expandSpec_fuel_aux g groups f (t.length + 1) t h (by omega)

theorem expandGo_fuel_aux (g : Groups) :
    ∀ (n : Nat) (t : List Char), t.length ≤ n → ∀ f1 f2, t.length < f1 → t.length < f2 →
      expandGo g f1 t = expandGo g f2 t := by
  intro n
  induction n with
  | zero =>
    intro t h f1 f2 _ _
    have : t = [] := List.eq_nil_of_length_eq_zero (by omega)
    subst this; simp [expandGo_nil]
  | succ n ih =>
    intro t hn f1 f2 h1 h2
    match f1, f2, h1, h2 with
    | f1 + 1, f2 + 1, h1, h2 =>
    match t with
    | [] => simp [expandGo_nil]
    | c :: t =>
      simp only [List.length_cons] at h1 h2 hn
      by_cases hc : c = '$'
      · subst hc
        have key : ∀ t : List Char, NoDollarHead t → t.length ≤ n → t.length < f1 → t.length < f2 →
            expandGo g (f1 + 1) ('$' :: t) = expandGo g (f2 + 1) ('$' :: t) := by
          intro t hnd hn h1 h2
          rw [expandGo_dollar _ _ hnd, expandGo_dollar _ _ hnd]
          split
          · rw [ih t hn f1 f2 h1 h2]
          · rename_i nm num rest heq
            have := extract_rest_le heq
            rw [ih rest (by omega) f1 f2 (by omega) (by omega)]
        match t with
        | '$' :: t' =>
          simp only [List.length_cons] at h1 h2 hn
          rw [expandGo_dd, expandGo_dd, ih t' (by omega) f1 f2 (by omega) (by omega)]
        | [] => exact key [] noDollarHead_nil (by simp) (by simpa using h1) (by simpa using h2)
        | c :: t' =>
          by_cases hc : c = '$'
          · subst hc
            simp only [List.length_cons] at h1 h2 hn
            rw [expandGo_dd, expandGo_dd, ih t' (by omega) f1 f2 (by omega) (by omega)]
          · exact key (c :: t') (noDollarHead_cons hc) (by omega) (by omega) (by omega)
      · rw [expandGo_cons_ne _ _ _ hc, expandGo_cons_ne _ _ _ hc,
          ih t (by omega) (f1 + 1) (f2 + 1) (by omega) (by omega)]

/-- `expandGo` does not depend on the fuel once the fuel exceeds the length of the template -/
theorem expandGo_fuel (g : Groups) {f : Nat} {t : List Char} (h : t.length < f) :
    expandGo g f t = expandGo g (t.length + 1) t :=
  expandGo_fuel_aux g t.length t (Nat.le_refl _) f (t.length + 1) h (by omega)

end XPathV.Lemmas.TemplateSem
