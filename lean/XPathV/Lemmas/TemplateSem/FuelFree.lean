import XPathV.Lemmas.TemplateSem.Digits
/-!
# C16, part 4: the three functions at their canonical fuel, with fuel-free unfolding equations;
`rewrite` commutes with `extract`
-/
namespace XPathV.Lemmas.TemplateSem
open XPathV.Model.Template XPathV.Spec.Template

/-- `xpathReplacement(r, groups)` -/
def rwT (groups : Nat) (r : List Char) : List Char := rewrite groups (r.length + 1) r
/-- `Regexp.expand` of a template -/
def eg (g : Groups) (t : List Char) : List Char := expandGo g (t.length + 1) t
/-- the specification's reading of a template -/
def es (g : Groups) (groups : Nat) (r : List Char) : List Char := expandSpec g groups (r.length + 1) r

theorem replaceOne_eq (g : Groups) (groups : Nat) (r : List Char) :
    replaceOne g groups r = eg g (rwT groups r) := rfl

theorem replaceOneSpec_eq (g : Groups) (groups : Nat) (r : List Char) :
    replaceOneSpec g groups r = es g groups r := rfl

/-! ## `rwT` -/

theorem rwT_nil (groups : Nat) : rwT groups [] = [] := rfl

theorem rwT_cons_ne (groups : Nat) {c : Char} (t : List Char) (h : c ≠ '$') :
    rwT groups (c :: t) = c :: rwT groups t := by
  unfold rwT
  rw [List.length_cons, rewrite_cons_ne _ _ _ h]

theorem rwT_dd (groups : Nat) (t : List Char) :
    rwT groups ('$' :: '$' :: t) = '$' :: '$' :: rwT groups t := by
  unfold rwT
  rw [List.length_cons, rewrite_dd, rewrite_fuel groups (by simp only [List.length_cons]; omega)]

theorem rwT_dollar (groups : Nat) {t : List Char} (h : NoDollarHead t) :
    rwT groups ('$' :: t) =
      if refLen groups t > 0 then
        '$' :: '{' :: (t.take (refLen groups t) ++ '}' :: rwT groups (t.drop (refLen groups t)))
      else '$' :: rwT groups t := by
  unfold rwT
  rw [List.length_cons, rewrite_dollar _ _ h]
  split
  · rw [rewrite_fuel groups (t := t.drop (refLen groups t)) (by simp only [List.length_drop]; omega)]
    simp
  · rfl

/-- `rwT` keeps the first character -/
theorem rwT_cons_head (groups : Nat) (c : Char) (t : List Char) : ∃ u, rwT groups (c :: t) = c :: u := by
  by_cases hc : c = '$'
  · subst hc
    match t with
    | [] => exact ⟨_, by rw [rwT_dollar _ noDollarHead_nil]; simp [refLen_nil]; rfl⟩
    | d :: t' =>
      by_cases hd : d = '$'
      · subst hd; exact ⟨_, rwT_dd groups t'⟩
      · rw [rwT_dollar _ (noDollarHead_cons hd)]
        split
        · exact ⟨_, rfl⟩
        · exact ⟨_, rfl⟩
  · exact ⟨_, rwT_cons_ne groups t hc⟩

theorem rwT_noDollarHead (groups : Nat) {t : List Char} (h : NoDollarHead t) : NoDollarHead (rwT groups t) := by
  match t with
  | [] => exact noDollarHead_nil
  | c :: t' =>
    have hc := noDollarHead_cons_iff.mp h
    rw [rwT_cons_ne _ _ hc]
    exact noDollarHead_cons hc

theorem rwT_takeWhile (groups : Nat) (p : Char → Bool) (hp : p '$' = false) (t : List Char) :
    (rwT groups t).takeWhile p = t.takeWhile p ∧ (rwT groups t).dropWhile p = rwT groups (t.dropWhile p) := by
  induction t with
  | nil => simp [rwT_nil]
  | cons c t ih =>
    cases hc : p c
    · obtain ⟨u, hu⟩ := rwT_cons_head groups c t
      constructor
      · rw [hu]; simp [hc]
      · rw [List.dropWhile_cons_of_neg (by simp [hc]), hu, List.dropWhile_cons_of_neg (by simp [hc])]
    · have hne : c ≠ '$' := by intro h; subst h; simp [hp] at hc
      rw [rwT_cons_ne _ _ hne]
      simp [hc, ih.1, ih.2]

/-! ## `eg` -/

theorem eg_nil (g : Groups) : eg g [] = [] := by simp [eg, expandGo_nil]

theorem eg_cons_ne (g : Groups) {c : Char} (t : List Char) (h : c ≠ '$') :
    eg g (c :: t) = c :: eg g t := by
  unfold eg
  rw [List.length_cons, expandGo_cons_ne _ _ _ h, expandGo_fuel g (t := t) (by omega)]

theorem eg_dd (g : Groups) (t : List Char) : eg g ('$' :: '$' :: t) = '$' :: eg g t := by
  unfold eg
  rw [List.length_cons, expandGo_dd, expandGo_fuel g (by simp only [List.length_cons]; omega)]

theorem eg_dollar (g : Groups) {t : List Char} (h : NoDollarHead t) :
    eg g ('$' :: t) =
      match extract t with
      | none => '$' :: eg g t
      | some (name, num, rest) => groupText g name num ++ eg g rest := by
  unfold eg
  rw [List.length_cons, expandGo_dollar _ _ h]
  cases heq : extract t with
  | none => rfl
  | some x =>
    obtain ⟨nm, num, rest⟩ := x
    have := extract_rest_le heq
    simp only []
    rw [expandGo_fuel g (t := rest) (by omega)]

/-! ## `es` -/

theorem es_nil (g : Groups) (groups : Nat) : es g groups [] = [] := rfl

theorem es_cons_ne (g : Groups) (groups : Nat) {c : Char} (t : List Char) (h : c ≠ '$') :
    es g groups (c :: t) = c :: es g groups t := by
  unfold es
  rw [List.length_cons, expandSpec_cons_ne _ _ _ _ h]

theorem es_dd (g : Groups) (groups : Nat) (t : List Char) :
    es g groups ('$' :: '$' :: t) = '$' :: es g groups t := by
  unfold es
  rw [List.length_cons, expandSpec_dd, expandSpec_fuel g groups (by simp only [List.length_cons]; omega)]

theorem es_dollar (g : Groups) (groups : Nat) {t : List Char} (h : NoDollarHead t) :
    es g groups ('$' :: t) =
      match longestRef groups (t.takeWhile isDigitCh) with
      | some p => ((g.texts.getD (numVal p) none).getD []) ++ es g groups (t.drop p.length)
      | none =>
        match extract t with
        | none => '$' :: es g groups t
        | some (name, num, rest) => groupText g name num ++ es g groups rest := by
  unfold es
  rw [List.length_cons, expandSpec_dollar _ _ _ h]
  cases hl : longestRef groups (t.takeWhile isDigitCh) with
  | some p =>
    simp only []
    rw [expandSpec_fuel g groups (t := t.drop p.length) (by simp only [List.length_drop]; omega)]
  | none =>
    simp only []
    cases heq : extract t with
    | none => rfl
    | some x =>
      obtain ⟨nm, num, rest⟩ := x
      have := extract_rest_le heq
      simp only []
      rw [expandSpec_fuel g groups (t := rest) (by omega)]

/-! ## `extract` sees through `xpathReplacement` -/

theorem extract_rwT (groups : Nat) {t : List Char} (h : NoDollarHead t) :
    extract (rwT groups t) =
      match extract t with
      | none => none
      | some (name, num, rest) => some (name, num, rwT groups rest) := by
  have hp : isNameCh '$' = false := by decide
  match t with
  | [] => rfl
  | c :: t' =>
    have hc := noDollarHead_cons_iff.mp h
    by_cases hb : c = '{'
    · subst hb
      obtain ⟨h1, h2⟩ := rwT_takeWhile groups isNameCh hp t'
      rw [rwT_cons_ne _ _ hc, extract_brace, extract_brace, h1, h2]
      split
      · rfl
      · match hd : t'.dropWhile isNameCh with
        | [] => simp [rwT_nil, closeBrace_nil]
        | d :: rest =>
          by_cases hdb : d = '}'
          · subst hdb
            rw [rwT_cons_ne _ _ (by decide), closeBrace_brace, closeBrace_brace]
          · obtain ⟨u, hu⟩ := rwT_cons_head groups d rest
            rw [hu, closeBrace_other _ _ hdb, closeBrace_other _ _ hdb]
    · obtain ⟨h1, h2⟩ := rwT_takeWhile groups isNameCh hp (c :: t')
      have e := rwT_cons_ne groups t' hc
      rw [e, extract_nobrace _ hb, ← e, h1, h2, extract_nobrace _ hb]
      split <;> rfl

end XPathV.Lemmas.TemplateSem
