import XPathV.Spec.Template
/-!
# C16, part 1: one-step unfolding lemmas and fuel independence of `rewrite`, `expandGo`, `expandSpec`
-/
namespace XPathV.Lemmas.TemplateSem
open XPathV.Model.Template XPathV.Spec.Template

/-- the template does not start with `$` -/
def NoDollarHead : List Char → Prop
  | '$' :: _ => False
  | _ => True

theorem noDollarHead_nil : NoDollarHead [] := by simp [NoDollarHead]

theorem noDollarHead_cons {c : Char} {t : List Char} (h : c ≠ '$') : NoDollarHead (c :: t) := by
  unfold NoDollarHead
  split
  · rename_i heq; cases heq; exact h rfl
  · trivial

theorem noDollarHead_cons_iff {c : Char} {t : List Char} : NoDollarHead (c :: t) ↔ c ≠ '$' := by
  constructor
  · intro h hc; subst hc; simp [NoDollarHead] at h
  · exact noDollarHead_cons

/-- the inner loop's result as used by `rewrite`: number of digits of the reference (0 = no reference) -/
def refLen (groups : Nat) (t : List Char) : Nat :=
  match t with
  | '0' :: _ => 0
  | _ => scanRef groups t 0 0

/-! ## `rewrite`: one step -/

theorem rewrite_nil (groups f : Nat) : rewrite groups f [] = [] := by
  cases f <;> simp [rewrite]

theorem rewrite_cons_ne (groups f : Nat) {c : Char} (t : List Char) (h : c ≠ '$') :
    rewrite groups (f + 1) (c :: t) = c :: rewrite groups f t := by
  simp [rewrite, h]

theorem rewrite_dd (groups f : Nat) (t : List Char) :
    rewrite groups (f + 1) ('$' :: '$' :: t) = '$' :: '$' :: rewrite groups f t := by
  simp [rewrite]

theorem rewrite_dollar (groups f : Nat) {t : List Char} (h : NoDollarHead t) :
    rewrite groups (f + 1) ('$' :: t) =
      if refLen groups t > 0 then
        ('$' :: '{' :: t.take (refLen groups t)) ++ '}' :: rewrite groups f (t.drop (refLen groups t))
      else '$' :: rewrite groups f t := by
  match t, h with
  | [], _ => simp [rewrite, refLen]
  | c :: t', h =>
    have hc : c ≠ '$' := noDollarHead_cons_iff.mp h
    rw [rewrite.eq_def]
    simp only [bne_self_eq_false, Bool.false_eq_true, if_false]
    split
    · rename_i heq; cases heq; exact absurd rfl hc
    · rfl

/-! ## `expandSpec`: one step -/

theorem expandSpec_nil (g : Groups) (groups f : Nat) : expandSpec g groups f [] = [] := by
  cases f <;> simp [expandSpec]

theorem expandSpec_cons_ne (g : Groups) (groups f : Nat) {c : Char} (t : List Char) (h : c ≠ '$') :
    expandSpec g groups (f + 1) (c :: t) = c :: expandSpec g groups f t := by
  simp [expandSpec, h]

theorem expandSpec_dd (g : Groups) (groups f : Nat) (t : List Char) :
    expandSpec g groups (f + 1) ('$' :: '$' :: t) = '$' :: expandSpec g groups f t := by
  simp [expandSpec]

theorem expandSpec_dollar (g : Groups) (groups f : Nat) {t : List Char} (h : NoDollarHead t) :
    expandSpec g groups (f + 1) ('$' :: t) =
      match longestRef groups (t.takeWhile isDigitCh) with
      | some p => ((g.texts.getD (numVal p) none).getD []) ++ expandSpec g groups f (t.drop p.length)
      | none =>
        match extract t with
        | none => '$' :: expandSpec g groups f t
        | some (name, num, rest) => groupText g name num ++ expandSpec g groups f rest := by
  rw [expandSpec.eq_def]
  simp only [bne_self_eq_false, Bool.false_eq_true, if_false]
  split
  · rename_i heq; simp [NoDollarHead] at h
  · rfl

/-! ## `span` -/

theorem span_loop_eq {α} (p : α → Bool) (as acc : List α) :
    List.span.loop p as acc = (acc.reverse ++ as.takeWhile p, as.dropWhile p) := by
  induction as generalizing acc with
  | nil => simp [List.span.loop]
  | cons a as ih =>
    unfold List.span.loop
    cases hp : p a
    · simp [List.takeWhile, List.dropWhile, hp]
    · simp [List.takeWhile, List.dropWhile, hp, ih]

theorem span_eq {α} (p : α → Bool) (as : List α) : as.span p = (as.takeWhile p, as.dropWhile p) := by
  simp [List.span, span_loop_eq]

/-! ## `expandGo`: one step -/

theorem expandGo_nil (g : Groups) (f : Nat) : expandGo g f [] = [] := by
  cases f <;> simp [expandGo, span_eq]

/-- a template without `$` is returned as it is, whatever the fuel -/
theorem expandGo_noDollar (g : Groups) (f : Nat) (t : List Char) (h : '$' ∉ t) : expandGo g f t = t := by
  cases f with
  | zero => simp [expandGo]
  | succ f =>
    have hd : t.dropWhile (· != '$') = [] := by
      have := @List.dropWhile_append_of_pos _ (· != '$') t [] (by
        intro a ha
        simp only [bne_iff_ne, ne_eq]
        intro h'; subst h'; exact h ha)
      simpa using this
    rw [expandGo.eq_def]
    simp only [span_eq, hd]

theorem expandGo_cons_ne (g : Groups) (f : Nat) {c : Char} (t : List Char) (h : c ≠ '$') :
    expandGo g (f + 1) (c :: t) = c :: expandGo g (f + 1) t := by
  have hc : (c != '$') = true := by simp [h]
  rw [expandGo.eq_def, expandGo.eq_def]
  simp only [span_eq, List.takeWhile_cons, List.dropWhile_cons, hc, if_true]
  split
  · rename_i heq
    simp only [Prod.mk.injEq] at heq
    simp [heq.2]
  · rename_i before x after heq
    simp only [Prod.mk.injEq] at heq
    obtain ⟨h1, h2⟩ := heq
    subst h1
    simp only [h2]
    split
    · simp
    · split <;> simp

theorem expandGo_dd (g : Groups) (f : Nat) (t : List Char) :
    expandGo g (f + 1) ('$' :: '$' :: t) = '$' :: expandGo g f t := by
  rw [expandGo.eq_def]
  simp [span_eq]

theorem expandGo_dollar (g : Groups) (f : Nat) {t : List Char} (h : NoDollarHead t) :
    expandGo g (f + 1) ('$' :: t) =
      match extract t with
      | none => '$' :: expandGo g f t
      | some (name, num, rest) => groupText g name num ++ expandGo g f rest := by
  rw [expandGo.eq_def]
  simp only [span_eq, List.takeWhile_cons, List.dropWhile_cons, bne_self_eq_false, Bool.false_eq_true, if_false]
  split
  · rename_i heq; simp [NoDollarHead] at h
  · rfl

end XPathV.Lemmas.TemplateSem
