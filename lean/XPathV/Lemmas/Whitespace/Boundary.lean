import XPathV.Lemmas.Whitespace.Lexeme
/-!
# C10, second clause — token boundaries, and blanks inserted at a boundary

`LexPrefix u v`: `(u, v)` is a token boundary of the text `u ++ v` — `u` consists of complete items
of the scanner (each complete with respect to the text that follows it, `v` included) with blanks
before, between and after them; or `u` ends inside the optional blanks between the name of an axis
specifier and its `::`.

`tokVs_insert_blanks`: blanks inserted at a boundary do not change the token stream.
-/
namespace XPathV.Whitespace
open XPathV XPathV.Model XPathV.Bridge
open XPathV.Lemmas.ScanTail (At mkCR Done)
open XPathV.BuildRejects

/-- `(u, v)` is a token boundary of `u ++ v` -/
inductive LexPrefix : List Char → List Char → Prop
  /-- before the first token; or, as the last step of `cons`, in the blanks after a token -/
  | blank {b : List Char} (v : List Char) : Blank b → LexPrefix b v
  /-- between the name of an axis specifier and its `::` -/
  | axisGap {b w b1 b2 : List Char} (rest : List Char) : Blank b → plainName w = true → Blank b1 → Blank b2 →
      AsciiHead (b1 ++ b2) → LexPrefix (b ++ (w ++ b1)) (b2 ++ ':' :: ':' :: rest)
  /-- blanks, one complete item, and a boundary of what follows -/
  | cons {b lex u' v : List Char} {k : Kind} : Blank b → Lexeme lex (u' ++ v) k → LexPrefix u' v →
      LexPrefix (b ++ (lex ++ u')) v

theorem AsciiHead.insert {b1 b2 ws : List Char} (h : AsciiHead (b1 ++ b2)) (hws : AsciiHead ws) :
    AsciiHead (b1 ++ (ws ++ b2)) := by
  cases b1 with
  | cons c b1 => exact h
  | nil =>
    cases ws with
    | cons c ws => exact hws
    | nil => exact h

theorem followOK_insert {ws : List Char} (hws : Blank ws) (ha : AsciiHead ws) (a v : List Char) :
    FollowOK (a ++ v) (a ++ (ws ++ v)) := by
  refine ⟨?_, ?_⟩
  · cases a with
    | cons c a => exact Or.inl rfl
    | nil =>
      cases ws with
      | nil => exact Or.inl rfl
      | cons c ws => exact Or.inr ⟨hws c (List.mem_cons_self ..), ha c rfl⟩
  · have := head_dropWhile_insert hws a v
    rwa [List.append_assoc] at this

theorem mkTok_fields {s s' : Scan} (h : Fields s s') (t : List Char) (typ : Tok) (name pfx : String) :
    mkTok s t typ name pfx = mkTok s' t typ name pfx := by
  rw [← mkTok_setPos s [] t, ← mkTok_setPos s' [] t, h]

theorem Kind.out_fields {s s' : Scan} (h : Fields s s') (k : Kind) {r r' : List Char}
    (hr : Head (r'.dropWhile isSpace) = Head (r.dropWhile isSpace)) : Fields (k.out s r) (k.out s' r') := by
  have h' : setPos s [] = setPos s' [] := h
  cases k with
  | plain t => exact congrArg (fun x : Scan => ({ x with typ := t } : Scan)) h'
  | num l => exact congrArg (fun x : Scan => ({ x with typ := .number, numlex := l } : Scan)) h'
  | str v => exact congrArg (fun x : Scan => ({ x with typ := .string, strval := v } : Scan)) h'
  | nameLike t n p =>
    show setPos (mkTok s r t n p) [] = setPos (mkTok s' r' t n p) []
    rw [mkTok_fields h]
    simp only [mkTok, setPos]
    rw [show (mkCR (List.dropWhile isSpace r)).1 = Head (r.dropWhile isSpace) from rfl,
      show (mkCR (List.dropWhile isSpace r')).1 = Head (r'.dropWhile isSpace) from rfl, hr]

theorem Kind.out_skipSpace (k : Kind) (s : Scan) (r : List Char) :
    (k.out s r).skipSpace = setPos (k.out s r) (r.dropWhile isSpace) := by
  cases k with
  | plain t => exact setPos_skipSpace _ _
  | num l => exact setPos_skipSpace _ _
  | str v => exact setPos_skipSpace _ _
  | nameLike t n p =>
    show (mkTok s r t n p).skipSpace = _
    rw [skipSpace_at (mkTok_at s r t n p), dropWhile_idem]
    rfl

/-- **the two scanner runs stay in step**: from two states that show the same token and stand in front
of `u ++ v` and of `u ++ ws ++ v` (up to blanks still to be skipped) -/
theorem LexPrefix.sync {ws : List Char} (hws : Blank ws) (ha : AsciiHead ws) {u v : List Char} (h : LexPrefix u v) :
    ∀ s s' : Scan, Fields s s' → s.skipSpace = setPos s ((u ++ v).dropWhile isSpace) →
      s'.skipSpace = setPos s' ((u ++ (ws ++ v)).dropWhile isSpace) → Sync s s' := by
  induction h with
  | @blank b v hb =>
    intro s s' hF h1 h2
    refine .merge ?_
    rw [h1, h2, hb.dropWhile, hb.dropWhile, hws.dropWhile, hF.setPos]
  | @axisGap b w b1 b2 rest hb hw hb1 hb2 hasc =>
    intro s s' hF h1 h2
    have e1 : (b ++ (w ++ b1) ++ (b2 ++ ':' :: ':' :: rest)).dropWhile isSpace =
        w ++ ((b1 ++ b2) ++ ':' :: ':' :: rest) := by
      rw [List.append_assoc, hb.dropWhile]
      simp only [List.append_assoc]
      exact dropWhile_plain hw _
    have e2 : (b ++ (w ++ b1) ++ (ws ++ (b2 ++ ':' :: ':' :: rest))).dropWhile isSpace =
        w ++ ((b1 ++ (ws ++ b2)) ++ ':' :: ':' :: rest) := by
      rw [List.append_assoc, hb.dropWhile]
      simp only [List.append_assoc]
      exact dropWhile_plain hw _
    have n1 : s.nextItem = .ok (mkTok s rest .axe (String.ofList w) "") := by
      rw [nextItem_body, h1, e1]
      exact axis_run s rest hw (hb1.append hb2) hasc
    have n2 : s'.nextItem = .ok (mkTok s' rest .axe (String.ofList w) "") := by
      rw [nextItem_body, h2, e2]
      exact axis_run s' rest hw (hb1.append (hws.append hb2)) (hasc.insert ha)
    rw [← mkTok_fields hF] at n2
    exact .step hF n1 n2 (.refl _)
  | @cons b lex u' v k hb hlex _ ih =>
    intro s s' hF h1 h2
    have hlex' : Lexeme lex (u' ++ (ws ++ v)) k := hlex.transfer (followOK_insert hws ha u' v)
    have e1 : (b ++ (lex ++ u') ++ v).dropWhile isSpace = lex ++ (u' ++ v) := by
      rw [List.append_assoc, hb.dropWhile, List.append_assoc]
      exact hlex.dropWhile _
    have e2 : (b ++ (lex ++ u') ++ (ws ++ v)).dropWhile isSpace = lex ++ (u' ++ (ws ++ v)) := by
      rw [List.append_assoc, hb.dropWhile, List.append_assoc]
      exact hlex.dropWhile _
    have n1 : s.nextItem = .ok (k.out s (u' ++ v)) := by
      rw [nextItem_body, h1, e1]; exact hlex.run s
    have n2 : s'.nextItem = .ok (k.out s' (u' ++ (ws ++ v))) := by
      rw [nextItem_body, h2, e2]; exact hlex'.run s'
    refine .step hF n1 n2 (ih _ _ (Kind.out_fields hF k (followOK_insert hws ha u' v).2) ?_ ?_)
    · exact Kind.out_skipSpace k s _
    · exact Kind.out_skipSpace k s' _

/-- **Blanks inserted at a token boundary do not change the scanner's token stream.**
`ws` consists of characters `skipSpace` skips; if it is put directly behind a name, its first character
must be an ASCII one (see `nbsp_after_name`). Both sides are `some` of the same list, or both `none`. -/
theorem tokVs_insert_blanks {u v ws : List Char} (hb : LexPrefix u v) (hws : Blank ws) (ha : AsciiHead ws) :
    tokVs (u ++ ws ++ v) = tokVs (u ++ v) := by
  symm
  apply tokVs_eq_of_sync
  rw [List.append_assoc]
  refine hb.sync hws ha _ _ rfl ?_ ?_
  · exact skipSpace_at (start_at _)
  · exact skipSpace_at (start_at _)


/-! ## boundaries of the new text -/

/-- after the insertion, the position in front of the inserted blanks is a boundary of the new text -/
theorem LexPrefix.insert_right {ws : List Char} (hws : Blank ws) (ha : AsciiHead ws) {u v : List Char}
    (h : LexPrefix u v) : LexPrefix u (ws ++ v) := by
  induction h with
  | @blank b v hb => exact .blank _ hb
  | @axisGap b w b1 b2 rest hb hw hb1 hb2 hasc =>
    have := LexPrefix.axisGap (b2 := ws ++ b2) rest hb hw hb1 (hws.append hb2) (hasc.insert ha)
    rwa [List.append_assoc] at this
  | @cons b lex u' v k hb hlex _ ih =>
    exact .cons hb (hlex.transfer (followOK_insert hws ha u' v)) ih

/-- … and so is the position behind them -/
theorem LexPrefix.insert_left {ws : List Char} (hws : Blank ws) (ha : AsciiHead ws) {u v : List Char}
    (h : LexPrefix u v) : LexPrefix (u ++ ws) v := by
  induction h with
  | @blank b v hb => exact .blank _ (hb.append hws)
  | @axisGap b w b1 b2 rest hb hw hb1 hb2 hasc =>
    have hasc' : AsciiHead (b1 ++ ws ++ b2) := by
      have := hasc.insert ha
      rwa [← List.append_assoc] at this
    have := LexPrefix.axisGap (b1 := b1 ++ ws) rest hb hw (hb1.append hws) hb2 hasc'
    simpa [List.append_assoc] using this
  | @cons b lex u' v k hb hlex _ ih =>
    have hl : Lexeme lex (u' ++ ws ++ v) k := by
      rw [List.append_assoc]; exact hlex.transfer (followOK_insert hws ha u' v)
    have := LexPrefix.cons hb hl ih
    simpa [List.append_assoc] using this


/-! ## building boundaries the way the scanner walks -/

/-- the start of the text is a boundary -/
theorem LexPrefix.start (text : List Char) : LexPrefix [] text := .blank text Blank.nil

/-- a boundary in front of a complete lexeme: the position behind the lexeme is a boundary too -/
theorem LexPrefix.snoc {pre lex v : List Char} {k : Kind} (h : LexPrefix pre (lex ++ v)) (hl : Lexeme lex v k) :
    LexPrefix (pre ++ lex) v := by
  generalize hv : lex ++ v = v0 at h
  induction h with
  | @blank b _ hb =>
    have := LexPrefix.cons (u' := []) hb (by simpa using hl) (.blank v Blank.nil)
    simpa using this
  | @axisGap b w b1 b2 rest hb hw hb1 hb2 hasc =>
    exfalso
    obtain ⟨c, l, rfl, hc⟩ := hl.head_ne_colon
    obtain ⟨c', l', e, hs⟩ := hl.head
    simp only [List.cons.injEq] at e
    obtain ⟨rfl, rfl⟩ := e
    cases b2 with
    | nil =>
      simp only [List.cons_append, List.nil_append, List.cons.injEq] at hv
      exact hc hv.1
    | cons x b2 =>
      simp only [List.cons_append, List.cons.injEq] at hv
      have := hb2 x (List.mem_cons_self ..)
      rw [← hv.1, hs] at this
      cases this
  | @cons b lex0 u' _ k0 hb hlex0 _ ih =>
    subst hv
    have hl0 : Lexeme lex0 ((u' ++ lex) ++ v) k0 := by rw [List.append_assoc]; exact hlex0
    have := LexPrefix.cons hb hl0 (ih rfl)
    simpa [List.append_assoc] using this

theorem blank_prefix_split {b : List Char} (hb : Blank b) : ∀ {b2 v t : List Char}, Blank b2 →
    b ++ v = b2 ++ ':' :: t → ∃ b2', b2 = b ++ b2' ∧ v = b2' ++ ':' :: t := by
  induction b with
  | nil => intro b2 v t _ h; exact ⟨b2, rfl, h⟩
  | cons x b ih =>
    intro b2 v t hb2 h
    cases b2 with
    | nil =>
      simp only [List.cons_append, List.nil_append, List.cons.injEq] at h
      have := hb x (List.mem_cons_self ..)
      rw [h.1, isSpace_colon] at this
      cases this
    | cons y b2 =>
      simp only [List.cons_append, List.cons.injEq] at h
      obtain ⟨b2', e1, e2⟩ := ih (fun c hc => hb c (List.mem_cons_of_mem _ hc))
        (fun c hc => hb2 c (List.mem_cons_of_mem _ hc)) h.2
      exact ⟨b2', by rw [h.1, e1]; rfl, e2⟩

/-- a boundary may be moved to the right over blanks -/
theorem LexPrefix.shift {u b v : List Char} (h : LexPrefix u (b ++ v)) (hb : Blank b) : LexPrefix (u ++ b) v := by
  generalize hv : b ++ v = v0 at h
  induction h with
  | @blank b0 _ hb0 => exact .blank _ (hb0.append hb)
  | @axisGap b0 w b1 b2 rest hb0 hw hb1 hb2 hasc =>
    obtain ⟨b2', rfl, rfl⟩ := blank_prefix_split hb hb2 hv
    have hb2' : Blank b2' := fun c hc => hb2 c (List.mem_append_right _ hc)
    have := LexPrefix.axisGap (b1 := b1 ++ b) (b2 := b2') rest hb0 hw (hb1.append hb) hb2'
      (by rw [List.append_assoc]; exact hasc)
    simpa [List.append_assoc] using this
  | @cons b0 lex u' _ k hb0 hlex _ ih =>
    subst hv
    have hl : Lexeme lex ((u' ++ b) ++ v) k := by rw [List.append_assoc]; exact hlex
    have := LexPrefix.cons hb0 hl (ih rfl)
    simpa [List.append_assoc] using this

end XPathV.Whitespace
