import XPathV.Model.Parser
import XPathV.Lemmas.ParserFuel
/-!
# More fuel changes nothing once the parser did not run out of fuel

`FuelMono.parse_mono` (an accepted parse stays the same with more fuel) extended to errors: if
`parse f cfg text` is not the out-of-fuel error, `parse f' cfg text` is the same result for every
`f' ≥ f`.  Same mutual induction as `BuildRejects/FuelMono.lean`, with `St` in place of `Le`.
-/
namespace XPathV.Whitespace.FuelStable
open XPathV XPathV.Model

def St {α : Type} (R R' : Except PErr α) : Prop := R ≠ .error .fuel → R' = R

theorem St.refl {α : Type} (R : Except PErr α) : St R R := fun _ => rfl
theorem St.fuel {α : Type} {R' : Except PErr α} : St (.error .fuel) R' := fun h => absurd rfl h

theorem St.bind {α β : Type} {R R' : Except PErr α} {k k' : α → Except PErr β} (h : St R R')
    (hk : ∀ a, St (k a) (k' a)) : St (R >>= k) (R' >>= k') := by
  intro hne
  cases hR : R with
  | error err =>
    rw [hR] at hne
    have : err ≠ .fuel := fun e => hne (by rw [e]; rfl)
    rw [h (by rw [hR]; intro e; cases e; exact this rfl), hR]
    rfl
  | ok a =>
    rw [hR] at hne
    rw [h (by rw [hR]; intro e; cases e), hR]
    exact hk a hne

theorem skipMinus_stable : ∀ (f : Nat) (st : PState) (m : Bool), St (skipMinus f st m) (skipMinus (f+1) st m)
  | 0, _, _ => by simp only [skipMinus]; first | exact St.fuel | exact St.refl _
  | f+1, st, m => by
    rw [skipMinus, skipMinus]
    split
    · exact St.bind (St.refl _) fun st1 => skipMinus_stable f st1 (!m)
    · exact St.refl _

section
variable (cfg : PCfg)

def MExpr (f : Nat) : Prop := ∀ st, St (parseExpression f cfg st) (parseExpression (f+1) cfg st)
def MChain (f : Nat) : Prop := ∀ stages st, St (parseChain f cfg stages st) (parseChain (f+1) cfg stages st)
def MTier (f : Nat) : Prop := ∀ ops rest opnd st,
  St (tierLoop f cfg ops rest opnd st) (tierLoop (f+1) cfg ops rest opnd st)
def MPath (f : Nat) : Prop := ∀ st, St (parsePathExpr f cfg st) (parsePathExpr (f+1) cfg st)
def MFilter (f : Nat) : Prop := ∀ st, St (parseFilterExpr f cfg st) (parseFilterExpr (f+1) cfg st)
def MPred (f : Nat) : Prop := ∀ st, St (parsePredicate f cfg st) (parsePredicate (f+1) cfg st)
def MPrimary (f : Nat) : Prop := ∀ st, St (parsePrimary f cfg st) (parsePrimary (f+1) cfg st)
def MMethod (f : Nat) : Prop := ∀ st, St (parseMethod f cfg st) (parseMethod (f+1) cfg st)
def MArgs (f : Nat) : Prop := ∀ st, St (parseArgs f cfg st) (parseArgs (f+1) cfg st)
def MLoc (f : Nat) : Prop := ∀ st, St (parseLocationPath f cfg st) (parseLocationPath (f+1) cfg st)
def MRel (f : Nat) : Prop := ∀ inp st, St (parseRelLoc f cfg inp st) (parseRelLoc (f+1) cfg inp st)
def MStep (f : Nat) : Prop := ∀ inp st, St (parseStep f cfg inp st) (parseStep (f+1) cfg inp st)
def MPreds (f : Nat) : Prop := ∀ opnd st, St (stepPreds f cfg opnd st) (stepPreds (f+1) cfg opnd st)
def MSeq (f : Nat) : Prop := ∀ inp st, St (parseSequence f cfg inp st) (parseSequence (f+1) cfg inp st)
def MSeqLoop (f : Nat) : Prop := ∀ inp opnd st, St (seqLoop f cfg inp opnd st) (seqLoop (f+1) cfg inp opnd st)

def MAll (f : Nat) : Prop :=
  MExpr cfg f ∧ MChain cfg f ∧ MTier cfg f ∧ MPath cfg f ∧ MFilter cfg f ∧ MPred cfg f ∧ MPrimary cfg f ∧
  MMethod cfg f ∧ MArgs cfg f ∧ MLoc cfg f ∧ MRel cfg f ∧ MStep cfg f ∧ MPreds cfg f ∧ MSeq cfg f ∧ MSeqLoop cfg f

variable {cfg}

theorem step_expr {f : Nat} (ih : MChain cfg f) : MExpr cfg (f+1) := by
  intro st
  rw [parseExpression, parseExpression]
  split
  · first | exact St.fuel | exact St.refl _
  · exact St.bind (ih _ _) fun _ => St.refl _

theorem step_chain {f : Nat} (ihChain : MChain cfg f) (ihTier : MTier cfg f) (ihPath : MPath cfg f) :
    MChain cfg (f+1) := by
  intro stages st
  cases stages with
  | nil => rw [parseChain, parseChain]; exact ihPath st
  | cons s rest =>
    cases s with
    | tier ops =>
      rw [parseChain, parseChain]
      exact St.bind (ihChain rest st) fun ⟨opnd, st1⟩ => ihTier ops rest opnd st1
    | unary =>
      rw [parseChain, parseChain]
      refine St.bind (skipMinus_stable (f+1) st false) fun ⟨minus, st1⟩ => ?_
      exact St.bind (ihChain rest st1) fun _ => St.refl _

theorem step_tier {f : Nat} (ihChain : MChain cfg f) (ihTier : MTier cfg f) : MTier cfg (f+1) := by
  intro ops rest opnd st
  rw [tierLoop, tierLoop]
  split
  · exact St.refl _
  · refine St.bind (St.refl _) fun st1 => ?_
    exact St.bind (ihChain rest st1) fun ⟨r, st2⟩ => ihTier ops rest _ st2

theorem step_path {f : Nat} (ihFilter : MFilter cfg f) (ihRel : MRel cfg f) (ihLoc : MLoc cfg f) :
    MPath cfg (f+1) := by
  intro st
  rw [parsePathExpr, parsePathExpr]
  split
  · refine St.bind (ihFilter st) fun ⟨opnd, st1⟩ => ?_
    dsimp only
    split
    · exact St.bind (St.refl _) fun st2 => ihRel _ st2
    · exact St.bind (St.refl _) fun st2 => ihRel _ st2
    · exact St.refl _
  · exact ihLoc st

theorem step_filter {f : Nat} (ihPrimary : MPrimary cfg f) (ihPreds : MPreds cfg f) : MFilter cfg (f+1) := by
  intro st
  rw [parseFilterExpr, parseFilterExpr]
  exact St.bind (ihPrimary st) fun ⟨opnd, st1⟩ => ihPreds opnd st1

theorem step_pred {f : Nat} (ihExpr : MExpr cfg f) : MPred cfg (f+1) := by
  intro st
  rw [parsePredicate, parsePredicate]
  refine St.bind (St.refl _) fun st1 => ?_
  exact St.bind (ihExpr st1) fun _ => St.refl _

theorem step_primary {f : Nat} (ihExpr : MExpr cfg f) (ihMethod : MMethod cfg f) : MPrimary cfg (f+1) := by
  intro st
  rw [parsePrimary, parsePrimary]
  split
  · exact St.refl _
  · exact St.refl _
  · exact St.refl _
  · refine St.bind (St.refl _) fun st1 => ?_
    exact St.bind (ihExpr st1) fun _ => St.refl _
  · split
    · exact ihMethod st
    · exact St.refl _
  · exact St.refl _

theorem step_method {f : Nat} (ihArgs : MArgs cfg f) : MMethod cfg (f+1) := by
  intro st
  rw [parseMethod, parseMethod]
  refine St.bind (St.refl _) fun st1 => ?_
  refine St.bind (St.refl _) fun st2 => ?_
  dsimp only
  split
  · exact St.bind (ihArgs st2) fun _ => St.refl _
  · exact St.refl _

theorem step_args {f : Nat} (ihExpr : MExpr cfg f) (ihArgs : MArgs cfg f) : MArgs cfg (f+1) := by
  intro st
  rw [parseArgs, parseArgs]
  refine St.bind (ihExpr st) fun ⟨a, st1⟩ => ?_
  dsimp only
  split
  · exact St.refl _
  · refine St.bind (St.refl _) fun st2 => ?_
    exact St.bind (ihArgs st2) fun _ => St.refl _

theorem step_loc {f : Nat} (ihRel : MRel cfg f) : MLoc cfg (f+1) := by
  intro st
  rw [parseLocationPath, parseLocationPath]
  split
  · refine St.bind (St.refl _) fun st1 => ?_
    split
    · exact ihRel _ st1
    · exact St.refl _
  · exact St.bind (St.refl _) fun st1 => ihRel _ st1
  · exact ihRel _ st

theorem step_rel {f : Nat} (ihRel : MRel cfg f) (ihStep : MStep cfg f) : MRel cfg (f+1) := by
  intro inp st
  rw [parseRelLoc, parseRelLoc]
  refine St.bind (ihStep inp st) fun ⟨opnd, st1⟩ => ?_
  dsimp only
  split
  · exact St.bind (St.refl _) fun st2 => ihRel _ st2
  · exact St.bind (St.refl _) fun st2 => ihRel _ st2
  · exact St.refl _

theorem step_step {f : Nat} (ihSeq : MSeq cfg f) (ihPreds : MPreds cfg f) : MStep cfg (f+1) := by
  intro inp st
  rw [parseStep, parseStep]
  split
  · refine St.bind (St.refl _) fun st1 => ?_
    split
    · exact St.refl _
    · exact ihPreds _ st1
  · split
    · exact ihSeq inp st
    · refine St.bind (St.refl _) fun st1 => ?_
      exact St.bind (St.refl _) fun ⟨opnd, st2⟩ => ihPreds opnd st2
    · refine St.bind (St.refl _) fun st1 => ?_
      exact St.bind (St.refl _) fun ⟨opnd, st2⟩ => ihPreds opnd st2
    · exact St.bind (St.refl _) fun ⟨opnd, st2⟩ => ihPreds opnd st2

theorem step_preds {f : Nat} (ihPred : MPred cfg f) (ihPreds : MPreds cfg f) : MPreds cfg (f+1) := by
  intro opnd st
  rw [stepPreds, stepPreds]
  split
  · exact St.bind (ihPred st) fun ⟨c, st1⟩ => ihPreds _ st1
  · exact St.refl _

theorem step_seq {f : Nat} (ihStep : MStep cfg f) (ihSeqLoop : MSeqLoop cfg f) : MSeq cfg (f+1) := by
  intro inp st
  rw [parseSequence, parseSequence]
  split
  · first | exact St.fuel | exact St.refl _
  · refine St.bind (St.refl _) fun st1 => ?_
    refine St.bind (ihStep inp st1) fun ⟨opnd, st2⟩ => ?_
    exact St.bind (ihSeqLoop inp opnd st2) fun _ => St.refl _

theorem step_seqLoop {f : Nat} (ihStep : MStep cfg f) (ihSeqLoop : MSeqLoop cfg f) : MSeqLoop cfg (f+1) := by
  intro inp opnd st
  rw [seqLoop, seqLoop]
  split
  · refine St.bind (St.refl _) fun st1 => ?_
    exact St.bind (ihStep inp st1) fun ⟨o2, st2⟩ => ihSeqLoop inp _ st2
  · exact St.refl _

theorem all_stable : ∀ f, MAll cfg f
  | 0 => by
    refine ⟨?_, ?_, ?_, ?_, ?_, ?_, ?_, ?_, ?_, ?_, ?_, ?_, ?_, ?_, ?_⟩ <;> intro <;> intros
    all_goals
      intro hne
      simp only [parseExpression, parseChain, tierLoop, parsePathExpr, parseFilterExpr, parsePredicate,
        parsePrimary, parseMethod, parseArgs, parseLocationPath, parseRelLoc, parseStep, stepPreds, parseSequence,
        seqLoop] at hne
      exact absurd rfl hne
  | f+1 => by
    obtain ⟨hExpr, hChain, hTier, hPath, hFilter, hPred, hPrimary, hMethod, hArgs, hLoc, hRel, hStep, hPreds,
      hSeq, hSeqLoop⟩ := all_stable f
    exact ⟨step_expr hChain, step_chain hChain hTier hPath, step_tier hChain hTier,
      step_path hFilter hRel hLoc, step_filter hPrimary hPreds, step_pred hExpr,
      step_primary hExpr hMethod, step_method hArgs, step_args hExpr hArgs, step_loc hRel,
      step_rel hRel hStep, step_step hSeq hPreds, step_preds hPred hPreds, step_seq hStep hSeqLoop,
      step_seqLoop hStep hSeqLoop⟩

end

theorem parseExpression_stable (cfg : PCfg) {f f' : Nat} (h : f ≤ f') (st : PState) :
    St (parseExpression f cfg st) (parseExpression f' cfg st) := by
  induction h with
  | refl => exact St.refl _
  | step _ ih =>
    intro hne
    rw [(all_stable _).1 st (by rw [ih hne]; exact hne), ih hne]

/-- more fuel does not change a parse that did not run out of fuel -/
theorem parse_stable (cfg : PCfg) {f f' : Nat} (h : f ≤ f') (text : List Char)
    (hp : parse f cfg text ≠ .error .fuel) : parse f' cfg text = parse f cfg text := by
  unfold parse at hp ⊢
  cases hs : Scan.init text with
  | error e => rfl
  | ok s =>
    rw [hs] at hp
    dsimp only at hp ⊢
    have : parseExpression f cfg { s := s, d := 0 } ≠ .error .fuel := by
      intro e; rw [e] at hp; exact hp rfl
    rw [parseExpression_stable cfg h _ this]

/-- for the library's configuration, `fuelFor text` or more fuel all give the same result -/
theorem parse_fuelFor_stable (ns : Option (List (String × String))) (text : List Char) {f : Nat}
    (h : fuelFor text ≤ f) : parse f (defaultCfg ns) text = parse (fuelFor text) (defaultCfg ns) text :=
  parse_stable _ h text (Lemmas.ParserFuel.parse_fuel_enough_default ns text)

end XPathV.Whitespace.FuelStable
