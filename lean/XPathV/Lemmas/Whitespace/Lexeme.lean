import XPathV.Lemmas.Whitespace.Basic
/-!
# C10, second clause — the lexemes of the scanner model

`Lexeme lex r k`: the characters `lex`, when the text goes on with `r`, are one complete item of the
scanner, of kind `k` — `Lexeme.run`: from a position in front of `lex ++ r` (blanks skipped),
`Scan.nextItem` returns the token `k` and stands in front of `r` (for a name-like token: in front of
`r` without its leading blanks, with `canBeFunc` telling whether the next character is `(`).
-/
namespace XPathV.Whitespace
open XPathV XPathV.Model XPathV.Bridge
open XPathV.Lemmas.ScanTail (At mkCR Done)
open XPathV.BuildRejects

/-- the token a lexeme produces -/
inductive Kind
  | plain (t : Tok)
  | num (lexeme : String)
  | str (v : String)
  | nameLike (typ : Tok) (name pfx : String)

/-- the scanner state after the lexeme, standing in front of `r` -/
def Kind.out (k : Kind) (s : Scan) (r : List Char) : Scan :=
  match k with
  | .plain t => setPos { s with typ := t } r
  | .num l => setPos { s with typ := .number, numlex := l } r
  | .str v => setPos { s with typ := .string, strval := v } r
  | .nameLike t n p => mkTok s r t n p

def singles : List (Char × Tok) :=
  [(',', .comma), ('@', .at), ('(', .lparen), (')', .rparen), ('|', .union), ('*', .star), ('[', .lbracket),
   (']', .rbracket), ('+', .plus), ('-', .minus), ('=', .eq), ('$', .dollar)]

def twos : List (Char × Char × Tok × Tok) :=
  [('<', '=', .lt, .le), ('>', '=', .gt, .ge), ('!', '=', .bang, .ne), ('/', '/', .slash, .slashslash)]

theorem single_run : ∀ p ∈ singles, ∀ (s : Scan) (r : List Char),
    itemBody (setPos s (p.1 :: r)) = .ok (setPos { s with typ := p.2 } r) := by
  intro p hp s r
  simp only [singles, List.mem_cons, List.not_mem_nil, or_false] at hp
  rcases hp with rfl | rfl | rfl | rfl | rfl | rfl | rfl | rfl | rfl | rfl | rfl | rfl <;>
    simp [itemBody, tkSingle, nextChar_eq, setPos, mkCR_eta]


theorem two1_run : ∀ p ∈ twos, ∀ (s : Scan) (r : List Char), Head r ≠ p.2.1 →
    itemBody (setPos s (p.1 :: r)) = .ok (setPos { s with typ := p.2.2.1 } r) := by
  intro p hp s r hr
  simp only [twos, List.mem_cons, List.not_mem_nil, or_false] at hp
  rcases hp with rfl | rfl | rfl | rfl <;>
    simpa [itemBody, tkTwo, nextChar_eq, setPos, mkCR_eta] using hr

theorem two2_run : ∀ p ∈ twos, ∀ (s : Scan) (r : List Char),
    itemBody (setPos s (p.1 :: p.2.1 :: r)) = .ok (setPos { s with typ := p.2.2.2 } r) := by
  intro p hp s r
  simp only [twos, List.mem_cons, List.not_mem_nil, or_false] at hp
  rcases hp with rfl | rfl | rfl | rfl <;>
    simp [itemBody, tkTwo, nextChar_eq, setPos, mkCR_eta]

theorem dot_run (s : Scan) {r : List Char} (h1 : Head r ≠ '.') (h2 : isDigit (Head r) = false) :
    itemBody (setPos s ('.' :: r)) = .ok (setPos { s with typ := .dot } r) := by
  simp only [Head] at h1 h2
  simp [itemBody, tkDot, nextChar_eq, setPos, mkCR_eta, h1, h2]

theorem dotdot_run (s : Scan) (r : List Char) :
    itemBody (setPos s ('.' :: '.' :: r)) = .ok (setPos { s with typ := .dotdot } r) := by
  simp [itemBody, tkDot, nextChar_eq, setPos, mkCR_eta]


/-! ### numbers and strings -/

def AsciiDigits (l : List Char) : Prop := ∀ d ∈ l, isAsciiDigit d = true

theorem isDigit_of_ascii {c : Char} (h : isAsciiDigit c = true) : isDigit c = true := by
  simp [isDigit, h]

theorem stop_of_head {p : Char → Bool} {r : List Char} (h : p (Head r) = false) :
    ∀ x xs, r = x :: xs → p x = false := by
  intro x xs e; subst e; exact h

theorem isDigit_dot : isDigit '.' = false := by decide

theorem takeRun_digits {d : Char} {ds r : List Char} (hd : AsciiDigits (d :: ds)) (hr : isDigit (Head r) = false) :
    takeRun isDigit d (ds ++ r) = (d :: ds, Head r, (mkCR r).2) :=
  takeRun_run isDigit r (stop_of_head hr) ds d (fun y hy => isDigit_of_ascii (hd y hy))

theorem dotnum_run (s : Scan) {ds r : List Char} (hne : ds ≠ []) (hd : AsciiDigits ds) (hr : isDigit (Head r) = false) :
    itemBody (setPos s ('.' :: (ds ++ r))) = .ok (setPos { s with typ := .number, numlex := String.ofList ('.' :: ds) } r) := by
  cases ds with
  | nil => exact absurd rfl hne
  | cons d ds =>
    have hdd : isDigit d = true := isDigit_of_ascii (hd d (List.mem_cons_self ..))
    have hdot : d ≠ '.' := by
      intro e; rw [e, isDigit_dot] at hdd; cases hdd
    have hall : (d :: ds).all isAsciiDigit = true := List.all_eq_true.mpr hd
    simp only [itemBody, tkDot, nextChar_eq, setPos, mkCR_eta, List.cons_append, takeRun_digits hd hr]
    simp [hdot, hdd, hall]

theorem scanStringAux_body {q : Char} : ∀ {body : List Char} (r : List Char), q ∉ body →
    scanStringAux q (body ++ q :: r) = some (body, r)
  | [], r, _ => by simp [scanStringAux]
  | c :: body, r, h => by
    have hc : c ≠ q := fun e => h (e ▸ List.mem_cons_self ..)
    have hb : q ∉ body := fun e => h (List.mem_cons_of_mem _ e)
    simp [scanStringAux, hc, scanStringAux_body r hb]

theorem str_run (s : Scan) {q : Char} {body : List Char} (r : List Char) (hq : q = '"' ∨ q = '\'') (hb : q ∉ body) :
    itemBody (setPos s (q :: (body ++ q :: r))) = .ok (setPos { s with typ := .string, strval := String.ofList body } r) := by
  rcases hq with rfl | rfl <;>
    simp [itemBody, tkString, nextChar_eq, setPos, mkCR_eta, scanStringAux_body r hb]


theorem punct_not_digit : ∀ c ∈ punct, isDigit c = false := by decide

theorem itemBody_digit (s : Scan) (h : isDigit s.curr = true) : itemBody s = tkNumber s := by
  have hp : ∀ c ∈ punct, s.curr ≠ c := fun c hc e => by
    have := punct_not_digit c hc; rw [← e, h] at this; cases this
  simp only [punct, List.forall_mem_cons, List.not_mem_nil, false_imp_iff, implies_true, and_true] at hp
  obtain ⟨h0, h1, h2, h3, h4, h5, h6, h7, h8, h9, h10, h11, h12, h13, h14, h15, h16, h17, h18, h19, h20⟩ := hp
  simp [itemBody, h0, h1, h2, h3, h4, h5, h6, h7, h8, h9, h10, h11, h12, h13, h14, h15, h16, h17, h18, h19, h20, h]

theorem all_ascii_or_dot {l : List Char} (h : ∀ c ∈ l, isAsciiDigit c = true ∨ c = '.') :
    l.all (fun ch => isAsciiDigit ch || ch == '.') = true := by
  rw [List.all_eq_true]
  intro c hc
  rcases h c hc with h | h <;> simp [h]

/-- digits not followed by a digit or `.`: a number, unless it is too large for a double -/
theorem int_eval (s : Scan) {ip r : List Char} (hne : ip ≠ []) (hd : AsciiDigits ip) (hr : isDigit (Head r) = false)
    (hdot : Head r ≠ '.') :
    itemBody (setPos s (ip ++ r)) =
      if numOverflows ip [] = true then .error .badNumber
      else .ok (setPos { s with typ := .number, numlex := String.ofList ip } r) := by
  cases ip with
  | nil => exact absurd rfl hne
  | cons d ds =>
    have hdd : isDigit d = true := isDigit_of_ascii (hd d (List.mem_cons_self ..))
    rw [itemBody_digit _ (by exact hdd)]
    have hall := all_ascii_or_dot (l := d :: ds) (fun c hc => Or.inl (hd c hc))
    simp only [tkNumber, setPos, mkCR_eta, List.cons_append, takeRun_digits hd hr]
    simp only [Head] at hdot
    cases hov : numOverflows (d :: ds) [] <;> simp [hdot, hall, hov]

theorem int_run (s : Scan) {ip r : List Char} (hne : ip ≠ []) (hd : AsciiDigits ip) (hr : isDigit (Head r) = false)
    (hdot : Head r ≠ '.') (hov : numOverflows ip [] = false) :
    itemBody (setPos s (ip ++ r)) = .ok (setPos { s with typ := .number, numlex := String.ofList ip } r) := by
  rw [int_eval s hne hd hr hdot, hov]
  rfl

theorem takeRun_none {p : Char → Bool} {x : Char} (xs : List Char) (h : p x = false) : takeRun p x xs = ([], x, xs) := by
  cases xs <;> simp [takeRun, h]

theorem dec_eval (s : Scan) {ip fp r : List Char} (hne : ip ≠ []) (hd : AsciiDigits ip) (hf : AsciiDigits fp)
    (hr : isDigit (Head r) = false) :
    itemBody (setPos s (ip ++ '.' :: (fp ++ r))) =
      if numOverflows ip fp = true then .error .badNumber
      else .ok (setPos { s with typ := .number, numlex := String.ofList (ip ++ '.' :: fp) } r) := by
  cases ip with
  | nil => exact absurd rfl hne
  | cons d ds =>
    have hdd : isDigit d = true := isDigit_of_ascii (hd d (List.mem_cons_self ..))
    rw [itemBody_digit _ (by exact hdd)]
    have hall := all_ascii_or_dot (l := d :: ds ++ '.' :: fp) (fun c hc => by
      rcases List.mem_append.mp hc with h | h
      · exact Or.inl (hd c h)
      · rcases List.mem_cons.mp h with h | h
        · exact Or.inr h
        · exact Or.inl (hf c h))
    have h1 : takeRun isDigit d (ds ++ '.' :: (fp ++ r)) = (d :: ds, '.', fp ++ r) :=
      takeRun_digits (r := '.' :: (fp ++ r)) hd isDigit_dot
    have hcond : ((d :: (ds ++ '.' :: fp)).all (fun ch => isAsciiDigit ch || ch == '.') &&
        !numOverflows (d :: ds) (List.drop 1 ('.' :: fp))) = !numOverflows (d :: ds) fp := by
      rw [show (d :: (ds ++ '.' :: fp)) = (d :: ds ++ '.' :: fp) from rfl, hall]
      simp
    simp only [tkNumber, setPos, mkCR_eta, List.cons_append, h1]
    cases fp with
    | nil =>
      cases r with
      | nil =>
        simp only [List.append_nil, beq_self_eq_true, ↓reduceIte]
        rw [hcond]
        cases numOverflows (d :: ds) [] <;> rfl
      | cons x xs =>
        have hx : isDigit x = false := hr
        simp only [List.nil_append, beq_self_eq_true, ↓reduceIte, takeRun_none xs hx]
        rw [hcond]
        cases numOverflows (d :: ds) [] <;> rfl
    | cons e fp =>
      simp only [List.cons_append, beq_self_eq_true, ↓reduceIte, takeRun_digits hf hr]
      rw [hcond]
      cases numOverflows (d :: ds) (e :: fp) <;> rfl

theorem dec_run (s : Scan) {ip fp r : List Char} (hne : ip ≠ []) (hd : AsciiDigits ip) (hf : AsciiDigits fp)
    (hr : isDigit (Head r) = false) (hov : numOverflows ip fp = false) :
    itemBody (setPos s (ip ++ '.' :: (fp ++ r))) =
      .ok (setPos { s with typ := .number, numlex := String.ofList (ip ++ '.' :: fp) } r) := by
  rw [dec_eval s hne hd hf hr, hov]
  rfl

/-! ### names -/

theorem itemBody_name (s : Scan) (h : startsName s.curr = true) : itemBody s = nameCont s := by
  have hsk : s.skipSpace = s := skipSpace_id s (startsName_not_space h)
  have h1 := nextItem_name s (by rw [hsk]; exact h)
  rw [nextItem_body, hsk] at h1
  exact h1

theorem itemBody_plain (s : Scan) {w : List Char} (hw : plainName w = true) (t : List Char) :
    itemBody (setPos s (w ++ t)) = nameCont (setPos s (w ++ t)) := by
  obtain ⟨c, w', rfl, hc, _⟩ := plainName_cons hw
  exact itemBody_name _ hc

theorem mkTok_setPos (s : Scan) (x t : List Char) (typ : Tok) (name pfx : String) :
    mkTok (setPos s x) t typ name pfx = mkTok s t typ name pfx := rfl

theorem nameRun_of_head {w r : List Char} (hw : plainName w = true) (hn : isName (Head r) = false)
    (ha : (Head r).toNat < 0x80) : NameRun w r :=
  nameRun_of_plain hw (stop_of_head hn) ha

theorem name_run (s : Scan) {w r : List Char} (hw : plainName w = true) (hn : isName (Head r) = false)
    (ha : (Head r).toNat < 0x80) (hc : Head (r.dropWhile isSpace) ≠ ':') :
    itemBody (setPos s (w ++ r)) = .ok (mkTok s r .name (String.ofList w) "") := by
  rw [itemBody_plain s hw, nameCont_plain (nameRun_of_head hw hn ha) hc (setPos_at _ _), mkTok_setPos]

theorem isSpace_colon : isSpace ':' = false := by decide

theorem axis_run (s : Scan) {w b : List Char} (r : List Char) (hw : plainName w = true) (hb : Blank b)
    (ha : AsciiHead b) :
    itemBody (setPos s (w ++ (b ++ ':' :: ':' :: r))) = .ok (mkTok s r .axe (String.ofList w) "") := by
  rw [itemBody_plain s hw]
  cases b with
  | nil => rw [List.nil_append, nameCont_axe (nameRun_colon hw) (setPos_at _ _), mkTok_setPos]
  | cons c b' =>
    have hcs : isSpace c = true := hb c (List.mem_cons_self ..)
    have hf := blank_facts hcs
    have hrun : NameRun w (c :: b' ++ ':' :: ':' :: r) :=
      nameRun_of_head hw hf.1 (ha c rfl)
    have hsp : (c :: b' ++ ':' :: ':' :: r).dropWhile isSpace = ':' :: ':' :: r := by
      rw [hb.dropWhile]
      simp [isSpace_colon]
    rw [nameCont_space_axe hrun hf.2.2.2.2.2.2.1 hsp (setPos_at _ _), mkTok_setPos]

theorem pfxStar_run (s : Scan) {w : List Char} (r : List Char) (hw : plainName w = true) :
    itemBody (setPos s (w ++ ':' :: '*' :: r)) = .ok (mkTok s r .name "*" (String.ofList w)) := by
  rw [itemBody_plain s hw, nameCont_pfx_star (nameRun_colon hw) (setPos_at _ _), mkTok_setPos]

theorem localPart_cons {w : List Char} (h : localPart w = true) :
    ∃ c w', w = c :: w' ∧ isNameStart c = true ∧ ∀ y ∈ w, isName y = true := by
  cases w with
  | nil => simp [localPart] at h
  | cons c w' =>
    simp only [localPart, Bool.and_eq_true, List.all_eq_true] at h
    exact ⟨c, w', rfl, h.1, h.2⟩

theorem qname_run (s : Scan) {w w2 r : List Char} (hw : plainName w = true) (hw2 : localPart w2 = true)
    (hn : isName (Head r) = false) (ha : (Head r).toNat < 0x80) :
    itemBody (setPos s (w ++ ':' :: (w2 ++ r))) = .ok (mkTok s r .name (String.ofList w2) (String.ofList w)) := by
  obtain ⟨c, w', rfl, hc, hall⟩ := localPart_cons hw2
  have hr2 : NameRun (c :: w') r := ⟨by simp, hall, stop_of_head hn, ha⟩
  have hstar : (c :: w').head? ≠ some '*' := by
    intro e
    simp only [List.head?_cons, Option.some.injEq] at e
    rw [e, isNameStart_star] at hc
    cases hc
  have hstart : ∀ x, (c :: w').head? = some x → isNameStart x = true := by
    intro x hx
    simp only [List.head?_cons, Option.some.injEq] at hx
    rw [← hx]; exact hc
  rw [itemBody_plain s hw, nameCont_qname (nameRun_colon hw) hr2 hstar hstart (setPos_at _ _), mkTok_setPos]


/-! ## the lexemes -/

/-- `Lexeme lex r k`: followed by `r`, the characters `lex` are one complete item of kind `k`.
The conditions on `r` say that the item cannot go on: they only look at the first character of `r`
(`Head r`, `U+0000` at the end of the text) — and, for a plain name, at the first character after
the blanks of `r`, which must not be a colon (`a ::` is an axis, `a :b` an error). -/
inductive Lexeme : List Char → List Char → Kind → Prop
  /-- `, @ ( ) | * [ ] + - = $` -/
  | single {c : Char} {t : Tok} (r : List Char) : (c, t) ∈ singles → Lexeme [c] r (.plain t)
  /-- `< > ! /` not followed by `=` (`/` for `/`) -/
  | two1 {c c2 : Char} {t1 t2 : Tok} {r : List Char} : (c, c2, t1, t2) ∈ twos → Head r ≠ c2 → Lexeme [c] r (.plain t1)
  /-- `<= >= != //` -/
  | two2 {c c2 : Char} {t1 t2 : Tok} (r : List Char) : (c, c2, t1, t2) ∈ twos → Lexeme [c, c2] r (.plain t2)
  /-- `.` not followed by `.` or a digit -/
  | dot {r : List Char} : Head r ≠ '.' → isDigit (Head r) = false → Lexeme ['.'] r (.plain .dot)
  | dotdot (r : List Char) : Lexeme ['.', '.'] r (.plain .dotdot)
  /-- `.5` -/
  | dotnum {ds r : List Char} : ds ≠ [] → AsciiDigits ds → isDigit (Head r) = false →
      Lexeme ('.' :: ds) r (.num (String.ofList ('.' :: ds)))
  /-- a string literal -/
  | str {q : Char} {body : List Char} (r : List Char) : (q = '"' ∨ q = '\'') → q ∉ body →
      Lexeme (q :: (body ++ [q])) r (.str (String.ofList body))
  /-- `12` not followed by a digit or `.` -/
  | int {ip r : List Char} : ip ≠ [] → AsciiDigits ip → isDigit (Head r) = false → Head r ≠ '.' →
      numOverflows ip [] = false → Lexeme ip r (.num (String.ofList ip))
  /-- `12.` and `12.5` not followed by a digit -/
  | dec {ip fp r : List Char} : ip ≠ [] → AsciiDigits ip → AsciiDigits fp → isDigit (Head r) = false →
      numOverflows ip fp = false → Lexeme (ip ++ '.' :: fp) r (.num (String.ofList (ip ++ '.' :: fp)))
  /-- a name without prefix: not followed by a name character or (even after blanks) a colon -/
  | name {w r : List Char} : plainName w = true → isName (Head r) = false → (Head r).toNat < 0x80 →
      Head (r.dropWhile isSpace) ≠ ':' → Lexeme w r (.nameLike .name (String.ofList w) "")
  /-- an axis specifier: name, optional blanks, `::` -/
  | axis {w b : List Char} (r : List Char) : plainName w = true → Blank b → AsciiHead b →
      Lexeme (w ++ (b ++ [':', ':'])) r (.nameLike .axe (String.ofList w) "")
  /-- `prefix:*` -/
  | pfxStar {w : List Char} (r : List Char) : plainName w = true →
      Lexeme (w ++ [':', '*']) r (.nameLike .name "*" (String.ofList w))
  /-- `prefix:local` -/
  | qname {w w2 r : List Char} : plainName w = true → localPart w2 = true → isName (Head r) = false →
      (Head r).toNat < 0x80 → Lexeme (w ++ ':' :: w2) r (.nameLike .name (String.ofList w2) (String.ofList w))

/-- **the scanner reads a lexeme as one item** -/
theorem Lexeme.run {lex r : List Char} {k : Kind} (h : Lexeme lex r k) (s : Scan) :
    itemBody (setPos s (lex ++ r)) = .ok (k.out s r) := by
  cases h with
  | @single c t r hm => exact single_run (c, t) hm s r
  | @two1 c c2 t1 t2 r hm hr => exact two1_run (c, c2, t1, t2) hm s r hr
  | @two2 c c2 t1 t2 r hm => exact two2_run (c, c2, t1, t2) hm s r
  | dot h1 h2 => exact dot_run s h1 h2
  | dotdot r => exact dotdot_run s r
  | dotnum hne hd hr => exact dotnum_run s hne hd hr
  | @str q body r hq hb =>
    have : q :: (body ++ [q]) ++ r = q :: (body ++ q :: r) := by simp
    rw [this]; exact str_run s r hq hb
  | int hne hd hr hdot hov => exact int_run s hne hd hr hdot hov
  | @dec ip fp r hne hd hf hr hov =>
    have : ip ++ '.' :: fp ++ r = ip ++ '.' :: (fp ++ r) := by simp
    rw [this]; exact dec_run s hne hd hf hr hov
  | name hw hn ha hc => exact name_run s hw hn ha hc
  | @axis w b r hw hb ha =>
    have : w ++ (b ++ [':', ':']) ++ r = w ++ (b ++ ':' :: ':' :: r) := by simp
    rw [this]; exact axis_run s r hw hb ha
  | @pfxStar w r hw =>
    have : w ++ [':', '*'] ++ r = w ++ ':' :: '*' :: r := by simp
    rw [this]; exact pfxStar_run s r hw
  | @qname w w2 r hw hw2 hn ha =>
    have : w ++ ':' :: w2 ++ r = w ++ ':' :: (w2 ++ r) := by simp
    rw [this]; exact qname_run s hw hw2 hn ha

theorem singles_not_space : ∀ p ∈ singles, isSpace p.1 = false := by decide
theorem twos_not_space : ∀ p ∈ twos, isSpace p.1 = false := by decide
theorem twos_second : ∀ p ∈ twos, p.2.1 = '=' ∨ p.2.1 = '/' := by decide

theorem asciiDigit_not_space {d : Char} (h : isAsciiDigit d = true) : isSpace d = false := by
  cases hs : isSpace d with
  | false => rfl
  | true =>
    have := (blank_facts hs).2.1
    rw [isDigit_of_ascii h] at this
    cases this

theorem plainName_head {w : List Char} (h : plainName w = true) : ∃ c l, w = c :: l ∧ isSpace c = false := by
  obtain ⟨c, w', rfl, hc, _⟩ := plainName_cons h
  exact ⟨c, w', rfl, startsName_not_space hc⟩

/-- a lexeme starts with a character that is no blank -/
theorem Lexeme.head {lex r : List Char} {k : Kind} (h : Lexeme lex r k) : ∃ c l, lex = c :: l ∧ isSpace c = false := by
  cases h with
  | @single c t r hm => exact ⟨c, [], rfl, singles_not_space (c, t) hm⟩
  | @two1 c c2 t1 t2 r hm hr => exact ⟨c, [], rfl, twos_not_space (c, c2, t1, t2) hm⟩
  | @two2 c c2 t1 t2 r hm => exact ⟨c, [c2], rfl, twos_not_space (c, c2, t1, t2) hm⟩
  | dot h1 h2 => exact ⟨_, _, rfl, by decide⟩
  | dotdot r => exact ⟨_, _, rfl, by decide⟩
  | dotnum hne hd hr => exact ⟨_, _, rfl, by decide⟩
  | str r hq hb => rcases hq with rfl | rfl <;> exact ⟨_, _, rfl, by decide⟩
  | int hne hd hr hdot hov =>
    cases lex with
    | nil => exact absurd rfl hne
    | cons d ds => exact ⟨d, ds, rfl, asciiDigit_not_space (hd d (List.mem_cons_self ..))⟩
  | @dec ip fp r hne hd hf hr hov =>
    cases ip with
    | nil => exact absurd rfl hne
    | cons d ds => exact ⟨d, _, rfl, asciiDigit_not_space (hd d (List.mem_cons_self ..))⟩
  | name hw hn ha hc => exact plainName_head hw
  | axis r hw hb ha =>
    obtain ⟨c, l, rfl, hc⟩ := plainName_head hw
    exact ⟨c, _, rfl, hc⟩
  | pfxStar r hw =>
    obtain ⟨c, l, rfl, hc⟩ := plainName_head hw
    exact ⟨c, _, rfl, hc⟩
  | qname hw hw2 hn ha =>
    obtain ⟨c, l, rfl, hc⟩ := plainName_head hw
    exact ⟨c, _, rfl, hc⟩

theorem Lexeme.dropWhile {lex r : List Char} {k : Kind} (h : Lexeme lex r k) (t : List Char) :
    (lex ++ t).dropWhile isSpace = lex ++ t := by
  obtain ⟨c, l, rfl, hc⟩ := h.head
  simp [hc]

/-- the text after the lexeme may be replaced by one that looks the same to the scanner: the same first
character or an ASCII blank instead, and the same first character after the blanks -/
def FollowOK (r r' : List Char) : Prop :=
  (Head r' = Head r ∨ (isSpace (Head r') = true ∧ (Head r').toNat < 0x80)) ∧
  Head (r'.dropWhile isSpace) = Head (r.dropWhile isSpace)

theorem Lexeme.transfer {lex r r' : List Char} {k : Kind} (h : Lexeme lex r k) (hf : FollowOK r r') :
    Lexeme lex r' k := by
  obtain ⟨h1, h2⟩ := hf
  cases h with
  | single r hm => exact .single r' hm
  | @two1 c c2 t1 t2 r hm hr =>
    refine .two1 hm ?_
    rcases h1 with h1 | ⟨h1, _⟩
    · rw [h1]; exact hr
    · have hb := blank_facts h1
      rcases twos_second (c, c2, t1, t2) hm with e | e <;> (simp only at e; rw [e])
      · exact hb.2.2.2.1
      · exact hb.2.2.2.2.1
  | two2 r hm => exact .two2 r' hm
  | dot hd1 hd2 =>
    rcases h1 with h1 | ⟨h1, _⟩
    · exact .dot (by rw [h1]; exact hd1) (by rw [h1]; exact hd2)
    · have hb := blank_facts h1
      exact .dot hb.2.2.2.2.2.1 hb.2.1
  | dotdot r => exact .dotdot r'
  | dotnum hne hd hr =>
    refine .dotnum hne hd ?_
    rcases h1 with h1 | ⟨h1, _⟩
    · rw [h1]; exact hr
    · exact (blank_facts h1).2.1
  | str r hq hb => exact .str r' hq hb
  | int hne hd hr hdot hov =>
    rcases h1 with h1 | ⟨h1, _⟩
    · exact .int hne hd (by rw [h1]; exact hr) (by rw [h1]; exact hdot) hov
    · have hb := blank_facts h1
      exact .int hne hd hb.2.1 hb.2.2.2.2.2.1 hov
  | dec hne hd hf hr hov =>
    refine .dec hne hd hf ?_ hov
    rcases h1 with h1 | ⟨h1, _⟩
    · rw [h1]; exact hr
    · exact (blank_facts h1).2.1
  | name hw hn ha hc =>
    rcases h1 with h1 | ⟨h1, h1a⟩
    · exact .name hw (by rw [h1]; exact hn) (by rw [h1]; exact ha) (by rw [h2]; exact hc)
    · exact .name hw (blank_facts h1).1 h1a (by rw [h2]; exact hc)
  | axis r hw hb ha => exact .axis r' hw hb ha
  | pfxStar r hw => exact .pfxStar r' hw
  | qname hw hw2 hn ha =>
    rcases h1 with h1 | ⟨h1, h1a⟩
    · exact .qname hw hw2 (by rw [h1]; exact hn) (by rw [h1]; exact ha)
    · exact .qname hw hw2 (blank_facts h1).1 h1a


theorem singles_not_colon : ∀ p ∈ singles, p.1 ≠ ':' := by decide
theorem twos_not_colon : ∀ p ∈ twos, p.1 ≠ ':' := by decide
theorem isDigit_colon : isDigit ':' = false := by decide
theorem startsName_colon : startsName ':' = false := by decide

theorem plainName_head_colon {w : List Char} (h : plainName w = true) : ∃ c l, w = c :: l ∧ c ≠ ':' := by
  obtain ⟨c, w', rfl, hc, _⟩ := plainName_cons h
  exact ⟨c, w', rfl, fun e => by rw [e, startsName_colon] at hc; cases hc⟩

/-- no lexeme starts with a colon -/
theorem Lexeme.head_ne_colon {lex r : List Char} {k : Kind} (h : Lexeme lex r k) : ∃ c l, lex = c :: l ∧ c ≠ ':' := by
  cases h with
  | @single c t r hm => exact ⟨c, [], rfl, singles_not_colon (c, t) hm⟩
  | @two1 c c2 t1 t2 r hm hr => exact ⟨c, [], rfl, twos_not_colon (c, c2, t1, t2) hm⟩
  | @two2 c c2 t1 t2 r hm => exact ⟨c, [c2], rfl, twos_not_colon (c, c2, t1, t2) hm⟩
  | dot h1 h2 => exact ⟨_, _, rfl, by decide⟩
  | dotdot r => exact ⟨_, _, rfl, by decide⟩
  | dotnum hne hd hr => exact ⟨_, _, rfl, by decide⟩
  | str r hq hb => rcases hq with rfl | rfl <;> exact ⟨_, _, rfl, by decide⟩
  | int hne hd hr hdot hov =>
    cases lex with
    | nil => exact absurd rfl hne
    | cons d ds =>
      refine ⟨d, ds, rfl, fun e => ?_⟩
      have := isDigit_of_ascii (hd d (List.mem_cons_self ..))
      rw [e, isDigit_colon] at this; cases this
  | @dec ip fp r hne hd hf hr hov =>
    cases ip with
    | nil => exact absurd rfl hne
    | cons d ds =>
      refine ⟨d, _, rfl, fun e => ?_⟩
      have := isDigit_of_ascii (hd d (List.mem_cons_self ..))
      rw [e, isDigit_colon] at this; cases this
  | name hw hn ha hc => exact plainName_head_colon hw
  | axis r hw hb ha =>
    obtain ⟨c, l, rfl, hc⟩ := plainName_head_colon hw
    exact ⟨c, _, rfl, hc⟩
  | pfxStar r hw =>
    obtain ⟨c, l, rfl, hc⟩ := plainName_head_colon hw
    exact ⟨c, _, rfl, hc⟩
  | qname hw hw2 hn ha =>
    obtain ⟨c, l, rfl, hc⟩ := plainName_head_colon hw
    exact ⟨c, _, rfl, hc⟩

end XPathV.Whitespace
