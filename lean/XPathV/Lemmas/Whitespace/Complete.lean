import XPathV.Lemmas.Whitespace.Boundary
/-!
# C10, second clause — the lexemes are all the items of the scanner (ASCII texts)

`itemBody_inv`: whenever `Scan.nextItem` returns a token (not the end token) on a text of ASCII
characters, the characters it consumed are a `Lexeme` and the state it returns is the one `Lexeme.run`
describes.  Hence (`reach_lexPrefix`) every position a successful scanner run passes between two
items is a `LexPrefix` boundary: the family of boundaries of `Boundary.lean` is complete.

(ASCII: the scanner model marks a name that is directly followed by a non-ASCII character, see
`Scan.scanName`; the driver reports such inputs as outside the model.)
-/
namespace XPathV.Whitespace
open XPathV XPathV.Model XPathV.Bridge
open XPathV.Lemmas.ScanTail (At mkCR Done)
open XPathV.BuildRejects

def Ascii (w : List Char) : Prop := ∀ c ∈ w, c.toNat < 0x80

theorem Ascii.suffix {a b : List Char} (h : Ascii (a ++ b)) : Ascii b := fun c hc => h c (List.mem_append_right _ hc)
theorem Ascii.prefix {a b : List Char} (h : Ascii (a ++ b)) : Ascii a := fun c hc => h c (List.mem_append_left _ hc)
theorem Ascii.tail {c : Char} {a : List Char} (h : Ascii (c :: a)) : Ascii a := fun x hx => h x (List.mem_cons_of_mem _ hx)

theorem Ascii.head {w : List Char} (h : Ascii w) : (Head w).toNat < 0x80 := by
  cases w with
  | nil => decide
  | cons c w => exact h c (List.mem_cons_self ..)

theorem Ascii.asciiHead {w : List Char} (h : Ascii w) : AsciiHead w := by
  intro c hc
  cases w with
  | nil => cases hc
  | cons x w => simp only [List.head?_cons, Option.some.injEq] at hc; subst hc; exact h _ (List.mem_cons_self ..)

theorem split_while (p : Char → Bool) (l : List Char) : l = l.takeWhile p ++ l.dropWhile p :=
  (List.takeWhile_append_dropWhile).symm

theorem Ascii.dropWhile {w : List Char} (h : Ascii w) (p : Char → Bool) : Ascii (w.dropWhile p) := by
  rw [split_while p w] at h; exact h.suffix

theorem Ascii.takeWhile {w : List Char} (h : Ascii w) (p : Char → Bool) : Ascii (w.takeWhile p) := by
  rw [split_while p w] at h; exact h.prefix

theorem head_dropWhile {p : Char → Bool} (hp : p '\x00' = false) : ∀ l : List Char, p (Head (l.dropWhile p)) = false
  | [] => hp
  | c :: l => by
    by_cases hc : p c = true
    · simp only [List.dropWhile_cons, hc, ↓reduceIte]; exact head_dropWhile hp l
    · simp only [List.dropWhile_cons, hc]
      show p c = false
      simpa using hc

theorem all_takeWhile (p : Char → Bool) : ∀ (l : List Char), ∀ y ∈ l.takeWhile p, p y = true
  | [], _, h => by cases h
  | c :: l, y, h => by
    by_cases hc : p c = true
    · simp only [List.takeWhile_cons, hc, ↓reduceIte] at h
      rcases List.mem_cons.mp h with rfl | h
      · exact hc
      · exact all_takeWhile p l y h
    · simp [hc] at h

theorem isDigit_nul : isDigit '\x00' = false := by decide
theorem isName_nul : isName '\x00' = false := by decide
theorem isNameStart_nul : isNameStart '\x00' = false := by decide

/-- an unread input whose first character is `x ≠ U+0000` -/
theorem cons_of_head {w : List Char} {x : Char} (h : Head w = x) (hx : x ≠ '\x00') : ∃ t, w = x :: t := by
  cases w with
  | nil => exact absurd h.symm hx
  | cons c t => exact ⟨t, by rw [show c = x from h]⟩

theorem ascii_digit : ∀ n : Fin 128, isDigit (Char.ofNat n.val) = true → isAsciiDigit (Char.ofNat n.val) = true := by
  decide +kernel

theorem isAsciiDigit_of_ascii {c : Char} (ha : c.toNat < 0x80) (h : isDigit c = true) : isAsciiDigit c = true := by
  have := ascii_digit ⟨c.toNat, ha⟩
  simp only [Char.ofNat_toNat] at this
  exact this h

theorem scanStringAux_inv {q : Char} : ∀ {l str rest : List Char}, scanStringAux q l = some (str, rest) →
    l = str ++ q :: rest ∧ q ∉ str
  | [], _, _, h => by simp [scanStringAux] at h
  | c :: l, str, rest, h => by
    unfold scanStringAux at h
    split at h
    · rename_i hc
      cases h
      exact ⟨by rw [eq_of_beq hc]; rfl, by simp⟩
    · rename_i hc
      split at h
      · rename_i s1 r1 hq
        cases h
        obtain ⟨e, hn⟩ := scanStringAux_inv hq
        refine ⟨by rw [e]; rfl, ?_⟩
        intro hm
        rcases List.mem_cons.mp hm with h | h
        · exact hc (by rw [h]; exact beq_self_eq_true _)
        · exact hn h
      · cases h


/-! ## inversion of `itemBody` -/

/-- the item read from `w` is a lexeme, and the state returned is the one `Lexeme.run` describes -/
def IsLexeme (s : Scan) (w : List Char) (s1 : Scan) : Prop :=
  ∃ lex r k, w = lex ++ r ∧ Lexeme lex r k ∧ s1 = k.out s r

theorem IsLexeme.mk {s s1 : Scan} {w lex r : List Char} {k : Kind} (e : w = lex ++ r) (hl : Lexeme lex r k)
    (h : itemBody (setPos s w) = .ok s1) : IsLexeme s w s1 := by
  refine ⟨lex, r, k, e, hl, ?_⟩
  have := hl.run s
  rw [← e, h] at this
  exact Except.ok.inj this

theorem inv_single {s s1 : Scan} : ∀ p ∈ singles, ∀ w' : List Char,
    itemBody (setPos s (p.1 :: w')) = .ok s1 → IsLexeme s (p.1 :: w') s1 :=
  fun p hp w' h => IsLexeme.mk (lex := [p.1]) rfl (.single (c := p.1) (t := p.2) w' hp) h

theorem twos_second_ne : ∀ p ∈ twos, p.2.1 ≠ '\x00' := by decide

theorem inv_two {s s1 : Scan} : ∀ p ∈ twos, ∀ w' : List Char,
    itemBody (setPos s (p.1 :: w')) = .ok s1 → IsLexeme s (p.1 :: w') s1 := by
  intro p hp w' h
  by_cases hc : Head w' = p.2.1
  · obtain ⟨t, rfl⟩ := cons_of_head hc (twos_second_ne p hp)
    exact IsLexeme.mk (lex := [p.1, p.2.1]) rfl (.two2 (c := p.1) (c2 := p.2.1) (t1 := p.2.2.1) (t2 := p.2.2.2) t hp) h
  · exact IsLexeme.mk (lex := [p.1]) rfl (.two1 (c := p.1) (c2 := p.2.1) (t1 := p.2.2.1) (t2 := p.2.2.2) hp hc) h

theorem inv_dot {s s1 : Scan} {w' : List Char} (hasc : Ascii w')
    (h : itemBody (setPos s ('.' :: w')) = .ok s1) : IsLexeme s ('.' :: w') s1 := by
  by_cases h1 : Head w' = '.'
  · obtain ⟨t, rfl⟩ := cons_of_head h1 (by decide)
    exact IsLexeme.mk (lex := ['.', '.']) rfl (.dotdot t) h
  · by_cases h2 : isDigit (Head w') = true
    · have e := split_while isDigit w'
      have hne : w'.takeWhile isDigit ≠ [] := by
        cases w' with
        | nil => rw [show Head [] = '\x00' from rfl, isDigit_nul] at h2; cases h2
        | cons c t =>
          have : isDigit c = true := h2
          simp [this]
      have hd : AsciiDigits (w'.takeWhile isDigit) := fun d hd =>
        isAsciiDigit_of_ascii (hasc.takeWhile isDigit d hd) (all_takeWhile isDigit w' d hd)
      refine IsLexeme.mk (lex := '.' :: w'.takeWhile isDigit) (r := w'.dropWhile isDigit) ?_
        (.dotnum hne hd (head_dropWhile isDigit_nul w')) h
      rw [List.cons_append, ← e]
    · exact IsLexeme.mk (lex := ['.']) rfl (.dot h1 (by simpa using h2)) h

theorem inv_quote {s s1 : Scan} {q : Char} {w' : List Char} (hq : q = '"' ∨ q = '\'')
    (h : itemBody (setPos s (q :: w')) = .ok s1) : IsLexeme s (q :: w') s1 := by
  have hb : itemBody (setPos s (q :: w')) = tkString (setPos s (q :: w')) := by
    rcases hq with rfl | rfl <;> simp [itemBody, setPos, mkCR_eta]
  cases hs : scanStringAux q w' with
  | none =>
    rw [hb] at h
    simp [tkString, setPos, mkCR_eta, hs] at h
  | some pr =>
    obtain ⟨str, rest⟩ := pr
    obtain ⟨e, hn⟩ := scanStringAux_inv hs
    refine IsLexeme.mk (lex := q :: (str ++ [q])) (r := rest) ?_ (.str rest hq hn) h
    rw [e]; simp

theorem inv_digit {s s1 : Scan} {c : Char} {w' : List Char} (hasc : Ascii (c :: w')) (hc : isDigit c = true)
    (h : itemBody (setPos s (c :: w')) = .ok s1) : IsLexeme s (c :: w') s1 := by
  have e := split_while isDigit (c :: w')
  have hne : (c :: w').takeWhile isDigit ≠ [] := by simp [hc]
  have hd : AsciiDigits ((c :: w').takeWhile isDigit) := fun d hd =>
    isAsciiDigit_of_ascii (hasc.takeWhile isDigit d hd) (all_takeWhile isDigit _ d hd)
  have hr := head_dropWhile isDigit_nul (c :: w')
  generalize (c :: w').takeWhile isDigit = ip at e hne hd
  generalize hgt : (c :: w').dropWhile isDigit = t at e hr
  have hat : Ascii t := by rw [← hgt]; exact hasc.dropWhile _
  by_cases hdot : Head t = '.'
  · obtain ⟨t1, rfl⟩ := cons_of_head hdot (by decide)
    have e1 := split_while isDigit t1
    have hf : AsciiDigits (t1.takeWhile isDigit) := fun d hd =>
      isAsciiDigit_of_ascii (hat.tail.takeWhile isDigit d hd) (all_takeWhile isDigit _ d hd)
    have hr1 := head_dropWhile isDigit_nul t1
    have e2 : c :: w' = ip ++ '.' :: (t1.takeWhile isDigit ++ t1.dropWhile isDigit) := by rw [← e1]; exact e
    have hev := dec_eval s hne hd hf hr1
    rw [← e2, h] at hev
    split at hev
    · cases hev
    · rename_i hov
      refine IsLexeme.mk (lex := ip ++ '.' :: t1.takeWhile isDigit) (r := t1.dropWhile isDigit) ?_
        (.dec hne hd hf hr1 (by simpa using hov)) h
      rw [e2]; simp
  · have hev := int_eval s hne hd hr hdot
    rw [← e, h] at hev
    split at hev
    · cases hev
    · rename_i hov
      exact IsLexeme.mk (lex := ip) (r := t) e (.int hne hd hr hdot (by simpa using hov)) h


theorem colon_ne_nul : ':' ≠ '\x00' := by decide

theorem inv_name {s s1 : Scan} {c : Char} {w' : List Char} (hasc : Ascii (c :: w')) (hc : startsName c = true)
    (h : itemBody (setPos s (c :: w')) = .ok s1) : IsLexeme s (c :: w') s1 := by
  have hcn : isName c = true := by
    simp only [startsName, Bool.and_eq_true] at hc; exact hc.2
  have e := split_while isName (c :: w')
  have hw : plainName ((c :: w').takeWhile isName) = true := by
    have hall := all_takeWhile isName (c :: w')
    simp only [List.takeWhile_cons, hcn, ↓reduceIte] at hall ⊢
    simp only [plainName, hc, Bool.true_and, List.all_eq_true]
    exact hall
  have hn := head_dropWhile isName_nul (c :: w')
  generalize (c :: w').takeWhile isName = nm at e hw
  generalize hgt : (c :: w').dropWhile isName = tail at e hn
  have hat : Ascii tail := by rw [← hgt]; exact hasc.dropWhile _
  have hrun : NameRun nm tail := nameRun_of_head hw hn hat.head
  have hb : itemBody (setPos s (c :: w')) = nameCont (setPos s (nm ++ tail)) := by
    rw [e]; exact itemBody_plain s hw tail
  by_cases hcol : Head tail = ':'
  · obtain ⟨t1, rfl⟩ := cons_of_head hcol colon_ne_nul
    have hat1 : Ascii t1 := hat.tail
    by_cases h1 : Head t1 = ':'
    · obtain ⟨t2, rfl⟩ := cons_of_head h1 colon_ne_nul
      refine IsLexeme.mk (lex := nm ++ ([] ++ [':', ':'])) (r := t2) ?_ (.axis t2 hw Blank.nil (fun _ h => by cases h)) h
      rw [e]; simp
    · by_cases h2 : Head t1 = '*'
      · obtain ⟨t2, rfl⟩ := cons_of_head h2 (by decide)
        refine IsLexeme.mk (lex := nm ++ [':', '*']) (r := t2) ?_ (.pfxStar t2 hw) h
        rw [e]; simp
      · by_cases h3 : isNameStart (Head t1) = true
        · have e1 := split_while isName t1
          have hw2 : localPart (t1.takeWhile isName) = true := by
            cases t1 with
            | nil => rw [show Head [] = '\x00' from rfl, isNameStart_nul] at h3; cases h3
            | cons x t =>
              have hx : isNameStart x = true := h3
              have hall := all_takeWhile isName (x :: t)
              simp only [List.takeWhile_cons, isNameStart_isName hx, ↓reduceIte] at hall ⊢
              simp only [localPart, hx, Bool.true_and, List.all_eq_true]
              exact hall
          have hn2 := head_dropWhile isName_nul t1
          refine IsLexeme.mk (lex := nm ++ ':' :: t1.takeWhile isName) (r := t1.dropWhile isName) ?_
            (.qname hw hw2 hn2 (hat1.dropWhile _).head) h
          rw [e]
          simp only [List.append_assoc, List.cons_append]
          rw [← e1]
        · exfalso
          rw [hb, nameCont_colon_bad hrun h1 h2 (by simpa using h3) (setPos_at _ _)] at h
          cases h
  · have e2 := split_while isSpace tail
    have hbl : Blank (tail.takeWhile isSpace) := all_takeWhile isSpace tail
    have hab : AsciiHead (tail.takeWhile isSpace) := (hat.takeWhile _).asciiHead
    by_cases h1 : Head (tail.dropWhile isSpace) = ':'
    · obtain ⟨t3, ht3⟩ := cons_of_head h1 colon_ne_nul
      by_cases h2 : Head t3 = ':'
      · obtain ⟨t4, rfl⟩ := cons_of_head h2 colon_ne_nul
        refine IsLexeme.mk (lex := nm ++ (tail.takeWhile isSpace ++ [':', ':'])) (r := t4) ?_ (.axis t4 hw hbl hab) h
        rw [e]
        simp only [List.append_assoc, List.cons_append, List.nil_append]
        rw [← ht3, ← e2]
      · exfalso
        rw [hb, nameCont_space_colon_bad hrun hcol ht3 h2 (setPos_at _ _)] at h
        cases h
    · exact IsLexeme.mk (lex := nm) (r := tail) e (.name hw hn hat.head h1) h

/-- **every item is a lexeme**: on ASCII input, if `nextItem` (after the blanks) returns a token other
than the end token, the characters it read are a `Lexeme`, and it returns the state `Lexeme.run` names -/
theorem itemBody_inv {s s1 : Scan} {w : List Char} (hasc : Ascii w) (hh : isSpace (Head w) = false)
    (h : itemBody (setPos s w) = .ok s1) (hne : s1.typ ≠ .eof) : IsLexeme s w s1 := by
  cases w with
  | nil =>
    exfalso
    have : itemBody (setPos s []) = .ok { setPos s [] with typ := .eof } := by simp [itemBody, setPos, mkCR]
    rw [this] at h
    exact hne (by rw [← Except.ok.inj h])
  | cons c w' =>
    by_cases hp : c ∈ punct
    · simp only [punct, List.mem_cons, List.not_mem_nil, or_false] at hp
      rcases hp with rfl | rfl | rfl | rfl | rfl | rfl | rfl | rfl | rfl | rfl | rfl | rfl | rfl | rfl | rfl | rfl |
        rfl | rfl | rfl | rfl | rfl
      · exfalso
        have : itemBody (setPos s ('\x00' :: w')) = .ok { setPos s ('\x00' :: w') with typ := .eof } := by
          simp [itemBody, setPos, mkCR_eta]
        rw [this] at h
        exact hne (by rw [← Except.ok.inj h])
      · exact inv_single (',', .comma) (by decide) w' h
      · exact inv_single ('@', .at) (by decide) w' h
      · exact inv_single ('(', .lparen) (by decide) w' h
      · exact inv_single (')', .rparen) (by decide) w' h
      · exact inv_single ('|', .union) (by decide) w' h
      · exact inv_single ('*', .star) (by decide) w' h
      · exact inv_single ('[', .lbracket) (by decide) w' h
      · exact inv_single (']', .rbracket) (by decide) w' h
      · exact inv_single ('+', .plus) (by decide) w' h
      · exact inv_single ('-', .minus) (by decide) w' h
      · exact inv_single ('=', .eq) (by decide) w' h
      · exact inv_single ('$', .dollar) (by decide) w' h
      · exfalso
        have : itemBody (setPos s ('#' :: w')) = .error .unknownItem := by simp [itemBody, setPos, mkCR_eta]
        rw [this] at h; cases h
      · exact inv_two ('<', '=', .lt, .le) (by decide) w' h
      · exact inv_two ('>', '=', .gt, .ge) (by decide) w' h
      · exact inv_two ('!', '=', .bang, .ne) (by decide) w' h
      · exact inv_two ('/', '/', .slash, .slashslash) (by decide) w' h
      · exact inv_dot hasc.tail h
      · exact inv_quote (Or.inl rfl) h
      · exact inv_quote (Or.inr rfl) h
    · by_cases hd : isDigit c = true
      · exact inv_digit hasc hd h
      · by_cases hn : isName c = true
        · have hs : isSpace c = false := hh
          exact inv_name hasc (by simp [startsName, hs, hp, hd, hn]) h
        · exfalso
          have hp' : ∀ x ∈ punct, c ≠ x := fun x hx e => hp (e ▸ hx)
          simp only [punct, List.forall_mem_cons, List.not_mem_nil, false_imp_iff, implies_true, and_true] at hp'
          obtain ⟨h0, h1, h2, h3, h4, h5, h6, h7, h8, h9, h10, h11, h12, h13, h14, h15, h16, h17, h18, h19, h20⟩ := hp'
          have : itemBody (setPos s (c :: w')) = .error .invalidToken := by
            simp [itemBody, setPos, mkCR_eta, h0, h1, h2, h3, h4, h5, h6, h7, h8, h9, h10, h11, h12, h13, h14, h15,
              h16, h17, h18, h19, h20, hd, hn]
          rw [this] at h; cases h


/-! ## every position between two items of a scanner run is a `LexPrefix` boundary -/

/-- a scanner run from `s` to `s'` in which every `nextItem` call returns a token (not the end token) -/
inductive Items : Scan → Scan → Prop
  | nil (s : Scan) : Items s s
  | cons {s s1 s2 : Scan} : s.nextItem = .ok s1 → s1.typ ≠ .eof → Items s1 s2 → Items s s2

theorem Kind.out_at (k : Kind) (s : Scan) (r : List Char) : At r (k.out s r) ∨ At (r.dropWhile isSpace) (k.out s r) := by
  cases k with
  | plain t => exact Or.inl (setPos_at _ _)
  | num l => exact Or.inl (setPos_at _ _)
  | str v => exact Or.inl (setPos_at _ _)
  | nameLike t n p => exact Or.inr (mkTok_at s r t n p)

theorem takeWhile_blank (l : List Char) : Blank (l.takeWhile isSpace) := all_takeWhile isSpace l

theorem head_dropWhile_space (l : List Char) : isSpace (Head (l.dropWhile isSpace)) = false :=
  head_dropWhile BuildRejects.isSpace_nul l

theorem items_lexPrefix {s s2 : Scan} (h : Items s s2) : ∀ w : List Char, Ascii w →
    s.skipSpace = setPos s (w.dropWhile isSpace) → (At w s ∨ At (w.dropWhile isSpace) s) →
    ∃ u0 w0, w = u0 ++ w0 ∧ LexPrefix u0 w0 ∧ s2.skipSpace = setPos s2 (w0.dropWhile isSpace) ∧
      (At w0 s2 ∨ At (w0.dropWhile isSpace) s2) := by
  induction h with
  | nil s => intro w _ hs hat; exact ⟨[], w, rfl, .blank w Blank.nil, hs, hat⟩
  | @cons s s1 s2 hn hne _ ih =>
    intro w hasc hs _
    rw [nextItem_body, hs] at hn
    obtain ⟨lex, r, k, e, hlex, rfl⟩ := itemBody_inv (hasc.dropWhile _) (head_dropWhile_space w) hn hne
    have har : Ascii r := by
      have := hasc.dropWhile isSpace; rw [e] at this; exact this.suffix
    obtain ⟨u1, w0, rfl, hlp, hs2, hat2⟩ := ih r har (Kind.out_skipSpace k s r) (Kind.out_at k s r)
    refine ⟨w.takeWhile isSpace ++ (lex ++ u1), w0, ?_, .cons (takeWhile_blank w) hlex hlp, hs2, hat2⟩
    conv => lhs; rw [split_while isSpace w, e]
    simp

/-- **Completeness of the family of boundaries** (ASCII texts): after any number of successful
`nextItem` calls on `text` (each returning a token), the text is `u ++ w` where `u` consists of
complete lexemes, the scanner stands in front of `w` (for a name-like token: of `w` without its leading
blanks), and every position in the blanks `w` starts with is a `LexPrefix` boundary. -/
theorem scan_positions_are_boundaries {text : List Char} (hasc : Ascii text) {s : Scan} (h : Items (start text) s) :
    ∃ u w, text = u ++ w ∧ (At w s ∨ At (w.dropWhile isSpace) s) ∧
      ∀ b v, w = b ++ v → Blank b → LexPrefix (u ++ b) v := by
  obtain ⟨u, w, e, hlp, _, hat⟩ := items_lexPrefix h text hasc (skipSpace_at (start_at _)) (Or.inl (start_at _))
  exact ⟨u, w, e, hat, fun b v ew hb => (ew ▸ hlp).shift hb⟩

end XPathV.Whitespace
