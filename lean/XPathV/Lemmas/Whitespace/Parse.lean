import XPathV.Lemmas.Whitespace.Boundary
import XPathV.Lemmas.BuildRejects.Rename
import XPathV.Lemmas.BuildRejects.FuelMono
import XPathV.Lemmas.ParserTokens
/-!
# C10, second clause — the parser sees a text only through the scanner's tokens

`parse_eq_of_sync`: two texts whose scanner runs are in step (`Sync`) are accepted by the parser model
with the same tree, or both rejected — for every fuel and every configuration.  The proof re-uses the
two-run simulation of `BuildRejects/Rename.lean` (`all_sim`) with a pair of fresh function names: a
tree without a call of `g` is unchanged by renaming calls of `g`.
-/
namespace XPathV.Whitespace
open XPathV XPathV.Model XPathV.Bridge
open XPathV.BuildRejects
open XPathV.Lemmas.ParserTokens (Toks TextToks parse_ok_grammar)
open XPathV.Lemmas.ParserShape (bind_ok)

theorem Fields.obsEq {s s' : Scan} (h : Fields s s') : obsEq s s' :=
  ⟨h.typ, fun _ => ⟨h.name, h.pfx, h.canBeFunc⟩, fun _ => h.name, fun _ => h.strval, fun _ => h.numlex⟩

/-- two runs in step, one of which reaches the end of the text: both do, showing the same tokens -/
theorem after_of_sync {s : Scan} {ts : List Tok} (ht : Toks s ts) : ∀ s', Sync s s' → After s s' := by
  induction ht with
  | eof he =>
    intro s' h
    exact .eof he (by rw [← h.fields.typ]; exact he)
  | cons hne hn _ ih =>
    intro s' h
    obtain ⟨b, hb, hab⟩ := h.next hn
    exact .step hne h.fields.obsEq hn hb (ih b hab)

/-! ## fresh names -/

/-- the function names in a tree -/
def callNames : Ast → List String
  | .call n _ args => n :: callNames args
  | .axis _ i => callNames i
  | .filter i c => callNames i ++ callNames c
  | .acons h t => callNames h ++ callNames t
  | .oper _ l r => callNames l ++ callNames r
  | .group x => callNames x
  | _ => []

theorem ren_eq {g g' : String} {t t' : Ast} (h : Ren g g' t t') : g ∉ callNames t → t = t' := by
  induction h with
  | refl t => intro _; rfl
  | call p _ _ => intro hn; exact absurd (List.mem_cons_self ..) hn
  | call_args n p _ ih =>
    intro hn
    rw [ih (fun h => hn (List.mem_cons_of_mem _ h))]
  | axis a _ ih => intro hn; rw [ih hn]
  | filter _ _ ihi ihc =>
    intro hn
    rw [ihi (fun h => hn (List.mem_append_left _ h)), ihc (fun h => hn (List.mem_append_right _ h))]
  | acons _ _ ihh iht =>
    intro hn
    rw [ihh (fun h => hn (List.mem_append_left _ h)), iht (fun h => hn (List.mem_append_right _ h))]
  | oper op _ _ ihl ihr =>
    intro hn
    rw [ihl (fun h => hn (List.mem_append_left _ h)), ihr (fun h => hn (List.mem_append_right _ h))]
  | group _ ih => intro hn; rw [ih hn]

/-- longer than every string of the list -/
def bound : List String → Nat
  | [] => 0
  | s :: l => s.toList.length + 1 + bound l

theorem lt_bound {l : List String} {s : String} (h : s ∈ l) : s.toList.length < bound l := by
  induction l with
  | nil => cases h
  | cons a l ih =>
    rcases List.mem_cons.mp h with rfl | h
    · simp only [bound]; omega
    · have := ih h; simp only [bound]; omega

def freshName (n : Nat) : String := String.ofList (List.replicate n 'x')

theorem freshName_not_mem {l : List String} {n : Nat} (h : bound l ≤ n) : freshName n ∉ l := by
  intro hm
  have := lt_bound hm
  simp only [freshName, String.toList_ofList, List.length_replicate] at this
  omega

theorem freshName_ne {n m : Nat} (h : n ≠ m) : freshName n ≠ freshName m := by
  intro e
  have := congrArg (fun s => s.toList.length) e
  simp only [freshName, String.toList_ofList, List.length_replicate] at this
  exact h this

/-- the operator words of a precedence chain -/
def chainOps : List Stage → List String
  | [] => []
  | .tier ops :: l => ops ++ chainOps l
  | .unary :: l => chainOps l

theorem mem_chainOps {l : List Stage} {ops : List String} {x : String} (h : Stage.tier ops ∈ l) (hx : x ∈ ops) :
    x ∈ chainOps l := by
  induction l with
  | nil => cases h
  | cons a l ih =>
    rcases List.mem_cons.mp h with rfl | h2
    · exact List.mem_append_left _ hx
    · cases a with
      | tier o => exact List.mem_append_right _ (ih h2)
      | unary => exact ih h2

/-! ## the parser -/

/-- one direction: what the parser accepts on the first text it accepts, with the same tree, on the second -/
theorem parse_le_of_sync (fuel : Nat) (cfg : PCfg) {t1 t2 : List Char} (h : Sync (start t1) (start t2)) {a : Ast}
    (hp : parse fuel cfg t1 = .ok a) : parse fuel cfg t2 = .ok a := by
  obtain ⟨u, ⟨s, hs, hts⟩, _⟩ := parse_ok_grammar hp
  have hs' := hs
  rw [init_eq] at hs'
  obtain ⟨s', hi', hsync⟩ := h.next hs'
  rw [← init_eq] at hi'
  have hA : After s s' := after_of_sync hts s' hsync
  -- two fresh names
  let L := nodeTypes ++ chainOps cfg.chain ++ callNames a
  let g := freshName (bound L)
  let g' := freshName (bound L + 1)
  have hgL : g ∉ L := freshName_not_mem (Nat.le_refl _)
  have hg'L : g' ∉ L := freshName_not_mem (Nat.le_succ _)
  have hne : g ≠ g' := freshName_ne (by omega)
  have hg : g ∉ nodeTypes := fun h => hgL (List.mem_append_left _ (List.mem_append_left _ h))
  have hg' : g' ∉ nodeTypes := fun h => hg'L (List.mem_append_left _ (List.mem_append_left _ h))
  have hK : okStages g g' cfg.chain := fun ops hops =>
    ⟨fun h => hgL (List.mem_append_left _ (List.mem_append_right _ (mem_chainOps hops h))),
     fun h => hg'L (List.mem_append_left _ (List.mem_append_right _ (mem_chainOps hops h)))⟩
  have hga : g ∉ callNames a := fun h => hgL (List.mem_append_right _ h)
  unfold parse at hp ⊢
  rw [hs] at hp
  rw [hi']
  dsimp only at hp ⊢
  obtain ⟨⟨a0, st1⟩, e1, e2⟩ := bind_ok hp
  have hSR : SR g g' none { s := s, d := 0 } { s := s', d := 0 } := ⟨rfl, hA⟩
  have heof : st1.s.typ = .eof := by
    dsimp only at e2
    split at e2
    · rename_i h; exact eq_of_beq h
    · cases e2
  have ht : a0 = a := by
    dsimp only at e2
    rw [if_pos (by rw [heof]; rfl)] at e2
    cases e2; rfl
  subst ht
  rcases (all_sim hne hg hg' hK fuel).1 none _ _ hSR a0 st1 e1 with hs | ⟨a', st1', φ', k1, k2, k3, k4, _⟩
  · rw [heof] at hs; cases hs
  · have hφ : φ' = none := k4 rfl
    subst hφ
    have haa : a0 = a' := ren_eq k3 hga
    subst haa
    rw [k1]
    have : st1'.s.typ = .eof := by rw [k2.typ_eq, heof]
    simp [bind, Except.bind, this, pure, Except.pure]

/-- **The parser model sees a text only through the scanner's tokens**: two texts whose scanner runs are
in step are accepted with the same tree or both rejected, for every fuel and every configuration. -/
theorem parse_eq_of_sync (fuel : Nat) (cfg : PCfg) {t1 t2 : List Char} (h : Sync (start t1) (start t2)) (a : Ast) :
    parse fuel cfg t1 = .ok a ↔ parse fuel cfg t2 = .ok a :=
  ⟨parse_le_of_sync fuel cfg h, parse_le_of_sync fuel cfg h.symm⟩

end XPathV.Whitespace
