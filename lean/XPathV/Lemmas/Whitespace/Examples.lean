import XPathV.Lemmas.Whitespace.Complete
/-!
# C10, second clause — examples

1. Concrete texts (kernel evaluation of the scanner model).
2. The boundary hypothesis is needed: a blank inside a token changes the token stream.
3. Boundaries established with `LexPrefix.start / snoc / shift / axisGap`, and `tokVs_insert_blanks`
   used for *every* run of blanks at that boundary.
-/
namespace XPathV.Whitespace.Examples
open XPathV XPathV.Model XPathV.Bridge XPathV.Spec.Full
open XPathV.BuildRejects (plainName)

/-! ## 1. optional blanks -/

example : tokVs "a[ 1 ]".toList = tokVs "a[1]".toList := by decide +kernel
example : tokVs "child :: a".toList = tokVs "child::a".toList := by decide +kernel
example : tokVs "count ( a )".toList = tokVs "count(a)".toList := by decide +kernel
example : tokVs "a and b".toList = tokVs "a  and\tb".toList := by decide +kernel
example : tokVs "- 1".toList = tokVs "-1".toList := by decide +kernel
example : tokVs " \t\n a / b \r\n".toList = tokVs "a/b".toList := by decide +kernel
example : tokVs "a[ 1 ]".toList = some [.name "" "a" false, .lbracket, .num "1", .rbracket] := by decide +kernel
example : tokVs "count ( a )".toList = some [.name "" "count" true, .lparen, .name "" "a" false, .rparen] := by
  decide +kernel
example : tokVs "child :: a".toList = some [.axis "child", .name "" "a" false] := by decide +kernel
/-- the parser model returns the same tree -/
example : (parse 100 (defaultCfg none) "count ( a ) > - 1".toList).toOption =
      (parse 100 (defaultCfg none) "count(a)>-1".toList).toOption ∧
    (parse 100 (defaultCfg none) "count(a)>-1".toList).isOk = true := by decide +kernel

/-! ## 2. blanks that are not optional: the position is inside a token -/

/-- inside a name -/
example : tokVs "a b".toList ≠ tokVs "ab".toList := by decide +kernel
/-- inside `//` -/
example : tokVs "/ /".toList ≠ tokVs "//".toList := by decide +kernel
/-- inside a number -/
example : tokVs "1 .5".toList ≠ tokVs "1.5".toList := by decide +kernel
example : tokVs "1. 5".toList ≠ tokVs "1.5".toList := by decide +kernel
/-- inside `!=`, `<=`, `>=` (`! =` is rejected: a lone `!` is no token of the grammar) -/
example : tokVs "a ! = b".toList = none ∧ (tokVs "a != b".toList).isSome = true := by decide +kernel
example : tokVs "a < = b".toList ≠ tokVs "a <= b".toList := by decide +kernel
/-- inside `..` -/
example : tokVs ". .".toList ≠ tokVs "..".toList := by decide +kernel
/-- inside `::` -/
example : tokVs "child : : a".toList = none ∧ (tokVs "child::a".toList).isSome = true := by decide +kernel
/-- inside a string literal -/
example : tokVs "'a b'".toList ≠ tokVs "'ab'".toList := by decide +kernel
/-- a qualified name is one token: no blank before or after its colon -/
example : tokVs "p :a".toList = none ∧ tokVs "p: a".toList = none ∧
    tokVs "p:a".toList = some [.name "p" "a" false] := by decide +kernel
/-- `-` is a name character: the blank before a minus sign that follows a name is *not* optional
(`a -b` and `a - b` subtract, `a-b` is one name); after the minus sign it is -/
example : tokVs "a -b".toList = tokVs "a - b".toList ∧ tokVs "a-b".toList ≠ tokVs "a - b".toList ∧
    tokVs "a-b".toList = some [.name "" "a-b" false] := by decide +kernel
/-- likewise `.` and digits are name characters -/
example : tokVs "a .".toList ≠ tokVs "a.".toList := by decide +kernel
/-- the first inserted character must be ASCII when it comes directly behind a name: the scanner
(model and Go code alike) then puts a piece of the multi-byte character into the name -/
theorem nbsp_after_name : tokVs "count\u00a0(a)".toList ≠ tokVs "count(a)".toList ∧
    isSpace '\u00a0' = true ∧ tokVs "count \u00a0(a)".toList = tokVs "count(a)".toList := by decide +kernel

/-! ## 3. boundaries, and every run of blanks -/

/-- `a[` | `1]`: after `[` -/
theorem boundary_after_bracket : LexPrefix ['a', '['] ['1', ']'] := by
  have h0 := LexPrefix.start ['a', '[', '1', ']']
  have h1 := h0.snoc (lex := ['a']) (v := ['[', '1', ']'])
    (.name (by decide) (by decide) (by decide) (by decide))
  exact h1.snoc (lex := ['[']) (v := ['1', ']']) (.single (c := '[') (t := .lbracket) _ (by decide))

example (ws : List Char) (hws : Blank ws) (ha : AsciiHead ws) :
    tokVs (['a', '['] ++ ws ++ ['1', ']']) = tokVs ['a', '[', '1', ']'] :=
  tokVs_insert_blanks boundary_after_bracket hws ha

/-- `count` | `(a)`: between a function name and its parenthesis — the scanner's look-ahead for `(`
goes over the blanks (`canBeFunc`) -/
theorem boundary_before_paren : LexPrefix "count".toList ['(', 'a', ')'] := by
  have h0 := LexPrefix.start ("count".toList ++ ['(', 'a', ')'])
  exact h0.snoc (lex := "count".toList) (v := ['(', 'a', ')'])
    (.name (by decide) (by decide) (by decide) (by decide))

example (ws : List Char) (hws : Blank ws) (ha : AsciiHead ws) :
    tokVs ("count".toList ++ ws ++ ['(', 'a', ')']) = some [.name "" "count" true, .lparen, .name "" "a" false, .rparen] := by
  rw [tokVs_insert_blanks boundary_before_paren hws ha]
  decide +kernel

/-- `child` | `::a`: between an axis name and `::` -/
theorem boundary_before_coloncolon : LexPrefix "child".toList [':', ':', 'a'] := by
  have := LexPrefix.axisGap (b := []) (w := "child".toList) (b1 := []) (b2 := []) ['a'] Blank.nil (by decide)
    Blank.nil Blank.nil (fun _ h => by cases h)
  simpa using this

/-- … and `child::` | `a`: after it -/
theorem boundary_after_coloncolon : LexPrefix ("child".toList ++ [':', ':']) ['a'] := by
  have h0 := LexPrefix.start ("child".toList ++ [':', ':'] ++ ['a'])
  have := h0.snoc (lex := "child".toList ++ ([] ++ [':', ':'])) (v := ['a'])
    (.axis (w := "child".toList) (b := []) _ (by decide) Blank.nil (fun _ h => by cases h))
  simpa using this

example (ws ws' : List Char) (hws : Blank ws) (ha : AsciiHead ws) (hws' : Blank ws') (ha' : AsciiHead ws') :
    tokVs ("child".toList ++ ws ++ [':', ':'] ++ ws' ++ ['a']) = some [.axis "child", .name "" "a" false] := by
  -- first remove `ws'` (a boundary of the text that still contains `ws`), then `ws`
  have hb1 : LexPrefix ("child".toList ++ ws ++ [':', ':']) ['a'] := by
    have h0 := LexPrefix.start ("child".toList ++ (ws ++ [':', ':']) ++ ['a'])
    have := h0.snoc (lex := "child".toList ++ (ws ++ [':', ':'])) (v := ['a'])
      (.axis (w := "child".toList) (b := ws) _ (by decide) hws ha)
    simpa using this
  rw [tokVs_insert_blanks hb1 hws' ha']
  have := tokVs_insert_blanks boundary_before_coloncolon hws ha
  simp only [List.append_assoc, List.cons_append, List.nil_append] at this ⊢
  rw [this]
  decide +kernel

/-- no boundary inside the qualified name `p:a`: the hypothesis of the theorem cannot be met, and the
conclusion is false -/
example : tokVs (['p'] ++ [' '] ++ [':', 'a']) ≠ tokVs (['p'] ++ [':', 'a']) := by decide +kernel

end XPathV.Whitespace.Examples
