import XPathV.Lemmas.BuildRejects.ScanName
import XPathV.Lemmas.BuildRejects.Text
import XPathV.Lemmas.ParserFull.Stream
import XPathV.Lemmas.ParserFuel
/-!
# C10, second clause — optional whitespace: basic notions

* `Blank ws`: every character of `ws` is one `Scan.skipSpace` skips (`isSpace`, Go's `unicode.IsSpace`).
* `setPos s w`: the scanner state `s` with the unread input replaced by `w`.
* `Fields s s'`: the two states carry the same token (all fields but the position).
* `Sync s s'`: the two scanner runs show the same tokens for some steps and then continue from
  states that differ at most in leading blanks (hence are identical from the next `nextItem` on).
-/
namespace XPathV.Whitespace
open XPathV XPathV.Model XPathV.Bridge
open XPathV.Lemmas.ScanTail (At mkCR Done)
open XPathV.BuildRejects (skipSpace_at nextChar_eq mkCR_eta mkTok itemBody nextItem_body start init_eq start_at)

/-! ## blanks -/

/-- all characters are blanks in the scanner's sense -/
def Blank (ws : List Char) : Prop := ∀ c ∈ ws, isSpace c = true

/-- the first character, if any, is an ASCII character -/
def AsciiHead (ws : List Char) : Prop := ∀ c, ws.head? = some c → c.toNat < 0x80

/-- the blanks of Go's `unicode.IsSpace` -/
def spaces : List Char :=
  ['\t', '\n', '\x0b', '\x0c', '\r', ' ', '\u0085', '\u00a0', '\u1680', '\u2000', '\u2001', '\u2002', '\u2003',
   '\u2004', '\u2005', '\u2006', '\u2007', '\u2008', '\u2009', '\u200a', '\u2028', '\u2029', '\u202f', '\u205f',
   '\u3000']

theorem isSpace_mem {c : Char} (h : isSpace c = true) : c ∈ spaces := by
  have hc : c = Char.ofNat c.toNat := (Char.ofNat_toNat c).symm
  simp only [isSpace, Bool.or_eq_true, Bool.and_eq_true, decide_eq_true_eq, beq_iff_eq] at h
  have : c.toNat = 9 ∨ c.toNat = 10 ∨ c.toNat = 11 ∨ c.toNat = 12 ∨ c.toNat = 13 ∨ c.toNat = 0x20 ∨
      c.toNat = 0x85 ∨ c.toNat = 0xA0 ∨ c.toNat = 0x1680 ∨ c.toNat = 0x2000 ∨ c.toNat = 0x2001 ∨
      c.toNat = 0x2002 ∨ c.toNat = 0x2003 ∨ c.toNat = 0x2004 ∨ c.toNat = 0x2005 ∨ c.toNat = 0x2006 ∨
      c.toNat = 0x2007 ∨ c.toNat = 0x2008 ∨ c.toNat = 0x2009 ∨ c.toNat = 0x200A ∨ c.toNat = 0x2028 ∨
      c.toNat = 0x2029 ∨ c.toNat = 0x202F ∨ c.toNat = 0x205F ∨ c.toNat = 0x3000 := by omega
  rcases this with h | h | h | h | h | h | h | h | h | h | h | h | h | h | h | h | h | h | h | h | h | h | h | h | h <;>
    (rw [h] at hc; rw [hc]; decide)

/-- what the scanner needs to know about a blank -/
theorem spaces_facts : ∀ c ∈ spaces, isName c = false ∧ isDigit c = false ∧ c ≠ '\x00' ∧ c ≠ '=' ∧ c ≠ '/' ∧
    c ≠ '.' ∧ c ≠ ':' ∧ c ≠ '(' := by decide +kernel


theorem blank_facts {c : Char} (h : isSpace c = true) : isName c = false ∧ isDigit c = false ∧ c ≠ '\x00' ∧
    c ≠ '=' ∧ c ≠ '/' ∧ c ≠ '.' ∧ c ≠ ':' ∧ c ≠ '(' := spaces_facts c (isSpace_mem h)

theorem Blank.nil : Blank [] := fun _ h => by cases h

theorem Blank.append {a b : List Char} (ha : Blank a) (hb : Blank b) : Blank (a ++ b) := by
  intro c hc
  rcases List.mem_append.mp hc with h | h
  · exact ha c h
  · exact hb c h

theorem Blank.dropWhile {b : List Char} (hb : Blank b) (t : List Char) :
    (b ++ t).dropWhile isSpace = t.dropWhile isSpace := by
  induction b with
  | nil => rfl
  | cons c b ih =>
    have hc : isSpace c = true := hb c (List.mem_cons_self ..)
    simp only [List.cons_append, List.dropWhile_cons, hc, ↓reduceIte]
    exact ih (fun x hx => hb x (List.mem_cons_of_mem _ hx))

/-- look-ahead character of an unread input (`U+0000` at the end) -/
abbrev Head (w : List Char) : Char := (mkCR w).1

theorem Head_cons (c : Char) (w : List Char) : Head (c :: w) = c := rfl

theorem Head_append_of_ne {a : List Char} (h : a ≠ []) (t : List Char) : Head (a ++ t) = Head a := by
  cases a with
  | nil => exact absurd rfl h
  | cons c a => rfl

theorem dropWhile_append_of_ne {a : List Char} (p : Char → Bool) (h : a.dropWhile p ≠ []) (t : List Char) :
    (a ++ t).dropWhile p = a.dropWhile p ++ t := by
  induction a with
  | nil => exact absurd rfl h
  | cons c a ih =>
    by_cases hc : p c = true
    · simp only [List.cons_append, List.dropWhile_cons, hc, ↓reduceIte] at h ⊢
      exact ih h
    · simp [hc]

theorem dropWhile_eq_nil_blank {a : List Char} (h : a.dropWhile isSpace = []) : Blank a := by
  induction a with
  | nil => exact Blank.nil
  | cons x a ih =>
    by_cases hx : isSpace x = true
    · simp only [List.dropWhile_cons, hx, ↓reduceIte] at h
      intro c hc
      rcases List.mem_cons.mp hc with rfl | hc
      · exact hx
      · exact ih h c hc
    · simp [hx] at h

/-- inserting blanks never changes the first non-blank character ahead -/
theorem head_dropWhile_insert {ws : List Char} (hws : Blank ws) (a v : List Char) :
    Head ((a ++ ws ++ v).dropWhile isSpace) = Head ((a ++ v).dropWhile isSpace) := by
  by_cases h : a.dropWhile isSpace = []
  · have ha := dropWhile_eq_nil_blank h
    rw [List.append_assoc, ha.dropWhile, hws.dropWhile, ha.dropWhile]
  · rw [List.append_assoc, dropWhile_append_of_ne _ h, dropWhile_append_of_ne _ h,
      Head_append_of_ne h, Head_append_of_ne h]

/-! ## positions -/

/-- the state `s` with the unread input replaced by `w` -/
def setPos (s : Scan) (w : List Char) : Scan := { s with curr := (mkCR w).1, rest := (mkCR w).2 }

theorem setPos_at (s : Scan) (w : List Char) : At w (setPos s w) := ⟨rfl, rfl⟩

theorem at_setPos {s : Scan} {w : List Char} (h : At w s) : s = setPos s w := by
  obtain ⟨h1, h2⟩ := h
  cases s
  simp only [setPos] at *
  subst h1 h2
  rfl

@[simp] theorem setPos_setPos (s : Scan) (w w' : List Char) : setPos (setPos s w) w' = setPos s w' := rfl

theorem setPos_skipSpace (s : Scan) (w : List Char) : (setPos s w).skipSpace = setPos s (w.dropWhile isSpace) := by
  rw [skipSpace_at (setPos_at s w)]
  rfl

theorem setPos_nextChar (s : Scan) (c : Char) (w : List Char) : (setPos s (c :: w)).nextChar.1 = setPos s w := by
  rw [nextChar_eq]
  rfl

theorem setPos_curr (s : Scan) (w : List Char) : (setPos s w).curr = Head w := rfl

/-! ## same token -/

/-- the two states carry the same token: they agree on everything but the position in the text -/
def Fields (s s' : Scan) : Prop := setPos s [] = setPos s' []

theorem Fields.refl (s : Scan) : Fields s s := rfl
theorem Fields.symm {s s' : Scan} (h : Fields s s') : Fields s' s := Eq.symm h
theorem Fields.trans {a b c : Scan} (h : Fields a b) (h' : Fields b c) : Fields a c := Eq.trans h h'

theorem Fields.setPos {s s' : Scan} (h : Fields s s') (w : List Char) : setPos s w = setPos s' w := by
  have := congrArg (fun x => Whitespace.setPos x w) h
  simpa using this

theorem fields_setPos (s : Scan) (w : List Char) : Fields s (setPos s w) := rfl

theorem Fields.typ {s s' : Scan} (h : Fields s s') : s.typ = s'.typ := by
  have := congrArg Scan.typ (show Whitespace.setPos s [] = Whitespace.setPos s' [] from h)
  exact this
theorem Fields.name {s s' : Scan} (h : Fields s s') : s.name = s'.name := by
  have := congrArg Scan.name (show Whitespace.setPos s [] = Whitespace.setPos s' [] from h)
  exact this
theorem Fields.pfx {s s' : Scan} (h : Fields s s') : s.pfx = s'.pfx := by
  have := congrArg Scan.pfx (show Whitespace.setPos s [] = Whitespace.setPos s' [] from h)
  exact this
theorem Fields.strval {s s' : Scan} (h : Fields s s') : s.strval = s'.strval := by
  have := congrArg Scan.strval (show Whitespace.setPos s [] = Whitespace.setPos s' [] from h)
  exact this
theorem Fields.numlex {s s' : Scan} (h : Fields s s') : s.numlex = s'.numlex := by
  have := congrArg Scan.numlex (show Whitespace.setPos s [] = Whitespace.setPos s' [] from h)
  exact this
theorem Fields.canBeFunc {s s' : Scan} (h : Fields s s') : s.canBeFunc = s'.canBeFunc := by
  have := congrArg Scan.canBeFunc (show Whitespace.setPos s [] = Whitespace.setPos s' [] from h)
  exact this

theorem Fields.convTok {s s' : Scan} (h : Fields s s') : convTok s = convTok s' := by
  unfold Bridge.convTok
  rw [h.typ, h.name, h.pfx, h.strval, h.numlex, h.canBeFunc]

theorem fields_skipSpace (s : Scan) : Fields s s.skipSpace := rfl

theorem fields_of_skipSpace {s s' : Scan} (h : s.skipSpace = s'.skipSpace) : Fields s s' :=
  (fields_skipSpace s).trans (h ▸ (fields_skipSpace s').symm)

theorem nextItem_of_skipSpace {s s' : Scan} (h : s.skipSpace = s'.skipSpace) : s.nextItem = s'.nextItem := by
  rw [nextItem_body, nextItem_body, h]

/-! ## two runs in step -/

/-- the two scanner runs show the same tokens for some steps and then reach states that differ at most
in blanks still to be skipped (so that every later `nextItem` returns the same state in both runs) -/
inductive Sync : Scan → Scan → Prop
  | merge {s s' : Scan} : s.skipSpace = s'.skipSpace → Sync s s'
  | step {s s' a b : Scan} : Fields s s' → s.nextItem = .ok a → s'.nextItem = .ok b → Sync a b → Sync s s'

theorem Sync.refl (s : Scan) : Sync s s := .merge rfl

theorem Sync.symm {s s' : Scan} (h : Sync s s') : Sync s' s := by
  induction h with
  | merge h => exact .merge h.symm
  | step hf ha hb _ ih => exact .step hf.symm hb ha ih

theorem Sync.fields {s s' : Scan} (h : Sync s s') : Fields s s' := by
  cases h with
  | merge h => exact fields_of_skipSpace h
  | step hf _ _ _ => exact hf

/-- one step of two runs in step -/
theorem Sync.next {s s' a : Scan} (h : Sync s s') (ha : s.nextItem = .ok a) :
    ∃ b, s'.nextItem = .ok b ∧ Sync a b := by
  cases h with
  | merge h => exact ⟨a, by rw [← nextItem_of_skipSpace h]; exact ha, .refl a⟩
  | step _ ha' hb hab =>
    rw [ha] at ha'; cases ha'
    exact ⟨_, hb, hab⟩

theorem Sync.next_err {s s' : Scan} {e : ScanErr} (h : Sync s s') (ha : s.nextItem = .error e) :
    s'.nextItem = .error e := by
  cases h with
  | merge h => rw [← nextItem_of_skipSpace h]; exact ha
  | step _ ha' hb hab => rw [ha] at ha'; cases ha'

/-! ## the token stream of the driver -/

open XPathV.Lemmas.ParserFuel (meas nextItem_meas_lt init_meas)

theorem tokVsGo_fuel : ∀ (f f' : Nat) (s : Scan) (acc : List Spec.Full.TokV), meas s < f → meas s < f' →
    tokVsGo f s acc = tokVsGo f' s acc
  | 0, _, _, _, h, _ => by omega
  | _, 0, _, _, _, h => by omega
  | f+1, f'+1, s, acc, h, h' => by
    unfold tokVsGo
    split
    · rfl
    · rename_i hne
      cases hn : s.nextItem with
      | error e => cases Bridge.convTok s <;> rfl
      | ok s1 =>
        cases hc : Bridge.convTok s with
        | none => rfl
        | some t =>
          have hlt := nextItem_meas_lt (by simpa using hne) hn
          exact tokVsGo_fuel f f' s1 (t :: acc) (by omega) (by omega)

theorem Sync.tokVsGo {s s' : Scan} (h : Sync s s') : ∀ (f f' : Nat) (acc : List Spec.Full.TokV),
    meas s < f → meas s' < f' → tokVsGo f s acc = tokVsGo f' s' acc := by
  induction h with
  | @merge s s' h =>
    intro f f' acc hf hf'
    have hF := fields_of_skipSpace h
    have hN := nextItem_of_skipSpace h
    cases f with
    | zero => omega
    | succ f =>
      cases f' with
      | zero => omega
      | succ f' =>
        unfold Bridge.tokVsGo
        rw [← hF.typ, ← hF.convTok, ← hN]
        split
        · rfl
        · rename_i hne
          cases hn : s.nextItem with
          | error e => cases Bridge.convTok s <;> rfl
          | ok s1 =>
            cases hc : Bridge.convTok s with
            | none => rfl
            | some t =>
              have hlt := nextItem_meas_lt (by simpa using hne) hn
              have hne' : s'.typ ≠ .eof := by rw [← hF.typ]; simpa using hne
              have hlt' := nextItem_meas_lt hne' (hN ▸ hn)
              exact tokVsGo_fuel f f' s1 (t :: acc) (by omega) (by omega)
  | @step s s' a b hF ha hb _ ih =>
    intro f f' acc hf hf'
    cases f with
    | zero => omega
    | succ f =>
      cases f' with
      | zero => omega
      | succ f' =>
        unfold Bridge.tokVsGo
        rw [← hF.typ, ← hF.convTok, ha, hb]
        split
        · rfl
        · rename_i hne
          cases hc : Bridge.convTok s with
          | none => rfl
          | some t =>
            have hlt := nextItem_meas_lt (by simpa using hne) ha
            have hne' : s'.typ ≠ .eof := by rw [← hF.typ]; simpa using hne
            have hlt' := nextItem_meas_lt hne' hb
            exact ih f f' (t :: acc) (by omega) (by omega)

/-- two texts whose scanner runs are in step have the same token stream (`some` with the same list, or
both `none`) -/
theorem tokVs_eq_of_sync {t t' : List Char} (h : Sync (start t) (start t')) : tokVs t = tokVs t' := by
  unfold Bridge.tokVs
  cases hi : Scan.init t with
  | error e =>
    rw [init_eq] at hi
    have := h.next_err hi
    rw [← init_eq] at this
    rw [this]
  | ok a =>
    have hm := init_meas hi
    rw [init_eq] at hi
    obtain ⟨b, hb, hab⟩ := h.next hi
    rw [← init_eq] at hb
    have hm' := init_meas hb
    rw [hb]
    exact hab.tokVsGo _ _ [] (by omega) (by omega)

end XPathV.Whitespace
