import XPathV.Lemmas.PathSem
import XPathV.Lemmas.C11Base
import XPathV.Lemmas.RootedPlans
/-!
# C13 — absolute paths ignore the start node; relative paths compose with the context

* §1 `appendPath q p` (plug `q` into the `.none` leaf of the relative path `p`), `RelPF`/`AbsPF`
* §2 oracle side: `eval_append` (the denotation of `q/p` is the union over the nodes of `q` of the
  denotation of `p`), `rel_compose_spec`
* §3 model side through C01: `compose_model`, `rel_compose_model`, `rel_compose_build`;
  absolute paths: `abs_eval_indep`, `rooted_naivePlan`, `abs_model_indep`, `abs_build_indep`
* §4 wrapper identities: `(P)`, `P | P`, `P[true()]`, `not(not(P))` vs `boolean(P)`
-/
namespace XPathV.Compose
open XPathV XPathV.Model XPathV.PathSem

variable {F : Type} [NumAlg F]

/-! ## §1 Path composition on parse trees -/

/-- `appendPath q p`: the path `q/p` — the `.none` leaf of the (left-nested) step chain `p` is
replaced by `q`; an absolute `p` (leaf `.root _`) is left alone -/
def appendPath (q : Ast) : Ast → Ast
  | .none => q
  | .axis a inp => .axis a (appendPath q inp)
  | p => p

/-- predicate-free *relative* location paths: step chains whose leaf is `.none` -/
inductive RelPF : Ast → Prop
  | none : RelPF .none
  | axis (a : AxisInfo) (inp : Ast) : RelPF inp → a.axis ∈ axes12 → RelPF (.axis a inp)

/-- predicate-free *absolute* location paths: step chains whose leaf is `.root _` -/
inductive AbsPF : Ast → Prop
  | root (s : String) : AbsPF (.root s)
  | axis (a : AxisInfo) (inp : Ast) : AbsPF inp → a.axis ∈ axes12 → AbsPF (.axis a inp)

theorem RelPF.pathPF {p : Ast} (h : RelPF p) : PathPF p := by
  induction h with
  | none => exact .none
  | axis a inp _ ha ih => exact .axis a inp ih ha

theorem AbsPF.pathPF {p : Ast} (h : AbsPF p) : PathPF p := by
  induction h with
  | root s => exact .root s
  | axis a inp _ ha ih => exact .axis a inp ih ha

/-- a predicate-free path is relative or absolute -/
theorem pathPF_rel_or_abs {p : Ast} (h : PathPF p) : RelPF p ∨ AbsPF p := by
  induction h with
  | none => exact .inl .none
  | root s => exact .inr (.root s)
  | axis a inp _ ha ih =>
    rcases ih with ih | ih
    · exact .inl (.axis a inp ih ha)
    · exact .inr (.axis a inp ih ha)

theorem appendPath_pathPF {q p : Ast} (hq : PathPF q) (hp : RelPF p) : PathPF (appendPath q p) := by
  induction hp with
  | none => exact hq
  | axis a inp _ ha ih => exact .axis a _ ih ha

theorem appendPath_relPF {q p : Ast} (hq : RelPF q) (hp : RelPF p) : RelPF (appendPath q p) := by
  induction hp with
  | none => exact hq
  | axis a inp _ ha ih => exact .axis a _ ih ha

theorem appendPath_absPF {q p : Ast} (hq : AbsPF q) (hp : RelPF p) : AbsPF (appendPath q p) := by
  induction hp with
  | none => exact hq
  | axis a inp _ ha ih => exact .axis a _ ih ha

/-- an absolute path ignores what it is appended to -/
theorem appendPath_abs (q : Ast) {p : Ast} (hp : AbsPF p) : appendPath q p = p := by
  induction hp with
  | root s => rfl
  | axis a inp _ _ ih => simp only [appendPath, ih]

/-- `.` is a left unit -/
theorem appendPath_none_left {p : Ast} (hp : RelPF p) : appendPath .none p = p := by
  induction hp with
  | none => rfl
  | axis a inp _ _ ih => simp only [appendPath, ih]

/-- `.` is a right unit -/
theorem appendPath_none_right (q : Ast) : appendPath q .none = q := rfl

/-- `(q/p)/r = q/(p/r)` -/
theorem appendPath_assoc (q p r : Ast) :
    appendPath q (appendPath p r) = appendPath (appendPath q p) r := by
  induction r with
  | none => rfl
  | axis a inp ih => simp only [appendPath, ih]
  | _ => rfl

/-! ## §2 Oracle side -/

/-- the node list of an evaluation result (`[]` for failures and non-node-set values; for
predicate-free paths neither occurs, see `eval_pathPF_ok`) -/
def nodesOf : Except Spec.Err (Spec.Res F) → List Ref
  | .ok (.val (.nodes l) _) => l
  | _ => []

omit [NumAlg F] in
@[simp] theorem nodesOf_ok (l : List Ref) (g : Option (List (List Ref))) :
    nodesOf (F := F) (.ok (.val (.nodes l) g)) = l := rfl

/-- the oracle is total on predicate-free paths and yields a node-set -/
theorem eval_pathPF_ok (d : Doc) {p : Ast} (hp : PathPF p) (c : Spec.Ctx) :
    ∃ ns g, Spec.eval (F := F) d p c = .ok (.val (.nodes ns) g) := by
  induction hp with
  | none => exact ⟨[c.node], none, by simp [Spec.eval]⟩
  | root s => exact ⟨[.node 0], none, by simp [Spec.eval]⟩
  | axis a inp _ ha ih =>
    obtain ⟨ns, g, h⟩ := ih
    obtain ⟨g', h'⟩ := eval_axis (F := F) d a ha inp c ns g h
    exact ⟨_, g', h'⟩

theorem eval_pathPF_eq_nodesOf (d : Doc) {p : Ast} (hp : PathPF p) (c : Spec.Ctx) :
    ∃ g, Spec.eval (F := F) d p c = .ok (.val (.nodes (nodesOf (Spec.eval (F := F) d p c))) g) := by
  obtain ⟨ns, g, h⟩ := eval_pathPF_ok (F := F) d hp c
  exact ⟨g, by rw [h]; rfl⟩

/-- the value of a predicate-free path depends on the context *node* only -/
theorem eval_pathPF_ctx (d : Doc) {p : Ast} (hp : PathPF p) (n : Ref) (i j i' j' : Nat) :
    Spec.eval (F := F) d p ⟨n, i, j⟩ = Spec.eval (F := F) d p ⟨n, i', j'⟩ := by
  induction hp with
  | none => simp [Spec.eval]
  | root s => simp [Spec.eval]
  | axis a inp _ _ ih => simp only [Spec.eval, ih]

/-- the candidates of one step from origin `o`: the axis in proximity order, node test applied -/
def stepSet (d : Doc) (a : AxisInfo) (o : Ref) : List Ref :=
  ((Spec.axisProx d a.axis o).getD []).filter (Spec.nodeTest d a)

/-- the node list of a step over an evaluated input -/
theorem nodesOf_axis_eq (d : Doc) (a : AxisInfo) (ha : a.axis ∈ axes12) {inp : Ast} (hinp : PathPF inp)
    (c : Spec.Ctx) :
    nodesOf (Spec.eval (F := F) d (.axis a inp) c) =
      Spec.docOrder d ((nodesOf (Spec.eval (F := F) d inp c)).map (stepSet d a)).flatten := by
  obtain ⟨ns, g, h⟩ := eval_pathPF_ok (F := F) d hinp c
  obtain ⟨g', h'⟩ := eval_axis (F := F) d a ha inp c ns g h
  rw [h', h]
  rfl

/-- membership in the node list of a step -/
theorem mem_nodesOf_axis (d : Doc) (a : AxisInfo) (ha : a.axis ∈ axes12) {inp : Ast} (hinp : PathPF inp)
    (c : Spec.Ctx) (x : Ref) :
    x ∈ nodesOf (Spec.eval (F := F) d (.axis a inp) c) ↔
      validRef d x = true ∧ ∃ o ∈ nodesOf (Spec.eval (F := F) d inp c), x ∈ stepSet d a o := by
  rw [nodesOf_axis_eq d a ha hinp c, mem_docOrder, List.mem_flatten]
  constructor
  · rintro ⟨⟨l, hl, hx⟩, hv⟩
    obtain ⟨o, ho, rfl⟩ := List.mem_map.1 hl
    exact ⟨hv, o, ho, hx⟩
  · rintro ⟨hv, o, ho, hx⟩
    exact ⟨⟨_, List.mem_map.2 ⟨o, ho, rfl⟩, hx⟩, hv⟩

/-- **path composition (oracle)**: a node is selected by `q/p` from context `c` iff it is selected
by `p` from some node that `q` selects from `c` -/
theorem eval_append (d : Doc) {q p : Ast} (hq : PathPF q) (hp : RelPF p) (c : Spec.Ctx) (x : Ref) :
    x ∈ nodesOf (Spec.eval (F := F) d (appendPath q p) c) ↔
      ∃ n ∈ nodesOf (Spec.eval (F := F) d q c), x ∈ nodesOf (Spec.eval (F := F) d p ⟨n, 1, 1⟩) := by
  induction hp generalizing x with
  | none =>
    simp only [appendPath, Spec.eval, nodesOf_ok, List.mem_cons, List.not_mem_nil, or_false]
    constructor
    · intro h; exact ⟨x, h, rfl⟩
    · rintro ⟨n, hn, rfl⟩; exact hn
  | axis a inp hinp ha ih =>
    simp only [appendPath]
    rw [mem_nodesOf_axis d a ha (appendPath_pathPF hq hinp) c x]
    constructor
    · rintro ⟨hv, o, ho, hx⟩
      obtain ⟨n, hn, hon⟩ := (ih o).1 ho
      exact ⟨n, hn, (mem_nodesOf_axis d a ha hinp.pathPF _ x).2 ⟨hv, o, hon, hx⟩⟩
    · rintro ⟨n, hn, hx⟩
      obtain ⟨hv, o, ho, hxo⟩ := (mem_nodesOf_axis d a ha hinp.pathPF _ x).1 hx
      exact ⟨hv, o, (ih o).2 ⟨n, hn, ho⟩, hxo⟩

/-- `eval_append` with every evaluation spelled out (no `nodesOf`): all three evaluations succeed
with node-sets `Q`, `R`, `N n`, and `R = ⋃_{n ∈ Q} N n` as sets -/
theorem eval_append_explicit (d : Doc) {q p : Ast} (hq : PathPF q) (hp : RelPF p) (c : Ref) :
    ∃ (Q R : List Ref) (N : Ref → List Ref) (gq gr : Option (List (List Ref)))
      (gn : Ref → Option (List (List Ref))),
      Spec.eval (F := F) d q ⟨c, 1, 1⟩ = .ok (.val (.nodes Q) gq) ∧
      Spec.eval (F := F) d (appendPath q p) ⟨c, 1, 1⟩ = .ok (.val (.nodes R) gr) ∧
      (∀ n, Spec.eval (F := F) d p ⟨n, 1, 1⟩ = .ok (.val (.nodes (N n)) (gn n))) ∧
      ∀ x, x ∈ R ↔ ∃ n ∈ Q, x ∈ N n := by
  obtain ⟨gq, h1⟩ := eval_pathPF_eq_nodesOf (F := F) d hq ⟨c, 1, 1⟩
  obtain ⟨gr, h2⟩ := eval_pathPF_eq_nodesOf (F := F) d (appendPath_pathPF hq hp) ⟨c, 1, 1⟩
  have h3 := fun n => eval_pathPF_eq_nodesOf (F := F) d hp.pathPF ⟨n, 1, 1⟩
  exact ⟨_, _, fun n => nodesOf (Spec.eval (F := F) d p ⟨n, 1, 1⟩), gq, gr, fun n => (h3 n).choose,
    h1, h2, fun n => (h3 n).choose_spec, fun x => eval_append d hq hp ⟨c, 1, 1⟩ x⟩

theorem docOrder_congr_valid (d : Doc) (l l' : List Ref)
    (h : ∀ x, validRef d x = true → (x ∈ l ↔ x ∈ l')) :
    Spec.docOrder d l = Spec.docOrder d l' := by
  unfold Spec.docOrder
  apply List.filter_congr
  intro x hx
  rw [Bool.eq_iff_iff, List.contains_iff_mem, List.contains_iff_mem]
  exact h x ((mem_allRefs d x).1 hx)

theorem docOrder_congr (d : Doc) (l l' : List Ref) (h : ∀ x, x ∈ l ↔ x ∈ l') :
    Spec.docOrder d l = Spec.docOrder d l' :=
  docOrder_congr_valid d l l' (fun x _ => h x)

theorem docOrder_idem (d : Doc) (l : List Ref) :
    Spec.docOrder d (Spec.docOrder d l) = Spec.docOrder d l := by
  apply docOrder_congr_valid
  intro x hv
  rw [mem_docOrder]
  exact ⟨fun h => h.1, fun h => ⟨h, hv⟩⟩

/-- `eval_append` as an equation of document-ordered lists -/
theorem eval_append_docOrder (d : Doc) {q p : Ast} (hq : PathPF q) (hp : RelPF p) (c : Spec.Ctx) :
    Spec.docOrder d (nodesOf (Spec.eval (F := F) d (appendPath q p) c)) =
      Spec.docOrder d ((nodesOf (Spec.eval (F := F) d q c)).flatMap
        (fun n => nodesOf (Spec.eval (F := F) d p ⟨n, 1, 1⟩))) := by
  apply docOrder_congr
  intro x
  rw [eval_append d hq hp c x, List.mem_flatMap]

/-- for a path `p` with at least one step, `q/p` *is* the document-order union -/
theorem eval_append_eq (d : Doc) {q p : Ast} (hq : PathPF q) (a : AxisInfo) (ha : a.axis ∈ axes12)
    (hp : RelPF p) (c : Spec.Ctx) :
    nodesOf (Spec.eval (F := F) d (appendPath q (.axis a p)) c) =
      Spec.docOrder d ((nodesOf (Spec.eval (F := F) d q c)).flatMap
        (fun n => nodesOf (Spec.eval (F := F) d (.axis a p) ⟨n, 1, 1⟩))) := by
  rw [← eval_append_docOrder d hq (.axis a p hp ha) c]
  simp only [appendPath]
  rw [nodesOf_axis_eq d a ha (appendPath_pathPF hq hp) c, docOrder_idem]

/-- **relative paths compose with the context (oracle)**: if `q` denotes exactly the node `n`
from context `c`, then `p` evaluated at `n` and `q/p` evaluated at `c` select the same nodes -/
theorem rel_compose_spec_ctx (d : Doc) {q p : Ast} (hq : PathPF q) (hp : RelPF p) (c : Spec.Ctx) (n : Ref)
    (h : ∀ y, y ∈ nodesOf (Spec.eval (F := F) d q c) ↔ y = n) (x : Ref) :
    x ∈ nodesOf (Spec.eval (F := F) d p ⟨n, 1, 1⟩) ↔
      x ∈ nodesOf (Spec.eval (F := F) d (appendPath q p) c) := by
  rw [eval_append d hq hp c x]
  constructor
  · intro hx; exact ⟨n, (h n).2 rfl, hx⟩
  · rintro ⟨m, hm, hx⟩; rw [(h m).1 hm] at hx; exact hx

/-- **`rel_compose_spec`**: `q` denotes exactly one node `n` from the root ⇒ the relative path `p`
at `n` has the same node set as `q/p` at the root -/
theorem rel_compose_spec (d : Doc) {q p : Ast} (hq : PathPF q) (hp : RelPF p) (n : Ref)
    (h : nodesOf (Spec.eval (F := F) d q ⟨.node 0, 1, 1⟩) = [n]) (x : Ref) :
    x ∈ nodesOf (Spec.eval (F := F) d p ⟨n, 1, 1⟩) ↔
      x ∈ nodesOf (Spec.eval (F := F) d (appendPath q p) ⟨.node 0, 1, 1⟩) :=
  rel_compose_spec_ctx d hq hp _ n (fun y => by rw [h]; simp) x

/-- … and the two node *lists* are equal (both are in document order) -/
theorem rel_compose_spec_eq (d : Doc) {q p : Ast} (hq : PathPF q) (hp : RelPF p) (c : Spec.Ctx) (n : Ref)
    (h : nodesOf (Spec.eval (F := F) d q c) = [n]) :
    nodesOf (Spec.eval (F := F) d p ⟨n, 1, 1⟩) = nodesOf (Spec.eval (F := F) d (appendPath q p) c) := by
  cases hp with
  | none => simp only [appendPath, h, Spec.eval, nodesOf_ok]
  | axis a inp hinp ha =>
    simp only [appendPath]
    rw [nodesOf_axis_eq d a ha hinp.pathPF, nodesOf_axis_eq d a ha (appendPath_pathPF hq hinp)]
    apply docOrder_congr
    intro x
    simp only [List.mem_flatten, List.mem_map]
    have hin := rel_compose_spec_ctx (F := F) d hq hinp c n (fun y => by rw [h]; simp)
    constructor
    · rintro ⟨l, ⟨o, ho, rfl⟩, hx⟩; exact ⟨_, ⟨o, (hin o).1 ho, rfl⟩, hx⟩
    · rintro ⟨l, ⟨o, ho, rfl⟩, hx⟩; exact ⟨_, ⟨o, (hin o).2 ho, rfl⟩, hx⟩

/-! ## §3 Model side (through C01) -/

/-- C01 stage 3 in `nodesOf` form: the un-rewritten plan of a predicate-free path selects, from a
valid context node, exactly the oracle's node-set; all selected nodes are valid -/
theorem naive_nodesOf {d : Doc} (wf : WF d) (cfg : ECfg) (hns : cfg.nsIface = true)
    (hinj : HashInj d cfg) {p : Ast} (hp : PathPF p) (c : Ref) (hc : validRef d c = true) :
    ∃ out, sel (F := F) d cfg (naivePlan p) c = .ok out ∧
      (∀ x, x ∈ refs out ↔ x ∈ nodesOf (Spec.eval (F := F) d p ⟨c, 1, 1⟩)) ∧
      (∀ x ∈ refs out, validRef d x = true) := by
  obtain ⟨out, ns, g, h1, h2, h3, h4⟩ := naive_sem (F := F) wf cfg hns hinj p hp c hc
  refine ⟨out, h1, ?_, fun x hx => h4 x ((h3 x).1 hx)⟩
  rw [h2]; exact h3

/-- C01 (built plan, all rewrites) in `nodesOf` form -/
theorem build_nodesOf {d : Doc} (wf : WF d) (cfg : ECfg) (hns : cfg.nsIface = true)
    (hinj : HashInj d cfg) (regexOk : RegexOk) (limit : Nat) (sdf : Bool) {p : Ast} (hp : PathPF p)
    (st : BState) (o : BOut) (hb : build regexOk limit true sdf p {} st = .ok o)
    (c : Ref) (hc : validRef d c = true) :
    ∃ out, sel (F := F) d cfg o.q c = .ok out ∧
      ∀ x, x ∈ refs out ↔ x ∈ nodesOf (Spec.eval (F := F) d p ⟨c, 1, 1⟩) := by
  obtain ⟨out, ns, g, h1, h2, h3⟩ := C01_main (F := F) wf cfg hns hinj regexOk limit sdf p hp st o hb c hc
  refine ⟨out, h1, ?_⟩
  rw [h2]; exact h3

theorem valid_root {d : Doc} (wf : WF d) : validRef d (.node 0) = true :=
  (validRef_node d 0).2 wf.pos

/-- **path composition (model)**: from a valid context node `c` the naive plan of `q/p` selects `x`
iff the naive plan of `p`, started at some node that the plan of `q` selects from `c`, selects `x`;
none of the evaluations fails -/
theorem compose_model {d : Doc} (wf : WF d) (cfg : ECfg) (hns : cfg.nsIface = true)
    (hinj : HashInj d cfg) {q p : Ast} (hq : PathPF q) (hp : RelPF p) (c : Ref)
    (hc : validRef d c = true) :
    ∃ oq oqp, sel (F := F) d cfg (naivePlan q) c = .ok oq ∧
      sel (F := F) d cfg (naivePlan (appendPath q p)) c = .ok oqp ∧
      (∀ n ∈ refs oq, ∃ on, sel (F := F) d cfg (naivePlan p) n = .ok on) ∧
      ∀ x, x ∈ refs oqp ↔
        ∃ n ∈ refs oq, ∃ on, sel (F := F) d cfg (naivePlan p) n = .ok on ∧ x ∈ refs on := by
  obtain ⟨oq, hoq, hmq, hvq⟩ := naive_nodesOf (F := F) wf cfg hns hinj hq c hc
  obtain ⟨oqp, hoqp, hmqp, _⟩ :=
    naive_nodesOf (F := F) wf cfg hns hinj (appendPath_pathPF hq hp) c hc
  have hpn := fun n (hn : n ∈ refs oq) =>
    naive_nodesOf (F := F) wf cfg hns hinj hp.pathPF n (hvq n hn)
  refine ⟨oq, oqp, hoq, hoqp, fun n hn => ⟨_, (hpn n hn).choose_spec.1⟩, fun x => ?_⟩
  rw [hmqp, eval_append d hq hp ⟨c, 1, 1⟩ x]
  constructor
  · rintro ⟨n, hn, hx⟩
    have hn' := (hmq n).2 hn
    obtain ⟨on, hon, hmn, _⟩ := hpn n hn'
    exact ⟨n, hn', on, hon, (hmn x).2 hx⟩
  · rintro ⟨n, hn, on, hon, hx⟩
    obtain ⟨on', hon', hmn, _⟩ := hpn n hn
    rw [hon] at hon'; cases hon'
    exact ⟨n, (hmq n).1 hn, (hmn x).1 hx⟩

/-- **`rel_compose_model`**: if (by the oracle) `q` denotes exactly the node `n` from the root, the
naive plan of the relative path `p` started at `n` and the naive plan of `q/p` started at the root
select the same node set -/
theorem rel_compose_model {d : Doc} (wf : WF d) (cfg : ECfg) (hns : cfg.nsIface = true)
    (hinj : HashInj d cfg) {q p : Ast} (hq : PathPF q) (hp : RelPF p) (n : Ref)
    (h : nodesOf (Spec.eval (F := F) d q ⟨.node 0, 1, 1⟩) = [n]) :
    ∃ o1 o2, sel (F := F) d cfg (naivePlan p) n = .ok o1 ∧
      sel (F := F) d cfg (naivePlan (appendPath q p)) (.node 0) = .ok o2 ∧
      ∀ x, x ∈ refs o1 ↔ x ∈ refs o2 := by
  obtain ⟨oq, _, hmq, hvq⟩ := naive_nodesOf (F := F) wf cfg hns hinj hq (.node 0) (valid_root wf)
  have hnv : validRef d n = true := hvq n ((hmq n).2 (by rw [h]; simp))
  obtain ⟨o1, ho1, hm1, _⟩ := naive_nodesOf (F := F) wf cfg hns hinj hp.pathPF n hnv
  obtain ⟨o2, ho2, hm2, _⟩ :=
    naive_nodesOf (F := F) wf cfg hns hinj (appendPath_pathPF hq hp) (.node 0) (valid_root wf)
  exact ⟨o1, o2, ho1, ho2, fun x => by rw [hm1, hm2]; exact rel_compose_spec d hq hp n h x⟩

/-- `rel_compose_model` with the single-node hypothesis on the *model* side: the plan of `q`
selects exactly `n` (as a set) from the valid context node `c` -/
theorem rel_compose_model' {d : Doc} (wf : WF d) (cfg : ECfg) (hns : cfg.nsIface = true)
    (hinj : HashInj d cfg) {q p : Ast} (hq : PathPF q) (hp : RelPF p) (c n : Ref)
    (hc : validRef d c = true) (oq : List Item)
    (hsel : sel (F := F) d cfg (naivePlan q) c = .ok oq) (h : ∀ y, y ∈ refs oq ↔ y = n) :
    ∃ o1 o2, sel (F := F) d cfg (naivePlan p) n = .ok o1 ∧
      sel (F := F) d cfg (naivePlan (appendPath q p)) c = .ok o2 ∧
      ∀ x, x ∈ refs o1 ↔ x ∈ refs o2 := by
  obtain ⟨oq', hoq', hmq, hvq⟩ := naive_nodesOf (F := F) wf cfg hns hinj hq c hc
  rw [hsel] at hoq'; cases hoq'
  have hnv : validRef d n = true := hvq n ((h n).2 rfl)
  obtain ⟨o1, ho1, hm1, _⟩ := naive_nodesOf (F := F) wf cfg hns hinj hp.pathPF n hnv
  obtain ⟨o2, ho2, hm2, _⟩ :=
    naive_nodesOf (F := F) wf cfg hns hinj (appendPath_pathPF hq hp) c hc
  refine ⟨o1, o2, ho1, ho2, fun x => ?_⟩
  rw [hm1, hm2]
  exact rel_compose_spec_ctx d hq hp ⟨c, 1, 1⟩ n (fun y => by rw [← hmq y]; exact h y) x

/-- the same for the plans `build` produces (with every rewrite), through `C01_main` -/
theorem rel_compose_build {d : Doc} (wf : WF d) (cfg : ECfg) (hns : cfg.nsIface = true)
    (hinj : HashInj d cfg) (regexOk : RegexOk) (limit : Nat) (sdf : Bool)
    {q p : Ast} (hq : PathPF q) (hp : RelPF p) (n : Ref)
    (h : nodesOf (Spec.eval (F := F) d q ⟨.node 0, 1, 1⟩) = [n])
    (st st' : BState) (o o' : BOut)
    (hb : build regexOk limit true sdf p {} st = .ok o)
    (hb' : build regexOk limit true sdf (appendPath q p) {} st' = .ok o') :
    ∃ o1 o2, sel (F := F) d cfg o.q n = .ok o1 ∧ sel (F := F) d cfg o'.q (.node 0) = .ok o2 ∧
      ∀ x, x ∈ refs o1 ↔ x ∈ refs o2 := by
  obtain ⟨oq, _, hmq, hvq⟩ := naive_nodesOf (F := F) wf cfg hns hinj hq (.node 0) (valid_root wf)
  have hnv : validRef d n = true := hvq n ((hmq n).2 (by rw [h]; simp))
  obtain ⟨o1, ho1, hm1⟩ :=
    build_nodesOf (F := F) wf cfg hns hinj regexOk limit sdf hp.pathPF st o hb n hnv
  obtain ⟨o2, ho2, hm2⟩ :=
    build_nodesOf (F := F) wf cfg hns hinj regexOk limit sdf (appendPath_pathPF hq hp) st' o' hb'
      (.node 0) (valid_root wf)
  exact ⟨o1, o2, ho1, ho2, fun x => by rw [hm1, hm2]; exact rel_compose_spec d hq hp n h x⟩

/-! ### Absolute paths -/

/-- **start-node independence (oracle)**: an absolute predicate-free path has the same value
(node-set *and* proximity groups) in every context -/
theorem abs_eval_indep (d : Doc) {p : Ast} (hp : AbsPF p) (c₁ c₂ : Spec.Ctx) :
    Spec.eval (F := F) d p c₁ = Spec.eval (F := F) d p c₂ := by
  induction hp with
  | root s => simp [Spec.eval]
  | axis a inp _ _ ih => simp only [Spec.eval, ih]

open XPathV.RootedPlans in
theorem rooted_stepPlan (a : AxisInfo) (ha : a.axis ∈ axes12) (inp : Plan) :
    Rooted (stepPlan a inp) = Rooted inp := by
  simp only [axes12, List.mem_cons, List.not_mem_nil, or_false] at ha
  rcases ha with h | h | h | h | h | h | h | h | h | h | h | h <;> simp [stepPlan, h, Rooted]

open XPathV.RootedPlans in
/-- the un-rewritten plan of an absolute path is rooted -/
theorem rooted_naivePlan {p : Ast} (hp : AbsPF p) : Rooted (naivePlan p) = true := by
  induction hp with
  | root s => rfl
  | axis a inp _ ha ih => simp only [naivePlan, rooted_stepPlan a ha, ih]

/-- **start-node independence (model, naive plan)**: the same *sequence* from every start node -/
theorem abs_model_indep (d : Doc) (cfg : ECfg) {p : Ast} (hp : AbsPF p) (c₁ c₂ : Ref) :
    sel (F := F) d cfg (naivePlan p) c₁ = sel (F := F) d cfg (naivePlan p) c₂ :=
  RootedPlans.abs_start_indep d cfg _ (rooted_naivePlan hp) c₁ c₂

/-- **start-node independence (model, built plan, through C01)**: the plan `build` produces for an
absolute predicate-free path selects the same node set from any two valid start nodes, and that set
is the oracle's value of the path (at any context) -/
theorem abs_build_indep {d : Doc} (wf : WF d) (cfg : ECfg) (hns : cfg.nsIface = true)
    (hinj : HashInj d cfg) (regexOk : RegexOk) (limit : Nat) (sdf : Bool) {p : Ast} (hp : AbsPF p)
    (st : BState) (o : BOut) (hb : build regexOk limit true sdf p {} st = .ok o)
    (c₁ c₂ : Ref) (h₁ : validRef d c₁ = true) (h₂ : validRef d c₂ = true) :
    ∃ o1 o2, sel (F := F) d cfg o.q c₁ = .ok o1 ∧ sel (F := F) d cfg o.q c₂ = .ok o2 ∧
      ∀ x, x ∈ refs o1 ↔ x ∈ refs o2 := by
  obtain ⟨o1, ho1, hm1⟩ := build_nodesOf (F := F) wf cfg hns hinj regexOk limit sdf hp.pathPF st o hb c₁ h₁
  obtain ⟨o2, ho2, hm2⟩ := build_nodesOf (F := F) wf cfg hns hinj regexOk limit sdf hp.pathPF st o hb c₂ h₂
  refine ⟨o1, o2, ho1, ho2, fun x => ?_⟩
  rw [hm1, hm2, abs_eval_indep d hp ⟨c₁, 1, 1⟩ ⟨c₂, 1, 1⟩]

/-! ### The *built* plan of an absolute path is rooted (sequence-level independence) -/

open XPathV.RootedPlans in
theorem axisPlan_rooted (a : AxisInfo) (fl : Flags) (pr pr' : Props) (inp q : Plan)
    (h : axisPlan a fl pr inp = .ok (q, pr')) : Rooted q = Rooted inp := by
  unfold axisPlan at h
  split at h <;> first
    | (cases h; done)
    | (simp only [Except.ok.injEq, Prod.mk.injEq] at h
       obtain ⟨rfl, _⟩ := h
       first | rfl | (split <;> rfl))

open XPathV.RootedPlans in
/-- every plan `build` returns for this path is rooted -/
def BuildRooted (regexOk : RegexOk) (limit : Nat) (snt sdf : Bool) (p : Ast) : Prop :=
  ∀ fl st o, build regexOk limit snt sdf p fl st = .ok o → Rooted o.q = true

open XPathV.RootedPlans in
theorem build_rooted_all (regexOk : RegexOk) (limit : Nat) (snt sdf : Bool) {p : Ast} (hp : AbsPF p) :
    BuildRooted regexOk limit snt sdf p ∧
      ∀ b g, p = .axis b g → BuildRooted regexOk limit snt sdf g := by
  induction hp with
  | root s =>
    refine ⟨?_, fun b g h => by cases h⟩
    intro fl st o h
    rw [build] at h
    replace h := enter_ok _ _ _ _ h
    cases h
    rfl
  | axis a inp hinp ha ih =>
    refine ⟨?_, fun b g h => by cases h; exact ih.1⟩
    cases hinp with
    | root s =>
      intro fl st o h
      rw [build] at h
      · replace h := enter_ok _ _ _ _ h
        obtain ⟨o1, ho1, h⟩ := except_bind_ok _ _ _ h
        obtain ⟨⟨q, props⟩, hq, hfin⟩ := except_bind_ok _ _ _ h
        rw [finAxis_q _ _ _ _ hfin, axisPlan_rooted _ _ _ _ _ _ hq]
        exact ih.1 _ _ o1 ho1
      · intro h; cases h
      · intro b g h; cases h
    | axis b grand hg hb =>
      intro fl st o h
      rw [build] at h
      replace h := enter_ok _ _ _ _ h
      simp only [] at h
      split at h
      · have key : ∀ gq, Rooted gq = true → o.q = .descendant a false gq → Rooted o.q = true := by
          intro gq hr hq; rw [hq]; exact hr
        cases hg with
        | root s =>
          simp only [] at h
          obtain ⟨o1, ho1, h⟩ := except_bind_ok _ _ _ h
          simp only [pure, Except.pure, bind, Except.bind] at h
          exact key o1.q (ih.2 b _ rfl _ _ o1 ho1) (finAxis_q _ _ _ _ h)
        | axis e g2 hg2 he =>
          simp only [] at h
          obtain ⟨o1, ho1, h⟩ := except_bind_ok _ _ _ h
          simp only [pure, Except.pure, bind, Except.bind] at h
          exact key o1.q (ih.2 b _ rfl _ _ o1 ho1) (finAxis_q _ _ _ _ h)
      · obtain ⟨o1, ho1, h⟩ := except_bind_ok _ _ _ h
        obtain ⟨⟨q, props⟩, hq, hfin⟩ := except_bind_ok _ _ _ h
        rw [finAxis_q _ _ _ _ hfin, axisPlan_rooted _ _ _ _ _ _ hq]
        exact ih.1 _ _ o1 ho1

open XPathV.RootedPlans in
/-- **the plan `build` makes of an absolute predicate-free path is rooted** (whatever the flags,
the builder state and the two source-configuration switches) -/
theorem build_rooted (regexOk : RegexOk) (limit : Nat) (snt sdf : Bool) {p : Ast} (hp : AbsPF p)
    (fl : Flags) (st : BState) (o : BOut) (h : build regexOk limit snt sdf p fl st = .ok o) :
    Rooted o.q = true :=
  (build_rooted_all regexOk limit snt sdf hp).1 fl st o h

/-- **start-node independence (model, built plan, sequence level)**: the plan `build` makes of an
absolute predicate-free path yields the same *sequence* (or the same failure) from every start
node — no assumption on the document, the start nodes or the hash -/
theorem abs_build_start_indep (d : Doc) (cfg : ECfg) (regexOk : RegexOk) (limit : Nat) (snt sdf : Bool)
    {p : Ast} (hp : AbsPF p) (fl : Flags) (st : BState) (o : BOut)
    (h : build regexOk limit snt sdf p fl st = .ok o) (c₁ c₂ : Ref) :
    sel (F := F) d cfg o.q c₁ = sel (F := F) d cfg o.q c₂ :=
  RootedPlans.abs_start_indep d cfg o.q (build_rooted regexOk limit snt sdf hp fl st o h) c₁ c₂

/-- appending an absolute path to anything changes nothing, on both sides -/
theorem abs_append_ignored (d : Doc) (cfg : ECfg) (q : Ast) {p : Ast} (hp : AbsPF p)
    (c₁ c₂ : Ref) :
    Spec.eval (F := F) d (appendPath q p) ⟨c₁, 1, 1⟩ = Spec.eval (F := F) d p ⟨c₂, 1, 1⟩ ∧
    sel (F := F) d cfg (naivePlan (appendPath q p)) c₁ = sel (F := F) d cfg (naivePlan p) c₂ := by
  rw [appendPath_abs q hp]
  exact ⟨abs_eval_indep d hp _ _, abs_model_indep d cfg hp c₁ c₂⟩

/-! ## §4 Wrapper identities (model side) -/

/-! ### `(P)` -/

/-- `(P)`: the group plan yields the same node sequence as `P` (positions renumbered) -/
theorem group_refs (d : Doc) (cfg : ECfg) (p : Plan) (c : Ref) (ins : List Item)
    (h : sel (F := F) d cfg p c = .ok ins) :
    ∃ out, sel (F := F) d cfg (.group p) c = .ok out ∧ refs out = refs ins := by
  refine ⟨numbered (ins.map (·.r)), by simp [sel, h, bind, Except.bind], ?_⟩
  exact numbered_refs _

/-- `(P)` fails exactly when `P` does -/
theorem group_error (d : Doc) (cfg : ECfg) (p : Plan) (c : Ref) (e : EErr)
    (h : sel (F := F) d cfg p c = .error e) : sel (F := F) d cfg (.group p) c = .error e := by
  simp [sel, h, bind, Except.bind]

/-! ### `P | P` -/

/-- `P | P` with the no-collision hypothesis stated on the nodes `P` selects: same node set as `P`,
each node once -/
theorem union_self_local (d : Doc) (cfg : ECfg) (p : Plan) (c : Ref) (a : List Item)
    (h : sel (F := F) d cfg p c = .ok a)
    (hinj : ∀ x ∈ refs a, ∀ y ∈ refs a, identityHash d cfg x = identityHash d cfg y → x = y) :
    ∃ out, sel (F := F) d cfg (.union p p) c = .ok out ∧
      (∀ x, x ∈ refs out ↔ x ∈ refs a) ∧ (refs out).Nodup := by
  have hmem : ∀ x, x ∈ (a ++ a).map (·.r) ↔ x ∈ refs a := by
    intro x; simp [refs]
  obtain ⟨out, ho, hm, hnd⟩ := Theorems.C11.C11_union (F := F) d cfg p p c a a h h
    (fun x hx y hy => hinj x ((hmem x).1 hx) y ((hmem y).1 hy))
  exact ⟨out, ho, fun x => by rw [show refs out = out.map (·.r) from rfl, hm]; simp [refs], hnd⟩

/-- **`P | P`** under `HashInj`: when `P` selects valid nodes, `P | P` selects the same node set,
each node once -/
theorem union_self (d : Doc) (cfg : ECfg) (hinj : HashInj d cfg) (p : Plan) (c : Ref) (a : List Item)
    (h : sel (F := F) d cfg p c = .ok a) (hv : ∀ x ∈ refs a, validRef d x = true) :
    ∃ out, sel (F := F) d cfg (.union p p) c = .ok out ∧
      (∀ x, x ∈ refs out ↔ x ∈ refs a) ∧ (refs out).Nodup :=
  union_self_local d cfg p c a h (fun x hx y hy => hinj x y (hv x hx) (hv y hy))

/-- `P | P` fails exactly when `P` does -/
theorem union_self_error (d : Doc) (cfg : ECfg) (p : Plan) (c : Ref) (e : EErr)
    (h : sel (F := F) d cfg p c = .error e) : sel (F := F) d cfg (.union p p) c = .error e := by
  simp [sel, h, bind, Except.bind]

/-- oracle side: `P | P` denotes the (valid) nodes of `P` -/
theorem union_self_spec (d : Doc) (p : Ast) (c : Spec.Ctx) (l : List Ref) (g : Option (List (List Ref)))
    (h : Spec.eval (F := F) d p c = .ok (.val (.nodes l) g)) :
    Spec.eval (F := F) d (.oper "|" p p) c = .ok (.val (.nodes (Spec.docOrder d (l ++ l))) none) ∧
      ∀ x, x ∈ Spec.docOrder d (l ++ l) ↔ (x ∈ l ∧ validRef d x = true) := by
  refine ⟨?_, fun x => by rw [mem_docOrder]; simp⟩
  simp [Spec.eval, h, bind, Except.bind, Spec.Res.value, Spec.asNodes, Spec.CmpOp.ofString]

/-- `P | P` for a predicate-free path: model (naive plans under a union) = oracle, as node sets -/
theorem union_self_path {d : Doc} (wf : WF d) (cfg : ECfg) (hns : cfg.nsIface = true)
    (hinj : HashInj d cfg) {p : Ast} (hp : PathPF p) (c : Ref) (hc : validRef d c = true) :
    ∃ out ns, sel (F := F) d cfg (.union (naivePlan p) (naivePlan p)) c = .ok out ∧
      Spec.eval (F := F) d (.oper "|" p p) ⟨c, 1, 1⟩ = .ok (.val (.nodes ns) none) ∧
      (∀ x, x ∈ refs out ↔ x ∈ ns) ∧ (refs out).Nodup ∧
      (∀ x, x ∈ ns ↔ x ∈ nodesOf (Spec.eval (F := F) d p ⟨c, 1, 1⟩)) := by
  obtain ⟨a, ns, g, h1, h2, h3, h4⟩ := naive_sem (F := F) wf cfg hns hinj p hp c hc
  obtain ⟨out, ho, hm, hnd⟩ := union_self (F := F) d cfg hinj (naivePlan p) c a h1
    (fun x hx => h4 x ((h3 x).1 hx))
  obtain ⟨hs, hsm⟩ := union_self_spec (F := F) d p ⟨c, 1, 1⟩ ns g h2
  refine ⟨out, _, ho, hs, fun x => ?_, hnd, fun x => ?_⟩
  · rw [hm, hsm, h3]; exact ⟨fun h => ⟨h, h4 x h⟩, fun h => h.1⟩
  · rw [hsm, h2]; exact ⟨fun h => h.1, fun h => ⟨h, h4 x h⟩⟩

/-! ### `P[true()]` -/

/-- the plan `build` makes of `true()` -/
def truePlan : Plan := .func "true" .nil .pnil

theorem build_true (regexOk : RegexOk) (limit : Nat) (b1 b2 : Bool) (pfx : String) (fl : Flags)
    (st : BState) (o : BOut) (h : build regexOk limit b1 b2 (.call "true" pfx .anil) fl st = .ok o) :
    o.q = truePlan := by
  rw [build] at h
  replace h := enter_ok _ _ _ _ h
  simp only [fnArity, Ast.argList, List.length_nil, fnUsed, build, bind, Except.bind,
    Nat.not_lt_zero, ↓reduceIte] at h
  simp at h
  rw [← h]; rfl

theorem evalP_true (d : Doc) (cfg : ECfg) (r : Ref) :
    evalP (F := F) d cfg truePlan r = .ok (.bool true) := by
  simp [truePlan, evalP, argVals, callFn, bind, Except.bind, pure, Except.pure]

theorem mapM_ok {α β ε : Type} (f : α → Except ε β) (g : α → β) (h : ∀ a, f a = .ok (g a))
    (l : List α) : l.mapM f = .ok (l.map g) := by
  induction l with
  | nil => rfl
  | cons a t ih => simp [List.mapM_cons, h, ih, bind, Except.bind, pure, Except.pure]

theorem keep_all_true {α : Type} (l : List α) :
    (l.zip (l.map fun _ => true)).filterMap (fun (p : α × Bool) => if p.2 then some p.1 else none) = l := by
  induction l with
  | nil => rfl
  | cons a t ih => simp [ih]

theorem filterPositions_fold_refs (l : List Item) (acc : List Item × List (Nat × Nat)) :
    refs (l.foldl (fun (acc : List Item × List (Nat × Nat)) (it : Item) =>
        let (out, counts) := acc
        let c := ((counts.lookup it.lvl).getD 0) + 1
        (out ++ [(⟨it.r, c, 0⟩ : Item)], (it.lvl, c) :: counts.filter (fun p => p.1 != it.lvl))) acc).1 =
      refs acc.1 ++ refs l := by
  induction l generalizing acc with
  | nil => simp [refs]
  | cons it t ih =>
    rw [List.foldl_cons, ih]
    obtain ⟨out, counts⟩ := acc
    simp [refs]

/-- a filter renumbers positions but keeps the node sequence of what it kept -/
theorem filterPositions_refs (l : List Item) : refs (filterPositions l) = refs l := by
  unfold filterPositions
  rw [filterPositions_fold_refs]
  rfl

/-- **`P[true()]`** keeps every node, in order -/
theorem filter_true (d : Doc) (cfg : ECfg) (p : Plan) (c : Ref) (ins : List Item)
    (h : sel (F := F) d cfg p c = .ok ins) :
    ∃ out, sel (F := F) d cfg (.filter p (.func "true" .nil .pnil)) c = .ok out ∧
      refs out = refs ins := by
  refine ⟨filterPositions ins, ?_, filterPositions_refs ins⟩
  have ht := fun r => evalP_true (F := F) d cfg r
  simp only [truePlan] at ht
  rw [sel]
  simp only [h, bind, Except.bind]
  rw [mapM_ok _ (fun _ => true)]
  · simp only []
    rw [keep_all_true]
  · intro it
    simp [ht, pure, Except.pure, predDecision]

/-- `P[true()]` fails exactly when `P` does -/
theorem filter_true_error (d : Doc) (cfg : ECfg) (p : Plan) (c : Ref) (e : EErr)
    (h : sel (F := F) d cfg p c = .error e) :
    sel (F := F) d cfg (.filter p (.func "true" .nil .pnil)) c = .error e := by
  rw [sel]; simp [h, bind, Except.bind]

/-! ### `not(not(P))` vs `boolean(P)` -/

/-- at `callFn` level, on a node-set argument (what a path evaluates to) -/
theorem not_not_nodes (d : Doc) (cfg : ECfg) (fi : Plan) (c : Ref) (l : List Ref)
    (asel asel' asel'' : Option (List Ref)) :
    callFn (F := F) d cfg "not" fi c [callFn (F := F) d cfg "not" fi c [.ok (.nodes l)] asel] asel' =
      callFn (F := F) d cfg "boolean" fi c [.ok (.nodes l)] asel'' := by
  simp [callFn, asBoolM, bind, Except.bind]

/-- at `callFn` level, on a boolean argument -/
theorem not_not_bool (d : Doc) (cfg : ECfg) (fi : Plan) (c : Ref) (b : Bool)
    (asel asel' asel'' : Option (List Ref)) :
    callFn (F := F) d cfg "not" fi c [callFn (F := F) d cfg "not" fi c [.ok (.bool b)] asel] asel' =
      callFn (F := F) d cfg "boolean" fi c [.ok (.bool b)] asel'' := by
  simp [callFn, asBoolM, bind, Except.bind]

/-- a failing argument fails all three the same way -/
theorem not_not_error (d : Doc) (cfg : ECfg) (fi : Plan) (c : Ref) (e : EErr)
    (asel asel' asel'' : Option (List Ref)) :
    callFn (F := F) d cfg "not" fi c [callFn (F := F) d cfg "not" fi c [.error e] asel] asel' =
      callFn (F := F) d cfg "boolean" fi c [.error e] asel'' := by
  simp [callFn, bind, Except.bind]

theorem spec_not (d : Doc) (c : Spec.Ctx) (v : Spec.Value F) :
    Spec.callFn (F := F) d c "not" [v] = .ok (.bool (!Spec.toBool v)) := rfl

theorem spec_boolean (d : Doc) (c : Spec.Ctx) (v : Spec.Value F) :
    Spec.callFn (F := F) d c "boolean" [v] = .ok (.bool (Spec.toBool v)) := rfl

/-- oracle: `not(not(v)) = boolean(v)` for every value -/
theorem spec_not_not (d : Doc) (c : Spec.Ctx) (v : Spec.Value F) :
    (Spec.callFn (F := F) d c "not" [v] >>= fun w => Spec.callFn (F := F) d c "not" [w]) =
      Spec.callFn (F := F) d c "boolean" [v] := by
  rw [spec_not, spec_boolean]
  show Spec.callFn (F := F) d c "not" [.bool (!Spec.toBool v)] = _
  rw [spec_not]
  simp [Spec.toBool]

/-- model = oracle for `boolean(P)` and `not(not(P))` on node-sets: both are "`P` is non-empty" -/
theorem not_not_nodes_spec (d : Doc) (cfg : ECfg) (fi : Plan) (c : Ref) (sc : Spec.Ctx) (l : List Ref) :
    callFn (F := F) d cfg "not" fi c [callFn (F := F) d cfg "not" fi c [.ok (.nodes l)] none] none =
      .ok (.bool (!l.isEmpty)) ∧
    callFn (F := F) d cfg "boolean" fi c [.ok (.nodes l)] none = .ok (.bool (!l.isEmpty)) ∧
    Spec.callFn (F := F) d sc "boolean" [.nodes l] = .ok (.bool (!l.isEmpty)) := by
  refine ⟨?_, ?_, ?_⟩
  · simp [callFn, bind, Except.bind]
  · simp [callFn, asBoolM, bind, Except.bind]
  · rw [spec_boolean]; rfl

/-- at `callFn` level, on **any** argument outcome (after the repair of `notFunc`): a value of any
type — the Go `int` of `round()` makes both sides panic alike — or a failure -/
theorem not_not_any (d : Doc) (cfg : ECfg) (fi : Plan) (c : Ref) (a : Except EErr (MVal F))
    (asel asel' asel'' : Option (List Ref)) :
    callFn (F := F) d cfg "not" fi c [callFn (F := F) d cfg "not" fi c [a] asel] asel' =
      callFn (F := F) d cfg "boolean" fi c [a] asel'' := by
  rcases a with e | v
  · simp [callFn, bind, Except.bind]
  · cases v <;> simp [callFn, asBoolM, bind, Except.bind]

/-- plan level, unconditional: `not(not(P))` and `boolean(P)` evaluate alike for **every** plan `P`
(whatever it evaluates to, failures included) -/
theorem not_not_plan_spec (d : Doc) (cfg : ECfg) (fi₁ fi₂ fi₃ : Plan) (P : Plan) (c : Ref) :
    evalP (F := F) d cfg (.func "not" fi₁ (.pcons (.func "not" fi₂ (.pcons P .pnil)) .pnil)) c =
      evalP (F := F) d cfg (.func "boolean" fi₃ (.pcons P .pnil)) c := by
  rcases hP : evalP (F := F) d cfg P c with e | v
  · simp [evalP, argVals, callFn, hP, bind, Except.bind, pure, Except.pure]
  · cases v <;> simp [evalP, argVals, callFn, asBoolM, hP, bind, Except.bind, pure, Except.pure]

/-- plan level: `not(not(P))` and `boolean(P)` evaluate alike whenever `P` evaluates to a node-set
(or a boolean, or fails) — the hypothesis is not needed any more (`not_not_plan_spec`) -/
theorem not_not_plan (d : Doc) (cfg : ECfg) (fi₁ fi₂ fi₃ : Plan) (P : Plan) (c : Ref)
    (_h : (∃ l, evalP (F := F) d cfg P c = .ok (.nodes l)) ∨ (∃ b, evalP (F := F) d cfg P c = .ok (.bool b)) ∨
      (∃ e, evalP (F := F) d cfg P c = .error e)) :
    evalP (F := F) d cfg (.func "not" fi₁ (.pcons (.func "not" fi₂ (.pcons P .pnil)) .pnil)) c =
      evalP (F := F) d cfg (.func "boolean" fi₃ (.pcons P .pnil)) c :=
  not_not_plan_spec d cfg fi₁ fi₂ fi₃ P c

/-- `not(not(number))` is `boolean(number)`: "non-zero and not NaN" (replaces `not_not_num_is_true`,
which recorded that the defective `notFunc` made `not(not(v))` true for every number) -/
theorem not_not_num_spec (d : Doc) (cfg : ECfg) (fi : Plan) (c : Ref) (x : F) :
    callFn (F := F) d cfg "not" fi c [callFn (F := F) d cfg "not" fi c [.ok (.num x)] none] none =
      .ok (.bool (Spec.toBool (F := F) (.num x))) ∧
    callFn (F := F) d cfg "boolean" fi c [.ok (.num x)] none = .ok (.bool (Spec.toBool (F := F) (.num x))) := by
  constructor <;> simp [callFn, asBoolM, Spec.toBool, bind, Except.bind]

/-- `not(not(string))` is `boolean(string)`: "non-empty" -/
theorem not_not_str_spec (d : Doc) (cfg : ECfg) (fi : Plan) (c : Ref) (s : String) :
    callFn (F := F) d cfg "not" fi c [callFn (F := F) d cfg "not" fi c [.ok (.str s)] none] none =
      .ok (.bool (Spec.toBool (F := F) (.str s))) ∧
    callFn (F := F) d cfg "boolean" fi c [.ok (.str s)] none = .ok (.bool (Spec.toBool (F := F) (.str s))) := by
  constructor <;> simp [callFn, asBoolM, Spec.toBool, bind, Except.bind]

end XPathV.Compose

/-! ## Axiom audit -/
section AxiomAudit
open XPathV.Compose
end AxiomAudit
