import XPathV.Lemmas.PredSem2.Build
import XPathV.Lemmas.SourceConfig
/-!
# C02, extension — function calls inside predicates and parenthesised filter inputs

`PredSem` proves C02 for the fragment `Frag` (existence tests, path `=`/`!=` string literal, path
`op` number literal, `not`, `and`, `or`, nested).  This module extends the fragment to `Frag2`
(`PredSem2/Frag.lean`) — the remaining predicate forms of the property's list and the parenthesised
filter input — and re-proves the end-to-end statements for `build`:

* `count(P) op n`, `n op count(P)`                                     (six comparison operators)
* `contains(S, 'lit')`, `starts-with(S, 'lit')`, `ends-with(S, 'lit')`  with
  `S ∈ { 'literal', local-name(), local-name(P), P }`
* (after the repair of `containsFunc`/`startwithFunc`/`endwithFunc`: the second argument is read like
  the first) `contains(P, Q)`, `contains('lit', Q)` … with a flat path `Q` in *second* position
* (after the repair of `notFunc`: `not` of a number is `not(boolean(…))`) `not(count(P))`
* `local-name() = 'lit'`, `local-name() != 'lit'`, `local-name(P) = 'lit'`, `local-name(P) != 'lit'`
* `(P)[b]`  (and `(P)[b1][b2]…`, `(P)[b]/step…`)
* a path compared with a path, all six operators: `P op Q` (`//a[b = c]`, `//a[@x != ../@y]`,
  `//a[b < c/d]`), `P` and `Q` any paths of the fragment (no flatness requirement: the comparison is
  existential over the two node sets).  The relational operators joined after the repair of
  `cmpStringStringF` (it compared string-values byte-wise: `<b>10</b>` < `<c>9</c>`)
* a path compared with a string literal, all six operators, either side: `P op 'lit'`, `'lit' op P`
  (after the repairs of `cmpStringStringF` and `cmpNodeSetString`)

**Restriction, stated in the fragment**: a path `P` that is the *argument of a function*
(`count(P)`, `local-name(P)`, `contains(P, …)`) is a flat path — `child`/`attribute`/`self` steps
from the context node or the root, with any predicates of the fragment on any step
(`FlatFiltered.FlatAny P`).  Reason: the engine gives a function the *sequence* it selected
(`count` its length, `local-name` and the string functions its first element), the oracle the
node-set in document order; the two coincide when the sequence is duplicate-free and in document
order, which `FlatFiltered.flatAny_sorted` proves for flat paths (for every plan `build` makes,
merge form included) and which fails in general (e.g. `count(a/following::b)` counts a node once per
origin).  A bare `count(P)` in predicate position is a number, i.e. a positional predicate, and is
not in the fragment.  Paths in every other position (`P[b]`, `(P)[b]`, existence tests, comparisons
of a path with a literal) range over all twelve axes as before.

Helper files under `XPathV/Lemmas/PredSem2/`:

* `Truth`    — `SeqOK`, `StrValOK`, `StrArgOK`, the truth lemmas `predOK_count*`, `predOK_notCount`, `predOK_strTest`, `predOK_strTest2`,
               `predOK_strCmp`, `strValOK_localName*`, `pathOK_group`
* `Frag`     — `predPlan2`, `Frag2`, `frag_sem2`, `pred_truth2`, `C02_naive2`,
               `C02_filter_keeps_true2`, `C02_gfilter_keeps_true2`
* `BuildInv` — `build_call_inv2` and its instances, `build_group_inv`
* `Build`    — `build_frag2` (induction over the fragment for `build`)

Standing assumptions as for C01/C02: `WF d`, `cfg.nsIface = true`, `HashInj d cfg`; the builder
runs with the `//name` shortcut guarded by the node test and `smartDescThroughFilter = false`.
-/
namespace XPathV.PredSem2
open XPathV XPathV.Model XPathV.PathSem XPathV.PredSem

variable {F : Type} [NumAlg F]

/-- **C02 for `build`, extended fragment**: for every well-formed document, every valid context node
and every path of `Frag2` the plan the builder produces, with all its rewrites, yields exactly the
XPath 1.0 node-set of the path; neither side fails -/
theorem C02_main2 {d : Doc} (wf : WF d) (cfg : ECfg) (hns : cfg.nsIface = true)
    (hinj : HashInj d cfg) (regexOk : RegexOk) (limit : Nat) (p : Ast) (hp : Frag2 true p)
    (st : BState) (o : BOut) (hb : build regexOk limit true false p {} st = .ok o)
    (c : Ref) (hc : validRef d c = true) :
    ∃ out ns g, sel (F := F) d cfg o.q c = .ok out ∧
      Spec.eval (F := F) d p ⟨c, 1, 1⟩ = .ok (.val (.nodes ns) g) ∧
      ∀ x, x ∈ refs out ↔ x ∈ ns := by
  obtain ⟨_, _, hrel⟩ :=
    ((build_frag2 (F := F) wf cfg hns hinj regexOk limit true p hp).1 rfl).1 {} st o hb
  obtain ⟨out, nv, h1, h2, _, heq, _⟩ := hrel c hc
  obtain ⟨nv', ns, g, h2', hev, hmem, _⟩ := C02_naive2 (F := F) wf cfg hns hinj p hp c hc
  rw [h2] at h2'; cases h2'
  exact ⟨out, ns, g, h1, hev, fun x => (heq rfl x).trans (hmem x)⟩

/-- `C02_main` is the restriction of `C02_main2` to the old fragment -/
theorem C02_main_of_main2 {d : Doc} (wf : WF d) (cfg : ECfg) (hns : cfg.nsIface = true)
    (hinj : HashInj d cfg) (regexOk : RegexOk) (limit : Nat) (p : Ast) (hp : Frag true p)
    (st : BState) (o : BOut) (hb : build regexOk limit true false p {} st = .ok o)
    (c : Ref) (hc : validRef d c = true) :
    ∃ out ns g, sel (F := F) d cfg o.q c = .ok out ∧
      Spec.eval (F := F) d p ⟨c, 1, 1⟩ = .ok (.val (.nodes ns) g) ∧
      ∀ x, x ∈ refs out ↔ x ∈ ns :=
  C02_main2 wf cfg hns hinj regexOk limit p (frag2_of_frag true p hp) st o hb c hc

/-- C02 (extended) against the top-level oracle `evalTop` -/
theorem C02_evalTop2 {d : Doc} (wf : WF d) (cfg : ECfg) (hns : cfg.nsIface = true)
    (hinj : HashInj d cfg) (regexOk : RegexOk) (limit : Nat) (p : Ast) (hp : Frag2 true p)
    (st : BState) (o : BOut) (hb : build regexOk limit true false p {} st = .ok o)
    (c : Ref) (hc : validRef d c = true) :
    ∃ out ns, sel (F := F) d cfg o.q c = .ok out ∧
      Spec.evalTop (F := F) d p c = .ok (.nodes ns) ∧ ∀ x, x ∈ refs out ↔ x ∈ ns := by
  obtain ⟨out, ns, g, h1, h2, h3⟩ := C02_main2 (F := F) wf cfg hns hinj regexOk limit p hp st o hb c hc
  refine ⟨out, ns, h1, ?_, h3⟩
  simp [Spec.evalTop, h2, bind, Except.bind, pure, Except.pure, Spec.Res.value]

/-- C02 (extended) at the configuration the model reads off the source -/
theorem C02_source_config2 {d : Doc} (wf : WF d) (cfg : ECfg) (hns : cfg.nsIface = true)
    (hinj : HashInj d cfg) (regexOk : RegexOk) (limit : Nat) (p : Ast) (hp : Frag2 true p) (o : BOut)
    (hb : build regexOk limit shortcutNeedsNodeTestFromSource smartDescThroughFilterFromSource p {} {} = .ok o)
    (c : Ref) (hc : validRef d c = true) :
    ∃ out ns, sel (F := F) d cfg o.q c = .ok out ∧
      Spec.evalTop (F := F) d p c = .ok (.nodes ns) ∧ ∀ x, x ∈ refs out ↔ x ∈ ns := by
  rw [Lemmas.SourceConfig.shortcut_guard_from_source,
    Lemmas.SourceConfig.smartdesc_stops_at_filters_from_source] at hb
  exact C02_evalTop2 wf cfg hns hinj regexOk limit p hp {} o hb c hc

/-- **truth of a built predicate** (task item 2, through the builder): every plan `build` makes of a
predicate of `Frag2` — whatever the flags and builder state — evaluates, at every valid node and
whatever the context position/size, to a boolean or a node-set (never a number) whose truth is
`boolean()` of the oracle's value, which is not a number either -/
theorem built_pred_truth2 {d : Doc} (wf : WF d) (cfg : ECfg) (hns : cfg.nsIface = true)
    (hinj : HashInj d cfg) (regexOk : RegexOk) (limit : Nat) (b : Ast) (hb : Frag2 false b)
    (fl : Flags) (st : BState) (o : BOut) (hbuild : build regexOk limit true false b fl st = .ok o)
    (c : Ref) (hc : validRef d c = true) (pos size : Nat) :
    ∃ v sv g, evalP (F := F) d cfg o.q c = .ok v ∧
      Spec.eval (F := F) d b ⟨c, pos, size⟩ = .ok (.val sv g) ∧
      truthM v = Spec.toBool sv ∧ IsBN v ∧ NotNum sv := by
  obtain ⟨_, hr⟩ := ((build_frag2 (F := F) wf cfg hns hinj regexOk limit false b hb).2 rfl) fl st o hbuild
  obtain ⟨v, sv, g, hE, hS, hbn, hnn, htr⟩ := hr ⟨c, pos, size⟩ hc
  exact ⟨v, sv, g, hE, hS, htr, hbn, hnn⟩

/-- **C02 for `build`, the property itself, extended fragment**: the built plan of `p[b]` selects
exactly the nodes the built plan of `p` selects at which `b` is true (`holds`: `boolean()` of the
oracle's value of `b` at that node) — and these are the oracle's node sets of `p[b]` and `p` -/
theorem C02_keeps_true2 {d : Doc} (wf : WF d) (cfg : ECfg) (hns : cfg.nsIface = true)
    (hinj : HashInj d cfg) (regexOk : RegexOk) (limit : Nat) (p b : Ast) (hp : Frag2 true p)
    (hb : Frag2 false b) (st0 st : BState) (o0 o : BOut)
    (hb0 : build regexOk limit true false p {} st0 = .ok o0)
    (hb1 : build regexOk limit true false (.filter p b) {} st = .ok o)
    (c : Ref) (hc : validRef d c = true) :
    ∃ out0 ns0 g0 out ns g,
      sel (F := F) d cfg o0.q c = .ok out0 ∧
      Spec.eval (F := F) d p ⟨c, 1, 1⟩ = .ok (.val (.nodes ns0) g0) ∧
      (∀ x, x ∈ refs out0 ↔ x ∈ ns0) ∧
      sel (F := F) d cfg o.q c = .ok out ∧
      Spec.eval (F := F) d (.filter p b) ⟨c, 1, 1⟩ = .ok (.val (.nodes ns) g) ∧
      (∀ x, x ∈ refs out ↔ x ∈ ns) ∧
      (∀ x, x ∈ refs out ↔ x ∈ refs out0 ∧ holds (F := F) d b x = true) ∧
      (∀ x, x ∈ ns ↔ x ∈ ns0 ∧ holds (F := F) d b x = true) := by
  obtain ⟨out0, ns0, g0, hs0, he0, hm0⟩ :=
    C02_main2 (F := F) wf cfg hns hinj regexOk limit p hp st0 o0 hb0 c hc
  obtain ⟨out, ns, g, hs, he, hm⟩ :=
    C02_main2 (F := F) wf cfg hns hinj regexOk limit (.filter p b) (.filter p b hp hb) st o hb1 c hc
  obtain ⟨_, ns0', _, _, ns', _, _, he0', _, _, he', _, hchar, _⟩ :=
    C02_filter_keeps_true2 (F := F) wf cfg hns hinj p b hp hb c hc
  rw [he0] at he0'; cases he0'
  rw [he] at he'; cases he'
  refine ⟨out0, ns0, g0, out, ns, g, hs0, he0, hm0, hs, he, hm, fun x => ?_, hchar⟩
  rw [hm, hchar, hm0]

/-- the same for a parenthesised path: the built plan of `(p)[b]` selects exactly the nodes the
built plan of `p` selects at which `b` is true -/
theorem C02_keeps_true2_group {d : Doc} (wf : WF d) (cfg : ECfg) (hns : cfg.nsIface = true)
    (hinj : HashInj d cfg) (regexOk : RegexOk) (limit : Nat) (p b : Ast) (hp : Frag2 true p)
    (hb : Frag2 false b) (st0 st : BState) (o0 o : BOut)
    (hb0 : build regexOk limit true false p {} st0 = .ok o0)
    (hb1 : build regexOk limit true false (.filter (.group p) b) {} st = .ok o)
    (c : Ref) (hc : validRef d c = true) :
    ∃ out0 ns0 g0 out ns g,
      sel (F := F) d cfg o0.q c = .ok out0 ∧
      Spec.eval (F := F) d p ⟨c, 1, 1⟩ = .ok (.val (.nodes ns0) g0) ∧
      (∀ x, x ∈ refs out0 ↔ x ∈ ns0) ∧
      sel (F := F) d cfg o.q c = .ok out ∧
      Spec.eval (F := F) d (.filter (.group p) b) ⟨c, 1, 1⟩ = .ok (.val (.nodes ns) g) ∧
      (∀ x, x ∈ refs out ↔ x ∈ ns) ∧
      (∀ x, x ∈ refs out ↔ x ∈ refs out0 ∧ holds (F := F) d b x = true) ∧
      (∀ x, x ∈ ns ↔ x ∈ ns0 ∧ holds (F := F) d b x = true) := by
  obtain ⟨out0, ns0, g0, hs0, he0, hm0⟩ :=
    C02_main2 (F := F) wf cfg hns hinj regexOk limit p hp st0 o0 hb0 c hc
  obtain ⟨out, ns, g, hs, he, hm⟩ :=
    C02_main2 (F := F) wf cfg hns hinj regexOk limit (.filter (.group p) b) (.gfilter p b hp hb)
      st o hb1 c hc
  obtain ⟨_, ns0', _, _, ns', _, _, he0', _, _, he', _, hchar, _⟩ :=
    C02_gfilter_keeps_true2 (F := F) wf cfg hns hinj p b hp hb c hc
  rw [he0] at he0'; cases he0'
  rw [he] at he'; cases he'
  refine ⟨out0, ns0, g0, out, ns, g, hs0, he0, hm0, hs, he, hm, fun x => ?_, hchar⟩
  rw [hm, hchar, hm0]

/-! ## Non-vacuity: the builder succeeds on the new forms; plain filter, merge form and group -/

section Examples

private def ch (n : String) : AxisInfo := ⟨"child", .elem, "", n, "", false, ""⟩
private def at' (n : String) : AxisInfo := ⟨"attribute", .attr, "", n, "", false, ""⟩

/-- `/a/b[count(c) >= 2]` as the parser produces it -/
def exCount : Ast :=
  .filter (.axis (ch "b") (.axis (ch "a") (.root "/")))
    (.oper ">=" (.call "count" "" (.acons (.axis (ch "c") .none) .anil)) (.num "2"))

theorem exCount_frag : Frag2 true exCount :=
  .filter _ _ (.axis _ _ (.axis _ _ (.root _) (by simp [axes12, ch])) (by simp [axes12, ch]))
    (.countR _ _ _ _ (by simp [cmpOps]) (.axis _ _ .none (by simp [axes12, ch]))
      (.axis _ _ (by simp [ArithSem.flatAxes, ch]) .none))

/-- a comparison is boolean-typed: the plain filter -/
theorem exCount_build : (build (fun _ => true) 100 true false exCount {} {}).map (·.q) =
    .ok (.filter (.child (ch "b") (.child (ch "a") .absolute))
      (.logical ">=" (.func "count" .nil (.pcons (.child (ch "c") .context) .pnil))
        (.constNum "2"))) := rfl

/-- `/a/b[contains(@id, 'x')]` -/
def exContains : Ast :=
  .filter (.axis (ch "b") (.axis (ch "a") (.root "/")))
    (.call "contains" "" (.acons (.axis (at' "id") .none) (.acons (.str "x") .anil)))

theorem exContains_frag : Frag2 true exContains :=
  .filter _ _ (.axis _ _ (.axis _ _ (.root _) (by simp [axes12, ch])) (by simp [axes12, ch]))
    (.strPath _ _ _ _ (by simp [strTests]) (.axis _ _ .none (by simp [axes12, at']))
      (.axis _ _ (by simp [ArithSem.flatAxes, at']) .none))

/-- a function call is "any"-typed: the builder makes the merge form -/
theorem exContains_build : (build (fun _ => true) 100 true false exContains {} {}).map (·.q) =
    .ok (.merge (.child (ch "a") .absolute)
      (.filter (.child (ch "b") .context)
        (.func "contains" .nil
          (.pcons (.attr (at' "id") .context) (.pcons (.constStr "x") .pnil))))) := rfl

/-- `(/a/b)[starts-with(local-name(), 'b')][local-name(c) != 'd']/c` -/
def exGroup : Ast :=
  .axis (ch "c") (.filter (.filter (.group (.axis (ch "b") (.axis (ch "a") (.root "/"))))
      (.call "starts-with" "" (.acons (.call "local-name" "" .anil) (.acons (.str "b") .anil))))
    (.oper "!=" (.call "local-name" "" (.acons (.axis (ch "c") .none) .anil)) (.str "d")))

theorem exGroup_frag : Frag2 true exGroup :=
  .axis _ _ (.filter _ _
    (.gfilter _ _ (.axis _ _ (.axis _ _ (.root _) (by simp [axes12, ch])) (by simp [axes12, ch]))
      (.strLn _ _ _ _ (by simp [strTests])))
    (.lnPathCmp _ _ _ _ (by simp [eqOps]) (.axis _ _ .none (by simp [axes12, ch]))
      (.axis _ _ (by simp [ArithSem.flatAxes, ch]) .none)))
    (by simp [axes12, ch])

theorem exGroup_build : (build (fun _ => true) 100 true false exGroup {} {}).map (·.q) =
    .ok (.child (ch "c") (.filter (.filter (.group (.child (ch "b") (.child (ch "a") .absolute)))
        (.func "starts-with" .nil
          (.pcons (.func "local-name" .nil .pnil) (.pcons (.constStr "b") .pnil))))
      (.logical "!=" (.func "local-name" .nil (.pcons (.child (ch "c") .context) .pnil))
        (.constStr "d")))) := rfl

/-- `/a/b[c = @d]`: a path compared with a path -/
def exCmpPath : Ast :=
  .filter (.axis (ch "b") (.axis (ch "a") (.root "/")))
    (.oper "=" (.axis (ch "c") .none) (.axis (at' "d") .none))

theorem exCmpPath_frag : Frag2 true exCmpPath :=
  .filter _ _ (.axis _ _ (.axis _ _ (.root _) (by simp [axes12, ch])) (by simp [axes12, ch]))
    (.cmpPath _ _ _ (by simp [cmpOps]) (.axis _ _ .none (by simp [axes12, ch]))
      (.axis _ _ .none (by simp [axes12, at'])))

/-- a comparison is boolean-typed: the plain filter, both operands built from the context node -/
theorem exCmpPath_build : (build (fun _ => true) 100 true false exCmpPath {} {}).map (·.q) =
    .ok (.filter (.child (ch "b") (.child (ch "a") .absolute))
      (.logical "=" (.child (ch "c") .context) (.attr (at' "d") .context))) := rfl

/-- the main theorem applied: no hypothesis left but the standing ones -/
example {d : Doc} (wf : WF d) (cfg : ECfg) (hns : cfg.nsIface = true) (hinj : HashInj d cfg)
    (c : Ref) (hc : validRef d c = true) :
    ∃ out ns, sel (F := F) d cfg (.merge (.child (ch "a") .absolute)
        (.filter (.child (ch "b") .context)
          (.func "contains" .nil
            (.pcons (.attr (at' "id") .context) (.pcons (.constStr "x") .pnil))))) c = .ok out ∧
      Spec.evalTop (F := F) d exContains c = .ok (.nodes ns) ∧ ∀ x, x ∈ refs out ↔ x ∈ ns := by
  cases hb : build (fun _ => true) 100 true false exContains {} {} with
  | error e => have := exContains_build; rw [hb] at this; cases this
  | ok o =>
    have hq := exContains_build; rw [hb] at hq
    simp only [Except.map, Except.ok.injEq] at hq
    rw [← hq]
    exact C02_evalTop2 wf cfg hns hinj _ 100 exContains exContains_frag {} o hb c hc

end Examples

end XPathV.PredSem2

/-! ## Axiom audit -/
section AxiomAudit
open XPathV.PredSem2
end AxiomAudit
