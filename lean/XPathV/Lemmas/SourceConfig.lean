import XPathV.Model.Api
import XPathV.Spec.Grammar
/-!
# The model configuration that is read off the current source (regenerated facts)
-/
namespace XPathV.Lemmas.SourceConfig
open XPathV XPathV.Model

/-- F4: the `//name` shortcut is guarded by the node test of the `descendant-or-self` step -/
theorem shortcut_guard_from_source : shortcutNeedsNodeTestFromSource = true := by decide +kernel

/-- F4: SmartDesc does not travel through filters -/
theorem smartdesc_stops_at_filters_from_source : smartDescThroughFilterFromSource = false := by decide +kernel

/-- F6: the stage list computed from the regenerated precedence chain is the Recommendation's tier list -/
theorem stages_are_xpath_tiers :
    stages = (Spec.Grammar.upperTiers.map Stage.tier) ++ [Stage.unary] ++ (Spec.Grammar.lowerTiers.map Stage.tier) := by
  decide

end XPathV.Lemmas.SourceConfig
