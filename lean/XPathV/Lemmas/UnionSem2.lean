import XPathV.Lemmas.UnionSem
import XPathV.Lemmas.PredSem2
/-!
# C11 — union over the extended fragment `PredSem2.Frag2`

`UnionSem` proves the union theorems for operands of `PredSem.Frag true`.  The C02 fragment has grown
to `PredSem2.Frag2` (count / contains / local-name forms, `(P)[b]`, path-vs-path and path-vs-string
comparisons with the six operators); this module lifts every statement of `UnionSem` about operands
to `Frag2 true`:

* `operand_sem2` — C02 for one operand of `Frag2 true` (`C02_main2` + validity from `C02_naive2`)
* `C11_main2`, `C11_evalTop2` — `A | B`
* `UnionF2`, `unionF2_sem`, `C11_nary2` — any nesting of `|`, in particular the left-nested n-ary form
* `StepOK2`, `step_compose2`, `C11_sequence2` — the sequence form `p/(s₁, s₂, …)` with members whose
  predicates are in `Frag2 false`

The plan-level part (`union_combine`, `build_union_inv`, `eval_union`) is independent of the
fragment and reused as it is.  Standing assumptions as before: `WF d`, `cfg.nsIface = true`,
`HashInj d cfg`.
-/
namespace XPathV.UnionSem2
open XPathV XPathV.Model XPathV.PathSem XPathV.PredSem XPathV.PredSem2 XPathV.UnionSem

variable {F : Type} [NumAlg F]

/-! ## one operand -/

/-- C02 (extended fragment) for one operand, with the validity of the oracle's nodes -/
theorem operand_sem2 {d : Doc} (wf : WF d) (cfg : ECfg) (hns : cfg.nsIface = true)
    (hinj : HashInj d cfg) (regexOk : RegexOk) (limit : Nat) (p : Ast) (hp : Frag2 true p)
    (st : BState) (o : BOut) (hb : build regexOk limit true false p {} st = .ok o)
    (c : Ref) (hc : validRef d c = true) :
    ∃ out ns g, sel (F := F) d cfg o.q c = .ok out ∧
      Spec.eval (F := F) d p ⟨c, 1, 1⟩ = .ok (.val (.nodes ns) g) ∧
      (∀ x, x ∈ refs out ↔ x ∈ ns) ∧ (∀ x ∈ ns, validRef d x = true) := by
  obtain ⟨out, ns, g, h1, h2, h3⟩ := C02_main2 (F := F) wf cfg hns hinj regexOk limit p hp st o hb c hc
  obtain ⟨_, ns', g', _, h2', _, hv⟩ := C02_naive2 (F := F) wf cfg hns hinj p hp c hc
  rw [h2] at h2'; cases h2'
  exact ⟨out, ns, g, h1, h2, h3, hv⟩

/-- the validity of the oracle's nodes of an operand, in terms of `nodesAt` -/
theorem nodesAt_valid2 {d : Doc} (wf : WF d) (cfg : ECfg) (hns : cfg.nsIface = true)
    (hinj : HashInj d cfg) (p : Ast) (hp : Frag2 true p) (c : Ref) (hc : validRef d c = true) :
    ∀ n ∈ nodesAt d F p c, validRef d n = true := by
  obtain ⟨_, ns, g, _, he, _, hv⟩ := C02_naive2 (F := F) wf cfg hns hinj p hp c hc
  rw [nodesAt_eq d _ c ns g he]; exact hv

/-! ## `A | B` -/

section Main
variable {d : Doc} (wf : WF d) (cfg : ECfg) (hns : cfg.nsIface = true) (hinj : HashInj d cfg)
  (regexOk : RegexOk) (limit : Nat)
include wf hns hinj

/-- **C11 for `build`, extended fragment**: as `UnionSem.C11_main`, operands in `Frag2 true` -/
theorem C11_main2 (A B : Ast) (hA : Frag2 true A) (hB : Frag2 true B) (fl : Flags)
    (st : BState) (o : BOut) (hb : build regexOk limit true false (.oper "|" A B) fl st = .ok o)
    (c : Ref) (hc : validRef d c = true) :
    ∃ out nsA gA nsB gB nsU,
      sel (F := F) d cfg o.q c = .ok out ∧ (refs out).Nodup ∧
      Spec.eval (F := F) d A ⟨c, 1, 1⟩ = .ok (.val (.nodes nsA) gA) ∧
      Spec.eval (F := F) d B ⟨c, 1, 1⟩ = .ok (.val (.nodes nsB) gB) ∧
      (∀ x, x ∈ refs out ↔ x ∈ nsA ∨ x ∈ nsB) ∧
      Spec.eval (F := F) d (.oper "|" A B) ⟨c, 1, 1⟩ = .ok (.val (.nodes nsU) none) ∧
      nsU.Nodup ∧ (∀ x, x ∈ nsU ↔ x ∈ nsA ∨ x ∈ nsB) ∧ (∀ x, x ∈ refs out ↔ x ∈ nsU) := by
  obtain ⟨st1, lo, ro, hlo, hro, hq, _⟩ := build_union_inv regexOk limit true false A B fl st o hb
  obtain ⟨oa, na, ga, hsa, hea, hma, hva⟩ :=
    operand_sem2 (F := F) wf cfg hns hinj regexOk limit A hA st1 lo hlo c hc
  obtain ⟨ob, nb, gb, hsb, heb, hmb, hvb⟩ :=
    operand_sem2 (F := F) wf cfg hns hinj regexOk limit B hB lo.st ro hro c hc
  obtain ⟨out, ho, hnd, hmem, heu, hund, hum, hou⟩ :=
    union_combine (F := F) d cfg hinj lo.q ro.q A B c oa ob na nb ga gb hsa hsb hea heb hma hmb hva hvb
  rw [hq]
  exact ⟨out, na, ga, nb, gb, _, ho, hnd, hea, heb, hmem, heu, hund, hum, hou⟩

/-- `C11_main2` against the top-level oracle `evalTop`, the operands' node-sets written as `nodesAt` -/
theorem C11_evalTop2 (A B : Ast) (hA : Frag2 true A) (hB : Frag2 true B)
    (st : BState) (o : BOut) (hb : build regexOk limit true false (.oper "|" A B) {} st = .ok o)
    (c : Ref) (hc : validRef d c = true) :
    ∃ out nsU, sel (F := F) d cfg o.q c = .ok out ∧ (refs out).Nodup ∧
      Spec.evalTop (F := F) d (.oper "|" A B) c = .ok (.nodes nsU) ∧ nsU.Nodup ∧
      (∀ x, x ∈ refs out ↔ x ∈ nodesAt d F A c ∨ x ∈ nodesAt d F B c) ∧
      (∀ x, x ∈ nsU ↔ x ∈ nodesAt d F A c ∨ x ∈ nodesAt d F B c) := by
  obtain ⟨out, nsA, gA, nsB, gB, nsU, h1, h2, h3, h4, h5, h6, h7, h8, _⟩ :=
    C11_main2 (F := F) wf cfg hns hinj regexOk limit A B hA hB {} st o hb c hc
  refine ⟨out, nsU, h1, h2, ?_, h7, ?_, ?_⟩
  · simp [Spec.evalTop, h6, bind, Except.bind, pure, Except.pure, Spec.Res.value]
  · rw [nodesAt_eq d A c nsA gA h3, nodesAt_eq d B c nsB gB h4]; exact h5
  · rw [nodesAt_eq d A c nsA gA h3, nodesAt_eq d B c nsB gB h4]; exact h8

end Main

/-! ## any nesting of `|` -/

/-- unions of paths of the extended fragment, nested in any way -/
inductive UnionF2 : Ast → Prop
  | leaf (p : Ast) : Frag2 true p → UnionF2 p
  | union (l r : Ast) : UnionF2 l → UnionF2 r → UnionF2 (.oper "|" l r)

/-- `UnionF` is the restriction of `UnionF2` to the old fragment -/
theorem unionF2_of_unionF (e : Ast) (h : UnionF e) : UnionF2 e := by
  induction h with
  | leaf p hp => exact .leaf p (frag2_of_frag true p hp)
  | union l r _ _ ihl ihr => exact .union l r ihl ihr

theorem leaves_frag2 (p : Ast) (hp : Frag2 true p) : leaves p = [p] := by
  cases hp <;> rfl

theorem unionF2_foldl (ps : List Ast) (hps : ∀ q ∈ ps, Frag2 true q) :
    ∀ acc, UnionF2 acc → UnionF2 (unionOf acc ps) := by
  induction ps with
  | nil => exact fun acc h => h
  | cons q qs ih =>
    intro acc h
    exact ih (fun x hx => hps x (List.mem_cons_of_mem _ hx)) _
      (.union acc q h (.leaf q (hps q List.mem_cons_self)))

theorem unionOf_unionF2 (p : Ast) (ps : List Ast) (hp : Frag2 true p)
    (hps : ∀ q ∈ ps, Frag2 true q) : UnionF2 (unionOf p ps) :=
  unionF2_foldl ps hps p (.leaf p hp)

theorem leaves_foldl2 (ps : List Ast) (hps : ∀ q ∈ ps, Frag2 true q) :
    ∀ acc, leaves (unionOf acc ps) = leaves acc ++ ps := by
  induction ps with
  | nil => intro acc; simp [unionOf]
  | cons q qs ih =>
    intro acc
    have := ih (fun x hx => hps x (List.mem_cons_of_mem _ hx)) (.oper "|" acc q)
    rw [leaves_union, leaves_frag2 q (hps q List.mem_cons_self)] at this
    simpa [unionOf] using this

theorem leaves_unionOf2 (p : Ast) (ps : List Ast) (hp : Frag2 true p)
    (hps : ∀ q ∈ ps, Frag2 true q) : leaves (unionOf p ps) = p :: ps := by
  rw [leaves_foldl2 ps hps, leaves_frag2 p hp]; rfl

section Nary
variable {d : Doc} (wf : WF d) (cfg : ECfg) (hns : cfg.nsIface = true) (hinj : HashInj d cfg)
  (regexOk : RegexOk) (limit : Nat)
include wf hns hinj

/-- the induction over a union tree with leaves in `Frag2 true`: the built plan and the oracle agree,
the members are the nodes of the leaves, and a proper union yields no node twice -/
theorem unionF2_sem (e : Ast) (he : UnionF2 e) :
    ∀ (st : BState) (o : BOut), build regexOk limit true false e {} st = .ok o →
    ∀ c, validRef d c = true →
    ∃ out ns g, sel (F := F) d cfg o.q c = .ok out ∧
      Spec.eval (F := F) d e ⟨c, 1, 1⟩ = .ok (.val (.nodes ns) g) ∧
      (∀ x, x ∈ refs out ↔ x ∈ ns) ∧ (∀ x ∈ ns, validRef d x = true) ∧
      (∀ x, x ∈ ns ↔ ∃ p ∈ leaves e, x ∈ nodesAt d F p c) ∧
      ((∃ l r, e = .oper "|" l r) → (refs out).Nodup ∧ ns.Nodup) := by
  induction he with
  | leaf p hp =>
    intro st o hb c hc
    obtain ⟨out, ns, g, h1, h2, h3, h4⟩ :=
      operand_sem2 (F := F) wf cfg hns hinj regexOk limit p hp st o hb c hc
    refine ⟨out, ns, g, h1, h2, h3, h4, fun x => ?_, ?_⟩
    · rw [leaves_frag2 p hp]
      simp only [List.mem_cons, List.not_mem_nil, or_false, exists_eq_left,
        nodesAt_eq d p c ns g h2]
    · rintro ⟨l, r, rfl⟩; cases hp
  | union l r _ _ ihl ihr =>
    intro st o hb c hc
    obtain ⟨st1, lo, ro, hlo, hro, hq, _⟩ := build_union_inv regexOk limit true false l r {} st o hb
    obtain ⟨oa, na, ga, hsa, hea, hma, hva, hla, _⟩ := ihl st1 lo hlo c hc
    obtain ⟨ob, nb, gb, hsb, heb, hmb, hvb, hlb, _⟩ := ihr lo.st ro hro c hc
    obtain ⟨out, ho, hnd, hmem, heu, hund, hum, hou⟩ :=
      union_combine (F := F) d cfg hinj lo.q ro.q l r c oa ob na nb ga gb hsa hsb hea heb hma hmb hva hvb
    rw [hq]
    refine ⟨out, _, none, ho, heu, hou, fun x hx => ?_, fun x => ?_, fun _ => ⟨hnd, hund⟩⟩
    · rcases (hum x).1 hx with h | h
      · exact hva x h
      · exact hvb x h
    · rw [hum, hla, hlb, leaves_union]
      simp only [List.mem_append]
      constructor
      · rintro (⟨p, hp, hx⟩ | ⟨p, hp, hx⟩)
        · exact ⟨p, Or.inl hp, hx⟩
        · exact ⟨p, Or.inr hp, hx⟩
      · rintro ⟨p, hp | hp, hx⟩
        · exact Or.inl ⟨p, hp, hx⟩
        · exact Or.inr ⟨p, hp, hx⟩

/-- **C11, n-ary, extended fragment**: as `UnionSem.C11_nary`, operands in `Frag2 true` -/
theorem C11_nary2 (p : Ast) (ps : List Ast) (hp : Frag2 true p) (hps : ∀ q ∈ ps, Frag2 true q)
    (hne : ps ≠ []) (st : BState) (o : BOut)
    (hb : build regexOk limit true false (unionOf p ps) {} st = .ok o)
    (c : Ref) (hc : validRef d c = true) :
    ∃ out ns g, sel (F := F) d cfg o.q c = .ok out ∧ (refs out).Nodup ∧
      Spec.eval (F := F) d (unionOf p ps) ⟨c, 1, 1⟩ = .ok (.val (.nodes ns) g) ∧ ns.Nodup ∧
      (∀ x, x ∈ refs out ↔ ∃ q ∈ p :: ps, x ∈ nodesAt d F q c) ∧
      (∀ x, x ∈ ns ↔ ∃ q ∈ p :: ps, x ∈ nodesAt d F q c) := by
  obtain ⟨out, ns, g, h1, h2, h3, _, h5, h6⟩ :=
    unionF2_sem (F := F) wf cfg hns hinj regexOk limit _ (unionOf_unionF2 p ps hp hps) st o hb c hc
  rw [leaves_unionOf2 p ps hp hps] at h5
  have htop : ∃ l r, unionOf p ps = .oper "|" l r := by
    rcases List.eq_nil_or_concat ps with h | ⟨ps', q, h⟩
    · exact absurd h hne
    · rw [h, List.concat_eq_append, unionOf_concat]; exact ⟨_, _, rfl⟩
  obtain ⟨hnd, hnd'⟩ := h6 htop
  exact ⟨out, ns, g, h1, hnd, h2, hnd', fun x => (h3 x).trans (h5 x), h5⟩

end Nary

/-! ## the sequence form `p/(s₁, s₂, …)` -/

/-- a member of the extended fragment: one of the twelve axes, predicates of `Frag2 false` -/
def StepOK2 (s : SeqStep) : Prop := s.1.axis ∈ axes12 ∧ ∀ b ∈ s.2, Frag2 false b

/-- a member of the old fragment is a member of the extended one -/
theorem stepOK2_of_stepOK (s : SeqStep) (h : StepOK s) : StepOK2 s :=
  ⟨h.1, fun b hb => frag2_of_frag false b (h.2 b hb)⟩

theorem filters_frag2 (preds : List Ast) (hps : ∀ b ∈ preds, Frag2 false b) :
    ∀ acc, Frag2 true acc → Frag2 true (preds.foldl Ast.filter acc) := by
  induction preds with
  | nil => exact fun acc h => h
  | cons b bs ih =>
    intro acc h
    exact ih (fun x hx => hps x (List.mem_cons_of_mem _ hx)) _
      (.filter acc b h (hps b List.mem_cons_self))

theorem stepOn_frag2 (inp : Ast) (hinp : Frag2 true inp) (s : SeqStep) (hs : StepOK2 s) :
    Frag2 true (stepOn inp s) :=
  filters_frag2 s.2 hs.2 _ (.axis s.1 inp hinp hs.1)

section Sequence
variable {d : Doc} (wf : WF d) (cfg : ECfg) (hns : cfg.nsIface = true) (hinj : HashInj d cfg)
include wf hns hinj

/-- stacked predicates keep exactly the nodes on which all of them hold (oracle side) -/
theorem nodes_filters2 (preds : List Ast) (hps : ∀ b ∈ preds, Frag2 false b) :
    ∀ (q : Ast), Frag2 true q → ∀ c, validRef d c = true → ∀ x,
      x ∈ nodesAt d F (preds.foldl Ast.filter q) c ↔
        x ∈ nodesAt d F q c ∧ ∀ b ∈ preds, holds (F := F) d b x = true := by
  induction preds with
  | nil => intro q _ c _ x; simp
  | cons b bs ih =>
    intro q hq c hc x
    have hb := hps b List.mem_cons_self
    rw [List.foldl_cons, ih (fun y hy => hps y (List.mem_cons_of_mem _ hy)) _ (.filter q b hq hb) c hc]
    obtain ⟨_, ns0, g0, _, ns, g, _, he0, _, _, he, _, hchar, _⟩ :=
      C02_filter_keeps_true2 (F := F) wf cfg hns hinj q b hq hb c hc
    rw [nodesAt_eq d _ c ns g he, nodesAt_eq d _ c ns0 g0 he0, hchar]
    simp only [List.mem_cons, forall_eq_or_imp]
    exact and_assoc

/-- the oracle's nodes of one more step, per origin: the model's walk and node test -/
theorem nodes_axis2 (a : AxisInfo) (ha : a.axis ∈ axes12) (p : Ast) (hp : Frag2 true p)
    (c : Ref) (hc : validRef d c = true) (x : Ref) :
    x ∈ nodesAt d F (.axis a p) c ↔
      ∃ n ∈ nodesAt d F p c, x ∈ (axisRefsM d a.axis n).filter (test d cfg a) := by
  obtain ⟨ins, nsp, gp, hsel, _, hev, hm, hv, _⟩ :=
    (frag_sem2 (F := F) wf cfg hns hinj true p hp ⟨c, 1, 1⟩ hc).1 rfl
  obtain ⟨out, ns, g, hsel', _, hev', hm', _, _⟩ :=
    (frag_sem2 (F := F) wf cfg hns hinj true (.axis a p) (.axis a p hp ha) ⟨c, 1, 1⟩ hc).1 rfl
  have hinsv : ∀ o ∈ refs ins, validRef d o = true := fun o ho => hv o ((hm o).1 ho)
  obtain ⟨out2, hout2, hom⟩ := stepPlan_sem (F := F) d cfg hinj a ha (predPlan2 p) c ins hinsv hsel
  have e : predPlan2 (.axis a p) = stepPlan a (predPlan2 p) := rfl
  rw [e, hout2] at hsel'
  cases hsel'
  rw [nodesAt_eq d _ c ns g hev', nodesAt_eq d _ c nsp gp hev, ← hm', hom]
  constructor
  · rintro ⟨o, ho, hx⟩; exact ⟨o, (hm o).1 ho, hx⟩
  · rintro ⟨o, ho, hx⟩; exact ⟨o, (hm o).2 ho, hx⟩

/-- **a filtered step composes with its input** (oracle side, extended fragment): the nodes of `p/s`
are the nodes of the step `s` taken from each node of `p` -/
theorem step_compose2 (p : Ast) (hp : Frag2 true p) (s : SeqStep) (hs : StepOK2 s)
    (c : Ref) (hc : validRef d c = true) (x : Ref) :
    x ∈ nodesAt d F (stepOn p s) c ↔
      ∃ n ∈ nodesAt d F p c, x ∈ nodesAt d F (stepOn .none s) n := by
  have hvp : ∀ n ∈ nodesAt d F p c, validRef d n = true :=
    nodesAt_valid2 (F := F) wf cfg hns hinj p hp c hc
  unfold stepOn
  rw [nodes_filters2 (F := F) wf cfg hns hinj s.2 hs.2 _ (.axis s.1 p hp hs.1) c hc,
    nodes_axis2 (F := F) wf cfg hns hinj s.1 hs.1 p hp c hc]
  constructor
  · rintro ⟨⟨n, hn, hx⟩, hall⟩
    refine ⟨n, hn, ?_⟩
    rw [nodes_filters2 (F := F) wf cfg hns hinj s.2 hs.2 _ (.axis s.1 .none .none hs.1) n (hvp n hn),
      nodes_axis2 (F := F) wf cfg hns hinj s.1 hs.1 .none .none n (hvp n hn), nodesAt_none]
    exact ⟨⟨n, List.mem_singleton.2 rfl, hx⟩, hall⟩
  · rintro ⟨n, hn, hx⟩
    rw [nodes_filters2 (F := F) wf cfg hns hinj s.2 hs.2 _ (.axis s.1 .none .none hs.1) n (hvp n hn),
      nodes_axis2 (F := F) wf cfg hns hinj s.1 hs.1 .none .none n (hvp n hn), nodesAt_none] at hx
    obtain ⟨⟨n', hn', hx⟩, hall⟩ := hx
    rw [List.mem_singleton.1 hn'] at hx
    exact ⟨⟨n, hn, hx⟩, hall⟩

/-- **C11, sequence form, extended fragment**: as `UnionSem.C11_sequence`, with `p` in `Frag2 true`
and the members' predicates in `Frag2 false` -/
theorem C11_sequence2 (regexOk : RegexOk) (limit : Nat) (p : Ast) (hp : Frag2 true p) (s : SeqStep)
    (ss : List SeqStep) (hs : StepOK2 s) (hss : ∀ t ∈ ss, StepOK2 t) (st : BState) (o : BOut)
    (hb : build regexOk limit true false (seqForm p s ss) {} st = .ok o)
    (c : Ref) (hc : validRef d c = true) :
    ∃ out ns g, sel (F := F) d cfg o.q c = .ok out ∧
      Spec.eval (F := F) d (seqForm p s ss) ⟨c, 1, 1⟩ = .ok (.val (.nodes ns) g) ∧
      (∀ x, x ∈ refs out ↔ x ∈ ns) ∧
      (∀ x, x ∈ ns ↔ ∃ t ∈ s :: ss, ∃ n ∈ nodesAt d F p c, x ∈ nodesAt d F (stepOn .none t) n) ∧
      (ss ≠ [] → (refs out).Nodup ∧ ns.Nodup) := by
  have hf0 : Frag2 true (stepOn p s) := stepOn_frag2 p hp s hs
  have hfs : ∀ q ∈ ss.map (stepOn p), Frag2 true q := by
    intro q hq
    obtain ⟨t, ht, rfl⟩ := List.mem_map.1 hq
    exact stepOn_frag2 p hp t (hss t ht)
  obtain ⟨out, ns, g, h1, h2, h3, _, h5, h6⟩ :=
    unionF2_sem (F := F) wf cfg hns hinj regexOk limit _ (unionOf_unionF2 _ _ hf0 hfs) st o hb c hc
  rw [leaves_unionOf2 _ _ hf0 hfs] at h5
  refine ⟨out, ns, g, h1, h2, h3, fun x => ?_, fun hne => ?_⟩
  · rw [h5]
    constructor
    · rintro ⟨q, hq, hx⟩
      rw [← List.map_cons (f := stepOn p)] at hq
      obtain ⟨t, ht, rfl⟩ := List.mem_map.1 hq
      have hst : StepOK2 t := by
        rcases List.mem_cons.1 ht with rfl | ht
        · exact hs
        · exact hss t ht
      exact ⟨t, ht, (step_compose2 (F := F) wf cfg hns hinj p hp t hst c hc x).1 hx⟩
    · rintro ⟨t, ht, hx⟩
      have hst : StepOK2 t := by
        rcases List.mem_cons.1 ht with rfl | ht
        · exact hs
        · exact hss t ht
      refine ⟨stepOn p t, ?_, (step_compose2 (F := F) wf cfg hns hinj p hp t hst c hc x).2 hx⟩
      rw [← List.map_cons (f := stepOn p)]
      exact List.mem_map.2 ⟨t, ht, rfl⟩
  · apply h6
    rcases List.eq_nil_or_concat ss with h | ⟨ss', t, h⟩
    · exact absurd h hne
    · rw [h, List.concat_eq_append, List.map_append, List.map_singleton, unionOf_concat]
      exact ⟨_, _, rfl⟩

end Sequence

end XPathV.UnionSem2

/-! ## Axiom audit -/
section AxiomAudit
open XPathV.UnionSem2
end AxiomAudit
