import XPathV.Lemmas.AxesLemmas
import XPathV.Lemmas.KeyRender
/-!
# The structured identity key is injective on the nodes of a well-formed document

The Go engine identifies a node by a rendered key (`identityKey`): length-prefixed name parts
followed by the path of 1-based sibling indices from the node up to the root.  Here the key is
studied at the *structured* level (`keyStruct`: the list of parts and the list of indices); the
rendering is tied to the source separately.

Since the repair of `getNodeKey` the key starts with the node type and the engine compares the key
STRINGS: `identityKey_inj` shows that the rendered key itself determines the node (on a well-formed
document whose elements have no two attributes with the same prefix, name and value) — the former
"no FNV-64 collision" assumption is a theorem.
-/
namespace XPathV
open XPathV.Model

/-- the sibling-index path from the node up to the root -/
def indexPath (d : Doc) (r : Ref) : List Nat := (r :: ancestorsM d r).map (sibIndex d)

/-- the structured key: the name parts (2 for elements, 3 for attribute/text/comment, 0 for the
root) and the index path -/
def keyStruct (d : Doc) (r : Ref) : List String × List Nat :=
  match nodeType d r with
  | .elem => ([prefixOf d r, localName d r], indexPath d r)
  | .attr | .text | .comment => ([prefixOf d r, localName d r, stringValue d r], indexPath d r)
  | _ => ([], [])

/-- attributes of one element have pairwise distinct (prefix, local name) -/
def AttrNamesDistinct (d : Doc) : Prop :=
  ∀ i k₁ k₂, i < d.length → k₁ < (recAt d i).attrs.length → k₂ < (recAt d i).attrs.length →
    (attrAt d i k₁).pfx = (attrAt d i k₂).pfx → (attrAt d i k₁).name = (attrAt d i k₂).name →
    k₁ = k₂

/-- attribute local names are non-empty -/
def AttrNamesNonEmpty (d : Doc) : Prop :=
  ∀ i k, i < d.length → k < (recAt d i).attrs.length → (attrAt d i k).name ≠ ""

/-! ## Toolkit: strict monotonicity of filter length -/

theorem filter_length_le {α : Type} (p q : α → Bool) (l : List α)
    (h : ∀ x ∈ l, p x = true → q x = true) : (l.filter p).length ≤ (l.filter q).length := by
  induction l with
  | nil => simp
  | cons x xs ih =>
    have ih' := ih (fun y hy => h y (List.mem_cons_of_mem _ hy))
    have hx := h x (List.mem_cons_self)
    simp only [List.filter_cons]
    cases hp : p x with
    | false =>
      cases hq : q x with
      | false => simpa using ih'
      | true => simp only [Bool.false_eq_true, ↓reduceIte, List.length_cons]; omega
    | true =>
      rw [hx hp]
      simp only [↓reduceIte, List.length_cons]; omega

theorem filter_length_lt {α : Type} (p q : α → Bool) (l : List α)
    (h : ∀ x ∈ l, p x = true → q x = true) (a : α) (ha : a ∈ l) (hpa : p a = false)
    (hqa : q a = true) : (l.filter p).length < (l.filter q).length := by
  induction l with
  | nil => cases ha
  | cons x xs ih =>
    have hle := filter_length_le p q xs (fun y hy => h y (List.mem_cons_of_mem _ hy))
    have hx := h x (List.mem_cons_self)
    simp only [List.filter_cons]
    rcases List.mem_cons.1 ha with e | e
    · subst e
      rw [hpa, hqa]
      simp only [Bool.false_eq_true, ↓reduceIte, List.length_cons]; omega
    · have ih' := ih (fun y hy => h y (List.mem_cons_of_mem _ hy)) e
      cases hp : p x with
      | false =>
        cases hq : q x with
        | false => simpa using ih'
        | true => simp only [Bool.false_eq_true, ↓reduceIte, List.length_cons]; omega
      | true =>
        rw [hx hp]
        simp only [↓reduceIte, List.length_cons]; omega

/-! ## The sibling index as a count over the document -/

/-- the preceding-sibling predicate of the specification -/
def prevSibPred (d : Doc) (i : Nat) (x : Nat) : Bool :=
  Ref.lt (.node x) (.node i) && Spec.parent? d (.node x) == Spec.parent? d (.node i) &&
    (Spec.parent? d (.node i)).isSome

theorem prevIdx_length {d : Doc} (wf : WF d) (i : Nat) (hi : i < d.length) :
    (prevIdx d d.length i).length = ((List.range d.length).filter (prevSibPred d i)).length := by
  have := filter_range_eq d.length (prevSibPred d i) (prevIdx d d.length i).reverse
    (by rw [List.pairwise_reverse]; exact prevIdx_pairwise_gt d _ _)
    (by intro x; rw [List.mem_reverse]; exact prevIdx_spec_mem wf i hi x)
  rw [this, List.length_reverse]

theorem sibIndex_node {d : Doc} (wf : WF d) (i : Nat) (hi : i < d.length) :
    sibIndex d (.node i) = ((List.range d.length).filter (prevSibPred d i)).length + 1 := by
  unfold sibIndex
  rw [prevSibsM_node, List.length_map, prevIdx_length wf i hi]

/-- siblings (same parent) with the same sibling index are equal — one direction -/
theorem sibIndex_lt {d : Doc} (wf : WF d) (i j p : Nat) (hi : i < d.length) (hj : j < d.length)
    (hpi : parentFrom d (dep d i) i = some p) (hpj : parentFrom d (dep d j) j = some p)
    (hij : i < j) : sibIndex d (.node i) < sibIndex d (.node j) := by
  rw [sibIndex_node wf i hi, sibIndex_node wf j hj]
  have ei : Spec.parent? d (.node i) = some (.node p) := (parent?_node_eq d i p).2 hpi
  have ej : Spec.parent? d (.node j) = some (.node p) := (parent?_node_eq d j p).2 hpj
  have := filter_length_lt (prevSibPred d i) (prevSibPred d j) (List.range d.length)
    (by
      intro x _ hx
      unfold prevSibPred at hx ⊢
      rw [ei] at hx; rw [ej]
      simp only [Bool.and_eq_true, lt_node] at hx ⊢
      exact ⟨⟨by omega, hx.1.2⟩, hx.2⟩)
    i (List.mem_range.2 hi)
    (by
      unfold prevSibPred
      have : Ref.lt (.node i) (.node i) = false := by
        cases h : Ref.lt (.node i) (.node i) with
        | false => rfl
        | true => have := (lt_node i i).1 h; omega
      rw [this]; rfl)
    (by
      unfold prevSibPred
      rw [ei, ej]
      simp only [Bool.and_eq_true, lt_node]
      exact ⟨⟨hij, by simp⟩, rfl⟩)
  omega

theorem sibIndex_inj {d : Doc} (wf : WF d) (i j p : Nat) (hi : i < d.length) (hj : j < d.length)
    (hpi : parentFrom d (dep d i) i = some p) (hpj : parentFrom d (dep d j) j = some p)
    (h : sibIndex d (.node i) = sibIndex d (.node j)) : i = j := by
  rcases Nat.lt_trichotomy i j with h1 | h1 | h1
  · have := sibIndex_lt wf i j p hi hj hpi hpj h1; omega
  · exact h1
  · have := sibIndex_lt wf j i p hj hi hpj hpi h1; omega

/-! ## The index path with explicit fuel -/

/-- index path of a non-attribute node with explicit ancestor-walk fuel -/
def pathF (d : Doc) (f : Nat) (i : Nat) : List Nat :=
  ((Ref.node i) :: ancestorsFrom d f (.node i)).map (sibIndex d)

theorem pathF_none (d : Doc) (f i : Nat) (h : parentFrom d (dep d i) i = none) :
    pathF d f i = [sibIndex d (.node i)] := by
  unfold pathF
  cases f with
  | zero => rfl
  | succ f => simp [ancestorsFrom, moveParent_node, h]

theorem pathF_some (d : Doc) (f i p : Nat) (h : parentFrom d (dep d i) i = some p) :
    pathF d (f+1) i = sibIndex d (.node i) :: pathF d f p := by
  unfold pathF
  simp [ancestorsFrom, moveParent_node, h]

theorem pathF_inj {d : Doc} (wf : WF d) :
    ∀ n i, i ≤ n → ∀ j f g, i < d.length → j < d.length → i < f → j < g →
      pathF d f i = pathF d g j → i = j := by
  intro n
  induction n with
  | zero =>
    intro i hin j f g hi hj hf hg h
    have hi0 : i = 0 := by omega
    subst hi0
    rw [pathF_none d f 0 (parent_root d)] at h
    cases hq : parentFrom d (dep d j) j with
    | none => exact (parent_none_zero wf j hj hq).symm
    | some q =>
      obtain ⟨g', rfl⟩ : ∃ g', g = g' + 1 := ⟨g - 1, by omega⟩
      rw [pathF_some d g' j q hq] at h
      simp [pathF] at h
  | succ n ih =>
    intro i hin j f g hi hj hf hg h
    cases hp : parentFrom d (dep d i) i with
    | none =>
      have hi0 := parent_none_zero wf i hi hp
      exact ih i (by omega) j f g hi hj hf hg h
    | some p =>
      have hpi := (parentFrom_some d _ _ _ hp).1
      obtain ⟨f', rfl⟩ : ∃ f', f = f' + 1 := ⟨f - 1, by omega⟩
      rw [pathF_some d f' i p hp] at h
      cases hq : parentFrom d (dep d j) j with
      | none =>
        rw [pathF_none d g j hq] at h
        simp [pathF] at h
      | some q =>
        have hqj := (parentFrom_some d _ _ _ hq).1
        obtain ⟨g', rfl⟩ : ∃ g', g = g' + 1 := ⟨g - 1, by omega⟩
        rw [pathF_some d g' j q hq] at h
        injection h with h1 h2
        have hpq : p = q := ih p (by omega) q f' g' (by omega) (by omega) (by omega) (by omega) h2
        subst hpq
        exact sibIndex_inj wf i j p hi hj hp hq h1

theorem indexPath_node (d : Doc) (i : Nat) : indexPath d (.node i) = pathF d (d.length + 1) i := rfl

/-- 1. the sibling-index path determines a non-attribute node -/
theorem indexPath_node_inj {d : Doc} (wf : WF d) (i j : Nat) (hi : i < d.length)
    (hj : j < d.length) (h : indexPath d (.node i) = indexPath d (.node j)) : i = j :=
  pathF_inj wf i i (Nat.le_refl _) j _ _ hi hj (by omega) (by omega) h

/-! ## Attributes -/

theorem prevSibsM_attr (d : Doc) (i k : Nat) : prevSibsM d (.attr i k) = [] := by
  unfold prevSibsM
  cases d.length with
  | zero => rfl
  | succ n => rfl

theorem sibIndex_attr (d : Doc) (i k : Nat) : sibIndex d (.attr i k) = 1 := by
  unfold sibIndex; rw [prevSibsM_attr]; rfl

/-- an attribute's path is `1` followed by the path of its owner element -/
theorem indexPath_attr (d : Doc) (i k : Nat) :
    indexPath d (.attr i k) = 1 :: pathF d d.length i := by
  unfold indexPath pathF ancestorsM
  simp only [ancestorsFrom, Nav.moveParent, List.map_cons, sibIndex_attr]

theorem indexPath_attr_inj {d : Doc} (wf : WF d) (i j k l : Nat) (hi : i < d.length)
    (hj : j < d.length) (h : indexPath d (.attr i k) = indexPath d (.attr j l)) : i = j := by
  rw [indexPath_attr, indexPath_attr] at h
  injection h with _ h2
  exact pathF_inj wf i i (Nat.le_refl _) j _ _ hi hj hi hj h2

/-! ## Injectivity of the structured key -/

theorem keyStruct_attr (d : Doc) (i k : Nat) :
    keyStruct d (.attr i k) =
      ([(attrAt d i k).pfx, (attrAt d i k).name, (attrAt d i k).value], indexPath d (.attr i k)) :=
  rfl

theorem keyStruct_node (d : Doc) (i : Nat) :
    keyStruct d (.node i) =
      match kindAt d i with
      | .root => ([], [])
      | .elem => ([(recAt d i).pfx, (recAt d i).name], indexPath d (.node i))
      | .text => (["", "", (recAt d i).data], indexPath d (.node i))
      | .comment => (["", "", (recAt d i).data], indexPath d (.node i)) := by
  cases hk : kindAt d i <;>
    simp [keyStruct, nodeType, prefixOf, localName, stringValue, hk]

/-- element vs element, text/comment vs text/comment, root vs root: non-attribute nodes -/
theorem keyStruct_node_node_inj {d : Doc} (wf : WF d) (i j : Nat) (hi : i < d.length)
    (hj : j < d.length) (h : keyStruct d (.node i) = keyStruct d (.node j)) : i = j := by
  rw [keyStruct_node, keyStruct_node] at h
  have root0 : ∀ m, m < d.length → kindAt d m = .root → m = 0 := by
    intro m hm hk
    rcases Nat.eq_zero_or_pos m with h0 | h0
    · exact h0
    · exact absurd hk (wf.nonroot m h0 hm)
  cases hki : kindAt d i <;> cases hkj : kindAt d j <;> rw [hki, hkj] at h <;>
    simp only [Prod.mk.injEq] at h
  · rw [root0 i hi hki, root0 j hj hkj]
  all_goals first
    | exact indexPath_node_inj wf i j hi hj h.2
    | (exfalso; simp at h)

/-- element/text/comment/root vs attribute -/
theorem keyStruct_node_attr_ne {d : Doc} (hne : AttrNamesNonEmpty d) (i j k : Nat)
    (hj : j < d.length) (hk : k < (recAt d j).attrs.length) :
    keyStruct d (.node i) ≠ keyStruct d (.attr j k) := by
  intro h
  rw [keyStruct_node, keyStruct_attr] at h
  have hn := hne j k hj hk
  cases hki : kindAt d i <;> rw [hki] at h <;> simp only [Prod.mk.injEq] at h
  · simp at h
  · simp at h
  · have := h.1
    simp only [List.cons.injEq] at this
    exact hn this.2.1.symm
  · have := h.1
    simp only [List.cons.injEq] at this
    exact hn this.2.1.symm

/-- attribute vs attribute -/
theorem keyStruct_attr_attr_inj {d : Doc} (wf : WF d) (hd : AttrNamesDistinct d) (i j k l : Nat)
    (hi : i < d.length) (hk : k < (recAt d i).attrs.length)
    (hj : j < d.length) (hl : l < (recAt d j).attrs.length)
    (h : keyStruct d (.attr i k) = keyStruct d (.attr j l)) : Ref.attr i k = Ref.attr j l := by
  rw [keyStruct_attr, keyStruct_attr] at h
  simp only [Prod.mk.injEq, List.cons.injEq] at h
  have hij := indexPath_attr_inj wf i j k l hi hj h.2
  subst hij
  rw [hd i k l hi hk hl h.1.1 h.1.2.1]

/-- 2. the structured key is injective on the valid references of a well-formed document -/
theorem keyStruct_inj {d : Doc} (wf : WF d) (hd : AttrNamesDistinct d) (hne : AttrNamesNonEmpty d)
    (r₁ r₂ : Ref) (h₁ : validRef d r₁ = true) (h₂ : validRef d r₂ = true)
    (h : keyStruct d r₁ = keyStruct d r₂) : r₁ = r₂ := by
  cases r₁ with
  | node i =>
    have hi : i < d.length := by simpa [validRef] using h₁
    cases r₂ with
    | node j =>
      have hj : j < d.length := by simpa [validRef] using h₂
      rw [keyStruct_node_node_inj wf i j hi hj h]
    | attr j l =>
      have hj : j < d.length ∧ l < (recAt d j).attrs.length := by simpa [validRef] using h₂
      exact absurd h (keyStruct_node_attr_ne hne i j l hj.1 hj.2)
  | attr i k =>
    have hi : i < d.length ∧ k < (recAt d i).attrs.length := by simpa [validRef] using h₁
    cases r₂ with
    | node j =>
      exact absurd h.symm (keyStruct_node_attr_ne hne j i k hi.1 hi.2)
    | attr j l =>
      have hj : j < d.length ∧ l < (recAt d j).attrs.length := by simpa [validRef] using h₂
      exact keyStruct_attr_attr_inj wf hd i j k l hi.1 hi.2 hj.1 hj.2 h

/-! ## Link to the model -/

/-- 3. the model's `indexChain` is the rendering of `indexPath` -/
theorem indexChain_eq (d : Doc) (r : Ref) :
    indexChain d r = (indexPath d r).foldl (fun s n => s ++ "-" ++ toString n) "" := by
  unfold indexChain indexPath
  rw [List.foldl_map]

/-- the node-type tag `getNodeKey` starts with: `strconv.Itoa(int(n.NodeType())) + ":"` -/
def typeTag : NType → String
  | .elem => "1:" | .attr => "2:" | .text => "3:" | .comment => "4:" | _ => "0:"

/-- the model's `identityKey` is a function of `keyStruct` and `nodeType` only: the type tag, then the
length-prefixed parts, then the rendered index path -/
theorem identityKey_of_keyStruct (d : Doc) (cfg : ECfg) (r : Ref) :
    identityKey d cfg r = typeTag (nodeType d r) ++
      ((match (keyStruct d r).1 with
       | [a, b] => keyPart a ++ keyPart b
       | [a, b, c] => keyPart a ++ keyPart b ++ keyPart c
       | _ => "") ++
      (match (keyStruct d r).1 with
       | [] => ""
       | _ => (keyStruct d r).2.foldl (fun s n => s ++ "-" ++ toString n) "")) := by
  unfold identityKey keyStruct typeTag
  cases nodeType d r <;> simp [indexChain_eq]

/-! ## The rendered key determines the structured key and the node type -/

theorem nodeType_ne_all (d : Doc) (r : Ref) : nodeType d r ≠ .all := by
  cases r with
  | node i => cases hk : kindAt d i <;> simp [nodeType, hk]
  | attr i k => simp [nodeType]

theorem typeTag_size (t : NType) : (typeTag t).utf8ByteSize = 2 := by
  cases t <;> decide

theorem typeTag_inj {t₁ t₂ : NType} (h₁ : t₁ ≠ .all) (h₂ : t₂ ≠ .all)
    (h : typeTag t₁ = typeTag t₂) : t₁ = t₂ := by
  cases t₁ <;> cases t₂ <;> simp_all [typeTag]

theorem keyPart_eq_part (s : String) : keyPart s = KeyRender.part s := rfl

theorem indexChain_eq_chainR (d : Doc) (r : Ref) :
    indexChain d r = KeyRender.chainR (indexPath d r) := by
  rw [indexChain_eq, KeyRender.foldl_chain, String.empty_append]

theorem indexPath_inj_of_chain {d : Doc} {r₁ r₂ : Ref} (h : indexChain d r₁ = indexChain d r₂) :
    indexPath d r₁ = indexPath d r₂ := by
  rw [indexChain_eq_chainR, indexChain_eq_chainR] at h
  exact KeyRender.chainR_inj _ _ h

/-- two name parts and the chain -/
theorem body2_inj {a₁ b₁ a₂ b₂ x y : String}
    (h : keyPart a₁ ++ keyPart b₁ ++ x = keyPart a₂ ++ keyPart b₂ ++ y) :
    a₁ = a₂ ∧ b₁ = b₂ ∧ x = y := by
  simp only [keyPart_eq_part, String.append_assoc] at h
  have h1 := KeyRender.part_inj h
  have h2 := KeyRender.part_inj h1.2
  exact ⟨h1.1, h2.1, h2.2⟩

/-- three parts and the chain -/
theorem body3_inj {a₁ b₁ c₁ a₂ b₂ c₂ x y : String}
    (h : keyPart a₁ ++ keyPart b₁ ++ keyPart c₁ ++ x = keyPart a₂ ++ keyPart b₂ ++ keyPart c₂ ++ y) :
    a₁ = a₂ ∧ b₁ = b₂ ∧ c₁ = c₂ ∧ x = y := by
  simp only [keyPart_eq_part, String.append_assoc] at h
  have h1 := KeyRender.part_inj h
  have h2 := KeyRender.part_inj h1.2
  have h3 := KeyRender.part_inj h2.2
  exact ⟨h1.1, h2.1, h3.1, h3.2⟩

/-- the key as tag and body -/
def keyBody (d : Doc) (r : Ref) : String :=
  match nodeType d r with
  | .attr | .text | .comment =>
    keyPart (prefixOf d r) ++ keyPart (localName d r) ++ keyPart (stringValue d r) ++ indexChain d r
  | .elem => keyPart (prefixOf d r) ++ keyPart (localName d r) ++ indexChain d r
  | _ => ""

theorem identityKey_eq_tag_body (d : Doc) (cfg : ECfg) (r : Ref) :
    identityKey d cfg r = typeTag (nodeType d r) ++ keyBody d r := by
  unfold identityKey keyBody typeTag
  cases nodeType d r <;> rfl

/-- **the rendered key is uniquely decodable**: equal key strings come from nodes of the same type
with the same structured key (no hypothesis on the document) -/
theorem identityKey_decode (d : Doc) (cfg : ECfg) (r₁ r₂ : Ref)
    (h : identityKey d cfg r₁ = identityKey d cfg r₂) :
    nodeType d r₁ = nodeType d r₂ ∧ keyStruct d r₁ = keyStruct d r₂ := by
  rw [identityKey_eq_tag_body, identityKey_eq_tag_body] at h
  have h0 := KeyRender.append_inj_of_size h (by rw [typeTag_size, typeTag_size])
  have ht := typeTag_inj (nodeType_ne_all d r₁) (nodeType_ne_all d r₂) h0.1
  refine ⟨ht, ?_⟩
  have hb := h0.2
  unfold keyBody at hb
  unfold keyStruct
  rw [← ht] at hb ⊢
  cases hk : nodeType d r₁ <;> rw [hk] at hb <;> simp only at hb ⊢
  · have := body2_inj hb
    rw [this.1, this.2.1, indexPath_inj_of_chain this.2.2]
  · have := body3_inj hb
    rw [this.1, this.2.1, this.2.2.1, indexPath_inj_of_chain this.2.2.2]
  · have := body3_inj hb
    rw [this.1, this.2.1, this.2.2.1, indexPath_inj_of_chain this.2.2.2]
  · have := body3_inj hb
    rw [this.1, this.2.1, this.2.2.1, indexPath_inj_of_chain this.2.2.2]

/-- no element has two attributes with the same prefix, local name AND value (weaker than
`AttrNamesDistinct`, which XML well-formedness gives: no two attributes with the same qualified name).
This is exactly what the key cannot see: every attribute has sibling index 1 (`MoveToPrevious` fails
on an attribute), so two attributes of one element differ in the key only by prefix, name and value. -/
def AttrTriplesDistinct (d : Doc) : Prop :=
  ∀ i k₁ k₂, i < d.length → k₁ < (recAt d i).attrs.length → k₂ < (recAt d i).attrs.length →
    (attrAt d i k₁).pfx = (attrAt d i k₂).pfx → (attrAt d i k₁).name = (attrAt d i k₂).name →
    (attrAt d i k₁).value = (attrAt d i k₂).value → k₁ = k₂

theorem AttrNamesDistinct.triples {d : Doc} (h : AttrNamesDistinct d) : AttrTriplesDistinct d :=
  fun i k₁ k₂ hi h₁ h₂ e₁ e₂ _ => h i k₁ k₂ hi h₁ h₂ e₁ e₂

/-- node type and structured key together determine the node -/
theorem typed_keyStruct_inj {d : Doc} (wf : WF d) (hd : AttrTriplesDistinct d)
    (r₁ r₂ : Ref) (h₁ : validRef d r₁ = true) (h₂ : validRef d r₂ = true)
    (ht : nodeType d r₁ = nodeType d r₂) (h : keyStruct d r₁ = keyStruct d r₂) : r₁ = r₂ := by
  cases r₁ with
  | node i =>
    have hi : i < d.length := by simpa [validRef] using h₁
    cases r₂ with
    | node j =>
      have hj : j < d.length := by simpa [validRef] using h₂
      rw [keyStruct_node_node_inj wf i j hi hj h]
    | attr j l =>
      exfalso
      cases hk : kindAt d i <;> simp [nodeType, hk] at ht
  | attr i k =>
    have hi : i < d.length ∧ k < (recAt d i).attrs.length := by simpa [validRef] using h₁
    cases r₂ with
    | node j =>
      exfalso
      cases hk : kindAt d j <;> simp [nodeType, hk] at ht
    | attr j l =>
      have hj : j < d.length ∧ l < (recAt d j).attrs.length := by simpa [validRef] using h₂
      rw [keyStruct_attr, keyStruct_attr] at h
      simp only [Prod.mk.injEq, List.cons.injEq] at h
      have hij := indexPath_attr_inj wf i j k l hi.1 hj.1 h.2
      subst hij
      rw [hd i k l hi.1 hi.2 hj.2 h.1.1 h.1.2.1 h.1.2.2.1]

/-- **the node key is injective** on the valid references of a well-formed document in which no element
has two attributes with the same prefix, name and value -/
theorem identityKey_inj {d : Doc} (wf : WF d) (hd : AttrTriplesDistinct d) (cfg : ECfg)
    (r₁ r₂ : Ref) (h₁ : validRef d r₁ = true) (h₂ : validRef d r₂ = true)
    (h : identityKey d cfg r₁ = identityKey d cfg r₂) : r₁ = r₂ :=
  have := identityKey_decode d cfg r₁ r₂ h
  typed_keyStruct_inj wf hd r₁ r₂ h₁ h₂ this.1 this.2

/-- the side condition is necessary: two attributes of one element with the same prefix, name and value
have the same key -/
theorem identityKey_attr_collide (d : Doc) (cfg : ECfg) (i k₁ k₂ : Nat)
    (e₁ : (attrAt d i k₁).pfx = (attrAt d i k₂).pfx) (e₂ : (attrAt d i k₁).name = (attrAt d i k₂).name)
    (e₃ : (attrAt d i k₁).value = (attrAt d i k₂).value) :
    identityKey d cfg (.attr i k₁) = identityKey d cfg (.attr i k₂) := by
  rw [identityKey_of_keyStruct, identityKey_of_keyStruct, keyStruct_attr, keyStruct_attr,
    indexPath_attr, indexPath_attr, e₁, e₂, e₃]
  rfl

/-- any key that factors through an injective function of `keyStruct` is injective on the valid
references (under the hypotheses of `keyStruct_inj`) -/
theorem dedup_by_struct_key {κ : Type} {d : Doc} (wf : WF d) (hd : AttrNamesDistinct d)
    (hne : AttrNamesNonEmpty d) (key : Ref → κ)
    (hkey : ∀ r₁ r₂, validRef d r₁ = true → validRef d r₂ = true → key r₁ = key r₂ →
      keyStruct d r₁ = keyStruct d r₂) :
    ∀ r₁ r₂, validRef d r₁ = true → validRef d r₂ = true → key r₁ = key r₂ → r₁ = r₂ :=
  fun r₁ r₂ h₁ h₂ h => keyStruct_inj wf hd hne r₁ r₂ h₁ h₂ (hkey r₁ r₂ h₁ h₂ h)

end XPathV

/-! ## Axiom audit -/
section AxiomAudit
open XPathV
end AxiomAudit
