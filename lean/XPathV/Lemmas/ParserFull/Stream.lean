import XPathV.Spec.FullBridge
import XPathV.Lemmas.ScanProgress
/-!
# Token streams with values, and their §3.7 classification seen from the scanner state

* `TV s toks`: `toks` is the list of `TokV`s ahead of the scanner state `s` (up to end of input);
  `tokVsRel text toks`: the same from `Scan.init text`; `tokVs_sound`: the driver's `tokVs` computes it.
* `etok prev s`: the ExprToken of the current item of `s` when the preceding ExprToken is `prev`.
* `ES prev s ets`: `ets` is the classified stream ahead of `s` — the relation the simulation proof
  works with; `TV.es`: `TV s toks → ES prev s (classify prev toks)`.
-/
namespace XPathV.Lemmas.ParserFull
open XPathV XPathV.Model XPathV.Bridge XPathV.Spec.Full

/-! ## the stream of `TokV`s -/

inductive TV : Scan → List TokV → Prop
  | eof {s : Scan} : s.typ = .eof → TV s []
  | cons {s s1 : Scan} {t : TokV} {rest : List TokV} :
      s.typ ≠ .eof → convTok s = some t → s.nextItem = .ok s1 → TV s1 rest → TV s (t :: rest)

/-- `toks` is the scanner's token stream of `text` -/
def tokVsRel (text : List Char) (toks : List TokV) : Prop := ∃ s, Scan.init text = .ok s ∧ TV s toks

theorem tokVsGo_sound : ∀ (f : Nat) (s : Scan) (acc toks : List TokV), tokVsGo f s acc = some toks →
    ∃ r, toks = acc.reverse ++ r ∧ TV s r
  | 0, _, _, _, h => by simp [tokVsGo] at h
  | f+1, s, acc, toks, h => by
    unfold tokVsGo at h
    split at h
    · rename_i he
      cases h
      exact ⟨[], by simp, .eof (eq_of_beq he)⟩
    · rename_i hne
      split at h
      · rename_i t s' hc hn
        obtain ⟨r, rfl, hr⟩ := tokVsGo_sound f s' (t :: acc) toks h
        exact ⟨t :: r, by simp, .cons (by simpa using hne) hc hn hr⟩
      · cases h

/-- the driver's `tokVs` is sound for the relation -/
theorem tokVs_sound {text : List Char} {toks : List TokV} (h : tokVs text = some toks) : tokVsRel text toks := by
  unfold tokVs at h
  split at h
  · rename_i s hs
    obtain ⟨r, rfl, hr⟩ := tokVsGo_sound _ _ _ _ h
    exact ⟨s, hs, by simpa using hr⟩
  · cases h

theorem TV.det {s : Scan} {a b : List TokV} (ha : TV s a) (hb : TV s b) : a = b := by
  induction ha generalizing b with
  | eof he =>
    cases hb with
    | eof _ => rfl
    | cons hne _ _ _ => exact absurd he hne
  | cons hne hc hn _ ih =>
    cases hb with
    | eof he => exact absurd he hne
    | cons _ hc' hn' hb' =>
      rw [hn] at hn'; cases hn'
      rw [hc] at hc'; cases hc'
      rw [ih hb']

theorem tokVsRel.det {text : List Char} {a b : List TokV} (ha : tokVsRel text a) (hb : tokVsRel text b) : a = b := by
  obtain ⟨s, hs, ha⟩ := ha
  obtain ⟨s', hs', hb⟩ := hb
  rw [hs] at hs'; cases hs'
  exact ha.det hb

/-! ## a name token that "can be a function" is followed by `(` -/

theorem skipSpaceAux_nonspace {c : Char} (h : isSpace c = false) (r : List Char) : skipSpaceAux c r = (c, r) := by
  cases r <;> simp [skipSpaceAux, h]

theorem skipSpace_nonspace {s : Scan} (h : isSpace s.curr = false) : s.skipSpace = s := by
  simp [Scan.skipSpace, skipSpaceAux_nonspace h]

/-- a state produced by `nextItem` -/
def Out (s : Scan) : Prop := ∃ s0 : Scan, s0.nextItem = .ok s

theorem curr_paren_next {s s1 : Scan} (hc : s.curr = '(') (h : s.nextItem = .ok s1) : s1.typ = .lparen := by
  have hsp : s.skipSpace = s := skipSpace_nonspace (by rw [hc]; decide)
  unfold Scan.nextItem at h
  rw [hsp] at h
  simp only [hc] at h
  simp at h
  rw [← h]
  simp [ScanProgress.nextChar_typ]

set_option hygiene false in
macro "ifcase' " t:term : tactic =>
  `(tactic| (by_cases hx : $t
             · rw [if_pos hx] at h; exact hsingle _ (by decide) _ h
             rw [if_neg hx] at h; clear hx))

/-- after `nextItem`, a name token has `canBeFunc` only when the current character is `(` -/
theorem nextItem_name_paren (s0 s' : Scan) (h : s0.nextItem = .ok s') (ht : s'.typ = .name)
    (hcf : s'.canBeFunc = true) : s'.curr = '(' := by
  revert ht hcf
  unfold Scan.nextItem at h
  generalize s0.skipSpace = s at h
  extract_lets s_ adv single two c s1 fin at h
  by_cases h0 : (c == '\x00') = true
  · rw [if_pos h0] at h
    cases h
    intro ht; cases ht
  rw [if_neg h0] at h
  have hsingle : ∀ t, t ≠ .name → ∀ s', single t = .ok s' →
      s'.typ = .name → s'.canBeFunc = true → s'.curr = '(' := by
    intro t ht s' h
    cases h
    intro h'
    exact absurd (by simpa [adv, ScanProgress.nextChar_typ] using h') ht
  have htwo : ∀ t1 t2 c2, t1 ≠ .name → t2 ≠ .name → ∀ s', two t1 t2 c2 = .ok s' →
      s'.typ = .name → s'.canBeFunc = true → s'.curr = '(' := by
    intro t1 t2 c2 ht1 ht2 s' h
    simp only [two] at h
    split at h
    · cases h
      intro h'
      exact absurd (by simpa [adv, ScanProgress.nextChar_typ] using h') ht2
    · cases h
      intro h'
      exact absurd (by simpa [adv, ScanProgress.nextChar_typ] using h') ht1
  ifcase' (c == ',') = true
  ifcase' (c == '@') = true
  ifcase' (c == '(') = true
  ifcase' (c == ')') = true
  ifcase' (c == '|') = true
  ifcase' (c == '*') = true
  ifcase' (c == '[') = true
  ifcase' (c == ']') = true
  ifcase' (c == '+') = true
  ifcase' (c == '-') = true
  ifcase' (c == '=') = true
  ifcase' (c == '$') = true
  by_cases hx : (c == '#') = true
  · rw [if_pos hx] at h; cases h
  rw [if_neg hx] at h; clear hx
  by_cases hx : (c == '<') = true
  · rw [if_pos hx] at h; exact htwo _ _ _ (by decide) (by decide) _ h
  rw [if_neg hx] at h; clear hx
  by_cases hx : (c == '>') = true
  · rw [if_pos hx] at h; exact htwo _ _ _ (by decide) (by decide) _ h
  rw [if_neg hx] at h; clear hx
  by_cases hx : (c == '!') = true
  · rw [if_pos hx] at h; exact htwo _ _ _ (by decide) (by decide) _ h
  rw [if_neg hx] at h; clear hx
  by_cases hx : (c == '/') = true
  · rw [if_pos hx] at h; exact htwo _ _ _ (by decide) (by decide) _ h
  rw [if_neg hx] at h; clear hx
  clear hsingle htwo
  have hs1t : s1.typ = .dot := by simp [s1, adv, ScanProgress.nextChar_typ]
  by_cases hx : (c == '.') = true
  · rw [if_pos hx] at h
    clear_value s1
    split at h
    · cases h
      intro h'; simp [adv, ScanProgress.nextChar_typ] at h'
    split at h
    · generalize hq : takeRun isDigit s1.curr s1.rest = q at h
      obtain ⟨run, c', r'⟩ := q
      simp only [] at h
      split at h
      · cases h
        intro h'; simp at h'
      · cases h
    · cases h
      intro h'; rw [hs1t] at h'; cases h'
  rw [if_neg hx] at h; clear hx
  clear hs1t
  clear_value s1
  clear s1
  by_cases hx : (c == '\"' || c == '\'') = true
  · rw [if_pos hx] at h
    split at h
    · cases h
    · cases h
      intro h'; simp [adv, ScanProgress.nextChar_typ] at h'
  rw [if_neg hx] at h; clear hx
  by_cases hx : isDigit c = true
  · rw [if_pos hx] at h
    generalize hq : takeRun isDigit c s_.rest = q at h
    obtain ⟨ip, c1, r1⟩ := q
    simp only [] at h
    generalize hq2 : (if (c1 == '.') = true then
        match r1 with
        | [] => (['.'], '\x00', [])
        | x :: xs => match takeRun isDigit x xs with
          | (run, c', r') => ('.' :: run, c', r')
      else ([], c1, r1)) = q2 at h
    obtain ⟨fp, c2, r2⟩ := q2
    simp only [] at h
    split at h
    · cases h
      intro h'; simp at h'
    · cases h
  rw [if_neg hx] at h; clear hx
  by_cases hx : isName c = true
  · rw [if_pos hx] at h
    have hfin : ∀ x s', fin x = .ok s' → s'.canBeFunc = true → s'.curr = '(' := by
      intro x s' h
      cases h
      intro h'
      simpa using h'
    clear_value fin
    generalize hq : s_.scanName = q at h
    obtain ⟨nm, s1⟩ := q
    clear hq
    simp only [] at h
    intro _
    split at h
    · split at h
      · exact hfin _ _ h
      · split at h
        · exact hfin _ _ h
        · split at h
          · generalize hq : Scan.scanName _ = q at h
            obtain ⟨nm2, s3⟩ := q
            simp only [] at h
            exact hfin _ _ h
          · cases h
    · split at h
      · split at h
        · exact hfin _ _ h
        · cases h
      · exact hfin _ _ h
  rw [if_neg hx] at h; clear hx
  cases h

/-- a name token that can be a function name is followed by the token `(` -/
theorem name_paren_next {s s1 : Scan} (ho : Out s) (ht : s.typ = .name) (hcf : s.canBeFunc = true)
    (h : s.nextItem = .ok s1) : s1.typ = .lparen := by
  obtain ⟨s0, h0⟩ := ho
  exact curr_paren_next (nextItem_name_paren s0 s h0 ht hcf) h

/-! ## the classified stream, seen from the scanner state -/

/-- the ExprToken of the current item (for every item but `$`, `!` and end of input) -/
def etok (prev : Option ETok) (s : Scan) : ETok :=
  match s.typ with
  | .name => classifyName prev s.pfx s.name s.canBeFunc
  | .star => if operatorPosition prev then .mul else .wild
  | .axe => .axisName s.name
  | .string => .literal s.strval
  | .number => .number s.numlex
  | .slash => .slash | .slashslash => .slashslash | .at => .at | .dot => .dot
  | .dotdot => .dotdot | .lparen => .lparen | .rparen => .rparen
  | .lbracket => .lbracket | .rbracket => .rbracket | .comma => .comma
  | .union => .union | .plus => .plus | .minus => .minus
  | .eq => .eq | .ne => .ne | .lt => .lt | .le => .le | .gt => .gt | .ge => .ge
  | .dollar => .invalid | .bang => .invalid | .eof => .invalid

/-- `ES prev s ets`: the ExprTokens ahead of `s` are `ets`, when the ExprToken before them is `prev`.
After an `invalid` token that stems from a `$` nothing is recorded (no production reads past it). -/
inductive ES : Option ETok → Scan → List ETok → Prop
  | eof {prev : Option ETok} {s : Scan} : s.typ = .eof → ES prev s []
  | tok {prev : Option ETok} {s s1 : Scan} {ets : List ETok} :
      s.typ ≠ .eof → s.typ ≠ .dollar → s.typ ≠ .bang → s.nextItem = .ok s1 →
      (s.typ = .name → s.canBeFunc = true → s1.typ = .lparen) →
      ES (some (etok prev s)) s1 ets → ES prev s (etok prev s :: ets)
  | var {prev : Option ETok} {s s1 s2 : Scan} {ets : List ETok} :
      s.typ = .dollar → s.nextItem = .ok s1 → s1.typ = .name → s1.name ≠ "*" → s1.nextItem = .ok s2 →
      ES (some (.varRef s1.pfx s1.name)) s2 ets → ES prev s (.varRef s1.pfx s1.name :: ets)
  | bad {prev : Option ETok} {s : Scan} {ets : List ETok} : s.typ = .dollar → ES prev s (.invalid :: ets)

theorem convTok_dollar {s : Scan} (h : convTok s = some .dollar) : s.typ = .dollar := by
  unfold convTok at h
  split at h <;> first | assumption | cases h

theorem convTok_name {s : Scan} {p l : String} {b : Bool} (h : convTok s = some (.name p l b)) :
    s.typ = .name ∧ s.pfx = p ∧ s.name = l ∧ s.canBeFunc = b := by
  unfold convTok at h
  split at h <;> first | (cases h; exact ⟨‹_›, rfl, rfl, rfl⟩) | cases h

/-- for a token other than `$`, `classify` puts `etok` in front and goes on -/
theorem classify_cons {prev : Option ETok} {s : Scan} {t : TokV} (rest : List TokV) (hc : convTok s = some t)
    (hd : s.typ ≠ .dollar) : classify prev (t :: rest) = etok prev s :: classify (some (etok prev s)) rest := by
  unfold convTok at hc
  split at hc <;> first
    | (rename_i hty; exact absurd hty hd)
    | (cases hc; rename_i hty; simp [classify, etok, hty]; done)
    | cases hc

theorem TV.es_aux : ∀ (n : Nat) (toks : List TokV), toks.length ≤ n → ∀ (s : Scan) (prev : Option ETok),
    TV s toks → Out s → ES prev s (classify prev toks)
  | 0, toks, hl, s, prev, h, _ => by
    cases h with
    | eof he => simp only [classify]; exact .eof he
    | cons _ _ _ _ => simp at hl
  | n+1, toks, hl, s, prev, h, ho => by
    cases h with
    | eof he => simp only [classify]; exact .eof he
    | @cons _ s1 t rest hne hc hn htv =>
      have ho1 : Out s1 := ⟨s, hn⟩
      simp only [List.length_cons, Nat.add_le_add_iff_right] at hl
      by_cases hd : s.typ = .dollar
      · have ht : t = .dollar := by
          unfold convTok at hc
          rw [hd] at hc
          cases hc; rfl
        subst ht
        cases htv with
        | eof he => simp only [classify]; exact .bad hd
        | @cons _ s2 t2 rest2 hne1 hc1 hn1 htv1 =>
          cases t2 with
          | name p l b =>
            obtain ⟨hty1, rfl, rfl, rfl⟩ := convTok_name hc1
            simp only [classify]
            split
            · exact .bad hd
            · rename_i hl'
              simp only [List.length_cons] at hl
              exact .var hd hn hty1 (by simpa using hl') hn1
                (TV.es_aux n rest2 (by omega) s2 _ htv1 ⟨s1, hn1⟩)
          | _ => simp only [classify]; exact .bad hd
      · rw [classify_cons rest hc hd]
        have hb : s.typ ≠ .bang := by
          intro hb
          unfold convTok at hc
          rw [hb] at hc
          cases hc
        exact .tok hne hd hb hn (fun ht hcf => name_paren_next ho ht hcf hn) (TV.es_aux n rest hl s1 _ htv ho1)

theorem TV.es {s : Scan} {toks : List TokV} (h : TV s toks) (prev : Option ETok) (ho : Out s) :
    ES prev s (classify prev toks) := TV.es_aux _ toks (Nat.le_refl _) s prev h ho

/-- the classified stream of a whole text -/
theorem tokVsRel.es {text : List Char} {toks : List TokV} (h : tokVsRel text toks) :
    ∃ s, Scan.init text = .ok s ∧ ES none s (classify none toks) := by
  obtain ⟨s, hs, htv⟩ := h
  exact ⟨s, hs, htv.es none ⟨_, hs⟩⟩

end XPathV.Lemmas.ParserFull
