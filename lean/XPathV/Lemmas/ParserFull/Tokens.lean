import XPathV.Lemmas.ParserFull.Stream
import XPathV.Model.Parser
/-!
# Local agreement between the §3.7 classification and the decisions of the parser model

The reference parser reads a classified token; the model looks at the scanner item (`tokMatches`,
`isStep`, `isPrimaryExpr`, `canBeFunc`, `isNodeType`).  The lemmas here relate the two views at one
position of the stream (`ES prev s ets`).
-/
set_option linter.unusedSimpArgs false
set_option linter.unusedVariables false
namespace XPathV.Lemmas.ParserFull
open XPathV XPathV.Model XPathV.Bridge XPathV.Spec.Full

/-! ## what `etok` tells about the scanner item -/

/-- the scanner token type of an ExprToken (none for `varRef`, which spans two items, and `invalid`) -/
def tokOf : ETok → Option Tok
  | .lparen => some .lparen | .rparen => some .rparen | .lbracket => some .lbracket
  | .rbracket => some .rbracket | .dot => some .dot | .dotdot => some .dotdot | .at => some .at
  | .comma => some .comma | .axisName _ => some .axe | .wild => some .star | .mul => some .star
  | .nsWild _ => some .name | .qname _ _ => some .name | .nodeType _ => some .name
  | .funcName _ _ => some .name | .opName _ => some .name
  | .slash => some .slash | .slashslash => some .slashslash | .union => some .union
  | .plus => some .plus | .minus => some .minus | .eq => some .eq | .ne => some .ne
  | .lt => some .lt | .le => some .le | .gt => some .gt | .ge => some .ge
  | .literal _ => some .string | .number _ => some .number
  | .varRef _ _ => none | .invalid => none

/-- the ExprToken of a scanner token type that has only one -/
def simpleE : Tok → Option ETok
  | .lparen => some .lparen | .rparen => some .rparen | .lbracket => some .lbracket
  | .rbracket => some .rbracket | .dot => some .dot | .dotdot => some .dotdot | .at => some .at
  | .comma => some .comma | .slash => some .slash | .slashslash => some .slashslash
  | .union => some .union | .plus => some .plus | .minus => some .minus | .eq => some .eq
  | .ne => some .ne | .lt => some .lt | .le => some .le | .gt => some .gt | .ge => some .ge
  | _ => none

theorem classifyName_cases (prev : Option ETok) (p l : String) (b : Bool) :
    (l = "*" ∧ p = "" ∧ classifyName prev p l b = .invalid) ∨
    (l = "*" ∧ p ≠ "" ∧ classifyName prev p l b = .nsWild p) ∨
    (l ≠ "*" ∧ operatorPosition prev = true ∧ p = "" ∧ classifyName prev p l b = .opName l) ∨
    (l ≠ "*" ∧ ¬ (operatorPosition prev = true ∧ p = "") ∧ b = true ∧ p = "" ∧ l ∈ nodeTypes ∧
      classifyName prev p l b = .nodeType l) ∨
    (l ≠ "*" ∧ ¬ (operatorPosition prev = true ∧ p = "") ∧ b = true ∧ ¬ (p = "" ∧ l ∈ nodeTypes) ∧
      classifyName prev p l b = .funcName p l) ∨
    (l ≠ "*" ∧ ¬ (operatorPosition prev = true ∧ p = "") ∧ b = false ∧ classifyName prev p l b = .qname p l) := by
  unfold classifyName
  by_cases h1 : l = "*"
  · by_cases h2 : p = ""
    · simp [h1, h2]
    · simp [h1, h2]
  · by_cases h3 : operatorPosition prev = true ∧ p = ""
    · simp [h1, h3.1, h3.2]
    · have h3' : (operatorPosition prev && p == "") = false := by
        simpa using h3
      cases b with
      | true =>
        by_cases h4 : p = "" ∧ l ∈ nodeTypes
        · simp [h1, h4.1, h4.2, h3]
        · have h4' : (p == "" && nodeTypes.contains l) = false := by simpa using h4
          simp [h1, h3', h4', h3, h4]
      | false => simp [h1, h3', h3]

theorem etok_typ {prev : Option ETok} {s : Scan} {t : Tok} (h : tokOf (etok prev s) = some t) : s.typ = t := by
  unfold etok at h
  split at h <;> try (simp [tokOf] at h; done)
  all_goals try (simp [tokOf] at h; rw [‹s.typ = _›]; exact h)
  · rename_i hty
    rcases classifyName_cases prev s.pfx s.name s.canBeFunc with
      ⟨_, _, e⟩ | ⟨_, _, e⟩ | ⟨_, _, _, e⟩ | ⟨_, _, _, _, _, e⟩ | ⟨_, _, _, _, e⟩ | ⟨_, _, _, e⟩ <;>
      (rw [e] at h; simp [tokOf] at h; try (rw [hty]; exact h))
  · rename_i hty
    split at h <;> (simp [tokOf] at h; rw [hty]; exact h)

theorem etok_simple {prev : Option ETok} {s : Scan} {e : ETok} (h : simpleE s.typ = some e) : etok prev s = e := by
  unfold etok
  split <;> (rename_i hty; rw [hty] at h; simp [simpleE] at h; try exact h)

theorem etok_name {prev : Option ETok} {s : Scan} (h : s.typ = .name) :
    etok prev s = classifyName prev s.pfx s.name s.canBeFunc := by
  simp [etok, h]

theorem etok_star {prev : Option ETok} {s : Scan} (h : s.typ = .star) :
    etok prev s = if operatorPosition prev then .mul else .wild := by
  simp [etok, h]

theorem etok_ne_varRef {prev : Option ETok} {s : Scan} {p l : String} : etok prev s ≠ .varRef p l := by
  intro h
  unfold etok at h
  split at h <;> try (cases h; done)
  · rcases classifyName_cases prev s.pfx s.name s.canBeFunc with
      ⟨_, _, e⟩ | ⟨_, _, e⟩ | ⟨_, _, _, e⟩ | ⟨_, _, _, _, _, e⟩ | ⟨_, _, _, _, e⟩ | ⟨_, _, _, e⟩ <;>
      (rw [e] at h; cases h)
  · split at h <;> cases h

theorem etok_axis {prev : Option ETok} {s : Scan} {a : String} (h : etok prev s = .axisName a) :
    s.typ = .axe ∧ s.name = a := by
  have ht : s.typ = .axe := etok_typ (by rw [h]; rfl)
  simp [etok, ht] at h
  exact ⟨ht, h⟩

theorem etok_literal {prev : Option ETok} {s : Scan} {v : String} (h : etok prev s = .literal v) :
    s.typ = .string ∧ s.strval = v := by
  have ht : s.typ = .string := etok_typ (by rw [h]; rfl)
  simp [etok, ht] at h
  exact ⟨ht, h⟩

theorem etok_number {prev : Option ETok} {s : Scan} {v : String} (h : etok prev s = .number v) :
    s.typ = .number ∧ s.numlex = v := by
  have ht : s.typ = .number := etok_typ (by rw [h]; rfl)
  simp [etok, ht] at h
  exact ⟨ht, h⟩

theorem etok_nsWild {prev : Option ETok} {s : Scan} {p : String} (h : etok prev s = .nsWild p) :
    s.typ = .name ∧ s.name = "*" ∧ s.pfx = p ∧ p ≠ "" := by
  have ht : s.typ = .name := etok_typ (by rw [h]; rfl)
  rw [etok_name ht] at h
  rcases classifyName_cases prev s.pfx s.name s.canBeFunc with
    ⟨_, _, e⟩ | ⟨a, b, e⟩ | ⟨_, _, _, e⟩ | ⟨_, _, _, _, _, e⟩ | ⟨_, _, _, _, e⟩ | ⟨_, _, _, e⟩ <;>
    (rw [e] at h; cases h)
  exact ⟨ht, a, rfl, b⟩

theorem etok_qname {prev : Option ETok} {s : Scan} {p l : String} (h : etok prev s = .qname p l) :
    s.typ = .name ∧ s.pfx = p ∧ s.name = l ∧ l ≠ "*" ∧ s.canBeFunc = false := by
  have ht : s.typ = .name := etok_typ (by rw [h]; rfl)
  rw [etok_name ht] at h
  rcases classifyName_cases prev s.pfx s.name s.canBeFunc with
    ⟨_, _, e⟩ | ⟨_, _, e⟩ | ⟨_, _, _, e⟩ | ⟨_, _, _, _, _, e⟩ | ⟨_, _, _, _, e⟩ | ⟨a, _, b, e⟩ <;>
    (rw [e] at h; cases h)
  exact ⟨ht, rfl, rfl, a, b⟩

theorem isNodeType_iff (s : Scan) : isNodeType s = true ↔ (s.pfx = "" ∧ s.name ∈ nodeTypes) := by
  simp only [isNodeType, nodeTypes, Bool.and_eq_true, Bool.or_eq_true, beq_iff_eq, List.mem_cons,
    List.not_mem_nil, or_false]
  constructor
  · rintro ⟨((h | h) | h) | h, hp⟩ <;> simp [h, hp]
  · rintro ⟨hp, h | h | h | h⟩ <;> simp [h, hp]

theorem etok_nodeType {prev : Option ETok} {s : Scan} {l : String} (h : etok prev s = .nodeType l) :
    s.typ = .name ∧ s.pfx = "" ∧ s.name = l ∧ s.canBeFunc = true ∧ l ∈ nodeTypes ∧ isNodeType s = true := by
  have ht : s.typ = .name := etok_typ (by rw [h]; rfl)
  rw [etok_name ht] at h
  rcases classifyName_cases prev s.pfx s.name s.canBeFunc with
    ⟨_, _, e⟩ | ⟨_, _, e⟩ | ⟨_, _, _, e⟩ | ⟨_, _, b, c, d, e⟩ | ⟨_, _, _, _, e⟩ | ⟨_, _, _, e⟩ <;>
    (rw [e] at h; cases h)
  exact ⟨ht, c, rfl, b, d, (isNodeType_iff s).2 ⟨c, d⟩⟩

theorem etok_funcName {prev : Option ETok} {s : Scan} {p l : String} (h : etok prev s = .funcName p l) :
    s.typ = .name ∧ s.pfx = p ∧ s.name = l ∧ s.canBeFunc = true ∧ isNodeType s = false := by
  have ht : s.typ = .name := etok_typ (by rw [h]; rfl)
  rw [etok_name ht] at h
  rcases classifyName_cases prev s.pfx s.name s.canBeFunc with
    ⟨_, _, e⟩ | ⟨_, _, e⟩ | ⟨_, _, _, e⟩ | ⟨_, _, _, _, _, e⟩ | ⟨_, _, b, c, e⟩ | ⟨_, _, _, e⟩ <;>
    (rw [e] at h; cases h)
  refine ⟨ht, rfl, rfl, b, ?_⟩
  cases hn : isNodeType s with
  | false => rfl
  | true => exact absurd ((isNodeType_iff s).1 hn) c

theorem etok_opName {prev : Option ETok} {s : Scan} {w : String} (h : etok prev s = .opName w) :
    s.typ = .name ∧ s.pfx = "" ∧ s.name = w ∧ operatorPosition prev = true := by
  have ht : s.typ = .name := etok_typ (by rw [h]; rfl)
  rw [etok_name ht] at h
  rcases classifyName_cases prev s.pfx s.name s.canBeFunc with
    ⟨_, _, e⟩ | ⟨_, _, e⟩ | ⟨_, b, c, e⟩ | ⟨_, _, _, _, _, e⟩ | ⟨_, _, _, _, e⟩ | ⟨_, _, _, e⟩ <;>
    (rw [e] at h; cases h)
  exact ⟨ht, c, rfl, b⟩

/-! ## inversion of `ES` -/

theorem ES.nil_inv {prev : Option ETok} {s : Scan} (h : ES prev s []) : s.typ = .eof := by
  generalize hl : ([] : List ETok) = L at h
  cases h with
  | eof he => exact he
  | _ => cases hl

theorem ES.cons_inv {prev : Option ETok} {s : Scan} {e : ETok} {ets : List ETok} (h : ES prev s (e :: ets)) :
    (s.typ ≠ .eof ∧ s.typ ≠ .dollar ∧ s.typ ≠ .bang ∧ e = etok prev s ∧
      ∃ s1, s.nextItem = .ok s1 ∧ (s.typ = .name → s.canBeFunc = true → s1.typ = .lparen) ∧ ES (some e) s1 ets) ∨
    (s.typ = .dollar ∧ ∃ s1 s2, s.nextItem = .ok s1 ∧ s1.typ = .name ∧ s1.name ≠ "*" ∧
      e = .varRef s1.pfx s1.name ∧ s1.nextItem = .ok s2 ∧ ES (some e) s2 ets) ∨
    (s.typ = .dollar ∧ e = .invalid) := by
  generalize hl : e :: ets = L at h
  cases h with
  | eof he => cases hl
  | tok h1 h2 h3 h4 h5 h6 =>
    cases hl
    exact .inl ⟨h1, h2, h3, rfl, _, h4, h5, h6⟩
  | var h1 h2 h3 h4 h5 h6 =>
    cases hl
    exact .inr (.inl ⟨h1, _, _, h2, h3, h4, rfl, h5, h6⟩)
  | bad h1 =>
    cases hl
    exact .inr (.inr ⟨h1, rfl⟩)

/-- a token that is one scanner item -/
theorem ES.tok_inv {prev : Option ETok} {s : Scan} {e : ETok} {ets : List ETok} {t : Tok}
    (h : ES prev s (e :: ets)) (ht : tokOf e = some t) :
    etok prev s = e ∧ s.typ = t ∧ ∃ s1, s.nextItem = .ok s1 ∧
      (s.typ = .name → s.canBeFunc = true → s1.typ = .lparen) ∧ ES (some e) s1 ets := by
  rcases h.cons_inv with ⟨_, _, _, he, s1, h1, h2, h3⟩ | ⟨_, s1, s2, _, _, _, he, _⟩ | ⟨_, he⟩
  · subst he
    exact ⟨rfl, etok_typ ht, s1, h1, h2, h3⟩
  · subst he; cases ht
  · subst he; cases ht

theorem ES.var_inv {prev : Option ETok} {s : Scan} {p l : String} {ets : List ETok}
    (h : ES prev s (.varRef p l :: ets)) :
    s.typ = .dollar ∧ ∃ s1 s2, s.nextItem = .ok s1 ∧ s1.typ = .name ∧ s1.pfx = p ∧ s1.name = l ∧
      s1.nextItem = .ok s2 ∧ ES (some (.varRef p l)) s2 ets := by
  rcases h.cons_inv with ⟨_, _, _, he, _⟩ | ⟨hd, s1, s2, h1, h2, _, he, h3, h4⟩ | ⟨_, he⟩
  · exact absurd he.symm etok_ne_varRef
  · cases he
    exact ⟨hd, s1, s2, h1, h2, rfl, rfl, h3, h4⟩
  · cases he

/-- a scanner item with a single reading is that ExprToken -/
theorem ES.of_simple {prev : Option ETok} {s : Scan} {ets : List ETok} {e : ETok} (h : ES prev s ets)
    (hs : simpleE s.typ = some e) : ∃ r, ets = e :: r := by
  cases ets with
  | nil => rw [h.nil_inv] at hs; cases hs
  | cons e' r =>
    rcases h.cons_inv with ⟨_, _, _, he, _⟩ | ⟨hd, _⟩ | ⟨hd, _⟩
    · rw [etok_simple hs] at he
      exact ⟨r, by rw [he]⟩
    · rw [hd] at hs; cases hs
    · rw [hd] at hs; cases hs

theorem ES.of_axe {prev : Option ETok} {s : Scan} {ets : List ETok} (h : ES prev s ets)
    (hs : s.typ = .axe) : ∃ r, ets = .axisName s.name :: r := by
  cases ets with
  | nil => rw [h.nil_inv] at hs; cases hs
  | cons e' r =>
    rcases h.cons_inv with ⟨_, _, _, he, _⟩ | ⟨hd, _⟩ | ⟨hd, _⟩
    · refine ⟨r, ?_⟩
      rw [he]
      simp [etok, hs]
    · rw [hd] at hs; cases hs
    · rw [hd] at hs; cases hs

/-- the head is not the ExprToken `e` of a single-reading item: the scanner is not at that item -/
theorem ES.typ_ne {prev : Option ETok} {s : Scan} {ets : List ETok} {e : ETok} {t : Tok} (h : ES prev s ets)
    (hs : simpleE t = some e) (hne : ∀ r, ets ≠ e :: r) : s.typ ≠ t := by
  intro ht
  subst ht
  obtain ⟨r, hr⟩ := h.of_simple hs
  exact hne r hr

/-! ## the tokens that can follow a complete sub-expression -/

/-- what can follow a complete operand in an expression of the grammar: nothing, an operator, or a
closing `)` `]` or a `,` -/
def follow : List ETok → Bool
  | [] => true
  | t :: _ => t.isOperator || t == .rparen || t == .rbracket || t == .comma

/-! ## step starts -/

theorem startsStep_isStep {prev : Option ETok} {s : Scan} {ets : List ETok} (h : ES prev s ets)
    (hs : startsStep ets = true) : isStep s.typ = true := by
  cases ets with
  | nil => simp [startsStep] at hs
  | cons e r =>
    cases e <;> simp [startsStep] at hs <;>
      (have := (h.tok_inv rfl).2.1; rw [this]; rfl)

theorem not_startsStep_not_isStep {prev : Option ETok} {s : Scan} {ets : List ETok} (h : ES prev s ets)
    (hp : operatorPosition prev = false) (hs : startsStep ets = false) (hf : follow ets = true) :
    isStep s.typ = false := by
  cases hi : isStep s.typ with
  | false => rfl
  | true =>
    exfalso
    cases ets with
    | nil => rw [h.nil_inv] at hi; cases hi
    | cons e r =>
      simp only [isStep, Bool.or_eq_true, beq_iff_eq] at hi
      rcases hi with ((((ht | ht) | ht) | ht) | ht) | ht
      · obtain ⟨r', hr⟩ := h.of_simple (e := .dot) (by rw [ht]; rfl)
        cases hr; simp [startsStep] at hs
      · obtain ⟨r', hr⟩ := h.of_simple (e := .dotdot) (by rw [ht]; rfl)
        cases hr; simp [startsStep] at hs
      · obtain ⟨r', hr⟩ := h.of_simple (e := .at) (by rw [ht]; rfl)
        cases hr; simp [startsStep] at hs
      · obtain ⟨r', hr⟩ := h.of_axe ht
        cases hr; simp [startsStep] at hs
      · rcases h.cons_inv with ⟨_, _, _, he, _⟩ | ⟨hd, _⟩ | ⟨hd, _⟩
        · rw [etok_star ht, hp] at he
          subst he; simp [startsStep] at hs
        · rw [hd] at ht; cases ht
        · rw [hd] at ht; cases ht
      · rcases h.cons_inv with ⟨_, _, _, he, _⟩ | ⟨hd, _⟩ | ⟨hd, _⟩
        · rw [etok_name ht] at he
          rcases classifyName_cases prev s.pfx s.name s.canBeFunc with
            ⟨_, _, e'⟩ | ⟨_, _, e'⟩ | ⟨_, b, _, e'⟩ | ⟨_, _, _, _, _, e'⟩ | ⟨_, _, _, _, e'⟩ | ⟨_, _, _, e'⟩ <;>
            rw [e'] at he <;> subst he
          · simp [follow, ETok.isOperator] at hf
          · simp [startsStep] at hs
          · rw [hp] at b; cases b
          · simp [startsStep] at hs
          · simp [follow, ETok.isOperator] at hf
          · simp [startsStep] at hs
        · rw [hd] at ht; cases ht
        · rw [hd] at ht; cases ht

/-! ## primary starts -/

theorem startsPrimary_isPrimary {prev : Option ETok} {s : Scan} {ets : List ETok} (h : ES prev s ets)
    (hs : startsPrimary ets = true) : isPrimaryExpr s = true := by
  cases ets with
  | nil => simp [startsPrimary] at hs
  | cons e r =>
    cases e <;> simp [startsPrimary] at hs
    · have := (h.tok_inv rfl).2.1; simp [isPrimaryExpr, this]
    · obtain ⟨ht, _, _, hc, hn⟩ := etok_funcName (h.tok_inv rfl).1
      simp [isPrimaryExpr, ht, hc, hn]
    · have := (h.tok_inv rfl).2.1; simp [isPrimaryExpr, this]
    · have := (h.tok_inv rfl).2.1; simp [isPrimaryExpr, this]
    · have := h.var_inv.1; simp [isPrimaryExpr, this]

/-- the model takes an item for the start of a primary expression: so does the grammar, except for
`p:*(` (a name test followed by a stray parenthesis) and for two kinds of tokens no path can start with -/
theorem isPrimary_cases {prev : Option ETok} {s : Scan} {ets : List ETok} (h : ES prev s ets)
    (hp : isPrimaryExpr s = true) :
    startsPrimary ets = true ∨ (∃ p r, ets = .nsWild p :: .lparen :: r) ∨
      (∃ r, ets = .invalid :: r) ∨ (∃ w r, ets = .opName w :: r) := by
  cases ets with
  | nil => rw [isPrimaryExpr, h.nil_inv] at hp; simp at hp
  | cons e r =>
    rcases h.cons_inv with ⟨_, _, _, he, s1, _, hcf, hes1⟩ | ⟨hd, _, _, _, _, _, he, _⟩ | ⟨hd, he⟩
    · simp only [isPrimaryExpr, Bool.or_eq_true, Bool.and_eq_true, beq_iff_eq, Bool.not_eq_true'] at hp
      rcases hp with (((ht | ht) | ht) | ht) | ⟨⟨ht, hc⟩, hn⟩
      · subst he; simp [etok, ht, startsPrimary]
      · subst he; simp [etok, ht, startsPrimary]
      · exact absurd ht ‹_›
      · subst he; simp [etok, ht, startsPrimary]
      · rw [etok_name ht] at he
        have hlp := hcf ht hc
        rcases classifyName_cases prev s.pfx s.name s.canBeFunc with
          ⟨_, _, e'⟩ | ⟨_, _, e'⟩ | ⟨_, _, _, e'⟩ | ⟨_, _, _, c, d, e'⟩ | ⟨_, _, _, _, e'⟩ | ⟨_, _, b, e'⟩ <;>
          rw [e'] at he <;> subst he
        · exact .inr (.inr (.inl ⟨r, rfl⟩))
        · obtain ⟨r', hr⟩ := hes1.of_simple (e := .lparen) (by rw [hlp]; rfl)
          subst hr
          exact .inr (.inl ⟨_, _, rfl⟩)
        · exact .inr (.inr (.inr ⟨_, r, rfl⟩))
        · have := (isNodeType_iff s).2 ⟨c, d⟩
          rw [this] at hn; cases hn
        · simp [startsPrimary]
        · rw [hc] at b; cases b
    · subst he; simp [startsPrimary]
    · subst he; exact .inr (.inr (.inl ⟨r, rfl⟩))

/-! ## operators: `tokMatches` against `lookup` in a tier of `upperTiers` -/

theorem lookup_none {t : ETok} : ∀ {ops : List (ETok × String)}, ops.lookup t = none → ∀ op, (t, op) ∉ ops
  | [], _, _, h => by cases h
  | (k, v) :: ops, h, op, hm => by
    by_cases hk : t = k
    · subst hk
      simp [List.lookup] at h
    · have : (t == k) = false := by simpa using hk
      simp only [List.lookup, this] at h
      rcases List.mem_cons.1 hm with e | e
      · cases e; exact hk rfl
      · exact lookup_none h op e

/-- the keys of the tiers are Operators -/
theorem tier_key_isOperator {ops : List (ETok × String)} (hops : ops ∈ upperTiers) {t : ETok} {op : String}
    (h : (t, op) ∈ ops) : t.isOperator = true := by
  simp only [upperTiers, List.mem_cons, List.not_mem_nil, or_false] at hops
  rcases hops with rfl | rfl | rfl | rfl | rfl | rfl <;>
    simp only [List.mem_cons, List.not_mem_nil, or_false, Prod.mk.injEq] at h
  · rw [h.1]; rfl
  · rw [h.1]; rfl
  · rcases h with h | h <;> (rw [h.1]; rfl)
  · rcases h with h | h | h | h <;> (rw [h.1]; rfl)
  · rcases h with h | h <;> (rw [h.1]; rfl)
  · rcases h with h | h | h <;> (rw [h.1]; rfl)

theorem isOperator_pos {t : ETok} (h : t.isOperator = true) : operatorPosition (some t) = false := by
  cases t <;> simp [ETok.isOperator] at h <;> simp [operatorPosition, ETok.isOperator]

theorem isOperator_tokOf {t : ETok} (h : t.isOperator = true) : ∃ k, tokOf t = some k := by
  cases t <;> simp [ETok.isOperator] at h <;> exact ⟨_, rfl⟩

/-- the item is an operator word in operator position (or what follows is no continuation) -/
theorem word_hit {prev : Option ETok} {s : Scan} {t : ETok} {r : List ETok} {w : String}
    (h : ES prev s (t :: r)) (hpost : operatorPosition prev = true ∨ startsStep (t :: r) = false)
    (hf : follow (t :: r) = true) (ht : s.typ = .name) (hp : s.pfx = "") (hn : s.name = w)
    (hw : w ≠ "*") (hnt : w ∉ nodeTypes) : t = .opName w := by
  rcases h.cons_inv with ⟨_, _, _, he, _⟩ | ⟨hd, _⟩ | ⟨hd, _⟩
  · rw [etok_name ht, hp, hn] at he
    rcases classifyName_cases prev "" w s.canBeFunc with
      ⟨a, _, e'⟩ | ⟨a, _, e'⟩ | ⟨_, _, _, e'⟩ | ⟨_, _, _, _, d, e'⟩ | ⟨_, a, _, _, e'⟩ | ⟨_, a, _, e'⟩ <;>
      rw [e'] at he <;> subst he
    · exact absurd a hw
    · exact absurd a hw
    · rfl
    · exact absurd d hnt
    · simp [follow, ETok.isOperator] at hf
    · rcases hpost with hpo | hst
      · exact absurd ⟨hpo, rfl⟩ a
      · simp [startsStep] at hst
  · rw [hd] at ht; cases ht
  · rw [hd] at ht; cases ht

theorem star_hit {prev : Option ETok} {s : Scan} {t : ETok} {r : List ETok}
    (h : ES prev s (t :: r)) (hpost : operatorPosition prev = true ∨ startsStep (t :: r) = false)
    (ht : s.typ = .star) : t = .mul := by
  rcases h.cons_inv with ⟨_, _, _, he, _⟩ | ⟨hd, _⟩ | ⟨hd, _⟩
  · rw [etok_star ht] at he
    cases hpo : operatorPosition prev with
    | true => rw [hpo] at he; simpa using he
    | false =>
      rw [hpo] at he
      simp at he
      subst he
      rcases hpost with h1 | h1
      · rw [hpo] at h1; cases h1
      · simp [startsStep] at h1
  · rw [hd] at ht; cases ht
  · rw [hd] at ht; cases ht

theorem sym_hit {prev : Option ETok} {s : Scan} {t e : ETok} {r : List ETok}
    (h : ES prev s (t :: r)) (hs : simpleE s.typ = some e) : t = e := by
  obtain ⟨r', hr⟩ := h.of_simple hs
  cases hr; rfl

/-- the reference finds the operator `op` of the tier at the head: so does `tokMatches` -/
theorem tier_hit {ops : List (ETok × String)} (hops : ops ∈ upperTiers) {prev : Option ETok} {s : Scan}
    {t : ETok} {r : List ETok} {op : String} (h : ES prev s (t :: r)) (hl : ops.lookup t = some op) :
    (ops.map Prod.snd).find? (tokMatches s) = some op := by
  have hm := mem_of_lookup hl
  simp only [upperTiers, List.mem_cons, List.not_mem_nil, or_false] at hops
  rcases hops with rfl | rfl | rfl | rfl | rfl | rfl <;>
    simp only [List.mem_cons, List.not_mem_nil, or_false, Prod.mk.injEq] at hm
  · obtain ⟨rfl, rfl⟩ := hm
    obtain ⟨a, b, c, _⟩ := etok_opName (h.tok_inv rfl).1
    simp [tokMatches, a, b, c]
  · obtain ⟨rfl, rfl⟩ := hm
    obtain ⟨a, b, c, _⟩ := etok_opName (h.tok_inv rfl).1
    simp [tokMatches, a, b, c]
  · rcases hm with ⟨rfl, rfl⟩ | ⟨rfl, rfl⟩ <;>
      (have a := (h.tok_inv rfl).2.1; simp [tokMatches, a])
  · rcases hm with ⟨rfl, rfl⟩ | ⟨rfl, rfl⟩ | ⟨rfl, rfl⟩ | ⟨rfl, rfl⟩ <;>
      (have a := (h.tok_inv rfl).2.1; simp [tokMatches, a])
  · rcases hm with ⟨rfl, rfl⟩ | ⟨rfl, rfl⟩ <;>
      (have a := (h.tok_inv rfl).2.1; simp [tokMatches, a])
  · rcases hm with ⟨rfl, rfl⟩ | ⟨rfl, rfl⟩ | ⟨rfl, rfl⟩
    · have a := (h.tok_inv rfl).2.1; simp [tokMatches, a]
    · obtain ⟨a, b, c, _⟩ := etok_opName (h.tok_inv rfl).1
      simp [tokMatches, a, b, c]
    · obtain ⟨a, b, c, _⟩ := etok_opName (h.tok_inv rfl).1
      simp [tokMatches, a, b, c]

/-- the reference finds no operator of the tier at the head: neither does `tokMatches`, provided the
head is in operator position (or no step can start there) and can follow an operand -/
theorem tier_miss {ops : List (ETok × String)} (hops : ops ∈ upperTiers) {prev : Option ETok} {s : Scan}
    {t : ETok} {r : List ETok} (h : ES prev s (t :: r))
    (hpost : operatorPosition prev = true ∨ startsStep (t :: r) = false)
    (hf : follow (t :: r) = true) (hl : ops.lookup t = none) :
    (ops.map Prod.snd).find? (tokMatches s) = none := by
  have hn := lookup_none hl
  rw [List.find?_eq_none]
  intro op hop hm
  have W : ∀ w, s.typ = .name → s.pfx = "" → s.name = w → w ≠ "*" → w ∉ nodeTypes → t = .opName w :=
    fun w a b c d e => word_hit h hpost hf a b c d e
  have S : ∀ e, simpleE s.typ = some e → t = e := fun e a => sym_hit h a
  have M : s.typ = .star → t = .mul := fun a => star_hit h hpost a
  simp only [upperTiers, List.mem_cons, List.not_mem_nil, or_false] at hops
  rcases hops with rfl | rfl | rfl | rfl | rfl | rfl <;>
    simp only [List.map_cons, List.map_nil, List.mem_cons, List.not_mem_nil, or_false] at hop
  · subst hop
    simp [tokMatches] at hm
    have := W "or" hm.1.1 hm.1.2 hm.2 (by decide) (by decide)
    subst this; exact hn "or" (by simp)
  · subst hop
    simp [tokMatches] at hm
    have := W "and" hm.1.1 hm.1.2 hm.2 (by decide) (by decide)
    subst this; exact hn "and" (by simp)
  · rcases hop with rfl | rfl <;> simp [tokMatches] at hm
    · have := S .eq (by rw [hm]; rfl); subst this; exact hn "=" (by simp)
    · have := S .ne (by rw [hm]; rfl); subst this; exact hn "!=" (by simp)
  · rcases hop with rfl | rfl | rfl | rfl <;> simp [tokMatches] at hm
    · have := S .lt (by rw [hm]; rfl); subst this; exact hn "<" (by simp)
    · have := S .gt (by rw [hm]; rfl); subst this; exact hn ">" (by simp)
    · have := S .le (by rw [hm]; rfl); subst this; exact hn "<=" (by simp)
    · have := S .ge (by rw [hm]; rfl); subst this; exact hn ">=" (by simp)
  · rcases hop with rfl | rfl <;> simp [tokMatches] at hm
    · have := S .plus (by rw [hm]; rfl); subst this; exact hn "+" (by simp)
    · have := S .minus (by rw [hm]; rfl); subst this; exact hn "-" (by simp)
  · rcases hop with rfl | rfl | rfl <;> simp [tokMatches] at hm
    · have := M hm; subst this; exact hn "*" (by simp)
    · have := W "div" hm.1.1 hm.1.2 hm.2 (by decide) (by decide)
      subst this; exact hn "div" (by simp)
    · have := W "mod" hm.1.1 hm.1.2 hm.2 (by decide) (by decide)
      subst this; exact hn "mod" (by simp)

/-- the same for the union tier (which the reference parser handles in `pUnionLoop`) -/
theorem union_hit {prev : Option ETok} {s : Scan} {r : List ETok} (h : ES prev s (.union :: r)) :
    (["|"] : List String).find? (tokMatches s) = some "|" := by
  have a := (h.tok_inv rfl).2.1
  simp [tokMatches, a]

theorem union_miss {prev : Option ETok} {s : Scan} {ets : List ETok} (h : ES prev s ets)
    (hne : ∀ r, ets ≠ .union :: r) : (["|"] : List String).find? (tokMatches s) = none := by
  have := h.typ_ne (t := .union) rfl hne
  simp [tokMatches, this]

end XPathV.Lemmas.ParserFull
