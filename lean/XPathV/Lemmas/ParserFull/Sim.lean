import XPathV.Lemmas.ParserFull.NodeTest
import XPathV.Lemmas.ParserFull.RefFacts
import XPathV.Lemmas.ParserFuel
/-!
# The simulation: every function of the reference parser against the corresponding function of the model

`Simu cfg ns rf`: for each of the thirteen mutually recursive functions of the reference parser
(`Spec/FullGrammar.lean` §3) run with fuel `rf`: if it returns `(b, rest)` from the classified stream
`ets`, and the model's scanner stands at `ets` (`Pre`; for the loops, `Post`: it stands there *after an
operand*), and `rest` can follow an operand (`follow`), then for every model fuel `f` the corresponding
model function is `Sim`-related to `b` (see `SimBase.lean`) and leaves the scanner at `rest` (`Post`).

| reference          | model                                                             |
|--------------------|-------------------------------------------------------------------|
| `pTier tiers`      | `parseChain (stagesOf tiers)` (`stagesOf upperTiers = stages`)    |
| `pTierLoop ops`    | `tierLoop (ops.map snd) (stagesOf more)`                          |
| `pUnary n`         | `unaryTail` = the unary stage after `n` minus signs (`skipMinus`) |
| `pUnion`           | `parseChain [.tier ["|"]]`                                        |
| `pUnionLoop`       | `tierLoop ["|"] []`                                               |
| `pPath`            | `parsePathExpr` (+ `parseLocationPath`)                           |
| `pRel`             | `parseRelLoc`                                                     |
| `pRelLoop`         | `relTail` = `parseRelLoc` after its first step                    |
| `pStep`            | `parseStep` (`pAxisSpec`/`pNodeTest`: `nodeTest_sim`)             |
| `pPreds`           | `stepPreds` (+ `parsePredicate`: `pred_sim`)                      |
| `pFilter`          | `parseFilterExpr`                                                 |
| `pPrimary`         | `parsePrimary` (+ `parseMethod`)                                  |
| `pArgs`            | `parseArgs`                                                       |
| Expr (`upperTiers`)| `parseExpression` (`expr_sim`)                                    |

Where the model is more lenient than the grammar the hypothesis `follow rest` is what excludes the
divergence (the reference parser does return there, but nothing can consume what it leaves):
`/` followed by a function name or an invalid token (`s_path`, the model goes on with a step),
`p:*(` (`s_path`: a function call `*` for the model), `.[…]` / `..[…]` (`s_step`: the model reads the
predicates), a word operator standing where the grammar sees a function name (`tier_miss`).
-/
set_option linter.unusedSimpArgs false
set_option linter.unusedVariables false
namespace XPathV.Lemmas.ParserFull
open XPathV XPathV.Model XPathV.Bridge XPathV.Spec.Full

/-- the classified stream ahead of the state is `ets` -/
def Pre (ets : List ETok) (s : Scan) : Prop := ∃ prev, ES prev s ets

/-- the state after a complete operand: the classified stream is `rest`, and either the last token
read puts the next one in operator position or no step can start here -/
def Post (rest : List ETok) (s : Scan) : Prop :=
  ∃ prev, ES prev s rest ∧ (operatorPosition prev = true ∨ startsStep rest = false)

theorem PostT.post {rest : List ETok} {s : Scan} (h : PostT rest s) : Post rest s := by
  obtain ⟨p, h1, h2⟩ := h; exact ⟨p, h1, .inl h2⟩

theorem Post.pre {rest : List ETok} {s : Scan} (h : Post rest s) : Pre rest s := by
  obtain ⟨p, h1, _⟩ := h; exact ⟨p, h1⟩

def TiersOK (tiers : List (List (ETok × String))) : Prop := ∀ ops ∈ tiers, ops ∈ upperTiers

theorem head_dec (e : ETok) (ets : List ETok) : (∃ r, ets = e :: r) ∨ (∀ r, ets ≠ e :: r) := by
  cases ets with
  | nil => exact .inr (fun r h => by cases h)
  | cons x r =>
    by_cases h : x = e
    · subst h; exact .inl ⟨r, rfl⟩
    · exact .inr (fun r' h' => by cases h'; exact h rfl)

/-- what one unit of reference fuel `rf` guarantees, for every amount of model fuel -/
structure Simu (cfg : PCfg) (ns : Option NsMap) (rf : Nat) : Prop where
  tier : ∀ {tiers : List (List (ETok × String))} {ets rest : List ETok} {b : Ast} {st : PState},
    TiersOK tiers → pTier ns rf tiers ets = some (b, rest) → follow rest = true → Pre ets st.s →
    ∀ f, Sim (parseChain f cfg (stagesOf tiers) st) b (Post rest) st.d cfg.depthLimit (nesting b)
  tierLoop : ∀ {ops : List (ETok × String)} {more : List (List (ETok × String))} {ets rest : List ETok}
    {acc b a0 : Ast} {st : PState}, ops ∈ upperTiers → TiersOK more →
    pTierLoop ns rf ops more acc ets = some (b, rest) → follow rest = true → Post ets st.s →
    normConv a0 = normConv acc →
    ∀ f, Sim (Model.tierLoop f cfg (ops.map Prod.snd) (stagesOf more) a0 st) b (Post rest) st.d cfg.depthLimit (nesting b)
  unary : ∀ {n : Nat} {ets rest : List ETok} {b : Ast} {st : PState} {signed m : Bool},
    pUnary ns rf n ets = some (b, rest) → follow rest = true → Pre ets st.s →
    (0 < n → signed = true) → (n = 0 → signed = (st.s.typ == .minus)) → m = decide (n % 2 = 1) →
    ∀ g f, Sim (unaryTail g f cfg [.tier ["|"]] signed m st) b (Post rest) st.d cfg.depthLimit (nesting b)
  union : ∀ {ets rest : List ETok} {b : Ast} {st : PState},
    pUnion ns rf ets = some (b, rest) → follow rest = true → Pre ets st.s →
    ∀ f, Sim (parseChain f cfg [.tier ["|"]] st) b (Post rest) st.d cfg.depthLimit (nesting b)
  unionLoop : ∀ {ets rest : List ETok} {acc b a0 : Ast} {st : PState},
    pUnionLoop ns rf acc ets = some (b, rest) → follow rest = true → Post ets st.s →
    normConv a0 = normConv acc →
    ∀ f, Sim (Model.tierLoop f cfg ["|"] [] a0 st) b (Post rest) st.d cfg.depthLimit (nesting b)
  path : ∀ {ets rest : List ETok} {b : Ast} {st : PState},
    pPath ns rf ets = some (b, rest) → follow rest = true → Pre ets st.s →
    ∀ f, Sim (parsePathExpr f cfg st) b (Post rest) st.d cfg.depthLimit (nesting b)
  rel : ∀ {ets rest : List ETok} {inp b i0 : Ast} {st : PState},
    pRel ns rf inp ets = some (b, rest) → follow rest = true → Pre ets st.s → normConv i0 = normConv inp →
    ∀ f, Sim (parseRelLoc f cfg i0 st) b (Post rest) st.d cfg.depthLimit (nesting b)
  relLoop : ∀ {ets rest : List ETok} {acc b a0 : Ast} {st : PState},
    pRelLoop ns rf acc ets = some (b, rest) → follow rest = true → Post ets st.s →
    normConv a0 = normConv acc →
    ∀ f, Sim (relTail f cfg a0 st) b (Post rest) st.d cfg.depthLimit (nesting b)
  step : ∀ {ets rest : List ETok} {inp b i0 : Ast} {st : PState},
    pStep ns rf inp ets = some (b, rest) → follow rest = true → Pre ets st.s → normConv i0 = normConv inp →
    ∀ f, Sim (parseStep f cfg i0 st) b (Post rest) st.d cfg.depthLimit (nesting b)
  preds : ∀ {ets rest : List ETok} {acc b a0 : Ast} {st : PState},
    pPreds ns rf acc ets = some (b, rest) → follow rest = true → Post ets st.s →
    normConv a0 = normConv acc →
    ∀ f, Sim (stepPreds f cfg a0 st) b (Post rest) st.d cfg.depthLimit (nesting b)
  filter : ∀ {ets rest : List ETok} {b : Ast} {st : PState},
    pFilter ns rf ets = some (b, rest) → follow rest = true → Pre ets st.s →
    ∀ f, Sim (parseFilterExpr f cfg st) b (Post rest) st.d cfg.depthLimit (nesting b)
  primary : ∀ {ets rest : List ETok} {b : Ast} {st : PState},
    pPrimary ns rf ets = some (b, rest) → Pre ets st.s →
    ∀ f, Sim (parsePrimary f cfg st) b (PostT rest) st.d cfg.depthLimit (nesting b)
  args : ∀ {ets rest : List ETok} {b : Ast} {st : PState},
    pArgs ns rf ets = some (b, rest) → Pre ets st.s →
    ∀ f, Sim (parseArgs f cfg st) b (Pre (.rparen :: rest)) st.d cfg.depthLimit (nesting b)

theorem simu_zero (cfg : PCfg) (ns : Option NsMap) : Simu cfg ns 0 where
  tier := by intro _ _ _ _ _ _ h; simp [pTier] at h
  tierLoop := by intro _ _ _ _ _ _ _ _ _ _ h; simp [pTierLoop] at h
  unary := by intro _ _ _ _ _ _ _ h; simp [pUnary] at h
  union := by intro _ _ _ _ h; simp [pUnion] at h
  unionLoop := by intro _ _ _ _ _ _ h; simp [pUnionLoop] at h
  path := by intro _ _ _ _ h; simp [pPath] at h
  rel := by intro _ _ _ _ _ _ h; simp [pRel] at h
  relLoop := by intro _ _ _ _ _ _ h; simp [pRelLoop] at h
  step := by intro _ _ _ _ _ _ h; simp [pStep] at h
  preds := by intro _ _ _ _ _ _ h; simp [pPreds] at h
  filter := by intro _ _ _ _ h; simp [pFilter] at h
  primary := by intro _ _ _ _ h; simp [pPrimary] at h
  args := by intro _ _ _ _ h; simp [pArgs] at h

section Steps
variable {cfg : PCfg} {ns : Option NsMap} {rf : Nat}

theorem s_rel (ih : Simu cfg ns rf) {ets rest : List ETok} {inp b i0 : Ast} {st : PState}
    (h : pRel ns (rf+1) inp ets = some (b, rest)) (hf : follow rest = true) (hpre : Pre ets st.s)
    (hi : normConv i0 = normConv inp) (f : Nat) : Sim (parseRelLoc f cfg i0 st) b (Post rest) st.d cfg.depthLimit (nesting b) := by
  cases f with
  | zero => simp only [parseRelLoc]; exact Sim.fuel
  | succ f =>
    simp only [pRel] at h
    split at h
    · rename_i t rest1 hst
      rw [parseRelLoc_succ]
      refine Sim.bind (ih.step hst (pRelLoop_follow h hf) hpre hi f) (pRelLoop_nest _ h) ?_
      intro a st1 ha hp hd1
      exact (ih.relLoop h hf hp ha f).cast hd1
    · cases h

theorem s_relLoop (ih : Simu cfg ns rf) {ets rest : List ETok} {acc b a0 : Ast} {st : PState}
    (h : pRelLoop ns (rf+1) acc ets = some (b, rest)) (hf : follow rest = true) (hpost : Post ets st.s)
    (ha : normConv a0 = normConv acc) (f : Nat) : Sim (relTail f cfg a0 st) b (Post rest) st.d cfg.depthLimit (nesting b) := by
  obtain ⟨prev, hes, hpp⟩ := hpost
  unfold pRelLoop at h
  split at h
  · cases h
  · cases ‹rf + 1 = Nat.succ _›
    obtain ⟨_, hty, s1, hn, _, hes1⟩ := hes.tok_inv rfl
    split at h
    · rename_i t rest' hst
      unfold relTail
      simp only [hty, next_ok hn, ok_bind]
      cases f with
      | zero => simp only [parseRelLoc]; exact Sim.fuel
      | succ f =>
        rw [parseRelLoc_succ]
        refine Sim.bind (ih.step hst (pRelLoop_follow h hf) ⟨_, hes1⟩ ha f) (pRelLoop_nest _ h) ?_
        intro a st1 ha1 hp1 hd1
        exact (ih.relLoop h hf hp1 ha1 f).cast hd1
    · cases h
  · cases ‹rf + 1 = Nat.succ _›
    obtain ⟨_, hty, s1, hn, _, hes1⟩ := hes.tok_inv rfl
    split at h
    · rename_i t rest' hst
      unfold relTail
      simp only [hty, next_ok hn, ok_bind]
      cases f with
      | zero => simp only [parseRelLoc]; exact Sim.fuel
      | succ f =>
        rw [parseRelLoc_succ]
        refine Sim.bind (ih.step hst (pRelLoop_follow h hf) ⟨_, hes1⟩ (normConv_dos ha) f) (pRelLoop_nest _ h) ?_
        intro a st1 ha1 hp1 hd1
        exact (ih.relLoop h hf hp1 ha1 f).cast hd1
    · cases h
  · rename_i hs hss
    simp only [Option.some.injEq, Prod.mk.injEq] at h
    obtain ⟨rfl, rfl⟩ := h
    have t1 := hes.typ_ne (t := .slash) rfl (fun r e => hs r e)
    have t2 := hes.typ_ne (t := .slashslash) rfl (fun r e => hss r e)
    unfold relTail
    split
    · exact absurd ‹_› t2
    · exact absurd ‹_› t1
    · exact Sim.pure ha ⟨prev, hes, hpp⟩ rfl

theorem tiersOK_upper : TiersOK upperTiers := fun _ h => h

/-- `parseExpression` is the tier chain under the depth counter -/
theorem expr_sim (hch : cfg.chain = stagesOf upperTiers) (ih : Simu cfg ns rf) {ets rest : List ETok} {b : Ast}
    {st : PState} (h : pTier ns rf upperTiers ets = some (b, rest)) (hf : follow rest = true)
    (hpre : Pre ets st.s) (f : Nat) :
    Sim (parseExpression f cfg st) b (Post rest) st.d cfg.depthLimit (nesting b + 1) := by
  cases f with
  | zero => simp only [parseExpression]; exact Sim.fuel
  | succ f =>
    simp only [parseExpression]
    split
    · rename_i hlim
      exact Sim.deep (by omega)
    · rw [hch]
      rcases ih.tier tiersOK_upper h hf (st := { st with d := st.d + 1 }) hpre f with e | ⟨e, hl⟩ | ⟨a, st1, e, ha, hp, hd⟩
      · rw [e]; exact Sim.fuel
      · rw [e]; exact Sim.deep (by simp only at hl; omega)
      · rw [e]
        exact Sim.ok ha hp (by simp only at hd ⊢; omega)

/-- `[` Expr `]` -/
theorem pred_sim (hch : cfg.chain = stagesOf upperTiers) (ih : Simu cfg ns rf) {prev : Option ETok}
    {rest1 rest' : List ETok} {c : Ast} {st : PState} (hes : ES prev st.s (.lbracket :: rest1))
    (h : pTier ns rf upperTiers rest1 = some (c, .rbracket :: rest')) (f : Nat) :
    Sim (parsePredicate f cfg st) c (PostT rest') st.d cfg.depthLimit (nesting c + 1) := by
  cases f with
  | zero => simp only [parsePredicate]; exact Sim.fuel
  | succ f =>
    obtain ⟨_, hty, s1, hn, _, hes1⟩ := hes.tok_inv rfl
    simp only [parsePredicate, skipItem_ok hty hn, ok_bind]
    refine Sim.bind (expr_sim hch ih h rfl ⟨_, hes1⟩ f) (Nat.le_refl _) ?_
    intro a st1 ha hp hd1
    obtain ⟨p1, hes2, _⟩ := hp
    obtain ⟨_, hty2, s2, hn2, _, hes3⟩ := hes2.tok_inv rfl
    simp only [skipItem_ok hty2 hn2, ok_bind]
    exact Sim.pure ha ⟨_, hes3, rfl⟩ hd1

theorem s_preds (hch : cfg.chain = stagesOf upperTiers) (ih : Simu cfg ns rf) {ets rest : List ETok}
    {acc b a0 : Ast} {st : PState} (h : pPreds ns (rf+1) acc ets = some (b, rest)) (hf : follow rest = true)
    (hpost : Post ets st.s) (ha : normConv a0 = normConv acc) (f : Nat) :
    Sim (stepPreds f cfg a0 st) b (Post rest) st.d cfg.depthLimit (nesting b) := by
  obtain ⟨prev, hes, hpp⟩ := hpost
  cases f with
  | zero => simp only [stepPreds]; exact Sim.fuel
  | succ f =>
    unfold pPreds at h
    split at h
    · cases h
    · cases ‹rf + 1 = Nat.succ _›
      obtain ⟨_, hty, _⟩ := hes.tok_inv rfl
      split at h
      · rename_i c rest' hc
        simp only [stepPreds, hty, beq_self_eq_true, ↓reduceIte]
        refine Sim.bind (pred_sim hch ih hes hc f) (pPreds_nest_c h) ?_
        intro c0 st1 hc0 hp1 hd1
        exact (ih.preds h hf hp1.post (by simp [ha, hc0]) f).cast hd1
      · cases h
    · rename_i hlb
      simp only [Option.some.injEq, Prod.mk.injEq] at h
      obtain ⟨rfl, rfl⟩ := h
      have t1 := hes.typ_ne (t := .lbracket) rfl (fun r e => hlb r e)
      have : (st.s.typ == .lbracket) = false := by simpa using t1
      simp only [stepPreds, this, Bool.false_eq_true, ↓reduceIte]
      exact Sim.pure ha ⟨prev, hes, hpp⟩ rfl

theorem s_filter (ih : Simu cfg ns rf) {ets rest : List ETok} {b : Ast} {st : PState}
    (h : pFilter ns (rf+1) ets = some (b, rest)) (hf : follow rest = true) (hpre : Pre ets st.s) (f : Nat) :
    Sim (parseFilterExpr f cfg st) b (Post rest) st.d cfg.depthLimit (nesting b) := by
  cases f with
  | zero => simp only [parseFilterExpr]; exact Sim.fuel
  | succ f =>
    simp only [pFilter] at h
    split at h
    · rename_i x rest1 hx
      simp only [parseFilterExpr]
      refine Sim.bind (ih.primary hx hpre f) (pPreds_nest _ h) ?_
      intro a st1 ha hp hd1
      exact (ih.preds h hf hp.post ha f).cast hd1
    · cases h

theorem s_args (hch : cfg.chain = stagesOf upperTiers) (ih : Simu cfg ns rf) {ets rest : List ETok} {b : Ast}
    {st : PState} (h : pArgs ns (rf+1) ets = some (b, rest)) (hpre : Pre ets st.s) (f : Nat) :
    Sim (parseArgs f cfg st) b (Pre (.rparen :: rest)) st.d cfg.depthLimit (nesting b) := by
  cases f with
  | zero => simp only [parseArgs]; exact Sim.fuel
  | succ f =>
    simp only [pArgs] at h
    split at h
    · rename_i a rest1 ha
      simp only [Option.some.injEq, Prod.mk.injEq] at h
      obtain ⟨rfl, rfl⟩ := h
      simp only [parseArgs]
      refine Sim.bind (expr_sim hch ih ha rfl hpre f) (by simp) ?_
      intro a0 st1 ha0 hp hd1
      obtain ⟨p1, hes1, _⟩ := hp
      have hty := (hes1.tok_inv rfl).2.1
      simp only [hty, beq_self_eq_true, ↓reduceIte]
      exact Sim.pure (by simp [ha0]) ⟨p1, hes1⟩ hd1
    · rename_i a rest1 ha
      split at h
      · rename_i as rest' has
        simp only [Option.some.injEq, Prod.mk.injEq] at h
        obtain ⟨rfl, rfl⟩ := h
        simp only [parseArgs]
        refine Sim.bind (expr_sim hch ih ha rfl hpre f) (by rw [nesting_acons]; exact Nat.le_max_left _ _) ?_
        intro a0 st1 ha0 hp hd1
        obtain ⟨p1, hes1, _⟩ := hp
        obtain ⟨_, hty, s2, hn, _, hes2⟩ := hes1.tok_inv rfl
        have hcr : (Tok.comma == Tok.rparen) = false := by decide
        simp only [hty, hcr, Bool.false_eq_true, ↓reduceIte, skipItem_ok hty hn, ok_bind]
        refine Sim.bind ((ih.args has (st := { st1 with s := s2 }) ⟨_, hes2⟩ f).cast hd1)
          (by rw [nesting_acons]; exact Nat.le_max_right _ _) ?_
        intro as0 st2 has0 hp2 hd2
        exact Sim.pure (by simp [ha0, has0]) hp2 hd2
      · cases h
    · cases h

theorem s_primary (hch : cfg.chain = stagesOf upperTiers) (ih : Simu cfg ns rf) {ets rest : List ETok} {b : Ast}
    {st : PState} (h : pPrimary ns (rf+1) ets = some (b, rest)) (hpre : Pre ets st.s) (f : Nat) :
    Sim (parsePrimary f cfg st) b (PostT rest) st.d cfg.depthLimit (nesting b) := by
  obtain ⟨prev, hes⟩ := hpre
  cases f with
  | zero => simp only [parsePrimary]; exact Sim.fuel
  | succ f =>
    unfold pPrimary at h
    split at h
    · cases h
    · -- variable reference
      simp only [Option.some.injEq, Prod.mk.injEq] at h
      obtain ⟨rfl, rfl⟩ := h
      obtain ⟨hty, s1, s2, hn1, hty1, hp, hl, hn2, hes2⟩ := hes.var_inv
      simp only [parsePrimary, hty, next_ok hn1, ok_bind, hty1, beq_self_eq_true, ↓reduceIte,
        next_ok (st := { st with s := s1 }) hn2]
      exact Sim.pure (by simp [hp, hl]) ⟨_, hes2, rfl⟩ rfl
    · -- literal
      simp only [Option.some.injEq, Prod.mk.injEq] at h
      obtain ⟨rfl, rfl⟩ := h
      obtain ⟨he, hty, s1, hn, _, hes1⟩ := hes.tok_inv rfl
      obtain ⟨_, hv⟩ := etok_literal he
      simp only [parsePrimary, hty, next_ok hn, ok_bind]
      exact Sim.pure (by simp [hv]) ⟨_, hes1, rfl⟩ rfl
    · -- number
      simp only [Option.some.injEq, Prod.mk.injEq] at h
      obtain ⟨rfl, rfl⟩ := h
      obtain ⟨he, hty, s1, hn, _, hes1⟩ := hes.tok_inv rfl
      obtain ⟨_, hv⟩ := etok_number he
      simp only [parsePrimary, hty, next_ok hn, ok_bind]
      exact Sim.pure (by simp [hv]) ⟨_, hes1, rfl⟩ rfl
    · -- ( Expr )
      cases ‹rf + 1 = Nat.succ _›
      obtain ⟨_, hty, s1, hn, _, hes1⟩ := hes.tok_inv rfl
      split at h
      · rename_i x rest' hx
        simp only [Option.some.injEq, Prod.mk.injEq] at h
        obtain ⟨rfl, rfl⟩ := h
        simp only [parsePrimary, hty, next_ok hn, ok_bind]
        refine Sim.bind (expr_sim hch ih hx rfl ⟨_, hes1⟩ f) (by simp) ?_
        intro a st1 ha hp1 hd1
        obtain ⟨p1, hes2, _⟩ := hp1
        obtain ⟨_, hty2, s2, hn2, _, hes3⟩ := hes2.tok_inv rfl
        simp only [skipItem_ok hty2 hn2, ok_bind]
        exact Sim.pure (normConv_paren ha) ⟨_, hes3, rfl⟩ hd1
      · cases h
    · -- f()
      simp only [Option.some.injEq, Prod.mk.injEq] at h
      obtain ⟨rfl, rfl⟩ := h
      obtain ⟨he, hty, s1, hn, _, hes1⟩ := hes.tok_inv rfl
      obtain ⟨_, hpf, hnm, hcf, hnt⟩ := etok_funcName he
      obtain ⟨_, hty1, s2, hn1, _, hes2⟩ := hes1.tok_inv rfl
      obtain ⟨_, hty2, s3, hn2, _, hes3⟩ := hes2.tok_inv rfl
      simp only [parsePrimary, hty, hcf, hnt, Bool.not_false, Bool.and_self, ↓reduceIte]
      cases f with
      | zero => simp only [parseMethod]; exact Sim.fuel
      | succ f =>
        simp only [parseMethod, skipItem_ok hty hn, ok_bind, skipItem_ok (st := { st with s := s1 }) hty1 hn1,
          hty2, bne_self_eq_false, Bool.false_eq_true, ↓reduceIte, pure, Except.pure,
          skipItem_ok (st := { st with s := s2 }) hty2 hn2]
        exact Sim.ok (by simp [hpf, hnm]) ⟨_, hes3, rfl⟩ rfl
    · -- f(args)
      rename_i hnr heq
      cases heq
      obtain ⟨he, hty, s1, hn, _, hes1⟩ := hes.tok_inv rfl
      obtain ⟨_, hpf, hnm, hcf, hnt⟩ := etok_funcName he
      obtain ⟨_, hty1, s2, hn1, _, hes2⟩ := hes1.tok_inv rfl
      split at h
      · rename_i as rest' has
        simp only [Option.some.injEq, Prod.mk.injEq] at h
        obtain ⟨rfl, rfl⟩ := h
        have hty2 : s2.typ ≠ .rparen := hes2.typ_ne (t := .rparen) rfl (fun r e => hnr r e)
        have hty2' : (s2.typ != .rparen) = true := by simpa using hty2
        simp only [parsePrimary, hty, hcf, hnt, Bool.not_false, Bool.and_self, ↓reduceIte]
        cases f with
        | zero => simp only [parseMethod]; exact Sim.fuel
        | succ f =>
          simp only [parseMethod, skipItem_ok hty hn, ok_bind, skipItem_ok (st := { st with s := s1 }) hty1 hn1,
            hty2', ↓reduceIte]
          refine Sim.bind (ih.args has ⟨_, hes2⟩ f) (by simp) ?_
          intro as0 st3 has0 hp3 hd3
          obtain ⟨p3, hes3⟩ := hp3
          obtain ⟨_, hty3, s4, hn3, _, hes4⟩ := hes3.tok_inv rfl
          simp only [skipItem_ok hty3 hn3, ok_bind]
          exact Sim.pure (by simp [hpf, hnm, has0]) ⟨_, hes4, rfl⟩ hd3
      · cases h
    · cases h

theorem s_step (hns : cfg.ns = ns) (ih : Simu cfg ns rf) {ets rest : List ETok} {inp b i0 : Ast} {st : PState}
    (h : pStep ns (rf+1) inp ets = some (b, rest)) (hf : follow rest = true) (hpre : Pre ets st.s)
    (hi : normConv i0 = normConv inp) (f : Nat) : Sim (parseStep f cfg i0 st) b (Post rest) st.d cfg.depthLimit (nesting b) := by
  obtain ⟨prev, hes⟩ := hpre
  cases f with
  | zero => simp only [parseStep]; exact Sim.fuel
  | succ f =>
    unfold pStep at h
    split at h
    · cases h
    · -- `.`
      simp only [Option.some.injEq, Prod.mk.injEq] at h
      obtain ⟨rfl, rfl⟩ := h
      obtain ⟨_, hty, s1, hn, _, hes1⟩ := hes.tok_inv rfl
      have hnl : s1.typ ≠ .lbracket := by
        intro e
        obtain ⟨r, hr⟩ := hes1.of_simple (e := .lbracket) (by rw [e]; rfl)
        subst hr; simp [follow, ETok.isOperator] at hf
      have hnl' : (s1.typ != .lbracket) = true := by simpa using hnl
      simp only [parseStep, hty, beq_self_eq_true, Bool.true_or, ↓reduceIte, next_ok hn, ok_bind, hnl']
      exact Sim.pure (normConv_abbrev "self" hi) ⟨_, hes1, .inl rfl⟩ rfl
    · -- `..`
      simp only [Option.some.injEq, Prod.mk.injEq] at h
      obtain ⟨rfl, rfl⟩ := h
      obtain ⟨_, hty, s1, hn, _, hes1⟩ := hes.tok_inv rfl
      have hnl : s1.typ ≠ .lbracket := by
        intro e
        obtain ⟨r, hr⟩ := hes1.of_simple (e := .lbracket) (by rw [e]; rfl)
        subst hr; simp [follow, ETok.isOperator] at hf
      have hnl' : (s1.typ != .lbracket) = true := by simpa using hnl
      have hdd : (Tok.dotdot == Tok.dot) = false := by decide
      simp only [parseStep, hty, hdd, beq_self_eq_true, Bool.or_true, Bool.false_eq_true, ↓reduceIte, next_ok hn,
        ok_bind, hnl']
      exact Sim.pure (normConv_abbrev "parent" hi) ⟨_, hes1, .inl rfl⟩ rfl
    · rename_i heq hd hdd
      cases heq
      have tdot := hes.typ_ne (t := .dot) rfl (fun r e => hd r e)
      have tdotdot := hes.typ_ne (t := .dotdot) rfl (fun r e => hdd r e)
      have bdot : (st.s.typ == .dot) = false := by simpa using tdot
      have bdotdot : (st.s.typ == .dotdot) = false := by simpa using tdotdot
      split at h
      · rename_i ax rest1 hax
        split at h
        · rename_i info rest' hnt
          unfold pAxisSpec at hax
          split at hax
          · -- AxisName ::
            rename_i a r
            split at hax
            · simp only [Option.some.injEq, Prod.mk.injEq] at hax
              obtain ⟨rfl, rfl⟩ := hax
              obtain ⟨he, hty, s1, hn, _, hes1⟩ := hes.tok_inv rfl
              obtain ⟨_, hnm⟩ := etok_axis he
              simp only [parseStep, hty, next_ok hn, ok_bind, hnm]
              refine Sim.bind (nodeTest_sim (st := { st with s := s1 }) hns (by simp [principal]) hes1 hnt hi
                (k := nesting b)) (Nat.le_refl _) ?_
              intro a st2 ha hp hd2
              exact (ih.preds h hf hp.post ha f).cast hd2
            · cases hax
          · -- @
            simp only [Option.some.injEq, Prod.mk.injEq] at hax
            obtain ⟨rfl, rfl⟩ := hax
            obtain ⟨_, hty, s1, hn, _, hes1⟩ := hes.tok_inv rfl
            simp only [parseStep, hty, next_ok hn, ok_bind]
            refine Sim.bind (nodeTest_sim (st := { st with s := s1 }) hns (by simp [principal]) hes1 hnt hi
              (k := nesting b)) (Nat.le_refl _) ?_
            intro a st2 ha hp hd2
            exact (ih.preds h hf hp.post ha f).cast hd2
          · -- no axis: child
            rename_i hax1 hat
            simp only [Option.some.injEq, Prod.mk.injEq] at hax
            obtain ⟨rfl, rfl⟩ := hax
            have tat := hes.typ_ne (t := .at) rfl (fun r e => hat r e)
            have taxe : st.s.typ ≠ .axe := by
              intro e
              obtain ⟨r, hr⟩ := hes.of_axe e
              exact hax1 _ r hr
            have tlp : st.s.typ ≠ .lparen := by
              intro e
              obtain ⟨r, hr⟩ := hes.of_simple (e := .lparen) (by rw [e]; rfl)
              subst hr
              simp [pNodeTest] at hnt
            simp only [parseStep, bdot, bdotdot, Bool.or_self, Bool.false_eq_true, ↓reduceIte]
            refine Sim.bind (nodeTest_sim hns (by simp [principal]) hes hnt hi (k := nesting b)) (Nat.le_refl _) ?_
            intro a st2 ha hp hd2
            exact (ih.preds h hf hp.post ha f).cast hd2
        · cases h
      · cases h

theorem s_path (ih : Simu cfg ns rf) {ets rest : List ETok} {b : Ast} {st : PState}
    (h : pPath ns (rf+1) ets = some (b, rest)) (hf : follow rest = true) (hpre : Pre ets st.s) (f : Nat) :
    Sim (parsePathExpr f cfg st) b (Post rest) st.d cfg.depthLimit (nesting b) := by
  obtain ⟨prev, hes⟩ := hpre
  cases f with
  | zero => simp only [parsePathExpr]; exact Sim.fuel
  | succ f =>
    unfold pPath at h
    split at h
    · cases h
    · -- `/` …
      cases ‹rf + 1 = Nat.succ _›
      obtain ⟨_, hty, s1, hn, _, hes1⟩ := hes.tok_inv rfl
      have hnp : isPrimaryExpr st.s = false := by simp [isPrimaryExpr, hty]
      simp only [parsePathExpr, hnp, Bool.false_eq_true, ↓reduceIte]
      cases f with
      | zero => simp only [parseLocationPath]; exact Sim.fuel
      | succ f =>
        simp only [parseLocationPath, hty, next_ok hn, ok_bind]
        split at h
        · rename_i hss
          have := startsStep_isStep hes1 hss
          simp only [this, ↓reduceIte]
          exact ih.rel h hf ⟨_, hes1⟩ (by simp) f
        · rename_i hss
          simp only [Option.some.injEq, Prod.mk.injEq] at h
          obtain ⟨rfl, rfl⟩ := h
          have hss' := Bool.eq_false_iff.2 hss
          have := not_startsStep_not_isStep hes1 rfl hss' hf
          simp only [this, Bool.false_eq_true, ↓reduceIte]
          exact Sim.pure (by simp) ⟨_, hes1, .inr hss'⟩ rfl
    · -- `//` …
      cases ‹rf + 1 = Nat.succ _›
      obtain ⟨_, hty, s1, hn, _, hes1⟩ := hes.tok_inv rfl
      have hnp : isPrimaryExpr st.s = false := by simp [isPrimaryExpr, hty]
      simp only [parsePathExpr, hnp, Bool.false_eq_true, ↓reduceIte]
      cases f with
      | zero => simp only [parseLocationPath]; exact Sim.fuel
      | succ f =>
        simp only [parseLocationPath, hty, next_ok hn, ok_bind]
        exact ih.rel h hf ⟨_, hes1⟩ normConv_dosRoot f
    · rename_i heq hs hss
      cases heq
      split at h
      · -- a filter expression, possibly continued by a path
        rename_i hsp
        have hp := startsPrimary_isPrimary hes hsp
        simp only [parsePathExpr, hp, ↓reduceIte]
        split at h
        · rename_i x rest1 hx
          refine Sim.bind (ih.filter hx rfl ⟨_, hes⟩ f) (pRel_nest h) ?_
          intro a st1 ha hp1 hd1
          obtain ⟨p1, hes1, _⟩ := hp1
          obtain ⟨_, hty, s2, hn, _, hes2⟩ := hes1.tok_inv rfl
          simp only [hty, next_ok hn, ok_bind]
          exact (ih.rel h hf ⟨_, hes2⟩ ha f).cast hd1
        · rename_i x rest1 hx
          refine Sim.bind (ih.filter hx rfl ⟨_, hes⟩ f) (by simpa using pRel_nest h) ?_
          intro a st1 ha hp1 hd1
          obtain ⟨p1, hes1, _⟩ := hp1
          obtain ⟨_, hty, s2, hn, _, hes2⟩ := hes1.tok_inv rfl
          simp only [hty, next_ok hn, ok_bind]
          exact (ih.rel h hf ⟨_, hes2⟩ (normConv_dos ha) f).cast hd1
        · rename_i hn1 hn2
          refine Sim.bind (ih.filter h hf ⟨_, hes⟩ f) (Nat.le_refl _) ?_
          intro a st1 ha hp1 hd1
          obtain ⟨p1, hes1, hpp⟩ := hp1
          have t1 : st1.s.typ ≠ .slash := hes1.typ_ne (t := .slash) rfl (fun r e => by
            subst e; exact hn1 _ _ h)
          have t2 : st1.s.typ ≠ .slashslash := hes1.typ_ne (t := .slashslash) rfl (fun r e => by
            subst e; exact hn2 _ _ h)
          simp only
          exact Sim.pure ha ⟨p1, hes1, hpp⟩ hd1
      · -- a location path
        rename_i hsp
        have hnp : isPrimaryExpr st.s = false := by
          cases hq : isPrimaryExpr st.s with
          | false => rfl
          | true =>
            exfalso
            rcases isPrimary_cases hes hq with h1 | ⟨p, r, rfl⟩ | ⟨r, rfl⟩ | ⟨w, r, rfl⟩
            · exact hsp h1
            · have := pRel_nsWild_lparen h
              subst this
              simp [follow, ETok.isOperator] at hf
            · rw [pRel_dead (.inl rfl)] at h; cases h
            · rw [pRel_dead (.inr ⟨w, rfl⟩)] at h; cases h
        simp only [parsePathExpr, hnp, Bool.false_eq_true, ↓reduceIte]
        cases f with
        | zero => simp only [parseLocationPath]; exact Sim.fuel
        | succ f =>
          have t1 := hes.typ_ne (t := .slash) rfl (fun r e => hs r e)
          have t2 := hes.typ_ne (t := .slashslash) rfl (fun r e => hss r e)
          simp only [parseLocationPath]
          exact ih.rel h hf ⟨_, hes⟩ rfl f

theorem chain_nil_sim (ih : Simu cfg ns rf) {ets rest : List ETok} {b : Ast} {st : PState}
    (h : pPath ns rf ets = some (b, rest)) (hf : follow rest = true) (hpre : Pre ets st.s) (f : Nat) :
    Sim (parseChain f cfg [] st) b (Post rest) st.d cfg.depthLimit (nesting b) := by
  cases f with
  | zero => simp only [parseChain]; exact Sim.fuel
  | succ f => rw [parseChain_nil]; exact ih.path h hf hpre f

theorem s_union (ih : Simu cfg ns rf) {ets rest : List ETok} {b : Ast} {st : PState}
    (h : pUnion ns (rf+1) ets = some (b, rest)) (hf : follow rest = true) (hpre : Pre ets st.s) (f : Nat) :
    Sim (parseChain f cfg [.tier ["|"]] st) b (Post rest) st.d cfg.depthLimit (nesting b) := by
  cases f with
  | zero => simp only [parseChain]; exact Sim.fuel
  | succ f =>
    simp only [pUnion] at h
    split at h
    · rename_i l rest1 hl
      rw [parseChain_tier]
      refine Sim.bind (chain_nil_sim ih hl (pUnionLoop_follow h hf) hpre f) (pUnionLoop_nest _ h) ?_
      intro a st1 ha hp hd1
      exact (ih.unionLoop h hf hp ha f).cast hd1
    · cases h

theorem s_unionLoop (ih : Simu cfg ns rf) {ets rest : List ETok} {acc b a0 : Ast} {st : PState}
    (h : pUnionLoop ns (rf+1) acc ets = some (b, rest)) (hf : follow rest = true) (hpost : Post ets st.s)
    (ha : normConv a0 = normConv acc) (f : Nat) :
    Sim (Model.tierLoop f cfg ["|"] [] a0 st) b (Post rest) st.d cfg.depthLimit (nesting b) := by
  obtain ⟨prev, hes, hpp⟩ := hpost
  cases f with
  | zero => simp only [Model.tierLoop]; exact Sim.fuel
  | succ f =>
    unfold pUnionLoop at h
    split at h
    · cases h
    · cases ‹rf + 1 = Nat.succ _›
      obtain ⟨_, hty, s1, hn, _, hes1⟩ := hes.tok_inv rfl
      split at h
      · rename_i r rest' hr
        simp only [Model.tierLoop, union_hit hes, next_ok hn, ok_bind]
        refine Sim.bind (chain_nil_sim ih hr (pUnionLoop_follow h hf) ⟨_, hes1⟩ f) (pUnionLoop_nest_r h) ?_
        intro r0 st2 hr0 hp2 hd2
        exact (ih.unionLoop h hf hp2 (by simp [ha, hr0]) f).cast hd2
      · cases h
    · rename_i hnu
      simp only [Option.some.injEq, Prod.mk.injEq] at h
      obtain ⟨rfl, rfl⟩ := h
      simp only [Model.tierLoop, union_miss hes (fun r e => hnu r e)]
      exact Sim.pure ha ⟨prev, hes, hpp⟩ rfl

theorem s_unary (ih : Simu cfg ns rf) {n : Nat} {ets rest : List ETok} {b : Ast} {st : PState} {signed m : Bool}
    (h : pUnary ns (rf+1) n ets = some (b, rest)) (hf : follow rest = true) (hpre : Pre ets st.s)
    (h1 : 0 < n → signed = true) (h2 : n = 0 → signed = (st.s.typ == .minus)) (hm : m = decide (n % 2 = 1))
    (g f : Nat) : Sim (unaryTail g f cfg [.tier ["|"]] signed m st) b (Post rest) st.d cfg.depthLimit (nesting b) := by
  obtain ⟨prev, hes⟩ := hpre
  rcases head_dec .minus ets with ⟨r, rfl⟩ | hnm
  · simp only [pUnary] at h
    obtain ⟨_, hty, s1, hn, _, hes1⟩ := hes.tok_inv rfl
    cases g with
    | zero => simp only [unaryTail, skipMinus]; exact Sim.fuel
    | succ g =>
      have e : unaryTail (g+1) f cfg [.tier ["|"]] signed m st =
          unaryTail g f cfg [.tier ["|"]] signed (!m) { st with s := s1 } := by
        simp only [unaryTail, skipMinus, hty, beq_self_eq_true, ↓reduceIte, next_ok hn, ok_bind]
      rw [e]
      have hsg : signed = true := by
        by_cases hn0 : n = 0
        · rw [h2 hn0, hty]; rfl
        · exact h1 (Nat.pos_of_ne_zero hn0)
      refine ih.unary h hf ⟨_, hes1⟩ (fun _ => hsg) (fun e => by omega) ?_ g f
      subst hm
      by_cases hodd : n % 2 = 1
      · have : ¬ (n + 1) % 2 = 1 := by omega
        simp [hodd, this]
      · have : (n + 1) % 2 = 1 := by omega
        simp [hodd, this]
  · have hnm' : ∀ rest, ets = .minus :: rest → False := fun r e => hnm r e
    simp only [pUnary] at h
    split at h
    · rename_i x rest1 hx
      simp only [Option.some.injEq, Prod.mk.injEq] at h
      obtain ⟨rfl, rfl⟩ := h
      have tm : st.s.typ ≠ .minus := hes.typ_ne (t := .minus) rfl hnm
      have bm : (st.s.typ == .minus) = false := by simpa using tm
      cases g with
      | zero => simp only [unaryTail, skipMinus]; exact Sim.fuel
      | succ g =>
        simp only [unaryTail, skipMinus, bm, Bool.false_eq_true, ↓reduceIte, pure, Except.pure, ok_bind]
        refine Sim.bind (ih.union hx hf ⟨_, hes⟩ f) (by simp) ?_
        intro a st1 ha hp hd1
        refine Sim.ok ?_ hp hd1
        by_cases hn0 : n = 0
        · subst hn0
          simp at hm
          subst hm
          rw [h2 rfl, bm]
          simp [negEnc, ha]
        · have hsg := h1 (Nat.pos_of_ne_zero hn0)
          subst hsg
          by_cases hodd : n % 2 = 1
          · have : m = true := by rw [hm]; simp [hodd]
            subst this
            simpa using normConv_negEnc_odd ha hodd
          · have : m = false := by rw [hm]; simp [hodd]
            subst this
            simpa using normConv_negEnc_even ha (by omega) (Nat.pos_of_ne_zero hn0)
    · cases h

theorem s_tier (ih : Simu cfg ns rf) {tiers : List (List (ETok × String))} {ets rest : List ETok} {b : Ast}
    {st : PState} (hok : TiersOK tiers) (h : pTier ns (rf+1) tiers ets = some (b, rest)) (hf : follow rest = true)
    (hpre : Pre ets st.s) (f : Nat) : Sim (parseChain f cfg (stagesOf tiers) st) b (Post rest) st.d cfg.depthLimit (nesting b) := by
  cases f with
  | zero => simp only [parseChain]; exact Sim.fuel
  | succ f =>
    cases tiers with
    | nil =>
      simp only [pTier] at h
      show Sim (parseChain (f+1) cfg [.unary, .tier ["|"]] st) b (Post rest) st.d cfg.depthLimit (nesting b)
      rw [parseChain_unary]
      exact ih.unary h hf hpre (by simp) (fun _ => rfl) (by simp) (f+1) f
    | cons ops more =>
      simp only [pTier] at h
      split at h
      · rename_i l rest1 hl
        have hops := hok ops List.mem_cons_self
        have hmore : TiersOK more := fun o ho => hok o (List.mem_cons_of_mem _ ho)
        show Sim (parseChain (f+1) cfg (.tier (ops.map Prod.snd) :: stagesOf more) st) b (Post rest) st.d cfg.depthLimit (nesting b)
        rw [parseChain_tier]
        refine Sim.bind (ih.tier hmore hl (pTierLoop_follow hops h hf) hpre f) (pTierLoop_nest _ h) ?_
        intro a st1 ha hp hd1
        exact (ih.tierLoop hops hmore h hf hp ha f).cast hd1
      · cases h

theorem s_tierLoop (ih : Simu cfg ns rf) {ops : List (ETok × String)} {more : List (List (ETok × String))}
    {ets rest : List ETok} {acc b a0 : Ast} {st : PState} (hops : ops ∈ upperTiers) (hmore : TiersOK more)
    (h : pTierLoop ns (rf+1) ops more acc ets = some (b, rest)) (hf : follow rest = true) (hpost : Post ets st.s)
    (ha : normConv a0 = normConv acc) (f : Nat) :
    Sim (Model.tierLoop f cfg (ops.map Prod.snd) (stagesOf more) a0 st) b (Post rest) st.d cfg.depthLimit (nesting b) := by
  obtain ⟨prev, hes, hpp⟩ := hpost
  cases f with
  | zero => simp only [Model.tierLoop]; exact Sim.fuel
  | succ f =>
    cases ets with
    | nil =>
      simp only [pTierLoop, Option.some.injEq, Prod.mk.injEq] at h
      obtain ⟨rfl, rfl⟩ := h
      have he := hes.nil_inv
      have hnone : (ops.map Prod.snd).find? (tokMatches st.s) = none := by
        rw [List.find?_eq_none]
        intro op _ hm
        exact ParserFuel.tokMatches_ne_eof _ _ (by simpa using hm) he
      simp only [Model.tierLoop, hnone]
      exact Sim.pure ha ⟨prev, hes, hpp⟩ rfl
    | cons t r =>
      simp only [pTierLoop] at h
      split at h
      · rename_i op hop
        have hhit := tier_hit hops hes hop
        have hisop := tier_key_isOperator hops (mem_of_lookup hop)
        obtain ⟨k, hk⟩ := isOperator_tokOf hisop
        obtain ⟨_, _, s1, hn, _, hes1⟩ := hes.tok_inv hk
        split at h
        · rename_i x rest' hx
          simp only [Model.tierLoop, hhit, next_ok hn, ok_bind]
          refine Sim.bind (ih.tier hmore hx (pTierLoop_follow hops h hf) ⟨_, hes1⟩ f) (pTierLoop_nest_r h) ?_
          intro x0 st2 hx0 hp2 hd2
          exact (ih.tierLoop hops hmore h hf hp2 (by simp [ha, hx0]) f).cast hd2
        · cases h
      · rename_i hop
        simp only [Option.some.injEq, Prod.mk.injEq] at h
        obtain ⟨rfl, rfl⟩ := h
        have hmiss := tier_miss hops hes hpp hf hop
        simp only [Model.tierLoop, hmiss]
        exact Sim.pure ha ⟨prev, hes, hpp⟩ rfl

theorem simu_succ (hns : cfg.ns = ns) (hch : cfg.chain = stagesOf upperTiers) (ih : Simu cfg ns rf) :
    Simu cfg ns (rf + 1) where
  tier := fun hok h hf hpre f => s_tier ih hok h hf hpre f
  tierLoop := fun hops hmore h hf hpost ha f => s_tierLoop ih hops hmore h hf hpost ha f
  unary := fun h hf hpre h1 h2 hm g f => s_unary ih h hf hpre h1 h2 hm g f
  union := fun h hf hpre f => s_union ih h hf hpre f
  unionLoop := fun h hf hpost ha f => s_unionLoop ih h hf hpost ha f
  path := fun h hf hpre f => s_path ih h hf hpre f
  rel := fun h hf hpre hi f => s_rel ih h hf hpre hi f
  relLoop := fun h hf hpost ha f => s_relLoop ih h hf hpost ha f
  step := fun h hf hpre hi f => s_step hns ih h hf hpre hi f
  preds := fun h hf hpost ha f => s_preds hch ih h hf hpost ha f
  filter := fun h hf hpre f => s_filter ih h hf hpre f
  primary := fun h hpre f => s_primary hch ih h hpre f
  args := fun h hpre f => s_args hch ih h hpre f

theorem simu_all (hns : cfg.ns = ns) (hch : cfg.chain = stagesOf upperTiers) : ∀ rf, Simu cfg ns rf
  | 0 => simu_zero cfg ns
  | rf + 1 => simu_succ hns hch (simu_all hns hch rf)

end Steps
end XPathV.Lemmas.ParserFull
