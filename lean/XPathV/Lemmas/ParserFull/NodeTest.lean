import XPathV.Lemmas.ParserFull.SimBase
/-!
# `parseNodeTest` against `pNodeTest`
-/
set_option linter.unusedSimpArgs false
set_option linter.unusedVariables false
namespace XPathV.Lemmas.ParserFull
open XPathV XPathV.Model XPathV.Bridge XPathV.Spec.Full

/-- the state after an operand: the classified stream, with the last token in operator-enabling position -/
def PostT (rest : List ETok) (s : Scan) : Prop := ∃ prev, ES prev s rest ∧ operatorPosition prev = true

theorem nodeTest_sim {cfg : PCfg} {ns : Option NsMap} (hns : cfg.ns = ns) {ax : String} {mt : NType}
    (hmt : mt = principal ax) {prev : Option ETok} {st : PState} {ets : List ETok} {info : AxisInfo}
    {rest : List ETok} (hes : ES prev st.s ets) (h : pNodeTest ns ax ets = some (info, rest))
    {i0 inp : Ast} (hi : normConv i0 = normConv inp) {L k : Nat} :
    Sim (parseNodeTest cfg i0 ax mt st) (.axis info inp) (PostT rest) st.d L k := by
  unfold pNodeTest at h
  split at h
  · -- `*`
    simp only [Option.some.injEq, Prod.mk.injEq] at h
    obtain ⟨rfl, rfl⟩ := h
    obtain ⟨_, hty, s1, hn, _, hes1⟩ := hes.tok_inv rfl
    unfold parseNodeTest
    simp only [hty, next_ok hn, ok_bind]
    exact Sim.pure (by simp [mkAxis, hmt, hi]) ⟨_, hes1, rfl⟩ rfl
  · -- `p:*`
    rename_i p r
    obtain ⟨he, hty, s1, hn, _, hes1⟩ := hes.tok_inv rfl
    obtain ⟨_, hnm, hpf, hpne⟩ := etok_nsWild he
    have hnt : isNodeType st.s = false := by
      cases hq : isNodeType st.s with
      | false => rfl
      | true => exact absurd (((isNodeType_iff _).1 hq).1) (by rw [hpf]; exact hpne)
    have hpne' : (p != "") = true := by simpa using hpne
    unfold parseNodeTest
    simp only [hty, hnt, Bool.and_false, Bool.false_eq_true, ↓reduceIte, next_ok hn, ok_bind, hnm, hpf, hpne', hns]
    unfold resolve at h
    have : (p == "") = false := by simpa using hpne
    simp only [this, Bool.false_eq_true, ↓reduceIte] at h
    cases ns with
    | none =>
      simp only [Option.some.injEq, Prod.mk.injEq] at h
      obtain ⟨rfl, rfl⟩ := h
      exact Sim.pure (by simp [mkAxis, hmt, hi]) ⟨_, hes1, rfl⟩ rfl
    | some m =>
      simp only at h ⊢
      cases hl : m.lookup p with
      | none => simp [hl] at h
      | some u =>
        simp only [hl, Option.map_some, Option.some.injEq, Prod.mk.injEq] at h
        obtain ⟨rfl, rfl⟩ := h
        exact Sim.pure (by simp [mkAxis, hmt, hi]) ⟨_, hes1, rfl⟩ rfl
  · -- `p:l`, `l`
    rename_i p l r
    obtain ⟨he, hty, s1, hn, _, hes1⟩ := hes.tok_inv rfl
    obtain ⟨_, hpf, hnm, hlne, hcf⟩ := etok_qname he
    have hlne' : (l == "*") = false := by simpa using hlne
    unfold parseNodeTest
    simp only [hty, hcf, Bool.false_and, Bool.false_eq_true, ↓reduceIte, next_ok hn, ok_bind, hnm, hpf, hlne', hns]
    unfold resolve at h
    by_cases hp : p = ""
    · subst hp
      simp only [beq_self_eq_true, ↓reduceIte, Option.some.injEq, Prod.mk.injEq] at h
      obtain ⟨rfl, rfl⟩ := h
      simp only [bne_self_eq_false, Bool.false_eq_true, ↓reduceIte]
      exact Sim.pure (by simp [mkAxis, hmt, hi]) ⟨_, hes1, rfl⟩ rfl
    · have hp1 : (p == "") = false := by simpa using hp
      have hp2 : (p != "") = true := by simpa using hp
      simp only [hp1, Bool.false_eq_true, ↓reduceIte] at h
      simp only [hp2, ↓reduceIte]
      cases ns with
      | none =>
        simp only [Option.some.injEq, Prod.mk.injEq] at h
        obtain ⟨rfl, rfl⟩ := h
        exact Sim.pure (by simp [mkAxis, hmt, hi]) ⟨_, hes1, rfl⟩ rfl
      | some m =>
        simp only at h ⊢
        cases hl : m.lookup p with
        | none => simp [hl] at h
        | some u =>
          simp only [hl, Option.map_some, Option.some.injEq, Prod.mk.injEq] at h
          obtain ⟨rfl, rfl⟩ := h
          exact Sim.pure (by simp [mkAxis, hmt, hi]) ⟨_, hes1, rfl⟩ rfl
  · -- node type test
    rename_i l r
    split at h
    · rename_i hl
      simp only [Option.some.injEq, Prod.mk.injEq] at h
      obtain ⟨rfl, rfl⟩ := h
      obtain ⟨he, hty, s1, hn, _, hes1⟩ := hes.tok_inv rfl
      obtain ⟨_, hpf, hnm, hcf, hmem, hnt⟩ := etok_nodeType he
      obtain ⟨_, hty1, s2, hn1, _, hes2⟩ := hes1.tok_inv rfl
      obtain ⟨_, hty2, s3, hn2, _, hes3⟩ := hes2.tok_inv rfl
      unfold parseNodeTest
      simp only [hty, hcf, hnt, Bool.and_self, ↓reduceIte, next_ok hn, ok_bind,
        skipItem_ok (st := { st with s := s1 }) hty1 hn1]
      simp only [hty2, bne_self_eq_false, Bool.and_false, Bool.false_eq_true, ↓reduceIte, ok_bind, pure, Except.pure,
        skipItem_ok (st := { st with s := s2 }) hty2 hn2]
      refine Sim.ok ?_ ⟨_, hes3, rfl⟩ rfl
      simp only [nodeTypes, List.mem_cons, List.not_mem_nil, or_false] at hmem
      rcases hmem with e | e | e | e <;> (rw [hnm, e]; simp [mkAxis, hmt, hi, normA, typeOfNodeType])
    · cases h
  · -- processing-instruction('x')
    rename_i v r _
    simp only [Option.some.injEq, Prod.mk.injEq] at h
    obtain ⟨rfl, rfl⟩ := h
    obtain ⟨he, hty, s1, hn, _, hes1⟩ := hes.tok_inv rfl
    obtain ⟨_, hpf, hnm, hcf, hmem, hnt⟩ := etok_nodeType he
    obtain ⟨_, hty1, s2, hn1, _, hes2⟩ := hes1.tok_inv rfl
    obtain ⟨he2, hty2, s3, hn2, _, hes3⟩ := hes2.tok_inv rfl
    obtain ⟨_, hsv⟩ := etok_literal he2
    obtain ⟨_, hty3, s4, hn3, _, hes4⟩ := hes3.tok_inv rfl
    unfold parseNodeTest
    simp only [hty, hcf, hnt, Bool.and_self, ↓reduceIte, next_ok hn, ok_bind,
      skipItem_ok (st := { st with s := s1 }) hty1 hn1]
    have hne : (Tok.string != Tok.rparen) = true := by decide
    simp only [hty2, hnm, hne, beq_self_eq_true, Bool.and_self, ↓reduceIte, ok_bind, pure, Except.pure,
      next_ok (st := { st with s := s2 }) hn2, skipItem_ok (st := { st with s := s3 }) hty3 hn3]
    refine Sim.ok ?_ ⟨_, hes4, rfl⟩ rfl
    simp [mkAxis, hmt, hi, normA, typeOfNodeType, hsv]
  · cases h

end XPathV.Lemmas.ParserFull
