import XPathV.Spec.FullGrammar
/-!
# Nesting depth of a parse tree, and its growth along the loops of the reference parser

`nesting b` counts the levels of Expr inside `b` that the parsers enter through a predicate, a
parenthesis or a function argument (each is one `parseExpression` call of the model, one unit of its
depth counter).
-/
set_option linter.unusedSimpArgs false
set_option linter.unusedVariables false
namespace XPathV.Lemmas.ParserFull
open XPathV XPathV.Spec.Full

/-- the number of nested Expr levels below the top one: `a[b[c]]` has 2, `(1)` has 1, `f(g(1))` has 2 -/
def nesting : Ast → Nat
  | .axis _ i => nesting i
  | .filter i c => max (nesting i) (nesting c + 1)
  | .call _ _ as => nesting as
  | .acons h t => max (nesting h + 1) (nesting t)
  | .oper _ l r => max (nesting l) (nesting r)
  | .group x => nesting x + 1
  | _ => 0

@[simp] theorem nesting_axis (a : AxisInfo) (i : Ast) : nesting (.axis a i) = nesting i := by simp [nesting]
@[simp] theorem nesting_filter (i c : Ast) : nesting (.filter i c) = max (nesting i) (nesting c + 1) := by
  simp [nesting]
@[simp] theorem nesting_call (n p : String) (as : Ast) : nesting (.call n p as) = nesting as := by simp [nesting]
@[simp] theorem nesting_acons (h t : Ast) : nesting (.acons h t) = max (nesting h + 1) (nesting t) := by
  simp [nesting]
@[simp] theorem nesting_oper (o : String) (l r : Ast) : nesting (.oper o l r) = max (nesting l) (nesting r) := by
  simp [nesting]
@[simp] theorem nesting_group (x : Ast) : nesting (.group x) = nesting x + 1 := by simp [nesting]
@[simp] theorem nesting_num (s : String) : nesting (.num s) = 0 := by simp [nesting]
@[simp] theorem nesting_str (s : String) : nesting (.str s) = 0 := by simp [nesting]
@[simp] theorem nesting_var (p n : String) : nesting (.var p n) = 0 := by simp [nesting]
@[simp] theorem nesting_root (s : String) : nesting (.root s) = 0 := by simp [nesting]
@[simp] theorem nesting_none : nesting .none = 0 := by simp [nesting]
@[simp] theorem nesting_anil : nesting .anil = 0 := by simp [nesting]

@[simp] theorem nesting_nodeStep (ax : String) (x : Ast) : nesting (nodeStep ax x) = nesting x := by
  simp [nodeStep]

@[simp] theorem nesting_dos (x : Ast) : nesting (dos x) = nesting x := by simp [dos]

@[simp] theorem nesting_negEnc (n : Nat) (x : Ast) : nesting (negEnc n x) = nesting x := by
  unfold negEnc
  split
  · rfl
  · split <;> simp

theorem pPreds_nest {ns : Option NsMap} : ∀ (f : Nat) {acc b : Ast} {ets rest : List ETok},
    pPreds ns f acc ets = some (b, rest) → nesting acc ≤ nesting b
  | 0, _, _, _, _, h => by simp [pPreds] at h
  | f+1, acc, b, ets, rest, h => by
    unfold pPreds at h
    split at h
    · cases h
    · cases ‹f + 1 = Nat.succ _›
      split at h
      · have := pPreds_nest f h
        simp only [nesting_filter] at this
        omega
      · cases h
    · simp only [Option.some.injEq, Prod.mk.injEq] at h
      rw [h.1]; exact Nat.le_refl _

theorem pStep_nest {ns : Option NsMap} {f : Nat} {inp b : Ast} {ets rest : List ETok}
    (h : pStep ns f inp ets = some (b, rest)) : nesting inp ≤ nesting b := by
  unfold pStep at h
  split at h
  · cases h
  · simp only [Option.some.injEq, Prod.mk.injEq] at h
    rw [← h.1]; simp
  · simp only [Option.some.injEq, Prod.mk.injEq] at h
    rw [← h.1]; simp
  · split at h
    · split at h
      · have := pPreds_nest _ h
        simpa using this
      · cases h
    · cases h

theorem pRelLoop_nest {ns : Option NsMap} : ∀ (f : Nat) {acc b : Ast} {ets rest : List ETok},
    pRelLoop ns f acc ets = some (b, rest) → nesting acc ≤ nesting b
  | 0, _, _, _, _, h => by simp [pRelLoop] at h
  | f+1, acc, b, ets, rest, h => by
    unfold pRelLoop at h
    split at h
    · cases h
    · cases ‹f + 1 = Nat.succ _›
      split at h
      · rename_i hst
        have h1 := pStep_nest hst
        have h2 := pRelLoop_nest f h
        omega
      · cases h
    · cases ‹f + 1 = Nat.succ _›
      split at h
      · rename_i hst
        have h1 := pStep_nest hst
        have h2 := pRelLoop_nest f h
        simp only [nesting_dos] at h1
        omega
      · cases h
    · simp only [Option.some.injEq, Prod.mk.injEq] at h
      rw [h.1]; exact Nat.le_refl _

theorem pRel_nest {ns : Option NsMap} {f : Nat} {inp b : Ast} {ets rest : List ETok}
    (h : pRel ns f inp ets = some (b, rest)) : nesting inp ≤ nesting b := by
  cases f with
  | zero => simp [pRel] at h
  | succ f =>
    simp only [pRel] at h
    split at h
    · rename_i hst
      have h1 := pStep_nest hst
      have h2 := pRelLoop_nest f h
      omega
    · cases h

theorem pTierLoop_nest {ns : Option NsMap} : ∀ (f : Nat) {ops : List (ETok × String)}
    {more : List (List (ETok × String))} {acc b : Ast} {ets rest : List ETok},
    pTierLoop ns f ops more acc ets = some (b, rest) → nesting acc ≤ nesting b
  | 0, _, _, _, _, _, _, h => by simp [pTierLoop] at h
  | f+1, ops, more, acc, b, ets, rest, h => by
    cases ets with
    | nil =>
      simp only [pTierLoop, Option.some.injEq, Prod.mk.injEq] at h
      rw [h.1]; exact Nat.le_refl _
    | cons t r =>
      simp only [pTierLoop] at h
      split at h
      · split at h
        · have := pTierLoop_nest f h
          simp only [nesting_oper] at this
          omega
        · cases h
      · simp only [Option.some.injEq, Prod.mk.injEq] at h
        rw [h.1]; exact Nat.le_refl _

/-- the right operand of a step of the tier loop is below the result too -/
theorem pTierLoop_nest_r {ns : Option NsMap} {f : Nat} {ops : List (ETok × String)}
    {more : List (List (ETok × String))} {op : String} {acc x b : Ast} {ets rest : List ETok}
    (h : pTierLoop ns f ops more (.oper op acc x) ets = some (b, rest)) : nesting x ≤ nesting b := by
  have := pTierLoop_nest f h
  simp only [nesting_oper] at this
  omega

theorem pUnionLoop_nest {ns : Option NsMap} : ∀ (f : Nat) {acc b : Ast} {ets rest : List ETok},
    pUnionLoop ns f acc ets = some (b, rest) → nesting acc ≤ nesting b
  | 0, _, _, _, _, h => by simp [pUnionLoop] at h
  | f+1, acc, b, ets, rest, h => by
    unfold pUnionLoop at h
    split at h
    · cases h
    · cases ‹f + 1 = Nat.succ _›
      split at h
      · have := pUnionLoop_nest f h
        simp only [nesting_oper] at this
        omega
      · cases h
    · simp only [Option.some.injEq, Prod.mk.injEq] at h
      rw [h.1]; exact Nat.le_refl _

theorem pUnionLoop_nest_r {ns : Option NsMap} {f : Nat} {acc x b : Ast} {ets rest : List ETok}
    (h : pUnionLoop ns f (.oper "|" acc x) ets = some (b, rest)) : nesting x ≤ nesting b := by
  have := pUnionLoop_nest f h
  simp only [nesting_oper] at this
  omega

theorem pPreds_nest_c {ns : Option NsMap} {f : Nat} {acc c b : Ast} {ets rest : List ETok}
    (h : pPreds ns f (.filter acc c) ets = some (b, rest)) : nesting c + 1 ≤ nesting b := by
  have := pPreds_nest f h
  simp only [nesting_filter] at this
  omega

end XPathV.Lemmas.ParserFull
