import XPathV.Spec.FullBridge
import XPathV.Model.Parser
/-!
# `normConv` on the constructors the two parsers use
-/
namespace XPathV.Lemmas.ParserFull
open XPathV XPathV.Model XPathV.Bridge XPathV.Spec.Full

/-- what `normConv` does to the record of a step -/
def normA (a : AxisInfo) : AxisInfo :=
  let a := if a.prop == "processing-instruction" then { a with typeTest := .all } else a
  { a with prop := if a.typeTest == .all && a.prop != "processing-instruction" then "" else a.prop }

/-- what `normConv` does to a parenthesised expression whose content is already normalised -/
def grp : Ast → Ast
  | .num l => .num l
  | .str t => .str t
  | y => .group y

@[simp] theorem normConv_root (s : String) : normConv (.root s) = .root "/" := by simp [normConv]
@[simp] theorem normConv_axis (a : AxisInfo) (i : Ast) : normConv (.axis a i) = .axis (normA a) (normConv i) := by
  simp [normConv, normA]
@[simp] theorem normConv_filter (i c : Ast) : normConv (.filter i c) = .filter (normConv i) (normConv c) := by
  simp [normConv]
@[simp] theorem normConv_call (n p : String) (as : Ast) : normConv (.call n p as) = .call n p (normConv as) := by
  simp [normConv]
@[simp] theorem normConv_acons (h t : Ast) : normConv (.acons h t) = .acons (normConv h) (normConv t) := by
  simp [normConv]
@[simp] theorem normConv_anil : normConv .anil = .anil := by simp [normConv]
@[simp] theorem normConv_none : normConv .none = .none := by simp [normConv]
@[simp] theorem normConv_oper (o : String) (l r : Ast) : normConv (.oper o l r) = .oper o (normConv l) (normConv r) := by
  simp [normConv]
@[simp] theorem normConv_str (s : String) : normConv (.str s) = .str s := by simp [normConv]
@[simp] theorem normConv_num (s : String) : normConv (.num s) = .num s := by simp [normConv]
@[simp] theorem normConv_var (p n : String) : normConv (.var p n) = .var p n := by simp [normConv]

theorem normConv_group (x : Ast) : normConv (.group x) = grp (normConv x) := by
  cases x <;> simp [normConv, grp]
  rename_i x
  generalize normConv x.group = y
  cases y <;> rfl

/-- the package keeps a literal in parentheses as the literal -/
theorem normConv_paren {a x : Ast} (h : normConv a = normConv x) :
    normConv (if isConstOperand a then a else .group a) = normConv (.group x) := by
  rw [normConv_group x, ← h]
  cases a <;> simp [isConstOperand, normConv_group, grp]

theorem normConv_dos {a x : Ast} (h : normConv a = normConv x) : normConv (dosNode a) = normConv (dos x) := by
  simp [dosNode, mkAxis, dos, nodeStep, h, normA]

theorem normConv_dosRoot : normConv (dosNode (.root "//")) = normConv (dos (.root "/")) := by
  simp [dosNode, mkAxis, dos, nodeStep, normA]

theorem normConv_abbrev {a x : Ast} (ax : String) (h : normConv a = normConv x) :
    normConv (mkAxis ax .all "" "" "" a) = normConv (nodeStep ax x) := by
  simp [mkAxis, nodeStep, h, normA]

theorem normConv_negEnc_odd {a x : Ast} {n : Nat} (h : normConv a = normConv x) (hn : n % 2 = 1) :
    normConv (.oper "*" a (.num "-1")) = normConv (negEnc n x) := by
  have : n ≠ 0 := by omega
  simp [negEnc, this, hn, h]

theorem normConv_negEnc_even {a x : Ast} {n : Nat} (h : normConv a = normConv x) (hn : n % 2 = 0) (h0 : 0 < n) :
    normConv (.oper "*" (.oper "*" a (.num "-1")) (.num "-1")) = normConv (negEnc n x) := by
  have : n ≠ 0 := by omega
  have h1 : ¬ n % 2 = 1 := by omega
  simp [negEnc, this, h1, h]

end XPathV.Lemmas.ParserFull
