import XPathV.Lemmas.ParserFull.Tokens
import XPathV.Lemmas.ParserFull.Norm
import XPathV.Lemmas.ParserFull.Depth
import XPathV.Model.Chain
/-!
# The simulation relation, and the model parser's equations in the form the proof uses
-/
set_option linter.unusedSimpArgs false
set_option linter.unusedVariables false
namespace XPathV.Lemmas.ParserFull
open XPathV XPathV.Model XPathV.Bridge XPathV.Spec.Full

/-- the model call `x`, started at depth counter `d` under the limit `L`, runs out of fuel, or
exceeds the depth limit — which happens only if `L < d + k` — or returns a tree equal to the reference
tree `b` up to `normConv`, in a scanner state satisfying `P`, with the depth counter back at `d` -/
def Sim (x : PRes) (b : Ast) (P : Scan → Prop) (d L k : Nat) : Prop :=
  x = .error .fuel ∨ (x = .error .tooComplex ∧ L < d + k) ∨
    ∃ a st', x = .ok (a, st') ∧ normConv a = normConv b ∧ P st'.s ∧ st'.d = d

section
variable {b b' : Ast} {P Q : Scan → Prop} {d d' L k k' : Nat}

theorem Sim.fuel : Sim (.error .fuel) b P d L k := .inl rfl
theorem Sim.deep (h : L < d + k) : Sim (.error .tooComplex) b P d L k := .inr (.inl ⟨rfl, h⟩)

theorem Sim.ok {a : Ast} {st' : PState} (h : normConv a = normConv b) (hp : P st'.s) (hd : st'.d = d) :
    Sim (.ok (a, st')) b P d L k := .inr (.inr ⟨a, st', rfl, h, hp, hd⟩)

theorem Sim.pure {a : Ast} {st' : PState} (h : normConv a = normConv b) (hp : P st'.s) (hd : st'.d = d) :
    Sim (Pure.pure (a, st')) b P d L k := Sim.ok h hp hd

theorem Sim.bind {x : PRes} {kk : Ast × PState → PRes} (hx : Sim x b P d L k) (hle : k ≤ k')
    (hk : ∀ a st', normConv a = normConv b → P st'.s → st'.d = d → Sim (kk (a, st')) b' Q d L k') :
    Sim (x >>= kk) b' Q d L k' := by
  rcases hx with e | ⟨e, hl⟩ | ⟨a, st', e, h1, h2, h3⟩
  · subst e; exact .inl rfl
  · subst e; exact .inr (.inl ⟨rfl, by omega⟩)
  · subst e; exact hk a st' h1 h2 h3

theorem Sim.cast {x : PRes} (hx : Sim x b P d L k) (e : d = d') : Sim x b P d' L k := e ▸ hx

end

theorem next_ok {st : PState} {s1 : Scan} (h : st.s.nextItem = .ok s1) : st.next = .ok { st with s := s1 } := by
  simp [PState.next, h]

theorem skipItem_ok {st : PState} {s1 : Scan} {t : Tok} (ht : st.s.typ = t) (h : st.s.nextItem = .ok s1) :
    st.skipItem t = .ok { st with s := s1 } := by
  simp [PState.skipItem, ht, next_ok h]

theorem ok_bind {α β : Type} (a : α) (k : α → Except PErr β) : ((.ok a : Except PErr α) >>= k) = k a := rfl

/-! ## the stage list that corresponds to a tail of `upperTiers` -/

def stagesOf (tiers : List (List (ETok × String))) : List Stage :=
  tiers.map (fun ops => Stage.tier (ops.map Prod.snd)) ++ [.unary, .tier ["|"]]

theorem stagesOf_upper : stagesOf upperTiers = stages := by decide

/-! ## the model parser's equations -/

/-- what `parseRelLoc` does after its first step -/
def relTail (f : Nat) (cfg : PCfg) (opnd : Ast) (st : PState) : PRes :=
  match st.s.typ with
  | .slashslash => do
    let st ← st.next
    parseRelLoc f cfg (dosNode opnd) st
  | .slash => do
    let st ← st.next
    parseRelLoc f cfg opnd st
  | _ => pure (opnd, st)

theorem parseRelLoc_succ (f : Nat) (cfg : PCfg) (inp : Ast) (st : PState) :
    parseRelLoc (f+1) cfg inp st = (parseStep f cfg inp st >>= fun p => relTail f cfg p.1 p.2) := by
  simp only [parseRelLoc, relTail]
  rfl

/-- the unary stage after some minus signs (`signed`: at least one was seen; `m`: an odd number) -/
def unaryTail (g f : Nat) (cfg : PCfg) (rest : List Stage) (signed m : Bool) (st : PState) : PRes := do
  let (minus, st) ← skipMinus g st m
  let (opnd, st) ← parseChain f cfg rest st
  pure (if minus then .oper "*" opnd (.num "-1")
        else if signed then .oper "*" (.oper "*" opnd (.num "-1")) (.num "-1") else opnd, st)

theorem parseChain_unary (f : Nat) (cfg : PCfg) (rest : List Stage) (st : PState) :
    parseChain (f+1) cfg (.unary :: rest) st = unaryTail (f+1) f cfg rest (st.s.typ == .minus) false st := by
  simp only [parseChain, unaryTail]

theorem parseChain_tier (f : Nat) (cfg : PCfg) (ops : List String) (rest : List Stage) (st : PState) :
    parseChain (f+1) cfg (.tier ops :: rest) st =
      (parseChain f cfg rest st >>= fun p => tierLoop f cfg ops rest p.1 p.2) := by
  simp only [parseChain]

theorem parseChain_nil (f : Nat) (cfg : PCfg) (st : PState) :
    parseChain (f+1) cfg [] st = parsePathExpr f cfg st := by
  simp only [parseChain]

end XPathV.Lemmas.ParserFull
